/-
  C06 (composition), part 1: the row predicate `Good` (= `StrandOk ∧ RowStrict`, what `format_agp` needs for a
  strictly valid file) is an invariant of `remap_to_input_assembly`:
  every row of every stored result and of every left-over scaffold satisfies it, and so does every gap row recorded
  with a left-over scaffold's input predecessor — provided the input rows and the join gap do.
-/
import AgpTpf.Proofs.C06Cols
import AgpTpf.Proofs.C07Pipeline
import AgpTpf.Proofs.C01MiddleFinal
namespace AgpTpf.C06
open AgpTpf
open AgpTpf.C01 (foldlM_inv)

/-- what `format_agp_valid_strict` asks of a row -/
def Good (r : Row) : Prop := StrandOk r ∧ RowStrict r

def RowsGood (rows : List Row) : Prop := ∀ x ∈ rows, Good x
def StoreGood (store : List Res) : Prop := ∀ r ∈ store, RowsGood r.o.rows
/-- left-over scaffolds: their rows, and the input gap rows recorded with their predecessor -/
def ExtraGood (extra : List (Scaffold × Option (Fragment × List Gap))) : Prop :=
  ∀ e ∈ extra, RowsGood e.1.rows ∧ ∀ prev gaps, e.2 = some (prev, gaps) → ∀ g ∈ gaps, Good (.gap g)

instance (r : Row) : Decidable (Good r) := by unfold Good; infer_instance

theorem rowsGood_nil : RowsGood [] := fun _ h => by cases h

theorem RowsGood.subset {a b : List Row} (h : RowsGood b) (hs : ∀ x ∈ a, x ∈ b) : RowsGood a :=
  fun x hx => h x (hs x hx)

/-- `Fragment.reverse` negates the strand: still one of 0, 1, -1; coordinates untouched -/
theorem Good.reverse {x : Row} (h : Good x) : Good x.reverse := by
  cases x with
  | gap g => exact h
  | frag f =>
    obtain ⟨h1, h2⟩ := h
    refine ⟨?_, h2⟩
    simp only [Row.reverse, Fragment.reverse, StrandOk] at h1 ⊢
    omega

/-- `Fragment.__init__` admits only strands 0, 1, -1 and `start ≤ end` -/
theorem mkFragment_good {oid : Nat} {name : Str} {s e st : Int} {tags : List Str} {f : Fragment}
    (h : mkFragment oid name s e st tags = .ok f) : Good (.frag f) := by
  unfold mkFragment at h
  split at h
  · cases h
  · next hs =>
    split at h
    · cases h
    · next hse =>
      cases h
      exact ⟨Decidable.not_not.mp hs, by simp only [RowStrict]; omega⟩

/-! ### `find_assembly_overlaps` -/

theorem findStage_good (input ptx : List Scaffold) (b b' : Build)
    (hin : ∀ sc ∈ input, RowsGood sc.rows) (h0 : b.store = [] ∧ b.found = [] ∧ b.multi = [])
    (h : findAssemblyOverlaps input ptx b = .ok b') :
    StoreGood b'.store ∧ b'.extra = b.extra ∧ b'.joinGap = b.joinGap := by
  obtain ⟨hm, h1, h2, _, _⟩ := C01.reg_after_find_aux input ptx b b' h0 h
  refine ⟨?_, h1, h2⟩
  intro r hr
  obtain ⟨sc, hsc, hi⟩ := hm.slices r hr
  exact (hin sc hsc).subset (fun x hx => hi.subset hx)

/-! ### the resolver only removes rows -/

theorem storeGood_getD (store : List Res) (hs : StoreGood store) (i : Nat) : RowsGood (store.getD i default).o.rows := by
  rcases C07.getD_mem_or_default store i with h | h
  · exact hs _ h
  · rw [h]; exact rowsGood_nil

theorem premise_apply_good (p : Premise) (store store' : List Res) (hs : StoreGood store) (h : p.apply store = .ok store') :
    StoreGood store' := by
  unfold Premise.apply at h
  have hold := storeGood_getD store hs p.sid
  have key : ∀ o', ((store.getD p.sid default).o.discardStart = .ok o' ∨ (store.getD p.sid default).o.discardEnd = .ok o') →
      StoreGood (setAt store p.sid { store.getD p.sid default with o := o' }) := by
    intro o' ho r hr
    rcases C07.mem_setAt _ _ _ _ hr with hr | rfl
    · exact hs r hr
    · rcases ho with ho | ho
      · exact hold.subset (fun x hx => (C01.discardStart_infix _ _ ho).1.subset hx)
      · exact hold.subset (fun x hx => (C01.discardEnd_infix _ _ ho).1.subset hx)
  cases hk : p.kind with
  | start =>
    simp only [hk, bind, Except.bind] at h
    split at h
    · cases h
    · next o' ho =>
      simp only [pure, Except.pure, Except.ok.injEq] at h
      subst h; exact key o' (Or.inl ho)
  | stop =>
    simp only [hk, bind, Except.bind] at h
    split at h
    · cases h
    · next o' ho =>
      simp only [pure, Except.pure, Except.ok.injEq] at h
      subst h; exact key o' (Or.inr ho)

theorem applyFixBookkeeping_keep (b b' : Build) (p : Premise) (h : applyFixBookkeeping b p = .ok b') :
    b'.store = b.store ∧ b'.extra = b.extra ∧ b'.joinGap = b.joinGap := by
  unfold applyFixBookkeeping at h
  simp only at h
  split at h
  · split at h
    · cases h; exact ⟨rfl, rfl, rfl⟩
    · split at h
      · cases h
      · simp only [Except.ok.injEq] at h
        subst h
        split <;> exact ⟨rfl, rfl, rfl⟩
  · cases h; exact ⟨rfl, rfl, rfl⟩

theorem resolverRound_good (b b' : Build) (hs : StoreGood b.store) (h : resolverRound b = .ok (some b')) :
    StoreGood b'.store ∧ b'.extra = b.extra ∧ b'.joinGap = b.joinGap := by
  unfold resolverRound at h
  simp only [bind, Except.bind] at h
  split at h
  · cases h
  · next prems _ =>
    split at h
    · cases h
    · next v hv =>
      obtain ⟨store, fixes⟩ := v
      simp only at h
      have hst : StoreGood store := by
        refine foldlM_inv (fun (x : List Res × List Premise) => StoreGood x.1) _ _ ?_ (b.store, []) (store, fixes) hs hv
        intro a ps a' ha hstep
        obtain ⟨a1, a2⟩ := a
        obtain ⟨a1', a2'⟩ := a'
        rcases C07.fixOne_store _ _ _ _ _ _ hstep with rfl | ⟨p, hp⟩
        · exact ha
        · exact premise_apply_good p _ _ ha hp
      split at h
      · cases h
      · split at h
        · cases h
        · next b2 hb2 =>
          simp only [pure, Except.pure, Except.ok.injEq, Option.some.injEq] at h
          subst h
          have := foldlM_inv (fun x : Build => x.store = store ∧ x.extra = b.extra ∧ x.joinGap = b.joinGap) _ fixes
            (fun x p x' ⟨hx1, hx2, hx3⟩ hs' => by
              obtain ⟨q1, q2, q3⟩ := applyFixBookkeeping_keep x x' p hs'
              exact ⟨q1.trans hx1, q2.trans hx2, q3.trans hx3⟩)
            { b with store := store } b2 ⟨rfl, rfl, rfl⟩ hb2
          rw [this.1]; exact ⟨hst, this.2.1, this.2.2⟩

theorem discardOverhanging_good (fuel : Nat) (b b' : Build) (hs : StoreGood b.store)
    (h : discardOverhanging fuel b = .ok b') : StoreGood b'.store ∧ b'.extra = b.extra ∧ b'.joinGap = b.joinGap := by
  induction fuel generalizing b with
  | zero => simp [discardOverhanging] at h
  | succ n ih =>
    unfold discardOverhanging at h
    split at h
    · cases h; exact ⟨hs, rfl, rfl⟩
    · simp only [bind, Except.bind] at h
      split at h
      · cases h
      · next r hr =>
        split at h
        · simp only [pure, Except.pure, Except.ok.injEq] at h; subst h; exact ⟨hs, rfl, rfl⟩
        · next b1 =>
          obtain ⟨q1, q2, q3⟩ := resolverRound_good b b1 hs hr
          obtain ⟨r1, r2, r3⟩ := ih b1 q1 h
          exact ⟨r1, r2.trans q2, r3.trans q3⟩

/-! ### cutting: the piece `trim_fragment` creates passes `Fragment.__init__` -/

theorem trimFragment_new_good (o : OverlapResult) (trim : Fragment) (ks ke : Bool) (oid : Nat)
    (o' : OverlapResult) (new : Fragment) (h : o.trimFragment trim ks ke oid = .ok (o', new)) : Good (.frag new) := by
  unfold OverlapResult.trimFragment at h
  simp only [bind, Except.bind, pure, Except.pure] at h
  split at h
  · cases h
  · split at h
    · cases h
    · split at h
      · cases h
      · split at h
        · cases h
        · rename_i nf hmk
          cases h
          exact mkFragment_good hmk

theorem mem_setLast' {α} (l : List α) (x y : α) (h : y ∈ OverlapResult.setLast l x) : y ∈ l ∨ y = x := by
  unfold OverlapResult.setLast at h
  cases hr : l.reverse with
  | nil => rw [hr] at h; cases h
  | cons d r =>
    rw [hr] at h
    simp only [List.mem_reverse, List.mem_cons] at h
    rcases h with h | h
    · exact Or.inr h
    · left
      have : y ∈ l.reverse := by rw [hr]; exact List.mem_cons_of_mem _ h
      exact List.mem_reverse.mp this

theorem mem_setHead' (l : List Row) (x y : Row) (h : y ∈ C07.setHead l x) : y ∈ l ∨ y = x := by
  unfold C07.setHead at h
  cases l with
  | nil => cases h
  | cons d r =>
    rcases List.mem_cons.mp h with h | h
    · exact Or.inr h
    · exact Or.inl (List.mem_cons_of_mem _ h)

theorem trimFragment_good (o : OverlapResult) (trim : Fragment) (ks ke : Bool) (oid : Nat)
    (o' : OverlapResult) (new : Fragment) (hg : RowsGood o.rows)
    (h : o.trimFragment trim ks ke oid = .ok (o', new)) : RowsGood o'.rows := by
  have hn := trimFragment_new_good _ _ _ _ _ _ _ h
  intro x hx
  rcases C07.trimFragment_rows _ _ _ _ _ _ _ h with e | e
  · rw [e] at hx
    rcases mem_setLast' _ _ _ hx with hx | rfl
    · exact hg x hx
    · exact hn
  · rw [e] at hx
    rcases mem_setHead' _ _ _ hx with hx | rfl
    · exact hg x hx
    · exact hn

theorem cutStep_good (f : Fragment) (last : Nat) (b : Build) (subs : List Fragment) (i sid : Nat)
    (acc' : Build × List Fragment × Nat) (hs : StoreGood b.store)
    (h : C01.cutStep f last (b, subs, i) sid = .ok acc') :
    StoreGood acc'.1.store ∧ acc'.1.extra = b.extra ∧ acc'.1.joinGap = b.joinGap := by
  unfold C01.cutStep at h
  simp only [bind, Except.bind] at h
  split at h
  · cases h
  · next v hv =>
    obtain ⟨o, new⟩ := v
    simp only [pure, Except.pure, Except.ok.injEq] at h
    subst h
    refine ⟨?_, rfl, rfl⟩
    intro r hr
    rcases C07.mem_setAt _ _ _ _ hr with hr | rfl
    · exact hs r hr
    · exact trimFragment_good _ _ _ _ _ _ _ (storeGood_getD _ hs sid) hv

theorem cutFragments_good (b b' : Build) (fnd : Found) (hs : StoreGood b.store) (h : cutFragments b fnd = .ok b') :
    StoreGood b'.store ∧ b'.extra = b.extra ∧ b'.joinGap = b.joinGap := by
  obtain ⟨ordered, b1, subs, n, _, hf, _, rfl⟩ := C01.cutFragments_ok b b' fnd h
  have := foldlM_inv (fun (x : Build × List Fragment × Nat) =>
      StoreGood x.1.store ∧ x.1.extra = b.extra ∧ x.1.joinGap = b.joinGap) _ ordered
    (fun x sid x' ⟨hx1, hx2, hx3⟩ hstep => by
      obtain ⟨xb, xs, xi⟩ := x
      obtain ⟨q1, q2, q3⟩ := cutStep_good _ _ _ _ _ _ _ hx1 hstep
      exact ⟨q1, q2.trans hx2, q3.trans hx3⟩)
    (b, [], 0) (b1, subs, n) ⟨hs, rfl, rfl⟩ hf
  exact this

theorem cutRemaining_good (b b' : Build) (hs : StoreGood b.store) (h : cutRemaining b = .ok b') :
    StoreGood b'.store ∧ b'.extra = b.extra ∧ b'.joinGap = b.joinGap := by
  unfold cutRemaining at h
  simp only [bind, Except.bind] at h
  split at h
  · cases h
  · next b1 hb1 =>
    simp only [pure, Except.pure, Except.ok.injEq] at h
    subst h
    exact foldlM_inv (fun x : Build => StoreGood x.store ∧ x.extra = b.extra ∧ x.joinGap = b.joinGap) _ b.multi
      (fun x k x' ⟨hx1, hx2, hx3⟩ hstep => by
        split at hstep
        · obtain ⟨q1, q2, q3⟩ := cutFragments_good _ _ _ hx1 hstep
          exact ⟨q1, q2.trans hx2, q3.trans hx3⟩
        · simp only [pure, Except.pure, Except.ok.injEq] at hstep; subst hstep; exact ⟨hx1, hx2, hx3⟩)
      b b1 ⟨hs, rfl, rfl⟩ hb1

theorem storeGood_of_core (s1 s2 : List Res) (h : s1.map C01.resCore = s2.map C01.resCore) (hs : StoreGood s2) :
    StoreGood s1 := by
  intro r hr
  obtain ⟨r2, h2, e⟩ := C01.mem_of_core _ _ h r hr
  simp only [C01.resCore, Prod.mk.injEq] at e
  rw [← e.2.1]; exact hs r2 h2

/-! ### left-over scaffolds: input rows, input gap rows, the join gap -/

theorem inputPredecessor_gaps_mem (rows : List Row) (i : Nat) (f : Fragment) (gaps : List Gap)
    (h : inputPredecessor rows i = some (f, gaps)) : ∀ g ∈ gaps, Row.gap g ∈ rows := by
  unfold inputPredecessor at h
  obtain ⟨k, _, h2⟩ := C07.inputPredecessor_go_spec _ _ _ _ h
  intro g hg
  have hm : Row.gap g ∈ gaps.map Row.gap := List.mem_map_of_mem hg
  rw [← h2] at hm
  simp only [List.map_nil, List.append_nil, List.mem_reverse] at hm
  exact List.mem_of_mem_take (List.mem_reverse.mp (List.mem_of_mem_take hm))

theorem missingRows_good (b : Build) (rows out : List Row) (first : Option Nat) (hr : RowsGood rows)
    (hj : ∀ g, b.joinGap = some g → Good (.gap g)) (h : missingRows b rows = .ok (out, first)) : RowsGood out := by
  obtain ⟨h1, h2, _⟩ := C01.missingRows_spec b rows out first h
  intro x hx
  cases x with
  | frag f =>
    have : f ∈ fragmentsOf out := C01.mem_fragmentsOf.mpr hx
    rw [h1] at this
    exact hr _ (C01.mem_fragmentsOf.mp (List.mem_filter.mp this).1)
  | gap g =>
    rcases h2 g hx with ⟨j, i, f, _, _, _, hg, _⟩ | hjg
    · exact hr _ (List.mem_of_getElem? hg)
    · exact hj g hjg

theorem addMissing_good (input : List Scaffold) (J : Option Gap) (b b' : Build)
    (hin : ∀ sc ∈ input, RowsGood sc.rows) (hJ : ∀ g, J = some g → Good (.gap g))
    (hs : StoreGood b.store) (hj : b.joinGap = J) (he : ExtraGood b.extra)
    (h : addMissing input b = .ok b') : StoreGood b'.store ∧ b'.joinGap = J ∧ ExtraGood b'.extra := by
  unfold addMissing at h
  refine C01.foldlM_inv_mem (fun x : Build => StoreGood x.store ∧ x.joinGap = J ∧ ExtraGood x.extra) _ input ?_ b b'
    ⟨hs, hj, he⟩ h
  intro x sc x' hsc ⟨hx1, hx2, hx3⟩ hstep
  simp only [bind, Except.bind] at hstep
  split at hstep
  · cases hstep
  · next v hv =>
    obtain ⟨rows, first⟩ := v
    simp only at hstep
    split at hstep
    · simp only [pure, Except.pure, Except.ok.injEq] at hstep; subst hstep; exact ⟨hx1, hx2, hx3⟩
    · split at hstep
      · cases hstep
      · simp only [pure, Except.pure, Except.ok.injEq] at hstep
        subst hstep
        refine ⟨hx1, hx2, ?_⟩
        intro e hemem
        rcases List.mem_append.mp hemem with hemem | hemem
        · exact hx3 e hemem
        · simp only [List.mem_cons, List.not_mem_nil, or_false] at hemem
          subst hemem
          refine ⟨missingRows_good x sc.rows rows first (hin sc hsc) (fun g hg => hJ g (hx2 ▸ hg)) hv, ?_⟩
          intro prev gaps hp g hg
          cases first with
          | none => cases hp
          | some i => exact hin sc hsc _ (inputPredecessor_gaps_mem _ _ _ _ hp g hg)

/-- `remap_to_input_assembly`: everything the returned build holds is `Good` -/
theorem remapToInput_good (input ptx : List Scaffold) (prefix_ : Str) (joinGap : Option Gap) (err : Int) (b : Build)
    (hin : ∀ sc ∈ input, RowsGood sc.rows) (hJ : ∀ g, joinGap = some g → Good (.gap g))
    (h : remapToInput input ptx prefix_ joinGap err = .ok b) :
    StoreGood b.store ∧ b.joinGap = joinGap ∧ ExtraGood b.extra := by
  obtain ⟨b1, b2, b3, hb1, hb2, hb3, hb4⟩ := C01.remapToInput_chain _ _ _ _ _ _ h
  obtain ⟨p1, p2, p3⟩ := findStage_good input ptx _ b1 hin ⟨rfl, rfl, rfl⟩ hb1
  obtain ⟨q1, q2, q3⟩ := discardOverhanging_good _ _ _ p1 hb2
  obtain ⟨r1, r2, r3⟩ := cutRemaining_good _ _ q1 hb3
  have hst : StoreGood (renameBySize b3.store b3.namer.haplotigScaffolds) :=
    storeGood_of_core _ _ (C01.renameBySize_core _ _) r1
  have hex : ExtraGood b3.extra := by
    rw [r2, q2, p2]; intro e he; cases he
  have hjg : b3.joinGap = joinGap := by rw [r3, q3, p3]; rfl
  exact addMissing_good input joinGap { b3 with store := renameBySize b3.store b3.namer.haplotigScaffolds } b hin hJ
    hst hjg hex hb4

end AgpTpf.C06
