/-
  C02 (script model), part 4: contig keys.  With pairwise different contig keys a key names one row of one input scaffold;
  the keys a placed piece claims are those of the contig rows its span meets.
-/
import AgpTpf.Proofs.C02SPtx
namespace AgpTpf.C02
open AgpTpf AgpTpf.Pretext
open AgpTpf.C12 (rowSpan meets meets_iff)

theorem mem_of_getElem? {α} {l : List α} {i : Nat} {a : α} (h : l[i]? = some a) : a ∈ l :=
  List.mem_iff_getElem?.2 ⟨i, h⟩

theorem frag_mem_fragments {sc : Scaffold} {k : Nat} {f : Fragment} (h : sc.rows[k]? = some (.frag f)) :
    f ∈ sc.fragments := mem_frags.2 (mem_of_getElem? h)

/-- a key occurs in one input scaffold only -/
theorem keys_same_scaffold {input : List Scaffold} (hk : C08.KeysDistinct input) {i i' : Nat} {sc sc' : Scaffold}
    (hi : input[i]? = some sc) (hi' : input[i']? = some sc') {f f' : Fragment} (hf : f ∈ sc.fragments)
    (hf' : f' ∈ sc'.fragments) (e : f.keyTuple = f'.keyTuple) : i = i' := by
  unfold C08.KeysDistinct at hk
  rw [List.map_flatMap, List.nodup_iff_pairwise_ne, List.pairwise_flatMap] at hk
  have hp := List.pairwise_iff_getElem.1 hk.2
  have hlt : i < input.length := by
    by_cases h : i < input.length
    · exact h
    · rw [List.getElem?_eq_none (by omega)] at hi; cases hi
  have hlt' : i' < input.length := by
    by_cases h : i' < input.length
    · exact h
    · rw [List.getElem?_eq_none (by omega)] at hi'; cases hi'
  rw [List.getElem?_eq_getElem hlt] at hi
  rw [List.getElem?_eq_getElem hlt'] at hi'
  cases hi; cases hi'
  rcases Nat.lt_trichotomy i i' with h | h | h
  · exact absurd e (hp i i' hlt hlt' h _ (List.mem_map_of_mem hf) _ (List.mem_map_of_mem hf'))
  · exact h
  · exact absurd e.symm (hp i' i hlt' hlt h _ (List.mem_map_of_mem hf') _ (List.mem_map_of_mem hf))

theorem fragmentsOf_append' (a b : List Row) : fragmentsOf (a ++ b) = fragmentsOf a ++ fragmentsOf b := by
  induction a with
  | nil => rfl
  | cons r t ih =>
    cases r with
    | frag g => simp [fragmentsOf, ih]
    | gap g => simp [fragmentsOf, ih]

/-- within a scaffold whose contig keys differ, a key occurs in one row only -/
theorem keys_same_row {rows : List Row} (hn : ((fragmentsOf rows).map Fragment.keyTuple).Nodup) {k k' : Nat}
    {f f' : Fragment} (hk : rows[k]? = some (.frag f)) (hk' : rows[k']? = some (.frag f'))
    (e : f.keyTuple = f'.keyTuple) : k = k' := by
  have key : ∀ {a b : Nat} {g g' : Fragment}, rows[a]? = some (.frag g) → rows[b]? = some (.frag g') →
      g.keyTuple = g'.keyTuple → a < b → False := by
    intro a b g g' ha hb eg hab
    rw [← List.take_append_drop b rows, fragmentsOf_append', List.map_append, List.nodup_append] at hn
    have h1 : g ∈ fragmentsOf (rows.take b) := by
      apply mem_frags.2
      apply List.mem_iff_getElem?.2
      exact ⟨a, by rw [List.getElem?_take, if_pos hab]; exact ha⟩
    have h2 : g' ∈ fragmentsOf (rows.drop b) := by
      apply mem_frags.2
      apply List.mem_iff_getElem?.2
      exact ⟨0, by rw [List.getElem?_drop]; simpa using hb⟩
    exact hn.2.2 _ (List.mem_map_of_mem h1) _ (List.mem_map_of_mem h2) eg
  rcases Nat.lt_trichotomy k k' with h | h | h
  · exact (key hk hk' e h).elim
  · exact h
  · exact (key hk' hk e.symm h).elim

/-- the contigs of a slice of a scaffold have pairwise different keys when the scaffold's have -/
theorem nodup_keys_infix {a rows : List Row} (h : a <:+: rows)
    (hn : ((fragmentsOf rows).map Fragment.keyTuple).Nodup) : ((fragmentsOf a).map Fragment.keyTuple).Nodup := by
  obtain ⟨s, t, rfl⟩ := h
  rw [fragmentsOf_append', fragmentsOf_append', List.map_append, List.map_append, List.nodup_append,
    List.nodup_append] at hn
  exact hn.1.2.1

/-! ### the keys of a placed piece -/

/-- the facts about the input that the lookups need -/
structure InputBase (input : List Scaffold) : Prop where
  names : (input.map (·.name)).Nodup
  lens : ∀ sc ∈ input, ∀ r ∈ sc.rows, 0 ≤ r.length
  keys : C08.KeysDistinct input

/-- **the keys a placed piece claims**: those of the contig rows of its input scaffold that its span meets -/
theorem mem_itemKeys {input : List Scaffold} {s : Script} (hw : WfScript input s) (hin : InputBase input)
    {bx : Bool × Placed} (hbx : bx ∈ itemsT s) (key : Key) :
    key ∈ itemKeys input s bx ↔
      ∃ sc c ab k f, input[bx.2.sc]? = some sc ∧ s.scafs[bx.2.sc]? = some c ∧ (c.spans s.p s.q)[bx.2.k]? = some ab ∧
        sc.rows[k]? = some (.frag f) ∧ meets sc.rows ab.1 ab.2 k = true ∧ f.keyTuple = key := by
  obtain ⟨pf, sc, c, ab, hpf, hsc, hc, -, hab, -, hname, hstart, hstop, -, -⟩ :=
    pieceFrag_some hw bx.1 (mem_itemsT hbx)
  have hmem : sc ∈ input := mem_of_getElem? hsc
  have hlen := hin.lens sc hmem
  unfold itemKeys
  rw [hpf]
  simp only
  by_cases hex : ∃ k, meets sc.rows ab.1 ab.2 k = true
  · obtain ⟨k0, hk0⟩ := hex
    have hk0' : meets sc.rows pf.start pf.stop k0 = true := by rw [hstart, hstop]; exact hk0
    obtain ⟨-, hfo⟩ := lookupPiece_of_meets hin.names hmem hname hlen k0 hk0'
    unfold pieceKeys
    rw [List.mem_map]
    constructor
    · rintro ⟨f, hf, rfl⟩
      obtain ⟨k, hk, hm⟩ := (mem_lookup hlen hfo f).1 hf
      rw [hstart, hstop] at hm
      exact ⟨sc, c, ab, k, f, hsc, hc, hab, hk, hm, rfl⟩
    · rintro ⟨sc', c', ab', k, f, hsc', hc', hab', hk, hm, rfl⟩
      rw [hsc] at hsc'; cases hsc'
      rw [hc] at hc'; cases hc'
      rw [hab] at hab'; cases hab'
      refine ⟨f, (mem_lookup hlen hfo f).2 ⟨k, hk, ?_⟩, rfl⟩
      rw [hstart, hstop]; exact hm
  · have hno : ∀ k, meets sc.rows pf.start pf.stop k = false := by
      intro k
      cases hm : meets sc.rows pf.start pf.stop k with
      | false => rfl
      | true => rw [hstart, hstop] at hm; exact absurd ⟨k, hm⟩ hex
    rw [pieceKeys_of_no_meet hin.names hmem hname hlen hno]
    constructor
    · intro h; cases h
    · rintro ⟨sc', c', ab', k, f, hsc', hc', hab', hk, hm, -⟩
      rw [hsc] at hsc'; cases hsc'
      rw [hc] at hc'; cases hc'
      rw [hab] at hab'; cases hab'
      exact absurd ⟨k, hm⟩ hex

/-- the keys of one piece are pairwise different -/
theorem itemKeys_nodup {input : List Scaffold} {s : Script} (hw : WfScript input s) (hin : InputBase input)
    {bx : Bool × Placed} (hbx : bx ∈ itemsT s) : (itemKeys input s bx).Nodup := by
  obtain ⟨pf, sc, c, ab, hpf, hsc, hc, -, hab, -, hname, hstart, hstop, -, -⟩ :=
    pieceFrag_some hw bx.1 (mem_itemsT hbx)
  have hmem : sc ∈ input := mem_of_getElem? hsc
  have hlen := hin.lens sc hmem
  unfold itemKeys
  rw [hpf]
  simp only
  by_cases hex : ∃ k, meets sc.rows pf.start pf.stop k = true
  · obtain ⟨k0, hk0⟩ := hex
    obtain ⟨-, hfo⟩ := lookupPiece_of_meets hin.names hmem hname hlen k0 hk0
    obtain ⟨-, -, -, hinf⟩ := findOverlaps_shape sc.rows pf _ hlen hfo
    exact nodup_keys_infix hinf (hin.keys.within sc hmem)
  · have hno : ∀ k, meets sc.rows pf.start pf.stop k = false := by
      intro k
      cases hm : meets sc.rows pf.start pf.stop k with
      | false => rfl
      | true => exact absurd ⟨k, hm⟩ hex
    rw [pieceKeys_of_no_meet hin.names hmem hname hlen hno]
    exact List.nodup_nil

end AgpTpf.C02
