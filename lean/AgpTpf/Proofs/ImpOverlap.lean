/-
  Helper lemmas for `Properties/C18Imp.lean`: the translated Python source of the `OverlapResult` operations
  (`Gen.Imp.OverlapResult_*`) against the hand-written model (`Model/Lookup.lean`).

  Layout: (1) facts about the run-time support (`PyRt.pop`, `pyGet`, `PyRt.slice`, `PyRt.sliceRevFrom`, `PyRt.setAt`) at the
  indices `0`, `-1`, `1:`, `-2::-1` the source uses; (2) the gap-skipping loops (`while` with `pop`, `for … break`, `for … break` that counts + `del rows[:n]`)
  against `popLeadingGaps` / `leadingGapLength`; (3) the seven tie lemmas (`discard_start` through `withFuel`, which applies the
  generated function to `fuel` only if it has that parameter).
-/
import AgpTpf.Gen.Imp
set_option linter.unusedSimpArgs false
namespace AgpTpf.ImpOverlap
open AgpTpf OverlapResult

/-! ### 1. run-time support at the indices the source uses -/

@[simp] theorem pop_zero_nil {α : Type} : PyRt.pop ([] : List α) 0 = .error .index := by
  simp [PyRt.pop]

@[simp] theorem pop_zero_cons {α : Type} (x : α) (l : List α) : PyRt.pop (x :: l) 0 = .ok (x, l) := by
  simp [PyRt.pop]

@[simp] theorem pyGet_zero_nil {α : Type} : pyGet ([] : List α) 0 = .error .index := by
  simp [pyGet]

@[simp] theorem pyGet_zero_cons {α : Type} (x : α) (l : List α) : pyGet (x :: l) 0 = .ok x := by
  simp [pyGet]

@[simp] theorem pop_neg_one_nil {α : Type} : PyRt.pop ([] : List α) (-1) = .error .index := by
  simp [PyRt.pop]

@[simp] theorem pyGet_neg_one_nil {α : Type} : pyGet ([] : List α) (-1) = .error .index := by
  simp [pyGet]

theorem neg_one_idx (n : Nat) : ((-1 : Int) + ((n + 1 : Nat) : Int)).toNat = n := by omega

@[simp] theorem pop_neg_one_snoc {α : Type} (l : List α) (x : α) : PyRt.pop (l ++ [x]) (-1) = .ok (x, l) := by
  have h1 : ((-1 : Int) + ((l ++ [x]).length : Int)).toNat = l.length := by simp; omega
  have h2 : ¬ ((-1 : Int) + ((l ++ [x]).length : Int) < 0 ∨ ((l ++ [x]).length : Int) ≤ -1 + ((l ++ [x]).length : Int)) := by
    simp; omega
  simp only [PyRt.pop, show ((-1 : Int) < 0) from by omega, if_true, h1, h2, if_false]
  simp [List.eraseIdx_append_of_length_le]

@[simp] theorem pyGet_neg_one_snoc {α : Type} (l : List α) (x : α) : pyGet (l ++ [x]) (-1) = .ok x := by
  have h1 : ((-1 : Int) + ((l ++ [x]).length : Int)).toNat = l.length := by simp; omega
  have h2 : ¬ ((-1 : Int) + ((l ++ [x]).length : Int) < 0 ∨ ((l ++ [x]).length : Int) ≤ -1 + ((l ++ [x]).length : Int)) := by
    simp; omega
  simp only [pyGet, show ((-1 : Int) < 0) from by omega, if_true, h1, h2, if_false]
  simp

/-- the same two facts with the list given by its reversal, as the model states `discard_end` -/
theorem pop_neg_one_of_reverse {α : Type} {l r : List α} {d : α} (h : l.reverse = d :: r) :
    PyRt.pop l (-1) = .ok (d, r.reverse) := by
  have : l = r.reverse ++ [d] := by rw [← List.reverse_reverse l, h]; simp
  subst this; simp

theorem pyGet_neg_one_of_reverse {α : Type} {l r : List α} {d : α} (h : l.reverse = d :: r) :
    pyGet l (-1) = .ok d := by
  have : l = r.reverse ++ [d] := by rw [← List.reverse_reverse l, h]; simp
  subst this; simp

@[simp] theorem slice_one_none_cons {α : Type} (x : α) (l : List α) : PyRt.slice (x :: l) (some 1) none = l := by
  simp [PyRt.slice, PyRt.clampIdx]

@[simp] theorem sliceRevFrom_neg_two_snoc {α : Type} (l : List α) (x : α) :
    PyRt.sliceRevFrom (l ++ [x]) (-2) = l.reverse := by
  cases l with
  | nil => simp [PyRt.sliceRevFrom]
  | cons y t =>
    have h1 : ¬ ((-2 : Int) + (((y :: t) ++ [x]).length : Int) < 0) := by simp; omega
    have h2 : min (((-2 : Int) + (((y :: t) ++ [x]).length : Int)).toNat + 1) ((y :: t) ++ [x]).length = (y :: t).length := by
      simp; omega
    simp only [PyRt.sliceRevFrom, show ((-2 : Int) < 0) from by omega, if_true, h1, if_false, h2]
    simp

theorem sliceRevFrom_neg_two_of_reverse {α : Type} {l r : List α} {d : α} (h : l.reverse = d :: r) :
    PyRt.sliceRevFrom l (-2) = r := by
  have : l = r.reverse ++ [d] := by rw [← List.reverse_reverse l, h]; simp
  subst this; simp

@[simp] theorem setAt_zero_cons {α : Type} (x y : α) (l : List α) : PyRt.setAt (x :: l) 0 y = .ok (y :: l) := by
  simp [PyRt.setAt]

@[simp] theorem setAt_neg_one_snoc {α : Type} (l : List α) (x y : α) : PyRt.setAt (l ++ [x]) (-1) y = .ok (l ++ [y]) := by
  have h1 : ((-1 : Int) + ((l ++ [x]).length : Int)).toNat = l.length := by simp; omega
  have h2 : ¬ ((-1 : Int) + ((l ++ [x]).length : Int) < 0 ∨ ((l ++ [x]).length : Int) ≤ -1 + ((l ++ [x]).length : Int)) := by
    simp; omega
  simp only [PyRt.setAt, show ((-1 : Int) < 0) from by omega, if_true, h1, h2, if_false]
  simp

theorem setLast_snoc {α : Type} (l : List α) (x y : α) : setLast (l ++ [x]) y = l ++ [y] := by
  simp [setLast]

theorem rowIsFrag_eq (r : Row) (f : Fragment) : PyRt.rowIsFrag r f = rowIs r f := by
  cases r <;> rfl

/-! ### 2. the gap-skipping loops

  The loop lemmas take the loop condition and body as parameters and ask only how they behave on an empty list / on a list with a
  given first (last) row, so they do not depend on the text of the generated condition and body. -/

theorem popLeadingGaps_gap (g : Gap) (r : List Row) (a : Int) :
    popLeadingGaps (.gap g :: r) a = popLeadingGaps r (a + g.length) := by
  simp [popLeadingGaps]

theorem popLeadingGaps_frag (f : Fragment) (r : List Row) (a : Int) :
    popLeadingGaps (.frag f :: r) a = (.frag f :: r, a) := by
  simp [popLeadingGaps]

theorem popLeadingGaps_nil (a : Int) : popLeadingGaps [] a = ([], a) := by
  simp [popLeadingGaps]

theorem leadingGapLength_gap (g : Gap) (r : List Row) : leadingGapLength (.gap g :: r) = g.length + leadingGapLength r := by
  simp [leadingGapLength]

theorem leadingGapLength_frag (f : Fragment) (r : List Row) : leadingGapLength (.frag f :: r) = 0 := by
  simp [leadingGapLength]

theorem leadingGapLength_nil : leadingGapLength [] = 0 := by
  simp [leadingGapLength]

theorem popLeadingGaps_snd (r : List Row) (a : Int) : (popLeadingGaps r a).2 = a + leadingGapLength r := by
  induction r generalizing a with
  | nil => simp [popLeadingGaps_nil, leadingGapLength_nil]
  | cons x t ih =>
    cases x with
    | frag f => simp [popLeadingGaps_frag, leadingGapLength_frag]
    | gap g => rw [popLeadingGaps_gap, ih, leadingGapLength_gap]; omega

theorem popLeadingGaps_fst (r : List Row) (a b : Int) : (popLeadingGaps r a).1 = (popLeadingGaps r b).1 := by
  induction r generalizing a b with
  | nil => simp [popLeadingGaps_nil]
  | cons x t ih =>
    cases x with
    | frag f => simp [popLeadingGaps_frag]
    | gap g => rw [popLeadingGaps_gap, popLeadingGaps_gap]; exact ih _ _

theorem popLeadingGaps_length_le (r : List Row) (a : Int) : (popLeadingGaps r a).1.length ≤ r.length := by
  induction r generalizing a with
  | nil => simp [popLeadingGaps_nil]
  | cons x t ih =>
    cases x with
    | frag f => simp [popLeadingGaps_frag]
    | gap g => rw [popLeadingGaps_gap]; have := ih (a + g.length); simp; omega

/-- `while self.rows and isinstance(self.rows[0], Gap): gap = self.rows.pop(0); self.start += gap.length` -/
theorem while_pop_front {ρ : Type} (cond : OverlapResult → R Bool) (body : OverlapResult → R (PyRt.Ctl OverlapResult ρ))
    (hc0 : ∀ s : OverlapResult, s.rows = [] → cond s = .ok false)
    (hc1 : ∀ (s : OverlapResult) x t, s.rows = x :: t → cond s = .ok x.isGap)
    (hb : ∀ (s : OverlapResult) x t, s.rows = x :: t →
      body s = .ok (.next { s with rows := t, start := s.start + x.length }))
    (fuel : Nat) (s : OverlapResult) (h : s.rows.length < fuel) :
    PyRt.whileLoop fuel s cond body =
      .ok (.fell { s with rows := (popLeadingGaps s.rows s.start).1, start := (popLeadingGaps s.rows s.start).2 }) := by
  induction fuel generalizing s with
  | zero => omega
  | succ n ih =>
    cases hr : s.rows with
    | nil =>
      have e : s = { s with rows := [], start := s.start } := by rw [← hr]
      simp [PyRt.whileLoop, hc0 s hr, popLeadingGaps_nil]
      exact e
    | cons x t =>
      cases x with
      | frag f =>
        have e : s = { s with rows := .frag f :: t, start := s.start } := by rw [← hr]
        simp [PyRt.whileLoop, hc1 s _ _ hr, Row.isGap, popLeadingGaps_frag]
        exact e
      | gap g =>
        have hlen : t.length < n := by rw [hr] at h; simp at h; omega
        simp only [PyRt.whileLoop, hc1 s _ _ hr, hb s _ _ hr, Row.isGap]
        rw [ih _ (by simpa using hlen)]
        simp [popLeadingGaps_gap, Row.length]

/-- `while self.rows and isinstance(self.rows[-1], Gap): gap = self.rows.pop(-1); self.end -= gap.length`,
    with the rows given by their reversal `rr` -/
theorem while_pop_back {ρ : Type} (cond : OverlapResult → R Bool) (body : OverlapResult → R (PyRt.Ctl OverlapResult ρ))
    (hc0 : ∀ s : OverlapResult, s.rows = [] → cond s = .ok false)
    (hc1 : ∀ (s : OverlapResult) x t, s.rows = t ++ [x] → cond s = .ok x.isGap)
    (hb : ∀ (s : OverlapResult) x t, s.rows = t ++ [x] →
      body s = .ok (.next { s with rows := t, stop := s.stop - x.length }))
    (fuel : Nat) (rr : List Row) (s : OverlapResult) (hs : s.rows = rr.reverse) (h : rr.length < fuel) :
    PyRt.whileLoop fuel s cond body =
      .ok (.fell { s with rows := (popLeadingGaps rr 0).1.reverse, stop := s.stop - (popLeadingGaps rr 0).2 }) := by
  induction fuel generalizing s rr with
  | zero => omega
  | succ n ih =>
    cases rr with
    | nil =>
      have hr : s.rows = [] := by simpa using hs
      have e : s = { s with rows := [], stop := s.stop } := by rw [← hr]
      simp [PyRt.whileLoop, hc0 s hr, popLeadingGaps_nil]
      exact e
    | cons x t =>
      have hr : s.rows = t.reverse ++ [x] := by simpa using hs
      cases x with
      | frag f =>
        have e : s = { s with rows := t.reverse ++ [.frag f], stop := s.stop } := by rw [← hr]
        simp [PyRt.whileLoop, hc1 s _ _ hr, Row.isGap, popLeadingGaps_frag]
        exact e
      | gap g =>
        have hlen : t.length < n := by simp at h; omega
        simp only [PyRt.whileLoop, hc1 s _ _ hr, hb s _ _ hr, Row.isGap]
        rw [ih t _ rfl hlen]
        simp [popLeadingGaps_gap, Row.length, popLeadingGaps_snd]
        exact ⟨by omega, popLeadingGaps_fst _ _ _⟩

/-- `for r in rows: if isinstance(r, Gap): start += r.length else: break` -/
theorem forIn_gaps_add {ρ : Type} (body : Row → Int → R (PyRt.Ctl Int ρ))
    (hg : ∀ r a, r.isGap = true → body r a = .ok (.next (a + r.length)))
    (hf : ∀ r a, r.isGap = false → body r a = .ok (.brk a))
    (l : List Row) (a : Int) : PyRt.forIn l a body = .ok (.fell (a + leadingGapLength l)) := by
  induction l generalizing a with
  | nil => simp [PyRt.forIn, leadingGapLength_nil]
  | cons x t ih =>
    cases x with
    | frag f => simp [PyRt.forIn, hf (.frag f) a rfl, leadingGapLength_frag]
    | gap g => simp only [PyRt.forIn, hg (.gap g) a rfl, ih, leadingGapLength_gap, Row.length]; congr 2; omega

/-- `for r in rows: if isinstance(r, Gap): end -= r.length else: break` -/
theorem forIn_gaps_sub {ρ : Type} (body : Row → Int → R (PyRt.Ctl Int ρ))
    (hg : ∀ r a, r.isGap = true → body r a = .ok (.next (a - r.length)))
    (hf : ∀ r a, r.isGap = false → body r a = .ok (.brk a))
    (l : List Row) (a : Int) : PyRt.forIn l a body = .ok (.fell (a - leadingGapLength l)) := by
  induction l generalizing a with
  | nil => simp [PyRt.forIn, leadingGapLength_nil]
  | cons x t ih =>
    cases x with
    | frag f => simp [PyRt.forIn, hf (.frag f) a rfl, leadingGapLength_frag]
    | gap g => simp only [PyRt.forIn, hg (.gap g) a rfl, ih, leadingGapLength_gap, Row.length]; congr 2; omega

/-- the rows `popLeadingGaps` leaves = the rows after the leading run of gaps -/
theorem popLeadingGaps_fst_eq_dropWhile (r : List Row) (a : Int) : (popLeadingGaps r a).1 = r.dropWhile Row.isGap := by
  induction r generalizing a with
  | nil => simp [popLeadingGaps_nil]
  | cons x t ih =>
    cases x with
    | frag f => simp [popLeadingGaps_frag, List.dropWhile_cons, Row.isGap]
    | gap g => rw [popLeadingGaps_gap, ih]; simp [List.dropWhile_cons, Row.isGap]

theorem drop_takeWhile_length {α : Type} (p : α → Bool) (l : List α) : l.drop (l.takeWhile p).length = l.dropWhile p := by
  induction l with
  | nil => simp
  | cons x t ih => by_cases hp : p x = true <;> simp [List.takeWhile_cons, List.dropWhile_cons, hp, ih]

/-- `l[i:]` / `del l[:i]` for an index that is a natural number (however the source computes it) -/
theorem slice_from_nat {α : Type} (l : List α) (i : Int) (k : Nat) (h : i = (k : Int)) :
    PyRt.slice l (some i) none = l.drop k := by
  subst h
  have hc : PyRt.clampIdx l.length (k : Int) = min k l.length := by
    have h1 : ¬ ((k : Int) < 0) := by omega
    simp only [PyRt.clampIdx, h1, if_false, Int.toNat_natCast]
  simp only [PyRt.slice, hc]
  rw [List.take_of_length_le (by simp)]
  by_cases hk : k ≤ l.length
  · rw [show min k l.length = k by omega]
  · rw [show min k l.length = l.length by omega, List.drop_eq_nil_of_le (Nat.le_refl _),
      List.drop_eq_nil_of_le (show l.length ≤ k by omega)]

/-- `del rows[:n_gaps]` where `n_gaps` is (whatever integer expression is equal to) the number of leading gaps -/
theorem slice_from_leading_gaps (r : List Row) (i : Int) (h : i = ((r.takeWhile Row.isGap).length : Int)) :
    PyRt.slice r (some i) none = r.dropWhile Row.isGap := by
  rw [slice_from_nat r i _ h, drop_takeWhile_length]

/-- `for row in rows: if not isinstance(row, Gap): break; removed += row.length; n_gaps += 1`:
    the loop state is (sum of the lengths, count) of the leading run of gaps -/
theorem forIn_gaps_add_count {ρ : Type} (body : Row → Int × Int → R (PyRt.Ctl (Int × Int) ρ))
    (hg : ∀ r a n, r.isGap = true → body r (a, n) = .ok (.next (a + r.length, n + 1)))
    (hf : ∀ r a n, r.isGap = false → body r (a, n) = .ok (.brk (a, n)))
    (l : List Row) (a n : Int) :
    PyRt.forIn l (a, n) body = .ok (.fell (a + leadingGapLength l, n + ((l.takeWhile Row.isGap).length : Int))) := by
  induction l generalizing a n with
  | nil => simp [PyRt.forIn, leadingGapLength_nil]
  | cons x t ih =>
    cases x with
    | frag f => simp [PyRt.forIn, hf (.frag f) a n rfl, leadingGapLength_frag, Row.isGap]
    | gap g =>
      simp only [PyRt.forIn, hg (.gap g) a n rfl, ih, leadingGapLength_gap, Row.length, Row.isGap, List.takeWhile_cons,
        if_true, List.length_cons]
      congr 3 <;> omega

/-- the same loop with the state tuple in the other order, (count, sum): the translator orders the loop-state tuple by the NAMES of
    the Python locals (`n_gaps, removed` here), so which component is the count depends on how the source names them -/
theorem forIn_gaps_count_add {ρ : Type} (body : Row → Int × Int → R (PyRt.Ctl (Int × Int) ρ))
    (hg : ∀ r n a, r.isGap = true → body r (n, a) = .ok (.next (n + 1, a + r.length)))
    (hf : ∀ r n a, r.isGap = false → body r (n, a) = .ok (.brk (n, a)))
    (l : List Row) (n a : Int) :
    PyRt.forIn l (n, a) body = .ok (.fell (n + ((l.takeWhile Row.isGap).length : Int), a + leadingGapLength l)) := by
  induction l generalizing a n with
  | nil => simp [PyRt.forIn, leadingGapLength_nil]
  | cons x t ih =>
    cases x with
    | frag f => simp [PyRt.forIn, hf (.frag f) n a rfl, leadingGapLength_frag, Row.isGap]
    | gap g =>
      simp only [PyRt.forIn, hg (.gap g) n a rfl, ih, leadingGapLength_gap, Row.length, Row.isGap, List.takeWhile_cons,
        if_true, List.length_cons]
      congr 3 <;> omega

/-! ### 3. the tie lemmas

  `R`-monad normal form: the generated code joins the branches of an `if` with `>>= fun j => …` and ends each in `.ok`; the model is
  written with `do`.  The lemmas below push both into the same shape. -/

theorem R_bind_ok {α : Type} (x : R α) : (x >>= fun a => (Except.ok a : R α)) = x := by cases x <;> rfl
theorem R_ok_bind {α β : Type} (a : α) (f : α → R β) : ((Except.ok a : R α) >>= f) = f a := rfl
theorem R_pure_bind {α β : Type} (a : α) (f : α → R β) : ((pure a : R α) >>= f) = f a := rfl
theorem R_error_bind {α β : Type} (e : Err) (f : α → R β) : ((Except.error e : R α) >>= f) = .error e := rfl
theorem R_ite_bind {α β : Type} (c : Prop) [Decidable c] (x y : R α) (f : α → R β) :
    ((if c then x else y) >>= f) = if c then x >>= f else y >>= f := by split <;> rfl
theorem R_bind_assoc {α β γ : Type} (x : R α) (f : α → R β) (g : β → R γ) :
    ((x >>= f) >>= g) = x >>= fun a => f a >>= g := by cases x <;> rfl
theorem R_pure {α : Type} (a : α) : (pure a : R α) = .ok a := rfl

/-- `Gen.Imp.OverlapResult_discard_start` (`…_discard_end`) takes a `fuel` argument exactly when the source method contains a
    `while` loop; a rewrite of the method with `for` (or no loop) drops the parameter.  `withFuel f fuel` is `f fuel` for a
    generated function that takes fuel and `f` for one that does not (instance chosen by the TYPE of the generated function),
    so that the tie is stated once for both shapes.  Both instances are reducible: `withFuel f fuel o` is `f fuel o` / `f o`
    by `rfl` (`withFuel_fuel`, `withFuel_noFuel`). -/
class TakesFuel (F : Type) where
  withFuel : F → Nat → OverlapResult → R OverlapResult
export TakesFuel (withFuel)
@[reducible] instance instTakesFuelFuel : TakesFuel (Nat → OverlapResult → R OverlapResult) := ⟨fun f fuel => f fuel⟩
@[reducible] instance instTakesFuelNoFuel : TakesFuel (OverlapResult → R OverlapResult) := ⟨fun f _ => f⟩

theorem withFuel_fuel (f : Nat → OverlapResult → R OverlapResult) (fuel : Nat) (o : OverlapResult) :
    withFuel f fuel o = f fuel o := rfl
theorem withFuel_noFuel (f : OverlapResult → R OverlapResult) (fuel : Nat) (o : OverlapResult) :
    withFuel f fuel o = f o := rfl

/-- `discard_start`; a `while` loop makes at most `len(rows)` tests, so `len(rows) ≤ fuel` is enough (and no fuel is needed when
    the source has no `while`) -/
theorem discard_start_tie (o : OverlapResult) (fuel : Nat) (h : o.rows.length ≤ fuel) :
    withFuel Gen.Imp.OverlapResult_discard_start fuel o = o.discardStart := by
  simp only [withFuel_fuel, withFuel_noFuel]
  unfold Gen.Imp.OverlapResult_discard_start discardStart
  cases hr : o.rows with
  | nil => simp [bind, Except.bind]
  | cons d r =>
    simp only [pop_zero_cons, bind, Except.bind]
    -- two algorithms: (A) pop the gaps one by one in a `while`; (B) count them in a `for … break`, then `del rows[:n]`
    first
    | (rw [while_pop_front]
       · intro s hs; simp [hs]
       · intro s x t hs; simp [hs]
       · intro s x t hs; simp [hs]
       · rw [hr] at h; simp at h ⊢; omega)
    -- (B) with the loop state ordered (sum, count) or (count, sum) — the tuple is sorted by the names of the Python locals
    | (rw [forIn_gaps_add_count]
       · simp [popLeadingGaps_snd, popLeadingGaps_fst_eq_dropWhile, slice_from_leading_gaps r _ rfl]
         first | done | omega
       · intro r a n hg; simp [hg] <;> omega
       · intro r a n hg; simp [hg])
    | (rw [forIn_gaps_count_add]
       · simp [popLeadingGaps_snd, popLeadingGaps_fst_eq_dropWhile, slice_from_leading_gaps r _ rfl]
         first | done | omega
       · intro r n a hg; simp [hg] <;> omega
       · intro r n a hg; simp [hg])

theorem discard_end_tie (o : OverlapResult) (fuel : Nat) (h : o.rows.length ≤ fuel) :
    Gen.Imp.OverlapResult_discard_end fuel o = o.discardEnd := by
  unfold Gen.Imp.OverlapResult_discard_end discardEnd
  cases hr : o.rows.reverse with
  | nil =>
    have : o.rows = [] := by simpa using hr
    simp [this, bind, Except.bind]
  | cons d r =>
    simp only [pop_neg_one_of_reverse hr, bind, Except.bind]
    rw [while_pop_back (rr := r)]
    · simp [popLeadingGaps_snd, popLeadingGaps_fst r d.length 0]; omega
    · intro s hs; simp [hs]
    · intro s x t hs; simp [hs]
    · intro s x t hs; simp [hs]
    · simp
    · have : o.rows.length = r.length + 1 := by rw [← List.length_reverse, hr]; simp
      omega

theorem overhang_if_start_removed_tie (o : OverlapResult) :
    Gen.Imp.OverlapResult_overhang_if_start_removed o = o.overhangIfStartRemoved := by
  unfold Gen.Imp.OverlapResult_overhang_if_start_removed overhangIfStartRemoved
  cases hr : o.rows with
  | nil => simp [bind, Except.bind]
  | cons d r =>
    simp only [pyGet_zero_cons, slice_one_none_cons, bind, Except.bind]
    rw [forIn_gaps_add]
    · intro r a hg; simp [hg]
    · intro r a hg; simp [hg]

theorem overhang_if_end_removed_tie (o : OverlapResult) :
    Gen.Imp.OverlapResult_overhang_if_end_removed o = o.overhangIfEndRemoved := by
  unfold Gen.Imp.OverlapResult_overhang_if_end_removed overhangIfEndRemoved
  cases hr : o.rows.reverse with
  | nil =>
    have : o.rows = [] := by simpa using hr
    simp [this, bind, Except.bind]
  | cons d r =>
    simp only [pyGet_neg_one_of_reverse hr, sliceRevFrom_neg_two_of_reverse hr, bind, Except.bind]
    rw [forIn_gaps_sub]
    · intro r a hg; simp [hg]
    · intro r a hg; simp [hg]

theorem trim_large_overhangs_tie (o : OverlapResult) (err : Int) :
    Gen.Imp.OverlapResult_trim_large_overhangs_imp o err = o.trimLargeOverhangs err := by
  unfold Gen.Imp.OverlapResult_trim_large_overhangs_imp trimLargeOverhangs
  by_cases h1 : o.rows.length = 1 ∧ o.bait.length > err
  · have h1' : (Int.ofNat o.rows.length = 1) := by simp [h1.1]
    simp [h1, h1']
  · have h1' : ¬ ((Int.ofNat o.rows.length = 1) ∧ o.bait.length > err) := by
      intro hh; apply h1; refine ⟨?_, hh.2⟩; have := hh.1; simp at this; omega
    simp only [Bool.and_eq_true, decide_eq_true_eq, h1, h1', if_false]
    simp only [R_bind_ok, R_ok_bind, R_pure_bind, R_ite_bind, R_bind_assoc, R_pure, R_error_bind]
    simp

theorem fragment_start_if_trimmed_tie (o : OverlapResult) (f : Fragment) :
    Gen.Imp.OverlapResult_fragment_start_if_trimmed o f = o.fragmentStartIfTrimmed f := by
  unfold Gen.Imp.OverlapResult_fragment_start_if_trimmed fragmentStartIfTrimmed firstIs lastIs
  simp only [rowIsFrag_eq]
  by_cases hs : f.strand = 1
  · cases h0 : pyGet o.rows 0 <;> simp [hs, bind, Except.bind, pure, Except.pure]
  · cases h0 : pyGet o.rows (-1) <;> simp [hs, bind, Except.bind, pure, Except.pure]

theorem exists_snoc_of_cons {α : Type} (x : α) (t : List α) : ∃ t' y, x :: t = t' ++ [y] := by
  refine ⟨(x :: t).dropLast, (x :: t).getLast (by simp), ?_⟩
  exact (List.dropLast_concat_getLast _).symm

/-- the string literals of the source are the extracted constants the model uses -/
theorem tags_eq : Gen.cutTag = "Cut".toList ∧ Gen.paintedTag = "Painted".toList := by decide

theorem endOverhang_with_start (o : OverlapResult) (s : Int) : ({ o with start := s }).endOverhang = o.endOverhang := rfl

theorem trim_fragment_tie (o : OverlapResult) (trim : Fragment) (ks ke : Bool) (newOid : Nat) :
    Gen.Imp.OverlapResult_trim_fragment o trim ks ke newOid = o.trimFragment trim ks ke newOid := by
  unfold Gen.Imp.OverlapResult_trim_fragment trimFragment firstIs lastIs
  simp only [rowIsFrag_eq, ← tags_eq.1, ← tags_eq.2]
  obtain hr | ⟨x, t, hr⟩ : o.rows = [] ∨ ∃ x t, o.rows = x :: t := by cases o.rows <;> simp
  · simp [hr, bind, Except.bind]
  · -- non-empty rows: first row `x`, last row `y`; `rows[0] = new` / `rows[-1] = new` cannot fail
    obtain ⟨t', y, hy⟩ := exists_snoc_of_cons x t
    have hfirst : pyGet o.rows 0 = .ok x := by rw [hr]; exact pyGet_zero_cons x t
    have hlast : pyGet o.rows (-1) = .ok y := by rw [hr, hy]; exact pyGet_neg_one_snoc t' y
    have hset0 : ∀ z, PyRt.setAt o.rows 0 z = .ok (z :: t) := fun z => by rw [hr]; exact setAt_zero_cons x z t
    have hset1 : ∀ z, PyRt.setAt o.rows (-1) z = .ok (setLast o.rows z) := by
      intro z; rw [hr, hy, setLast_snoc]; exact setAt_neg_one_snoc t' y z
    simp only [hfirst, hlast, R_ok_bind, R_pure_bind, R_pure]
    cases ha : rowIs x trim <;> cases hb : rowIs y trim <;> cases ks <;> cases ke <;>
      by_cases hst : trim.strand = 1 <;> by_cases hso : o.startOverhang > 0 <;> by_cases heo : o.endOverhang > 0 <;>
      simp only [hst, hso, heo, hfirst, hlast, hb, hset0, hset1, endOverhang_with_start,
        R_ok_bind, R_pure_bind, R_pure, R_bind_ok, R_error_bind, Bool.false_eq_true, if_true, if_false,
        decide_true, decide_false, Bool.and_true, Bool.and_false, Bool.not_true, Bool.not_false, not_true, not_false_eq_true,
        and_true, and_false, true_and, false_and]
    all_goals (first | rfl | (simp only [hr, List.cons_append, List.nil_append]))

end AgpTpf.ImpOverlap
