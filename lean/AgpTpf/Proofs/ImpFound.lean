/-
  Helper lemmas for `Properties/C01ImpFound.lean`: the translated Python source of `BuildAssembly.store_fragments_found` and
  `BuildAssembly.discard_overhanging_fragments` (`Gen.Imp.BuildAssembly_*`) against the hand-written model
  (`Model/Remap.lean`: `storeFragmentsFound`, `applyFixBookkeeping`, `resolverRound`, `discardOverhanging`).

  The source keeps the `FoundFragment` objects in an arena `heap : List Found`; its two dictionaries map a contig key to a
  REFERENCE into the arena.  The model keeps the VALUES in `Build.found` and only the keys in `Build.multi`.  So the tie is a
  refinement: `absFound` reads the model's `found` off the source state, `Coherent` is the invariant under which the aliasing
  of the source (the same object reachable from both dictionaries) is invisible.

  Layout: (1) refinement plumbing (`Ref`: "the source raises what the model raises, or returns a related value") for `>>=`,
  `PyRt.forIn`; (2) facts about the association-list dictionaries; (3) facts about the arena (`getFound`, `foundAdd`,
  `foundRemove`); (4) `absFound` under arena updates; (5) `Coherent` is preserved by every update the two methods make;
  (6) `store_fragments_found`; (7) one resolver round; (8) the `while multi:` loop.

  The generated definitions are unfolded by name; the proofs then follow the control flow by case analysis on MODEL-level
  quantities (`dGet? found k`, `removeFirst …`, `addPremise …`) and close each case with `simp` + the lemmas of (2)–(5); no
  generated sub-term is mentioned literally.  The order of the components of the loop states is the only generated shape the
  relations `RelS` / `RelP` / `RelB` / `RelD` depend on.
-/
import AgpTpf.Properties.C02Imp
set_option linter.unusedSimpArgs false
set_option linter.unusedVariables false
namespace AgpTpf.ImpFound
open AgpTpf

/-! ### 1. refinement plumbing -/

/-- the source computation `src` refines the model computation `mdl`: the same exception, or results related by `Q` -/
def Ref {τ μ : Type} (Q : τ → μ → Prop) (src : R τ) (mdl : R μ) : Prop :=
  match mdl with
  | .error e => src = .error e
  | .ok m => ∃ t, src = .ok t ∧ Q t m

theorem Ref.ok {τ μ : Type} {Q : τ → μ → Prop} {t : τ} {m : μ} (h : Q t m) : Ref Q (.ok t) (.ok m) := ⟨t, rfl, h⟩

theorem Ref.bind {τ μ τ' μ' : Type} {Q : τ → μ → Prop} {Q' : τ' → μ' → Prop} {src : R τ} {mdl : R μ}
    {k : τ → R τ'} {km : μ → R μ'} (h : Ref Q src mdl) (hk : ∀ t m, Q t m → Ref Q' (k t) (km m)) :
    Ref Q' (src >>= k) (mdl >>= km) := by
  cases mdl with
  | error e => simp only [Ref] at h; subst h; rfl
  | ok m => obtain ⟨t, rfl, hq⟩ := h; exact hk t m hq

theorem Ref.mono {τ μ : Type} {Q Q' : τ → μ → Prop} {src : R τ} {mdl : R μ} (h : Ref Q src mdl)
    (hq : ∀ t m, Q t m → Q' t m) : Ref Q' src mdl := by
  cases mdl with
  | error e => exact h
  | ok m => obtain ⟨t, rfl, hq'⟩ := h; exact ⟨t, rfl, hq _ _ hq'⟩

/-- the pass fell off the end of the loop body with a state related to the model's -/
def nextRel {σ ρ μ : Type} (Rel : σ → μ → Prop) (t : PyRt.Ctl σ ρ) (m : μ) : Prop := ∃ s, t = .next s ∧ Rel s m
/-- the loop is over (no `return`) with a state related to the model's -/
def fellRel {σ ρ μ : Type} (Rel : σ → μ → Prop) (t : PyRt.Done σ ρ) (m : μ) : Prop := ∃ s, t = .fell s ∧ Rel s m

/-- a `for` loop each of whose passes refines the model's step function refines the model's monadic fold -/
theorem forIn_ref {α σ ρ μ : Type} (Rel : σ → μ → Prop) (mstep : μ → α → R μ) (body : α → σ → R (PyRt.Ctl σ ρ)) :
    ∀ (xs : List α), (∀ x ∈ xs, ∀ s m, Rel s m → Ref (nextRel Rel) (body x s) (mstep m x)) →
    ∀ s m, Rel s m → Ref (fellRel Rel) (PyRt.forIn xs s body) (xs.foldlM mstep m) := by
  intro xs
  induction xs with
  | nil => intro _ s m h; exact ⟨_, rfl, s, rfl, h⟩
  | cons x xs ih =>
    intro hb s m h
    have hx := hb x List.mem_cons_self s m h
    rw [List.foldlM_cons]
    cases hm : mstep m x with
    | error e =>
      rw [hm] at hx
      simp only [Ref] at hx
      simp only [PyRt.forIn, hx]
      rfl
    | ok m' =>
      rw [hm] at hx
      obtain ⟨t, ht, s', rfl, hr⟩ := hx
      simp only [PyRt.forIn, ht]
      exact ih (fun y hy => hb y (List.mem_cons_of_mem _ hy)) s' m' hr

/-- the same for a model step that cannot fail (`List.foldl`) -/
theorem forIn_ref_pure {α σ ρ μ : Type} (Rel : σ → μ → Prop) (mstep : μ → α → μ) (body : α → σ → R (PyRt.Ctl σ ρ)) :
    ∀ (xs : List α), (∀ x ∈ xs, ∀ s m, Rel s m → ∃ s', body x s = .ok (.next s') ∧ Rel s' (mstep m x)) →
    ∀ s m, Rel s m → ∃ s', PyRt.forIn xs s body = .ok (.fell s') ∧ Rel s' (xs.foldl mstep m) := by
  intro xs
  induction xs with
  | nil => intro _ s m h; exact ⟨s, rfl, h⟩
  | cons x xs ih =>
    intro hb s m h
    obtain ⟨s', hs', hr⟩ := hb x List.mem_cons_self s m h
    simp only [PyRt.forIn, hs', List.foldl_cons]
    exact ih (fun y hy => hb y (List.mem_cons_of_mem _ hy)) s' _ hr

/-- `for v in d.values()` walks the entries -/
theorem forIn_map {α β σ ρ : Type} (g : α → β) (body : β → σ → R (PyRt.Ctl σ ρ)) :
    ∀ (xs : List α) (s : σ), PyRt.forIn (xs.map g) s body = PyRt.forIn xs s (fun x => body (g x)) := by
  intro xs
  induction xs with
  | nil => intro s; rfl
  | cons x xs ih =>
    intro s
    simp only [List.map_cons, PyRt.forIn]
    cases body (g x) s with
    | error e => rfl
    | ok c => cases c <;> simp [ih]

/-! ### 2. the association-list dictionaries -/

section Dict
variable {κ ν : Type} [DecidableEq κ]

theorem dGet?_mem {d : List (κ × ν)} {k : κ} {v : ν} (h : dGet? d k = some v) : (k, v) ∈ d := by
  induction d with
  | nil => simp [dGet?] at h
  | cons p r ih =>
    obtain ⟨k', v'⟩ := p
    simp only [dGet?] at h
    split at h
    · next hk => subst hk; simp at h; subst h; exact List.mem_cons_self
    · exact List.mem_cons_of_mem _ (ih h)

theorem dSet_of_none {d : List (κ × ν)} {k : κ} (v : ν) (h : dGet? d k = none) : dSet d k v = d ++ [(k, v)] := by
  induction d with
  | nil => rfl
  | cons p r ih =>
    obtain ⟨k', v'⟩ := p
    simp only [dGet?] at h
    split at h
    · simp at h
    · next hk => simp [dSet, hk, ih h]

theorem dGet?_append_of_some {d : List (κ × ν)} {k : κ} {v : ν} (e : List (κ × ν)) (h : dGet? d k = some v) :
    dGet? (d ++ e) k = some v := by
  induction d with
  | nil => simp [dGet?] at h
  | cons p r ih =>
    obtain ⟨k', v'⟩ := p
    simp only [dGet?, List.cons_append] at h ⊢
    split
    · next hk => simpa [hk] using h
    · next hk => simp only [hk, if_false] at h; exact ih h

theorem map_fst_dSet (d : List (κ × ν)) (k : κ) (v : ν) : (dSet d k v).map (·.1) = sAdd (d.map (·.1)) k := by
  induction d with
  | nil => simp [dSet, sAdd]
  | cons p r ih =>
    obtain ⟨k', v'⟩ := p
    simp only [dSet]
    split
    · next hk => subst hk; simp [sAdd]
    · next hk =>
      have hk' : ¬ k = k' := fun h => hk h.symm
      simp only [List.map_cons, ih, sAdd, List.mem_cons, hk', false_or]
      split <;> simp

theorem mem_dSet {d : List (κ × ν)} {k : κ} {v : ν} {kv : κ × ν} (h : kv ∈ dSet d k v) : kv ∈ d ∨ kv = (k, v) := by
  induction d with
  | nil => simp [dSet] at h; exact Or.inr h
  | cons p r ih =>
    obtain ⟨k', v'⟩ := p
    simp only [dSet] at h
    split at h
    · next hk =>
      subst hk
      rcases List.mem_cons.mp h with rfl | hm
      · exact Or.inr rfl
      · exact Or.inl (List.mem_cons_of_mem _ hm)
    · rcases List.mem_cons.mp h with rfl | hm
      · exact Or.inl List.mem_cons_self
      · rcases ih hm with h1 | h1
        · exact Or.inl (List.mem_cons_of_mem _ h1)
        · exact Or.inr h1

theorem nodup_sAdd {s : List κ} (k : κ) (h : s.Nodup) : (sAdd s k).Nodup := by
  unfold sAdd
  split
  · exact h
  · next hk => exact List.nodup_append.mpr ⟨h, by simp, by intro a ha b hb; simp at hb; subst hb; intro hab; exact hk (hab ▸ ha)⟩

theorem dDel_sublist (d : List (κ × ν)) (k : κ) : (dDel d k).Sublist d := by
  induction d with
  | nil => exact List.Sublist.refl _
  | cons p r ih =>
    obtain ⟨k', v'⟩ := p
    simp only [dDel]
    split
    · exact List.sublist_cons_self _ _
    · exact ih.cons_cons _

theorem map_fst_dDel {d : List (κ × ν)} (k : κ) (h : (d.map (·.1)).Nodup) :
    (dDel d k).map (·.1) = (d.map (·.1)).filter (· ≠ k) := by
  induction d with
  | nil => rfl
  | cons p r ih =>
    obtain ⟨k', v'⟩ := p
    simp only [List.map_cons, List.nodup_cons] at h
    simp only [dDel]
    split
    · next hk =>
      subst hk
      have : (r.map (·.1)).filter (· ≠ k') = r.map (·.1) := by
        apply List.filter_eq_self.mpr
        intro a ha
        simp only [ne_eq, decide_not, Bool.not_eq_eq_eq_not, Bool.not_true, decide_eq_false_iff_not]
        intro hak; exact h.1 (hak ▸ ha)
      rw [List.map_cons, List.filter_cons_of_neg (by simp), this]
    · next hk => simp [hk, ih h.2]

theorem contains_keys {κ ν : Type} [DecidableEq κ] [BEq κ] [LawfulBEq κ] (d : List (κ × ν)) (k : κ) :
    (d.map (·.1)).contains k = (dGet? d k).isSome := by
  induction d with
  | nil => rfl
  | cons p r ih =>
    obtain ⟨k', v'⟩ := p
    simp only [List.map_cons, List.contains_cons, dGet?, ih]
    by_cases hk : k' = k
    · subst hk; simp
    · have hk' : ¬ k = k' := fun h => hk h.symm
      simp [hk, hk']

end Dict

/-! ### 3. the arena of `FoundFragment` objects -/

theorem getFound_of_lt {heap : List Found} {r : Nat} (h : r < heap.length) : PyRt.getFound heap r = heap[r] := by
  simp [PyRt.getFound, List.getD_eq_getElem?_getD, h]

theorem getFound_set (heap : List Found) (r r' : Nat) (f : Found) :
    PyRt.getFound (heap.set r f) r' = if r = r' ∧ r < heap.length then f else PyRt.getFound heap r' := by
  simp only [PyRt.getFound, List.getD_eq_getElem?_getD, List.getElem?_set]
  by_cases h : r = r'
  · subst h
    by_cases hl : r < heap.length <;> simp [hl]
  · simp [h]

theorem getFound_set_self {heap : List Found} {r : Nat} (f : Found) (h : r < heap.length) :
    PyRt.getFound (heap.set r f) r = f := by
  simp [getFound_set, h]

theorem getFound_append_lt {heap : List Found} {r : Nat} (f : Found) (h : r < heap.length) :
    PyRt.getFound (heap ++ [f]) r = PyRt.getFound heap r := by
  simp [PyRt.getFound, List.getD_eq_getElem?_getD, List.getElem?_append_left h]

theorem foundAdd_of_lt {heap : List Found} {r : Nat} (s : Nat) (h : r < heap.length) :
    PyRt.foundAdd heap r s
      = heap.set r { PyRt.getFound heap r with scaffolds := (PyRt.getFound heap r).scaffolds ++ [s] } := by
  simp [PyRt.foundAdd, getFound_of_lt h, h]

/-- `heap_ff.append(FoundFragment(ff)); fnd.add_scaffold(s)`: the new object is the last one of the arena -/
theorem foundAdd_new (heap : List Found) (ff : Fragment) (s : Nat) :
    PyRt.foundAdd (heap ++ [{ fragment := ff, scaffolds := [] }]) heap.length s
      = heap ++ [{ fragment := ff, scaffolds := [s] }] := by
  simp [PyRt.foundAdd]

theorem foundRemove_some {heap : List Found} {r s : Nat} {rest : List Nat} (h : r < heap.length)
    (hr : removeFirst (PyRt.getFound heap r).scaffolds s = some rest) :
    PyRt.foundRemove heap r s = .ok (heap.set r { PyRt.getFound heap r with scaffolds := rest }) := by
  rw [getFound_of_lt h] at hr
  simp [PyRt.foundRemove, hr, getFound_of_lt h, h]

theorem foundRemove_none {heap : List Found} {r s : Nat}
    (hr : removeFirst (PyRt.getFound heap r).scaffolds s = none) : PyRt.foundRemove heap r s = .error .value := by
  simp [PyRt.foundRemove, hr]

/-! ### 4. what the model sees of the arena -/

/-- what the model sees of the source's `self.found_fragments`: the VALUES behind the references -/
def absFound (heap : List Found) (found : List (Key × Nat)) : List (Key × Found) :=
  found.map (fun kv => (kv.1, PyRt.getFound heap kv.2))

theorem dGet?_absFound (heap : List Found) (found : List (Key × Nat)) (k : Key) :
    dGet? (absFound heap found) k = (dGet? found k).map (PyRt.getFound heap) := by
  induction found with
  | nil => rfl
  | cons p r ih =>
    obtain ⟨k', v'⟩ := p
    simp only [absFound, List.map_cons, dGet?] at ih ⊢
    split <;> simp [ih]

theorem absFound_set_notin {heap : List Found} {found : List (Key × Nat)} {r : Nat} (f : Found)
    (h : r ∉ found.map (·.2)) : absFound (heap.set r f) found = absFound heap found := by
  unfold absFound
  apply List.map_congr_left
  intro kv hkv
  have : r ≠ kv.2 := fun e => h (e ▸ List.mem_map_of_mem (f := (·.2)) hkv)
  simp [getFound_set, this]

/-- writing through a reference is `d[k] = v` on the values, provided no other key holds the same reference -/
theorem absFound_set {heap : List Found} {found : List (Key × Nat)} {k : Key} {r : Nat} (f : Found)
    (hn : (found.map (·.2)).Nodup) (hk : dGet? found k = some r) (hr : r < heap.length) :
    absFound (heap.set r f) found = dSet (absFound heap found) k f := by
  induction found with
  | nil => simp [dGet?] at hk
  | cons p rest ih =>
    obtain ⟨k', r'⟩ := p
    simp only [List.map_cons, List.nodup_cons] at hn
    simp only [dGet?] at hk
    split at hk
    · next hkk =>
      subst hkk
      simp only [Option.some.injEq] at hk
      subst hk
      have := absFound_set_notin (heap := heap) f hn.1
      simp only [absFound] at this
      simp [absFound, dSet, getFound_set_self f hr, this]
    · next hkk =>
      have hne : r ≠ r' := by
        intro e
        have := dGet?_mem hk
        exact hn.1 (e ▸ List.mem_map_of_mem (f := (·.2)) this)
      have h1 : PyRt.getFound (heap.set r f) r' = PyRt.getFound heap r' := by simp [getFound_set, hne]
      show (k', PyRt.getFound (heap.set r f) r') :: absFound (heap.set r f) rest
        = dSet ((k', PyRt.getFound heap r') :: absFound heap rest) k f
      rw [ih hn.2 hk, h1]
      simp [dSet, hkk]

theorem absFound_append {heap : List Found} {found : List (Key × Nat)} (f : Found)
    (h : ∀ kv ∈ found, kv.2 < heap.length) : absFound (heap ++ [f]) found = absFound heap found := by
  unfold absFound
  apply List.map_congr_left
  intro kv hkv
  simp [getFound_append_lt f (h kv hkv)]

/-! ### 5. the invariant -/

/-- the source's two dictionaries are coherent: references are in range, no two entries of `found` hold the same object, every
    `multi` entry is the `found` entry of the same key (the same OBJECT), and `multi` is a dictionary (no key twice) -/
def Coherent (heap : List Found) (found multi : List (Key × Nat)) : Prop :=
  (∀ kv ∈ found, kv.2 < heap.length) ∧ (found.map (·.2)).Nodup ∧
  (∀ kv ∈ multi, dGet? found kv.1 = some kv.2) ∧ (multi.map (·.1)).Nodup

theorem coherent_empty : Coherent [] [] [] := by simp [Coherent]

theorem Coherent.lt {heap : List Found} {found multi : List (Key × Nat)} (h : Coherent heap found multi)
    {k : Key} {r : Nat} (hk : dGet? found k = some r) : r < heap.length := h.1 _ (dGet?_mem hk)

theorem Coherent.set {heap : List Found} {found multi : List (Key × Nat)} (h : Coherent heap found multi)
    (r : Nat) (f : Found) : Coherent (heap.set r f) found multi := by
  refine ⟨?_, h.2.1, h.2.2.1, h.2.2.2⟩
  intro kv hkv; simpa using h.1 kv hkv

theorem Coherent.dSet_multi {heap : List Found} {found multi : List (Key × Nat)} (h : Coherent heap found multi)
    {k : Key} {r : Nat} (hk : dGet? found k = some r) : Coherent heap found (dSet multi k r) := by
  refine ⟨h.1, h.2.1, ?_, ?_⟩
  · intro kv hkv
    rcases mem_dSet hkv with hm | rfl
    · exact h.2.2.1 kv hm
    · exact hk
  · rw [map_fst_dSet]; exact nodup_sAdd k h.2.2.2

theorem Coherent.new {heap : List Found} {found multi : List (Key × Nat)} (h : Coherent heap found multi)
    {k : Key} (f : Found) : Coherent (heap ++ [f]) (found ++ [(k, heap.length)]) multi := by
  refine ⟨?_, ?_, ?_, h.2.2.2⟩
  · intro kv hkv
    rcases List.mem_append.mp hkv with hm | hm
    · have := h.1 kv hm; simp; omega
    · simp at hm; subst hm; simp
  · rw [List.map_append]
    refine List.nodup_append.mpr ⟨h.2.1, by simp, ?_⟩
    intro a ha b hb
    simp at hb; subst hb
    obtain ⟨kv, hkv, rfl⟩ := List.mem_map.mp ha
    have := h.1 kv hkv
    omega
  · intro kv hkv
    exact dGet?_append_of_some _ (h.2.2.1 kv hkv)

theorem Coherent.dDel_multi {heap : List Found} {found multi : List (Key × Nat)} (h : Coherent heap found multi)
    (k : Key) : Coherent heap found (dDel multi k) := by
  refine ⟨h.1, h.2.1, ?_, ?_⟩
  · intro kv hkv; exact h.2.2.1 kv ((dDel_sublist multi k).subset hkv)
  · exact ((dDel_sublist multi k).map (·.1)).nodup h.2.2.2

/-! ### 1b. a loop followed by the rest of the method -/

/-- `for …: body` (model step cannot fail) followed by `k` -/
theorem forIn_pure_bind {α σ ρ μ τ' μ' : Type} (Rel : σ → μ → Prop) (mstep : μ → α → μ)
    {body : α → σ → R (PyRt.Ctl σ ρ)} {xs : List α} {s : σ} (m : μ)
    {Q' : τ' → μ' → Prop} {k : PyRt.Done σ ρ → R τ'} {mdl' : R μ'}
    (hstep : ∀ x ∈ xs, ∀ s m, Rel s m → ∃ s', body x s = .ok (.next s') ∧ Rel s' (mstep m x))
    (hinit : Rel s m)
    (hk : ∀ s', Rel s' (xs.foldl mstep m) → Ref Q' (k (.fell s')) mdl') :
    Ref Q' (PyRt.forIn xs s body >>= k) mdl' := by
  obtain ⟨s', hs', hr⟩ := forIn_ref_pure Rel mstep body xs hstep s m hinit
  rw [hs']
  exact hk s' hr

/-- `for …: body` followed by `k`, against the model's `foldlM` followed by `km` -/
theorem forIn_bind {α σ ρ μ τ' μ' : Type} (Rel : σ → μ → Prop) {mstep : μ → α → R μ}
    {body : α → σ → R (PyRt.Ctl σ ρ)} {xs : List α} {s : σ} {m : μ}
    {Q' : τ' → μ' → Prop} {k : PyRt.Done σ ρ → R τ'} {km : μ → R μ'}
    (hstep : ∀ x ∈ xs, ∀ s m, Rel s m → Ref (nextRel Rel) (body x s) (mstep m x))
    (hinit : Rel s m)
    (hk : ∀ s' m', Rel s' m' → Ref Q' (k (.fell s')) (km m')) :
    Ref Q' (PyRt.forIn xs s body >>= k) (xs.foldlM mstep m >>= km) := by
  refine Ref.bind (forIn_ref Rel mstep body xs hstep s m hinit) ?_
  rintro t m' ⟨s', rfl, hr⟩
  exact hk s' m' hr

/-- the same when the model's fold is the last thing the model does -/
theorem forIn_bind_ok {α σ ρ μ τ' : Type} (Rel : σ → μ → Prop) {mstep : μ → α → R μ}
    {body : α → σ → R (PyRt.Ctl σ ρ)} {xs : List α} {s : σ} {m : μ}
    {Q' : τ' → μ → Prop} {k : PyRt.Done σ ρ → R τ'}
    (hstep : ∀ x ∈ xs, ∀ s m, Rel s m → Ref (nextRel Rel) (body x s) (mstep m x))
    (hinit : Rel s m)
    (hk : ∀ s' m', Rel s' m' → Ref Q' (k (.fell s')) (.ok m')) :
    Ref Q' (PyRt.forIn xs s body >>= k) (xs.foldlM mstep m) := by
  have h := forIn_bind Rel (km := fun m => .ok m) hstep hinit hk
  rwa [ImpResolver.bind_ok_self] at h

/-! ### 6. `store_fragments_found` -/

/-- one pass of the model's `storeFragmentsFound` -/
def storeStep (sid : Nat) (b : Build) (ff : Fragment) : Build :=
  let k := ff.keyTuple
  match dGet? b.found k with
  | some fnd => { b with multi := sAdd b.multi k,
                         found := dSet b.found k { fnd with scaffolds := fnd.scaffolds ++ [sid] } }
  | none => { b with found := b.found ++ [(k, { fragment := ff, scaffolds := [sid] })] }

theorem storeFragmentsFound_eq (b : Build) (sid : Nat) (frags : List Fragment) :
    storeFragmentsFound b sid frags = frags.foldl (storeStep sid) b := rfl

/-- the loop state of the translated `store_fragments_found` in the translator's canonical order (carried variables sorted by
    type, then by name: `self_found_fragments`, `self_fragments_found_more_than_once : List (Key × Nat)`, then `heap_ff : List Found`).
    Everything below goes through `SSt.pack`, the named projections and `SSt.exists_pack`; a change of the order is repaired here only. -/
abbrev SSt : Type := List (Key × Nat) × List (Key × Nat) × List Found
namespace SSt
abbrev pack (heap : List Found) (found multi : List (Key × Nat)) : SSt := (found, multi, heap)
abbrev heap (s : SSt) : List Found := s.2.2
abbrev found (s : SSt) : List (Key × Nat) := s.1
abbrev multi (s : SSt) : List (Key × Nat) := s.2.1
theorem exists_pack (s : SSt) : ∃ heap found multi, s = pack heap found multi := ⟨s.heap, s.found, s.multi, rfl⟩
@[simp] theorem heap_pack (h : List Found) (f m : List (Key × Nat)) : (pack h f m).heap = h := rfl
@[simp] theorem found_pack (h : List Found) (f m : List (Key × Nat)) : (pack h f m).found = f := rfl
@[simp] theorem multi_pack (h : List Found) (f m : List (Key × Nat)) : (pack h f m).multi = m := rfl
end SSt

/-- the loop state of the translated `store_fragments_found` against the model's `Build` -/
def RelS (b0 : Build) (s : SSt) (b : Build) : Prop :=
  Coherent s.heap s.found s.multi ∧ b = { b0 with found := absFound s.heap s.found, multi := s.multi.map (·.1) }

theorem absFound_new {heap : List Found} {found : List (Key × Nat)} (k : Key) (f : Found)
    (h : ∀ kv ∈ found, kv.2 < heap.length) :
    absFound (heap ++ [f]) (found ++ [(k, heap.length)]) = absFound heap found ++ [(k, f)] := by
  have := absFound_append f h
  simp only [absFound] at this
  simp only [absFound, List.map_append, this]
  simp [PyRt.getFound]

/-- a contig seen for the first time: a new object, a new entry of `found` -/
theorem relS_new {b0 b : Build} {multi found : List (Key × Nat)} {heap : List Found} {ff : Fragment} (sid : Nat)
    (h : RelS b0 (SSt.pack heap found multi) b) (hk : dGet? found ff.keyTuple = none) :
    RelS b0 (SSt.pack (PyRt.foundAdd (heap ++ [{ fragment := ff, scaffolds := [] }]) heap.length sid)
             (dSet found ff.keyTuple heap.length) multi) (storeStep sid b ff) := by
  obtain ⟨hc, rfl⟩ := h
  simp only [SSt.heap_pack, SSt.found_pack, SSt.multi_pack] at hc ⊢
  rw [foundAdd_new, dSet_of_none _ hk]
  refine ⟨hc.new _, ?_⟩
  simp [storeStep, dGet?_absFound, hk, absFound_new _ _ hc.1]

/-- a contig seen before: the object it maps to goes into `multi` and gets one more holder -/
theorem relS_old {b0 b : Build} {multi found : List (Key × Nat)} {heap : List Found} {ff : Fragment} {r : Nat} (sid : Nat)
    (h : RelS b0 (SSt.pack heap found multi) b) (hk : dGet? found ff.keyTuple = some r) :
    RelS b0 (SSt.pack (PyRt.foundAdd heap r sid) found (dSet multi ff.keyTuple r)) (storeStep sid b ff) := by
  obtain ⟨hc, rfl⟩ := h
  simp only [SSt.heap_pack, SSt.found_pack, SSt.multi_pack] at hc ⊢
  rw [foundAdd_of_lt _ (hc.lt hk)]
  refine ⟨(hc.dSet_multi hk).set _ _, ?_⟩
  simp [storeStep, dGet?_absFound, hk, absFound_set _ hc.2.1 hk (hc.lt hk), map_fst_dSet]

/-- what `store_fragments_found_refines` says about the pair (source result, model result) -/
def StoreQ (b : Build) (t : List Res × List Found × List (Key × Nat) × List (Key × Nat)) (m : Build) : Prop :=
  ∃ heap' found' multi', t = (b.store, heap', found', multi') ∧ Coherent heap' found' multi' ∧
    m = { b with found := absFound heap' found', multi := multi'.map (·.1) }

theorem store_tie (b : Build) (heap : List Found) (found multi : List (Key × Nat)) (sid : Nat)
    (hc : Coherent heap found multi) (hf : b.found = absFound heap found) (hm : b.multi = multi.map (·.1)) :
    Ref (StoreQ b) (Gen.Imp.BuildAssembly_store_fragments_found b.store heap found multi sid)
      (.ok (storeFragmentsFound b sid (fragmentsOf (getRes b.store sid).rows))) := by
  unfold Gen.Imp.BuildAssembly_store_fragments_found
  rw [storeFragmentsFound_eq]
  refine forIn_pure_bind (RelS b) (storeStep sid) b ?_ ⟨hc, ?_⟩ ?_
  · intro ff _ s m hr
    obtain ⟨heap, found, multi, rfl⟩ := SSt.exists_pack s
    cases hk : dGet? found ff.keyTuple with
    | none => exact ⟨_, by simp [hk], relS_new sid hr hk⟩
    | some r => exact ⟨_, by simp [hk], relS_old sid hr hk⟩
  · rw [← hf, ← hm]
  · rintro s ⟨hc', hb'⟩
    obtain ⟨heap', found', multi', rfl⟩ := SSt.exists_pack s
    exact ⟨_, rfl, heap', found', multi', rfl, hc', hb'⟩

/-! ### 7. one resolver round -/

/-- the model state a source state `(heap, multi, store)` (with the untouched `found`) stands for; everything else as in `b0` -/
def mkB (b0 : Build) (st : List Res) (heap : List Found) (found multi : List (Key × Nat)) : Build :=
  { b0 with store := st, found := absFound heap found, multi := multi.map (·.1) }

@[simp] theorem mkB_store (b0 st heap found multi) : (mkB b0 st heap found multi).store = st := rfl
@[simp] theorem mkB_found (b0 st heap found multi) : (mkB b0 st heap found multi).found = absFound heap found := rfl
@[simp] theorem mkB_multi (b0 st heap found multi) : (mkB b0 st heap found multi).multi = multi.map (·.1) := rfl
@[simp] theorem mkB_err (b0 st heap found multi) : (mkB b0 st heap found multi).err = b0.err := rfl
theorem mkB_with_store (b0 st st' heap found multi) :
    { mkB b0 st heap found multi with store := st' } = mkB b0 st' heap found multi := rfl

theorem Ref.refl {τ : Type} (x : R τ) : Ref (fun t m => t = m ∧ x = .ok m) x x := by
  cases x with
  | error e => rfl
  | ok v => exact ⟨v, rfl, rfl, rfl⟩

/-- `fixOne` leaves the state alone or records one more fix -/
theorem fixOne_quiet (err : Int) (store : List Res) (fixes : List Premise) (ps : List Premise)
    (store' : List Res) (fixes' : List Premise) (h : fixOne err (store, fixes) ps = .ok (store', fixes')) :
    (store' = store ∧ fixes' = fixes) ∨ ∃ p : Premise, fixes' = fixes ++ [p] := by
  unfold fixOne at h
  simp only [bind, Except.bind, pure, Except.pure] at h
  repeat' split at h
  all_goals first
    | (cases h; done)
    | (simp only [Except.ok.injEq, Prod.mk.injEq] at h
       obtain ⟨rfl, rfl⟩ := h
       first
         | exact Or.inl ⟨rfl, rfl⟩
         | exact Or.inr ⟨_, rfl⟩)

/-- no fix made ⇒ `make_fixes` left every OverlapResult alone (so `break` leaves the loop with the state it was entered with) -/
theorem fixes_nil_store {err : Int} {store store' : List Res} {pss : List (List Premise)}
    (h : pss.foldlM (fixOne err) (store, []) = .ok (store', [])) : store' = store := by
  have := ImpResolver.foldlM_inv (fun (s : List Res × List Premise) => s.2 = [] → s.1 = store) (fixOne err)
    (by
      rintro ⟨st, fx⟩ ps ⟨st', fx'⟩ hs hstep
      rcases fixOne_quiet _ _ _ _ _ _ hstep with ⟨rfl, rfl⟩ | ⟨p, rfl⟩
      · exact hs
      · intro hnil; simp at hnil)
    pss (store, []) (store', []) (fun _ => rfl) h
  exact this rfl

/-- the state of the premise loops — `(ovr_resolver, store)` — against the model's premise dictionary -/
def RelP (st : List Res) (s : List (Key × List Premise) × List Res) (m : List (Key × List Premise)) : Prop :=
  s.2 = st ∧ s.1 = m

/-- the state of the `for premise in fixes_made` loop in the translator's canonical order (by type, then by name:
    `self_fragments_found_more_than_once : List (Key × Nat)`, then `heap_ff : List Found`) -/
abbrev BSt : Type := List (Key × Nat) × List Found
namespace BSt
abbrev pack (heap : List Found) (multi : List (Key × Nat)) : BSt := (multi, heap)
abbrev heap (s : BSt) : List Found := s.2
abbrev multi (s : BSt) : List (Key × Nat) := s.1
theorem exists_pack (s : BSt) : ∃ heap multi, s = pack heap multi := ⟨s.heap, s.multi, rfl⟩
@[simp] theorem heap_pack (h : List Found) (m : List (Key × Nat)) : (pack h m).heap = h := rfl
@[simp] theorem multi_pack (h : List Found) (m : List (Key × Nat)) : (pack h m).multi = m := rfl
end BSt

/-- the state of the `while multi:` loop in the translator's canonical order (`self_fragments_found_more_than_once : List (Key × Nat)`,
    `heap_ff : List Found`, `store : List Res`) -/
abbrev DSt : Type := List (Key × Nat) × List Found × List Res
namespace DSt
abbrev pack (heap : List Found) (multi : List (Key × Nat)) (store : List Res) : DSt := (multi, heap, store)
abbrev heap (s : DSt) : List Found := s.2.1
abbrev multi (s : DSt) : List (Key × Nat) := s.1
abbrev store (s : DSt) : List Res := s.2.2
theorem exists_pack (s : DSt) : ∃ heap multi store, s = pack heap multi store := ⟨s.heap, s.multi, s.store, rfl⟩
@[simp] theorem heap_pack (h : List Found) (m : List (Key × Nat)) (st : List Res) : (pack h m st).heap = h := rfl
@[simp] theorem multi_pack (h : List Found) (m : List (Key × Nat)) (st : List Res) : (pack h m st).multi = m := rfl
@[simp] theorem store_pack (h : List Found) (m : List (Key × Nat)) (st : List Res) : (pack h m st).store = st := rfl
end DSt

/-- the state of the `for premise in fixes_made` loop against the model's `Build` -/
def RelB (b0 : Build) (found : List (Key × Nat)) (st : List Res) (s : BSt) (b : Build) : Prop :=
  Coherent s.heap found s.multi ∧ b = mkB b0 st s.heap found s.multi

/-- the state of the `while multi:` loop against the model's `Build` -/
def RelD (b0 : Build) (found : List (Key × Nat)) (s : DSt) (b : Build) : Prop :=
  Coherent s.heap found s.multi ∧ b = mkB b0 s.store s.heap found s.multi

theorem multi_entry_found {heap : List Found} {found multi : List (Key × Nat)} (hc : Coherent heap found multi)
    {k : Key} {r : Nat} (hd : dGet? multi k = some r) :
    dGet? (absFound heap found) k = some (PyRt.getFound heap r) := by
  rw [dGet?_absFound, hc.2.2.1 _ (dGet?_mem hd)]; rfl

/-- the fixed contig is not (or no longer) in `multi`: nothing happens -/
theorem bookkeeping_absent (b0 : Build) (st : List Res) {heap : List Found} {found multi : List (Key × Nat)} {p : Premise}
    (hd : dGet? multi p.fragment.keyTuple = none) :
    applyFixBookkeeping (mkB b0 st heap found multi) p = .ok (mkB b0 st heap found multi) := by
  simp only [applyFixBookkeeping, mkB_multi, contains_keys, hd, Option.isSome_none, Bool.false_eq_true, if_false]

/-- the fixed contig is in `multi`: the holder goes (`ValueError` when it is not one), and the entry when one holder is left -/
theorem bookkeeping_present (b0 : Build) (st : List Res) {heap : List Found} {found multi : List (Key × Nat)} {p : Premise}
    {r : Nat} (hc : Coherent heap found multi) (hd : dGet? multi p.fragment.keyTuple = some r) :
    applyFixBookkeeping (mkB b0 st heap found multi) p =
      match removeFirst (PyRt.getFound heap r).scaffolds p.sid with
      | none => .error .value
      | some rest => .ok (mkB b0 st (heap.set r { PyRt.getFound heap r with scaffolds := rest }) found
                            (if rest.length ≤ 1 then dDel multi p.fragment.keyTuple else multi)) := by
  have hfound : dGet? found p.fragment.keyTuple = some r := hc.2.2.1 _ (dGet?_mem hd)
  simp only [applyFixBookkeeping, mkB_multi, mkB_found, contains_keys, hd, Option.isSome_some, if_true,
    multi_entry_found hc hd]
  cases removeFirst (PyRt.getFound heap r).scaffolds p.sid with
  | none => rfl
  | some rest =>
    simp only []
    have hset := absFound_set { PyRt.getFound heap r with scaffolds := rest } hc.2.1 hfound (hc.lt hfound)
    by_cases hl : rest.length ≤ 1
    · simp only [hl, if_true, mkB, ← hset, map_fst_dDel _ hc.2.2.2]
    · simp only [hl, if_false, mkB, ← hset]

/-- how one pass through the body of `while multi:` ends, against `resolverRound`: `break` with the state it started from, or on to
    the next pass with a related state -/
def RoundQ {σ ρ : Type} (Rel : σ → Build → Prop) (s : σ) (t : PyRt.Ctl σ ρ) (mo : Option Build) : Prop :=
  match mo with
  | none => t = .brk s
  | some b' => ∃ s', t = .next s' ∧ Rel s' b'

/-! ### 8. the `while multi:` loop -/

theorem whileLoop_bind {σ ρ τ' : Type} (Rel : σ → Build → Prop) {cond : σ → R Bool} {body : σ → R (PyRt.Ctl σ ρ)}
    {Q' : τ' → Build → Prop} {k : PyRt.Done σ ρ → R τ'}
    (hcond : ∀ s b, Rel s b → cond s = .ok (!b.multi.isEmpty))
    (hbody : ∀ s b, Rel s b → b.multi.isEmpty = false → Ref (RoundQ Rel s) (body s) (resolverRound b))
    (hk : ∀ s b, Rel s b → Ref Q' (k (.fell s)) (.ok b)) :
    ∀ (fuel : Nat) (s : σ) (b : Build), Rel s b →
      Ref Q' (PyRt.whileLoop fuel s cond body >>= k) (discardOverhanging fuel b) := by
  intro fuel
  induction fuel with
  | zero => intro s b _; rfl
  | succ fuel ih =>
    intro s b hr
    simp only [PyRt.whileLoop, discardOverhanging, hcond s b hr]
    cases he : b.multi.isEmpty with
    | true =>
      simp only [Bool.not_true, if_true]
      exact hk s b hr
    | false =>
      have hb := hbody s b hr he
      simp only [Bool.not_false, Bool.false_eq_true, if_false]
      cases hm : resolverRound b with
      | error e =>
        rw [hm] at hb
        simp only [Ref] at hb
        simp only [hb]
        rfl
      | ok mo =>
        rw [hm] at hb
        obtain ⟨t, ht, hq⟩ := hb
        cases mo with
        | none =>
          simp only [RoundQ] at hq
          subst hq
          simp only [ht]
          exact hk s b hr
        | some b' =>
          obtain ⟨s', rfl, hr'⟩ := hq
          simp only [ht]
          exact ih s' b' hr'

/-- what `discard_overhanging_refines` says about the pair (source result, model result) -/
def DiscardQ (b0 : Build) (found : List (Key × Nat)) (t : List Res × List Found × List (Key × Nat)) (b' : Build) : Prop :=
  Coherent t.2.1 found t.2.2 ∧ b' = mkB b0 t.1 t.2.1 found t.2.2

theorem discard_tie (fuel : Nat) (b : Build) (heap : List Found) (found multi : List (Key × Nat))
    (hc : Coherent heap found multi) (hf : b.found = absFound heap found) (hm : b.multi = multi.map (·.1)) :
    Ref (DiscardQ b found) (Gen.Imp.BuildAssembly_discard_overhanging_fragments fuel b.store heap multi b.err)
      (discardOverhanging fuel b) := by
  unfold Gen.Imp.BuildAssembly_discard_overhanging_fragments
  refine whileLoop_bind (RelD b found) ?hcond ?hbody ?hk fuel _ b ⟨hc, ?init⟩
  case init => simp only [mkB, ← hf, ← hm]
  case hcond =>
    rintro s b' ⟨_, rfl⟩
    obtain ⟨heap, multi, store, rfl⟩ := DSt.exists_pack s
    cases multi <;> rfl
  case hk =>
    rintro s b' ⟨hc', hb'⟩
    obtain ⟨heap, multi, store, rfl⟩ := DSt.exists_pack s
    exact ⟨_, rfl, hc', hb'⟩
  case hbody =>
    rintro s b' ⟨hc', rfl⟩ _
    obtain ⟨heap, multi, store, rfl⟩ := DSt.exists_pack s
    simp only [DSt.pack, DSt.heap, DSt.multi, DSt.store] at hc' ⊢
    simp only [ImpResolver.resolverRound_eq, ImpResolver.roundPrems, mkB_multi, mkB_found, mkB_store, mkB_err]
    rw [forIn_map, List.foldlM_map]
    refine forIn_bind (RelP store) ?ostep ⟨rfl, rfl⟩ ?ocont
    case ostep =>
      -- `for fnd in multi.values(): for scffld in fnd.scaffolds: add_overhang_premise(fnd.fragment, scffld)`
      rintro kv hkv ⟨prems, st⟩ m ⟨rfl, rfl⟩
      have hkv' : dGet? (absFound heap found) kv.1 = some (PyRt.getFound heap kv.2) := by
        rw [dGet?_absFound, hc'.2.2.1 kv hkv]; rfl
      simp only [hkv']
      refine forIn_bind_ok (RelP st) ?istep ⟨rfl, rfl⟩ ?icont
      case istep =>
        rintro sid _ ⟨prems', st'⟩ m' ⟨rfl, rfl⟩
        simp only [C02.add_overhang_premise_is_source]
        cases addPremise st' prems' (PyRt.getFound heap kv.2).fragment sid with
        | error e => rfl
        | ok p => exact ⟨_, rfl, _, rfl, rfl, rfl⟩
      case icont =>
        rintro ⟨prems', st'⟩ m' ⟨rfl, rfl⟩
        exact ⟨_, rfl, _, rfl, rfl, rfl⟩
    case ocont =>
      -- `fixes_made = ovr_resolver.make_fixes()`
      rintro ⟨prems, st⟩ m ⟨rfl, rfl⟩
      simp only [C02.make_fixes_is_source]
      refine Ref.bind (Ref.refl _) ?_
      rintro ⟨store2, fixes⟩ _ ⟨rfl, hfx⟩
      cases fixes with
      | nil =>
        -- `break`: nothing was fixed, so no OverlapResult changed
        have := fixes_nil_store hfx
        subst this
        exact ⟨_, rfl, rfl⟩
      | cons p0 ps =>
        simp only [List.isEmpty_cons, Bool.not_false, if_true, Bool.false_eq_true, if_false]
        refine forIn_bind (RelB b found store2) ?bstep ⟨hc', rfl⟩ ?bcont
        case bstep =>
          -- `for premise in fixes_made:` the bookkeeping
          rintro p _ s1 m ⟨hc1, rfl⟩
          obtain ⟨heap1, multi1, rfl⟩ := BSt.exists_pack s1
          simp only [BSt.pack, BSt.heap, BSt.multi] at hc1 ⊢
          cases hd : dGet? multi1 p.fragment.keyTuple with
          | none =>
            rw [bookkeeping_absent _ _ hd]
            exact ⟨_, rfl, _, rfl, hc1, rfl⟩
          | some r =>
            have hlt : r < heap1.length := hc1.lt (hc1.2.2.1 _ (dGet?_mem hd))
            rw [bookkeeping_present _ _ hc1 hd]
            cases hr : removeFirst (PyRt.getFound heap1 r).scaffolds p.sid with
            | none => simp only [foundRemove_none hr]; rfl
            | some rest =>
              simp only [foundRemove_some hlt hr, bind, Except.bind, getFound_set_self _ hlt, PyRt.dictDel, dHas, hd,
                Option.isSome_some, if_true]
              by_cases hl : rest.length ≤ 1
              · have hl' : Int.ofNat rest.length ≤ 1 := by simp only [Int.ofNat_eq_natCast]; omega
                simp only [hl, hl', decide_true, if_true]
                exact ⟨_, rfl, _, rfl, (hc1.set _ _).dDel_multi _, rfl⟩
              · have hl' : ¬ Int.ofNat rest.length ≤ 1 := by simp only [Int.ofNat_eq_natCast]; omega
                simp only [hl, hl', decide_false, if_false, Bool.false_eq_true]
                exact ⟨_, rfl, _, rfl, hc1.set _ _, rfl⟩
        case bcont =>
          rintro s2 b2 ⟨hc2, hb2⟩
          obtain ⟨heap2, multi2, rfl⟩ := BSt.exists_pack s2
          exact ⟨_, rfl, _, rfl, hc2, hb2⟩

/-! ### 9. coherence alone (no model state needed) -/

/-- any `Build` will do to carry the model side of `store_tie` / `discard_tie` when only the source state is of interest -/
def dummyBuild : Build := { namer := { autosomePrefix := [] }, nextOid := 0, joinGap := none, err := 0 }

theorem store_coherent (store : List Res) (heap : List Found) (found multi : List (Key × Nat)) (sid : Nat)
    (hc : Coherent heap found multi) :
    ∃ heap' found' multi',
      Gen.Imp.BuildAssembly_store_fragments_found store heap found multi sid = .ok (store, heap', found', multi') ∧
      Coherent heap' found' multi' := by
  obtain ⟨t, ht, heap', found', multi', rfl, hc', _⟩ :=
    store_tie (mkB dummyBuild store heap found multi) heap found multi sid hc rfl rfl
  exact ⟨heap', found', multi', ht, hc'⟩

end AgpTpf.ImpFound
