/-
  The split loop of `assembliesFused` (scaffold → output assembly) mirrored as a named fold, and its grouping spec.
-/
import AgpTpf.Model.Remap
import AgpTpf.Proofs.C09Dict
namespace AgpTpf.C09
open AgpTpf Dict

abbrev Asms := List (Option Str × Bool × List Nat)
abbrev SplitSt := Asms × List (Str × Nat) × List Str × List Scaffold

/-- the loop body of the split in `assemblies_with_scaffolds_fused` (verbatim) -/
def splitStep (prefix_ : Str) (acc : SplitSt) (sid : Nat) : SplitSt :=
  let (asms, entries, haps, fs) := acc
  let s := fs.getD sid default
  let (key, curated) :=
    if truthy s.tag then (s.tag, false)
    else if truthy s.haplotype then (s.haplotype, true)
    else (none, true)
  let asms := match dGet? asms key with
    | some (c, ids) => dSet asms key (c, ids ++ [sid])
    | none => asms ++ [(key, (curated, [sid]))]
  if s.rank = 1 then
    let h := pyStrOpt key
    (asms, entries ++ [(h, sid)], sAdd haps h, fs)
  else if s.rank = 2 then
    let fs := if prefix_.isPrefixOf s.name then fs else setAt fs sid { s with name := prefix_ ++ s.name }
    (asms, entries, haps, fs)
  else (asms, entries, haps, fs)

def splitLoop (prefix_ : Str) (fs : List Scaffold) : SplitSt :=
  (List.range fs.length).foldl (splitStep prefix_) ([], [], [], fs)

/-- everything after the split loop (verbatim) -/
def finishAssemblies (input : List Scaffold) (b : Build) (st : SplitSt) : R (List OutAsm × Stats) := do
  let prefix_ := b.namer.autosomePrefix
  let (asms, entries, haps, fs) := st
  let fs ←
    if haps.isEmpty then pure fs
    else do
      let groups ← buildGroups fs haps entries
      if groupsHaveErrors groups then throw .chrNamer
      let keyed ← groups.mapM (fun g => do let l ← groupFirstLength fs g; pure (l, g))
      let sorted := (stableSort (fun (a c : Int × GroupData) => a.1 ≥ c.1) keyed).map (·.2)
      pure (((List.range sorted.length).zip sorted).foldl (fun fs (p : Nat × GroupData) => nameGroup fs p.2 prefix_ (p.1 + 1)) fs)
  let outs ← asms.mapM (fun (a : Option Str × Bool × List Nat) => do
    let scs := a.2.2.map (fun sid => fs.getD sid default)
    let scs ← smartSort scs
    pure ({ key := a.1, curated := a.2.1, scaffolds := scs } : OutAsm))
  let stats ← makeStats input outs b.cuts
  pure (outs, stats)

theorem assembliesFused_eq (input : List Scaffold) (b : Build) :
    assembliesFused input b = finishAssemblies input b (splitLoop b.namer.autosomePrefix (fuseByName b)) := rfl

/-! ### the assembly a scaffold is routed to -/

/-- `(key, curated)` the loop computes for one fused scaffold -/
def asmKey (s : Scaffold) : Option Str × Bool :=
  if truthy s.tag then (s.tag, false)
  else if truthy s.haplotype then (s.haplotype, true)
  else (none, true)

def addAsm (asms : Asms) (kc : Option Str × Bool) (sid : Nat) : Asms :=
  match dGet? asms kc.1 with
  | some (c, ids) => dSet asms kc.1 (c, ids ++ [sid])
  | none => asms ++ [(kc.1, (kc.2, [sid]))]

theorem splitStep_asms (prefix_ : Str) (acc : SplitSt) (sid : Nat) :
    (splitStep prefix_ acc sid).1 = addAsm acc.1 (asmKey (acc.2.2.2.getD sid default)) sid := by
  obtain ⟨asms, entries, haps, fs⟩ := acc
  unfold splitStep asmKey addAsm
  simp only []
  split <;> (try split) <;> rfl

theorem getD_setAt {α} (l : List α) (i j : Nat) (x d : α) :
    (setAt l i x).getD j d = if i = j ∧ i < l.length then x else l.getD j d := by
  unfold setAt
  simp only [List.getD_eq_getElem?_getD, List.getElem?_set]
  by_cases h : i = j
  · subst h
    by_cases h2 : i < l.length
    · simp [h2]
    · simp [h2]
  · simp [h]

/-- the loop may rename scaffolds (`add_chr_prefix`) but never touches tag or haplotype -/
def TagsAgree (fs fs0 : List Scaffold) : Prop :=
  ∀ i, (fs.getD i default).tag = (fs0.getD i default).tag ∧ (fs.getD i default).haplotype = (fs0.getD i default).haplotype

theorem asmKey_congr (s s' : Scaffold) (h1 : s.tag = s'.tag) (h2 : s.haplotype = s'.haplotype) : asmKey s = asmKey s' := by
  unfold asmKey; rw [h1, h2]

theorem splitStep_fs (prefix_ : Str) (acc : SplitSt) (sid : Nat) :
    (splitStep prefix_ acc sid).2.2.2 =
      if (acc.2.2.2.getD sid default).rank = 2 ∧ ¬ prefix_.isPrefixOf (acc.2.2.2.getD sid default).name then
        setAt acc.2.2.2 sid { (acc.2.2.2.getD sid default) with name := prefix_ ++ (acc.2.2.2.getD sid default).name }
      else acc.2.2.2 := by
  obtain ⟨asms, entries, haps, fs⟩ := acc
  unfold splitStep
  simp only []
  by_cases h1 : (fs.getD sid default).rank = 1
  · have hc : ¬ ((fs.getD sid default).rank = 2 ∧ ¬ prefix_.isPrefixOf (fs.getD sid default).name = true) := by
      intro h; omega
    simp only [if_pos h1, if_neg hc]
  · by_cases h2 : (fs.getD sid default).rank = 2
    · by_cases h3 : prefix_.isPrefixOf (fs.getD sid default).name = true
      · have hc : ¬ ((fs.getD sid default).rank = 2 ∧ ¬ prefix_.isPrefixOf (fs.getD sid default).name = true) :=
          fun h => h.2 h3
        simp only [if_neg h1, if_pos h2, if_pos h3, if_neg hc]
      · have hc : ((fs.getD sid default).rank = 2 ∧ ¬ prefix_.isPrefixOf (fs.getD sid default).name = true) := ⟨h2, h3⟩
        simp only [if_neg h1, if_pos h2, if_neg h3, if_pos hc]
    · have hc : ¬ ((fs.getD sid default).rank = 2 ∧ ¬ prefix_.isPrefixOf (fs.getD sid default).name = true) :=
        fun h => h2 h.1
      simp only [if_neg h1, if_neg h2, if_neg hc]

theorem splitStep_tags (prefix_ : Str) (acc : SplitSt) (sid : Nat) (fs0 : List Scaffold)
    (h : TagsAgree acc.2.2.2 fs0) : TagsAgree (splitStep prefix_ acc sid).2.2.2 fs0 := by
  rw [splitStep_fs]
  split
  · intro i
    simp only [getD_setAt]
    split
    · rename_i hc
      obtain ⟨hc, _⟩ := hc
      subst hc
      exact h sid
    · exact h i
  · exact h

theorem splitFold_asms (prefix_ : Str) (fs0 : List Scaffold) (l : List Nat) :
    ∀ acc : SplitSt, TagsAgree acc.2.2.2 fs0 →
      (l.foldl (splitStep prefix_) acc).1 = l.foldl (fun asms sid => addAsm asms (asmKey (fs0.getD sid default)) sid) acc.1 := by
  induction l with
  | nil => intro acc _; rfl
  | cons sid r ih =>
    intro acc h
    simp only [List.foldl_cons]
    rw [ih _ (splitStep_tags prefix_ acc sid fs0 h), splitStep_asms]
    rw [asmKey_congr _ _ (h sid).1 (h sid).2]

/-- the assemblies dict of the split loop depends only on tags and haplotypes of the fused scaffolds -/
theorem splitLoop_asms (prefix_ : Str) (fs : List Scaffold) :
    (splitLoop prefix_ fs).1 =
      (List.range fs.length).foldl (fun asms sid => addAsm asms (asmKey (fs.getD sid default)) sid) [] :=
  splitFold_asms prefix_ fs _ ([], [], [], fs) (fun _ => ⟨rfl, rfl⟩)

/-! ### grouping spec -/

/-- `asms` groups exactly the ids in `done` by key, in order; `curated` is that of the first member -/
def GInv (key : Nat → Option Str) (cur : Nat → Bool) (asms : Asms) (done : List Nat) : Prop :=
  (asms.map (·.1)).Nodup ∧
  (∀ k c ids, dGet? asms k = some (c, ids) →
      ids = done.filter (fun j => key j = k) ∧ ids.head?.map cur = some c) ∧
  (∀ sid ∈ done, (dGet? asms (key sid)).isSome = true)

theorem ginv_step (key : Nat → Option Str) (cur : Nat → Bool) (asms : Asms) (done : List Nat) (sid : Nat)
    (h : GInv key cur asms done) : GInv key cur (addAsm asms (key sid, cur sid) sid) (done ++ [sid]) := by
  obtain ⟨h1, h2, h3⟩ := h
  unfold addAsm
  cases hg : dGet? asms (key sid) with
  | none =>
    simp only []
    refine ⟨?_, ?_, ?_⟩
    · simp only [List.map_append, List.map_cons, List.map_nil]
      refine List.nodup_append.2 ⟨h1, by simp, ?_⟩
      intro a ha b hb
      simp at hb; subst hb
      intro e; subst e
      exact (dGet?_none_iff asms (key sid)).1 hg ha
    · intro k c ids hk
      rw [dGet?_append_single] at hk
      cases hk' : dGet? asms k with
      | some w =>
        rw [hk'] at hk
        cases hk
        have hne : key sid ≠ k := by intro e; rw [e] at hg; rw [hg] at hk'; cases hk'
        obtain ⟨e1, e2⟩ := h2 k c ids hk'
        refine ⟨?_, e2⟩
        rw [List.filter_append, ← e1]
        simp [hne]
      | none =>
        rw [hk'] at hk
        simp only [] at hk
        by_cases e : key sid = k
        · rw [if_pos e] at hk
          cases hk
          subst e
          have hnil : done.filter (fun j => key j = key sid) = [] := by
            rw [List.filter_eq_nil_iff]
            intro j hj hjk
            have := h3 j hj
            rw [of_decide_eq_true hjk, hg] at this
            cases this
          rw [List.filter_append, hnil]
          simp
        · rw [if_neg e] at hk; cases hk
    · intro j hj
      rw [dGet?_append_single]
      rcases List.mem_append.1 hj with hj | hj
      · have := h3 j hj
        cases hj' : dGet? asms (key j) with
        | none => rw [hj'] at this; cases this
        | some w => rfl
      · simp at hj; subst hj
        rw [hg]; simp
  | some w =>
    obtain ⟨c, ids⟩ := w
    simp only []
    obtain ⟨e1, e2⟩ := h2 _ c ids hg
    refine ⟨?_, ?_, ?_⟩
    · rw [dSet_keys_of_some asms (key sid) _ _ hg]; exact h1
    · intro k c' ids' hk
      by_cases e : key sid = k
      · subst e
        rw [dGet?_dSet_self] at hk
        cases hk
        refine ⟨?_, ?_⟩
        · rw [List.filter_append, ← e1]; simp
        · cases ids with
          | nil => simp at e2
          | cons a r => simpa using e2
      · rw [dGet?_dSet_ne _ _ _ _ e] at hk
        obtain ⟨e1', e2'⟩ := h2 k c' ids' hk
        refine ⟨?_, e2'⟩
        rw [List.filter_append, ← e1']
        simp [e]
    · intro j hj
      by_cases e : key sid = key j
      · rw [← e, dGet?_dSet_self]; rfl
      · rw [dGet?_dSet_ne _ _ _ _ e]
        rcases List.mem_append.1 hj with hj | hj
        · exact h3 j hj
        · simp at hj; subst hj; exact absurd rfl e

theorem ginv_fold (key : Nat → Option Str) (cur : Nat → Bool) (l : List Nat) :
    ∀ asms done, GInv key cur asms done →
      GInv key cur (l.foldl (fun asms sid => addAsm asms (key sid, cur sid) sid) asms) (done ++ l) := by
  induction l with
  | nil => intro asms done h; simpa using h
  | cons sid r ih =>
    intro asms done h
    simp only [List.foldl_cons]
    have := ih _ _ (ginv_step key cur asms done sid h)
    simpa using this

/-! ### from the dict to the `OutAsm` list -/

theorem bind_eq_ok {α β} (x : R α) (f : α → R β) (b : β) :
    (x >>= f) = .ok b ↔ ∃ a, x = .ok a ∧ f a = .ok b := by
  cases x with
  | error e => simp [bind, Except.bind]
  | ok a => simp [bind, Except.bind]

theorem mapM_ok_map {α β γ : Type} (f : α → R β) (g : β → γ) (h : α → γ)
    (hf : ∀ a b, f a = .ok b → g b = h a) : ∀ (l : List α) (l' : List β), l.mapM f = .ok l' → l'.map g = l.map h := by
  intro l
  induction l with
  | nil => intro l' hl; simp [pure, Except.pure] at hl; subst hl; rfl
  | cons a r ih =>
    intro l' hl
    rw [List.mapM_cons, bind_eq_ok] at hl
    obtain ⟨b, hb, hl⟩ := hl
    rw [bind_eq_ok] at hl
    obtain ⟨bs, hbs, hl⟩ := hl
    cases hl
    simp only [List.map_cons]
    rw [hf a b hb, ih bs hbs]

/-- the last three steps of `assembliesFused` -/
def outsTail (input : List Scaffold) (b : Build) (asms : Asms) (fs : List Scaffold) : R (List OutAsm × Stats) := do
  let outs ← asms.mapM (fun (a : Option Str × Bool × List Nat) => do
    let scs := a.2.2.map (fun sid => fs.getD sid default)
    let scs ← smartSort scs
    pure ({ key := a.1, curated := a.2.1, scaffolds := scs } : OutAsm))
  let stats ← makeStats input outs b.cuts
  pure (outs, stats)

theorem outsTail_keys (input : List Scaffold) (b : Build) (asms : Asms) (fs : List Scaffold) (outs : List OutAsm)
    (stats : Stats) (h : outsTail input b asms fs = .ok (outs, stats)) :
    outs.map (fun a => (a.key, a.curated)) = asms.map (fun a => (a.1, a.2.1)) := by
  unfold outsTail at h
  rw [bind_eq_ok] at h
  obtain ⟨outs', ho, h⟩ := h
  rw [bind_eq_ok] at h
  obtain ⟨stats', _, h⟩ := h
  cases h
  refine mapM_ok_map _ _ _ ?_ asms outs ho
  intro a o hao
  rw [bind_eq_ok] at hao
  obtain ⟨scs, _, hao⟩ := hao
  cases hao
  rfl

/-- the output assemblies carry exactly the keys and `curated` flags of the dict, in dict order -/
theorem finishAssemblies_keys (input : List Scaffold) (b : Build) (st : SplitSt) (outs : List OutAsm) (stats : Stats)
    (h : finishAssemblies input b st = .ok (outs, stats)) :
    outs.map (fun a => (a.key, a.curated)) = st.1.map (fun a => (a.1, a.2.1)) := by
  obtain ⟨asms, entries, haps, fs⟩ := st
  unfold finishAssemblies at h
  simp only [] at h
  split at h
  · exact outsTail_keys input b asms fs outs stats h
  · rw [bind_eq_ok] at h
    obtain ⟨groups, _, h⟩ := h
    split at h
    · rw [bind_eq_ok] at h
      obtain ⟨_, h1, _⟩ := h
      cases h1
    · rw [bind_eq_ok] at h
      obtain ⟨keyed, _, h⟩ := h
      exact outsTail_keys input b asms _ outs stats h

end AgpTpf.C09
