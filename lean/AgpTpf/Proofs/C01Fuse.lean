/-
  Helper lemmas for C01 stage S3 (`fuseByName`) and the C07 clauses about fused scaffolds.
-/
import AgpTpf.Proofs.C01Missing
import AgpTpf.Proofs.C01Store
namespace AgpTpf.C01
open AgpTpf
open AgpTpf.C07 (adjPairs seam adjPairs_append adjPairs_append_gap NoTerminalGap)

abbrev FKey := Option Str × Option Str × Str
abbrev FAcc := List (FKey × Scaffold)

/-- the local `step` of `fuseByName` (verbatim) -/
def fuseStep (acc : FAcc) (key : FKey) (proto : Scaffold) (add : List Row → List Row) : FAcc :=
  match dGet? acc key with
  | some s => dSet acc key { s with rows := add s.rows }
  | none => acc ++ [(key, { proto with rows := add [] })]

def fuseStore (b : Build) (acc : FAcc) (r : Res) : FAcc :=
  if ¬ r.added ∨ r.o.rows.isEmpty then acc
  else
    let o := r.o
    fuseStep acc (o.tag, o.haplotype, o.name)
      { name := o.name, tag := o.tag, haplotype := o.haplotype, rank := o.rank,
        originalName := o.originalName, originalTags := o.originalTags }
      (fun built => Scaffold.appendRows built o.toScaffoldRows b.joinGap)

def fuseExtra (b : Build) (acc : FAcc) (e : Scaffold × Option (Fragment × List Gap)) : FAcc :=
  let s := e.1
  if s.rows.isEmpty then acc
  else fuseStep acc (s.tag, s.haplotype, s.name)
    { name := s.name, tag := s.tag, haplotype := s.haplotype, rank := s.rank,
      originalName := s.originalName, originalTags := s.originalTags }
    (fun built => built ++ gapsBeforeLeftover b.joinGap built e.2 ++ s.rows)

theorem fuseByName_eq (b : Build) :
    fuseByName b = ((b.extra.foldl (fuseExtra b) (b.store.foldl (fuseStore b) [])).map (·.2)) := rfl


/-! ### dict membership -/
section dict
variable {κ ν : Type} [DecidableEq κ]

theorem dGet?_mem (d : List (κ × ν)) (k : κ) (v : ν) (h : dGet? d k = some v) : (k, v) ∈ d := by
  induction d with
  | nil => simp [dGet?] at h
  | cons p r ih =>
    obtain ⟨k', v'⟩ := p
    simp only [dGet?] at h
    split at h
    · next hk => cases h; subst hk; exact List.mem_cons_self ..
    · exact List.mem_cons_of_mem _ (ih h)

theorem mem_dSet (d : List (κ × ν)) (k : κ) (v : ν) (e : κ × ν) (h : e ∈ dSet d k v) : e ∈ d ∨ e = (k, v) := by
  induction d with
  | nil => simp [dSet] at h; exact Or.inr h
  | cons p r ih =>
    obtain ⟨k', v'⟩ := p
    simp only [dSet] at h
    split at h
    · next hk =>
      subst hk
      rcases List.mem_cons.mp h with h | h
      · exact Or.inr h
      · exact Or.inl (List.mem_cons_of_mem _ h)
    · rcases List.mem_cons.mp h with h | h
      · exact Or.inl (h ▸ List.mem_cons_self ..)
      · rcases ih h with h | h
        · exact Or.inl (List.mem_cons_of_mem _ h)
        · exact Or.inr h

/-- replacing the value under a present key: contents change only by what the new value adds -/
theorem dSet_flatMap_perm {β} (g : ν → List β) (d : List (κ × ν)) (k : κ) (v v' : ν) (extra : List β)
    (h : dGet? d k = some v) (hg : g v' = g v ++ extra) :
    ((dSet d k v').flatMap (fun e => g e.2)).Perm (d.flatMap (fun e => g e.2) ++ extra) := by
  induction d with
  | nil => simp [dGet?] at h
  | cons p r ih =>
    obtain ⟨k1, v1⟩ := p
    simp only [dGet?] at h
    simp only [dSet]
    split at h
    · next hk =>
      cases h
      simp only [hk, ↓reduceIte, List.flatMap_cons, hg, List.append_assoc]
      exact List.Perm.append_left _ List.perm_append_comm
    · next hk =>
      simp only [hk, ↓reduceIte, List.flatMap_cons, List.append_assoc]
      exact List.Perm.append_left _ (ih h)
end dict

/-! ### rows -/

/-- the `(name, start, end)` triples of the fragments of a row list -/
def keysOf (rows : List Row) : List Key := (fragmentsOf rows).map Fragment.keyTuple

theorem fragmentsOf_appendRows (rows othr : List Row) (g : Option Gap) :
    fragmentsOf (Scaffold.appendRows rows othr g) = fragmentsOf rows ++ fragmentsOf othr := by
  unfold Scaffold.appendRows
  cases g with
  | none => simp [fragmentsOf_append]
  | some g =>
    simp only
    split
    · next h => simp only [List.isEmpty_iff] at h; subst h; rfl
    · simp [fragmentsOf_append, fragmentsOf]

theorem keysOf_appendRows (rows othr : List Row) (g : Option Gap) :
    keysOf (Scaffold.appendRows rows othr g) = keysOf rows ++ keysOf othr := by
  simp [keysOf, fragmentsOf_appendRows]

theorem fragmentsOf_map_reverse (l : List Row) :
    fragmentsOf (l.map Row.reverse) = (fragmentsOf l).map Fragment.reverse := by
  induction l with
  | nil => rfl
  | cons x t ih => cases x <;> simp [fragmentsOf, Row.reverse, ih]

theorem fragmentsOf_reverse (l : List Row) : fragmentsOf l.reverse = (fragmentsOf l).reverse := by
  induction l with
  | nil => rfl
  | cons x t ih => cases x <;> simp [fragmentsOf, fragmentsOf_append, ih]

theorem keysOf_toScaffoldRows (o : OverlapResult) : (keysOf o.toScaffoldRows).Perm (keysOf o.rows) := by
  unfold OverlapResult.toScaffoldRows keysOf
  split
  · rw [fragmentsOf_map_reverse, fragmentsOf_reverse, List.map_map]
    have : (Fragment.keyTuple ∘ Fragment.reverse) = Fragment.keyTuple := by
      funext f; rfl
    rw [this, List.map_reverse]
    exact List.reverse_perm _
  · exact List.Perm.refl _

theorem mem_appendRows (rows othr : List Row) (g : Option Gap) (x : Row) (h : x ∈ Scaffold.appendRows rows othr g) :
    x ∈ rows ∨ x ∈ othr ∨ ∃ gg, g = some gg ∧ x = .gap gg := by
  unfold Scaffold.appendRows at h
  cases g with
  | none => simp only [List.mem_append] at h; rcases h with h | h; exact Or.inl h; exact Or.inr (Or.inl h)
  | some gg =>
    simp only at h
    split at h
    · exact Or.inr (Or.inl h)
    · simp only [List.append_assoc, List.cons_append, List.nil_append, List.mem_append, List.mem_cons] at h
      rcases h with h | h | h
      · exact Or.inl h
      · exact Or.inr (Or.inr ⟨gg, rfl, h⟩)
      · exact Or.inr (Or.inl h)

theorem gap_mem_map_reverse (l : List Row) (g : Gap) : Row.gap g ∈ l.map Row.reverse ↔ Row.gap g ∈ l := by
  induction l with
  | nil => simp
  | cons x t ih => cases x <;> simp [Row.reverse, ih]

theorem gap_mem_toScaffoldRows (o : OverlapResult) (g : Gap) : Row.gap g ∈ o.toScaffoldRows ↔ Row.gap g ∈ o.rows := by
  unfold OverlapResult.toScaffoldRows
  split
  · rw [gap_mem_map_reverse, List.mem_reverse]
  · exact Iff.rfl

/-- adjacencies of an appended scaffold -/
theorem adjPairs_appendRows (rows othr : List Row) (g : Option Gap) :
    adjPairs (Scaffold.appendRows rows othr g) =
      adjPairs rows ++ (match g with | some _ => [] | none => seam rows othr) ++ adjPairs othr := by
  unfold Scaffold.appendRows
  cases g with
  | none => simp [adjPairs_append]
  | some gg =>
    simp only
    split
    · next h => simp only [List.isEmpty_iff] at h; subst h; simp
    · rw [adjPairs_append_gap]; simp

theorem noTerminalGap_appendRows (rows othr : List Row) (g : Option Gap)
    (h1 : rows = [] ∨ NoTerminalGap rows) (h2 : NoTerminalGap othr) (hne : othr ≠ []) :
    NoTerminalGap (Scaffold.appendRows rows othr g) ∧ Scaffold.appendRows rows othr g ≠ [] := by
  have key : ∀ mid : List Row, rows ≠ [] → NoTerminalGap rows → NoTerminalGap (rows ++ mid ++ othr) := by
    intro mid hr hn
    constructor
    · intro gg hh
      cases rows with
      | nil => exact hr rfl
      | cons x t => exact hn.1 gg (by simpa using hh)
    · intro gg hh
      rw [List.getLast?_append] at hh
      cases ho : othr.getLast? with
      | none => exact hne (List.getLast?_eq_none_iff.mp ho)
      | some x => rw [ho] at hh; exact h2.2 gg (ho.trans hh)
  unfold Scaffold.appendRows
  cases g with
  | none =>
    simp only
    rcases h1 with rfl | h1
    · exact ⟨by simpa using h2, by simpa using hne⟩
    · by_cases hr : rows = []
      · subst hr; exact ⟨by simpa using h2, by simpa using hne⟩
      · exact ⟨by simpa using key [] hr h1, by simp [hne]⟩
  | some gg =>
    simp only
    split
    · exact ⟨h2, hne⟩
    · next hr =>
      simp only [List.isEmpty_iff] at hr
      rcases h1 with h1 | h1
      · exact absurd h1 hr
      · exact ⟨key [Row.gap gg] hr h1, by simp⟩

/-! ### one fusing step -/

theorem fuseStep_keys (acc : FAcc) (key : FKey) (proto : Scaffold) (add : List Row → List Row) (K : List Key)
    (hadd : ∀ built, keysOf (add built) = keysOf built ++ K) :
    ((fuseStep acc key proto add).flatMap (fun e => keysOf e.2.rows)).Perm
      (acc.flatMap (fun e => keysOf e.2.rows) ++ K) := by
  unfold fuseStep
  cases h : dGet? acc key with
  | some s =>
    simp only
    exact dSet_flatMap_perm (fun s : Scaffold => keysOf s.rows) acc key s _ K h (hadd _)
  | none =>
    simp only [List.flatMap_append, List.flatMap_cons, List.flatMap_nil, List.append_nil, hadd]
    simp [keysOf, fragmentsOf]

/-- any property of row lists that holds for all accumulated scaffolds and is preserved by `add` holds after the step -/
theorem fuseStep_all (Q : List Row → Prop) (acc : FAcc) (key : FKey) (proto : Scaffold)
    (add : List Row → List Row) (hacc : ∀ e ∈ acc, Q e.2.rows)
    (hnew : Q (add []))
    (hext : ∀ built, built ≠ [] → Q built → Q (add built))
    (hne : ∀ e ∈ acc, e.2.rows ≠ []) :
    ∀ e ∈ fuseStep acc key proto add, Q e.2.rows := by
  unfold fuseStep
  cases h : dGet? acc key with
  | some s =>
    simp only
    intro e he
    rcases mem_dSet _ _ _ _ he with he | rfl
    · exact hacc e he
    · have hm := dGet?_mem _ _ _ h
      exact hext s.rows (hne _ hm) (hacc _ hm)
  | none =>
    simp only
    intro e he
    rcases List.mem_append.mp he with he | he
    · exact hacc e he
    · simp only [List.mem_cons, List.not_mem_nil, or_false] at he
      subst he; exact hnew

theorem appendRows_ne_nil (rows othr : List Row) (g : Option Gap) (h : othr ≠ []) : Scaffold.appendRows rows othr g ≠ [] := by
  unfold Scaffold.appendRows
  cases g with
  | none => simp [h]
  | some gg => simp only; split; exact h; simp

theorem fuseStep_nonempty (acc : FAcc) (key : FKey) (proto : Scaffold) (add : List Row → List Row)
    (hadd : ∀ built, add built ≠ []) (hne : ∀ e ∈ acc, e.2.rows ≠ []) :
    ∀ e ∈ fuseStep acc key proto add, e.2.rows ≠ [] :=
  fuseStep_all (fun r => r ≠ []) acc key proto add hne (hadd _) (fun _ _ _ => hadd _) hne

/-! ### `gaps_before_leftover` returns gap rows only -/

theorem gapsBeforeLeftover_nil (jg : Option Gap) (pred : Option (Fragment × List Gap)) :
    gapsBeforeLeftover jg [] pred = [] := rfl

/-- every row `gaps_before_leftover` returns is a gap row: the join gap, or one of the input gap rows recorded with the
    left-over scaffold's predecessor -/
theorem gapsBeforeLeftover_rows (jg : Option Gap) (built : List Row) (pred : Option (Fragment × List Gap)) :
    ∀ x ∈ gapsBeforeLeftover jg built pred,
      ∃ g, x = Row.gap g ∧ (jg = some g ∨ ∃ prev gaps, pred = some (prev, gaps) ∧ g ∈ gaps) := by
  intro x hx
  unfold gapsBeforeLeftover at hx
  split at hx
  · cases hx
  · have hd : ∀ x ∈ (match jg with | some g => [Row.gap g] | none => ([] : List Row)), ∃ g, x = Row.gap g ∧ jg = some g := by
      intro x hx
      cases jg with
      | none => cases hx
      | some g => simp only [List.mem_cons, List.not_mem_nil, or_false] at hx; exact ⟨g, hx, rfl⟩
    simp only at hx
    cases pred with
    | none => obtain ⟨g, e, hj⟩ := hd x hx; exact ⟨g, e, Or.inl hj⟩
    | some p =>
      obtain ⟨prev, gaps⟩ := p
      cases hr : built.reverse with
      | nil => rw [hr] at hx; obtain ⟨g, e, hj⟩ := hd x hx; exact ⟨g, e, Or.inl hj⟩
      | cons y t =>
        rw [hr] at hx
        cases y with
        | gap g0 => obtain ⟨g, e, hj⟩ := hd x hx; exact ⟨g, e, Or.inl hj⟩
        | frag last =>
          simp only at hx
          by_cases hc : last.name = prev.name ∧ last.strand = prev.strand ∧
              (if prev.strand = -1 then last.start else last.stop) = (if prev.strand = -1 then prev.start else prev.stop)
          · rw [if_pos hc] at hx
            obtain ⟨g, hg, rfl⟩ := List.mem_map.mp hx
            exact ⟨g, rfl, Or.inr ⟨prev, gaps, rfl, hg⟩⟩
          · rw [if_neg hc] at hx
            obtain ⟨g, e, hj⟩ := hd x hx; exact ⟨g, e, Or.inl hj⟩

theorem gapsBeforeLeftover_gaps (jg : Option Gap) (built : List Row) (pred : Option (Fragment × List Gap)) :
    ∀ x ∈ gapsBeforeLeftover jg built pred, ∃ g, x = Row.gap g :=
  fun x hx => let ⟨g, e, _⟩ := gapsBeforeLeftover_rows jg built pred x hx; ⟨g, e⟩

theorem keysOf_leftover_add (jg : Option Gap) (built rows : List Row) (pred : Option (Fragment × List Gap)) :
    keysOf (built ++ gapsBeforeLeftover jg built pred ++ rows) = keysOf built ++ keysOf rows := by
  simp [keysOf, fragmentsOf_append, fragmentsOf_all_gaps _ (gapsBeforeLeftover_gaps jg built pred)]

/-! ### the two loops of `fuseByName` -/

def accKeys (acc : FAcc) : List Key := acc.flatMap (fun e => keysOf e.2.rows)

/-- triples held by the results that were appended to `BuildAssembly.scaffolds` -/
def storeKeys (l : List Res) : List Key := l.flatMap (fun r => if r.added then keysOf r.o.rows else [])

/-- triples held by the left-over scaffolds -/
def extraKeys (l : List (Scaffold × Option (Fragment × List Gap))) : List Key := l.flatMap (fun e => keysOf e.1.rows)

theorem toScaffoldRows_ne_nil (o : OverlapResult) (h : o.rows ≠ []) : o.toScaffoldRows ≠ [] := by
  unfold OverlapResult.toScaffoldRows
  split
  · simpa using h
  · exact h

theorem fuseStore_skip (b : Build) (acc : FAcc) (r : Res) (h : r.added = false ∨ r.o.rows = []) :
    fuseStore b acc r = acc := by
  unfold fuseStore
  rw [if_pos]
  rcases h with h | h
  · left; simp [h]
  · right; simp [h]

theorem fuseStore_take (b : Build) (acc : FAcc) (r : Res) (h1 : r.added = true) (h2 : r.o.rows ≠ []) :
    fuseStore b acc r = fuseStep acc (r.o.tag, r.o.haplotype, r.o.name)
      { name := r.o.name, tag := r.o.tag, haplotype := r.o.haplotype, rank := r.o.rank,
        originalName := r.o.originalName, originalTags := r.o.originalTags }
      (fun built => Scaffold.appendRows built r.o.toScaffoldRows b.joinGap) := by
  unfold fuseStore
  rw [if_neg]
  simp [h1, h2]

theorem fuseExtra_skip (b : Build) (acc : FAcc) (e : Scaffold × Option (Fragment × List Gap)) (h : e.1.rows = []) :
    fuseExtra b acc e = acc := by
  unfold fuseExtra; simp [h]

theorem fuseExtra_take (b : Build) (acc : FAcc) (e : Scaffold × Option (Fragment × List Gap)) (h : e.1.rows ≠ []) :
    fuseExtra b acc e = fuseStep acc (e.1.tag, e.1.haplotype, e.1.name)
      { name := e.1.name, tag := e.1.tag, haplotype := e.1.haplotype, rank := e.1.rank,
        originalName := e.1.originalName, originalTags := e.1.originalTags }
      (fun built => built ++ gapsBeforeLeftover b.joinGap built e.2 ++ e.1.rows) := by
  unfold fuseExtra; simp [h]

theorem fuseStore_keys (b : Build) (acc : FAcc) (r : Res) :
    (accKeys (fuseStore b acc r)).Perm (accKeys acc ++ (if r.added then keysOf r.o.rows else [])) := by
  by_cases h1 : r.added = true
  · by_cases h2 : r.o.rows = []
    · rw [fuseStore_skip _ _ _ (Or.inr h2)]; simp [h1, h2, keysOf, fragmentsOf]
    · rw [fuseStore_take _ _ _ h1 h2, if_pos h1]
      exact (fuseStep_keys _ _ _ _ _ (fun built => keysOf_appendRows built _ _)).trans
        (List.Perm.append_left _ (keysOf_toScaffoldRows _))
  · have : r.added = false := by simpa using h1
    rw [fuseStore_skip _ _ _ (Or.inl this)]; simp [this]

theorem fuseExtra_keys (b : Build) (acc : FAcc) (e : Scaffold × Option (Fragment × List Gap)) :
    (accKeys (fuseExtra b acc e)).Perm (accKeys acc ++ keysOf e.1.rows) := by
  by_cases h : e.1.rows = []
  · rw [fuseExtra_skip _ _ _ h]; simp [h, keysOf, fragmentsOf]
  · rw [fuseExtra_take _ _ _ h]; exact fuseStep_keys _ _ _ _ _ (fun built => keysOf_leftover_add _ built _ _)

theorem foldl_fuseStore_keys (b : Build) (l : List Res) (acc : FAcc) :
    (accKeys (l.foldl (fuseStore b) acc)).Perm (accKeys acc ++ storeKeys l) := by
  induction l generalizing acc with
  | nil => simp [storeKeys]
  | cons r t ih =>
    rw [List.foldl_cons]
    refine (ih _).trans ?_
    simp only [storeKeys, List.flatMap_cons]
    rw [← List.append_assoc]
    exact List.Perm.append_right _ (fuseStore_keys b acc r)

theorem foldl_fuseExtra_keys (b : Build) (l : List (Scaffold × Option (Fragment × List Gap))) (acc : FAcc) :
    (accKeys (l.foldl (fuseExtra b) acc)).Perm (accKeys acc ++ extraKeys l) := by
  induction l generalizing acc with
  | nil => simp [extraKeys]
  | cons r t ih =>
    rw [List.foldl_cons]
    refine (ih _).trans ?_
    simp only [extraKeys, List.flatMap_cons]
    rw [← List.append_assoc]
    exact List.Perm.append_right _ (fuseExtra_keys b acc r)

/-- property transfer through the first loop -/
theorem foldl_fuseStore_all (Q : List Row → Prop) (b : Build) (l : List Res) (acc : FAcc)
    (hacc : ∀ e ∈ acc, Q e.2.rows ∧ e.2.rows ≠ [])
    (hstep : ∀ r ∈ l, r.added = true → r.o.rows ≠ [] →
      Q (Scaffold.appendRows [] r.o.toScaffoldRows b.joinGap) ∧
      ∀ built, built ≠ [] → Q built → Q (Scaffold.appendRows built r.o.toScaffoldRows b.joinGap)) :
    ∀ e ∈ l.foldl (fuseStore b) acc, Q e.2.rows ∧ e.2.rows ≠ [] := by
  induction l generalizing acc with
  | nil => exact hacc
  | cons r t ih =>
    rw [List.foldl_cons]
    apply ih
    · by_cases h1 : r.added = true
      · by_cases h2 : r.o.rows = []
        · rw [fuseStore_skip _ _ _ (Or.inr h2)]; exact hacc
        · rw [fuseStore_take _ _ _ h1 h2]
          obtain ⟨s1, s2⟩ := hstep r (List.mem_cons_self ..) h1 h2
          intro e he
          exact ⟨fuseStep_all Q _ _ _ _ (fun e he => (hacc e he).1) s1 s2 (fun e he => (hacc e he).2) e he,
                 fuseStep_nonempty _ _ _ _ (fun _ => appendRows_ne_nil _ _ _ (toScaffoldRows_ne_nil _ h2))
                   (fun e he => (hacc e he).2) e he⟩
      · have : r.added = false := by simpa using h1
        rw [fuseStore_skip _ _ _ (Or.inl this)]; exact hacc
    · exact fun r hr => hstep r (List.mem_cons_of_mem _ hr)

/-- property transfer through the second loop -/
theorem foldl_fuseExtra_all (Q : List Row → Prop) (b : Build) (l : List (Scaffold × Option (Fragment × List Gap)))
    (acc : FAcc) (hacc : ∀ e ∈ acc, Q e.2.rows ∧ e.2.rows ≠ [])
    (hstep : ∀ x ∈ l, x.1.rows ≠ [] →
      Q x.1.rows ∧
      ∀ built, built ≠ [] → Q built → Q (built ++ gapsBeforeLeftover b.joinGap built x.2 ++ x.1.rows)) :
    ∀ e ∈ l.foldl (fuseExtra b) acc, Q e.2.rows ∧ e.2.rows ≠ [] := by
  induction l generalizing acc with
  | nil => exact hacc
  | cons r t ih =>
    rw [List.foldl_cons]
    apply ih
    · by_cases h2 : r.1.rows = []
      · rw [fuseExtra_skip _ _ _ h2]; exact hacc
      · rw [fuseExtra_take _ _ _ h2]
        obtain ⟨s1, s2⟩ := hstep r (List.mem_cons_self ..) h2
        intro e he
        exact ⟨fuseStep_all Q _ _ _ _ (fun e he => (hacc e he).1) (by simpa [gapsBeforeLeftover_nil] using s1) s2
                 (fun e he => (hacc e he).2) e he,
               fuseStep_nonempty _ _ _ _ (fun _ => by simp [h2]) (fun e he => (hacc e he).2) e he⟩
    · exact fun r hr => hstep r (List.mem_cons_of_mem _ hr)

/-- both loops -/
theorem fuseByName_all (Q : List Row → Prop) (b : Build)
    (hstore : ∀ r ∈ b.store, r.added = true → r.o.rows ≠ [] →
      Q (Scaffold.appendRows [] r.o.toScaffoldRows b.joinGap) ∧
      ∀ built, built ≠ [] → Q built → Q (Scaffold.appendRows built r.o.toScaffoldRows b.joinGap))
    (hextra : ∀ x ∈ b.extra, x.1.rows ≠ [] →
      Q x.1.rows ∧
      ∀ built, built ≠ [] → Q built → Q (built ++ gapsBeforeLeftover b.joinGap built x.2 ++ x.1.rows)) :
    ∀ s ∈ fuseByName b, Q s.rows ∧ s.rows ≠ [] := by
  intro s hs
  rw [fuseByName_eq] at hs
  obtain ⟨e, he, rfl⟩ := List.mem_map.mp hs
  exact foldl_fuseExtra_all Q b _ _ (foldl_fuseStore_all Q b _ [] (fun e he => by cases he) hstore) hextra e he

theorem fuseByName_keys (b : Build) :
    ((fuseByName b).flatMap (fun s => keysOf s.rows)).Perm (storeKeys b.store ++ extraKeys b.extra) := by
  rw [fuseByName_eq, List.flatMap_map]
  refine (foldl_fuseExtra_keys b b.extra _).trans (List.Perm.append_right _ ?_)
  simpa [accKeys] using foldl_fuseStore_keys b b.store []

end AgpTpf.C01
