/-
  C02 core (task W6-C02CORE), helper part 6: cutting keeps the core (`trim_fragment` shortens a terminal fragment exactly
  to the bait coordinate, which lies outside the core), and the chain over the whole of `remap_to_input_assembly`.
-/
import AgpTpf.Proofs.C02KResolve
import AgpTpf.Proofs.C07ChainC
import AgpTpf.Proofs.C09RMain
namespace AgpTpf.C02
open AgpTpf OverlapResult
open AgpTpf.C18 (Inv ids)
open AgpTpf.C01 (WFInput inputFrags FragDisjoint foldlM_inv Mid)

/-! ### the per-result invariant while cutting -/

/-- `KInv` w.r.t. the lookup scaffold, plus the object-identity bookkeeping that lets `trim_fragment(found.fragment)`
    (which finds its row by identity) be read as a call on the first / last row: ids below `N0` are input fragments, all
    ids are below `n` (= `next_oid`) -/
def CRes (input : List Scaffold) (N0 n : Nat) (err : Int) (o : OverlapResult) : Prop :=
  ∃ sc o0, sc ∈ input ∧ sc.name = o.bait.name ∧ findOverlaps sc.rows o.bait = .ok (some o0) ∧
    KInv sc.rows (3 * err) o0.start o0.stop o.bait o ∧ SafeKept sc.rows err (3 * err) o ∧
    ∀ f, Row.frag f ∈ o.rows → f.oid < n ∧ (f.oid < N0 → f ∈ inputFrags input)

theorem CRes.mono {input : List Scaffold} {N0 n n' : Nat} {err : Int} {o : OverlapResult} (h : CRes input N0 n err o)
    (hn : n ≤ n') : CRes input N0 n' err o := by
  obtain ⟨sc, o0, h1, h2, h3, h4, hS, h5⟩ := h
  exact ⟨sc, o0, h1, h2, h3, h4, hS, fun f hf => ⟨Nat.lt_of_lt_of_le (h5 f hf).1 hn, (h5 f hf).2⟩⟩

theorem CRes.of_rres {input : List Scaffold} {N0 n : Nat} {err : Int} {o : OverlapResult}
    (hlt : ∀ f ∈ inputFrags input, f.oid < N0) (hn : N0 ≤ n) (h : RRes input err o) : CRes input N0 n err o := by
  obtain ⟨sc, o0, h1, h2, h3, h4, h5, hS⟩ := h
  refine ⟨sc, o0, h1, h2, h3, h4, hS, ?_⟩
  intro f hf
  obtain ⟨A, B, hs, _⟩ := h5.slice
  have hin : f ∈ inputFrags input :=
    C01.mem_inputFrags.mpr ⟨sc, h1, C01.mem_fragmentsOf.mpr (by rw [hs]; simp [hf])⟩
  exact ⟨Nat.lt_of_lt_of_le (hlt f hin) hn, fun _ => hin⟩

theorem CRes.congr {input : List Scaffold} {N0 n : Nat} {err : Int} {o o' : OverlapResult} (h : CRes input N0 n err o)
    (hr : o'.rows = o.rows) (hs : o'.start = o.start) (he : o'.stop = o.stop) (hb : o'.bait = o.bait) :
    CRes input N0 n err o' := by
  obtain ⟨sc, o0, h1, h2, h3, h4, hS, h5⟩ := h
  refine ⟨sc, o0, h1, by rw [hb]; exact h2, by rw [hb]; exact h3, ?_, hS.congr hs he hb, fun f hf => h5 f (hr ▸ hf)⟩
  rw [hb]; exact h4.congr hr hs he hb

/-- `trim_fragment(found.fragment, …)` as the pipeline calls it -/
theorem CRes.trimFragment {input : List Scaffold} {N0 n : Nat} {err : Int} {o o' : OverlapResult} {f new : Fragment}
    {ks ke : Bool} (hwf : WFInput input) (hlt : ∀ g ∈ inputFrags input, g.oid < N0) (herr : 0 ≤ err) (hn : N0 ≤ n)
    (h : CRes input N0 n err o) (hf : f ∈ inputFrags input) (ht : o.trimFragment f ks ke n = .ok (o', new)) :
    CRes input N0 (n + 1) err o' := by
  obtain ⟨sc, o0, h1, h2, h3, hK, hS, hoids⟩ := h
  have hne : o.rows ≠ [] := by
    intro he; rw [C07.trimFragment_nil o f ks ke n he] at ht; cases ht
  obtain ⟨r0, t0, hr0⟩ : ∃ r0 t0, o.rows = r0 :: t0 := by
    cases hc : o.rows with
    | nil => exact absurd hc hne
    | cons a b => exact ⟨a, b, rfl⟩
  obtain ⟨t1, r1, hr1⟩ : ∃ t1 r1, o.rows = t1 ++ [r1] := by
    rcases C18.list_nil_or_concat o.rows with hc | hc
    · exact absurd hc hne
    · exact hc
  have hs := C18.firstIs_cons o f r0 t0 hr0
  have he := C18.lastIs_concat o f r1 t1 hr1
  obtain ⟨d1, d2, _, _, hab, _, _, hbait, _, _, hoid, _, _, _⟩ := C18.trimFragment_spec hs he ht
  have hfresh : n ∉ ids o.rows := by
    intro hmem
    obtain ⟨g, hg, e⟩ := (C07.mem_ids _ _).mp hmem
    have := (hoids g hg).1
    omega
  have row_is : ∀ r, r ∈ o.rows → rowIs r f = true → r = .frag f := by
    intro r hr his
    cases r with
    | gap g => simp [rowIs] at his
    | frag g =>
      have e : g.oid = f.oid := by simpa [rowIs] using his
      have hg : g ∈ inputFrags input := (hoids g hr).2 (by rw [e]; exact hlt f hf)
      rw [hwf.oid_inj hg hf e]
  have hrow : (∃ t, o.rows = .frag f :: t) ∨ (∃ t, o.rows = t ++ [.frag f]) := by
    rcases hab with ha | hb
    · left
      have e0 : r0 = .frag f := row_is r0 (by rw [hr0]; exact List.mem_cons_self ..) ha
      exact ⟨t0, by rw [hr0, e0]⟩
    · right
      have e1 : r1 = .frag f := row_is r1 (by rw [hr1]; simp) hb
      exact ⟨t1, by rw [hr1, e1]⟩
  have hK' := kinv_trimFragment (M := 3 * err) (by omega) hK hrow hfresh ht
  refine ⟨sc, o0, h1, by rw [hbait]; exact h2, by rw [hbait]; exact h3, by rw [hbait]; exact hK',
    safeKept_trimFragment hS ht, ?_⟩
  intro g hg
  have hmem : Row.frag g ∈ o.rows ∨ Row.frag g = Row.frag new := by
    rcases C07.trimFragment_rows _ _ _ _ _ _ _ ht with e | e
    · rw [e] at hg; exact C07.mem_setLast _ _ _ hg
    · rw [e] at hg; exact C07.mem_setHead _ _ _ hg
  rcases hmem with hm | hm
  · exact ⟨Nat.lt_succ_of_lt (hoids g hm).1, (hoids g hm).2⟩
  · cases hm
    rw [hoid]
    exact ⟨Nat.lt_succ_self _, fun hlt' => by omega⟩

/-! ### the build while cutting -/

structure KC (input : List Scaffold) (N0 : Nat) (err : Int) (b : Build) : Prop where
  store : ∀ r ∈ b.store, CRes input N0 b.nextOid err r.o
  found : ∀ kf ∈ b.found, kf.2.fragment ∈ inputFrags input
  n0 : N0 ≤ b.nextOid

theorem cutStep_kc {input : List Scaffold} {N0 : Nat} {err : Int} (hwf : WFInput input)
    (hlt : ∀ g ∈ inputFrags input, g.oid < N0) (herr : 0 ≤ err) (f : Fragment)
    (hf : f ∈ inputFrags input) (last : Nat) (b : Build) (subs : List Fragment) (i sid : Nat)
    (acc' : Build × List Fragment × Nat) (hc : KC input N0 err b)
    (h : C01.cutStep f last (b, subs, i) sid = .ok acc') :
    KC input N0 err acc'.1 ∧ acc'.1.found = b.found ∧ acc'.1.store.map (·.o.bait) = b.store.map (·.o.bait) := by
  unfold C01.cutStep at h
  simp only [bind, Except.bind] at h
  split at h
  · cases h
  · next v hv =>
    obtain ⟨o, new⟩ := v
    simp only [pure, Except.pure, Except.ok.injEq] at h
    subst h
    refine ⟨⟨?_, hc.found, Nat.le_succ_of_le hc.n0⟩, rfl, ?_⟩
    · intro r hr
      rcases C07.mem_setAt _ _ _ _ hr with hr | rfl
      · exact (hc.store r hr).mono (Nat.le_succ _)
      · rcases C07.getD_mem_or_default b.store sid with hm | hm
        · exact (hc.store _ hm).trimFragment hwf hlt herr hc.n0 hf hv
        · rw [hm] at hv
          rw [C07.trimFragment_nil _ _ _ _ _ C07.default_res_rows] at hv
          cases hv
    · exact C01.map_setAt_same (fun r : Res => r.o.bait) b.store sid _ (trimFragment_ends hv).1

theorem cutFragments_kc {input : List Scaffold} {N0 : Nat} {err : Int} (hwf : WFInput input)
    (hlt : ∀ g ∈ inputFrags input, g.oid < N0) (herr : 0 ≤ err) (b b' : Build)
    (fnd : Found) (hf : fnd.fragment ∈ inputFrags input) (hc : KC input N0 err b)
    (h : cutFragments b fnd = .ok b') :
    KC input N0 err b' ∧ b'.found = b.found ∧ b'.store.map (·.o.bait) = b.store.map (·.o.bait) := by
  obtain ⟨ordered, b1, subs, n, _, hfold, _, rfl⟩ := C01.cutFragments_ok b b' fnd h
  have := foldlM_inv (fun (x : Build × List Fragment × Nat) => KC input N0 err x.1 ∧ x.1.found = b.found ∧
      x.1.store.map (·.o.bait) = b.store.map (·.o.bait)) _ ordered
    (fun x sid x' ⟨hx1, hx2, hx3⟩ hstep => by
      obtain ⟨xb, xs, xi⟩ := x
      obtain ⟨q1, q2, q3⟩ := cutStep_kc hwf hlt herr _ hf _ _ _ _ _ _ hx1 hstep
      exact ⟨q1, q2.trans hx2, q3.trans hx3⟩)
    (b, [], 0) (b1, subs, n) ⟨hc, rfl, rfl⟩ hfold
  obtain ⟨t1, t2, t3⟩ := this
  exact ⟨⟨t1.store, t1.found, t1.n0⟩, t2, t3⟩

theorem cutRemaining_kc {input : List Scaffold} {N0 : Nat} {err : Int} (hwf : WFInput input)
    (hlt : ∀ g ∈ inputFrags input, g.oid < N0) (herr : 0 ≤ err) (b b' : Build)
    (hc : KC input N0 err b) (h : cutRemaining b = .ok b') :
    KC input N0 err b' ∧ b'.store.map (·.o.bait) = b.store.map (·.o.bait) := by
  unfold cutRemaining at h
  simp only [bind, Except.bind] at h
  split at h
  · cases h
  · next b1 hb1 =>
    simp only [pure, Except.pure, Except.ok.injEq] at h
    subst h
    have := foldlM_inv (fun x : Build => KC input N0 err x ∧ x.store.map (·.o.bait) = b.store.map (·.o.bait)) _ b.multi
      (fun x k x' hx hstep => by
        split at hstep
        · next fnd hfnd =>
          obtain ⟨q1, _, q3⟩ := cutFragments_kc hwf hlt herr _ _ fnd
            (hx.1.found (k, fnd) (C01.dGet?_mem _ _ _ hfnd)) hx.1 hstep
          exact ⟨q1, q3.trans hx.2⟩
        · simp only [pure, Except.pure, Except.ok.injEq] at hstep; subst hstep; exact hx)
      b b1 ⟨hc, rfl⟩ hb1
    exact ⟨⟨this.1.store, this.1.found, this.1.n0⟩, this.2⟩

/-! ### the whole of `remap_to_input_assembly` -/

/-- the baits of all Pretext fragments are pairwise disjoint intervals (per input scaffold name): the pieces of a
    Pretext map tile their input scaffolds -/
def PtxDisjoint (ptx : List Scaffold) : Prop := (ptx.flatMap Scaffold.fragments).Pairwise FragDisjoint

instance (ptx : List Scaffold) : Decidable (PtxDisjoint ptx) := by unfold PtxDisjoint; infer_instance

theorem pieces_baits_sublist (input : List Scaffold) : ∀ (seen : Bool) (ptx : List Scaffold),
    ((C09.pieces input seen ptx).map (·.2.2)).Sublist (ptx.flatMap Scaffold.fragments)
  | _, [] => by simp [C09.pieces]
  | seen, S :: rest => by
    simp only [C09.pieces, List.map_append, List.map_map, List.flatMap_cons]
    refine List.Sublist.append ?_ (pieces_baits_sublist input _ rest)
    have : (List.map ((fun x => x.2.2) ∘ fun p => (seen, S, p)) (List.filter (C09.hits input) S.fragments)) =
        List.filter (C09.hits input) S.fragments := by
      rw [show ((fun x : Bool × Scaffold × Fragment => x.2.2) ∘ fun p => (seen, S, p)) = id from rfl, List.map_id]
    rw [this]
    exact List.filter_sublist

/-- **K2, proof.**  Every stored result of the build returned by `remap_to_input_assembly` satisfies `KInv` with respect
    to its own bait, the input scaffold the bait names and the fresh lookup of the bait in it. -/
theorem remapToInput_core (input ptx : List Scaffold) (prefix_ : Str) (joinGap : Option Gap) (err : Int) (b : Build)
    (hwf : WFInput input) (hnn : InputNonNeg input) (hdis : PtxDisjoint ptx) (herr : 0 ≤ err)
    (h : remapToInput input ptx prefix_ joinGap err = .ok b) :
    ∀ r ∈ b.store, ∃ sc o0, sc ∈ input ∧ sc.name = r.o.bait.name ∧ findOverlaps sc.rows r.o.bait = .ok (some o0) ∧
      KInv sc.rows (3 * err) o0.start o0.stop r.o.bait r.o ∧ SafeKept sc.rows err (3 * err) r.o := by
  obtain ⟨b1, b2, b3, h1, h2, h3, h4⟩ := C09.remapToInput_stages input ptx prefix_ joinGap err b h
  -- baits of the final store = baits of the pieces: pairwise disjoint
  obtain ⟨hview, _, _⟩ := C09.build_tags input ptx prefix_ joinGap err b h
  have hbaits : ∀ s : List Res, s.map (·.o.bait) = (s.map C09.labelView).map (·.2.2.2) := by
    intro s; rw [List.map_map]; rfl
  have hDfinal : BaitsDisj b.store := by
    unfold BaitsDisj
    rw [hbaits, hview]
    have e : ((C09.pieces input false ptx).map C09.pieceView).map (·.2.2.2) = (C09.pieces input false ptx).map (·.2.2) := by
      rw [List.map_map]; rfl
    rw [e]
    exact List.Pairwise.sublist (pieces_baits_sublist input false ptx) hdis
  -- stage 1
  obtain ⟨hm1, hn1, _, _, he1, _⟩ := C01.reg_after_find input ptx _ b1 ⟨rfl, rfl, rfl⟩ h1
  have hS1 := (findAssemblyOverlaps_storeR hwf hnn ptx err herr _ b1 rfl (fun r hr => by cases hr) h1).1
  have he1' : b1.err = err := he1
  -- baits never change after stage 1
  have hb4 : b.store = renameBySize b3.store b3.namer.haplotigScaffolds := (C09.addMissing_store input _ b h4).1
  have hc4 := renameBySize_core4 b3.store b3.namer.haplotigScaffolds
  have hbait43 : b.store.map (·.o.bait) = b3.store.map (·.o.bait) := by
    rw [hb4]
    have e : ∀ s : List Res, s.map (·.o.bait) = (s.map core4).map (·.1) := by intro s; rw [List.map_map]; rfl
    rw [e, e, hc4]
  have hD1 : BaitsDisj b1.store := by
    have k2 := (C09.discardOverhanging_keeps _ b1 b2 h2).1
    have k3 := (C09.cutRemaining_keeps b2 b3 h3).1
    have hN : ∀ s : List Res, s.map (·.o.bait) = (s.map C09.fixedN).map (·.1.1.2.2.2.2.2) := by
      intro s; rw [List.map_map]; rfl
    unfold BaitsDisj
    rw [hN b1.store, ← k2, ← k3, ← hN b3.store, ← hbait43]
    exact hDfinal
  -- stage 2
  have hlt : ∀ g ∈ inputFrags input, g.oid < C07.firstNewOid input := (C07.inputOK_of_nodup input hwf.2.1).lt
  obtain ⟨hS2, _⟩ := storeR_discardOverhanging hwf hnn herr _ b1 b2 hm1 he1' hS1 hD1 h2
  obtain ⟨_, _, hn2, _, _⟩ := C01.reg_discard_overhanging input hwf _ b1 b2 hm1 h2
  -- stage 3
  have hn0 : C07.firstNewOid input ≤ b2.nextOid := by rw [hn2, hn1]; exact Nat.le_refl _
  have hin := C07.inputOK_of_nodup input hwf.2.1
  have c0 : C07.CInv input (C07.firstNewOid input) joinGap (C09.startBuild input prefix_ joinGap err) :=
    ⟨fun r hr => (by cases hr), fun kf hkf => (by cases hkf), Nat.le_refl _, rfl⟩
  have c1 := C07.findAssemblyOverlaps_cinv hin ptx _ _ c0 h1
  have c2 := C07.discardOverhanging_cinv _ _ _ c1 h2
  have hKC2 : KC input (C07.firstNewOid input) err b2 :=
    ⟨fun r hr => CRes.of_rres hlt hn0 (hS2 r hr), fun kf hkf => c2.found kf hkf, hn0⟩
  obtain ⟨hKC3, _⟩ := cutRemaining_kc hwf hlt herr b2 b3 hKC2 h3
  -- stages 4, 5: names only / store untouched
  intro r hr
  rw [hb4] at hr
  have : core4 r ∈ b3.store.map core4 := hc4 ▸ List.mem_map_of_mem hr
  obtain ⟨r3, hr3, e⟩ := List.mem_map.mp this
  simp only [core4, Prod.mk.injEq] at e
  obtain ⟨sc, o0, q1, q2, q3, q4, q5, _⟩ := (hKC3.store r3 hr3).congr e.2.1.symm e.2.2.1.symm e.2.2.2.symm e.1.symm
  exact ⟨sc, o0, q1, q2, q3, q4, q5⟩

end AgpTpf.C02
