/-
  T1c helper lemmas for `FastaStream.write_scaffold` (C03): the translated source (`Gen.Imp.FastaStream_write_scaffold`,
  over the loop combinators of `Model/PyRt.lean`) against the model (`streamScaffold` / `streamRow` / `writeChunk`).

  Everything here is stated about ARBITRARY loop bodies that satisfy a small equational spec (`hbody`), so that the generated
  text only has to be shown to meet the spec by `simp` — nothing below mentions a generated sub-term.

  The ORDER in which the translator lists the variables a loop carries is named in exactly two definitions, `enc2` and `st3`;
  every lemma is stated over an arbitrary representation of the loop state (`enc` / `mk`), and the model-side state stays
  `(want, out)` throughout.
-/
import AgpTpf.Model.PyRt
import AgpTpf.Model.Fasta
namespace AgpTpf.ImpStream
open AgpTpf AgpTpf.PyRt

/-! ### generic facts about `PyRt.forIn` -/

/-- a `for` loop whose body always falls off the end is a `foldl` -/
theorem forIn_next {α σ ρ : Type} (g : σ → α → σ) (xs : List α) (s : σ) (body : α → σ → R (Ctl σ ρ))
    (h : ∀ x ∈ xs, ∀ s, body x s = .ok (.next (g s x))) :
    PyRt.forIn xs s body = .ok (.fell (xs.foldl g s)) := by
  induction xs generalizing s with
  | nil => rfl
  | cons x xs ih =>
    simp only [PyRt.forIn, h x (List.mem_cons_self ..), List.foldl_cons]
    exact ih _ (fun y hy => h y (List.mem_cons_of_mem _ hy))

/-- a `for` loop whose body either raises or falls off the end is a `foldlM` -/
theorem forIn_nextM {α σ ρ : Type} (g : σ → α → R σ) (xs : List α) (s : σ) (body : α → σ → R (Ctl σ ρ))
    (h : ∀ x ∈ xs, ∀ s, body x s = (g s x).map .next) :
    PyRt.forIn xs s body = (xs.foldlM g s).map .fell := by
  induction xs generalizing s with
  | nil => rfl
  | cons x xs ih =>
    simp only [PyRt.forIn, h x (List.mem_cons_self ..), List.foldlM_cons]
    cases hg : g s x with
    | error e => rfl
    | ok s' =>
      simp only [Except.map, bind, Except.bind]
      exact ih _ (fun y hy => h y (List.mem_cons_of_mem _ hy))

/-! The same two facts when the loop carries the state in some other REPRESENTATION `τ` (`enc : σ → τ`): the lemmas below talk
    about the state `(want, out)` of the model, the translator emits the carried variables in its own canonical order (sorted by
    the Lean text of their type, then by name), and the only place that order is written down is `enc2` / `st3` below. -/

theorem forIn_next_enc {α σ τ ρ : Type} (enc : σ → τ) (g : σ → α → σ) (xs : List α) (s : σ) (body : α → τ → R (Ctl τ ρ))
    (h : ∀ x ∈ xs, ∀ s, body x (enc s) = .ok (.next (enc (g s x)))) :
    PyRt.forIn xs (enc s) body = .ok (.fell (enc (xs.foldl g s))) := by
  induction xs generalizing s with
  | nil => rfl
  | cons x xs ih =>
    simp only [PyRt.forIn, h x (List.mem_cons_self ..), List.foldl_cons]
    exact ih _ (fun y hy => h y (List.mem_cons_of_mem _ hy))

theorem forIn_nextM_enc {α σ τ ρ : Type} (enc : σ → τ) (g : σ → α → R σ) (xs : List α) (s : σ) (body : α → τ → R (Ctl τ ρ))
    (h : ∀ x ∈ xs, ∀ s, body x (enc s) = (g s x).map (fun s' => .next (enc s'))) :
    PyRt.forIn xs (enc s) body = (xs.foldlM g s).map (fun s' => .fell (enc s')) := by
  induction xs generalizing s with
  | nil => rfl
  | cons x xs ih =>
    simp only [PyRt.forIn, h x (List.mem_cons_self ..), List.foldlM_cons]
    cases hg : g s x with
    | error e => rfl
    | ok s' =>
      simp only [Except.map, bind, Except.bind]
      exact ih _ (fun y hy => h y (List.mem_cons_of_mem _ hy))

/-- how the translated `write_scaffold` carries `(want, out)` through its two `for` loops: the variables `sink_self_out`, `want`
    in the translator's canonical order (sorted by type text `(List Nat)` < `Int`, then by name).  If that order changes again, change it HERE (and in `st3`). -/
abbrev enc2 (s : Int × Bytes) : Bytes × Int := (s.2, s.1)

/-- how the translated `while True` loop carries `want`, `chunk`, `out`: sorted by the Lean text of the TYPE, then by name:
    `sink_self_out : (List Nat)`, `want : Int`, `chunk : PyRt.BytesIO` -/
abbrev st3 (want : Int) (c : BytesIO) (out : Bytes) : Bytes × Int × BytesIO := (out, want, c)

/-! ### the `while True: if seq := chunk.read(want): … else: break` loop -/

/-- what is left to read in a `BytesIO` -/
def rest (c : BytesIO) : Bytes := c.data.drop c.pos

theorem rest_seek0 (c : BytesIO) : rest (c.seek 0) = c.data := by
  simp [rest, BytesIO.seek]

/-- what `chunk.read(want)` returns when `chunk` is what is left -/
def seqOf (want : Int) (chunk : Bytes) : Bytes := if want < 0 then chunk else chunk.take want.toNat

theorem read_fst (c : BytesIO) (n : Int) :
    (c.read n).1 = seqOf n (rest c) := by
  simp only [BytesIO.read, rest, seqOf]

theorem read_snd_rest (c : BytesIO) (n : Int) :
    rest (c.read n).2 = (rest c).drop (c.read n).1.length := by
  simp only [BytesIO.read, rest, List.drop_drop]

/-- one unfolding of `writeChunk`, in if-then-else form -/
theorem writeChunk_succ (w : Int) (f : Nat) (want : Int) (chunk : Bytes) :
    writeChunk w (f + 1) want chunk =
      if (seqOf want chunk).isEmpty then ([], want)
      else if want - ((seqOf want chunk).length : Int) = 0 then
        (seqOf want chunk ++ [10] ++ (writeChunk w f w (chunk.drop (seqOf want chunk).length)).1,
         (writeChunk w f w (chunk.drop (seqOf want chunk).length)).2)
      else
        (seqOf want chunk ++ (writeChunk w f (want - ((seqOf want chunk).length : Int)) (chunk.drop (seqOf want chunk).length)).1,
         (writeChunk w f (want - ((seqOf want chunk).length : Int)) (chunk.drop (seqOf want chunk).length)).2) := by
  have key : ∀ seq : Bytes, seq = seqOf want chunk →
      writeChunk w (f + 1) want chunk =
        if seq.isEmpty then ([], want)
        else if want - (seq.length : Int) = 0 then
          (seq ++ [10] ++ (writeChunk w f w (chunk.drop seq.length)).1, (writeChunk w f w (chunk.drop seq.length)).2)
        else
          (seq ++ (writeChunk w f (want - (seq.length : Int)) (chunk.drop seq.length)).1,
           (writeChunk w f (want - (seq.length : Int)) (chunk.drop seq.length)).2) := by
    intro seq hs
    rw [writeChunk]
    simp only [← seqOf.eq_1, ← hs]
    by_cases h1 : seq.isEmpty = true
    · simp only [h1, if_true]
    · by_cases h2 : want - (seq.length : Int) = 0
      · simp only [h1, h2, if_true, if_false, Bool.false_eq_true]
      · simp only [h1, h2, if_false, Bool.false_eq_true, List.append_nil]
  exact key _ rfl

theorem seqOf_length_pos {want : Int} {chunk : Bytes} (h : ¬ (seqOf want chunk).isEmpty = true) :
    0 < (seqOf want chunk).length := by
  apply List.length_pos_iff.mpr
  intro h'; exact h (by simp [h'])

theorem seqOf_length_le (want : Int) (chunk : Bytes) : (seqOf want chunk).length ≤ chunk.length := by
  unfold seqOf; split
  · exact Nat.le_refl _
  · rw [List.length_take]; omega

/-- `writeChunk` does not depend on its fuel once the fuel exceeds the chunk length -/
theorem writeChunk_spec (w : Int) (n : Nat) : ∀ (f : Nat) (want : Int) (chunk : Bytes), chunk.length ≤ n → n < f →
    writeChunk w f want chunk = writeChunk w (n + 1) want chunk := by
  induction n with
  | zero =>
    intro f want chunk hl hf
    obtain ⟨f, rfl⟩ : ∃ k, f = k + 1 := ⟨f - 1, by omega⟩
    have : chunk = [] := List.eq_nil_of_length_eq_zero (by omega)
    subst this
    simp [writeChunk_succ, seqOf]
  | succ n ih =>
    intro f want chunk hl hf
    obtain ⟨f, rfl⟩ : ∃ k, f = k + 1 := ⟨f - 1, by omega⟩
    rw [writeChunk_succ, writeChunk_succ w (n + 1)]
    by_cases hemp : (seqOf want chunk).isEmpty = true
    · simp only [hemp, if_true]
    · have hpos := seqOf_length_pos hemp
      have hd : (chunk.drop (seqOf want chunk).length).length ≤ n := by rw [List.length_drop]; omega
      rw [ih f _ _ hd (by omega), ih f _ _ hd (by omega)]

/-- The read loop for one chunk.  `body` is any loop body that meets the equational spec `hbody` (read `want` bytes; nothing read:
    `break`; otherwise append them, decrease `want`, and at `want = 0` append LF and reset `want` to `w`).  For every fuel above the
    number of unread bytes the loop ends normally, in the state `writeChunk` computes. -/
theorem whileLoop_read {τ ρ : Type} (mk : Int → BytesIO → Bytes → τ) (w : Int)
    (cond : τ → R Bool) (body : τ → R (Ctl τ ρ))
    (hcond : ∀ want c out, cond (mk want c out) = .ok true)
    (hbody : ∀ want c out, body (mk want c out) =
      if (c.read want).1.isEmpty then .ok (.brk (mk want (c.read want).2 out))
      else if want - ((c.read want).1.length : Int) = 0 then .ok (.next (mk w (c.read want).2 (out ++ (c.read want).1 ++ [10])))
      else .ok (.next (mk (want - ((c.read want).1.length : Int)) (c.read want).2 (out ++ (c.read want).1))))
    (n : Nat) : ∀ (fuel : Nat) (want : Int) (c : BytesIO) (out : Bytes), (rest c).length ≤ n → n < fuel →
      ∃ c', whileLoop fuel (mk want c out) cond body =
        .ok (.fell (mk (writeChunk w (n + 1) want (rest c)).2 c' (out ++ (writeChunk w (n + 1) want (rest c)).1))) := by
  induction n with
  | zero =>
    intro fuel want c out hl hf
    obtain ⟨fuel, rfl⟩ : ∃ k, fuel = k + 1 := ⟨fuel - 1, by omega⟩
    have hr : rest c = [] := List.eq_nil_of_length_eq_zero (by omega)
    have h1 : (c.read want).1 = [] := by rw [read_fst, hr]; simp [seqOf]
    refine ⟨(c.read want).2, ?_⟩
    simp [whileLoop, hcond, hbody, h1, hr, writeChunk_succ, seqOf]
  | succ n ih =>
    intro fuel want c out hl hf
    obtain ⟨fuel, rfl⟩ : ∃ k, fuel = k + 1 := ⟨fuel - 1, by omega⟩
    have hseq : (c.read want).1 = seqOf want (rest c) := read_fst c want
    have hrest := read_snd_rest c want
    rw [writeChunk_succ]
    rw [hseq] at hrest
    by_cases hemp : (seqOf want (rest c)).isEmpty = true
    · refine ⟨(c.read want).2, ?_⟩
      simp only [whileLoop, hcond, hbody, hseq, hemp, if_true, List.append_nil]
    · have hpos := seqOf_length_pos hemp
      have hl' : (rest (c.read want).2).length ≤ n := by
        rw [hrest, List.length_drop]; omega
      by_cases hz : want - ((seqOf want (rest c)).length : Int) = 0
      · obtain ⟨c', hc'⟩ := ih fuel w (c.read want).2 (out ++ seqOf want (rest c) ++ [10]) hl' (by omega)
        refine ⟨c', ?_⟩
        rw [hrest] at hc'
        simp only [List.append_assoc] at hc'
        simp only [whileLoop, hcond, hbody, hseq, hemp, hz, if_true, if_false, hc',
          Bool.false_eq_true, List.append_assoc]
      · obtain ⟨c', hc'⟩ := ih fuel (want - ((seqOf want (rest c)).length : Int)) (c.read want).2
          (out ++ seqOf want (rest c)) hl' (by omega)
        refine ⟨c', ?_⟩
        rw [hrest] at hc'
        simp only [List.append_assoc] at hc'
        simp only [whileLoop, hcond, hbody, hseq, hemp, hz, if_false, hc',
          Bool.false_eq_true, List.append_assoc]

/-! ### one chunk, one row, all rows: the `(want, out)` state the source threads -/

/-- what writing one chunk does to `(want, out)` (the model's `writeChunk`, with the model's fuel) -/
def chunkStep (w : Int) (s : Int × Bytes) (c : BytesIO) : Int × Bytes :=
  ((writeChunk w (c.data.length + 1) s.1 c.data).2, s.2 ++ (writeChunk w (c.data.length + 1) s.1 c.data).1)

/-- `chunk.seek(0)` + the read loop + the hand-over of `(want, out)` to the enclosing `for`: for any loop body meeting the spec of
    `whileLoop_read`, any continuation `k` that forwards `(want, out)`, and any fuel above the chunk length. -/
theorem chunk_body {τ₃ τ₂ ρ : Type} (mk : Int → BytesIO → Bytes → τ₃) (enc : Int × Bytes → τ₂) (w : Int) (fuel : Nat)
    (cond : τ₃ → R Bool) (body : τ₃ → R (Ctl τ₃ ρ))
    (k : Done τ₃ ρ → R (Ctl τ₂ ρ))
    (hcond : ∀ want c out, cond (mk want c out) = .ok true)
    (hbody : ∀ want c out, body (mk want c out) =
      if (c.read want).1.isEmpty then .ok (.brk (mk want (c.read want).2 out))
      else if want - ((c.read want).1.length : Int) = 0 then .ok (.next (mk w (c.read want).2 (out ++ (c.read want).1 ++ [10])))
      else .ok (.next (mk (want - ((c.read want).1.length : Int)) (c.read want).2 (out ++ (c.read want).1))))
    (hk : ∀ want c out, k (.fell (mk want c out)) = .ok (.next (enc (want, out))))
    (c : BytesIO) (hc : c.data.length < fuel) (want : Int) (out : Bytes) :
    (whileLoop fuel (mk want (c.seek 0) out) cond body >>= k) = .ok (.next (enc (chunkStep w (want, out) c))) := by
  obtain ⟨c', hc'⟩ := whileLoop_read mk w cond body hcond hbody c.data.length fuel want (c.seek 0) out
    (by rw [rest_seek0]; exact Nat.le_refl _) hc
  rw [hc', rest_seek0]
  simp only [bind, Except.bind, hk, chunkStep]

/-- the model's log, seen as the source's loop state -/
def proj (lg : StreamLog) : Int × Bytes := (lg.want, lg.out)

/-- the chunks of a gap row, as `streamRow` builds them (one `BytesIO` per entry of `gapChunkList`) -/
def gapIter (bs : Int) (row : Row) (gc : List Nat) : List BytesIO :=
  match row with
  | .gap g => (gapChunkList g.length bs).map (fun n => { data := List.replicate n.toNat (gc.headD 78) })
  | .frag _ => []

/-- the chunks of a fragment row, as `streamRow` builds them; the first failing `get_info` / `sequence_bytes` is the error -/
def seqIter (file : Bytes) (idx : List (Str × FastaInfo)) (bs : Int) (row : Row) : R (List BytesIO) := do
  let f ← asFrag row
  let info ← getInfo idx f.name
  let bounds := if f.strand = -1 then revChunkList f.start f.stop bs else fwdChunkList f.start f.stop bs
  bounds.mapM (fun b => do
    let rl ← sequenceBytes file info b.1 b.2
    pure { data := if f.strand = -1 then reverseComplement rl.data else rl.data })

/-- one row on the `(want, out)` state, with the chunk iterators as parameters -/
def rowChunks (gapIt : Row → List BytesIO) (seqIt : Row → R (List BytesIO)) (row : Row) : R (List BytesIO) :=
  if row.isGap then .ok (gapIt row) else seqIt row

def rowStep (w : Int) (gapIt : Row → List BytesIO) (seqIt : Row → R (List BytesIO)) (s : Int × Bytes) (row : Row) :
    R (Int × Bytes) :=
  (rowChunks gapIt seqIt row).map (fun cs => cs.foldl (chunkStep w) s)

/-- replace the head of a bind by an equal computation (to normalise how the source picks the iterator) -/
theorem bind_of_eq {α β : Type} {X X' : R α} {f : α → R β} {r : R β} (h : X = X') (h2 : (X' >>= f) = r) : (X >>= f) = r :=
  h ▸ h2

theorem foldl_proj {α : Type} (f : StreamLog → α → StreamLog) (g : Int × Bytes → α → Int × Bytes)
    (h : ∀ lg a, proj (f lg a) = g (proj lg) a) (xs : List α) (lg : StreamLog) :
    proj (xs.foldl f lg) = xs.foldl g (proj lg) := by
  induction xs generalizing lg with
  | nil => rfl
  | cons x xs ih => simp only [List.foldl_cons, ih, h]

theorem foldlM_proj {α : Type} (f : StreamLog → α → R StreamLog) (g : Int × Bytes → α → R (Int × Bytes))
    (h : ∀ lg a, (f lg a).map proj = g (proj lg) a) (xs : List α) (lg : StreamLog) :
    (xs.foldlM f lg).map proj = xs.foldlM g (proj lg) := by
  induction xs generalizing lg with
  | nil => rfl
  | cons x xs ih =>
    simp only [List.foldlM_cons]
    rw [← h lg x]
    cases f lg x with
    | error e => rfl
    | ok lg' => simpa only [Except.map, bind, Except.bind] using ih lg'

theorem streamRow_gap_proj (file : Bytes) (idx : List (Str × FastaInfo)) (bs w : Int) (log : StreamLog) (g : Gap) :
    (streamRow file idx bs w log (.gap g)).map proj =
      .ok ((gapIter bs (.gap g) Gen.gapCharacter).foldl (chunkStep w) (proj log)) := by
  simp only [streamRow, pure, Except.pure, Except.map, gapIter, List.foldl_map]
  congr 1
  apply foldl_proj
  intro lg n
  simp [proj, chunkStep]

/-- folding a failing step over `bounds` = first building all chunks (first failure wins), then folding the chunk step -/
theorem foldlM_mapM_proj {β : Type} (w : Int) (mk : β → R BytesIO) (f : StreamLog → β → R StreamLog)
    (h : ∀ lg b, (f lg b).map proj = (mk b).map (fun c => chunkStep w (proj lg) c))
    (bounds : List β) (log : StreamLog) :
    (bounds.foldlM f log).map proj = (bounds.mapM mk).map (fun cs => cs.foldl (chunkStep w) (proj log)) := by
  induction bounds generalizing log with
  | nil => rfl
  | cons b bounds ih =>
    simp only [List.foldlM_cons, List.mapM_cons]
    have hb := h log b
    cases hf : f log b with
    | error e =>
      cases hm : mk b with
      | error e' => rw [hf, hm] at hb; simp only [Except.map] at hb; cases hb; rfl
      | ok c => rw [hf, hm] at hb; simp [Except.map] at hb
    | ok lg' =>
      cases hm : mk b with
      | error e' => rw [hf, hm] at hb; simp [Except.map] at hb
      | ok c =>
        rw [hf, hm] at hb
        simp only [Except.map, Except.ok.injEq] at hb
        simp only [bind, Except.bind]
        rw [ih lg', hb]
        cases List.mapM mk bounds with
        | error e => rfl
        | ok cs => simp [Except.map, pure, Except.pure]

theorem streamRow_frag_proj (file : Bytes) (idx : List (Str × FastaInfo)) (bs w : Int) (log : StreamLog) (f : Fragment) :
    (streamRow file idx bs w log (.frag f)).map proj =
      (seqIter file idx bs (.frag f)).map (fun cs => cs.foldl (chunkStep w) (proj log)) := by
  simp only [streamRow, seqIter, asFrag, bind, Except.bind]
  cases getInfo idx f.name with
  | error e => rfl
  | ok info =>
    simp only
    apply foldlM_mapM_proj
    intro lg b
    cases sequenceBytes file info b.1 b.2 with
    | error e => rfl
    | ok rl => simp [Except.map, pure, Except.pure, proj, chunkStep]

theorem streamRow_proj (file : Bytes) (idx : List (Str × FastaInfo)) (bs w : Int) (log : StreamLog) (row : Row) :
    (streamRow file idx bs w log row).map proj =
      rowStep w (fun r => gapIter bs r Gen.gapCharacter) (seqIter file idx bs) (proj log) row := by
  cases row with
  | gap g => simp only [rowStep, rowChunks, Row.isGap, if_true]; exact streamRow_gap_proj ..
  | frag f => simp only [rowStep, rowChunks, Row.isGap, Bool.false_eq_true, if_false]; exact streamRow_frag_proj ..

theorem rows_proj (file : Bytes) (idx : List (Str × FastaInfo)) (bs w : Int) (rows : List Row) (log : StreamLog) :
    (rows.foldlM (streamRow file idx bs w) log).map proj =
      rows.foldlM (rowStep w (fun r => gapIter bs r Gen.gapCharacter) (seqIter file idx bs)) (proj log) :=
  foldlM_proj _ _ (fun lg row => streamRow_proj file idx bs w lg row) rows log

/-- a gap chunk is never longer than `buffer_size` (so `bs.toNat < fuel` gives the gap half of the fuel hypothesis) -/
theorem gapIter_length_le (bs : Int) (row : Row) (gc : List Nat) (c : BytesIO) (hc : c ∈ gapIter bs row gc) :
    c.data.length ≤ bs.toNat := by
  cases row with
  | frag f => simp [gapIter] at hc
  | gap g =>
    simp only [gapIter, gapChunkList, List.map_map, List.mem_map, List.mem_range, Function.comp] at hc
    obtain ⟨i, _, rfl⟩ := hc
    simp only [List.length_replicate]
    generalize (i : Int) * bs = x
    omega

end AgpTpf.ImpStream
