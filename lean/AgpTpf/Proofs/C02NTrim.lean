/-
  C02 "remapping never fails" (task W7-C02NOERR), helper part 1: `trim_fragment` evaluated forwards for ANY holder of a
  contig — first and/or last row, any flags, forward or reverse contig, any bait tags — in contig coordinates.
-/
import AgpTpf.Proofs.C02DNCut
namespace AgpTpf.C02
open AgpTpf OverlapResult

/-- how many bases `trim_fragment` takes off the contig at its LOW end (contig coordinates): the start overhang for a
    forward contig that is the first row, the end overhang for a reverse contig that is the last row — when positive and
    the corresponding keep flag is off -/
def trimLow (o : OverlapResult) (F : Fragment) (a c ks ke : Bool) : Int :=
  if F.strand = 1 then (if a = true ∧ 0 < o.startOverhang ∧ ks = false then o.startOverhang else 0)
  else (if c = true ∧ 0 < o.endOverhang ∧ ke = false then o.endOverhang else 0)

/-- … and at its HIGH end -/
def trimHigh (o : OverlapResult) (F : Fragment) (a c ks ke : Bool) : Int :=
  if F.strand = 1 then (if c = true ∧ 0 < o.endOverhang ∧ ke = false then o.endOverhang else 0)
  else (if a = true ∧ 0 < o.startOverhang ∧ ks = false then o.startOverhang else 0)

/-- **`trim_fragment`, forwards.**  `F` is the first row (`a`) and/or the last row (`c`) of `o`; if what is left of the
    contig is not empty, `trim_fragment` succeeds and the new Fragment is `F.name : F.start + trimLow … F.stop − trimHigh`. -/
theorem trim_eval (o : OverlapResult) (F : Fragment) (ks ke : Bool) (oid : Nat) (a c : Bool)
    (hs : firstIs o F = .ok a) (he : lastIs o F = .ok c) (hac : a = true ∨ c = true)
    (hstr : F.strand = 1 ∨ F.strand = -1)
    (hval : F.start + trimLow o F a c ks ke ≤ F.stop - trimHigh o F a c ks ke) :
    ∃ o' new, o.trimFragment F ks ke oid = .ok (o', new) ∧ new.start = F.start + trimLow o F a c ks ke ∧
      new.stop = F.stop - trimHigh o F a c ks ke ∧ new.name = F.name ∧ o'.bait = o.bait ∧
      o'.start = (if a = true ∧ 0 < o.startOverhang ∧ ks = false then o.start + o.startOverhang else o.start) ∧
      o'.stop = (if c = true ∧ 0 < o.endOverhang ∧ ke = false then o.stop - o.endOverhang else o.stop) ∧
      o'.rows = (if c = true then setLast o.rows (.frag new) else
        match o.rows with
        | [] => []
        | _ :: r => .frag new :: r) ∧
      new.oid = oid ∧ new.strand = F.strand := by
  unfold trimFragment
  have he' : ∀ x, lastIs { o with start := x } F = .ok c := fun x => he
  simp only [hs, bind, Except.bind, pure, Except.pure]
  unfold trimLow trimHigh at hval ⊢
  have e1 : ∀ x, endOverhang { o with start := x } = o.endOverhang := fun _ => rfl
  rcases hstr with c3 | c3
  · have c4 : ¬ (F.strand = -1) := by omega
    cases a <;> cases c <;> cases ks <;> cases ke <;>
      by_cases p1 : 0 < o.startOverhang <;> by_cases p2 : 0 < o.endOverhang <;>
      simp [c3, p1, p2, he', e1, mkFragment] at hval hac ⊢ <;>
      first
        | (rw [if_neg (by omega)]; exact ⟨_, _, rfl, rfl, rfl, rfl, rfl, rfl, rfl, rfl, rfl, by simp [c3]⟩)
        | omega
  · have c4 : ¬ (F.strand = 1) := by omega
    cases a <;> cases c <;> cases ks <;> cases ke <;>
      by_cases p1 : 0 < o.startOverhang <;> by_cases p2 : 0 < o.endOverhang <;>
      simp [c3, c4, p1, p2, he', e1, mkFragment] at hval hac ⊢ <;>
      first
        | (rw [if_neg (by omega)]; exact ⟨_, _, rfl, rfl, rfl, rfl, rfl, rfl, rfl, rfl, rfl, by simp [c3]⟩)
        | omega

end AgpTpf.C02
