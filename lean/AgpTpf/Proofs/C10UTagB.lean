/-
  C10 uniqueness (W5), part 14: clause 7, second form — "on Contaminant / FalseDuplicate scaffolds the NAME determines
  the haplotype".  In maps without `Primary` tag whose haplotype spellings are case-consistent, the namer's current
  haplotype is EXACTLY the scaffold's haplotype tag, else the haplotype prefix of its first row's name
  (`makeScaffoldName_exact`); if for every Pretext scaffold that may hold tagged pieces this equals the haplotype
  prefix of the scaffold's current name, equal names in the tagged assemblies mean equal haplotypes.
-/
import AgpTpf.Proofs.C10UMain
namespace AgpTpf.C10
open AgpTpf

/-- every haplotype spelling the run can meet: haplotype tags, and haplotype prefixes of fragment names -/
def hapSources (input ptx : List Scaffold) : List Str :=
  (ptx ++ input).flatMap (fun s => s.fragmentTags.filter isHapTag) ++
    (fragNames ptx ++ fragNames input).filterMap hapPrefixOfName

/-- no two spellings differ only in case (`haplotype_lc` is keyed by the lower-cased name and returns the FIRST spelling) -/
abbrev CaseConsistent (S : List Str) : Prop := ∀ a ∈ S, ∀ b ∈ S, lowerStr a = lowerStr b → a = b

abbrev NoPrimaryTag (input ptx : List Scaffold) : Prop := ∀ s ∈ ptx ++ input, sPrimary ∉ s.fragmentTags

/-- the haplotype `make_scaffold_name` computes when nothing interferes: the haplotype tag, else the haplotype prefix of
    the first row's name -/
def hapSrcOf (tags : List Str) (rows : List Row) : Option Str :=
  match tags.find? isHapTag with
  | some t => some t
  | none =>
    match rows.head? with
    | some (.frag f) => hapPrefixOfName f.name
    | _ => none

/-- the names `make_scaffold_name` can choose as current scaffold name: a chromosome-name tag; else the Pretext name if
    painted; else the first row's name -/
def curCands (ps : Scaffold) : List Str :=
  ps.fragmentTags.filter (fun t => isChrNameTag t) ++
    (if ps.fragmentTags.contains sPainted then [ps.name]
     else match ps.rows.head? with
       | some (.frag f) => [f.name]
       | _ => [])

abbrev TaggedPiecesNamed (input ptx : List Scaffold) : Prop :=
  ∀ ps ∈ ptx, mayBeTagged ((ptx ++ input).any hasTarget) ps = true →
    ∀ c ∈ curCands ps, hapSrcOf ps.fragmentTags ps.rows = hapPrefixOfName c ∧ occursIn unlocInfixStr c = false

abbrev TargetLeftoversNamed (input ptx : List Scaffold) : Prop :=
  (ptx ++ input).any hasTarget = true →
    ∀ sc ∈ input, occursIn unlocInfixStr sc.name = false ∧
      ∀ f ∈ sc.fragments, f.tags.all (fun t => t.isEmpty || !isHapTag t) = true ∧
        hapPrefixOfName f.name = hapPrefixOfName sc.name

/-- **U2, tagged assemblies, second form.** -/
structure TaggedNamesGiveHaplotype (input ptx : List Scaffold) : Prop where
  caseConsistent : CaseConsistent (hapSources input ptx)
  noPrimary : NoPrimaryTag input ptx
  pieces : TaggedPiecesNamed input ptx
  leftovers : TargetLeftoversNamed input ptx

theorem taggedNamesGiveHaplotype_iff (input ptx : List Scaffold) :
    TaggedNamesGiveHaplotype input ptx ↔
      CaseConsistent (hapSources input ptx) ∧ NoPrimaryTag input ptx ∧ TaggedPiecesNamed input ptx ∧
      TargetLeftoversNamed input ptx :=
  ⟨fun h => ⟨h.1, h.2, h.3, h.4⟩, fun ⟨a, b, c, d⟩ => ⟨a, b, c, d⟩⟩

end AgpTpf.C10

namespace AgpTpf.C10U
open AgpTpf

/-! ### the decomposition `base ++ suffix` is unique -/

theorem rev_digits (k : Nat) : ∀ c ∈ (natToStr k).reverse, isDigit c = true := by
  intro c hc; exact C20.natToStr_allDigits k c (List.mem_reverse.1 hc)

theorem unloc_decomp_unique (b b' suf suf' : Str) (hb : C10.occursIn C10.unlocInfixStr b = false)
    (hb' : C10.occursIn C10.unlocInfixStr b' = false) (hs : SufOk suf) (hs' : SufOk suf')
    (e : b ++ suf = b' ++ suf') : b = b' := by
  rcases hs with rfl | ⟨k, rfl⟩ <;> rcases hs' with rfl | ⟨k', rfl⟩
  · simpa using e
  · exfalso
    rw [List.append_nil, unlocSuffix_eq, ← List.append_assoc] at e
    have : C10.occursIn C10.unlocInfixStr b = true := (C10.occursIn_iff _ _).2 ⟨b', natToStr k', e⟩
    rw [hb] at this; cases this
  · exfalso
    rw [List.append_nil, unlocSuffix_eq, ← List.append_assoc] at e
    have : C10.occursIn C10.unlocInfixStr b' = true := (C10.occursIn_iff _ _).2 ⟨b, natToStr k, e.symm⟩
    rw [hb'] at this; cases this
  · rw [unlocSuffix_eq, unlocSuffix_eq] at e
    have er := congrArg List.reverse e
    simp only [List.reverse_append, List.append_assoc] at er
    have hnd : ∀ x : Str, C10.NoDigitHd (C10.unlocInfixStr.reverse ++ x) := by
      intro x c hc
      simp only [C10.unlocInfixStr, List.reverse_cons, List.reverse_nil, List.nil_append, List.cons_append,
        List.head?_cons, Option.some.injEq] at hc
      subst hc; decide
    obtain ⟨_, e2⟩ := C10.digits_split _ _ _ _ (rev_digits k) (rev_digits k') (hnd _) (hnd _) er
    exact List.reverse_inj.1 (List.append_cancel_left e2)

/-! ### the parameters -/

def NamerExact (S : List Str) (n : Namer) : Prop :=
  (∀ kv ∈ n.haplotypeLc, kv.2 ∈ S ∧ kv.1 = lowerStr kv.2) ∧ n.primaryHaplotype = none

/-- on Contaminant / FalseDuplicate scaffolds: the name is `base` or `base_unloc_<k>` (no `_unloc_` inside `base`), and
    the haplotype is the haplotype prefix of `base` -/
def QNamed (E : Scaffold) : Prop :=
  ∃ base suf, E.name = base ++ suf ∧ SufOk suf ∧ C10.occursIn C10.unlocInfixStr base = false ∧
    E.haplotype = hapPrefixOfName base

def parNamed (S : List Str) : Par :=
  { Q := QNamed, NI := NamerExact S,
    ni_core := fun n n' hs h => by
      obtain ⟨_, _, _, _, s5, s6, _⟩ := hs
      unfold NamerExact; rw [s5, s6]; exact h }

theorem qNamed_inj (E E' : Scaffold) (h : QNamed E) (h' : QNamed E') (hn : E.name = E'.name) :
    E.haplotype = E'.haplotype := by
  obtain ⟨b, suf, e, hs, hb, hh⟩ := h
  obtain ⟨b', suf', e', hs', hb', hh'⟩ := h'
  have := unloc_decomp_unique b b' suf suf' hb hb' hs hs' (by rw [← e, ← e', hn])
  rw [hh, hh', this]

/-! ### the namer is exact -/

theorem getSet_exact (S : List Str) (hcc : C10.CaseConsistent S) (n : Namer) (t : Str) (hE : NamerExact S n)
    (ht : t ∈ S) : NamerExact S (n.getSetHaplotype t).1 ∧ (n.getSetHaplotype t).2 = t := by
  unfold Namer.getSetHaplotype dSetDefault
  cases hg : dGet? n.haplotypeLc (lowerStr t) with
  | none =>
    refine ⟨⟨?_, hE.2⟩, rfl⟩
    intro kv hkv
    simp only [List.mem_append, List.mem_singleton] at hkv
    rcases hkv with h | h
    · exact hE.1 kv h
    · subst h; exact ⟨ht, rfl⟩
  | some w =>
    have hm := C17.dGet?_mem _ _ _ hg
    obtain ⟨hw, hl⟩ := hE.1 _ hm
    exact ⟨hE, hcc w hw t ht hl.symm⟩

theorem tagClass_primary (t : Str) (h : C17.tagClass t = .primary) : t = sPrimary := by
  unfold C17.tagClass at h
  split at h
  · cases h
  · split at h
    · cases h
    · split at h
      · assumption
      · split at h
        · cases h
        · split at h <;> cases h

structure ScanExact (S : List Str) (seen : List Str) (st : Namer × TagScan) : Prop where
  exact : NamerExact S st.1
  hap : st.2.haplotype = seen.find? C10.isHapTag
  prim : st.2.primaryTag = false

theorem find_snoc_false (seen : List Str) (t : Str) (h : C10.isHapTag t = false) :
    (seen ++ [t]).find? C10.isHapTag = seen.find? C10.isHapTag := by
  rw [List.find?_append]
  cases seen.find? C10.isHapTag with
  | some x => rfl
  | none => simp [h]

theorem scanTag_exact (S : List Str) (hcc : C10.CaseConsistent S) (seen : List Str) (st st' : Namer × TagScan)
    (t : Str) (hseen : [] ∉ seen) (htS : C17.tagClass t = .hap → t ∈ S) (htp : t ≠ sPrimary)
    (hinv : ScanExact S seen st) (h : scanTag st t = .ok st') : ScanExact S (seen ++ [t]) st' := by
  obtain ⟨n, s⟩ := st
  rw [C17.scanTag_eq] at h
  obtain ⟨he, hh, hp⟩ := hinv
  simp only at he hh hp
  cases hc : C17.tagClass t <;> simp only [hc] at h
  case hap =>
    split at h
    · cases h
    · rename_i hnt
      cases h
      obtain ⟨e1, e2⟩ := getSet_exact S hcc n t he (htS hc)
      refine ⟨e1, ?_, hp⟩
      simp only
      rw [e2]
      have hnone : seen.find? C10.isHapTag = none := by
        cases hf : seen.find? C10.isHapTag with
        | none => rfl
        | some x =>
          exfalso
          apply hnt
          rw [hh, hf]
          have hx : x ∈ seen := List.mem_of_find?_eq_some hf
          cases x with
          | nil => exact absurd hx hseen
          | cons _ _ => rfl
      rw [List.find?_append, hnone]
      simp [C10.isHapTag, hc]
  case primary => exact absurd (tagClass_primary t hc) htp
  all_goals
    have hf : C10.isHapTag t = false := by unfold C10.isHapTag; rw [hc]; decide
  case painted => cases h; exact ⟨he, by rw [find_snoc_false _ _ hf]; exact hh, hp⟩
  case target => cases h; exact ⟨he, by rw [find_snoc_false _ _ hf]; exact hh, hp⟩
  case chr =>
    split at h
    · cases h
    · cases h; exact ⟨he, by rw [find_snoc_false _ _ hf]; exact hh, hp⟩
  case other => cases h; exact ⟨he, by rw [find_snoc_false _ _ hf]; exact hh, hp⟩

theorem foldlM_scanTag_exact (S : List Str) (hcc : C10.CaseConsistent S) (tags : List Str) :
    ∀ (seen : List Str) (st st' : Namer × TagScan), [] ∉ seen → [] ∉ tags →
      (∀ t ∈ tags, C17.tagClass t = .hap → t ∈ S) → sPrimary ∉ tags → ScanExact S seen st →
      tags.foldlM scanTag st = .ok st' → ScanExact S (seen ++ tags) st' := by
  induction tags with
  | nil => intro seen st st' _ _ _ _ hinv h; cases h; simpa using hinv
  | cons t r ih =>
    intro seen st st' hs hne hS hp hinv h
    rw [List.foldlM_cons, C17.bind_eq_ok] at h
    obtain ⟨st1, h1, h2⟩ := h
    have ht : t ≠ [] := fun e => hne (by simp [e])
    have := ih (seen ++ [t]) st1 st'
      (by intro hm; rcases List.mem_append.1 hm with hm | hm
          · exact hs hm
          · simp only [List.mem_singleton] at hm; exact ht hm.symm)
      (fun e => hne (by simp [e])) (fun x hx => hS x (by simp [hx])) (fun e => hp (by simp [e]))
      (scanTag_exact S hcc seen st st1 t hs (hS t (by simp)) (fun e => hp (by simp [e])) hinv h1) h2
    simpa using this

/-- **the namer is exact**: without `Primary` tag and with case-consistent spellings, `make_scaffold_name` leaves
    `hapSrcOf tags rows` as current haplotype -/
theorem makeScaffoldName_exact (S : List Str) (hcc : C10.CaseConsistent S) (n n' : Namer) (scName : Str)
    (rows : List Row) (tags : List Str) (hne : [] ∉ tags) (hE : NamerExact S n)
    (htags : ∀ t ∈ tags, C17.tagClass t = .hap → t ∈ S) (hprim : sPrimary ∉ tags)
    (hrows : ∀ nm g, firstRowName rows = .ok nm → hapPrefixOfName nm = some g → g ∈ S)
    (h : makeScaffoldName n scName rows tags = .ok n') :
    NamerExact S n' ∧ n'.currentHaplotype = C10.hapSrcOf tags rows ∧
    (tags.find? C10.isHapTag = none → ∃ nm, firstRowName rows = .ok nm) := by
  rw [C17.makeScaffoldName_eq, C17.bind_eq_ok] at h
  obtain ⟨⟨n1, s⟩, h1, h⟩ := h
  rw [C17.bind_eq_ok] at h
  obtain ⟨⟨n2, hap⟩, h2, h⟩ := h
  rw [C17.bind_eq_ok] at h
  obtain ⟨n3, h3, h⟩ := h
  rw [C17.bind_eq_ok] at h
  obtain ⟨p, _, h⟩ := h
  cases h
  have hscan := foldlM_scanTag_exact S hcc tags [] (n, {}) (n1, s) (by simp) hne htags hprim ⟨hE, rfl, rfl⟩ h1
  simp only [List.nil_append] at hscan
  obtain ⟨e1, hh, hp⟩ := hscan
  simp only at e1 hh hp h2 h3
  -- haplotype stage
  have k2 : NamerExact S n2 ∧ hap = C10.hapSrcOf tags rows ∧
      (tags.find? C10.isHapTag = none → ∃ nm, firstRowName rows = .ok nm) := by
    unfold C17.hapStage at h2
    split at h2
    · rename_i htr
      cases h2
      rw [hh] at htr ⊢
      cases hf : tags.find? C10.isHapTag with
      | none => rw [hf] at htr; cases htr
      | some x => exact ⟨e1, by unfold C10.hapSrcOf; rw [hf], fun h => by cases h⟩
    · rename_i htr
      have hnone : tags.find? C10.isHapTag = none := by
        cases hf : tags.find? C10.isHapTag with
        | none => rfl
        | some x =>
          exfalso
          apply htr
          rw [hh, hf]
          have hx : x ∈ tags := List.mem_of_find?_eq_some hf
          cases x with
          | nil => exact absurd hx hne
          | cons _ _ => rfl
      rw [C17.bind_eq_ok] at h2
      obtain ⟨nm, hnm, h2⟩ := h2
      obtain ⟨f, r, hr, hfn⟩ := firstRowName_ok _ _ hnm
      have hsrc : C10.hapSrcOf tags rows = hapPrefixOfName nm := by
        unfold C10.hapSrcOf
        rw [hnone, hr]
        simp only [List.head?_cons]
        rw [hfn]
      split at h2
      · rename_i g hg
        cases h2
        obtain ⟨q1, q2⟩ := getSet_exact S hcc n1 g e1 (hrows nm g hnm hg)
        exact ⟨q1, by rw [q2, hsrc, hg], fun _ => ⟨nm, hnm⟩⟩
      · rename_i hg
        cases h2
        exact ⟨e1, by rw [hsrc, hg], fun _ => ⟨nm, hnm⟩⟩
  obtain ⟨e2, hhap, hfirst⟩ := k2
  have k3 : n3 = n2 := by
    unfold C17.primStage at h3
    rw [if_neg (by rw [hp]; simp)] at h3
    cases h3; rfl
  subst k3
  refine ⟨e2, ?_, hfirst⟩
  show (if truthy n3.primaryHaplotype then (if hap = n3.primaryHaplotype then some sPrimary else hap) else hap) = _
  rw [e2.2]
  simp only [truthy, Bool.false_eq_true, if_false]
  exact hhap

/-! ### the callbacks -/

theorem mem_hapSources_tag (input ptx : List Scaffold) (s : Scaffold) (hs : s ∈ ptx ++ input) (t : Str)
    (ht : t ∈ s.fragmentTags) (hc : C17.tagClass t = .hap) : t ∈ C10.hapSources input ptx := by
  unfold C10.hapSources
  refine List.mem_append.2 (Or.inl (List.mem_flatMap.2 ⟨s, hs, List.mem_filter.2 ⟨ht, ?_⟩⟩))
  unfold C10.isHapTag; rw [hc]; decide

theorem mem_hapSources_name (input ptx : List Scaffold) (nm g : Str)
    (hnm : nm ∈ C10.fragNames ptx ++ C10.fragNames input) (hg : hapPrefixOfName nm = some g) :
    g ∈ C10.hapSources input ptx := by
  unfold C10.hapSources
  exact List.mem_append.2 (Or.inr (List.mem_filterMap.2 ⟨nm, hnm, hg⟩))

theorem ptxCallback_named (input ptx : List Scaffold) (HN : C10.TaggedNamesGiveHaplotype input ptx) :
    PtxCallback (parNamed (C10.hapSources input ptx)) input ptx := by
  intro ps hps n n' hni _ htgt hfacts hmk
  have hrows : ∀ nm g, firstRowName ps.rows = .ok nm → hapPrefixOfName nm = some g →
      g ∈ C10.hapSources input ptx := by
    intro nm g hnm hg
    obtain ⟨f, r, hr, hf⟩ := firstRowName_ok _ _ hnm
    refine mem_hapSources_name input ptx nm g ?_ hg
    rw [← hf]
    exact List.mem_append.2 (Or.inl (mem_fragNames ptx ps hps f (mem_fragments_of_head ps f r hr)))
  obtain ⟨hE', hcur, _⟩ := makeScaffoldName_exact _ HN.caseConsistent n n' ps.name ps.rows ps.fragmentTags
    (nil_not_mem_fragmentTags ps) hni
    (fun t ht hc => mem_hapSources_tag input ptx ps (List.mem_append.2 (Or.inl hps)) t ht hc)
    (HN.noPrimary ps (List.mem_append.2 (Or.inl hps))) hrows hmk
  refine ⟨hE', ?_⟩
  intro c hc tg _ suf hsuf _ hsp
  obtain ⟨c', hc', hcases⟩ := hfacts.cur
  have ecc : c' = c := by rw [hc'] at hc; exact Option.some.inj hc
  subst ecc
  have hcand : c' ∈ C10.curCands ps := by
    unfold C10.curCands
    rcases hcases with ⟨_, hm, hchr⟩ | ⟨_, hn, hpa⟩ | ⟨_, hfr, hnp⟩
    · exact List.mem_append.2 (Or.inl (List.mem_filter.2 ⟨hm, hchr⟩))
    · refine List.mem_append.2 (Or.inr ?_)
      rw [if_pos (by rw [List.contains_iff_mem]; exact hpa)]
      simp [hn]
    · refine List.mem_append.2 (Or.inr ?_)
      rw [if_neg (by rw [List.contains_iff_mem]; exact hnp)]
      obtain ⟨f, r, hr, hf⟩ := firstRowName_ok _ _ hfr
      rw [hr]; simp [hf]
  have hmay : C10.mayBeTagged ((ptx ++ input).any C10.hasTarget) ps = true := by
    unfold C10.mayBeTagged
    rcases hsp with h | ⟨h1, h2⟩
    · rw [Bool.or_eq_true]; exact Or.inl h
    · rw [Bool.or_eq_true]; right
      rcases hfacts.target h1 with h | h
      · rw [htgt h]
        unfold C10.hasTarget
        simpa using h2
      · exfalso; apply h2; rw [List.contains_iff_mem]; exact h
  obtain ⟨h1, h2⟩ := HN.pieces ps hps hmay c' hcand
  exact ⟨c', suf, rfl, hsuf, h2, by show n'.currentHaplotype = _; rw [hcur, h1]⟩

theorem leftCallback_named (input ptx : List Scaffold) (HN : C10.TaggedNamesGiveHaplotype input ptx) :
    LeftCallback (parNamed (C10.hapSources input ptx)) input ptx := by
  intro sc hsc rows n n' hni _ htgt hsub hfacts hmk
  have htagsub : ∀ t ∈ ({ name := sc.name, rows := rows } : Scaffold).fragmentTags,
      ∃ f ∈ sc.fragments, t ∈ f.tags ∧ t ≠ [] := by
    intro t ht
    obtain ⟨f, hf, h1, h2⟩ := (mem_fragmentTags _ t).1 ht
    exact ⟨f, hsub f hf, h1, h2⟩
  have htagsc : ∀ t ∈ ({ name := sc.name, rows := rows } : Scaffold).fragmentTags, t ∈ sc.fragmentTags := by
    intro t ht
    obtain ⟨f, hf, h1, h2⟩ := htagsub t ht
    exact (mem_fragmentTags sc t).2 ⟨f, hf, h1, h2⟩
  have hscmem : sc ∈ ptx ++ input := List.mem_append.2 (Or.inr hsc)
  have hrows : ∀ nm g, firstRowName rows = .ok nm → hapPrefixOfName nm = some g →
      g ∈ C10.hapSources input ptx := by
    intro nm g hnm hg
    obtain ⟨f, r, hr, hf⟩ := firstRowName_ok _ _ hnm
    refine mem_hapSources_name input ptx nm g ?_ hg
    rw [← hf]
    exact List.mem_append.2 (Or.inr (mem_fragNames input sc hsc f (hsub f (by rw [hr]; simp [fragmentsOf]))))
  obtain ⟨hE', hcur, hfirst⟩ := makeScaffoldName_exact _ HN.caseConsistent n n' sc.name rows _
    (nil_not_mem_fragmentTags _) hni
    (fun t ht hc => mem_hapSources_tag input ptx sc hscmem t (htagsc t ht) hc)
    (fun hm => HN.noPrimary sc hscmem (htagsc _ hm)) hrows hmk
  refine ⟨hE', ?_⟩
  intro htt
  have htarget : (ptx ++ input).any C10.hasTarget = true := by
    rcases hfacts.target htt with h | h
    · exact htgt h
    · exact any_hasTarget_of_mem _ sc hscmem (htagsc _ h)
  obtain ⟨hno, hall⟩ := HN.leftovers htarget sc hsc
  have hfind : ({ name := sc.name, rows := rows } : Scaffold).fragmentTags.find? C10.isHapTag = none := by
    rw [List.find?_eq_none]
    intro t ht
    obtain ⟨f, hf, h1, h2⟩ := htagsub t ht
    have := List.all_eq_true.1 (hall f hf).1 t h1
    simp only [Bool.or_eq_true, List.isEmpty_iff, Bool.not_eq_true'] at this
    rcases this with h | h
    · exact absurd h h2
    · simp [h]
  obtain ⟨nm, hnm⟩ := hfirst hfind
  obtain ⟨f, r, hr, hf⟩ := firstRowName_ok _ _ hnm
  refine ⟨sc.name, [], by simp, Or.inl rfl, hno, ?_⟩
  show n'.currentHaplotype = _
  rw [hcur]
  unfold C10.hapSrcOf
  rw [hfind, hr]
  simp only [List.head?_cons]
  exact (hall f (hsub f (by rw [hr]; simp [fragmentsOf]))).2

/-- **every output assembly, under `TaggedNamesGiveHaplotype`** -/
theorem remap_unique_named (input ptx : List Scaffold) (p : Str) (jg : Option Gap) (err : Int) (outs : List OutAsm)
    (stats : Stats) (h : remap input ptx p jg err = .ok (outs, stats)) (H : C10.NamesOutsideGenerated input ptx p)
    (HN : C10.TaggedNamesGiveHaplotype input ptx) : ∀ a ∈ outs, (a.scaffolds.map (·.name)).Nodup :=
  fun a ha => remap_names_unique_gen (parNamed (C10.hapSources input ptx)) (fun _ => True)
    (fun _ _ _ => qNamed_inj) input ptx p jg err outs stats h H
    ⟨fun kv hkv => (by cases hkv), rfl⟩ (ptxCallback_named input ptx HN) (leftCallback_named input ptx HN) a ha trivial

end AgpTpf.C10U
