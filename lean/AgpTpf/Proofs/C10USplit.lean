/-
  C10 uniqueness (W5), part 1: the split loop of `assemblies_with_scaffolds_fused` as a pointwise specification:
  which scaffold gets the chromosome prefix, which scaffolds are handed to `ChrNamer` (and under which haplotype key),
  and which scaffolds an output assembly lists.
-/
import AgpTpf.Proofs.C10UStr
import AgpTpf.Proofs.C09Split
import AgpTpf.Proofs.C10GroupsOut
import AgpTpf.Proofs.C10MultiOut
namespace AgpTpf.C10U
open AgpTpf

/-- `add_chr_prefix` as the split loop applies it: only rank 2, only when the name does not already start with it -/
def pfx (p : Str) (s : Scaffold) : Scaffold :=
  if s.rank = 2 ∧ ¬ p.isPrefixOf s.name = true then { s with name := p ++ s.name } else s

theorem pfx_default (p : Str) : pfx p (default : Scaffold) = default := by
  unfold pfx
  have : ¬ ((default : Scaffold).rank = 2 ∧ ¬ p.isPrefixOf (default : Scaffold).name = true) := by
    intro h; exact absurd h.1 (by decide)
  rw [if_neg this]

theorem pfx_fields (p : Str) (s : Scaffold) :
    (pfx p s).tag = s.tag ∧ (pfx p s).haplotype = s.haplotype ∧ (pfx p s).rank = s.rank ∧
    (pfx p s).originalName = s.originalName ∧ (pfx p s).originalTags = s.originalTags := by
  unfold pfx; split <;> exact ⟨rfl, rfl, rfl, rfl, rfl⟩

theorem pfx_name_of_ne (p : Str) (s : Scaffold) (h : s.rank ≠ 2) : pfx p s = s := by
  unfold pfx; rw [if_neg (fun hc => h hc.1)]

/-- the entry the split loop hands to `ChrNamer` for scaffold `j` -/
def entryOf (fs : List Scaffold) (j : Nat) : Option (Str × Nat) :=
  if (fs.getD j default).rank = 1 then some (pyStrOpt (C09.asmKey (fs.getD j default)).1, j) else none

theorem splitStep_entries_eq (p : Str) (acc : C09.SplitSt) (sid : Nat) :
    (C09.splitStep p acc sid).2.1 =
      acc.2.1 ++ (match entryOf acc.2.2.2 sid with | some e => [e] | none => []) := by
  obtain ⟨asms, entries, haps, fs⟩ := acc
  unfold C09.splitStep entryOf C09.asmKey
  simp only []
  by_cases h1 : (fs.getD sid default).rank = 1
  · simp only [if_pos h1]
  · simp only [if_neg h1]
    split <;> simp

theorem splitStep_getD (p : Str) (acc : C09.SplitSt) (sid j : Nat) :
    (C09.splitStep p acc sid).2.2.2.getD j default =
      if j = sid then pfx p (acc.2.2.2.getD j default) else acc.2.2.2.getD j default := by
  rw [C09.splitStep_fs]
  by_cases hj : j = sid
  · subst hj
    rw [if_pos rfl]
    unfold pfx
    split
    · rw [C09.getD_setAt]
      by_cases hlt : j < acc.2.2.2.length
      · rw [if_pos ⟨rfl, hlt⟩]
      · exfalso
        rename_i hc
        have : acc.2.2.2.getD j default = default := by
          rw [List.getD_eq_getElem?_getD, List.getElem?_eq_none (by omega)]; rfl
        rw [this] at hc
        exact absurd hc.1 (by decide)
    · rfl
  · rw [if_neg hj]
    split
    · rw [C09.getD_setAt, if_neg (fun h => hj h.1.symm)]
    · rfl

theorem filterMap_congr' {α β} (f g : α → Option β) : ∀ (l : List α), (∀ x ∈ l, f x = g x) →
    l.filterMap f = l.filterMap g := by
  intro l
  induction l with
  | nil => intro _; rfl
  | cons a r ih =>
    intro h
    rw [List.filterMap_cons, List.filterMap_cons, h a (by simp), ih (fun x hx => h x (by simp [hx]))]

/-- **the split loop, pointwise**: every scaffold of `l` has passed `add_chr_prefix`, the others are untouched; the
    `ChrNamer` entries appended are those of the rank-1 scaffolds of `l`, in order -/
theorem splitFold_spec (p : Str) : ∀ (l : List Nat) (acc : C09.SplitSt), l.Nodup →
    (∀ j, (l.foldl (C09.splitStep p) acc).2.2.2.getD j default =
        if j ∈ l then pfx p (acc.2.2.2.getD j default) else acc.2.2.2.getD j default) ∧
    (l.foldl (C09.splitStep p) acc).2.1 = acc.2.1 ++ l.filterMap (entryOf acc.2.2.2) := by
  intro l
  induction l with
  | nil => intro acc _; exact ⟨fun j => by simp, by simp⟩
  | cons sid r ih =>
    intro acc hnd
    rw [List.nodup_cons] at hnd
    simp only [List.foldl_cons]
    obtain ⟨h1, h2⟩ := ih (C09.splitStep p acc sid) hnd.2
    constructor
    · intro j
      rw [h1 j, splitStep_getD]
      by_cases hjs : j = sid
      · subst hjs
        rw [if_neg hnd.1, if_pos rfl, if_pos (by simp)]
      · rw [if_neg hjs]
        by_cases hjr : j ∈ r
        · rw [if_pos hjr, if_pos (by simp [hjr])]
        · rw [if_neg hjr, if_neg (by simp [hjs, hjr])]
    · rw [h2, splitStep_entries_eq, List.filterMap_cons, List.append_assoc]
      congr 1
      have hcongr : r.filterMap (entryOf (C09.splitStep p acc sid).2.2.2) = r.filterMap (entryOf acc.2.2.2) := by
        apply filterMap_congr'
        intro j hj
        unfold entryOf
        rw [splitStep_getD, if_neg (fun (h : j = sid) => hnd.1 (h ▸ hj))]
      rw [hcongr]
      cases entryOf acc.2.2.2 sid <;> rfl

theorem splitLoop_spec (p : Str) (fs : List Scaffold) :
    (∀ j, (C09.splitLoop p fs).2.2.2.getD j default = pfx p (fs.getD j default)) ∧
    (C09.splitLoop p fs).2.1 = (List.range fs.length).filterMap (entryOf fs) := by
  obtain ⟨h1, h2⟩ := splitFold_spec p (List.range fs.length) ([], [], [], fs) List.nodup_range
  refine ⟨?_, by unfold C09.splitLoop; simpa using h2⟩
  intro j
  have := h1 j
  unfold C09.splitLoop
  rw [this]
  by_cases hj : j < fs.length
  · rw [if_pos (List.mem_range.2 hj)]
  · rw [if_neg (fun h => hj (List.mem_range.1 h))]
    have : fs.getD j default = default := by
      rw [List.getD_eq_getElem?_getD, List.getElem?_eq_none (by omega)]; rfl
    show ([], [], [], fs).2.2.2.getD j default = _
    rw [this, pfx_default]

/-- membership in the `ChrNamer` entries -/
theorem mem_entries (p : Str) (fs : List Scaffold) (e : Str × Nat) :
    e ∈ (C09.splitLoop p fs).2.1 ↔
      e.2 < fs.length ∧ (fs.getD e.2 default).rank = 1 ∧ e.1 = pyStrOpt (C09.asmKey (fs.getD e.2 default)).1 := by
  rw [(splitLoop_spec p fs).2, List.mem_filterMap]
  constructor
  · rintro ⟨j, hj, he⟩
    unfold entryOf at he
    split at he
    · rename_i hr
      cases he
      exact ⟨List.mem_range.1 hj, hr, rfl⟩
    · cases he
  · rintro ⟨h1, h2, h3⟩
    refine ⟨e.2, List.mem_range.2 h1, ?_⟩
    unfold entryOf
    rw [if_pos h2, ← h3]

/-- `haplotypes_seen` is empty exactly when `ChrNamer` got no scaffold -/
theorem splitLoop_haps_nil_iff (p : Str) (fs : List Scaffold) :
    (C09.splitLoop p fs).2.2.1 = [] ↔ (C09.splitLoop p fs).2.1 = [] := by
  have hloop : ∀ (l : List Nat) (acc : C09.SplitSt), (acc.2.2.1 = [] ↔ acc.2.1 = []) →
      ((l.foldl (C09.splitStep p) acc).2.2.1 = [] ↔ (l.foldl (C09.splitStep p) acc).2.1 = []) := by
    intro l
    induction l with
    | nil => intro acc h; exact h
    | cons sid r ih =>
      intro acc hacc
      simp only [List.foldl_cons]
      apply ih
      rcases C10.splitStep_entries p acc sid with ⟨e1, e2⟩ | ⟨h', e1, e2⟩
      · rw [e1, e2]; exact hacc
      · rw [e1, e2]
        constructor
        · intro hc
          have : h' ∈ sAdd acc.2.2.1 h' := (C10.mem_sAdd _ _ _).2 (Or.inr rfl)
          rw [hc] at this; cases this
        · intro hc; simp at hc
  exact hloop _ _ (by simp)

/-- the scaffolds an output assembly lists: all those with its key, each id once -/
theorem asm_ids (p : Str) (fs : List Scaffold) (a : Option Str × Bool × List Nat)
    (ha : a ∈ (C09.splitLoop p fs).1) :
    a.2.2 = (List.range fs.length).filter (fun j => (C09.asmKey (fs.getD j default)).1 = a.1) := by
  have hg := C09.ginv_fold (fun j => (C09.asmKey (fs.getD j default)).1) (fun j => (C09.asmKey (fs.getD j default)).2)
    (List.range fs.length) [] [] ⟨by simp, by intro k c ids h; simp [dGet?] at h, by simp⟩
  rw [← C09.splitLoop_asms p fs, List.nil_append] at hg
  obtain ⟨h1, h2, _⟩ := hg
  obtain ⟨k, c, ids⟩ := a
  have := Dict.dGet?_of_mem_nodup _ k (c, ids) h1 ha
  exact (h2 k c ids this).1

end AgpTpf.C10U
