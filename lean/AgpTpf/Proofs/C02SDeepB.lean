/-
  C02 (script model), part 12: numbering of the pieces of a script's map (`allPieces`, `pieceAt`), and the holders of a
  contig in the registry `regOf`, in terms of the script.
-/
import AgpTpf.Proofs.C02SDeepA
namespace AgpTpf.C02
open AgpTpf AgpTpf.Pretext
open AgpTpf.C12 (rowSpan meets meets_iff)

/-! ### numbering -/

/-- the Pretext fragment rows of the map, in map order -/
def fragsT (input : List Scaffold) (s : Script) : List Fragment :=
  (itemsT s).filterMap (fun bx => pieceFrag input s bx.1 bx.2)

theorem flatMap_zipIdx_fst {α β} (f : α → List β) (l : List α) (n : Nat) :
    (l.zipIdx n).flatMap (fun x => f x.1) = l.flatMap f := by
  induction l generalizing n with
  | nil => rfl
  | cons a t ih => rw [List.zipIdx_cons, List.flatMap_cons, List.flatMap_cons, ih]

theorem allPieces_snd (input : List Scaffold) (s : Script) :
    (allPieces (ptxOf input s)).map Prod.snd = fragsT input s := by
  unfold allPieces ptxOf fragsT itemsT
  rw [List.flatMap_map, List.map_flatMap, List.filterMap_flatMap]
  have h1 : ∀ x : Pretext.Group × Nat,
      ((Scaffold.fragments ({ name := scaffoldName (x.2 + 1), rows := joinRows s.gap (groupFrags input s x.1) } : Scaffold)).map
        (fun p => (({ name := scaffoldName (x.2 + 1), rows := joinRows s.gap (groupFrags input s x.1) } : Scaffold), p))).map
          Prod.snd = groupFrags input s x.1 := by
    intro x
    rw [List.map_map]
    show (fragmentsOf (joinRows s.gap (groupFrags input s x.1))).map _ = _
    rw [fragmentsOf_joinRows]
    exact List.map_id' _
  simp only [h1]
  rw [flatMap_zipIdx_fst (fun g => groupFrags input s g)]
  congr 1
  funext g
  rw [List.filterMap_map]
  rfl

theorem getElem?_filterMap_all_some {α β} (f : α → Option β) :
    ∀ (l : List α), (∀ a ∈ l, (f a).isSome = true) → ∀ (n : Nat), (l.filterMap f)[n]? = l[n]?.bind f := by
  intro l
  induction l with
  | nil => intro _ n; simp
  | cons a r ih =>
    intro h n
    have ha := h a (by simp)
    cases hfa : f a with
    | none => rw [hfa] at ha; cases ha
    | some b =>
      rw [List.filterMap_cons, hfa]
      cases n with
      | zero => simp [hfa]
      | succ n =>
        simp only [List.getElem?_cons_succ]
        exact ih (fun x hx => h x (by simp [hx])) n

/-- piece number `n` of the map is the fragment row of item number `n` -/
theorem piece_at {input : List Scaffold} {s : Script} (hw : WfScript input s) {n : Nat} {x : Scaffold × Fragment}
    (h : (allPieces (ptxOf input s))[n]? = some x) :
    ∃ bx, (itemsT s)[n]? = some bx ∧ pieceFrag input s bx.1 bx.2 = some x.2 := by
  have h1 : ((allPieces (ptxOf input s)).map Prod.snd)[n]? = some x.2 := by
    rw [List.getElem?_map, h]; rfl
  rw [allPieces_snd] at h1
  unfold fragsT at h1
  rw [getElem?_filterMap_all_some] at h1
  · cases hb : (itemsT s)[n]? with
    | none => rw [hb] at h1; cases h1
    | some bx => rw [hb] at h1; exact ⟨bx, rfl, h1⟩
  · intro bx hbx
    obtain ⟨pf, _, _, _, hpf, _⟩ := pieceFrag_some hw bx.1 (mem_itemsT hbx)
    rw [hpf]; rfl

theorem piece_at' {input : List Scaffold} {s : Script} (hw : WfScript input s) {n : Nat} {bx : Bool × Placed}
    (h : (itemsT s)[n]? = some bx) :
    ∃ x, (allPieces (ptxOf input s))[n]? = some x ∧ pieceFrag input s bx.1 bx.2 = some x.2 := by
  have hbx : bx ∈ itemsT s := mem_of_getElem? h
  obtain ⟨pf, _, _, _, hpf, _⟩ := pieceFrag_some hw bx.1 (mem_itemsT hbx)
  have h1 : ((allPieces (ptxOf input s)).map Prod.snd)[n]? = some pf := by
    rw [allPieces_snd]
    unfold fragsT
    rw [getElem?_filterMap_all_some, h]
    · exact hpf
    · intro bx' hbx'
      obtain ⟨pf', _, _, _, hpf', _⟩ := pieceFrag_some hw bx'.1 (mem_itemsT hbx')
      rw [hpf']; rfl
  rw [List.getElem?_map] at h1
  cases hx : (allPieces (ptxOf input s))[n]? with
  | none => rw [hx] at h1; cases h1
  | some x =>
    rw [hx] at h1
    simp only [Option.map_some, Option.some.injEq] at h1
    exact ⟨x, rfl, by rw [h1]; exact hpf⟩

theorem pieceAt_of_getElem? {ptx : List Scaffold} {n : Nat} {x : Scaffold × Fragment} (h : (allPieces ptx)[n]? = some x) :
    pieceAt ptx n = x ∧ n < (allPieces ptx).length := by
  refine ⟨?_, ?_⟩
  · unfold pieceAt
    rw [List.getD_eq_getElem?_getD, h]; rfl
  · by_cases hn : n < (allPieces ptx).length
    · exact hn
    · rw [List.getElem?_eq_none (by omega)] at h; cases h

/-! ### holders -/

theorem mem_holdersOf (input ptx : List Scaffold) (key : Key) (n : Nat) :
    n ∈ holdersOf input ptx key ↔ ∃ x, (allPieces ptx)[n]? = some x ∧ key ∈ pieceKeys input x.2 := by
  rw [holdersOf_spec]
  simp only [List.mem_flatMap, List.mem_replicate]
  constructor
  · rintro ⟨y, hy, hc, rfl⟩
    exact ⟨y.1, List.mem_zipIdx_iff_getElem?.1 hy, List.count_pos_iff.1 (by omega)⟩
  · rintro ⟨x, hx, hk⟩
    refine ⟨(x, n), List.mem_zipIdx_iff_getElem?.2 hx, ?_, rfl⟩
    exact Nat.ne_of_gt (List.count_pos_iff.2 hk)

theorem holdersOf_nodup (input ptx : List Scaffold) (key : Key)
    (h : ∀ x ∈ allPieces ptx, (pieceKeys input x.2).Nodup) : (holdersOf input ptx key).Nodup := by
  rw [holdersOf_spec, List.nodup_iff_pairwise_ne, List.pairwise_flatMap]
  constructor
  · intro y hy
    have hc := (List.nodup_iff_count.1 (h y.1 (List.fst_mem_of_mem_zipIdx hy))) key
    have : List.count key (pieceKeys input y.1.2) = 0 ∨ List.count key (pieceKeys input y.1.2) = 1 := by omega
    rcases this with e | e <;> rw [e] <;> simp
  · have hnd : ((allPieces ptx).zipIdx.map Prod.snd).Nodup := by
      rw [List.zipIdx_map_snd]; exact List.nodup_range'
    rw [List.nodup_iff_pairwise_ne, List.pairwise_map] at hnd
    refine List.Pairwise.imp ?_ hnd
    intro a b hab x hx y hy e
    rw [List.mem_replicate] at hx hy
    exact hab (by rw [← hx.2, ← hy.2, e])

/-- **the holders of the contig in row `r` of input scaffold `i`**: the map positions of the pieces of scaffold `i` whose
    span meets row `r` -/
theorem holder_iff {input : List Scaffold} {s : Script} (hw : WfScript input s) (hin : InputBase input) {i : Nat}
    {sc : Scaffold} (hsc : input[i]? = some sc) {r : Nat} {F : Fragment} (hr : sc.rows[r]? = some (.frag F)) (n : Nat) :
    n ∈ holdersOf input (ptxOf input s) F.keyTuple ↔
      ∃ bx c ab, (itemsT s)[n]? = some bx ∧ bx.2.sc = i ∧ s.scafs[i]? = some c ∧
        (c.spans s.p s.q)[bx.2.k]? = some ab ∧ meets sc.rows ab.1 ab.2 r = true := by
  have hmem : sc ∈ input := mem_of_getElem? hsc
  rw [mem_holdersOf]
  constructor
  · rintro ⟨x, hx, hk⟩
    obtain ⟨bx, hbx, hpf⟩ := piece_at hw hx
    have hk' : F.keyTuple ∈ itemKeys input s bx := by unfold itemKeys; rw [hpf]; exact hk
    obtain ⟨sc', c, ab, k, f, hsc', hc, hab, hkf, hm, e⟩ := (mem_itemKeys hw hin (mem_of_getElem? hbx) _).1 hk'
    have hi : bx.2.sc = i :=
      keys_same_scaffold hin.keys hsc' hsc (frag_mem_fragments hkf) (frag_mem_fragments hr) e
    rw [hi] at hsc' hc
    rw [hsc] at hsc'; cases hsc'
    have hkk : k = r := keys_same_row (hin.keys.within sc hmem) hkf hr e
    subst hkk
    exact ⟨bx, c, ab, hbx, hi, hc, hab, hm⟩
  · rintro ⟨bx, c, ab, hbx, hi, hc, hab, hm⟩
    obtain ⟨x, hx, hpf⟩ := piece_at' hw hbx
    refine ⟨x, hx, ?_⟩
    have : F.keyTuple ∈ itemKeys input s bx :=
      (mem_itemKeys hw hin (mem_of_getElem? hbx) _).2
        ⟨sc, c, ab, r, F, by rw [hi]; exact hsc, by rw [hi]; exact hc, hab, hr, hm, rfl⟩
    unfold itemKeys at this
    rw [hpf] at this
    exact this

/-! ### the Fragment object the registry holds -/

/-- every registered Fragment object is a contig of some piece's lookup result -/
theorem regOf_fragment (input ptx : List Scaffold) (k : Key) (fnd : Found)
    (h : dGet? (regOf input ptx).1 k = some fnd) :
    ∃ x ∈ allPieces ptx, fnd.fragment ∈ fragmentsOf (pieceO input x.2).rows := by
  let P : Fragment → Prop := fun f => ∃ x ∈ allPieces ptx, f ∈ fragmentsOf (pieceO input x.2).rows
  have step : ∀ (sid : Nat) (r : Reg) (f : Fragment), P f → (∀ k fnd, dGet? r.1 k = some fnd → P fnd.fragment) →
      ∀ k fnd, dGet? (regStep sid r f).1 k = some fnd → P fnd.fragment := by
    intro sid r f hf hr k fnd hk
    unfold regStep at hk
    cases hq : dGet? r.1 f.keyTuple with
    | some fq =>
      rw [hq] at hk
      simp only at hk
      by_cases e : f.keyTuple = k
      · subst e
        rw [C01.dGet?_dSet_self] at hk
        cases hk
        exact hr _ fq hq
      · rw [C01.dGet?_dSet_other _ _ _ _ e] at hk
        exact hr _ _ hk
    | none =>
      rw [hq] at hk
      simp only at hk
      rw [C01.dGet?_append_new _ _ _ _ hq] at hk
      by_cases e : f.keyTuple = k
      · rw [if_pos e] at hk; cases hk; exact hf
      · rw [if_neg e] at hk; exact hr _ _ hk
  have fold : ∀ (sid : Nat) (frags : List Fragment) (r : Reg), (∀ f ∈ frags, P f) →
      (∀ k fnd, dGet? r.1 k = some fnd → P fnd.fragment) →
      ∀ k fnd, dGet? (frags.foldl (regStep sid) r).1 k = some fnd → P fnd.fragment := by
    intro sid frags
    induction frags with
    | nil => intro r _ hr; exact hr
    | cons f t ih =>
      intro r hf hr
      rw [List.foldl_cons]
      exact ih _ (fun g hg => hf g (by simp [hg])) (step sid r f (hf f (by simp)) hr)
  have all : ∀ (l : List ((Scaffold × Fragment) × Nat)) (r : Reg), (∀ y ∈ l, y.1 ∈ allPieces ptx) →
      (∀ k fnd, dGet? r.1 k = some fnd → P fnd.fragment) →
      ∀ k fnd, dGet? (regFrom input l r).1 k = some fnd → P fnd.fragment := by
    intro l
    unfold regFrom
    induction l with
    | nil => intro r _ hr; exact hr
    | cons y t ih =>
      intro r hl hr
      rw [List.foldl_cons]
      apply ih _ (fun z hz => hl z (by simp [hz]))
      unfold regPiece
      exact fold _ _ _ (fun f hf => ⟨y.1, hl y (by simp), hf⟩) hr
  exact all _ _ (fun y hy => List.fst_mem_of_mem_zipIdx hy) (by intro k fnd h; simp [dGet?] at h) k fnd h

end AgpTpf.C02
