/-
  C07 at pipeline level: no stored result, no left-over scaffold, no fused scaffold and no output scaffold of `remap`
  ever begins or ends with a gap row.
-/
import AgpTpf.Proofs.C01Pipeline
import AgpTpf.Proofs.C01Cut
namespace AgpTpf.C07
open AgpTpf
open AgpTpf.C01 (foldlM_inv map_setAt_same)

theorem pyGet_ok_nonneg {α} (l : List α) (i : Int) (x : α) (hi : 0 ≤ i) (h : pyGet l i = .ok x) :
    l[i.toNat]? = some x := by
  unfold pyGet at h
  simp only at h
  have : ¬ i < 0 := by omega
  rw [if_neg this] at h
  split at h
  · cases h
  · split at h
    · next y hy => cases h; exact hy
    · cases h

theorem skipGapsRight_spec (rows : List Row) (fuel : Nat) (i j i' : Int) (h : skipGapsRight rows fuel i j = .ok i') :
    i ≤ i' ∧ (i' ≤ j → ∃ r, pyGet rows i' = .ok r ∧ r.isGap = false) := by
  induction fuel generalizing i with
  | zero => simp [skipGapsRight] at h
  | succ n ih =>
    unfold skipGapsRight at h
    split at h
    · next hij =>
      simp only [bind, Except.bind] at h
      split at h
      · cases h
      · next r hr =>
        split at h
        · obtain ⟨h1, h2⟩ := ih _ h
          exact ⟨by omega, h2⟩
        · next hg =>
          simp only [pure, Except.pure, Except.ok.injEq] at h
          subst h
          exact ⟨Int.le_refl _, fun _ => ⟨r, hr, by simpa using hg⟩⟩
    · next hij =>
      simp only [pure, Except.pure, Except.ok.injEq] at h
      subst h
      exact ⟨Int.le_refl _, fun hc => absurd hc hij⟩

theorem skipGapsLeft_spec (rows : List Row) (fuel : Nat) (i j j' : Int) (h : skipGapsLeft rows fuel i j = .ok j') :
    j' ≤ j ∧ (i ≤ j' → ∃ r, pyGet rows j' = .ok r ∧ r.isGap = false) := by
  induction fuel generalizing j with
  | zero => simp [skipGapsLeft] at h
  | succ n ih =>
    unfold skipGapsLeft at h
    split at h
    · next hij =>
      simp only [bind, Except.bind] at h
      split at h
      · cases h
      · next r hr =>
        split at h
        · obtain ⟨h1, h2⟩ := ih _ h
          exact ⟨by omega, h2⟩
        · next hg =>
          simp only [pure, Except.pure, Except.ok.injEq] at h
          subst h
          exact ⟨Int.le_refl _, fun _ => ⟨r, hr, by simpa using hg⟩⟩
    · next hij =>
      simp only [pure, Except.pure, Except.ok.injEq] at h
      subst h
      exact ⟨Int.le_refl _, fun hc => absurd hc hij⟩

theorem pySlice_ends (rows : List Row) (i j : Int) (hi : 0 ≤ i) (hij : i ≤ j) (ri rj : Row)
    (h1 : rows[i.toNat]? = some ri) (h2 : rows[j.toNat]? = some rj) :
    (pySlice rows i (j + 1)).head? = some ri ∧ (pySlice rows i (j + 1)).getLast? = some rj := by
  unfold pySlice
  have hn : (j + 1).toNat - i.toNat = (j.toNat - i.toNat) + 1 := by omega
  rw [hn]
  constructor
  · rw [List.head?_take, if_neg (by omega), List.head?_drop]; exact h1
  · rw [List.getLast?_take, if_neg (by omega), List.getElem?_drop]
    have : i.toNat + (j.toNat - i.toNat + 1 - 1) = j.toNat := by omega
    rw [this, h2]; rfl

/-- `find_overlaps` never returns a result whose first or last row is a gap, and never an empty one -/
theorem findOverlaps_noTerminalGap (rows : List Row) (bait : Fragment) (o : OverlapResult)
    (h : findOverlaps rows bait = .ok (some o)) : NoTerminalGap o.rows ∧ o.rows ≠ [] := by
  unfold findOverlaps at h
  split at h
  · cases h
  · dsimp only at h
    split at h
    · cases h
    · next ovr _ =>
      simp only [bind, Except.bind] at h
      split at h
      · cases h
      · next i hi =>
        split at h
        · cases h
        · next j hj =>
          split at h
          · cases h
          · next hij =>
            split at h
            · cases h
            · simp only [pure, Except.pure, Except.ok.injEq, Option.some.injEq] at h
              subst h
              simp only
              have hij' : i ≤ j := by simpa using hij
              obtain ⟨a1, a2⟩ := skipGapsRight_spec _ _ _ _ _ hi
              obtain ⟨b1, b2⟩ := skipGapsLeft_spec _ _ _ _ _ hj
              have hi0 : 0 ≤ i := by omega
              obtain ⟨ri, hri, hgi⟩ := a2 (by omega)
              obtain ⟨rj, hrj, hgj⟩ := b2 hij'
              have e1 := pyGet_ok_nonneg _ _ _ hi0 hri
              have e2 := pyGet_ok_nonneg _ _ _ (by omega) hrj
              obtain ⟨s1, s2⟩ := pySlice_ends rows i j hi0 hij' ri rj e1 e2
              refine ⟨⟨?_, ?_⟩, ?_⟩
              · intro g hg; rw [s1] at hg; cases hg; simp [Row.isGap] at hgi
              · intro g hg; rw [s2] at hg; cases hg; simp [Row.isGap] at hgj
              · intro hnil; rw [hnil] at s1; cases s1

theorem fixOne_store (err : Int) (store : List Res) (fixes : List Premise) (ps : List Premise)
    (store' : List Res) (fixes' : List Premise) (h : fixOne err (store, fixes) ps = .ok (store', fixes')) :
    store' = store ∨ ∃ p : Premise, p.apply store = Except.ok store' := by
  unfold fixOne at h
  simp only [bind, Except.bind, pure, Except.pure] at h
  repeat' split at h
  all_goals first
    | (cases h; done)
    | (simp only [Except.ok.injEq, Prod.mk.injEq] at h
       obtain ⟨rfl, rfl⟩ := h
       first
         | exact Or.inl rfl
         | exact Or.inr ⟨_, by assumption⟩)


/-! ### the invariant -/

def StoreNTG (store : List Res) : Prop := ∀ r ∈ store, NoTerminalGap r.o.rows
def ExtraNTG (extra : List (Scaffold × Option (Fragment × List Gap))) : Prop := ∀ e ∈ extra, NoTerminalGap e.1.rows

theorem noTerminalGap_nil : NoTerminalGap [] := by unfold NoTerminalGap; simp

theorem discardStart_ntg (o o' : OverlapResult) (hn : NoTerminalGap o.rows) (h : o.discardStart = .ok o') :
    NoTerminalGap o'.rows := by
  obtain ⟨d, r, hr, hr'⟩ := discardStart_rows o o' h
  obtain ⟨p1, p2, _⟩ := popLeadingGaps_spec r (o.start + d.length)
  have hsuf : (OverlapResult.popLeadingGaps r (o.start + d.length)).1 <:+ o.rows := by
    rw [hr]; exact p2.trans (List.suffix_cons _ _)
  rw [hr']
  refine ⟨p1, fun g hg => ?_⟩
  by_cases hne : (OverlapResult.popLeadingGaps r (o.start + d.length)).1 = []
  · rw [hne] at hg; cases hg
  · rw [suffix_getLast? hsuf hne] at hg; exact hn.2 g hg

theorem discardEnd_ntg (o o' : OverlapResult) (hn : NoTerminalGap o.rows) (h : o.discardEnd = .ok o') :
    NoTerminalGap o'.rows := by
  obtain ⟨d, r, hr, hr'⟩ := discardEnd_rows o o' h
  obtain ⟨p1, p2, _⟩ := popLeadingGaps_spec r d.length
  have hrows : o.rows = (d :: r).reverse := by rw [← hr, List.reverse_reverse]
  have hpre : (OverlapResult.popLeadingGaps r d.length).1.reverse <+: o.rows := by
    rw [hrows]; exact List.reverse_prefix.mpr (p2.trans (List.suffix_cons _ _))
  rw [hr']
  refine ⟨fun g hg => ?_, fun g => by rw [List.getLast?_reverse]; exact p1 g⟩
  by_cases hne : (OverlapResult.popLeadingGaps r d.length).1.reverse = []
  · rw [hne] at hg; cases hg
  · rw [prefix_head? hpre hne] at hg; exact hn.1 g hg

theorem trimLargeOverhangs_ntg (o o' : OverlapResult) (err : Int) (hn : NoTerminalGap o.rows)
    (h : o.trimLargeOverhangs err = .ok o') : NoTerminalGap o'.rows := by
  rw [C01.trimLargeOverhangs_eq] at h
  split at h
  · cases h; exact hn
  · simp only [bind, Except.bind] at h
    split at h
    · cases h
    · next v hv =>
      obtain ⟨o1, d⟩ := v
      have h1 : NoTerminalGap o1.rows := by
        unfold C01.trimStartPhase at hv
        split at hv
        · simp only [bind, Except.bind] at hv
          split at hv
          · cases hv
          · split at hv
            · split at hv
              · cases hv
              · next o2 hd =>
                simp only [pure, Except.pure, Except.ok.injEq, Prod.mk.injEq] at hv
                obtain ⟨rfl, _⟩ := hv
                exact discardStart_ntg _ _ hn hd
            · simp only [pure, Except.pure, Except.ok.injEq, Prod.mk.injEq] at hv
              obtain ⟨rfl, _⟩ := hv; exact hn
        · simp only [pure, Except.pure, Except.ok.injEq, Prod.mk.injEq] at hv
          obtain ⟨rfl, _⟩ := hv; exact hn
      simp only at h
      unfold C01.trimEndPhase at h
      split at h
      · simp only [pure, Except.pure, Except.ok.injEq] at h; subst h; exact h1
      · split at h
        · simp only [bind, Except.bind] at h
          split at h
          · cases h
          · split at h
            · exact discardEnd_ntg _ _ h1 h
            · simp only [pure, Except.pure, Except.ok.injEq] at h; subst h; exact h1
        · simp only [pure, Except.pure, Except.ok.injEq] at h; subst h; exact h1

theorem storeNTG_append (store : List Res) (r : Res) (hs : StoreNTG store) (hr : NoTerminalGap r.o.rows) :
    StoreNTG (store ++ [r]) := by
  intro x hx
  rcases List.mem_append.mp hx with hx | hx
  · exact hs x hx
  · simp only [List.mem_cons, List.not_mem_nil, or_false] at hx; subst hx; exact hr

theorem processBait_ntg (input : List Scaffold) (scTags : List Str) (orig : Str) (b b' : Build) (bait : Fragment)
    (hs : StoreNTG b.store) (h : processBait input scTags orig b bait = .ok b') :
    StoreNTG b'.store ∧ b'.extra = b.extra := by
  unfold processBait at h
  simp only [bind, Except.bind] at h
  split at h
  · cases h
  · next sc hsc =>
    split at h
    · cases h
    · next fo hfo =>
      split at h
      · simp only [pure, Except.pure, Except.ok.injEq] at h; subst h; exact ⟨hs, rfl⟩
      · next o0 =>
        obtain ⟨hn0, _⟩ := findOverlaps_noTerminalGap _ _ _ hfo
        split at h
        · cases h
        · next v hv =>
          obtain ⟨n, o1⟩ := v
          obtain ⟨hr1, _, _, _⟩ := C01.labelScaffold_rows _ _ _ _ _ _ _ _ hv
          simp only at h
          split at h
          · cases h
          · next o2 ho2 =>
            have hn2 : NoTerminalGap o2.rows := trimLargeOverhangs_ntg _ _ _ (hr1 ▸ hn0) ho2
            split at h
            · simp only [pure, Except.pure, Except.ok.injEq] at h
              subst h
              exact ⟨storeNTG_append _ _ hs hn2, rfl⟩
            · simp only [pure, Except.pure, Except.ok.injEq] at h
              subst h
              rw [C01.storeFragmentsFound_eq]
              obtain ⟨f1, f2, _⟩ := C01.foldl_storeOne_other_fields b.store.length (fragmentsOf o2.rows)
                { b with namer := n, store := b.store ++ [{ o := o2, added := true }] }
              rw [f1, f2]
              exact ⟨storeNTG_append _ _ hs hn2, rfl⟩

theorem storeNTG_of_core (s1 s2 : List Res) (h : s1.map C01.resCore = s2.map C01.resCore) (hs : StoreNTG s2) :
    StoreNTG s1 := by
  intro r hr
  obtain ⟨r2, h2, e⟩ := C01.mem_of_core _ _ h r hr
  simp only [C01.resCore, Prod.mk.injEq] at e
  rw [← e.2.1]; exact hs r2 h2

theorem findAssemblyOverlaps_ntg (input ptx : List Scaffold) (b b' : Build) (hs : StoreNTG b.store)
    (h : findAssemblyOverlaps input ptx b = .ok b') : StoreNTG b'.store ∧ b'.extra = b.extra := by
  unfold findAssemblyOverlaps at h
  refine foldlM_inv (fun x => StoreNTG x.store ∧ x.extra = b.extra) _ ptx ?_ b b' ⟨hs, rfl⟩ h
  intro a ps a' ⟨ha, hc⟩ hstep
  simp only [bind, Except.bind] at hstep
  split at hstep
  · cases hstep
  · next n hn =>
    split at hstep
    · cases hstep
    · next b2 hb2 =>
      simp only [pure, Except.pure, Except.ok.injEq] at hstep
      subst hstep
      have hmid := foldlM_inv (fun x => StoreNTG x.store ∧ x.extra = b.extra) _ ps.fragments
        (fun x bait x' ⟨hx, hxc⟩ hs' => by
          obtain ⟨p1, p2⟩ := processBait_ntg input _ _ x x' bait hx hs'
          exact ⟨p1, p2.trans hxc⟩)
        { a with namer := n } b2 ⟨ha, hc⟩ hb2
      exact ⟨storeNTG_of_core _ _ (C01.renameBySize_core _ _) hmid.1, hmid.2⟩

/-! ### the resolver -/

theorem mem_setAt {α} (l : List α) (i : Nat) (x y : α) (h : y ∈ setAt l i x) : y ∈ l ∨ y = x := by
  unfold setAt at h
  exact List.mem_or_eq_of_mem_set h

theorem getD_mem_or_default {α} [Inhabited α] (l : List α) (i : Nat) : l.getD i default ∈ l ∨ l.getD i default = default := by
  rw [List.getD_eq_getElem?_getD]
  cases h : l[i]? with
  | none => right; rfl
  | some x => left; exact List.mem_of_getElem? h

theorem storeNTG_getD (store : List Res) (hs : StoreNTG store) (i : Nat) : NoTerminalGap (store.getD i default).o.rows := by
  rcases getD_mem_or_default store i with h | h
  · exact hs _ h
  · rw [h]; exact noTerminalGap_nil

theorem premise_apply_ntg (p : Premise) (store store' : List Res) (hs : StoreNTG store) (h : p.apply store = .ok store') :
    StoreNTG store' := by
  unfold Premise.apply at h
  have hold := storeNTG_getD store hs p.sid
  have key : ∀ o', ((store.getD p.sid default).o.discardStart = .ok o' ∨ (store.getD p.sid default).o.discardEnd = .ok o') →
      StoreNTG (setAt store p.sid { store.getD p.sid default with o := o' }) := by
    intro o' ho r hr
    rcases mem_setAt _ _ _ _ hr with hr | rfl
    · exact hs r hr
    · rcases ho with ho | ho
      · exact discardStart_ntg _ _ hold ho
      · exact discardEnd_ntg _ _ hold ho
  cases hk : p.kind with
  | start =>
    simp only [hk, bind, Except.bind] at h
    split at h
    · cases h
    · next o' ho =>
      simp only [pure, Except.pure, Except.ok.injEq] at h
      subst h; exact key o' (Or.inl ho)
  | stop =>
    simp only [hk, bind, Except.bind] at h
    split at h
    · cases h
    · next o' ho =>
      simp only [pure, Except.pure, Except.ok.injEq] at h
      subst h; exact key o' (Or.inr ho)

theorem applyFixBookkeeping_store (b b' : Build) (p : Premise) (h : applyFixBookkeeping b p = .ok b') :
    b'.store = b.store ∧ b'.extra = b.extra := by
  unfold applyFixBookkeeping at h
  simp only at h
  split at h
  · split at h
    · cases h; exact ⟨rfl, rfl⟩
    · split at h
      · cases h
      · simp only [Except.ok.injEq] at h
        subst h
        split <;> exact ⟨rfl, rfl⟩
  · cases h; exact ⟨rfl, rfl⟩

theorem resolverRound_ntg (b b' : Build) (hs : StoreNTG b.store) (h : resolverRound b = .ok (some b')) :
    StoreNTG b'.store ∧ b'.extra = b.extra := by
  unfold resolverRound at h
  simp only [bind, Except.bind] at h
  split at h
  · cases h
  · next prems _ =>
    split at h
    · cases h
    · next v hv =>
      obtain ⟨store, fixes⟩ := v
      simp only at h
      have hst : StoreNTG store := by
        refine foldlM_inv (fun (x : List Res × List Premise) => StoreNTG x.1) _ _ ?_ (b.store, []) (store, fixes) hs hv
        intro a ps a' ha hstep
        obtain ⟨a1, a2⟩ := a
        obtain ⟨a1', a2'⟩ := a'
        rcases fixOne_store _ _ _ _ _ _ hstep with rfl | ⟨p, hp⟩
        · exact ha
        · exact premise_apply_ntg p _ _ ha hp
      split at h
      · cases h
      · split at h
        · cases h
        · next b2 hb2 =>
          simp only [pure, Except.pure, Except.ok.injEq, Option.some.injEq] at h
          subst h
          have := foldlM_inv (fun x : Build => x.store = store ∧ x.extra = b.extra) _ fixes
            (fun x p x' ⟨hx1, hx2⟩ hs' => by
              obtain ⟨q1, q2⟩ := applyFixBookkeeping_store x x' p hs'
              exact ⟨q1.trans hx1, q2.trans hx2⟩)
            { b with store := store } b2 ⟨rfl, rfl⟩ hb2
          rw [this.1]; exact ⟨hst, this.2⟩

theorem discardOverhanging_ntg (fuel : Nat) (b b' : Build) (hs : StoreNTG b.store)
    (h : discardOverhanging fuel b = .ok b') : StoreNTG b'.store ∧ b'.extra = b.extra := by
  induction fuel generalizing b with
  | zero => simp [discardOverhanging] at h
  | succ n ih =>
    unfold discardOverhanging at h
    split at h
    · cases h; exact ⟨hs, rfl⟩
    · simp only [bind, Except.bind] at h
      split at h
      · cases h
      · next r hr =>
        split at h
        · simp only [pure, Except.pure, Except.ok.injEq] at h; subst h; exact ⟨hs, rfl⟩
        · next b1 =>
          obtain ⟨q1, q2⟩ := resolverRound_ntg b b1 hs hr
          obtain ⟨r1, r2⟩ := ih b1 q1 h
          exact ⟨r1, r2.trans q2⟩

/-! ### cutting, left-overs, the whole remap -/

/-- replace the first row -/
def setHead (l : List Row) (x : Row) : List Row := match l with | [] => [] | _ :: r => x :: r

theorem trimFragment_rows (o : OverlapResult) (trim : Fragment) (ks ke : Bool) (oid : Nat)
    (o' : OverlapResult) (new : Fragment) (h : o.trimFragment trim ks ke oid = .ok (o', new)) :
    o'.rows = OverlapResult.setLast o.rows (.frag new) ∨
    o'.rows = setHead o.rows (.frag new) := by
  unfold OverlapResult.trimFragment at h
  simp only [bind, Except.bind, pure, Except.pure] at h
  split at h
  · cases h
  · rename_i atStart _
    split at h
    · cases h
    · rename_i atEnd _
      split at h
      · cases h
      · split at h
        · cases h
        · rename_i nf hmk
          cases h
          simp only
          cases atEnd
          · right; rfl
          · left; rfl

theorem setLast_ntg (l : List Row) (f : Fragment) (hn : NoTerminalGap l) : NoTerminalGap (OverlapResult.setLast l (.frag f)) := by
  unfold OverlapResult.setLast
  cases hr : l.reverse with
  | nil => simp only; exact noTerminalGap_nil
  | cons y r =>
    simp only [List.reverse_cons]
    have hl : l = r.reverse ++ [y] := by
      have := congrArg List.reverse hr
      simpa using this
    constructor
    · intro g hg
      cases hrr : r.reverse with
      | nil => rw [hrr] at hg; simp at hg
      | cons z t =>
        rw [hrr] at hg
        apply hn.1 g
        rw [hl, hrr]; simpa using hg
    · intro g hg; simp at hg

theorem setHead_ntg (l : List Row) (f : Fragment) (hn : NoTerminalGap l) :
    NoTerminalGap (setHead l (.frag f)) := by
  unfold setHead
  cases l with
  | nil => exact noTerminalGap_nil
  | cons y r =>
    simp only
    constructor
    · intro g hg; simp at hg
    · intro g hg
      cases r with
      | nil => simp at hg
      | cons z t =>
        apply hn.2 g
        rw [List.getLast?_cons_cons] at hg ⊢; exact hg

theorem trimFragment_ntg (o : OverlapResult) (trim : Fragment) (ks ke : Bool) (oid : Nat)
    (o' : OverlapResult) (new : Fragment) (hn : NoTerminalGap o.rows)
    (h : o.trimFragment trim ks ke oid = .ok (o', new)) : NoTerminalGap o'.rows := by
  rcases trimFragment_rows _ _ _ _ _ _ _ h with e | e
  · rw [e]; exact setLast_ntg _ _ hn
  · rw [e]; exact setHead_ntg _ _ hn

theorem cutStep_ntg (f : Fragment) (last : Nat) (b : Build) (subs : List Fragment) (i sid : Nat)
    (acc' : Build × List Fragment × Nat) (hs : StoreNTG b.store)
    (h : C01.cutStep f last (b, subs, i) sid = .ok acc') : StoreNTG acc'.1.store ∧ acc'.1.extra = b.extra := by
  unfold C01.cutStep at h
  simp only [bind, Except.bind] at h
  split at h
  · cases h
  · next v hv =>
    obtain ⟨o, new⟩ := v
    simp only [pure, Except.pure, Except.ok.injEq] at h
    subst h
    refine ⟨?_, rfl⟩
    intro r hr
    rcases mem_setAt _ _ _ _ hr with hr | rfl
    · exact hs r hr
    · exact trimFragment_ntg _ _ _ _ _ _ _ (storeNTG_getD _ hs sid) hv

theorem cutFragments_ntg (b b' : Build) (fnd : Found) (hs : StoreNTG b.store) (h : cutFragments b fnd = .ok b') :
    StoreNTG b'.store ∧ b'.extra = b.extra := by
  obtain ⟨ordered, b1, subs, n, _, hf, _, rfl⟩ := C01.cutFragments_ok b b' fnd h
  have := foldlM_inv (fun (x : Build × List Fragment × Nat) => StoreNTG x.1.store ∧ x.1.extra = b.extra) _ ordered
    (fun x sid x' ⟨hx1, hx2⟩ hstep => by
      obtain ⟨xb, xs, xi⟩ := x
      obtain ⟨q1, q2⟩ := cutStep_ntg _ _ _ _ _ _ _ hx1 hstep
      exact ⟨q1, q2.trans hx2⟩)
    (b, [], 0) (b1, subs, n) ⟨hs, rfl⟩ hf
  exact this

theorem cutRemaining_ntg (b b' : Build) (hs : StoreNTG b.store) (h : cutRemaining b = .ok b') :
    StoreNTG b'.store ∧ b'.extra = b.extra := by
  unfold cutRemaining at h
  simp only [bind, Except.bind] at h
  split at h
  · cases h
  · next b1 hb1 =>
    simp only [pure, Except.pure, Except.ok.injEq] at h
    subst h
    exact foldlM_inv (fun x : Build => StoreNTG x.store ∧ x.extra = b.extra) _ b.multi
      (fun x k x' ⟨hx1, hx2⟩ hstep => by
        split at hstep
        · obtain ⟨q1, q2⟩ := cutFragments_ntg _ _ _ hx1 hstep
          exact ⟨q1, q2.trans hx2⟩
        · simp only [pure, Except.pure, Except.ok.injEq] at hstep; subst hstep; exact ⟨hx1, hx2⟩)
      b b1 ⟨hs, rfl⟩ hb1

theorem addMissing_ntg (input : List Scaffold) (b b' : Build) (hs : StoreNTG b.store) (he : ExtraNTG b.extra)
    (h : addMissing input b = .ok b') : StoreNTG b'.store ∧ ExtraNTG b'.extra := by
  unfold addMissing at h
  refine foldlM_inv (fun x : Build => StoreNTG x.store ∧ ExtraNTG x.extra) _ input ?_ b b' ⟨hs, he⟩ h
  intro x sc x' ⟨hx1, hx2⟩ hstep
  simp only [bind, Except.bind] at hstep
  split at hstep
  · cases hstep
  · next v hv =>
    obtain ⟨rows, first⟩ := v
    simp only at hstep
    split at hstep
    · simp only [pure, Except.pure, Except.ok.injEq] at hstep; subst hstep; exact ⟨hx1, hx2⟩
    · split at hstep
      · cases hstep
      · simp only [pure, Except.pure, Except.ok.injEq] at hstep
        subst hstep
        refine ⟨hx1, ?_⟩
        intro e hemem
        rcases List.mem_append.mp hemem with hemem | hemem
        · exact hx2 e hemem
        · simp only [List.mem_cons, List.not_mem_nil, or_false] at hemem
          subst hemem
          obtain ⟨_, _, _, h4, h5, _⟩ := C01.missingRows_spec _ _ _ _ hv
          exact ⟨h4, h5⟩

theorem remapToInput_ntg (input ptx : List Scaffold) (prefix_ : Str) (joinGap : Option Gap) (err : Int) (b : Build)
    (h : remapToInput input ptx prefix_ joinGap err = .ok b) : StoreNTG b.store ∧ ExtraNTG b.extra := by
  unfold remapToInput at h
  simp only [bind, Except.bind] at h
  split at h
  · cases h
  · split at h
    · cases h
    · next b1 hb1 =>
      split at h
      · cases h
      · next b2 hb2 =>
        split at h
        · cases h
        · next b3 hb3 =>
          obtain ⟨p1, p2⟩ := findAssemblyOverlaps_ntg _ _ _ _ (fun r hr => by cases hr) hb1
          obtain ⟨q1, q2⟩ := discardOverhanging_ntg _ _ _ p1 hb2
          obtain ⟨r1, r2⟩ := cutRemaining_ntg _ _ q1 hb3
          have hst : StoreNTG (renameBySize b3.store b3.namer.haplotigScaffolds) :=
            storeNTG_of_core _ _ (C01.renameBySize_core _ _) r1
          have hex : ExtraNTG b3.extra := by
            rw [r2, q2, p2]; intro e he; cases he
          exact addMissing_ntg input { b3 with store := renameBySize b3.store b3.namer.haplotigScaffolds } b hst hex h


/-! ### `assemblies_with_scaffolds_fused` -/

theorem foldl_inv {α β} (P : β → Prop) (f : β → α → β) (l : List α) (hstep : ∀ a x, P a → P (f a x))
    (a0 : β) (h0 : P a0) : P (l.foldl f a0) := by
  induction l generalizing a0 with
  | nil => exact h0
  | cons x t ih => exact ih _ (hstep a0 x h0)

theorem mapM_ok_mem {α β} (g : α → R β) (l : List α) (out : List β) (h : l.mapM g = .ok out) :
    ∀ y ∈ out, ∃ x ∈ l, g x = .ok y := by
  induction l generalizing out with
  | nil => simp only [List.mapM_nil, pure, Except.pure, Except.ok.injEq] at h; subst h; intro y hy; cases hy
  | cons a t ih =>
    rw [List.mapM_cons] at h
    simp only [bind, Except.bind] at h
    split at h
    · cases h
    · next b hb =>
      split at h
      · cases h
      · next ys hys =>
        simp only [pure, Except.pure, Except.ok.injEq] at h
        subst h
        intro y hy
        rcases List.mem_cons.mp hy with rfl | hy
        · exact ⟨a, List.mem_cons_self .., hb⟩
        · obtain ⟨x, hx, hg⟩ := ih ys hys y hy
          exact ⟨x, List.mem_cons_of_mem _ hx, hg⟩

theorem mapM_keyed_snd {α κ} (key : α → R κ) (l : List α) (out : List (κ × α))
    (h : l.mapM (fun s => do let k ← key s; pure (k, s)) = .ok out) : out.map (·.2) = l := by
  induction l generalizing out with
  | nil => simp only [List.mapM_nil, pure, Except.pure, Except.ok.injEq] at h; subst h; rfl
  | cons a t ih =>
    rw [List.mapM_cons] at h
    simp only [bind, Except.bind] at h
    split at h
    · cases h
    · next b hb =>
      split at h
      · cases h
      · next ys hys =>
        simp only [pure, Except.pure, Except.ok.injEq] at h
        subst h
        split at hb
        · cases hb
        · simp only [pure, Except.pure, Except.ok.injEq] at hb
          subst hb
          simp [ih ys hys]

theorem smartSort_perm (scs out : List Scaffold) (h : smartSort scs = .ok out) : out.Perm scs := by
  unfold smartSort at h
  simp only [bind, Except.bind] at h
  split at h
  · cases h
  · next keyed hk =>
    simp only [pure, Except.pure, Except.ok.injEq] at h
    subst h
    have h1 : keyed.map (·.2) = scs := by
      refine mapM_keyed_snd (fun s : Scaffold => do let k ← naturalKey s.name; pure (s.rank, k)) scs keyed ?_
      rw [← hk]
      congr 1
      funext s
      simp only [bind, Except.bind, pure, Except.pure]
      cases naturalKey s.name <;> rfl
    rw [← h1]
    exact (C01.stableSort_perm _ _).map _

theorem nameGroup_rows (fs : List Scaffold) (g : GroupData) (prefix_ : Str) (n : Nat) :
    (nameGroup fs g prefix_ n).map (·.rows) = fs.map (·.rows) := by
  unfold nameGroup
  refine foldl_inv (fun x : List Scaffold => x.map (·.rows) = fs.map (·.rows)) _ g ?_ fs rfl
  intro a h ha
  refine foldl_inv (fun x : List Scaffold => x.map (·.rows) = fs.map (·.rows)) _ _ ?_ a ha
  intro a2 p ha2
  refine foldl_inv (fun x : List Scaffold => x.map (·.rows) = fs.map (·.rows)) _ _ ?_ a2 ha2
  intro a3 sid ha3
  rw [← ha3]
  exact map_setAt_same (·.rows) a3 sid { a3.getD sid default with name := replaceAll p.1.1 p.2 ((a3.getD sid default).name.length + 1) (a3.getD sid default).name } rfl


abbrev SplitAcc := List (Option Str × Bool × List Nat) × List (Str × Nat) × List Str × List Scaffold

/-- the splitting loop body of `assembliesFused` (verbatim) -/
def splitStep (prefix_ : Str) (acc : SplitAcc) (sid : Nat) : SplitAcc :=
      let (asms, entries, haps, fs) := acc
      let s := fs.getD sid default
      let (key, curated) :=
        if truthy s.tag then (s.tag, false)
        else if truthy s.haplotype then (s.haplotype, true)
        else (none, true)
      let asms := match dGet? asms key with
        | some (c, ids) => dSet asms key (c, ids ++ [sid])
        | none => asms ++ [(key, (curated, [sid]))]
      if s.rank = 1 then
        let h := pyStrOpt key
        (asms, entries ++ [(h, sid)], sAdd haps h, fs)
      else if s.rank = 2 then
        let fs := if prefix_.isPrefixOf s.name then fs else setAt fs sid { s with name := prefix_ ++ s.name }
        (asms, entries, haps, fs)
      else (asms, entries, haps, fs)

/-- `name_chromosomes` part (verbatim) -/
def nameChromosomes (fs : List Scaffold) (haps : List Str) (entries : List (Str × Nat)) (prefix_ : Str) : R (List Scaffold) :=
    if haps.isEmpty then pure fs
    else do
      let groups ← buildGroups fs haps entries
      if groupsHaveErrors groups then throw .chrNamer
      let keyed ← groups.mapM (fun g => do let l ← groupFirstLength fs g; pure (l, g))
      let sorted := (stableSort (fun (a c : Int × GroupData) => a.1 ≥ c.1) keyed).map (·.2)
      pure (((List.range sorted.length).zip sorted).foldl (fun fs (p : Nat × GroupData) => nameGroup fs p.2 prefix_ (p.1 + 1)) fs)

/-- the per-assembly smart sort (verbatim) -/
def sortAsms (fs : List Scaffold) (asms : List (Option Str × Bool × List Nat)) : R (List OutAsm) :=
  asms.mapM (fun (a : Option Str × Bool × List Nat) => do
    let scs := a.2.2.map (fun sid => fs.getD sid default)
    let scs ← smartSort scs
    pure ({ key := a.1, curated := a.2.1, scaffolds := scs } : OutAsm))

theorem assembliesFused_ok (input : List Scaffold) (b : Build) (outs : List OutAsm) (stats : Stats)
    (h : assembliesFused input b = .ok (outs, stats)) :
    ∃ (res : SplitAcc) (fs2 : List Scaffold),
      res = (List.range (fuseByName b).length).foldl (splitStep b.namer.autosomePrefix) ([], [], [], fuseByName b) ∧
      nameChromosomes res.2.2.2 res.2.2.1 res.2.1 b.namer.autosomePrefix = .ok fs2 ∧
      sortAsms fs2 res.1 = .ok outs := by
  unfold assembliesFused at h
  dsimp only at h
  generalize hres : List.foldl _ _ (List.range (fuseByName b).length) = res at h
  have hres' : res = (List.range (fuseByName b).length).foldl (splitStep b.namer.autosomePrefix) ([], [], [], fuseByName b) :=
    hres.symm
  clear hres
  obtain ⟨asms, entries, haps, fs⟩ := res
  dsimp only at h
  have tail : ∀ fs2 : List Scaffold, (do
        let outs ← sortAsms fs2 asms
        let stats ← makeStats input outs b.cuts
        pure (outs, stats)) = Except.ok (outs, stats) → sortAsms fs2 asms = .ok outs := by
    intro fs2 ht
    simp only [bind, Except.bind] at ht
    split at ht
    · cases ht
    · split at ht
      · cases ht
      · simp only [pure, Except.pure, Except.ok.injEq, Prod.mk.injEq] at ht
        rw [← ht.1]; assumption
  by_cases hh : haps.isEmpty = true
  · rw [if_pos hh] at h
    refine ⟨_, fs, hres', ?_, tail fs h⟩
    show nameChromosomes fs haps entries b.namer.autosomePrefix = .ok fs
    unfold nameChromosomes
    rw [if_pos hh]; rfl
  · rw [if_neg hh] at h
    cases hb : buildGroups fs haps entries with
    | error e => rw [hb] at h; cases h
    | ok groups =>
      rw [hb] at h
      by_cases hg : groupsHaveErrors groups = true
      · simp only [bind, Except.bind, hg, ↓reduceIte, throw, throwThe, MonadExceptOf.throw] at h
        cases h
      · simp only [bind, Except.bind, hg] at h
        cases hk : groups.mapM (fun g => do let l ← groupFirstLength fs g; pure (l, g)) with
        | error e =>
          exfalso
          simp only [bind, Except.bind] at hk
          rw [hk] at h
          simp at h
        | ok keyed =>
          let sorted : List GroupData := (stableSort (fun (a c : Int × GroupData) => a.1 ≥ c.1) keyed).map (·.2)
          let fs2 : List Scaffold := ((List.range sorted.length).zip sorted).foldl
            (fun fs (p : Nat × GroupData) => nameGroup fs p.2 b.namer.autosomePrefix (p.1 + 1)) fs
          refine ⟨_, fs2, hres', ?_, tail fs2 ?_⟩
          · show nameChromosomes fs haps entries b.namer.autosomePrefix = .ok fs2
            unfold nameChromosomes
            rw [if_neg hh]
            simp only [bind, Except.bind, hb, hg, Bool.false_eq_true, ↓reduceIte]
            simp only [bind, Except.bind] at hk
            rw [hk]
            rfl
          · simp only [bind, Except.bind] at hk
            rw [hk] at h
            simp only [Bool.false_eq_true, ↓reduceIte, pure, Except.pure] at h
            exact h

theorem splitStep_rows (prefix_ : Str) (acc : SplitAcc) (sid : Nat) :
    (splitStep prefix_ acc sid).2.2.2.map (·.rows) = acc.2.2.2.map (·.rows) := by
  obtain ⟨asms, entries, haps, fs⟩ := acc
  unfold splitStep
  dsimp only
  split
  · rfl
  · split
    · dsimp only
      split
      · rfl
      · exact map_setAt_same (·.rows) fs sid { fs.getD sid default with name := prefix_ ++ (fs.getD sid default).name } rfl
    · rfl

theorem nameChromosomes_rows (fs fs' : List Scaffold) (haps : List Str) (entries : List (Str × Nat)) (prefix_ : Str)
    (h : nameChromosomes fs haps entries prefix_ = .ok fs') : fs'.map (·.rows) = fs.map (·.rows) := by
  unfold nameChromosomes at h
  split at h
  · simp only [pure, Except.pure, Except.ok.injEq] at h; subst h; rfl
  · simp only [bind, Except.bind] at h
    split at h
    · cases h
    · split at h
      · cases h
      · split at h
        · cases h
        · simp only [pure, Except.pure, Except.ok.injEq] at h
          subst h
          refine foldl_inv (fun x : List Scaffold => x.map (·.rows) = fs.map (·.rows)) _ _ ?_ fs rfl
          intro a p ha
          rw [nameGroup_rows]; exact ha

/-- every scaffold of every output assembly carries the rows of one of the fused scaffolds (or is the empty default) -/
theorem assembliesFused_rows (input : List Scaffold) (b : Build) (outs : List OutAsm) (stats : Stats)
    (h : assembliesFused input b = .ok (outs, stats)) :
    ∀ a ∈ outs, ∀ s ∈ a.scaffolds, s.rows = [] ∨ ∃ s0 ∈ fuseByName b, s.rows = s0.rows := by
  obtain ⟨res, fs2, hres, hname, hsort⟩ := assembliesFused_ok input b outs stats h
  have hfs1 : res.2.2.2.map (·.rows) = (fuseByName b).map (·.rows) := by
    rw [hres]
    exact foldl_inv (fun x : SplitAcc => x.2.2.2.map (·.rows) = (fuseByName b).map (·.rows)) _ _
      (fun a x ha => by rw [splitStep_rows]; exact ha) _ rfl
  have hfs2' : fs2.map (·.rows) = (fuseByName b).map (·.rows) := (nameChromosomes_rows _ _ _ _ _ hname).trans hfs1
  intro a ha s hs
  unfold sortAsms at hsort
  obtain ⟨a0, _, hg⟩ := mapM_ok_mem _ _ _ hsort a ha
  simp only [bind, Except.bind] at hg
  split at hg
  · cases hg
  · next scs hscs =>
    simp only [pure, Except.pure, Except.ok.injEq] at hg
    subst hg
    have hmem : s ∈ a0.2.2.map (fun sid => fs2.getD sid default) := (smartSort_perm _ _ hscs).mem_iff.mp hs
    obtain ⟨sid, _, rfl⟩ := List.mem_map.mp hmem
    rcases getD_mem_or_default fs2 sid with hm | hm
    · right
      have : (fs2.getD sid default).rows ∈ fs2.map (·.rows) := List.mem_map_of_mem hm
      rw [hfs2'] at this
      obtain ⟨s0, hs0, e⟩ := List.mem_map.mp this
      exact ⟨s0, hs0, e.symm⟩
    · left; rw [hm]; rfl


/-! ### L4: the output assemblies hold exactly the fused scaffolds -/

theorem setAt_length {α} (l : List α) (i : Nat) (x : α) : (setAt l i x).length = l.length := by
  unfold setAt; simp

theorem splitStep_ids (prefix_ : Str) (acc : SplitAcc) (sid : Nat) :
    ((splitStep prefix_ acc sid).1.flatMap (·.2.2)).Perm (acc.1.flatMap (·.2.2) ++ [sid]) ∧
    (splitStep prefix_ acc sid).2.2.2.length = acc.2.2.2.length := by
  obtain ⟨asms, entries, haps, fs⟩ := acc
  have key : ∀ (k : Option Str) (cur : Bool),
      (List.flatMap (fun (a : Option Str × Bool × List Nat) => a.2.2) (match dGet? asms k with
        | some (c, ids) => dSet asms k (c, ids ++ [sid])
        | none => asms ++ [(k, (cur, [sid]))])).Perm (asms.flatMap (·.2.2) ++ [sid]) := by
    intro k cur
    cases hd : dGet? asms k with
    | none => simp
    | some v =>
      obtain ⟨c, ids⟩ := v
      exact C01.dSet_flatMap_perm (fun v : Bool × List Nat => v.2) asms k (c, ids) (c, ids ++ [sid]) [sid] hd rfl
  unfold splitStep
  dsimp only
  split
  · exact ⟨key _ _, rfl⟩
  · split
    · refine ⟨key _ _, ?_⟩
      dsimp only
      split
      · rfl
      · exact setAt_length _ _ _
    · exact ⟨key _ _, rfl⟩

theorem foldl_splitStep_ids (prefix_ : Str) (l : List Nat) (acc : SplitAcc) :
    ((l.foldl (splitStep prefix_) acc).1.flatMap (·.2.2)).Perm (acc.1.flatMap (·.2.2) ++ l) ∧
    (l.foldl (splitStep prefix_) acc).2.2.2.length = acc.2.2.2.length := by
  induction l generalizing acc with
  | nil => simp
  | cons x t ih =>
    rw [List.foldl_cons]
    obtain ⟨h1, h2⟩ := ih (splitStep prefix_ acc x)
    obtain ⟨s1, s2⟩ := splitStep_ids prefix_ acc x
    refine ⟨h1.trans ?_, h2.trans s2⟩
    have := List.Perm.append_right t s1
    simpa using this

theorem sortAsms_perm (fs : List Scaffold) (asms : List (Option Str × Bool × List Nat)) (outs : List OutAsm)
    (h : sortAsms fs asms = .ok outs) :
    (outs.flatMap (·.scaffolds)).Perm (asms.flatMap (fun a => a.2.2.map (fun sid => fs.getD sid default))) := by
  unfold sortAsms at h
  induction asms generalizing outs with
  | nil => simp only [List.mapM_nil, pure, Except.pure, Except.ok.injEq] at h; subst h; exact List.Perm.refl _
  | cons a t ih =>
    rw [List.mapM_cons] at h
    simp only [bind, Except.bind] at h
    split at h
    · cases h
    · next o ho =>
      split at h
      · cases h
      · next os hos =>
        simp only [pure, Except.pure, Except.ok.injEq] at h
        subst h
        split at ho
        · cases ho
        · next scs hscs =>
          simp only [pure, Except.pure, Except.ok.injEq] at ho
          subst ho
          simp only [List.flatMap_cons]
          exact (smartSort_perm _ _ hscs).append (ih os hos)

theorem map_getD_range {α} [Inhabited α] (l : List α) : (List.range l.length).map (fun i => l.getD i default) = l := by
  apply List.ext_getElem
  · simp
  · intro i h1 h2
    simp only [List.getElem_map, List.getElem_range]
    rw [List.getD_eq_getElem?_getD, List.getElem?_eq_getElem h2]; rfl

theorem nameChromosomes_length (fs fs' : List Scaffold) (haps : List Str) (entries : List (Str × Nat)) (prefix_ : Str)
    (h : nameChromosomes fs haps entries prefix_ = .ok fs') : fs'.length = fs.length := by
  have := congrArg List.length (nameChromosomes_rows _ _ _ _ _ h)
  simpa using this

/-- L4: over all output assemblies together, the scaffolds' row lists are exactly (as a multiset) the row lists of
    the fused scaffolds: `assemblies_with_scaffolds_fused` distributes, renames and sorts, nothing else -/
theorem assembliesFused_perm (input : List Scaffold) (b : Build) (outs : List OutAsm) (stats : Stats)
    (h : assembliesFused input b = .ok (outs, stats)) :
    ((outs.flatMap (·.scaffolds)).map (·.rows)).Perm ((fuseByName b).map (·.rows)) := by
  obtain ⟨res, fs2, hres, hname, hsort⟩ := assembliesFused_ok input b outs stats h
  obtain ⟨hids, hlen1⟩ := foldl_splitStep_ids b.namer.autosomePrefix (List.range (fuseByName b).length) ([], [], [], fuseByName b)
  rw [← hres] at hids hlen1
  simp only [List.flatMap_nil, List.nil_append] at hids
  have hfs1 : res.2.2.2.map (·.rows) = (fuseByName b).map (·.rows) := by
    rw [hres]
    exact foldl_inv (fun x : SplitAcc => x.2.2.2.map (·.rows) = (fuseByName b).map (·.rows)) _ _
      (fun a x ha => by rw [splitStep_rows]; exact ha) _ rfl
  have hfs2 : fs2.map (·.rows) = (fuseByName b).map (·.rows) := (nameChromosomes_rows _ _ _ _ _ hname).trans hfs1
  have hlen2 : fs2.length = (fuseByName b).length := (nameChromosomes_length _ _ _ _ _ hname).trans hlen1
  have h1 := sortAsms_perm fs2 res.1 outs hsort
  have h2 : (res.1.flatMap (fun a => a.2.2.map (fun sid => fs2.getD sid default))) =
      (res.1.flatMap (·.2.2)).map (fun sid => fs2.getD sid default) := by
    rw [List.map_flatMap]
  have h3 : ((res.1.flatMap (·.2.2)).map (fun sid => fs2.getD sid default)).Perm fs2 := by
    have := hids.map (fun sid => fs2.getD sid default)
    rw [← hlen2, map_getD_range] at this
    exact this
  rw [← hfs2]
  exact ((h1.trans (h2 ▸ h3))).map _


end AgpTpf.C07
