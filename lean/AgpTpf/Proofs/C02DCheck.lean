/-
  C02 (deep cuts), part 7: a Bool checker for `DeepCut` (to show the hypotheses satisfiable on concrete maps).
-/
import AgpTpf.Proofs.C02DOut
namespace AgpTpf.C02
open AgpTpf

/-- `x = .ok ov` with `err ≤ ov` -/
def okGe (x : R Int) (err : Int) : Bool :=
  match x with
  | .ok ov => decide (err ≤ ov)
  | .error _ => false

theorem okGe_spec {x : R Int} {err : Int} (h : okGe x err = true) : ∃ ov, x = .ok ov ∧ err ≤ ov := by
  cases x with
  | error e => simp [okGe] at h
  | ok ov => exact ⟨ov, rfl, by simpa [okGe] using h⟩

/-- `x = .ok ov` with `3·err < ov`, or (`single`) `err ≤ ov` -/
def okDeep (x : R Int) (err : Int) (single : Bool) : Bool :=
  match x with
  | .ok ov => decide (3 * err < ov) || (single && decide (err ≤ ov))
  | .error _ => false

theorem okDeep_spec {x : R Int} {err : Int} {single : Bool} (h : okDeep x err single = true) :
    ∃ ov, x = .ok ov ∧ (3 * err < ov ∨ (single = true ∧ err ≤ ov)) := by
  cases x with
  | error e => simp [okDeep] at h
  | ok ov =>
    refine ⟨ov, rfl, ?_⟩
    simp only [okDeep, Bool.or_eq_true, decide_eq_true_eq, Bool.and_eq_true] at h
    exact h

def pieceKeepB (input : List Scaffold) (err : Int) (p : Fragment) : Bool :=
  (lookupPiece input p).isSome && decide (p.tags = []) && decide (p.start ≤ p.stop) &&
  (decide ((pieceO input p).startOverhang ≤ err) || okGe (pieceO input p).startRowBaitOverlap err) &&
  (decide ((pieceO input p).endOverhang ≤ err) || okGe (pieceO input p).endRowBaitOverlap err)

theorem pieceKeep_of_check (input : List Scaffold) (err : Int) (p : Fragment) (h : pieceKeepB input err p = true) :
    PieceKeep input err p := by
  unfold pieceKeepB at h
  simp only [Bool.and_eq_true, decide_eq_true_eq, Bool.or_eq_true] at h
  obtain ⟨⟨⟨⟨h1, h2⟩, h3⟩, h4⟩, h5⟩ := h
  exact ⟨h1, h2, h3, h4.imp id okGe_spec, h5.imp id okGe_spec⟩

def scaffoldKeepB (input : List Scaffold) (err : Int) (S : Scaffold) : Bool :=
  headIsFrag S.rows && S.fragments.all (pieceKeepB input err) && decide (hapPrefixOfName (outName S) = none)

theorem scaffoldKeep_of_check (input : List Scaffold) (err : Int) (S : Scaffold) (h : scaffoldKeepB input err S = true) :
    ScaffoldKeep input err S := by
  unfold scaffoldKeepB at h
  simp only [Bool.and_eq_true, decide_eq_true_eq, List.all_eq_true] at h
  obtain ⟨⟨g1, g2⟩, g3⟩ := h
  refine ⟨?_, fun p hp => pieceKeep_of_check input err p (g2 p hp), g3⟩
  cases hr : S.rows with
  | nil => rw [hr] at g1; cases g1
  | cons a r =>
    cases a with
    | frag f => exact ⟨f, r, rfl⟩
    | gap g => rw [hr] at g1; cases g1

def siteOkB (input ptx : List Scaffold) (err : Int) (x : Site) : Bool :=
  decide (x.a ≠ x.b) && decide (x.a < (allPieces ptx).length) && decide (x.b < (allPieces ptx).length) &&
  decide ((pieceO input (pieceAt ptx x.a).2).rows.getLast? = some (.frag x.frag)) &&
  decide ((pieceO input (pieceAt ptx x.b).2).rows.head? = some (.frag x.frag)) &&
  decide ((pieceAt ptx x.a).2.stop + 1 = (pieceAt ptx x.b).2.start) &&
  decide ((pieceO input (pieceAt ptx x.a).2).stop - x.frag.length + 1 = (pieceO input (pieceAt ptx x.b).2).start) &&
  okDeep (pieceO input (pieceAt ptx x.a).2).endRowBaitOverlap err
    (decide ((pieceO input (pieceAt ptx x.a).2).rows.length = 1)) &&
  okDeep (pieceO input (pieceAt ptx x.b).2).startRowBaitOverlap err
    (decide ((pieceO input (pieceAt ptx x.b).2).rows.length = 1)) &&
  decide (x.frag.strand = 1 ∨ x.frag.strand = -1)

theorem siteOk_of_check (input ptx : List Scaffold) (err : Int) (x : Site) (h : siteOkB input ptx err x = true) :
    SiteOk input ptx err x := by
  unfold siteOkB at h
  simp only [Bool.and_eq_true, decide_eq_true_eq] at h
  obtain ⟨⟨⟨⟨⟨⟨⟨⟨⟨h1, h2⟩, h3⟩, h4⟩, h5⟩, h6⟩, h7⟩, h8⟩, h9⟩, h10⟩ := h
  obtain ⟨ova, ha, hda⟩ := okDeep_spec h8
  obtain ⟨ovb, hb, hdb⟩ := okDeep_spec h9
  exact ⟨h1, h2, h3, h4, h5, h6, h7, ⟨ova, ha, hda.imp id (fun h => ⟨by simpa using h.1, h.2⟩)⟩,
    ⟨ovb, hb, hdb.imp id (fun h => ⟨by simpa using h.1, h.2⟩)⟩, h10⟩

/-- the checker for `DeepCut` -/
def deepCutB (input ptx : List Scaffold) (err : Int) : Bool :=
  decide ((input.map (·.name)).Nodup) &&
  input.all (fun sc => sc.rows.all (fun r => decide (0 ≤ r.length))) &&
  input.all (fun sc => decide ((C18.ids sc.rows).Nodup)) &&
  decide (1 ≤ err) &&
  ptx.all (scaffoldKeepB input err) &&
  (sharedKeys input ptx).all (fun k => decide ((holdersOf input ptx k).length = 2)) &&
  (sites input ptx).all (siteOkB input ptx err) &&
  input.all (fun sc => sc.fragments.all (fun f =>
    (claimedKeys input ptx).contains f.keyTuple || (decide (f.tags = []) && decide (hapPrefixOfName f.name = none))))

theorem deepCut_of_check (input ptx : List Scaffold) (err : Int) (h : deepCutB input ptx err = true) :
    DeepCut input ptx err := by
  unfold deepCutB at h
  simp only [Bool.and_eq_true, decide_eq_true_eq, List.all_eq_true, Bool.or_eq_true] at h
  obtain ⟨⟨⟨⟨⟨⟨⟨h1, h2⟩, h3⟩, h4⟩, h5⟩, h6⟩, h7⟩, h8⟩ := h
  refine ⟨h1, h2, h3, h4, fun S hS => scaffoldKeep_of_check input err S (h5 S hS), ?_,
    fun x hx => siteOk_of_check input ptx err x (h7 x hx), ?_⟩
  · intro k hk
    have := h6 k hk
    match hh : holdersOf input ptx k, this with
    | [s, t], _ => exact ⟨s, t, rfl⟩
  · intro sc hsc f hf hc
    rcases h8 sc hsc f hf with h | h
    · rw [hc] at h; cases h
    · exact h

end AgpTpf.C02
