/-
  C04 helper: from the run list to `seqRegions` (no merges inside one buffer) and to scaffold rows.
-/
import AgpTpf.Proofs.C04Runs
namespace AgpTpf.C04
open AgpTpf

def castRuns (runs : List (Nat × Nat)) : List (Int × Int) := runs.map (fun r => ((r.1 : Int), (r.2 : Int)))

/-- the flush in `store_info`: `if region_end: seq_regions.append((region_start, region_end))` -/
def closeReg (σ : RegState) : List (Int × Int) :=
  match σ.2.1 with
  | some r => if r ≠ 0 then σ.2.2 ++ [(σ.1, r)] else σ.2.2
  | none => σ.2.2

theorem closeReg_foldl_open (hi : Nat) (runs : List (Nat × Nat)) : ∀ (lo : Nat) (rs re : Int) (regs : List (Int × Int)),
    RunsIn lo hi runs → re < lo → 0 < re →
    closeReg (runs.foldl (mergeRun 0) (rs, some re, regs)) = regs ++ (rs, re) :: castRuns runs := by
  induction runs with
  | nil => intro lo rs re regs _ _ h0; simp [closeReg, castRuns]; omega
  | cons r rest ih =>
    intro lo rs re regs h hlt h0
    obtain ⟨s, e⟩ := r
    obtain ⟨h1, h2, h3, h4⟩ := h
    have hne : ¬ (re = (s : Int)) := by omega
    have hre : re ≠ 0 := by omega
    simp only [List.foldl_cons, mergeRun, Int.zero_add, Option.some.injEq, hne, if_false, ne_eq, hre,
      not_false_eq_true, if_true]
    rw [ih (e + 1) _ _ _ h4 (by omega) (by omega)]
    simp [castRuns]

/-- one buffer holding the whole record: the regions are exactly the runs. -/
theorem closeReg_foldl_runs (lo hi : Nat) (runs : List (Nat × Nat)) (h : RunsIn lo hi runs) :
    closeReg (runs.foldl (mergeRun 0) (0, none, [])) = castRuns runs := by
  cases runs with
  | nil => simp [closeReg, castRuns]
  | cons r rest =>
    obtain ⟨s, e⟩ := r
    obtain ⟨h1, h2, h3, h4⟩ := h
    simp only [List.foldl_cons, mergeRun, Int.zero_add]
    simp only [reduceCtorEq, if_false]
    rw [closeReg_foldl_open hi rest (e + 1) _ _ _ h4 (by omega) (by omega)]
    simp [castRuns]

/-! ### rows -/

def gapRow (len : Int) : Row := Row.gap { length := len, gapType := Gen.fastaGapType }
def fragRow (oid : Nat) (name : Str) (s e : Int) : Row :=
  Row.frag { oid := oid, name := name, start := s + 1, stop := e, strand := 1, tags := [] }

/-- `store_info`'s row construction including the trailing gap. -/
def rowsOf (name : Str) : Nat → Int → List (Int × Int) → Int → List Row
  | _, prevEnd, [], total => if total - prevEnd ≠ 0 then [gapRow (total - prevEnd)] else []
  | oid, prevEnd, (s, e) :: rest, total =>
    (if s ≠ prevEnd then [gapRow (s - prevEnd)] else []) ++ fragRow oid name s e :: rowsOf name (oid + 1) e rest total

theorem regionRows_eq (name : Str) (total : Int) (regs : List (Int × Int)) : ∀ (oid : Nat) (prevEnd : Int),
    (regionRows name oid prevEnd regs).2.1 = oid + regs.length ∧
    (let rem := total - (regionRows name oid prevEnd regs).2.2
     (if rem ≠ 0 then (regionRows name oid prevEnd regs).1 ++ [gapRow rem] else (regionRows name oid prevEnd regs).1))
      = rowsOf name oid prevEnd regs total := by
  induction regs with
  | nil => intro oid prevEnd; simp only [regionRows, rowsOf, gapRow]; split <;> simp_all
  | cons r rest ih =>
    intro oid prevEnd
    obtain ⟨s, e⟩ := r
    obtain ⟨ih1, ih2⟩ := ih (oid + 1) e
    rcases hR : regionRows name (oid + 1) e rest with ⟨R, o, l⟩
    rw [hR] at ih1 ih2
    simp only at ih1 ih2
    simp only [regionRows, rowsOf, List.length_cons, hR]
    refine ⟨by rw [ih1]; omega, ?_⟩
    rw [← ih2]
    by_cases hrem : total - l = 0 <;> simp [hrem, gapRow, fragRow]

/-! ### what the rows look like -/

/-- rows laid out consecutively from offset `o`: a fragment is forced to be `name:(o+1)-stop`, forward, untagged,
    with the next fresh object id; a gap has positive length and type `scaffold`. -/
def Tiled (name : Str) : Nat → Int → List Row → Prop
  | _, _, [] => True
  | oid, o, .frag f :: rest =>
      f = { oid := oid, name := name, start := o + 1, stop := f.stop, strand := 1, tags := [] } ∧ f.start ≤ f.stop ∧
      Tiled name (oid + 1) f.stop rest
  | oid, o, .gap g :: rest => 0 < g.length ∧ g.gapType = Gen.fastaGapType ∧ Tiled name oid (o + g.length) rest

/-- no two neighbouring rows of the same kind (so every fragment / gap is a *maximal* run). -/
def Alternates : List Row → Prop
  | [] => True
  | [_] => True
  | a :: b :: r => a.isGap ≠ b.isGap ∧ Alternates (b :: r)

/-- kind of every position: `true` inside a fragment, `false` inside a gap. -/
def rowsMask : List Row → List Bool
  | [] => []
  | .frag f :: r => List.replicate (f.stop - f.start + 1).toNat true ++ rowsMask r
  | .gap g :: r => List.replicate g.length.toNat false ++ rowsMask r

theorem rowsLength_cons (r : Row) (rs : List Row) : rowsLength (r :: rs) = r.length + rowsLength rs := by
  simp [rowsLength, sumInts]

theorem rowsLength_rowsOf (name : Str) (total : Int) (regs : List (Int × Int)) : ∀ (oid : Nat) (prevEnd : Int),
    rowsLength (rowsOf name oid prevEnd regs total) = total - prevEnd := by
  induction regs with
  | nil =>
    intro oid prevEnd
    simp only [rowsOf]
    split
    · simp [rowsLength, sumInts, gapRow, Row.length]
    · simp [rowsLength, sumInts]; omega
  | cons r rest ih =>
    intro oid prevEnd
    obtain ⟨s, e⟩ := r
    simp only [rowsOf]
    split
    · simp only [List.cons_append, List.nil_append, rowsLength_cons, ih]
      simp [gapRow, fragRow, Row.length, Fragment.length]; omega
    · simp only [List.nil_append, rowsLength_cons, ih]
      simp [fragRow, Row.length, Fragment.length]; omega

theorem tiled_rowsOf (name : Str) (hi : Nat) (runs : List (Nat × Nat)) : ∀ (lo oid : Nat) (prevEnd : Int),
    RunsIn lo hi runs → prevEnd ≤ lo → prevEnd ≤ hi →
    Tiled name oid prevEnd (rowsOf name oid prevEnd (castRuns runs) hi) := by
  induction runs with
  | nil =>
    intro lo oid prevEnd _ _ h2
    simp only [castRuns, List.map_nil, rowsOf]
    split
    · simp only [gapRow, Tiled]; exact ⟨by omega, trivial, trivial⟩
    · trivial
  | cons r rest ih =>
    intro lo oid prevEnd h h1 h2
    obtain ⟨s, e⟩ := r
    obtain ⟨g1, g2, g3, g4⟩ := h
    have ih' := ih (e + 1) (oid + 1) (e : Int) g4 (by omega) (by omega)
    simp only [castRuns, List.map_cons, rowsOf]
    split
    · simp only [List.cons_append, List.nil_append, gapRow, fragRow, Tiled]
      refine ⟨by omega, trivial, ?_, by omega, ih'⟩
      congr 1; omega
    · rename_i hs
      simp only [List.nil_append, fragRow, Tiled]
      refine ⟨?_, by omega, ih'⟩
      congr 1; omega

theorem alternates_rowsOf (name : Str) (hi : Nat) (runs : List (Nat × Nat)) : ∀ (lo oid : Nat) (prevEnd : Int),
    RunsIn lo hi runs → prevEnd ≤ lo →
    Alternates (rowsOf name oid prevEnd (castRuns runs) hi) ∧
    (prevEnd < lo → ∀ r, (rowsOf name oid prevEnd (castRuns runs) hi).head? = some r → r.isGap = true) := by
  induction runs with
  | nil =>
    intro lo oid prevEnd _ _
    simp only [castRuns, List.map_nil, rowsOf]
    split
    · simp [Alternates, gapRow, Row.isGap]
    · simp [Alternates]
  | cons r rest ih =>
    intro lo oid prevEnd h h1
    obtain ⟨s, e⟩ := r
    obtain ⟨g1, g2, g3, g4⟩ := h
    obtain ⟨ih1, ih2⟩ := ih (e + 1) (oid + 1) (e : Int) g4 (by omega)
    have ih2' := ih2 (by omega)
    simp only [castRuns, List.map_cons, rowsOf]
    have hfrag : Alternates (fragRow oid name s e :: rowsOf name (oid + 1) e (castRuns rest) hi) := by
      cases hrows : rowsOf name (oid + 1) e (castRuns rest) hi with
      | nil => trivial
      | cons b bs =>
        rw [hrows] at ih1 ih2'
        have := ih2' b (by simp)
        exact ⟨by rw [this]; simp [fragRow, Row.isGap], ih1⟩
    split
    · refine ⟨?_, ?_⟩
      · exact ⟨by simp [gapRow, fragRow, Row.isGap], hfrag⟩
      · intro _ r hr; simp at hr; subst hr; rfl
    · rename_i hs
      refine ⟨hfrag, ?_⟩
      intro hlt; exfalso; apply hs; omega

theorem fragmentsOf_rowsOf (name : Str) (total : Int) (regs : List (Int × Int)) : ∀ (oid : Nat) (prevEnd : Int),
    (fragmentsOf (rowsOf name oid prevEnd regs total)).map (fun f => (f.start, f.stop)) =
      regs.map (fun r => (r.1 + 1, r.2)) := by
  induction regs with
  | nil => intro oid prevEnd; simp only [rowsOf]; split <;> simp [fragmentsOf, gapRow]
  | cons r rest ih =>
    intro oid prevEnd
    obtain ⟨s, e⟩ := r
    simp only [rowsOf]
    split <;> simp [fragmentsOf, gapRow, fragRow, ih]

theorem replicate_snoc {α} (n : Nat) (a : α) (l : List α) :
    List.replicate n a ++ a :: l = List.replicate (n + 1) a ++ l := by
  induction n with
  | zero => rfl
  | succ n ih => simp only [List.replicate_succ, List.cons_append, ih]

theorem rowsMask_gap_cons (len : Int) (rs : List Row) :
    rowsMask (gapRow len :: rs) = List.replicate len.toNat false ++ rowsMask rs := rfl
theorem rowsMask_frag_cons (oid : Nat) (name : Str) (s e : Int) (rs : List Row) :
    rowsMask (fragRow oid name s e :: rs) = List.replicate (e - (s + 1) + 1).toNat true ++ rowsMask rs := rfl

theorem rowsMask_runs (name : Str) (bs : Bytes) : ∀ (pos : Nat) (cur : Option Nat) (oid prevEnd : Nat),
    match cur with
    | none => prevEnd ≤ pos →
        rowsMask (rowsOf name oid prevEnd (castRuns (acgtRuns pos none bs)) ((pos + bs.length : Nat) : Int)) =
          List.replicate (pos - prevEnd) false ++ bs.map isACGT
    | some st => prevEnd ≤ st → st ≤ pos →
        rowsMask (rowsOf name oid prevEnd (castRuns (acgtRuns pos (some st) bs)) ((pos + bs.length : Nat) : Int)) =
          List.replicate (st - prevEnd) false ++ (List.replicate (pos - st) true ++ bs.map isACGT) := by
  induction bs with
  | nil =>
    intro pos cur oid prevEnd
    cases cur with
    | none =>
      intro h
      simp only [acgtRuns_nil_none, castRuns, List.map_nil, rowsOf, List.length_nil, Nat.add_zero, List.append_nil]
      split
      · rw [rowsMask_gap_cons]; simp [rowsMask]
      · rename_i h0
        have : pos - prevEnd = 0 := by omega
        simp [this, rowsMask]
    | some st =>
      intro h1 h2
      simp only [acgtRuns_nil_some, castRuns, List.map_cons, List.map_nil, rowsOf, List.length_nil, Nat.add_zero,
        List.append_nil]
      have hz : ¬ ((pos : Int) - (pos : Int) ≠ 0) := by omega
      simp only [hz, if_false]
      have hfr : ((pos : Int) - ((st : Int) + 1) + 1).toNat = pos - st := by omega
      split
      · rw [List.cons_append, List.nil_append, rowsMask_gap_cons, rowsMask_frag_cons, hfr]
        have : ((st : Int) - (prevEnd : Int)).toNat = st - prevEnd := by omega
        simp [this, rowsMask]
      · rename_i h0
        have : st - prevEnd = 0 := by omega
        rw [List.nil_append, rowsMask_frag_cons, hfr]
        simp [this, rowsMask]
  | cons b bs ih =>
    intro pos cur oid prevEnd
    have hlen : ((pos + (b :: bs).length : Nat) : Int) = ((pos + 1 + bs.length : Nat) : Int) := by
      simp only [List.length_cons]; omega
    rw [hlen]
    cases hb : isACGT b with
    | true =>
      cases cur with
      | none =>
        intro h
        simp only [acgtRuns_cons_acgt_none _ _ _ hb, List.map_cons, hb]
        have := ih (pos + 1) (some pos) oid prevEnd
        simp only at this
        rw [this h (by omega)]
        have : pos + 1 - pos = 1 := by omega
        simp [this]
      | some st =>
        intro h1 h2
        simp only [acgtRuns_cons_acgt_some _ _ _ _ hb, List.map_cons, hb]
        have := ih (pos + 1) (some st) oid prevEnd
        simp only at this
        rw [this h1 (by omega)]
        have : pos + 1 - st = (pos - st) + 1 := by omega
        rw [this, replicate_snoc]
    | false =>
      cases cur with
      | none =>
        intro h
        simp only [acgtRuns_cons_other_none _ _ _ hb, List.map_cons, hb]
        have := ih (pos + 1) none oid prevEnd
        simp only at this
        rw [this (by omega)]
        have : pos + 1 - prevEnd = (pos - prevEnd) + 1 := by omega
        rw [this, replicate_snoc]
      | some st =>
        intro h1 h2
        simp only [acgtRuns_cons_other_some _ _ _ _ hb, List.map_cons, hb, castRuns, rowsOf]
        have := ih (pos + 1) none (oid + 1) pos
        simp only [castRuns] at this
        have hfr : ((pos : Int) - ((st : Int) + 1) + 1).toNat = pos - st := by omega
        have h11 : pos + 1 - pos = 1 := by omega
        split
        · rw [List.cons_append, List.nil_append, rowsMask_gap_cons, rowsMask_frag_cons, hfr, this (by omega), h11]
          have : ((st : Int) - (prevEnd : Int)).toNat = st - prevEnd := by omega
          simp [this]
        · rename_i h0
          have h00 : st - prevEnd = 0 := by omega
          rw [List.nil_append, rowsMask_frag_cons, hfr, this (by omega), h11, h00]
          simp

/-! ### the scaffold of one record, as a function of its residues only -/

def runsOf (res : Bytes) : List (Nat × Nat) := acgtRuns 0 none res
def specRegions (res : Bytes) : List (Int × Int) := castRuns (runsOf res)
def specRows (name : Str) (oid : Nat) (res : Bytes) : List Row :=
  rowsOf name oid 0 (specRegions res) res.length

theorem runsOf_runsIn (res : Bytes) : RunsIn 0 res.length (runsOf res) := by
  have := acgtRuns_shape res 0 none
  simpa [runsOf] using this

theorem specRows_length (name : Str) (oid : Nat) (res : Bytes) :
    rowsLength (specRows name oid res) = res.length := by
  simp [specRows, rowsLength_rowsOf]

theorem specRows_mask (name : Str) (oid : Nat) (res : Bytes) :
    rowsMask (specRows name oid res) = res.map isACGT := by
  have := rowsMask_runs name res 0 none oid 0
  simp only [Nat.zero_add, Nat.le_refl, Nat.sub_self, List.replicate_zero, List.nil_append, forall_const] at this
  exact this

theorem specRows_tiled (name : Str) (oid : Nat) (res : Bytes) : Tiled name oid 0 (specRows name oid res) :=
  tiled_rowsOf name res.length (runsOf res) 0 oid 0 (runsOf_runsIn res) (by simp) (by omega)

theorem specRows_alternates (name : Str) (oid : Nat) (res : Bytes) : Alternates (specRows name oid res) :=
  (alternates_rowsOf name res.length (runsOf res) 0 oid 0 (runsOf_runsIn res) (by simp)).1

theorem specRows_fragments (name : Str) (oid : Nat) (res : Bytes) :
    (fragmentsOf (specRows name oid res)).map (fun f => (f.start, f.stop)) =
      (runsOf res).map (fun r => ((r.1 : Int) + 1, (r.2 : Int))) := by
  simp [specRows, fragmentsOf_rowsOf, specRegions, castRuns]

end AgpTpf.C04
