/-
  C02 core (task W6-C02CORE), helper part 2 — K1 at the level of one `OverlapResult`:
  the invariant `KInv` (C18 invariant + "every contig base of the lookup span that lies in the core
  `[bait.start + M, bait.stop − M]` is still inside `[start, stop]`" + "the result ends on a row boundary of the source
  scaffold or exactly at the bait coordinate") is kept by every operation applied under its guard.
-/
import AgpTpf.Proofs.C02KPos
import AgpTpf.Proofs.C02Trim
import AgpTpf.Properties.C18
namespace AgpTpf.C02
open AgpTpf OverlapResult
open AgpTpf.C18 (Inv Content Short ids rowsLength_nil rowsLength_cons rowsLength_append rowsLength_singleton)
open AgpTpf.C01 (AllGaps)

/-! ### the invariant -/

/-- every contig base `x` of the source scaffold inside the span `[s0, e0]` (the span of the fresh lookup result) that
    lies in the core `[bait.start + M, bait.stop − M]` of the piece is inside the current span of the result -/
def CoreKept (src : List Row) (M s0 e0 : Int) (o : OverlapResult) : Prop :=
  ∀ x, s0 ≤ x → x ≤ e0 → ContigAt src x → o.bait.start + M ≤ x → x ≤ o.bait.stop - M → o.start ≤ x ∧ x ≤ o.stop

/-- the result is empty, or each of its two ends is a row boundary of the source scaffold (terminal row not shortened)
    or lies exactly at the bait coordinate (terminal row cut by `trim_fragment`) -/
def EdgeOK (src : List Row) (o : OverlapResult) : Prop :=
  o.rows = [] ∨ ((Boundary src (o.start - 1) ∨ o.start = o.bait.start) ∧ (Boundary src o.stop ∨ o.stop = o.bait.stop))

structure KInv (src : List Row) (M s0 e0 : Int) (p : Fragment) (o : OverlapResult) : Prop where
  inv : Inv src o
  bait : o.bait = p
  core : CoreKept src M s0 e0 o
  edge : EdgeOK src o

theorem CoreKept.step {src : List Row} {M s0 e0 : Int} {o o' : OverlapResult} (hk : CoreKept src M s0 e0 o)
    (hb : o'.bait = o.bait)
    (hl : ∀ x, o.start ≤ x → x < o'.start → ContigAt src x → o.bait.start + M ≤ x → x ≤ o.bait.stop - M → False)
    (hr : ∀ x, o'.stop < x → x ≤ o.stop → ContigAt src x → o.bait.start + M ≤ x → x ≤ o.bait.stop - M → False) :
    CoreKept src M s0 e0 o' := by
  intro x h1 h2 hc h3 h4
  rw [hb] at h3 h4
  obtain ⟨h5, h6⟩ := hk x h1 h2 hc h3 h4
  constructor
  · by_cases hx : x < o'.start
    · exact (hl x h5 hx hc h3 h4).elim
    · omega
  · by_cases hx : o'.stop < x
    · exact (hr x hx h6 hc h3 h4).elim
    · omega

/-! ### the fresh lookup result -/

theorem kinv_lookup {src : List Row} {bait : Fragment} {o : OverlapResult} (M : Int) (hd : (ids src).Nodup)
    (h : findOverlaps src bait = .ok (some o)) : KInv src M o.start o.stop bait o := by
  obtain ⟨i, j, _, _, _, _, _, hst, hen, hb⟩ := C18.findOverlaps_spec h
  refine ⟨C18.inv_lookup' hd h, hb, fun x h1 h2 _ _ _ => ⟨h1, h2⟩, Or.inr ⟨Or.inl ?_, Or.inl ?_⟩⟩
  · exact ⟨src.take i, src.drop i, (List.take_append_drop i src).symm, by omega⟩
  · exact ⟨src.take (j + 1), src.drop (j + 1), (List.take_append_drop (j + 1) src).symm, hen⟩

/-! ### `discard_start` -/

/-- `discard_start` keeps the core if EITHER the new start still lies before the core (guard (b), `improves`) OR no
    position of the discarded first row lies in the core (guard (a), see `startA_row_outside`); the gap rows stripped
    behind the discarded row are not contig bases -/
theorem coreKept_discardStart {src : List Row} {M s0 e0 : Int} {o o' : OverlapResult} (hlen : NonNeg src)
    (hI : Inv src o) (hk : CoreKept src M s0 e0 o) (h : discardStart o = .ok o')
    (hg : o'.start ≤ o.bait.start + M ∨
      ∃ d t, o.rows = d :: t ∧ ∀ x, o.start ≤ x → x < o.start + d.length → o.bait.start + M ≤ x → x ≤ o.bait.stop - M → False) :
    CoreKept src M s0 e0 o' := by
  obtain ⟨d, G, hrows, hG, hst, hen, hb, hgeo⟩ := discardStart_geom hI h
  refine hk.step hb ?_ ?_
  · intro x h1 h2 hc h3 h4
    rcases hg with hg | ⟨d', t, hr', hout⟩
    · omega
    · rw [hrows] at hr'
      simp only [List.cons.injEq] at hr'
      obtain ⟨rfl, _⟩ := hr'
      by_cases hx : x < o.start + d.length
      · exact hout x h1 hx h3 h4
      · rcases hgeo with ⟨_, rfl⟩ | ⟨X, Y, hs, hX⟩
        · rw [rowsLength_nil] at hst; omega
        · exact not_contigAt_gap_run hs hlen hG (by omega) (by omega) hc
  · intro x h1 h2; omega

theorem edgeOK_discardStart {src : List Row} {o o' : OverlapResult} (hI : Inv src o) (he : EdgeOK src o)
    (h : discardStart o = .ok o') : EdgeOK src o' := by
  obtain ⟨d, G, hrows, hG, hst, hen, hb, hgeo⟩ := discardStart_geom hI h
  rcases hgeo with ⟨h0, _⟩ | ⟨X, Y, hs, hX⟩
  · exact Or.inl h0
  · right
    constructor
    · left
      exact ⟨X ++ G, Y, hs, by rw [rowsLength_append]; omega⟩
    · rcases he with he | ⟨_, he⟩
      · rw [hrows] at he; cases he
      · rw [hen, hb]; exact he

/-- guard (a) at the start: the first row shares fewer than `err` bases with the bait and is not wholly inside the bait
    ⇒ none of its positions lies in the core (margin `3·err`, `err ≥ 0`) -/
theorem startA_row_outside {o : OverlapResult} {err ov : Int} {r : Row} {t : List Row} (herr : 0 ≤ err)
    (hr : o.rows = r :: t) (hov : startRowBaitOverlap o = .ok ov) (hlt : ov < err)
    (hout : o.start < o.bait.start ∨ o.bait.stop < o.start + r.length - 1) :
    ∀ x, o.start ≤ x → x < o.start + r.length → o.bait.start + 3 * err ≤ x → x ≤ o.bait.stop - 3 * err → False := by
  intro x h1 h2 h3 h4
  rw [C18.startRowBaitOverlap_ok hr] at hov
  simp only [Except.ok.injEq] at hov
  omega

theorem kinv_startA {src : List Row} {s0 e0 err ov : Int} {p : Fragment} {o o' : OverlapResult} {r : Row} {t : List Row}
    (hlen : NonNeg src) (herr : 0 ≤ err) (hk : KInv src (3 * err) s0 e0 p o)
    (hr : o.rows = r :: t) (hov : startRowBaitOverlap o = .ok ov) (hlt : ov < err)
    (hout : o.start < o.bait.start ∨ o.bait.stop < o.start + r.length - 1)
    (h : discardStart o = .ok o') : KInv src (3 * err) s0 e0 p o' := by
  obtain ⟨_, _, _, _, _, _, hb⟩ := discardStart_full h
  exact ⟨C18.inv_discardStart hk.inv h, hb.trans hk.bait,
    coreKept_discardStart hlen hk.inv hk.core h (Or.inr ⟨r, t, hr, startA_row_outside herr hr hov hlt hout⟩),
    edgeOK_discardStart hk.inv hk.edge h⟩

theorem kinv_startB {src : List Row} {s0 e0 err a : Int} {p : Fragment} {o o' : OverlapResult}
    (hlen : NonNeg src) (hk : KInv src (3 * err) s0 e0 p o)
    (ha : overhangIfStartRemoved o = .ok a) (hgt : a > -3 * err)
    (h : discardStart o = .ok o') : KInv src (3 * err) s0 e0 p o' := by
  obtain ⟨_, _, _, _, _, _, hb⟩ := discardStart_full h
  obtain ⟨o'', h'', hx⟩ := C18.overhangIfStartRemoved_eq ha
  rw [h] at h''; cases h''
  refine ⟨C18.inv_discardStart hk.inv h, hb.trans hk.bait,
    coreKept_discardStart hlen hk.inv hk.core h (Or.inl ?_), edgeOK_discardStart hk.inv hk.edge h⟩
  simp only [startOverhang, hb] at hx
  omega

/-! ### `discard_end` -/

theorem coreKept_discardEnd {src : List Row} {M s0 e0 : Int} {o o' : OverlapResult} (hlen : NonNeg src)
    (hI : Inv src o) (hk : CoreKept src M s0 e0 o) (h : discardEnd o = .ok o')
    (hg : o.bait.stop - M ≤ o'.stop ∨
      ∃ d t, o.rows = t ++ [d] ∧ ∀ x, o.stop - d.length < x → x ≤ o.stop → o.bait.start + M ≤ x → x ≤ o.bait.stop - M → False) :
    CoreKept src M s0 e0 o' := by
  obtain ⟨d, G, hrows, hG, hen, hst, hb, hgeo⟩ := discardEnd_geom hI h
  refine hk.step hb ?_ ?_
  · intro x h1 h2; omega
  · intro x h1 h2 hc h3 h4
    rcases hg with hg | ⟨d', t, hr', hout⟩
    · omega
    · rw [hrows] at hr'
      have := List.append_inj' hr' rfl
      simp only [List.cons.injEq, and_true] at this
      obtain ⟨_, rfl⟩ := this
      by_cases hx : o.stop - d.length < x
      · exact hout x hx h2 h3 h4
      · rcases hgeo with ⟨_, rfl⟩ | ⟨X, Y, hs, hX⟩
        · rw [rowsLength_nil] at hen; omega
        · exact not_contigAt_gap_run hs hlen hG (by omega) (by omega) hc

theorem edgeOK_discardEnd {src : List Row} {o o' : OverlapResult} (hI : Inv src o) (he : EdgeOK src o)
    (h : discardEnd o = .ok o') : EdgeOK src o' := by
  obtain ⟨d, G, hrows, hG, hen, hst, hb, hgeo⟩ := discardEnd_geom hI h
  rcases hgeo with ⟨h0, _⟩ | ⟨X, Y, hs, hX⟩
  · exact Or.inl h0
  · right
    constructor
    · rcases he with he | ⟨he, _⟩
      · rw [hrows] at he; simp at he
      · rw [hst, hb]; exact he
    · left
      exact ⟨X, G ++ Y, by rw [hs, List.append_assoc], by omega⟩

theorem endA_row_outside {o : OverlapResult} {err ov : Int} {r : Row} {t : List Row} (herr : 0 ≤ err)
    (hr : o.rows = t ++ [r]) (hov : endRowBaitOverlap o = .ok ov) (hlt : ov < err)
    (hout : o.stop - r.length + 1 < o.bait.start ∨ o.bait.stop < o.stop) :
    ∀ x, o.stop - r.length < x → x ≤ o.stop → o.bait.start + 3 * err ≤ x → x ≤ o.bait.stop - 3 * err → False := by
  intro x h1 h2 h3 h4
  rw [C18.endRowBaitOverlap_ok hr] at hov
  simp only [Except.ok.injEq] at hov
  omega

theorem kinv_endA {src : List Row} {s0 e0 err ov : Int} {p : Fragment} {o o' : OverlapResult} {r : Row} {t : List Row}
    (hlen : NonNeg src) (herr : 0 ≤ err) (hk : KInv src (3 * err) s0 e0 p o)
    (hr : o.rows = t ++ [r]) (hov : endRowBaitOverlap o = .ok ov) (hlt : ov < err)
    (hout : o.stop - r.length + 1 < o.bait.start ∨ o.bait.stop < o.stop)
    (h : discardEnd o = .ok o') : KInv src (3 * err) s0 e0 p o' := by
  obtain ⟨_, _, _, _, _, _, hb⟩ := discardEnd_full h
  exact ⟨C18.inv_discardEnd hk.inv h, hb.trans hk.bait,
    coreKept_discardEnd hlen hk.inv hk.core h (Or.inr ⟨r, t, hr, endA_row_outside herr hr hov hlt hout⟩),
    edgeOK_discardEnd hk.inv hk.edge h⟩

theorem kinv_endB {src : List Row} {s0 e0 err a : Int} {p : Fragment} {o o' : OverlapResult}
    (hlen : NonNeg src) (hk : KInv src (3 * err) s0 e0 p o)
    (ha : overhangIfEndRemoved o = .ok a) (hgt : a > -3 * err)
    (h : discardEnd o = .ok o') : KInv src (3 * err) s0 e0 p o' := by
  obtain ⟨_, _, _, _, _, _, hb⟩ := discardEnd_full h
  obtain ⟨o'', h'', hx⟩ := C18.overhangIfEndRemoved_eq ha
  rw [h] at h''; cases h''
  refine ⟨C18.inv_discardEnd hk.inv h, hb.trans hk.bait,
    coreKept_discardEnd hlen hk.inv hk.core h (Or.inl ?_), edgeOK_discardEnd hk.inv hk.edge h⟩
  simp only [endOverhang, hb] at hx
  omega

/-! ### `trim_large_overhangs` -/

theorem kinv_trimLarge {src : List Row} {s0 e0 err : Int} {p : Fragment} {o o' : OverlapResult}
    (hlen : NonNeg src) (herr : 0 ≤ err) (hk : KInv src (3 * err) s0 e0 p o)
    (h : trimLargeOverhangs o err = .ok o') : KInv src (3 * err) s0 e0 p o' := by
  have hstart : ∀ {o o1 : OverlapResult}, KInv src (3 * err) s0 e0 p o → StartGuard o err → discardStart o = .ok o1 →
      KInv src (3 * err) s0 e0 p o1 := by
    intro o o1 hk ⟨hov, ov, hv, hlt⟩ hd
    obtain ⟨d, G, hrows, _⟩ := discardStart_full hd
    refine kinv_startA hlen herr hk hrows hv hlt (Or.inl ?_) hd
    simp only [startOverhang] at hov; omega
  have hend : ∀ {o o1 : OverlapResult}, KInv src (3 * err) s0 e0 p o → EndGuard o err → discardEnd o = .ok o1 →
      KInv src (3 * err) s0 e0 p o1 := by
    intro o o1 hk ⟨hov, ov, hv, hlt⟩ hd
    obtain ⟨d, G, hrows, _⟩ := discardEnd_full hd
    refine kinv_endA hlen herr hk (t := _) (by rw [hrows]) hv hlt (Or.inr ?_) hd
    simp only [endOverhang] at hov; omega
  rcases trimLarge_char h with ⟨_, rfl⟩ | ⟨_, o1, h1, h2⟩
  · exact hk
  · have hk1 : KInv src (3 * err) s0 e0 p o1 := by
      rcases h1 with ⟨hg, hd⟩ | ⟨_, rfl⟩
      · exact hstart hk hg hd
      · exact hk
    rcases h2 with ⟨_, _, rfl⟩ | ⟨_, h3⟩
    · exact hk1
    · rcases h3 with ⟨hg, hd⟩ | ⟨_, rfl⟩
      · exact hend hk1 hg hd
      · exact hk1

/-! ### `trim_fragment` -/

/-- `trim_fragment` moves `start` to the bait's start (or leaves it) and `stop` to the bait's stop (or leaves it):
    the core position facts need nothing about which row is trimmed -/
theorem trimFragment_ends {o o' : OverlapResult} {f new : Fragment} {ks ke : Bool} {oid : Nat}
    (h : trimFragment o f ks ke oid = .ok (o', new)) :
    o'.bait = o.bait ∧ (o'.start = o.start ∨ (o.start < o.bait.start ∧ o'.start = o.bait.start)) ∧
    (o'.stop = o.stop ∨ (o.bait.stop < o.stop ∧ o'.stop = o.bait.stop)) := by
  have hne : o.rows ≠ [] := by
    intro he; rw [C18.trimFragment_empty f ks ke oid he] at h; cases h
  obtain ⟨a, ha⟩ := firstIs_ok_of_ne f hne
  obtain ⟨b, hb⟩ := lastIs_ok_of_ne f hne
  obtain ⟨d1, d2, hd1, hd2, _, hst, hen, hbait, _⟩ := C18.trimFragment_spec ha hb h
  refine ⟨hbait, ?_, ?_⟩
  · rw [hst, hd1]
    split
    · next hc => right; simp only [startOverhang] at hc ⊢; omega
    · left; omega
  · rw [hen, hd2]
    split
    · next hc => right; simp only [endOverhang] at hc ⊢; omega
    · left; omega

theorem coreKept_trimFragment {src : List Row} {M s0 e0 : Int} {o o' : OverlapResult} {f new : Fragment} {ks ke : Bool}
    {oid : Nat} (hM : 0 ≤ M) (hk : CoreKept src M s0 e0 o) (h : trimFragment o f ks ke oid = .ok (o', new)) :
    CoreKept src M s0 e0 o' := by
  obtain ⟨hb, h1, h2⟩ := trimFragment_ends h
  refine hk.step hb ?_ ?_
  · intro x _ hx _ h3 _; omega
  · intro x hx _ _ _ h4; omega

theorem edgeOK_trimFragment {src : List Row} {o o' : OverlapResult} {f new : Fragment} {ks ke : Bool}
    {oid : Nat} (he : EdgeOK src o) (h : trimFragment o f ks ke oid = .ok (o', new)) : EdgeOK src o' := by
  obtain ⟨hb, h1, h2⟩ := trimFragment_ends h
  have hne : o.rows ≠ [] := by
    intro he; rw [C18.trimFragment_empty f ks ke oid he] at h; cases h
  rcases he with he | ⟨e1, e2⟩
  · exact absurd he hne
  · right
    constructor
    · rcases h1 with h1 | ⟨_, h1⟩
      · rw [h1, hb]; exact e1
      · right; rw [h1, hb]
    · rcases h2 with h2 | ⟨_, h2⟩
      · rw [h2, hb]; exact e2
      · right; rw [h2, hb]

theorem kinv_trimFragment {src : List Row} {M s0 e0 : Int} {p : Fragment} {o o' : OverlapResult} {f new : Fragment}
    {ks ke : Bool} {oid : Nat} (hM : 0 ≤ M) (hk : KInv src M s0 e0 p o)
    (hr : (∃ t, o.rows = .frag f :: t) ∨ (∃ t, o.rows = t ++ [.frag f])) (hfresh : oid ∉ ids o.rows)
    (h : trimFragment o f ks ke oid = .ok (o', new)) : KInv src M s0 e0 p o' := by
  refine ⟨?_, (trimFragment_ends h).1.trans hk.bait, coreKept_trimFragment hM hk.core h, edgeOK_trimFragment hk.edge h⟩
  rcases hr with ⟨t, hr⟩ | ⟨t, hr⟩
  · exact C18.inv_trimFragment_first hk.inv hr hfresh h
  · exact C18.inv_trimFragment_last hk.inv hr hfresh h

/-! ### guarded steps and runs -/

/-- one operation on an `OverlapResult`, applied under the guard the pipeline applies it under:
    * `trim_large_overhangs(err)` (its own guards are inside);
    * `discard_start` / `discard_end` under guard (a) — the sub-texel rule: the terminal row shares `< err` bases with the
      bait — for a terminal row that is not wholly inside the bait (in the pipeline: a contig shared with another piece
      whose bait is disjoint), or under guard (b) — `improves`: the what-if overhang is `> −3·err`;
    * `trim_fragment` of the first or last row (new object id fresh). -/
inductive GStep (err : Int) : OverlapResult → OverlapResult → Prop
  | trimLarge {o o'} : trimLargeOverhangs o err = .ok o' → GStep err o o'
  | startA {o o' ov r t} : o.rows = r :: t → startRowBaitOverlap o = .ok ov → ov < err →
      (o.start < o.bait.start ∨ o.bait.stop < o.start + r.length - 1) → discardStart o = .ok o' → GStep err o o'
  | startB {o o' a} : overhangIfStartRemoved o = .ok a → a > -3 * err → discardStart o = .ok o' → GStep err o o'
  | endA {o o' ov r t} : o.rows = t ++ [r] → endRowBaitOverlap o = .ok ov → ov < err →
      (o.stop - r.length + 1 < o.bait.start ∨ o.bait.stop < o.stop) → discardEnd o = .ok o' → GStep err o o'
  | endB {o o' a} : overhangIfEndRemoved o = .ok a → a > -3 * err → discardEnd o = .ok o' → GStep err o o'
  | trim {o o' f new ks ke oid} : ((∃ t, o.rows = .frag f :: t) ∨ (∃ t, o.rows = t ++ [.frag f])) → oid ∉ ids o.rows →
      trimFragment o f ks ke oid = .ok (o', new) → GStep err o o'

/-- any finite sequence of guarded steps -/
inductive GRun (err : Int) : OverlapResult → OverlapResult → Prop
  | refl {o} : GRun err o o
  | step {o o1 o2} : GRun err o o1 → GStep err o1 o2 → GRun err o o2

theorem kinv_step {src : List Row} {s0 e0 err : Int} {p : Fragment} {o o' : OverlapResult}
    (hlen : NonNeg src) (herr : 0 ≤ err) (hk : KInv src (3 * err) s0 e0 p o) (h : GStep err o o') :
    KInv src (3 * err) s0 e0 p o' := by
  cases h with
  | trimLarge h => exact kinv_trimLarge hlen herr hk h
  | startA hr hov hlt hout h => exact kinv_startA hlen herr hk hr hov hlt hout h
  | startB ha hgt h => exact kinv_startB hlen hk ha hgt h
  | endA hr hov hlt hout h => exact kinv_endA hlen herr hk hr hov hlt hout h
  | endB ha hgt h => exact kinv_endB hlen hk ha hgt h
  | trim hr hf h => exact kinv_trimFragment (by omega) hk hr hf h

theorem kinv_run {src : List Row} {s0 e0 err : Int} {p : Fragment} {o o' : OverlapResult}
    (hlen : NonNeg src) (herr : 0 ≤ err) (hk : KInv src (3 * err) s0 e0 p o) (h : GRun err o o') :
    KInv src (3 * err) s0 e0 p o' := by
  induction h with
  | refl => exact hk
  | step _ hs ih => exact kinv_step hlen herr ih hs

end AgpTpf.C02
