/-
  C10, chromosome numbering with several haplotypes, part 2: `ChrNamer.build_groups` with `other_haplotypes` non-empty
  cuts `ChrNamer.scaffolds` into segments (`segments`, rule `startsNew`) and returns one `segGroup` per segment.
-/
import AgpTpf.Model.Remap
import AgpTpf.Proofs.C09Dict
import AgpTpf.Proofs.C10GroupsBuild
import AgpTpf.Proofs.C10MultiDict
namespace AgpTpf.C10
open AgpTpf Dict

/-- `original_tags` of a fused scaffold contain `Singleton` -/
def isSingletonSc (fs : List Scaffold) (sid : Nat) : Bool :=
  (((fs.getD sid default).originalTags).getD []).contains sSingleton

/-- **the cut rule of `build_groups`** (`other_haplotypes` non-empty): does a new group start before `e`, `seg` being
    the entries already in the current group?  With `l` the previous entry:
      (i)  `e` is of another haplotype than `l`, and the current group already has an entry of `e`'s haplotype;
      (ii) `e` is of the same haplotype as `l`, has another Pretext name, and the FIRST scaffold the current group
           holds under (`l`'s haplotype, `l`'s Pretext name) carries the `Singleton` tag. -/
def startsNew (fs : List Scaffold) (seg : List Entry) (e : Entry) : Bool :=
  match seg.getLast? with
  | none => false
  | some l =>
    if e.1 ≠ l.1 then seg.any (fun x => decide (x.1 = e.1))
    else if origOf fs e.2 ≠ origOf fs l.2 then
      match (idsOf fs l.1 (origOf fs l.2) seg).head? with
      | some first => isSingletonSc fs first
      | none => false
    else false

/-- the segments: `seg` is the (already scanned) current segment, the second argument what is still to come -/
def segmentsAux (fs : List Scaffold) : List Entry → List Entry → List (List Entry)
  | seg, [] => [seg]
  | seg, e :: r => if startsNew fs seg e then seg :: segmentsAux fs [e] r else segmentsAux fs (seg ++ [e]) r

/-- decomposition of `ChrNamer.scaffolds` into the entry lists of the groups -/
def segments (fs : List Scaffold) (entries : List Entry) : List (List Entry) := segmentsAux fs [] entries

/-- **the groups `build_groups` builds** (`other_haplotypes` non-empty) -/
def groupsSpec (fs : List Scaffold) (haps : List Str) (entries : List Entry) : List GroupData :=
  (segments fs entries).map (segGroup fs haps)

/-! ### the loop state as a function of the current segment -/

def lastHapOf (seg : List Entry) : Option Str := seg.getLast?.map (·.1)
def lastOrigOf (fs : List Scaffold) (seg : List Entry) : Option Str := seg.getLast?.map (fun l => origOf fs l.2)

def scanState (fs : List Scaffold) (haps : List Str) (G : List GroupData) (seg : List Entry) : GroupScan :=
  { groups := G, cur := segGroup fs haps seg, lastHap := lastHapOf seg, lastOrig := lastOrigOf fs seg }

theorem scanState_snoc (fs : List Scaffold) (haps : List Str) (G : List GroupData) (seg : List Entry) (e : Entry) :
    scanState fs haps G (seg ++ [e]) =
      { groups := G, cur := groupAdd (segGroup fs haps seg) e.1 (origOf fs e.2) e.2, lastHap := some e.1,
        lastOrig := some (origOf fs e.2) } := by
  unfold scanState lastHapOf lastOrigOf
  rw [segGroup_snoc, List.getLast?_concat]; rfl

theorem scanState_single (fs : List Scaffold) (haps : List Str) (G : List GroupData) (e : Entry) :
    scanState fs haps G [e] =
      { groups := G, cur := groupAdd (newGroup haps) e.1 (origOf fs e.2) e.2, lastHap := some e.1,
        lastOrig := some (origOf fs e.2) } := scanState_snoc fs haps G [] e

theorem pyGet_zero {α} (a : α) (l : List α) : pyGet (a :: l) 0 = .ok a := by
  unfold pyGet
  simp only [List.length_cons]
  rw [if_neg (by omega)]
  rw [if_neg (by omega)]
  rfl

/-- **one iteration of the loop**, several haplotypes, the entry has a Pretext name -/
theorem bgStep_multi (fs : List Scaffold) (haps : List Str) (hoth : (haps.drop 1).isEmpty = false)
    (G : List GroupData) (seg : List Entry) (e : Entry)
    (hgood : truthy (fs.getD e.2 default).originalName = true) :
    bgStep fs haps (scanState fs haps G seg) e =
      .ok (if startsNew fs seg e then scanState fs haps (G ++ [segGroup fs haps seg]) [e]
           else scanState fs haps G (seg ++ [e])) := by
  obtain ⟨hap, sid⟩ := e
  rcases truthy_cases (fs.getD sid default).originalName with ⟨_, c, r, e0⟩ | ⟨e0, _⟩
  · have horig : origOf fs sid = c :: r := by unfold origOf; rw [e0]; rfl
    rw [scanState_single, scanState_snoc]
    simp only [horig]
    have hhd := dGet_segGroup fs haps hap seg
    have hemp := hapChrs_isEmpty fs hap seg
    cases hl : seg.getLast? with
    | none =>
      have hnil : seg = [] := List.getLast?_eq_none_iff.1 hl
      subst hnil
      have hs : startsNew fs [] (hap, sid) = false := rfl
      rw [hs]
      unfold bgStep scanState
      simp only [e0, hhd]
      simp [hapChrs, hapOrigs, hapEntries, lastHapOf, lastOrigOf, pure, Except.pure, bind, Except.bind]
    | some l =>
      have hlm : l ∈ seg := List.mem_of_getLast? hl
      have hLH : lastHapOf seg = some l.1 := by unfold lastHapOf; rw [hl]; rfl
      have hLO : lastOrigOf fs seg = some (origOf fs l.2) := by unfold lastOrigOf; rw [hl]; rfl
      have hoth' : ¬ haps.tail = [] := by
        intro h; rw [List.drop_one, h] at hoth; cases hoth
      by_cases hh : hap = l.1
      · -- same haplotype as the previous entry
        subst hh
        have hany : seg.any (fun x => decide (x.1 = l.1)) = true := by
          rw [List.any_eq_true]; exact ⟨l, hlm, by simp⟩
        have hhdne : ¬ hapChrs fs l.1 seg = [] := by
          intro h; rw [h, hany] at hemp; cases hemp
        have hlo : origOf fs l.2 ∈ hapOrigs fs l.1 seg := (mem_hapOrigs fs l.1 _ seg).2 ⟨l, hlm, rfl, rfl⟩
        have hget := dGet_hapChrs fs l.1 (origOf fs l.2) seg
        rw [if_pos hlo] at hget
        have hne := idsOf_ne_nil_of_mem fs l.1 _ seg hlo
        by_cases ho : c :: r = origOf fs l.2
        · have hs : startsNew fs seg (l.1, sid) = false := by
            unfold startsNew; simp [hl, horig, ho]
          rw [hs]
          unfold bgStep scanState
          simp only [e0, hhd]
          simp [hLH, hLO, ho, pure, Except.pure, bind, Except.bind]
        · cases hids : idsOf fs l.1 (origOf fs l.2) seg with
          | nil => exact absurd hids hne
          | cons first t =>
            rw [hids] at hget
            have hs : startsNew fs seg (l.1, sid) = isSingletonSc fs first := by
              unfold startsNew; simp [hl, horig, ho, hids]
            rw [hs]
            unfold bgStep scanState
            simp only [e0, hhd]
            cases hsing : isSingletonSc fs first with
            | true =>
              have hsing' : sSingleton ∈ ((fs[first]?.getD default).originalTags).getD [] := by
                simpa [isSingletonSc] using hsing
              simp [hhdne, hoth', hLH, hLO, ho, hget, pyGet_zero, hsing', pure, Except.pure, bind, Except.bind]
            | false =>
              have hsing' : ¬ sSingleton ∈ ((fs[first]?.getD default).originalTags).getD [] := by
                simpa [isSingletonSc] using hsing
              simp [hhdne, hoth', hLH, hLO, ho, hget, pyGet_zero, hsing', pure, Except.pure, bind, Except.bind]
      · -- another haplotype than the previous entry
        have hs : startsNew fs seg (hap, sid) = seg.any (fun x => decide (x.1 = hap)) := by
          unfold startsNew; simp [hl, hh]
        rw [hs]
        unfold bgStep scanState
        simp only [e0, hhd]
        cases hany : seg.any (fun x => decide (x.1 = hap)) with
        | true =>
          have hhdne : ¬ hapChrs fs hap seg = [] := by
            intro h; rw [h, hany] at hemp; cases hemp
          simp [hhdne, hoth', hLH, hLO, hh, pure, Except.pure, bind, Except.bind]
        | false =>
          have hhde : hapChrs fs hap seg = [] := by
            rw [hany] at hemp; simpa using hemp
          simp [hhde, pure, Except.pure, bind, Except.bind]
  · rw [e0] at hgood; cases hgood

theorem scanState_nil (fs : List Scaffold) (haps : List Str) :
    scanState fs haps [] [] = { groups := [], cur := newGroup haps } := rfl

theorem fold_multi (fs : List Scaffold) (haps : List Str) (hoth : (haps.drop 1).isEmpty = false) :
    ∀ (r : List Entry) (G : List GroupData) (seg : List Entry),
    (∀ e ∈ r, truthy (fs.getD e.2 default).originalName = true) →
    ∃ st', r.foldlM (bgStep fs haps) (scanState fs haps G seg) = .ok st' ∧
      st'.groups ++ [st'.cur] = G ++ (segmentsAux fs seg r).map (segGroup fs haps) := by
  intro r
  induction r with
  | nil => intro G seg _; exact ⟨_, rfl, rfl⟩
  | cons e r ih =>
    intro G seg hg
    have hg' : ∀ e ∈ r, truthy (fs.getD e.2 default).originalName = true := fun x hx => hg x (List.mem_cons_of_mem _ hx)
    rw [List.foldlM_cons, bgStep_multi fs haps hoth G seg e (hg e (by simp))]
    show ∃ st', (List.foldlM (bgStep fs haps) _ r) = .ok st' ∧ _
    unfold segmentsAux
    cases hs : startsNew fs seg e with
    | true =>
      simp only [if_true]
      obtain ⟨st', h1, h2⟩ := ih (G ++ [segGroup fs haps seg]) [e] hg'
      exact ⟨st', h1, by rw [h2]; simp⟩
    | false =>
      simp only [Bool.false_eq_true, if_false]
      exact ih G (seg ++ [e]) hg'

theorem fold_multi_bad (fs : List Scaffold) (haps : List Str) (hoth : (haps.drop 1).isEmpty = false) :
    ∀ (r : List Entry) (G : List GroupData) (seg : List Entry),
    (∃ e ∈ r, truthy (fs.getD e.2 default).originalName = false) →
    r.foldlM (bgStep fs haps) (scanState fs haps G seg) = .error .value := by
  intro r
  induction r with
  | nil => intro G seg hb; obtain ⟨e, he, _⟩ := hb; cases he
  | cons e r ih =>
    intro G seg hb
    rw [List.foldlM_cons]
    cases hgood : truthy (fs.getD e.2 default).originalName with
    | false => rw [bgStep_bad fs haps _ e.1 e.2 hgood]; rfl
    | true =>
      have hb' : ∃ e ∈ r, truthy (fs.getD e.2 default).originalName = false := by
        obtain ⟨x, hx, hbad⟩ := hb
        rcases List.mem_cons.1 hx with e2 | hx
        · subst e2; rw [hgood] at hbad; cases hbad
        · exact ⟨x, hx, hbad⟩
      rw [bgStep_multi fs haps hoth G seg e hgood]
      show List.foldlM (bgStep fs haps) _ r = _
      split
      · exact ih _ _ hb'
      · exact ih _ _ hb'

/-- **M1 (ok part)** -/
theorem buildGroups_multi_ok (fs : List Scaffold) (haps : List Str) (hoth : (haps.drop 1).isEmpty = false)
    (entries : List Entry) (hg : ∀ e ∈ entries, truthy (fs.getD e.2 default).originalName = true) :
    buildGroups fs haps entries = .ok (groupsSpec fs haps entries) := by
  rw [buildGroups_eq, ← scanState_nil]
  obtain ⟨st', h1, h2⟩ := fold_multi fs haps hoth entries [] [] hg
  rw [h1]
  show Except.ok (st'.groups ++ [st'.cur]) = _
  rw [h2]; rfl

/-- **M1 (failure part)** -/
theorem buildGroups_multi_bad (fs : List Scaffold) (haps : List Str) (hoth : (haps.drop 1).isEmpty = false)
    (entries : List Entry) (hb : ∃ e ∈ entries, truthy (fs.getD e.2 default).originalName = false) :
    buildGroups fs haps entries = .error .value := by
  rw [buildGroups_eq, ← scanState_nil, fold_multi_bad fs haps hoth entries [] [] hb]
  rfl

/-! ### what `segments` means -/

/-- no cut inside a segment -/
def NoCut (fs : List Scaffold) (s : List Entry) : Prop :=
  ∀ pre e post, s = pre ++ e :: post → startsNew fs pre e = false

/-- a cut between any two neighbouring segments -/
def Boundaries (fs : List Scaffold) : List (List Entry) → Prop
  | [] => True
  | [_] => True
  | s1 :: s2 :: r => (∃ e t, s2 = e :: t ∧ startsNew fs s1 e = true) ∧ Boundaries fs (s2 :: r)

theorem noCut_nil (fs : List Scaffold) : NoCut fs [] := by
  intro pre e post h
  have := congrArg List.length h
  simp at this

theorem noCut_single (fs : List Scaffold) (e : Entry) : NoCut fs [e] := by
  intro pre x post h
  cases pre with
  | nil => rfl
  | cons a pre =>
    have := congrArg List.length h
    simp at this

theorem noCut_snoc (fs : List Scaffold) (seg : List Entry) (e : Entry) (h : NoCut fs seg)
    (hs : startsNew fs seg e = false) : NoCut fs (seg ++ [e]) := by
  intro pre x post hx
  rcases List.eq_nil_or_concat post with hp | ⟨post', y, hp⟩
  · subst hp
    have h2 : seg ++ [e] = pre ++ [x] := hx
    obtain ⟨h3, h4⟩ := List.append_inj' h2 rfl
    have : e = x := by simpa using h4
    subst this; subst h3; exact hs
  · subst hp
    have h2 : seg ++ [e] = (pre ++ x :: post') ++ [y] := by rw [hx]; simp
    obtain ⟨h3, _⟩ := List.append_inj' h2 rfl
    exact h pre x post' h3

theorem segmentsAux_head (fs : List Scaffold) : ∀ (r seg : List Entry),
    ∃ t rest, segmentsAux fs seg r = (seg ++ t) :: rest := by
  intro r
  induction r with
  | nil => intro seg; exact ⟨[], [], by simp [segmentsAux]⟩
  | cons e r ih =>
    intro seg
    unfold segmentsAux
    split
    · exact ⟨[], segmentsAux fs [e] r, by simp⟩
    · obtain ⟨t, rest, h⟩ := ih (seg ++ [e])
      exact ⟨e :: t, rest, by rw [h]; simp⟩

theorem segmentsAux_flatten (fs : List Scaffold) : ∀ (r seg : List Entry),
    (segmentsAux fs seg r).flatten = seg ++ r := by
  intro r
  induction r with
  | nil => intro seg; simp [segmentsAux]
  | cons e r ih =>
    intro seg
    unfold segmentsAux
    split
    · rw [List.flatten_cons, ih]; simp
    · rw [ih]; simp

theorem segmentsAux_noCut (fs : List Scaffold) : ∀ (r seg : List Entry), NoCut fs seg →
    ∀ s ∈ segmentsAux fs seg r, NoCut fs s := by
  intro r
  induction r with
  | nil => intro seg h s hs; simp [segmentsAux] at hs; subst hs; exact h
  | cons e r ih =>
    intro seg h s hs
    unfold segmentsAux at hs
    split at hs
    · rcases List.mem_cons.1 hs with e1 | hs
      · subst e1; exact h
      · exact ih [e] (noCut_single fs e) s hs
    · rename_i hc
      exact ih (seg ++ [e]) (noCut_snoc fs seg e h (by simpa using hc)) s hs

theorem segmentsAux_boundaries (fs : List Scaffold) : ∀ (r seg : List Entry), Boundaries fs (segmentsAux fs seg r) := by
  intro r
  induction r with
  | nil => intro seg; simp [segmentsAux, Boundaries]
  | cons e r ih =>
    intro seg
    unfold segmentsAux
    split
    · rename_i hc
      obtain ⟨t, rest, h⟩ := segmentsAux_head fs r [e]
      have hb := ih [e]
      rw [h] at hb ⊢
      exact ⟨⟨e, t, rfl, hc⟩, hb⟩
    · exact ih _

theorem segmentsAux_nonempty (fs : List Scaffold) : ∀ (r seg : List Entry), seg ≠ [] →
    ∀ s ∈ segmentsAux fs seg r, s ≠ [] := by
  intro r
  induction r with
  | nil => intro seg h s hs; simp [segmentsAux] at hs; subst hs; exact h
  | cons e r ih =>
    intro seg h s hs
    unfold segmentsAux at hs
    split at hs
    · rcases List.mem_cons.1 hs with e1 | hs
      · subst e1; exact h
      · exact ih [e] (by simp) s hs
    · exact ih (seg ++ [e]) (by simp) s hs

/-- **`segments` is the decomposition by the cut rule**: concatenating the segments gives back the entries; inside a
    segment the rule never fires; between two neighbouring segments it fires (the second segment begins with the entry
    `e` for which `startsNew fs <first segment> e`); no segment is empty unless there are no entries at all.  These
    facts determine the decomposition. -/
theorem segments_spec (fs : List Scaffold) (entries : List Entry) :
    (segments fs entries).flatten = entries ∧
    (∀ s ∈ segments fs entries, NoCut fs s) ∧
    Boundaries fs (segments fs entries) ∧
    (entries ≠ [] → ∀ s ∈ segments fs entries, s ≠ []) := by
  refine ⟨by simpa [segments] using segmentsAux_flatten fs entries [], segmentsAux_noCut fs entries [] (noCut_nil fs),
    segmentsAux_boundaries fs entries [], ?_⟩
  intro hne
  cases entries with
  | nil => exact absurd rfl hne
  | cons e r =>
    have : segments fs (e :: r) = segmentsAux fs [e] r := rfl
    rw [this]
    exact segmentsAux_nonempty fs r [e] (by simp)

theorem segments_nil (fs : List Scaffold) : segments fs [] = [[]] := rfl

/-- every entry lies in one of the segments -/
theorem segments_cover (fs : List Scaffold) (entries : List Entry) (e : Entry) (he : e ∈ entries) :
    ∃ s ∈ segments fs entries, e ∈ s := by
  have h := (segments_spec fs entries).1
  rw [← h] at he
  exact List.mem_flatten.1 he

theorem segments_sub (fs : List Scaffold) (entries : List Entry) (s : List Entry) (hs : s ∈ segments fs entries)
    (e : Entry) (he : e ∈ s) : e ∈ entries := by
  rw [← (segments_spec fs entries).1]
  exact List.mem_flatten.2 ⟨s, hs, he⟩

/-- the cut rule in words -/
theorem startsNew_iff (fs : List Scaffold) (seg : List Entry) (e : Entry) :
    startsNew fs seg e = true ↔
      ∃ l, seg.getLast? = some l ∧
        ((e.1 ≠ l.1 ∧ ∃ x ∈ seg, x.1 = e.1) ∨
         (e.1 = l.1 ∧ origOf fs e.2 ≠ origOf fs l.2 ∧
            ∃ x, seg.find? (fun x => decide (x.1 = l.1) && decide (origOf fs x.2 = origOf fs l.2)) = some x ∧
              isSingletonSc fs x.2 = true)) := by
  have hhead : ∀ (h o : Str), (idsOf fs h o seg).head? =
      (seg.find? (fun x => decide (x.1 = h) && decide (origOf fs x.2 = o))).map (·.2) := by
    intro h o
    unfold idsOf hapEntries
    rw [List.head?_map, List.filter_filter, List.head?_filter]
    congr 1
    congr 1
    funext x
    exact Bool.and_comm _ _
  unfold startsNew
  cases hl : seg.getLast? with
  | none => simp
  | some l =>
    simp only [Option.some.injEq, exists_eq_left']
    by_cases hh : e.1 = l.1
    · simp only [hh, ne_eq, not_true_eq_false, if_false, false_and, false_or, true_and]
      by_cases ho : origOf fs e.2 = origOf fs l.2
      · simp [ho]
      · simp only [ho, not_false_eq_true, if_true, true_and]
        rw [hhead]
        cases hf : seg.find? (fun x => decide (x.1 = l.1) && decide (origOf fs x.2 = origOf fs l.2)) with
        | none => simp
        | some x => simp
    · simp only [ne_eq, hh, not_false_eq_true, if_true, true_and, false_and, or_false]
      rw [List.any_eq_true]
      simp

end AgpTpf.C10
