/-
  C02 (aligned maps), part 5: the PAINTED variant.  Generic step first: the split loop + `name_chromosomes` + sorting for a
  fused list whose first `m` scaffolds are painted (rank 1, own chromosome group each) and whose others are rank 3.
-/
import AgpTpf.Proofs.C02AOut
import AgpTpf.Proofs.C08PaintOut
namespace AgpTpf.C02
open AgpTpf
open AgpTpf.C09 (splitLoop finishAssemblies assembliesFused_eq)
open AgpTpf.C08 (PlainSc Plain1 splitFold_painted soloGroup buildGroups_solo groupsHaveErrors_solo keyed_solo nameFold
  fragLen sorted_solo ext_getD range_map_getD)

/-- indices `0..m-1` by non-increasing total contig length, ties in list order -/
def sizeOrderG (fs : List Scaffold) (m : Nat) : List Nat :=
  stableSort (fun i j => decide (fragLen fs i ≥ fragLen fs j)) (List.range m)

/-- `name_chromosomes` on a fused list whose first `m` scaffolds are painted: scaffold `i < m` is renamed
    `prefix ++ (1 + position of i in the size order)` -/
def namedBySize (prefix_ : Str) (fs : List Scaffold) (m : Nat) : List Scaffold :=
  fs.mapIdx (fun i s => if i < m then { s with name := prefix_ ++ natToStr ((sizeOrderG fs m).idxOf i + 1) } else s)

theorem namedBySize_length (prefix_ : Str) (fs : List Scaffold) (m : Nat) :
    (namedBySize prefix_ fs m).length = fs.length := by simp [namedBySize]

theorem namedBySize_rows (prefix_ : Str) (fs : List Scaffold) (m : Nat) :
    (namedBySize prefix_ fs m).map (·.rows) = fs.map (·.rows) := by
  apply List.ext_getElem?
  intro i
  simp only [namedBySize, List.getElem?_map, List.getElem?_mapIdx]
  cases fs[i]? with
  | none => rfl
  | some s => by_cases h : i < m <;> simp [h]

theorem sizeOrderG_perm (fs : List Scaffold) (m : Nat) : (sizeOrderG fs m).Perm (List.range m) := C20.stableSort_perm _ _

theorem sizeOrderG_sorted (fs : List Scaffold) (m : Nat) :
    (sizeOrderG fs m).Pairwise (fun i j => fragLen fs i ≥ fragLen fs j) := by
  have h : C20.TotalPreorder (fun i j => decide (fragLen fs i ≥ fragLen fs j)) := by
    constructor
    · intro a b; simp only [decide_eq_true_eq]; omega
    · intro a b c h1 h2; simp only [decide_eq_true_eq] at h1 h2 ⊢; omega
  exact (C20.stableSort_sorted h (List.range m)).imp (fun h => by simpa using h)

/-- the painted scaffolds of the fused list: the first `m`, each remembering its own (Pretext) name -/
structure PaintedPrefix (fs : List Scaffold) (m : Nat) : Prop where
  le : m ≤ fs.length
  pos : 0 < m
  plain1 : ∀ i (h : i < fs.length), i < m → Plain1 fs[i]
  plain3 : ∀ i (h : i < fs.length), m ≤ i → PlainSc fs[i]
  orig : ∀ i, i < m → (fs.getD i default).originalName = some (fs.getD i default).name
  nonempty : ∀ i, i < m → (fs.getD i default).name ≠ []
  distinct : ∀ i, i + 1 < m → (fs.getD (i + 1) default).name ≠ (fs.getD i default).name

theorem nameChromosomes_generic (prefix_ : Str) (fs : List Scaffold) (m : Nat) (hp : PaintedPrefix fs m) :
    ((List.range (sizeOrderG fs m).length).zip
        ((sizeOrderG fs m).map (fun i => soloGroup (fs.getD i default).name i))).foldl
        (fun fs (p : Nat × GroupData) => nameGroup fs p.2 prefix_ (p.1 + 1)) fs = namedBySize prefix_ fs m := by
  have hperm := sizeOrderG_perm fs m
  have hmem : ∀ i, i ∈ sizeOrderG fs m ↔ i < m := by
    intro i; rw [hperm.mem_iff]; simp
  obtain ⟨fs', e, hl, hg⟩ := nameFold (fun i => (fs.getD i default).name) prefix_ (sizeOrderG fs m) 0 fs
    (hperm.nodup_iff.2 List.nodup_range)
    (fun i hi => by have := (hmem i).1 hi; have := hp.le; omega)
    (fun i _ => rfl)
    (fun i hi => hp.nonempty i ((hmem i).1 hi))
  rw [List.range_eq_range', e]
  apply ext_getD
  · rw [hl, namedBySize_length]
  · intro j hj
    rw [hg j]
    rw [hl] at hj
    unfold namedBySize
    rw [List.getD_eq_getElem?_getD (l := List.mapIdx _ _), List.getElem?_mapIdx, List.getElem?_eq_getElem hj]
    have hget : fs[j]?.getD default = fs[j] := by
      rw [List.getElem?_eq_getElem hj]; rfl
    by_cases hjm : j < m
    · simp [(hmem j).2 hjm, hjm, hget]
    · have : ¬ j ∈ sizeOrderG fs m := fun h => hjm ((hmem j).1 h)
      simp [this, hjm, hget]

/-- **split loop + chromosome naming + sorting + statistics** for a fused list with a painted prefix -/
theorem assembliesFused_paintedPrefix (input : List Scaffold) (b : Build) (fs : List Scaffold) (m : Nat)
    (hfs : fuseByName b = fs) (hp : PaintedPrefix fs m) (hin : ∀ sc ∈ input, ∃ J, sc.junctionSet = .ok J)
    (hout : ∀ s ∈ fs, ∃ J, s.junctionSet = .ok J) :
    ∃ st, assembliesFused input b =
        .ok ([{ key := none, curated := true,
                scaffolds := C20.smartSorted (namedBySize b.namer.autosomePrefix fs m) }], st) ∧
      st.cuts = b.cuts := by
  rw [assembliesFused_eq, hfs]
  unfold splitLoop
  rw [splitFold_painted _ _ m hp.plain1 hp.plain3 _ (Nat.le_refl _)]
  have hle := hp.le
  have hpos := hp.pos
  have e1 : min fs.length m = m := by omega
  have e2 : ¬ (fs.length = 0) := by omega
  have e3 : ¬ (m = 0) := by omega
  rw [e1, if_neg e2, if_neg e3]
  unfold finishAssemblies
  have hgroups := buildGroups_solo fs (fun i => (fs.getD i default).name) m hp.orig hp.nonempty hp.distinct hpos
  have hsorted := sorted_solo fs (fun i => (fs.getD i default).name) (List.range m)
  have hkeyed := keyed_solo fs (fun i => (fs.getD i default).name) (List.range m)
  simp only [bind, Except.bind, pure, Except.pure] at hkeyed
  have hfold := nameChromosomes_generic b.namer.autosomePrefix fs m hp
  unfold sizeOrderG at hfold
  -- statistics
  have hperm : (C20.smartSorted (namedBySize b.namer.autosomePrefix fs m)).Perm
      (namedBySize b.namer.autosomePrefix fs m) := C20.stableSort_perm _ _
  have hout' : ∀ s ∈ namedBySize b.namer.autosomePrefix fs m, ∃ J, s.junctionSet = .ok J := by
    intro s hs
    have hr : s.rows ∈ (namedBySize b.namer.autosomePrefix fs m).map (·.rows) := List.mem_map.2 ⟨s, hs, rfl⟩
    rw [namedBySize_rows] at hr
    obtain ⟨s0, hs0, e⟩ := List.mem_map.1 hr
    obtain ⟨J, hJ⟩ := hout s0 hs0
    exact ⟨J, by rw [C11.junctionSet_congr s s0 (by simp [Scaffold.fragments, e])]; exact hJ⟩
  obtain ⟨st, hst⟩ := (C11.makeStats_ok_iff input
    [{ key := none, curated := true, scaffolds := C20.smartSorted (namedBySize b.namer.autosomePrefix fs m) }]
    b.cuts).2 ⟨hin, by
      intro o ho sc hsc
      simp only [List.mem_singleton] at ho
      subst ho
      exact hout' sc (hperm.subset hsc)⟩
  obtain ⟨-, -, -, -, hc, -⟩ := C11.makeStats_ok _ _ _ _ hst
  refine ⟨st, ?_, hc⟩
  have hn : fs.length = (namedBySize b.namer.autosomePrefix fs m).length := (namedBySize_length _ _ _).symm
  simp only [List.isEmpty_cons, Bool.false_eq_true, if_false, hgroups, bind, Except.bind,
    groupsHaveErrors_solo, hkeyed, pure, Except.pure, hsorted, List.length_map, hfold, hn, range_map_getD,
    List.mapM_cons, List.mapM_nil, C20.smartSort_eq', hst]

end AgpTpf.C02
