/- warm = cold: the assembly `index_fasta_file` builds is carried by its AGP file without loss (C15/C17) -/
import AgpTpf.Proofs.C04Loop
import AgpTpf.Proofs.C05File
namespace AgpTpf.CliWarm
open AgpTpf AgpTpf.C04 AgpTpf.C05

/-! ### the scaffolds of `foldl addRec` as a plain recursion -/

def coldScaffolds : Nat → List Rec → List Scaffold
  | _, [] => []
  | oid, r :: t => { name := r.name, rows := specRows r.name oid r.res } :: coldScaffolds (oid + (runsOf r.res).length) t

theorem foldl_addRec_scaffolds (recs : List Rec) : ∀ (o : Out),
    (recs.foldl addRec o).scaffolds = o.scaffolds ++ coldScaffolds o.nextOid recs ∧
    (recs.foldl addRec o).nextOid = o.nextOid + ((recs.map (fun r => (runsOf r.res).length)).sum) := by
  induction recs with
  | nil => intro o; simp [coldScaffolds]
  | cons r t ih =>
    intro o
    rw [List.foldl_cons]
    obtain ⟨h1, h2⟩ := ih (addRec o r)
    rw [h1, h2]
    simp only [addRec, coldScaffolds, List.append_assoc, List.singleton_append, List.map_cons, List.sum_cons, true_and]
    omega

theorem cold_eq (recs : List Rec) : (recs.foldl addRec {}).scaffolds = coldScaffolds 0 recs := by
  have := (foldl_addRec_scaffolds recs {}).1
  simpa using this

theorem coldScaffolds_names (recs : List Rec) : ∀ oid, (coldScaffolds oid recs).map (·.name) = recs.map Rec.name := by
  induction recs with
  | nil => intro oid; rfl
  | cons r t ih => intro oid; simp only [coldScaffolds, List.map_cons, ih]

theorem coldScaffolds_mem (recs : List Rec) : ∀ oid, ∀ s ∈ coldScaffolds oid recs,
    ∃ r ∈ recs, ∃ k, s = { name := r.name, rows := specRows r.name k r.res } := by
  induction recs with
  | nil => intro oid s hs; cases hs
  | cons r t ih =>
    intro oid s hs
    simp only [coldScaffolds, List.mem_cons] at hs
    rcases hs with rfl | hs
    · exact ⟨r, by simp, oid, rfl⟩
    · obtain ⟨r', hr', k, e⟩ := ih _ s hs
      exact ⟨r', by simp [hr'], k, e⟩

/-! ### rows -/

theorem tiled_renum (name : Str) : ∀ (rows : List Row) (oid : Nat) (o : Int), Tiled name oid o rows →
    renumRows oid rows = rows ∧ ∀ r ∈ rows, (('\t' ∉ name → AgpRowOk r) ∧ ('\n' ∉ name → RowNoNl r)) := by
  intro rows
  induction rows with
  | nil => intro oid o _; exact ⟨rfl, fun r hr => by cases hr⟩
  | cons row rest ih =>
    intro oid o h
    cases row with
    | frag f =>
      obtain ⟨hf, hle, ht⟩ := h
      obtain ⟨e, hall⟩ := ih (oid + 1) f.stop ht
      constructor
      · simp only [renumRows, e]
        congr 2
        rw [hf]
      · intro r hr
        rcases List.mem_cons.1 hr with rfl | hr
        · constructor
          · intro hn
            show '\t' ∉ f.name ∧ (∀ t ∈ f.tags, '\t' ∉ t) ∧ lastTagOk f.tags = true ∧ f.start ≤ f.stop ∧
              (f.strand = 0 ∨ f.strand = 1 ∨ f.strand = -1)
            have h1 : f.name = name := by rw [hf]
            have h2 : f.tags = [] := by rw [hf]
            have h3 : f.strand = 1 := by rw [hf]
            rw [h1, h2, h3]
            exact ⟨hn, fun t ht => (by cases ht), rfl, hle, .inr (.inl rfl)⟩
          · intro hn
            show '\n' ∉ f.name ∧ ∀ t ∈ f.tags, '\n' ∉ t
            have h1 : f.name = name := by rw [hf]
            have h2 : f.tags = [] := by rw [hf]
            rw [h1, h2]
            exact ⟨hn, fun t ht => (by cases ht)⟩
        · exact hall r hr
    | gap g =>
      obtain ⟨hpos, hty, ht⟩ := h
      obtain ⟨e, hall⟩ := ih oid (o + g.length) ht
      constructor
      · simp only [renumRows, e]
      · intro r hr
        rcases List.mem_cons.1 hr with rfl | hr
        · constructor
          · intro _; show '\t' ∉ g.gapType; rw [hty]; decide
          · intro _; show '\n' ∉ g.gapType; rw [hty]; decide
        · exact hall r hr

theorem countFrags_eq (rows : List Row) : countFrags rows = (fragmentsOf rows).length := by
  induction rows with
  | nil => rfl
  | cons r t ih => cases r <;> simp [countFrags, fragmentsOf, ih]

theorem countFrags_specRows (name : Str) (oid : Nat) (res : Bytes) :
    countFrags (specRows name oid res) = (runsOf res).length := by
  rw [countFrags_eq]
  have := congrArg List.length (specRows_fragments name oid res)
  simpa using this

theorem specRows_ne_nil (name : Str) (oid : Nat) (res : Bytes) (h : res ≠ []) : specRows name oid res ≠ [] := by
  intro e
  have := specRows_length name oid res
  rw [e] at this
  have hl : res.length = 0 := by
    have h0 : rowsLength [] = 0 := rfl
    rw [h0] at this
    exact_mod_cast this.symm
  exact h (List.eq_nil_of_length_eq_zero hl)

theorem canon_cold (recs : List Rec) : ∀ k, canonScaffolds k (coldScaffolds k recs) = coldScaffolds k recs := by
  induction recs with
  | nil => intro k; rfl
  | cons r t ih =>
    intro k
    simp only [coldScaffolds, canonScaffolds]
    rw [(tiled_renum r.name _ k 0 (specRows_tiled r.name k r.res)).1, countFrags_specRows, ih]

/-! ### names -/

theorem namesChain_of_nodup : ∀ (scs : List Scaffold) (cur : Str), cur ∉ scs.map (·.name) → (scs.map (·.name)).Nodup →
    NamesChain cur scs := by
  intro scs
  induction scs with
  | nil => intro _ _ _; trivial
  | cons s t ih =>
    intro cur hc hnd
    simp only [List.map_cons, List.mem_cons, not_or, List.nodup_cons] at hc hnd
    exact ⟨fun h => hc.1 h.symm, ih s.name hnd.1 hnd.2⟩

theorem toNat_ofNat_of_lt : ∀ b, b < 128 → (Char.ofNat b).toNat = b := by decide

theorem ofNat_eq_of_lt (b : Nat) (c : Nat) (hb : b < 128) (hc : c < 128) (h : Char.ofNat b = Char.ofNat c) : b = c := by
  have h1 : (Char.ofNat b).toNat = b := toNat_ofNat_of_lt _ hb
  have h2 : (Char.ofNat c).toNat = c := toNat_ofNat_of_lt _ hc
  rw [← h1, ← h2, h]

theorem tok_no_space (hdr : Bytes) : ∀ b ∈ tokOf hdr, isBSpace b = false := by
  intro b hb
  unfold tokOf at hb
  have hall := List.all_takeWhile (l := hdr.dropWhile isBSpace) (p := fun b => !isBSpace b)
  have := List.all_eq_true.1 hall b hb
  simpa using this

/-- names of well-formed records: non-empty, ASCII, no tab / newline / blank (no `bytes.isspace` byte at all) -/
theorem rec_name (r : Rec) (h : r.WF) :
    r.name ≠ [] ∧ '\t' ∉ r.name ∧ '\n' ∉ r.name ∧
      ∀ c ∈ r.name, c.toNat < 128 ∧ (isSpace c = true → 28 ≤ c.toNat ∧ c.toNat ≤ 31) := by
  have key : ∀ c ∈ r.name, ∃ b, b < 128 ∧ isBSpace b = false ∧ c = Char.ofNat b := by
    intro c hc
    obtain ⟨b, hb, rfl⟩ := List.mem_map.1 hc
    exact ⟨b, h.tok_ascii b hb, tok_no_space r.hdr b hb, rfl⟩
  have ne : ∀ (n : Nat), n < 128 → isBSpace n = true → Char.ofNat n ∉ r.name := by
    intro n hn hsp hmem
    obtain ⟨b, hb, hbs, e⟩ := key _ hmem
    have := ofNat_eq_of_lt n b hn hb e
    subst this; rw [hsp] at hbs; cases hbs
  refine ⟨?_, ne 9 (by decide) (by decide), ne 10 (by decide) (by decide), ?_⟩
  · intro e
    apply h.tok_ne
    unfold Rec.name at e
    exact List.map_eq_nil_iff.1 e
  · intro c hc
    obtain ⟨b, hb, hbs, rfl⟩ := key c hc
    have hn : (Char.ofNat b).toNat = b := toNat_ofNat_of_lt _ hb
    refine ⟨by rw [hn]; exact hb, ?_⟩
    unfold isSpace
    simp only [hn]
    unfold isBSpace at hbs
    simp only [Bool.or_eq_false_iff, Bool.and_eq_false_iff, decide_eq_false_iff_not] at hbs
    simp only [Bool.or_eq_true, Bool.and_eq_true, decide_eq_true_eq, beq_iff_eq]
    omega

/-! ### the cold assembly is `WFAgp`, in reader form, and free of newlines -/

/-- `f"Built from FASTA file '{path}'"` -/
def builtFrom (path : Str) : Str := "Built from FASTA file '".toList ++ path ++ ['\'']

theorem builtFrom_ok (path : Str) (h : '\n' ∉ path) : HeaderOk (builtFrom path) := by
  show '\n' ∉ builtFrom path ∧ (isHashOrSpace 'B' = false ∨ _)
  refine ⟨?_, .inl (by decide)⟩
  unfold builtFrom
  simp only [List.mem_append, List.mem_singleton, not_or]
  exact ⟨⟨by decide, h⟩, by decide⟩

structure ColdOk (recs : List Rec) : Prop where
  wf : ∀ r ∈ recs, r.WF
  nodup : (recs.map Rec.name).Nodup
  /-- at least one residue -/
  res : ∀ r ∈ recs, r.res ≠ []
  /-- the name does not start with `#` -/
  hash : ∀ r ∈ recs, r.name.head? ≠ some '#'

theorem cold_WFAgp (hdr : List Str) (recs : List Rec) (hh : ∀ h ∈ hdr, HeaderOk h) (hok : ColdOk recs) :
    WFAgp { header := hdr, scaffolds := coldScaffolds 0 recs } ∧
    NoNewlines { header := hdr, scaffolds := coldScaffolds 0 recs } := by
  have hnames := coldScaffolds_names recs 0
  constructor
  · refine ⟨hh, ?_, ?_⟩
    · apply namesChain_of_nodup
      · show [] ∉ (coldScaffolds 0 recs).map (·.name)
        rw [hnames]
        intro hmem
        obtain ⟨r, hr, e⟩ := List.mem_map.1 hmem
        exact (rec_name r (hok.wf r hr)).1 e
      · show ((coldScaffolds 0 recs).map (·.name)).Nodup
        rw [hnames]; exact hok.nodup
    · intro s hs
      obtain ⟨r, hr, k, rfl⟩ := coldScaffolds_mem recs 0 s hs
      obtain ⟨n1, n2, _, _⟩ := rec_name r (hok.wf r hr)
      refine ⟨⟨n1, n2, hok.hash r hr⟩, specRows_ne_nil _ _ _ (hok.res r hr), ?_⟩
      intro row hrow
      exact ((tiled_renum r.name _ k 0 (specRows_tiled r.name k r.res)).2 row hrow).1 n2
  · intro s hs
    obtain ⟨r, hr, k, rfl⟩ := coldScaffolds_mem recs 0 s hs
    obtain ⟨_, _, n3, _⟩ := rec_name r (hok.wf r hr)
    refine ⟨n3, ?_⟩
    intro row hrow
    exact ((tiled_renum r.name _ k 0 (specRows_tiled r.name k r.res)).2 row hrow).2 n3

theorem cold_canon (hdr : List Str) (recs : List Rec) :
    canonAssembly { header := hdr, scaffolds := coldScaffolds 0 recs } = { header := hdr, scaffolds := coldScaffolds 0 recs } := by
  unfold canonAssembly
  simp only [canon_cold]

end AgpTpf.CliWarm
