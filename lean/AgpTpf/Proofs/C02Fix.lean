/-
  C02 — helper lemmas for M3 (`OverhangPremise.improves`) and M4 (`OverhangResolver.make_fixes`, one premise list).
-/
import AgpTpf.Proofs.C18
import AgpTpf.Proofs.C01Qc
namespace AgpTpf.C02
open AgpTpf OverlapResult

/-! ## M3 — `improves` -/

/-- the overhang a premise looks at: start overhang for a start premise, end overhang for an end premise -/
def Premise.currentOverhang (p : Premise) (store : List Res) : Int :=
  match p.kind with
  | .start => (getRes store p.sid).startOverhang
  | .stop => (getRes store p.sid).endOverhang

theorem delta_eq {p : Premise} {store : List Res} {a : Int} (ha : p.overhangIfApplied store = .ok a) :
    p.delta store = .ok (iabs a - iabs (Premise.currentOverhang p store)) := by
  unfold Premise.delta Premise.currentOverhang
  rw [ha]; rfl

theorem delta_ok {p : Premise} {store : List Res} {d : Int} (hd : p.delta store = .ok d) :
    ∃ a, p.overhangIfApplied store = .ok a ∧ d = iabs a - iabs (Premise.currentOverhang p store) := by
  cases ha : p.overhangIfApplied store with
  | error e =>
    unfold Premise.delta at hd
    rw [ha] at hd; cases hd
  | ok a =>
    rw [delta_eq ha] at hd
    cases hd
    exact ⟨a, rfl, rfl⟩

theorem overhangIfApplied_rows_ne {p : Premise} {store : List Res} {a : Int}
    (ha : p.overhangIfApplied store = .ok a) : (getRes store p.sid).rows ≠ [] := by
  intro h0
  unfold Premise.overhangIfApplied at ha
  cases hk : p.kind with
  | start =>
    rw [hk] at ha
    simp only [overhangIfStartRemoved, h0] at ha
    cases ha
  | stop =>
    rw [hk] at ha
    simp only [overhangIfEndRemoved, h0, List.reverse_nil] at ha
    cases ha

/-- `improves` returning True -/
theorem improves_true {p : Premise} {store : List Res} {err : Int} (h : p.improves store err = .ok true) :
    2 ≤ (getRes store p.sid).rows.length ∧
    ∃ a, p.overhangIfApplied store = .ok a ∧
      iabs a - iabs (Premise.currentOverhang p store) < 0 ∧
      a > Gen.improvesGuardFactor * err := by
  unfold Premise.improves at h
  split at h
  · cases h
  · rename_i hlen
    cases hd : p.delta store with
    | error e => rw [hd] at h; cases h
    | ok d =>
      rw [hd] at h
      obtain ⟨a, ha, hda⟩ := delta_ok hd
      simp only [bind, Except.bind] at h
      split at h
      · rename_i hneg
        rw [ha] at h
        simp only [pure, Except.pure, Except.ok.injEq, decide_eq_true_eq] at h
        have hne := overhangIfApplied_rows_ne ha
        refine ⟨?_, a, ha, by omega, h⟩
        have : (getRes store p.sid).rows.length ≠ 0 := fun h0 => hne (List.length_eq_zero_iff.mp h0)
        omega
      · cases h

/-- the value of `improves` whenever the what-if figure exists -/
theorem improves_eq {p : Premise} {store : List Res} {err a : Int} (ha : p.overhangIfApplied store = .ok a) :
    p.improves store err =
      .ok (decide ((getRes store p.sid).rows.length ≠ 1 ∧
                   iabs a - iabs (Premise.currentOverhang p store) < 0 ∧
                   a > Gen.improvesGuardFactor * err)) := by
  unfold Premise.improves
  split
  · rename_i h1; simp [h1, pure, Except.pure]
  · rename_i h1
    rw [delta_eq ha]
    simp only [bind, Except.bind]
    split
    · rename_i h2
      rw [ha]
      simp only [pure, Except.pure, Except.ok.injEq]
      by_cases h3 : a > Gen.improvesGuardFactor * err <;> simp [h1, h2, h3]
    · rename_i h2
      simp [h2, pure, Except.pure]

/-- `improves` never raises on a non-empty result … -/
theorem improves_ok_of_rows {p : Premise} {store : List Res} (h : (getRes store p.sid).rows ≠ []) :
    ∃ a, p.overhangIfApplied store = .ok a := by
  unfold Premise.overhangIfApplied
  cases p.kind with
  | start =>
    simp only [overhangIfStartRemoved]
    split
    · rename_i h0; exact absurd h0 h
    · exact ⟨_, rfl⟩
  | stop =>
    simp only [overhangIfEndRemoved]
    split
    · rename_i h0; exact absurd (List.reverse_eq_nil_iff.mp h0) h
    · exact ⟨_, rfl⟩

/-! ## M4 — one premise list of `make_fixes` -/

/-- the general rule of `make_fixes` (the `elif len(premises) > 1` … block), verbatim -/
def generalRule (err : Int) (store : List Res) (fixes : List Premise) (ps : List Premise) :
    R (List Res × List Premise) :=
  if ps.length > 1 then do
    let sorted ← sortPremsByDelta store ps
    match sorted with
    | bst :: nxt :: _ =>
      if (← bst.improves store err) then
        if ¬ (← nxt.improves store err) then do
          let s ← bst.apply store; pure (s, fixes ++ [bst])
        else pure (store, fixes)
      else pure (store, fixes)
    | _ => pure (store, fixes)
  else pure (store, fixes)

/-- exactly two premises: the sub-texel rule, else the general rule -/
theorem fixOne_two (err : Int) (store : List Res) (fixes : List Premise) (frst scnd : Premise) :
    fixOne err (store, fixes) [frst, scnd] = (do
      let fo ← frst.baitOverlap store
      if fo < err then do
        let so ← scnd.baitOverlap store
        if so < err then
          if fo < so then do let s ← frst.apply store; pure (s, fixes ++ [frst])
          else do let s ← scnd.apply store; pure (s, fixes ++ [scnd])
        else generalRule err store fixes [frst, scnd]
      else generalRule err store fixes [frst, scnd]) := by
  unfold fixOne generalRule
  simp only [bind, Except.bind, pure, Except.pure]
  cases frst.baitOverlap store with
  | error e => rfl
  | ok fo =>
    simp only
    by_cases h1 : fo < err
    · simp only [h1, if_true]
      cases scnd.baitOverlap store with
      | error e => rfl
      | ok so =>
        simp only
        by_cases h2 : so < err
        · simp only [h2, if_true]
        · simp only [h2, if_false]; rfl
    · simp only [h1, if_false]; rfl

/-- any other number of premises: the general rule -/
theorem fixOne_other (err : Int) (store : List Res) (fixes : List Premise) (ps : List Premise) (h : ps.length ≠ 2) :
    fixOne err (store, fixes) ps = generalRule err store fixes ps := by
  unfold fixOne generalRule
  simp only [bind, Except.bind, pure, Except.pure]
  split
  · simp at h
  · rfl

/-! ### the sort by error delta -/

theorem mapM_keyed {α κ} (key : α → R κ) (l : List α) (out : List (κ × α))
    (h : l.mapM (fun p => do let d ← key p; pure (d, p)) = .ok out) :
    out.map (·.2) = l ∧ ∀ kp ∈ out, key kp.2 = .ok kp.1 := by
  induction l generalizing out with
  | nil =>
    simp only [List.mapM_nil, pure, Except.pure, Except.ok.injEq] at h
    subst h; exact ⟨rfl, by simp⟩
  | cons a t ih =>
    rw [List.mapM_cons] at h
    simp only [bind, Except.bind] at h
    cases hk : key a with
    | error e => rw [hk] at h; cases h
    | ok d =>
      rw [hk] at h
      simp only [pure, Except.pure] at h
      cases ht : t.mapM (fun p => do let d ← key p; pure (d, p)) with
      | error e =>
        simp only [bind, Except.bind, pure, Except.pure] at ht
        rw [ht] at h; cases h
      | ok ys =>
        simp only [bind, Except.bind, pure, Except.pure] at ht
        rw [ht] at h
        simp only [Except.ok.injEq] at h
        subst h
        obtain ⟨h1, h2⟩ := ih ys (by simpa only [bind, Except.bind, pure, Except.pure] using ht)
        refine ⟨by simp [h1], ?_⟩
        intro kp hkp
        rcases List.mem_cons.mp hkp with rfl | hkp
        · exact hk
        · exact h2 kp hkp

theorem insertBy_pairwise {α} (k : α → Int) (x : α) (l : List α) (h : l.Pairwise (fun a b => k a ≤ k b)) :
    (insertBy (fun a b => decide (k a ≤ k b)) x l).Pairwise (fun a b => k a ≤ k b) := by
  induction l with
  | nil => simp [insertBy]
  | cons y ys ih =>
    rw [List.pairwise_cons] at h
    unfold insertBy
    by_cases hxy : k x ≤ k y
    · simp only [hxy, decide_true, if_true]
      rw [List.pairwise_cons]
      refine ⟨?_, List.pairwise_cons.mpr h⟩
      intro z hz
      rcases List.mem_cons.mp hz with rfl | hz
      · exact hxy
      · have := h.1 z hz; omega
    · simp only [hxy, decide_false, Bool.false_eq_true, if_false]
      rw [List.pairwise_cons]
      refine ⟨?_, ih h.2⟩
      intro z hz
      have hz' := (C01.insertBy_perm _ x ys).mem_iff.mp hz
      rcases List.mem_cons.mp hz' with rfl | hz'
      · omega
      · exact h.1 z hz'

theorem stableSort_pairwise {α} (k : α → Int) (l : List α) :
    (stableSort (fun a b => decide (k a ≤ k b)) l).Pairwise (fun a b => k a ≤ k b) := by
  induction l with
  | nil => simp [stableSort]
  | cons x xs ih => exact insertBy_pairwise k x _ ih

/-- `sorted(premises, key=error delta)`: a permutation, ascending in the delta -/
theorem sortPrems_spec {store : List Res} {ps sorted : List Premise} (h : sortPremsByDelta store ps = .ok sorted) :
    sorted.Perm ps ∧
    ∃ keyed : List (Int × Premise), keyed.map (·.2) = sorted ∧ (∀ kp ∈ keyed, kp.2.delta store = .ok kp.1) ∧
      keyed.Pairwise (fun a b => a.1 ≤ b.1) := by
  unfold sortPremsByDelta at h
  simp only [bind, Except.bind] at h
  split at h
  · cases h
  · rename_i keyed hk
    simp only [pure, Except.pure, Except.ok.injEq] at h
    obtain ⟨h1, h2⟩ := mapM_keyed (fun p => p.delta store) ps keyed hk
    have hperm := C01.stableSort_perm (fun (a b : Int × Premise) => decide (a.1 ≤ b.1)) keyed
    refine ⟨?_, stableSort (fun (a b : Int × Premise) => decide (a.1 ≤ b.1)) keyed, h, ?_, ?_⟩
    · rw [← h, ← h1]; exact hperm.map _
    · intro kp hkp; exact h2 kp (hperm.mem_iff.mp hkp)
    · exact stableSort_pairwise (fun (a : Int × Premise) => a.1) keyed

/-- the head of the sorted list has the smallest delta of all premises -/
theorem sortPrems_head_min {store : List Res} {ps rest : List Premise} {bst : Premise}
    (h : sortPremsByDelta store ps = .ok (bst :: rest)) :
    bst ∈ ps ∧ (∀ q ∈ rest, q ∈ ps) ∧
    ∃ db, bst.delta store = .ok db ∧ ∀ q ∈ ps, ∃ dq, q.delta store = .ok dq ∧ db ≤ dq := by
  obtain ⟨hperm, keyed, hk1, hk2, hk3⟩ := sortPrems_spec h
  refine ⟨hperm.mem_iff.mp (by simp), fun q hq => hperm.mem_iff.mp (by simp [hq]), ?_⟩
  cases keyed with
  | nil => simp at hk1
  | cons kb kt =>
    simp only [List.map_cons, List.cons.injEq] at hk1
    obtain ⟨hb, ht⟩ := hk1
    rw [List.pairwise_cons] at hk3
    refine ⟨kb.1, by rw [← hb]; exact hk2 kb (by simp), ?_⟩
    intro q hq
    have hq' : q ∈ bst :: rest := hperm.mem_iff.mpr hq
    rcases List.mem_cons.mp hq' with rfl | hq'
    · exact ⟨kb.1, by rw [← hb]; exact hk2 kb (by simp), by omega⟩
    · rw [← ht] at hq'
      obtain ⟨kq, hkq, rfl⟩ := List.mem_map.mp hq'
      exact ⟨kq.1, hk2 kq (by simp [hkq]), hk3.1 kq hkq⟩

/-- what an accepted general rule did -/
theorem generalRule_ok {err : Int} {store store' : List Res} {fixes fixes' ps : List Premise}
    (h : generalRule err store fixes ps = .ok (store', fixes')) :
    (store' = store ∧ fixes' = fixes) ∨
    (2 ≤ ps.length ∧ ∃ bst nxt rest, sortPremsByDelta store ps = .ok (bst :: nxt :: rest) ∧
      bst.improves store err = .ok true ∧ nxt.improves store err = .ok false ∧
      bst.apply store = .ok store' ∧ fixes' = fixes ++ [bst]) := by
  unfold generalRule at h
  split at h
  · rename_i hlen
    simp only [bind, Except.bind] at h
    cases hs : sortPremsByDelta store ps with
    | error e => rw [hs] at h; cases h
    | ok sorted =>
      rw [hs] at h
      simp only at h
      split at h
      · rename_i bst nxt rest
        cases hb : bst.improves store err with
        | error e => rw [hb] at h; cases h
        | ok bi =>
          rw [hb] at h
          simp only at h
          cases bi with
          | false =>
            simp only [Bool.false_eq_true, if_false, pure, Except.pure, Except.ok.injEq, Prod.mk.injEq] at h
            exact Or.inl ⟨h.1.symm, h.2.symm⟩
          | true =>
            simp only [if_true] at h
            cases hn : nxt.improves store err with
            | error e => rw [hn] at h; cases h
            | ok ni =>
              rw [hn] at h
              simp only at h
              cases ni with
              | true =>
                simp only [not_true_eq_false, if_false, pure, Except.pure, Except.ok.injEq, Prod.mk.injEq] at h
                exact Or.inl ⟨h.1.symm, h.2.symm⟩
              | false =>
                simp only [Bool.false_eq_true, not_false_eq_true, if_true] at h
                cases ha : bst.apply store with
                | error e => rw [ha] at h; cases h
                | ok s =>
                  rw [ha] at h
                  simp only [pure, Except.pure, Except.ok.injEq, Prod.mk.injEq] at h
                  exact Or.inr ⟨by omega, bst, nxt, rest, rfl, hb, hn, by rw [← h.1]; exact ha, h.2.symm⟩
      · simp only [pure, Except.pure, Except.ok.injEq, Prod.mk.injEq] at h
        exact Or.inl ⟨h.1.symm, h.2.symm⟩
  · simp only [pure, Except.pure, Except.ok.injEq, Prod.mk.injEq] at h
    exact Or.inl ⟨h.1.symm, h.2.symm⟩

/-- `apply` rewrites only the result the premise points at -/
theorem apply_only_touches {p : Premise} {store store' : List Res} (h : p.apply store = .ok store') :
    store'.length = store.length ∧ (∀ i, i ≠ p.sid → store'[i]? = store[i]?) ∧
    ∃ o', (match p.kind with
            | .start => (getRes store p.sid).discardStart
            | .stop => (getRes store p.sid).discardEnd) = .ok o' ∧
          store' = store.set p.sid { store.getD p.sid default with o := o' } := by
  unfold Premise.apply at h
  have main : ∀ (r : R OverlapResult),
      (r >>= fun v => (pure (setAt store p.sid { store.getD p.sid default with o := v }) : R (List Res))) = .ok store' →
      store'.length = store.length ∧ (∀ i, i ≠ p.sid → store'[i]? = store[i]?) ∧
        ∃ o', r = .ok o' ∧ store' = store.set p.sid { store.getD p.sid default with o := o' } := by
    intro r hr
    cases r with
    | error e => cases hr
    | ok v =>
      simp only [bind, Except.bind, pure, Except.pure, Except.ok.injEq] at hr
      subst hr
      refine ⟨by simp [setAt], ?_, v, rfl, rfl⟩
      intro i hi
      simp only [setAt]
      rw [List.getElem?_set_ne (by omega)]
  unfold getRes
  cases hk : p.kind with
  | start => rw [hk] at h; exact main (store.getD p.sid default).o.discardStart h
  | stop => rw [hk] at h; exact main (store.getD p.sid default).o.discardEnd h

end AgpTpf.C02
