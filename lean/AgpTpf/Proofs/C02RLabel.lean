/-
  W8-C02RET, part 3: the label fields (`tag`, `haplotype`, `rank`, `original_name`) of the stored results when every
  Pretext scaffold carries no tag, or just `Painted` — what `ChrNamer` will see.
-/
import AgpTpf.Proofs.C09RHap
import AgpTpf.Proofs.C09RMain
import AgpTpf.Proofs.C02RTail
namespace AgpTpf.C02R
open AgpTpf

abbrev FixedT := (Option Str × Option Str × Int × Option Str × Option (List Str) × Fragment) × Bool

/-- untagged, with an original name; rank 3 for an unpainted map (`unp`); haplotype `h0` when every first row's name
    yields the haplotype `h0` (`hp = some h0`; `h0 = none`: no name has the haplotype shape) -/
def labOK (unp : Bool) (hp : Option (Option Str)) (x : FixedT) : Prop :=
  x.1.1 = none ∧ truthy x.1.2.2.2.1 = true ∧ (unp = true → x.1.2.2.1 = 3) ∧ (∀ h0, hp = some h0 → x.1.2.1 = h0)

def LabOK (unp : Bool) (hp : Option (Option Str)) (r : Res) : Prop := labOK unp hp (C09.fixedOf r)

theorem labOK_iff (unp : Bool) (hp : Option (Option Str)) (r : Res) :
    LabOK unp hp r ↔ r.o.tag = none ∧ truthy r.o.originalName = true ∧ (unp = true → r.o.rank = 3) ∧
      (∀ h0, hp = some h0 → r.o.haplotype = h0) := Iff.rfl

theorem labOK_of_map_eq (unp : Bool) (hp : Option (Option Str)) {s1 s2 : List Res} (h : s1.map C09.fixedOf = s2.map C09.fixedOf)
    (h2 : ∀ r ∈ s2, LabOK unp hp r) : ∀ r ∈ s1, LabOK unp hp r := by
  intro r hr
  have : C09.fixedOf r ∈ s2.map C09.fixedOf := by rw [← h]; exact List.mem_map_of_mem hr
  obtain ⟨r', hr', e⟩ := List.mem_map.1 this
  unfold LabOK
  rw [← e]
  exact h2 r' hr'

/-- what the map's Pretext scaffolds look like -/
structure ScOK (unp : Bool) (hp : Option (Option Str)) (S : Scaffold) : Prop where
  name : S.name ≠ []
  stags : S.fragmentTags = [] ∨ S.fragmentTags = [sPainted]
  unp : unp = true → S.fragmentTags = []
  ptags : ∀ p ∈ S.fragments, p.tags = [] ∨ p.tags = [sPainted]
  first : ∃ nm, firstRowName S.rows = .ok nm ∧ (∀ h0, hp = some h0 → hapPrefixOfName nm = h0)

/-- no Target mode, no primary haplotype; at most the one haplotype `g` registered, under its own spelling -/
def NI (hp : Option (Option Str)) (n : Namer) : Prop :=
  n.targetTags = false ∧ n.primaryHaplotype = none ∧
  ∀ g, hp = some (some g) → n.haplotypeLc = [] ∨ n.haplotypeLc = [(lowerStr g, g)]

theorem scan_plain (n : Namer) (tags : List Str) (ht : tags = [] ∨ tags = [sPainted]) :
    ∃ s : TagScan, tags.foldlM scanTag (n, {}) = .ok (n, s) ∧ s.haplotype = none ∧ s.primaryTag = false ∧
      s.scaffoldName = none ∧ s.rank = none ∧ (tags = [] → s.isPainted = false) := by
  rcases ht with rfl | rfl
  · exact ⟨{}, rfl, rfl, rfl, rfl, rfl, fun _ => rfl⟩
  · refine ⟨{ isPainted := true }, ?_, rfl, rfl, rfl, rfl, fun h => by cases h⟩
    have hs : scanTag (n, {}) sPainted = .ok (n, { isPainted := true }) := by
      unfold scanTag; simp
    simp only [List.foldlM_cons, List.foldlM_nil, hs, bind, Except.bind, pure, Except.pure]

theorem msn_plain (n n' : Namer) (scName : Str) (rows : List Row) (tags : List Str)
    (ht : tags = [] ∨ tags = [sPainted]) (h : makeScaffoldName n scName rows tags = .ok n') :
    n'.targetTags = n.targetTags ∧ n'.primaryHaplotype = n.primaryHaplotype ∧ (tags = [] → n'.currentRank = 3) := by
  obtain ⟨s, hs, s1, s2, s3, s4, s5⟩ := scan_plain n tags ht
  rw [C17.makeScaffoldName_eq, hs] at h
  simp only [C10.ok_bind] at h
  rw [C09.bind_eq_ok] at h
  obtain ⟨⟨n2, hap⟩, h2, h⟩ := h
  rw [C09.bind_eq_ok] at h
  obtain ⟨n3, h3, h⟩ := h
  rw [C09.bind_eq_ok] at h
  obtain ⟨p, hp, h⟩ := h
  simp only [pure, Except.pure, Except.ok.injEq] at h
  subst h
  have e3 : n3 = n2 := by
    unfold C17.primStage at h3
    rw [s2] at h3
    simp only [Bool.false_eq_true, false_and, if_false, pure, Except.pure, Except.ok.injEq] at h3
    exact h3.symm
  subst e3
  have e2 : n3.targetTags = n.targetTags ∧ n3.primaryHaplotype = n.primaryHaplotype := by
    unfold C17.hapStage at h2
    rw [s1] at h2
    simp only [truthy, Bool.false_eq_true, if_false] at h2
    rw [C09.bind_eq_ok] at h2
    obtain ⟨nm, _, h2⟩ := h2
    split at h2
    · simp only [pure, Except.pure, Except.ok.injEq, Prod.mk.injEq] at h2
      rw [← h2.1]
      exact ⟨rfl, rfl⟩
    · simp only [pure, Except.pure, Except.ok.injEq, Prod.mk.injEq] at h2
      rw [← h2.1]
      exact ⟨rfl, rfl⟩
  refine ⟨e2.1, e2.2, ?_⟩
  intro h0
  show p.2 = 3
  unfold C17.nameStage at hp
  rw [s3, s5 h0] at hp
  simp only [truthy, Bool.false_eq_true, if_false] at hp
  rw [C09.bind_eq_ok] at hp
  obtain ⟨nm, _, hp⟩ := hp
  simp only [pure, Except.pure, Except.ok.injEq] at hp
  rw [← hp]

/-- the first row names a scaffold of haplotype `g`, and at most `g` is registered (under its own spelling): the current
    haplotype is `g`, and exactly `g` is registered afterwards -/
theorem msn_hap (n n' : Namer) (scName nm g : Str) (rows : List Row) (tags : List Str)
    (ht : tags = [] ∨ tags = [sPainted]) (hfirst : firstRowName rows = .ok nm) (hg : hapPrefixOfName nm = some g)
    (hprim : n.primaryHaplotype = none) (hlc : n.haplotypeLc = [] ∨ n.haplotypeLc = [(lowerStr g, g)])
    (h : makeScaffoldName n scName rows tags = .ok n') :
    n'.currentHaplotype = some g ∧ n'.haplotypeLc = [(lowerStr g, g)] := by
  obtain ⟨s, hs, s1, s2, s3, s4, s5⟩ := scan_plain n tags ht
  rw [C17.makeScaffoldName_eq, hs] at h
  simp only [C10.ok_bind] at h
  rw [C09.bind_eq_ok] at h
  obtain ⟨⟨n2, hap⟩, h2, h⟩ := h
  rw [C09.bind_eq_ok] at h
  obtain ⟨n3, h3, h⟩ := h
  rw [C09.bind_eq_ok] at h
  obtain ⟨p, _, h⟩ := h
  simp only [pure, Except.pure, Except.ok.injEq] at h
  subst h
  have e3 : n3 = n2 := by
    unfold C17.primStage at h3
    rw [s2] at h3
    simp only [Bool.false_eq_true, false_and, if_false, pure, Except.pure, Except.ok.injEq] at h3
    exact h3.symm
  subst e3
  have e2 : n3 = (n.getSetHaplotype g).1 ∧ hap = some (n.getSetHaplotype g).2 := by
    unfold C17.hapStage at h2
    rw [s1] at h2
    simp only [truthy, Bool.false_eq_true, if_false, hfirst, C10.ok_bind, hg, pure, Except.pure, Except.ok.injEq,
      Prod.mk.injEq] at h2
    exact ⟨h2.1.symm, h2.2.symm⟩
  have gs : (n.getSetHaplotype g).2 = g ∧ (n.getSetHaplotype g).1.haplotypeLc = [(lowerStr g, g)] := by
    unfold Namer.getSetHaplotype dSetDefault
    rcases hlc with e | e <;> rw [e] <;> simp [dGet?]
  obtain ⟨e2a, e2b⟩ := e2
  subst e2a
  subst e2b
  have hp3 : (n.getSetHaplotype g).1.primaryHaplotype = none := by rw [C17.getSet_primary]; exact hprim
  refine ⟨?_, gs.2⟩
  show (if truthy (n.getSetHaplotype g).1.primaryHaplotype = true then _ else some (n.getSetHaplotype g).2) = some g
  rw [hp3]
  simp only [truthy, Bool.false_eq_true, if_false]
  rw [gs.1]

theorem tagRule_plain (scTags : List Str) (p : Fragment) (hp : p.tags = [] ∨ p.tags = [sPainted]) :
    C09.tagRule false scTags p = none := by
  unfold C09.tagRule
  rcases hp with e | e <;> rw [e] <;> simp <;> decide

/-- the fragments of one Pretext scaffold -/
theorem processBaits_labOK (unp : Bool) (hp : Option (Option Str)) (input : List Scaffold) (scTags : List Str) (orig : Str)
    (horig : orig ≠ []) (ps : List Fragment) (hps : ∀ p ∈ ps, p.tags = [] ∨ p.tags = [sPainted]) :
    ∀ (b b' : Build), ps.foldlM (processBait input scTags orig) b = .ok b' →
      b.namer.targetTags = false → (unp = true → b.namer.currentRank = 3) →
      (∀ h0, hp = some h0 → b.namer.currentHaplotype = h0) →
      (∀ r ∈ b.store, LabOK unp hp r) →
      C09.SameMode b.namer b'.namer ∧ ∀ r ∈ b'.store, LabOK unp hp r := by
  induction ps with
  | nil =>
    intro b b' h _ _ _ hst
    simp only [List.foldlM_nil, pure, Except.pure, Except.ok.injEq] at h; subst h
    exact ⟨C09.SameMode.refl _, hst⟩
  | cons p t ih =>
    intro b b' h ht hr hh hst
    rw [List.foldlM_cons, C09.bind_eq_ok] at h
    obtain ⟨b1, h1, h2⟩ := h
    obtain ⟨s1, _, hcase⟩ := C09.processBait_label input scTags orig b b1 p h1
    have hst1 : ∀ r ∈ b1.store, LabOK unp hp r := by
      rcases hcase with ⟨_, e⟩ | ⟨_, r, e, r1, r2, r3, _, _, r6⟩
      · rw [e]; exact hst
      · rw [e]
        intro x hx
        rcases List.mem_append.1 hx with hx | hx
        · exact hst x hx
        · simp only [List.mem_cons, List.not_mem_nil, or_false] at hx
          subst hx
          have htag : x.o.tag = none := by rw [r1, ht]; exact tagRule_plain scTags p (hps p (by simp))
          refine ⟨htag, ?_, ?_, ?_⟩
          · show truthy x.o.originalName = true
            rw [r3]
            cases orig with
            | nil => exact absurd rfl horig
            | cons c r => rfl
          · intro hu
            show x.o.rank = 3
            rw [r6, ← r1, htag]
            simp only [truthy, Bool.false_eq_true, if_false]
            exact hr hu
          · intro h0 hn
            show x.o.haplotype = h0
            rw [r2]; exact hh h0 hn
    obtain ⟨s2, hst2⟩ := ih (fun q hq => hps q (by simp [hq])) b1 b' h2 (by rw [s1.1]; exact ht)
      (fun hu => by rw [s1.2.2.1]; exact hr hu) (fun h0 hn => by rw [s1.2.1]; exact hh h0 hn) hst1
    exact ⟨s1.trans s2, hst2⟩

/-- one Pretext scaffold -/
theorem findStep_labOK (unp : Bool) (hp : Option (Option Str)) (input : List Scaffold) (b b' : Build) (S : Scaffold)
    (hS : ScOK unp hp S) (h : C09.findStep input b S = .ok b') (hn : NI hp b.namer)
    (hst : ∀ r ∈ b.store, LabOK unp hp r) : NI hp b'.namer ∧ ∀ r ∈ b'.store, LabOK unp hp r := by
  unfold C09.findStep at h
  rw [C09.bind_eq_ok] at h
  obtain ⟨n, hmk, h⟩ := h
  rw [C09.bind_eq_ok] at h
  obtain ⟨b2, hb2, h⟩ := h
  simp only [pure, Except.pure, Except.ok.injEq] at h
  subst h
  obtain ⟨m1, m2, m3⟩ := msn_plain _ _ _ _ _ hS.stags hmk
  obtain ⟨nm, hfirst, hnm⟩ := hS.first
  have hhap : ∀ h0, hp = some h0 → n.currentHaplotype = h0 := by
    intro h0 hno
    cases h0 with
    | none =>
      refine C09.makeScaffoldName_nohap _ _ _ nm _ _ ?_ ?_ hfirst (hnm none hno) hmk
      · intro t ht
        rcases hS.stags with e | e
        · rw [e] at ht; cases ht
        · rw [e] at ht
          simp only [List.mem_cons, List.not_mem_nil, or_false] at ht
          subst ht; decide
      · rcases hS.stags with e | e <;> rw [e] <;> decide
    | some g =>
      exact (msn_hap _ _ _ nm g _ _ hS.stags hfirst (hnm (some g) hno) hn.2.1 (hn.2.2 g hno) hmk).1
  have hlc : ∀ g, hp = some (some g) → n.haplotypeLc = [] ∨ n.haplotypeLc = [(lowerStr g, g)] := by
    intro g hno
    exact Or.inr (msn_hap _ _ _ nm g _ _ hS.stags hfirst (hnm (some g) hno) hn.2.1 (hn.2.2 g hno) hmk).2
  obtain ⟨sm, hall⟩ := processBaits_labOK unp hp input S.fragmentTags S.name hS.name S.fragments hS.ptags
    { b with namer := n } b2 hb2 (by show n.targetTags = false; rw [m1]; exact hn.1)
    (fun hu => m3 (hS.unp hu)) hhap hst
  refine ⟨⟨?_, ?_, ?_⟩, ?_⟩
  · show b2.namer.targetTags = false
    rw [sm.1]; show n.targetTags = false; rw [m1]; exact hn.1
  · show b2.namer.primaryHaplotype = none
    rw [sm.2.2.2.2]; show n.primaryHaplotype = none; rw [m2]; exact hn.2.1
  · intro g hno
    show b2.namer.haplotypeLc = [] ∨ b2.namer.haplotypeLc = [(lowerStr g, g)]
    rw [sm.2.2.2.1]; exact hlc g hno
  · exact labOK_of_map_eq unp hp (C09.renameBySize_fixedOf _ _) hall

theorem findAssemblyOverlaps_labOK (unp : Bool) (hp : Option (Option Str)) (input ptx : List Scaffold)
    (hsc : ∀ S ∈ ptx, ScOK unp hp S) (b b' : Build) (h : findAssemblyOverlaps input ptx b = .ok b')
    (hn : NI hp b.namer) (hst : ∀ r ∈ b.store, LabOK unp hp r) :
    NI hp b'.namer ∧ ∀ r ∈ b'.store, LabOK unp hp r := by
  rw [C09.findAssemblyOverlaps_eq] at h
  induction ptx generalizing b with
  | nil =>
    simp only [List.foldlM_nil, pure, Except.pure, Except.ok.injEq] at h; subst h
    exact ⟨hn, hst⟩
  | cons S t ih =>
    rw [List.foldlM_cons, C09.bind_eq_ok] at h
    obtain ⟨b1, h1, h2⟩ := h
    obtain ⟨n1, s1⟩ := findStep_labOK unp hp input b b1 S (hsc S (by simp)) h1 hn hst
    exact ih (fun S' hS' => hsc S' (by simp [hS'])) b1 h2 n1 s1

/-- **the stored results of the build `remap_to_input_assembly` returns** -/
theorem remapToInput_labOK (unp : Bool) (hp : Option (Option Str)) (input ptx : List Scaffold) (prefix_ : Str) (joinGap : Option Gap)
    (err : Int) (b : Build) (hsc : ∀ S ∈ ptx, ScOK unp hp S)
    (h : remapToInput input ptx prefix_ joinGap err = .ok b) : ∀ r ∈ b.store, LabOK unp hp r := by
  obtain ⟨b1, b4, h1, _, hfix, _⟩ := C09.remapToInput_summary input ptx prefix_ joinGap err b h
  have := findAssemblyOverlaps_labOK unp hp input ptx hsc _ b1 h1 ⟨rfl, rfl, fun _ _ => Or.inl rfl⟩
    (fun r hr => by cases hr)
  exact labOK_of_map_eq unp hp hfix this.2

end AgpTpf.C02R
