/- asm-format glue: `ValidAgp` — coordinate validity of a whole written AGP text — and the header guarantee of the readers -/
import AgpTpf.Proofs.AsmFormatRun
import AgpTpf.Proofs.C05Header
import AgpTpf.Proofs.C05File
namespace AgpTpf.C06
open AgpTpf AgpTpf.C05 AgpTpf.AsmFormat

/-- the comment line `format_agp` writes for a header text -/
def agpCommentLine (h : Str) : Str := Gen.agpHeaderPrefix ++ h ++ ['\n']

/-- `text` is a coordinate-valid AGP file holding the objects `objs` = (name, length), in this order:
    first comment lines `# …` (one line each: no newline inside), then for every object its lines — columns joined
    by tabs, newline-terminated — which tile the object from 1 to its length with part numbers 1, 2, …
    (`ValidAgpLines`, Proofs/C06Cols.lean; every numeric column is read back with `int()`).
    With `strict`, additionally every line has start ≤ end and every gap line names a gap type.
    NOT part of it: that object names are pairwise different. -/
def ValidAgp (strict : Bool) (text : Str) (objs : List (Str × Int)) : Prop :=
  ∃ (hdr : List Str) (bodies : List (List (List Str))),
    text = (hdr.map agpCommentLine ++ (bodies.map (List.map lineOfCols)).flatten).flatten ∧
    (∀ h ∈ hdr, '\n' ∉ h) ∧
    Forall2 (fun (o : Str × Int) colss => ValidAgpLines strict o.1 0 0 colss o.2) objs bodies

/-- the objects of an assembly as `format_agp` writes them -/
def agpObjects (a : Assembly) : List (Str × Int) := a.scaffolds.map (fun s => (s.name, s.length))

theorem formatAgp_validAgp (strict : Bool) (a : Assembly) (hs : ∀ s ∈ a.scaffolds, ∀ r ∈ s.rows, StrandOk r)
    (hp : strict = true → ∀ s ∈ a.scaffolds, ∀ r ∈ s.rows, RowStrict r) (hh : ∀ h ∈ a.header, '\n' ∉ h) :
    ∃ ls, formatAgp a = .ok ls ∧ ValidAgp strict ls.flatten (agpObjects a) := by
  have := mapM_ok_of_forall (fun s : Scaffold => formatAgpRows s.name 0 0 s.rows)
    (fun s ls => ∃ colss, ls = colss.map lineOfCols ∧ ValidAgpLines strict s.name 0 0 colss s.length) a.scaffolds
    (by
      intro s hsm
      obtain ⟨colss, hc, _, hv⟩ := agpCols_valid strict s.name 0 0 s.rows (fun r hr => (hs s hsm r hr).writable)
        (fun h => hp h s hsm)
      refine ⟨colss.map lineOfCols, by rw [formatAgpRows_eq, hc]; rfl, colss, rfl, ?_⟩
      simpa [Scaffold.length] using hv)
  obtain ⟨ls, hls, hall⟩ := this
  have hex : ∀ (scs : List Scaffold) (ls : List (List Str)),
      Forall2 (fun (s : Scaffold) ls => ∃ colss, ls = colss.map lineOfCols ∧
        ValidAgpLines strict s.name 0 0 colss s.length) scs ls →
      ∃ bodies : List (List (List Str)), ls = bodies.map (List.map lineOfCols) ∧
        Forall2 (fun (o : Str × Int) colss => ValidAgpLines strict o.1 0 0 colss o.2)
          (scs.map (fun s => (s.name, s.length))) bodies := by
    intro scs
    induction scs with
    | nil => intro ls h; cases ls with | nil => exact ⟨[], rfl, trivial⟩ | cons _ _ => exact h.elim
    | cons s t ih =>
      intro ls h
      cases ls with
      | nil => exact h.elim
      | cons l lt =>
        obtain ⟨⟨colss, e, h3⟩, ht⟩ := h
        obtain ⟨bt, ebt, hbt⟩ := ih lt ht
        exact ⟨colss :: bt, by simp [e, ebt], h3, hbt⟩
  obtain ⟨bodies, eb, hb⟩ := hex _ _ hall
  refine ⟨_, by unfold formatAgp; rw [hls]; rfl, a.header, bodies, ?_, hh, hb⟩
  rw [eb]; rfl

/-! ### what the readers put into `asm.header` -/

theorem parseAgpLine_headerOk (st : ParseState) (line : Str) (st' : ParseState) (hp : ∀ h ∈ st.header, HeaderOk h)
    (h : parseAgpLine st line = .ok st') : ∀ h ∈ st'.header, HeaderOk h := by
  rw [parseAgpLine_eq] at h
  by_cases hb : isBlankLine line = true
  · rw [if_pos hb] at h; cases h; exact hp
  · rw [if_neg hb] at h
    by_cases h2 : startsWith ['#', '#'] line = true
    · rw [if_pos h2] at h; cases h; exact hp
    · rw [if_neg h2] at h
      by_cases h1 : startsWith ['#'] line = true
      · rw [if_pos h1] at h
        cases ht : headerText line with
        | none => rw [ht] at h; cases h; exact hp
        | some t =>
          rw [ht] at h; cases h
          intro x hx
          simp only [List.mem_append, List.mem_singleton] at hx
          rcases hx with hx | rfl
          · exact hp x hx
          · exact headerText_ok line _ ht
      · rw [if_neg h1] at h
        obtain ⟨name, r, st'', _, ha, _, e2⟩ := agpFields_ok h
        obtain ⟨_, hhdr, _⟩ := oneRow_of_switch_addRow st name r st'' ha
        rw [e2, hhdr]; exact hp

theorem parseTpfLine_headerOk (st : ParseState) (line : Str) (st' : ParseState) (hp : ∀ h ∈ st.header, HeaderOk h)
    (h : parseTpfLine st line = .ok st') : ∀ h ∈ st'.header, HeaderOk h := by
  rw [parseTpfLine_eq] at h
  by_cases hb : isBlankLine line = true
  · rw [if_pos hb] at h; cases h; exact hp
  · rw [if_neg hb] at h
    by_cases h1 : startsWith ['#'] line = true
    · rw [if_pos h1] at h
      cases ht : headerText line with
      | none => rw [ht] at h; cases h; exact hp
      | some t =>
        rw [ht] at h; cases h
        intro x hx
        simp only [List.mem_append, List.mem_singleton] at hx
        rcases hx with hx | rfl
        · exact hp x hx
        · exact headerText_ok line _ ht
    · rw [if_neg h1] at h
      obtain ⟨_, hhdr⟩ := tpfFields_ok h
      rw [hhdr]; exact hp

/-- PARSER GUARANTEE: every header text of a parsed assembly is `HeaderOk` (non-empty, one line, …) -/
theorem parseFh_headerOk {inFmt : Fmt} {n : Str} {lines : List Str} {asm : Assembly}
    (h : parseFh inFmt n lines = .ok asm) : ∀ x ∈ asm.header, HeaderOk x := by
  obtain ⟨a, h1 | h1, rfl⟩ := parseFh_ok h
  · obtain ⟨st, hf, rfl⟩ := parseAgp_ok h1.2
    exact foldlM_invariant parseAgpLine (fun st => ∀ h ∈ st.header, HeaderOk h) parseAgpLine_headerOk lines {} st
      (by intro x hx; cases hx) hf
  · obtain ⟨st, hf, rfl⟩ := parseTpf_ok h1.2
    exact foldlM_invariant parseTpfLine (fun st => ∀ h ∈ st.header, HeaderOk h) parseTpfLine_headerOk lines {} st
      (by intro x hx; cases hx) hf

theorem HeaderOk.no_nl {h : Str} (hh : HeaderOk h) : '\n' ∉ h := by
  cases h with
  | nil => exact hh.elim
  | cons c t => exact hh.1

/-- a gap row has a positive length and a type (the part of `RowStrict` the readers do NOT guarantee) -/
def GapStrict (r : Row) : Prop :=
  match r with
  | .gap g => 1 ≤ g.length ∧ g.gapType ≠ []
  | .frag _ => True

instance (r : Row) : Decidable (GapStrict r) := by unfold GapStrict; cases r <;> infer_instance

/-- every gap of the assembly has a positive length and a type -/
def GapsStrict (a : Assembly) : Prop := ∀ s ∈ a.scaffolds, ∀ r ∈ s.rows, GapStrict r

instance (a : Assembly) : Decidable (GapsStrict a) := by unfold GapsStrict; infer_instance

theorem rowStrict_of_parsed {r : Row} (hr : RowParsed r) (hg : GapStrict r) : RowStrict r := by
  cases r with
  | gap g => exact hg
  | frag f => exact hr.2

end AgpTpf.C06
