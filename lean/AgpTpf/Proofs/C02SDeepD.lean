/-
  C02 (script model), part 14: the chains of holders of the shared contigs of a script's map; `DeepCutN` (S4, deep cuts).
-/
import AgpTpf.Proofs.C02SDeepC
import AgpTpf.Proofs.C10Rename
namespace AgpTpf.C02
open AgpTpf AgpTpf.Pretext
open AgpTpf.C12 (rowSpan meets meets_iff)

/-! ### list facts -/

/-- in a strictly sorted list, `Adj R` follows from `R` on the pairs that have no element between them -/
theorem adj_intro {α} (κ : α → Int) (R : α → α → Prop) : ∀ l : List α, l.Pairwise (fun a b => κ a < κ b) →
    (∀ a ∈ l, ∀ b ∈ l, κ a < κ b → (∀ m ∈ l, κ m ≤ κ a ∨ κ b ≤ κ m) → R a b) → Adj R l
  | [], _, _ => trivial
  | [_], _, _ => trivial
  | a :: b :: t, hp, h => by
    have hpa := List.pairwise_cons.1 hp
    have hpb := List.pairwise_cons.1 hpa.2
    refine ⟨h a (by simp) b (by simp) (hpa.1 b (by simp)) ?_, adj_intro κ R (b :: t) hpa.2 ?_⟩
    · intro m hm
      rcases List.mem_cons.1 hm with rfl | hm
      · left; omega
      · rcases List.mem_cons.1 hm with rfl | hm
        · right; omega
        · right; have := hpb.1 m hm; omega
    · intro a' ha' b' hb' hlt hbetween
      refine h a' (by simp [ha']) b' (by simp [hb']) hlt ?_
      intro m hm
      rcases List.mem_cons.1 hm with rfl | hm
      · left; have := hpa.1 a' ha'; omega
      · exact hbetween m hm

theorem spans_tri {l : List (Nat × Nat)} (hp : l.Pairwise (fun x y => x.2 < y.1)) {x y : Nat × Nat} (hx : x ∈ l)
    (hy : y ∈ l) : x = y ∨ x.2 < y.1 ∨ y.2 < x.1 := by
  refine List.Pairwise.forall_of_forall_of_flip (R := fun x y => x = y ∨ x.2 < y.1 ∨ y.2 < x.1) ?_ ?_ ?_ hx hy
  · intro x _; exact Or.inl rfl
  · exact hp.imp (fun h => Or.inr (Or.inl h))
  · exact hp.imp (fun h => Or.inr (Or.inr h))

/-! ### the chain of one shared contig -/

/-- the data of a holder of the contig in row `r` of scaffold `i` -/
def HolderAt (_input : List Scaffold) (s : Script) (i : Nat) (sc : Scaffold) (c : ScafScript) (r n : Nat)
    (bx : Bool × Placed) (ab : Nat × Nat) : Prop :=
  (itemsT s)[n]? = some bx ∧ bx.2.sc = i ∧ (c.spans s.p s.q)[bx.2.k]? = some ab ∧ meets sc.rows ab.1 ab.2 r = true

theorem holder_start {input : List Scaffold} {s : Script} (hw : WfScript input s) (hin : InputBase input) {i : Nat}
    {sc : Scaffold} {c : ScafScript} (hsc : input[i]? = some sc) (hc : s.scafs[i]? = some c) {r n : Nat}
    {bx : Bool × Placed} {ab : Nat × Nat} (h : HolderAt input s i sc c r n bx ab) :
    (pieceAt (ptxOf input s) n).2.start = (ab.1 : Int) ∧ c.present = true ∧
      ab ∈ spansFrom s.p s.q 0 (c.cuts ++ [c.T]) := by
  obtain ⟨x, hx, hs, -, hp, hm, -⟩ := holder_facts hw hin hsc hc h.1 h.2.1 h.2.2.1 h.2.2.2
  rw [(pieceAt_of_getElem? hx).1]
  exact ⟨hs, hp, hm⟩

/-- two different holders are different pieces of the scaffold: their spans are disjoint -/
theorem holders_disjoint {input : List Scaffold} {s : Script} (hw : WfScript input s) {i : Nat} {sc : Scaffold}
    {c : ScafScript} (hsc : input[i]? = some sc) (hc : s.scafs[i]? = some c) (hp : c.present = true) {r a b : Nat}
    {bxa bxb : Bool × Placed} {aba abb : Nat × Nat} (ha : HolderAt input s i sc c r a bxa aba)
    (hb : HolderAt input s i sc c r b bxb abb) (hne : a ≠ b) : aba.2 < abb.1 ∨ abb.2 < aba.1 := by
  have hpw := List.pairwise_iff_getElem.1 (itemsT_pairwise hw)
  have hla : a < (itemsT s).length := by
    by_cases h : a < (itemsT s).length
    · exact h
    · have := ha.1; rw [List.getElem?_eq_none (by omega)] at this; cases this
  have hlb : b < (itemsT s).length := by
    by_cases h : b < (itemsT s).length
    · exact h
    · have := hb.1; rw [List.getElem?_eq_none (by omega)] at this; cases this
  have ea : (itemsT s)[a] = bxa := by have := ha.1; rw [List.getElem?_eq_getElem hla] at this; simpa using this
  have eb : (itemsT s)[b] = bxb := by have := hb.1; rw [List.getElem?_eq_getElem hlb] at this; simpa using this
  have hids : (bxa.2.sc, bxa.2.k) ≠ (bxb.2.sc, bxb.2.k) := by
    rcases Nat.lt_or_gt_of_ne hne with h | h
    · have := hpw a b hla hlb h; rw [ea, eb] at this; exact this
    · have := hpw b a hlb hla h; rw [ea, eb] at this; exact fun e => this e.symm
  have hk : bxa.2.k ≠ bxb.2.k := by
    intro e
    exact hids (by rw [ha.2.1, hb.2.1, e])
  have hinc := wf_inc (hw.scaf i sc c hsc hc) hp
  have hsp := spansFrom_pairwise hw.hq hw.hpq hinc
  rw [← spans_present hp] at hsp
  have hpg := List.pairwise_iff_getElem.1 hsp
  have hka : bxa.2.k < (c.spans s.p s.q).length := by
    by_cases h : bxa.2.k < (c.spans s.p s.q).length
    · exact h
    · have := ha.2.2.1; rw [List.getElem?_eq_none (by omega)] at this; cases this
  have hkb : bxb.2.k < (c.spans s.p s.q).length := by
    by_cases h : bxb.2.k < (c.spans s.p s.q).length
    · exact h
    · have := hb.2.2.1; rw [List.getElem?_eq_none (by omega)] at this; cases this
  have ea' : (c.spans s.p s.q)[bxa.2.k] = aba := by
    have := ha.2.2.1; rw [List.getElem?_eq_getElem hka] at this; simpa using this
  have eb' : (c.spans s.p s.q)[bxb.2.k] = abb := by
    have := hb.2.2.1; rw [List.getElem?_eq_getElem hkb] at this; simpa using this
  rcases Nat.lt_or_gt_of_ne hk with h | h
  · left; have := hpg _ _ hka hkb h; rw [ea', eb'] at this; exact this
  · right; have := hpg _ _ hkb hka h; rw [ea', eb'] at this; exact this

/-- **the chain of a shared contig satisfies `ChainOk`** -/
theorem script_chain_ok {input : List Scaffold} {s : Script} (hw : WfScript input s) (hin : InputOk input)
    (hd : DeepScript input s)
    (hstr : ∀ sc ∈ input, ∀ f ∈ sc.fragments, f.strand = 1 ∨ f.strand = -1)
    (x : SiteN) (hx : x ∈ sitesN input (ptxOf input s)) :
    ChainOk input (ptxOf input s) (errLen s.p s.q : Int) x := by
  have hinb := hin.toInputBase
  unfold sitesN at hx
  obtain ⟨key, hkey, rfl⟩ := List.mem_map.1 hx
  obtain ⟨fnd, hget, hfkey, -, hsite⟩ := site_casesN input (ptxOf input s) key hkey
  have hH : holdersOf input (ptxOf input s) key = fnd.scaffolds := by unfold holdersOf; rw [hget]
  -- the registered Fragment object is a contig row of an input scaffold
  obtain ⟨i, sc, r, hsc, hr⟩ : ∃ (i : Nat) (sc : Scaffold) (r : Nat), input[i]? = some sc ∧ sc.rows[r]? = some (Row.frag fnd.fragment) := by
    obtain ⟨x0, hx0, hf0⟩ := regOf_fragment input (ptxOf input s) key fnd hget
    obtain ⟨n0, hn0⟩ := List.mem_iff_getElem?.1 hx0
    obtain ⟨bx0, hbx0, hpf0⟩ := piece_at hw hn0
    obtain ⟨hfound, -⟩ := piece_keep hw hinb hd (mem_of_getElem? hbx0) hpf0
    obtain ⟨sc, hfind, hfo⟩ := lookupPiece_spec hfound
    have hscm : sc ∈ input := List.mem_of_find?_eq_some hfind
    obtain ⟨r, hr, -⟩ := (mem_lookup (hin.lens sc hscm) hfo fnd.fragment).1 hf0
    obtain ⟨i, hi⟩ := List.mem_iff_getElem?.1 hscm
    exact ⟨i, sc, r, hi, hr⟩
  have hscm : sc ∈ input := mem_of_getElem? hsc
  have hlen := hin.lens sc hscm
  have hstrF := hstr sc hscm _ (frag_mem_fragments hr)
  have hci : i < s.scafs.length := by
    rw [hw.len]
    by_cases h : i < input.length
    · exact h
    · rw [List.getElem?_eq_none (by omega)] at hsc; cases hsc
  have hc : s.scafs[i]? = some s.scafs[i] := List.getElem?_eq_getElem hci
  generalize s.scafs[i] = c at hc
  -- holders
  have hhold : ∀ n, n ∈ fnd.scaffolds ↔ ∃ bx ab, HolderAt input s i sc c r n bx ab := by
    intro n
    rw [← hH, ← hfkey, holder_iff hw hinb hsc hr n]
    constructor
    · rintro ⟨bx, c', ab, h1, h2, h3, h4, h5⟩
      rw [hc] at h3; cases h3
      exact ⟨bx, ab, h1, h2, h4, h5⟩
    · rintro ⟨bx, ab, h1, h2, h4, h5⟩
      exact ⟨bx, c, ab, h1, h2, hc, h4, h5⟩
  have hnodupH : fnd.scaffolds.Nodup := by
    rw [← hH]
    apply holdersOf_nodup
    intro x0 hx0
    obtain ⟨n0, hn0⟩ := List.mem_iff_getElem?.1 hx0
    obtain ⟨bx0, hbx0, hpf0⟩ := piece_at hw hn0
    have := itemKeys_nodup hw hinb (mem_of_getElem? hbx0)
    unfold itemKeys at this
    rw [hpf0] at this
    exact this
  -- the chain
  rw [hsite]
  unfold ChainOk
  show Adj _ (sortByIntKey (fun n => (pieceAt (ptxOf input s) n).2.start) fnd.scaffolds)
  have hperm : (sortByIntKey (fun n => (pieceAt (ptxOf input s) n).2.start) fnd.scaffolds).Perm fnd.scaffolds :=
    C01.stableSort_perm _ _
  have hsorted : (sortByIntKey (fun n => (pieceAt (ptxOf input s) n).2.start) fnd.scaffolds).Pairwise
      (fun a b => (pieceAt (ptxOf input s) a).2.start ≤ (pieceAt (ptxOf input s) b).2.start) := by
    have := C10.stableSort_sorted
      (fun a b : Nat => decide ((pieceAt (ptxOf input s) a).2.start ≤ (pieceAt (ptxOf input s) b).2.start))
      (by intro a b; simp only [decide_eq_true_eq]; omega)
      (by intro a b c; simp only [decide_eq_true_eq]; omega) fnd.scaffolds
    simp only [decide_eq_true_eq] at this
    exact this
  generalize hch : sortByIntKey (fun n => (pieceAt (ptxOf input s) n).2.start) fnd.scaffolds = chain at hperm hsorted ⊢
  have hmemc : ∀ n, n ∈ chain ↔ ∃ bx ab, HolderAt input s i sc c r n bx ab := by
    intro n; rw [hperm.mem_iff]; exact hhold n
  have hnodupC : chain.Nodup := (hperm.nodup_iff).2 hnodupH
  -- strictly sorted
  have hstrict : chain.Pairwise
      (fun a b => (pieceAt (ptxOf input s) a).2.start < (pieceAt (ptxOf input s) b).2.start) := by
    have h2 := hsorted.and (List.nodup_iff_pairwise_ne.1 hnodupC)
    refine List.Pairwise.imp_of_mem ?_ h2
    intro a b ha hb hab
    obtain ⟨bxa, aba, hha⟩ := (hmemc a).1 ha
    obtain ⟨bxb, abb, hhb⟩ := (hmemc b).1 hb
    obtain ⟨hsa, hp, hma⟩ := holder_start hw hinb hsc hc hha
    obtain ⟨hsb, -, hmb⟩ := holder_start hw hinb hsc hc hhb
    have hbda := spansFrom_bounds hw.hq hw.hpq (wf_inc (hw.scaf i sc c hsc hc) hp) hma
    have hbdb := spansFrom_bounds hw.hq hw.hpq (wf_inc (hw.scaf i sc c hsc hc) hp) hmb
    have := holders_disjoint hw hsc hc hp hha hhb hab.2
    have h1 := hab.1
    rw [hsa, hsb] at h1 ⊢
    omega
  apply adj_intro (fun n => (pieceAt (ptxOf input s) n).2.start) _ chain hstrict
  intro a ha b hb hlt hbetween
  obtain ⟨bxa, aba, hha⟩ := (hmemc a).1 ha
  obtain ⟨bxb, abb, hhb⟩ := (hmemc b).1 hb
  obtain ⟨hsa, hp, hma⟩ := holder_start hw hinb hsc hc hha
  obtain ⟨hsb, -, hmb⟩ := holder_start hw hinb hsc hc hhb
  have hinc := wf_inc (hw.scaf i sc c hsc hc) hp
  have hbda := spansFrom_bounds hw.hq hw.hpq hinc hma
  have hbdb := spansFrom_bounds hw.hq hw.hpq hinc hmb
  have hsp := spansFrom_pairwise hw.hq hw.hpq hinc
  rw [hsa, hsb] at hlt
  have hne : a ≠ b := by intro e; subst e; omega
  have hdis := holders_disjoint hw hsc hc hp hha hhb hne
  have hab1 : aba.2 < abb.1 := by omega
  -- the pieces abut: otherwise the piece covering `aba.2 + 1` would be a holder between them
  have habut : aba.2 + 1 = abb.1 := by
    by_cases e : aba.2 + 1 = abb.1
    · exact e
    · exfalso
      obtain ⟨abm, hmm, hz1, hz2⟩ := spansFrom_cover (p := s.p) (q := s.q) (a := 0) (T := c.T) (cuts := c.cuts)
        (aba.2 + 1) (by omega) (by omega)
      have hmm' : abm ∈ c.spans s.p s.q := by rw [spans_present hp]; exact hmm
      obtain ⟨km, hkm, hkme⟩ := List.mem_iff_getElem.1 hmm'
      obtain ⟨bxm, hbxm, e1, e2⟩ := placed_of_id hw hc hkm
      obtain ⟨m, hm⟩ := List.mem_iff_getElem?.1 hbxm
      obtain ⟨_, _, hra1, hra2⟩ := (meets_iff _ _ _ _).1 hha.2.2.2
      obtain ⟨_, _, hrb1, hrb2⟩ := (meets_iff _ _ _ _).1 hhb.2.2.2
      have hmeet : meets sc.rows abm.1 abm.2 r = true :=
        (meets_iff _ _ _ _).2 ⟨_, hr, by omega, by omega⟩
      have hhm : HolderAt input s i sc c r m bxm abm :=
        ⟨hm, e1, by rw [e2, List.getElem?_eq_getElem hkm, hkme], hmeet⟩
      have hmc : m ∈ chain := (hmemc m).2 ⟨bxm, abm, hhm⟩
      obtain ⟨hsm, -, -⟩ := holder_start hw hinb hsc hc hhm
      have hbdm := spansFrom_bounds hw.hq hw.hpq hinc hmm
      rcases hbetween m hmc with h | h
      · rw [hsm, hsa] at h
        rcases spans_tri hsp hmm hma with e' | e' | e'
        · rw [e'] at hz2; omega
        · omega
        · omega
      · rw [hsm, hsb] at h
        omega
  have hso := site_ok hw hinb hd hsc hc hr hstrF hha.1 hha.2.1 hha.2.2.1 hha.2.2.2 hhb.1 hhb.2.1 hhb.2.2.1 hhb.2.2.2 habut
  rw [hfkey] at hso
  exact hso

/-- **S4, deep cuts.**  The map of a well-formed, unpainted script whose interior cuts fall between contigs or deeper than
    `3·errLen` inside a contig is in the class `DeepCutN`. -/
theorem script_deepCutN {input : List Scaffold} {s : Script} (hw : WfScript input s) (hin : InputOk input)
    (hoid : ∀ sc ∈ input, (C18.ids sc.rows).Nodup)
    (hstr : ∀ sc ∈ input, ∀ f ∈ sc.fragments, f.strand = 1 ∨ f.strand = -1)
    (hd : DeepScript input s) (hh : HeadsOk input s) (ht : TailOk input s)
    (hup : ∀ g ∈ s.groups, g.painted = false) :
    DeepCutN input (ptxOf input s) (errLen s.p s.q : Int) :=
  ⟨script_deepBase hw hin hoid hd hh ht hup, fun x hx => script_chain_ok hw hin hd hstr x hx⟩

end AgpTpf.C02
