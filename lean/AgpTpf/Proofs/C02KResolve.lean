/-
  C02 core (task W6-C02CORE), helper part 5: the overhang resolver keeps `StoreR`.
  Every premise `make_fixes` applies passed one of the two guards of `fixOne` — the two-premise rule (bait overlap
  `< err`) or `improves` (what-if overhang `> −3·err`) — and it still points at the current first / last row of its
  result (`Valid`, C01).  Under the two-premise rule the contig is held by a second result; with pairwise disjoint baits
  it therefore is not wholly inside the bait (`sticks_out_*`), which is the side condition of `GStep.startA/endA`.
-/
import AgpTpf.Proofs.C02KBuild
import AgpTpf.Properties.C02
import AgpTpf.Proofs.C01MiddleFinal
import AgpTpf.Proofs.C07ChainC
namespace AgpTpf.C02
open AgpTpf OverlapResult
open AgpTpf.C18 (Inv ids)
open AgpTpf.C01 (WFInput inputFrags FragDisjoint foldlM_inv Mid FInv Valid holders holdCount resFrags hasKey fixAt fixOf
  storeFrags)

/-! ### one step of the `make_fixes` loop keeps C01's loop invariant (the `cons` case of `C01.fixFold`, as a lemma) -/

theorem finv_step (input : List Scaffold) (b : Build) (err : Int) (e : Key × List Premise) (rest : List (Key × List Premise))
    (store : List Res) (fixes : List Premise) (store1 : List Res) (fixes1 : List Premise)
    (hinv : FInv input b (e :: rest) store fixes) (hst1 : fixOne err (store, fixes) e.2 = .ok (store1, fixes1)) :
    FInv input b rest store1 fixes1 := by
  have hnd := hinv.restNodup
  rw [List.map_cons, List.nodup_cons] at hnd
  rcases C01.fixOne_cases _ _ _ _ _ _ hst1 with ⟨rfl, rfl⟩ | ⟨p, hpe, happ, rfl⟩
  · exact ⟨hinv.counts, hinv.total, fun e' he' => hinv.valid e' (List.mem_cons_of_mem _ he'), hnd.2,
      hinv.fixNodup, fun q hq => ⟨(hinv.fixKeys q hq).1, fun hm =>
        (hinv.fixKeys q hq).2 (by rw [List.map_cons]; exact List.mem_cons_of_mem _ hm)⟩, hinv.slices⟩
  · obtain ⟨hval, hkey, hmulti⟩ := hinv.valid e (List.mem_cons_self ..) p hpe
    obtain ⟨r, o', hr, hadd, hset, hinf, hcnt, hl, hh⟩ := C01.apply_spec p store store1 hval happ
    have hpk : match p.kind with
        | .start => r.o.rows.head? = some (.frag p.fragment)
        | .stop => r.o.rows.getLast? = some (.frag p.fragment) := by
      obtain ⟨r2, hr2, _, hk2⟩ := hval
      rw [hr] at hr2; cases hr2; exact hk2
    have hres : ∀ q : Fragment → Bool, (resFrags r).countP q =
        (resFrags { r with o := o' }).countP q + (if q p.fragment then 1 else 0) := by
      intro q; simp only [resFrags, hadd, ↓reduceIte]; exact hcnt q
    subst hset
    refine ⟨?_, ?_, ?_, hnd.2, ?_, ?_, ?_⟩
    · intro k s
      rw [C01.holdCount_set _ _ _ _ hr, List.countP_append, List.countP_cons, List.countP_nil]
      have h0 := hinv.counts k s
      by_cases hs : s = p.sid
      · subst hs
        rw [C01.holdCount_self _ _ _ hr, hres (hasKey k)] at h0
        by_cases hk : p.fragment.keyTuple = k
        · simp only [↓reduceIte, fixAt, hasKey, hk, and_true, decide_true] at h0 ⊢
          omega
        · simp only [↓reduceIte, fixAt, hasKey, hk, and_true, decide_false, Bool.false_eq_true] at h0 ⊢
          omega
      · have : fixAt k s p = false := by
          simp only [fixAt, decide_eq_false_iff_not]; exact fun ⟨_, e⟩ => hs e.symm
        simp only [hs, ↓reduceIte, this, Bool.false_eq_true] at h0 ⊢
        omega
    · intro k
      have h0 := hinv.total k
      have h1 := C01.storeFrags_set_count (hasKey k) store p.sid r { r with o := o' } hr
      rw [hres (hasKey k)] at h1
      rw [List.countP_append, List.countP_cons, List.countP_nil]
      by_cases hk : p.fragment.keyTuple = k
      · simp only [fixOf, hasKey, hk, decide_true, ↓reduceIte] at h0 h1 ⊢
        omega
      · simp only [fixOf, hasKey, hk, decide_false, Bool.false_eq_true, ↓reduceIte] at h0 h1 ⊢
        omega
    · intro e' he' q hq
      obtain ⟨hvq, hkq, hmq⟩ := hinv.valid e' (List.mem_cons_of_mem _ he') q hq
      refine ⟨?_, hkq, hmq⟩
      have hne : q.fragment ≠ p.fragment := by
        intro heq
        apply hnd.1
        rw [← hkey, ← heq, hkq]
        exact List.mem_map_of_mem he'
      exact C01.valid_after_apply store p q r o' hr hne hvq hpk hl hh
    · rw [List.map_append, List.nodup_append]
      refine ⟨hinv.fixNodup, by simp, ?_⟩
      intro a ha c hc
      simp only [List.map_cons, List.map_nil, List.mem_cons, List.not_mem_nil, or_false] at hc
      subst hc
      obtain ⟨q, hq, rfl⟩ := List.mem_map.mp ha
      intro heq
      apply (hinv.fixKeys q hq).2
      rw [heq, hkey, List.map_cons]
      exact List.mem_cons_self ..
    · intro q hq
      rcases List.mem_append.mp hq with hq | hq
      · exact ⟨(hinv.fixKeys q hq).1, fun hm =>
          (hinv.fixKeys q hq).2 (by rw [List.map_cons]; exact List.mem_cons_of_mem _ hm)⟩
      · simp only [List.mem_cons, List.not_mem_nil, or_false] at hq
        subst hq
        exact ⟨hkey ▸ hmulti, hkey ▸ hnd.1⟩
    · intro x hx
      rcases List.mem_or_eq_of_mem_set hx with hx | rfl
      · exact hinv.slices x hx
      · obtain ⟨sc, hsc, hi⟩ := hinv.slices r (List.mem_of_getElem? hr)
        exact ⟨sc, hsc, hinf.trans hi⟩

/-! ### `fixOne` applies a premise only under one of its two guards -/

theorem fixOne_guarded {err : Int} {store store' : List Res} {fixes fixes' ps : List Premise}
    (h : fixOne err (store, fixes) ps = .ok (store', fixes')) :
    (store' = store ∧ fixes' = fixes) ∨
    ∃ p ∈ ps, p.apply store = .ok store' ∧ fixes' = fixes ++ [p] ∧
      ((∃ ov, p.baitOverlap store = .ok ov ∧ ov < err) ∨ p.improves store err = .ok true) := by
  have gen : generalRule err store fixes ps = .ok (store', fixes') →
      (store' = store ∧ fixes' = fixes) ∨
      ∃ p ∈ ps, p.apply store = .ok store' ∧ fixes' = fixes ++ [p] ∧
        ((∃ ov, p.baitOverlap store = .ok ov ∧ ov < err) ∨ p.improves store err = .ok true) := by
    intro hg
    rcases general_rule hg with h0 | ⟨_, bst, nxt, rest, _, hperm, _, hb, _, ha, hf⟩
    · exact Or.inl h0
    · exact Or.inr ⟨bst, hperm.subset (List.mem_cons_self ..), ha, hf, Or.inr hb⟩
  by_cases h2 : ps.length = 2
  · obtain ⟨frst, scnd, rfl⟩ : ∃ a b, ps = [a, b] := by
      match ps, h2 with
      | [a, b], _ => exact ⟨a, b, rfl⟩
    obtain ⟨fo, hfo, hc⟩ := two_premise_rule h
    rcases hc with ⟨hlt, so, hso, hlt2, ha, hf⟩ | ⟨_, hg⟩
    · right
      by_cases h3 : fo < so
      · rw [if_pos h3] at ha hf
        exact ⟨frst, by simp, ha, hf, Or.inl ⟨fo, hfo, hlt⟩⟩
      · rw [if_neg h3] at ha hf
        exact ⟨scnd, by simp, ha, hf, Or.inl ⟨so, hso, hlt2⟩⟩
    · exact gen hg
  · rw [not_two_premises err store fixes ps h2] at h
    exact gen h

/-! ### the second holder of a contig in `multi` -/

theorem exists_other {l : List Nat} (x : Nat) (h2 : 2 ≤ l.length) (hc : ∀ s, l.count s ≤ 1) : ∃ s ∈ l, s ≠ x := by
  match l, h2 with
  | a :: c :: t, _ =>
    by_cases ha : a = x
    · by_cases hcx : c = x
      · exfalso
        have := hc x
        rw [ha, hcx] at this
        simp at this
      · exact ⟨c, by simp, hcx⟩
    · exact ⟨a, by simp, ha⟩

theorem other_holder {input : List Scaffold} (hwf : WFInput input) {b : Build} (hm : Mid input b)
    {e : Key × List Premise} {rest : List (Key × List Premise)} {store : List Res} {fixes : List Premise}
    (hF : FInv input b (e :: rest) store fixes) {p : Premise} (hp : p ∈ e.2) :
    ∃ s' r', s' ≠ p.sid ∧ store[s']? = some r' ∧ Row.frag p.fragment ∈ r'.o.rows := by
  obtain ⟨hval, hkey, hmulti⟩ := hF.valid e (List.mem_cons_self ..) p hp
  have h2 : 2 ≤ (holders b e.1).length := (hm.registry.2 _).mp hmulti
  have hle : ∀ s, (holders b e.1).count s ≤ 1 := fun s => by rw [hm.counts]; exact hm.holdCount_le_one hwf _ _
  obtain ⟨s', hs', hne⟩ := exists_other p.sid h2 hle
  have hpos : 0 < holdCount b.store e.1 s' := by rw [← hm.counts]; exact List.count_pos_iff.mpr hs'
  have hfix0 : fixes.countP (fixAt e.1 s') = 0 := by
    rw [List.countP_eq_zero]
    intro q hq
    simp only [fixAt, decide_eq_true_eq, not_and]
    intro hk
    exact absurd (by rw [hk]; simp) (hF.fixKeys q hq).2
  have hcount := hF.counts e.1 s'
  rw [hfix0] at hcount
  have hpos' : 0 < holdCount store e.1 s' := by omega
  unfold holdCount at hpos'
  cases hs : store[s']? with
  | none => rw [hs] at hpos'; simp at hpos'
  | some r' =>
    rw [hs] at hpos'
    simp only at hpos'
    obtain ⟨g, hg, hgk⟩ := List.countP_pos_iff.mp hpos'
    have hg' : g ∈ fragmentsOf r'.o.rows := by
      unfold resFrags at hg
      split at hg
      · exact hg
      · cases hg
    have hgk' : g.keyTuple = e.1 := by simpa [hasKey] using hgk
    obtain ⟨sc', hsc', hinf'⟩ := hF.slices r' (List.mem_of_getElem? hs)
    have hgin : g ∈ inputFrags input := C01.mem_inputFrags.mpr ⟨sc', hsc', C01.fragmentsOf_infix hinf' g hg'⟩
    obtain ⟨r, hr, _, hk⟩ := hval
    have hpm : Row.frag p.fragment ∈ r.o.rows := by
      cases hkind : p.kind with
      | start => rw [hkind] at hk; exact List.mem_of_head? hk
      | stop => rw [hkind] at hk; exact List.mem_of_getLast? hk
    obtain ⟨sc, hsc, hinf⟩ := hF.slices r (List.mem_of_getElem? hr)
    have hpin : p.fragment ∈ inputFrags input :=
      C01.mem_inputFrags.mpr ⟨sc, hsc, C01.fragmentsOf_infix hinf _ (C01.mem_fragmentsOf.mpr hpm)⟩
    have : g = p.fragment := hwf.key_inj hgin hpin (hgk'.trans hkey.symm)
    subst this
    exact ⟨s', r', hne, hs, C01.mem_fragmentsOf.mp hg'⟩

/-! ### pairwise disjoint baits -/

/-- the baits of the stored results are pairwise disjoint intervals (per input scaffold name) -/
def BaitsDisj (store : List Res) : Prop := (store.map (·.o.bait)).Pairwise FragDisjoint

theorem fragDisjoint_symm {f g : Fragment} (h : FragDisjoint f g) : FragDisjoint g f := by
  intro hn
  rcases h hn.symm with h | h
  · exact Or.inr h
  · exact Or.inl h

theorem baitsDisj_get {store : List Res} (hD : BaitsDisj store) {i j : Nat} {r r' : Res} (hne : i ≠ j)
    (hi : store[i]? = some r) (hj : store[j]? = some r') : FragDisjoint r.o.bait r'.o.bait := by
  unfold BaitsDisj at hD
  rw [List.pairwise_iff_getElem] at hD
  obtain ⟨hil, hie⟩ := List.getElem?_eq_some_iff.mp hi
  obtain ⟨hjl, hje⟩ := List.getElem?_eq_some_iff.mp hj
  rcases Nat.lt_or_gt_of_ne hne with hlt | hlt
  · have := hD i j (by simpa using hil) (by simpa using hjl) hlt
    simpa [hie, hje] using this
  · have := hD j i (by simpa using hjl) (by simpa using hil) hlt
    exact fragDisjoint_symm (by simpa [hie, hje] using this)

/-! ### applying a guarded premise keeps `StoreR` -/

theorem storeR_apply {input : List Scaffold} (hwf : WFInput input) (hnn : InputNonNeg input) {err : Int} (herr : 0 ≤ err)
    {b : Build} (hm : Mid input b) {e : Key × List Premise} {rest : List (Key × List Premise)} {store : List Res}
    {fixes : List Premise} (hF : FInv input b (e :: rest) store fixes) (hS : StoreR input err store)
    (hD : BaitsDisj store) {p : Premise} (hp : p ∈ e.2) {store1 : List Res} (happ : p.apply store = .ok store1)
    (hg : (∃ ov, p.baitOverlap store = .ok ov ∧ ov < err) ∨ p.improves store err = .ok true) :
    StoreR input err store1 ∧ store1.map (·.o.bait) = store.map (·.o.bait) := by
  obtain ⟨hval, _, _⟩ := hF.valid e (List.mem_cons_self ..) p hp
  obtain ⟨r, hr, _, hk⟩ := hval
  have hgetD : store.getD p.sid default = r := C01.getD_of_getElem? hr
  have hgetRes : getRes store p.sid = r.o := by unfold getRes; rw [hgetD]
  obtain ⟨_, _, o', hdisc, hset⟩ := apply_only_touches happ
  rw [hgetRes] at hdisc
  rw [hgetD] at hset
  obtain ⟨sc, o0, hsc, hname, hlook, hK, hG, hSf⟩ := hS r (List.mem_of_getElem? hr)
  have hlen := hnn sc hsc
  -- the sticking-out fact for guard (a)
  have hother := other_holder hwf hm hF hp
  have hgeo2 : ∀ s' r', s' ≠ p.sid → store[s']? = some r' → Row.frag p.fragment ∈ r'.o.rows →
      Row.frag p.fragment ∈ r.o.rows → RGeo sc.rows r'.o ∧ r.o.bait.name = r'.o.bait.name ∧ FragDisjoint r.o.bait r'.o.bait := by
    intro s' r' hne hs' hm' hmr
    obtain ⟨sc', o0', hsc', hname', _, _, hG', _⟩ := hS r' (List.mem_of_getElem? hs')
    obtain ⟨A, B, hsl, _⟩ := hG.slice
    obtain ⟨A', B', hsl', _⟩ := hG'.slice
    have hf1 : Row.frag p.fragment ∈ sc.rows := by rw [hsl]; simp [hmr]
    have hf2 : Row.frag p.fragment ∈ sc'.rows := by rw [hsl']; simp [hm']
    have : sc = sc' := scaffold_unique hwf hsc hsc' hf1 hf2
    subst this
    exact ⟨hG', hname.symm.trans hname', baitsDisj_get hD (fun h => hne h.symm) hr hs'⟩
  have key : RRes input err o' ∧ o'.bait = r.o.bait := by
    cases hkind : p.kind with
    | start =>
      rw [hkind] at hk hdisc
      simp only at hk hdisc
      obtain ⟨t, hrows⟩ := List.head?_eq_some_iff.mp hk
      obtain ⟨_, _, _, _, _, _, hb⟩ := discardStart_full hdisc
      have hK' : KInv sc.rows (3 * err) o0.start o0.stop r.o.bait o' := by
        rcases hg with ⟨ov, hov, hlt⟩ | himp
        · simp only [Premise.baitOverlap, hkind, hgetRes] at hov
          obtain ⟨s', r', hne, hs', hm'⟩ := hother
          obtain ⟨hG', hnm, hdis⟩ := hgeo2 s' r' hne hs' hm' (by rw [hrows]; simp)
          exact kinv_startA hlen herr hK hrows hov hlt (sticks_out_start hG hG' hnm hdis hrows hm') hdisc
        · obtain ⟨_, a, ha, hgt, _⟩ := improves_guard himp
          simp only [Premise.overhangIfApplied, hkind, hgetRes] at ha
          exact kinv_startB hlen hK ha hgt hdisc
      have hS' : SafeKept sc.rows err (3 * err) o' := by
        rcases hg with ⟨ov, hov, hlt⟩ | himp
        · simp only [Premise.baitOverlap, hkind, hgetRes] at hov
          exact safeKept_discardStart hlen hG hSf hdisc (Or.inl ⟨ov, hov, hlt⟩)
        · obtain ⟨_, a, ha, hgt, _⟩ := improves_guard himp
          simp only [Premise.overhangIfApplied, hkind, hgetRes] at ha
          exact safeKept_discardStart hlen hG hSf hdisc (Or.inr (startB_bound ha hgt hdisc))
      refine ⟨⟨sc, o0, hsc, by rw [hb]; exact hname, by rw [hb]; exact hlook, ?_, hG.discardStart hdisc, hS'⟩, hb⟩
      rw [hb]; exact hK'
    | stop =>
      rw [hkind] at hk hdisc
      simp only at hk hdisc
      obtain ⟨t, hrows⟩ := List.getLast?_eq_some_iff.mp hk
      obtain ⟨_, _, _, _, _, _, hb⟩ := discardEnd_full hdisc
      have hK' : KInv sc.rows (3 * err) o0.start o0.stop r.o.bait o' := by
        rcases hg with ⟨ov, hov, hlt⟩ | himp
        · simp only [Premise.baitOverlap, hkind, hgetRes] at hov
          obtain ⟨s', r', hne, hs', hm'⟩ := hother
          obtain ⟨hG', hnm, hdis⟩ := hgeo2 s' r' hne hs' hm' (by rw [hrows]; simp)
          exact kinv_endA hlen herr hK hrows hov hlt (sticks_out_end hK.inv hG hG' hnm hdis hrows hm') hdisc
        · obtain ⟨_, a, ha, hgt, _⟩ := improves_guard himp
          simp only [Premise.overhangIfApplied, hkind, hgetRes] at ha
          exact kinv_endB hlen hK ha hgt hdisc
      have hS' : SafeKept sc.rows err (3 * err) o' := by
        rcases hg with ⟨ov, hov, hlt⟩ | himp
        · simp only [Premise.baitOverlap, hkind, hgetRes] at hov
          exact safeKept_discardEnd hlen hK.inv hG hSf hdisc (Or.inl ⟨ov, hov, hlt⟩)
        · obtain ⟨_, a, ha, hgt, _⟩ := improves_guard himp
          simp only [Premise.overhangIfApplied, hkind, hgetRes] at ha
          exact safeKept_discardEnd hlen hK.inv hG hSf hdisc (Or.inr (endB_bound ha hgt hdisc))
      refine ⟨⟨sc, o0, hsc, by rw [hb]; exact hname, by rw [hb]; exact hlook, ?_, hG.discardEnd hdisc, hS'⟩, hb⟩
      rw [hb]; exact hK'
  obtain ⟨hnew, hb⟩ := key
  subst hset
  constructor
  · intro x hx
    rcases List.mem_or_eq_of_mem_set hx with hx | rfl
    · exact hS x hx
    · exact hnew
  · have := C01.map_setAt_same (fun r : Res => r.o.bait) store p.sid { r with o := o' } (by rw [hgetD]; exact hb)
    exact this

/-! ### the `make_fixes` loop, one round, the whole loop -/

theorem storeR_fixFold {input : List Scaffold} (hwf : WFInput input) (hnn : InputNonNeg input) {err : Int} (herr : 0 ≤ err)
    {b : Build} (hm : Mid input b) : ∀ (rest : List (Key × List Premise)) (store : List Res) (fixes : List Premise)
    (store' : List Res) (fixes' : List Premise),
    FInv input b rest store fixes → StoreR input err store → BaitsDisj store →
    rest.foldlM (fun st e => fixOne err st e.2) (store, fixes) = .ok (store', fixes') →
    StoreR input err store' ∧ store'.map (·.o.bait) = store.map (·.o.bait)
  | [], store, fixes, store', fixes', _, hS, _, h => by
    simp only [List.foldlM_nil, pure, Except.pure, Except.ok.injEq, Prod.mk.injEq] at h
    obtain ⟨rfl, rfl⟩ := h
    exact ⟨hS, rfl⟩
  | e :: rest, store, fixes, store', fixes', hF, hS, hD, h => by
    rw [List.foldlM_cons] at h
    simp only [bind, Except.bind] at h
    split at h
    · cases h
    · next st1 hst1 =>
      obtain ⟨store1, fixes1⟩ := st1
      have hF1 := finv_step input b err e rest store fixes store1 fixes1 hF hst1
      have hstep : StoreR input err store1 ∧ store1.map (·.o.bait) = store.map (·.o.bait) := by
        rcases fixOne_guarded hst1 with ⟨rfl, _⟩ | ⟨p, hp, happ, _, hg⟩
        · exact ⟨hS, rfl⟩
        · exact storeR_apply hwf hnn herr hm hF hS hD hp happ hg
      have hD1 : BaitsDisj store1 := by unfold BaitsDisj; rw [hstep.2]; exact hD
      obtain ⟨q1, q2⟩ := storeR_fixFold hwf hnn herr hm rest store1 fixes1 store' fixes' hF1 hstep.1 hD1 h
      exact ⟨q1, q2.trans hstep.2⟩

theorem storeR_resolverRound {input : List Scaffold} (hwf : WFInput input) (hnn : InputNonNeg input) {err : Int}
    (herr : 0 ≤ err) (b b' : Build) (hm : Mid input b) (he : b.err = err) (hS : StoreR input err b.store)
    (hD : BaitsDisj b.store) (h : resolverRound b = .ok (some b')) :
    StoreR input err b'.store ∧ b'.store.map (·.o.bait) = b.store.map (·.o.bait) := by
  rw [C01.resolverRound_eq] at h
  simp only [bind, Except.bind] at h
  split at h
  · cases h
  · next prems hprems =>
    obtain ⟨hpn, hpv⟩ := C01.collectPremises_ok input hwf b hm prems hprems
    split at h
    · cases h
    · next v hv =>
      obtain ⟨store, fixes⟩ := v
      simp only at h
      rw [List.foldlM_map] at hv
      have hinit : FInv input b prems b.store [] :=
        ⟨by simp, by simp, hpv, hpn, by simp, (by intro p hp; cases hp), hm.slices⟩
      rw [he] at hv
      have hfin := storeR_fixFold hwf hnn herr hm prems b.store [] store fixes hinit hS hD hv
      split at h
      · cases h
      · split at h
        · cases h
        · next b2 hb2 =>
          simp only [pure, Except.pure, Except.ok.injEq, Option.some.injEq] at h
          subst h
          have hst : b2.store = store := by
            have := foldlM_inv (fun x : Build => x.store = store) _ fixes
              (fun x p x' hx hs' => by
                obtain ⟨q1, _⟩ := C07.applyFixBookkeeping_fields (fun _ => True) x x' p hs' (fun _ _ => trivial)
                exact q1.trans hx)
              { b with store := store } b2 rfl hb2
            exact this
          rw [hst]; exact hfin

theorem storeR_discardOverhanging {input : List Scaffold} (hwf : WFInput input) (hnn : InputNonNeg input) {err : Int}
    (herr : 0 ≤ err) (fuel : Nat) (b b' : Build) (hm : Mid input b) (he : b.err = err) (hS : StoreR input err b.store)
    (hD : BaitsDisj b.store) (h : discardOverhanging fuel b = .ok b') :
    StoreR input err b'.store ∧ b'.store.map (·.o.bait) = b.store.map (·.o.bait) := by
  induction fuel generalizing b with
  | zero => simp [discardOverhanging] at h
  | succ n ih =>
    unfold discardOverhanging at h
    split at h
    · cases h; exact ⟨hS, rfl⟩
    · simp only [bind, Except.bind] at h
      split at h
      · cases h
      · next r hr =>
        split at h
        · simp only [pure, Except.pure, Except.ok.injEq] at h; subst h
          exact ⟨hS, rfl⟩
        · next b1 =>
          obtain ⟨q0, _, _, _, _, q5, _, _⟩ := C01.reg_resolver_round_aux input hwf b b1 hm hr
          obtain ⟨s1, s2⟩ := storeR_resolverRound hwf hnn herr b b1 hm he hS hD hr
          have hD1 : BaitsDisj b1.store := by unfold BaitsDisj; rw [s2]; exact hD
          obtain ⟨t1, t2⟩ := ih b1 q0 (q5.trans he) s1 hD1 h
          exact ⟨t1, t2.trans s2⟩

end AgpTpf.C02
