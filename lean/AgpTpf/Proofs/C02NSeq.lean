/-
  C02 "remapping never fails" (task W7-C02NOERR), helper part 8: `cut_remaining_overlaps` — the WHOLE loop — succeeds.
  Cutting one contig leaves the holders of every OTHER contig ready (`VisitOK` is kept): `trim_fragment` touches only
  the side of a result where the cut contig stands, and the other contig stands at the other side.
-/
import AgpTpf.Proofs.C02NPipe
namespace AgpTpf.C02
open AgpTpf OverlapResult

/-! ### `trim_fragment` of one contig does not disturb another contig of the same result -/

theorem rowIs_frag (g F : Fragment) : rowIs (.frag g) F = (g.oid == F.oid) := rfl

theorem trim_keeps_other {o o' : OverlapResult} {F0 new F : Fragment} {ks ke : Bool} {a0 c0 a c : Bool}
    (hs0 : firstIs o F0 = .ok a0) (he0 : lastIs o F0 = .ok c0) (hac : a0 = true ∨ c0 = true)
    (hs : firstIs o F = .ok a) (he : lastIs o F = .ok c) (hne : F.oid ≠ F0.oid) (hnew : new.oid ≠ F.oid)
    (hbait : o'.bait = o.bait)
    (hst : o'.start = (if a0 = true ∧ 0 < o.startOverhang ∧ ks = false then o.start + o.startOverhang else o.start))
    (hen : o'.stop = (if c0 = true ∧ 0 < o.endOverhang ∧ ke = false then o.stop - o.endOverhang else o.stop))
    (hrows : o'.rows = (if c0 = true then setLast o.rows (.frag new) else
        match o.rows with
        | [] => []
        | _ :: r => .frag new :: r)) :
    firstIs o' F = .ok a ∧ lastIs o' F = .ok c ∧ (a = true → o'.startOverhang = o.startOverhang) ∧
      (c = true → o'.endOverhang = o.endOverhang) := by
  have hnew' : rowIs (.frag new) F = false := by
    rw [rowIs_frag]; simpa using hnew
  -- a row that is `F0` is not `F`
  have hother : ∀ x : Row, rowIs x F0 = true → rowIs x F = false := by
    intro x hx
    obtain ⟨g, rfl, hg⟩ := C01.rowIs_true hx
    rw [rowIs_frag]
    simp only [beq_eq_false_iff_ne, ne_eq]
    intro e; exact hne (e.symm.trans hg)
  cases hc0 : c0 with
  | true =>
    subst hc0
    simp only [if_true] at hrows
    -- `F0` is the last row
    rcases C18.list_nil_or_concat o.rows with h0 | ⟨t, x, h0⟩
    · rw [firstIs, h0] at hs; simp [pyGet, Functor.map, Except.map] at hs
    · rw [C18.lastIs_concat o F0 x t h0] at he0
      have hx : rowIs x F0 = true := Except.ok.inj he0
      rw [C18.lastIs_concat o F x t h0] at he
      have hcF : c = false := (Except.ok.inj he).symm.trans (hother x hx)
      have hrows' : o'.rows = t ++ [.frag new] := by rw [hrows, h0, setLast_concat]
      refine ⟨?_, ?_, ?_, ?_⟩
      · cases t with
        | nil =>
          rw [C18.firstIs_cons o F x [] (by rw [h0]; rfl)] at hs
          rw [C18.firstIs_cons o' F (.frag new) [] (by rw [hrows']; rfl), hnew']
          cases hs; rw [hother x hx]
        | cons y t' =>
          rw [C18.firstIs_cons o F y (t' ++ [x]) (by rw [h0]; rfl)] at hs
          rw [C18.firstIs_cons o' F y (t' ++ [.frag new]) (by rw [hrows']; rfl)]
          exact hs
      · rw [C18.lastIs_concat o' F (.frag new) t hrows', hnew', hcF]
      · intro hat
        -- `F` first ⇒ `F0` is not first ⇒ the start is untouched
        have ha0 : a0 = false := by
          cases t with
          | nil =>
            rw [C18.firstIs_cons o F x [] (by rw [h0]; rfl)] at hs
            cases hs; rw [hother x hx] at hat; cases hat
          | cons y t' =>
            rw [C18.firstIs_cons o F y (t' ++ [x]) (by rw [h0]; rfl)] at hs
            rw [C18.firstIs_cons o F0 y (t' ++ [x]) (by rw [h0]; rfl)] at hs0
            cases hs; cases hs0
            cases hy : rowIs y F0 with
            | false => rfl
            | true => rw [hother y hy] at hat; cases hat
        unfold startOverhang
        rw [hbait, hst, if_neg (by rw [ha0]; simp)]
      · intro hct; rw [hcF] at hct; cases hct
  | false =>
    subst hc0
    have ha0 : a0 = true := by rcases hac with h | h; exact h; cases h
    subst ha0
    simp only [Bool.false_eq_true, if_false] at hrows
    cases h0 : o.rows with
    | nil => rw [firstIs, h0] at hs; simp [pyGet, Functor.map, Except.map] at hs
    | cons x r =>
      rw [h0] at hrows
      simp only at hrows
      rw [C18.firstIs_cons o F0 x r h0] at hs0
      have hx : rowIs x F0 = true := Except.ok.inj hs0
      rw [C18.firstIs_cons o F x r h0] at hs
      have haF : a = false := (Except.ok.inj hs).symm.trans (hother x hx)
      -- `r` is not empty, else `F0` were the last row too
      rcases C18.list_nil_or_concat r with hr | ⟨r', y, hr⟩
      · exfalso
        rw [hr] at h0
        rw [C18.lastIs_concat o F0 x [] (by rw [h0]; rfl)] at he0
        have := Except.ok.inj he0
        rw [hx] at this
        cases this
      · have hl : o.rows = (x :: r') ++ [y] := by rw [h0, hr]; rfl
        have hl' : o'.rows = (.frag new :: r') ++ [y] := by rw [hrows, hr]; rfl
        rw [C18.lastIs_concat o F y _ hl] at he
        refine ⟨?_, ?_, ?_, ?_⟩
        · rw [C18.firstIs_cons o' F (.frag new) r hrows, hnew', haF]
        · rw [C18.lastIs_concat o' F y _ hl']; exact he
        · intro hat; rw [haF] at hat; cases hat
        · intro _
          unfold endOverhang
          rw [hbait, hen, if_neg (by simp)]

/-! ### `VisitOK` reads the store only through `first_is`, `last_is` and the two overhangs -/

theorem VisitOK.congr_store {b b' : Build} {fnd : Found} {V : List Nat} {lo hi : Nat → Int} (h : VisitOK b fnd V lo hi)
    (hsame : ∀ s ∈ V, ∀ a c, firstIs (getRes b.store s) fnd.fragment = .ok a →
      lastIs (getRes b.store s) fnd.fragment = .ok c →
      firstIs (getRes b'.store s) fnd.fragment = .ok a ∧ lastIs (getRes b'.store s) fnd.fragment = .ok c ∧
      (a = true → (getRes b'.store s).startOverhang = (getRes b.store s).startOverhang) ∧
      (c = true → (getRes b'.store s).endOverhang = (getRes b.store s).endOverhang)) :
    VisitOK b' fnd V lo hi := by
  refine ⟨h.perm, h.ne, h.strand, h.valid, h.geo, h.abut, ?_⟩
  intro j hj
  obtain ⟨a, c, hs, he, hac, hl, hh, hlow, hhigh⟩ := h.res j hj
  obtain ⟨q1, q2, q3, q4⟩ := hsame V[j] (List.getElem_mem hj) a c hs he
  refine ⟨a, c, q1, q2, hac, ?_, ?_, hlow, hhigh⟩
  · intro hb
    rw [← hl hb]
    unfold lowB at hb
    unfold ovLow
    split
    · next c3 => rw [if_pos c3] at hb; exact q3 hb
    · next c3 => rw [if_neg c3] at hb; exact q4 hb
  · intro hb
    rw [← hh hb]
    unfold highB at hb
    unfold ovHigh
    split
    · next c3 => rw [if_pos c3] at hb; exact q4 hb
    · next c3 => rw [if_neg c3] at hb; exact q3 hb

/-! ### the loop -/

/-- what the loop needs of the registry (it does not change while cutting) -/
structure FoundOK (found : List (Key × Found)) (N0 : Nat) : Prop where
  below : ∀ k fnd, dGet? found k = some fnd → fnd.fragment.oid < N0
  distinct : ∀ k k' fnd fnd', dGet? found k = some fnd → dGet? found k' = some fnd' → k ≠ k' →
    fnd.fragment.oid ≠ fnd'.fragment.oid
  nodup : ∀ k fnd, dGet? found k = some fnd → fnd.scaffolds.Nodup

/-- the keys still to be cut are all ready -/
structure SeqInv (found : List (Key × Found)) (N0 : Nat) (ks : List Key) (bc : Build) : Prop where
  hfound : bc.found = found
  oid : N0 ≤ bc.nextOid
  ready : ∀ k ∈ ks, ∀ fnd, dGet? found k = some fnd → ∃ V lo hi, VisitOK bc fnd V lo hi

theorem cutStep_keeps {found : List (Key × Found)} {N0 : Nat} (hF : FoundOK found N0) {k0 : Key} {rest : List Key}
    (hnd : (k0 :: rest).Nodup) {bc : Build} (hI : SeqInv found N0 (k0 :: rest) bc) {fnd0 : Found}
    (hf0 : dGet? found k0 = some fnd0) :
    ∃ bc', cutFragments bc fnd0 = .ok bc' ∧ SeqInv found N0 rest bc' := by
  obtain ⟨V0, lo0, hi0, hV0⟩ := hI.ready k0 (by simp) fnd0 hf0
  obtain ⟨hcut, hT⟩ := cut_ok_of_visit hV0
  refine ⟨_, hcut, ?_, ?_, ?_⟩
  · exact hI.hfound
  · show N0 ≤ bc.nextOid + _
    have := hI.oid; omega
  · intro k hk fnd hf
    have hk0 : k ≠ k0 := by
      intro e; subst e
      rw [List.nodup_cons] at hnd
      exact hnd.1 hk
    obtain ⟨V, lo, hi, hV⟩ := hI.ready k (by simp [hk]) fnd hf
    refine ⟨V, lo, hi, hV.congr_store ?_⟩
    intro s hs a c hfa hla
    -- the store after the cut, at `s`
    have hV0nd : V0.Nodup := hV0.perm.nodup_iff.mpr (hF.nodup k0 fnd0 hf0)
    have hTnd : ((cutT bc fnd0.fragment V0).map (·.1)).Nodup := by rw [cutT_fst]; exact hV0nd
    have hrange : ∀ t ∈ cutT bc fnd0.fragment V0, t.1 < bc.store.length := by
      intro t ht
      have : t.1 ∈ V0 := by rw [← cutT_fst bc fnd0.fragment V0]; exact List.mem_map_of_mem ht
      obtain ⟨j, hj, e⟩ := List.getElem_of_mem this
      obtain ⟨a', _, hs', _⟩ := hV0.res j hj
      have hne : (getRes bc.store V0[j]).rows ≠ [] := by
        intro e0; rw [firstIs, e0] at hs'; simp [pyGet, Functor.map, Except.map] at hs'
      obtain ⟨r, hr, _⟩ := C01.getRes_rows_ne _ _ hne
      rw [← e]
      exact (List.getElem?_eq_some_iff.mp hr).1
    obtain ⟨_, hget⟩ := getD_foldl_setAt (cutT bc fnd0.fragment V0) bc.store hTnd hrange
    have hstore : getRes ({ applyCuts bc (cutT bc fnd0.fragment V0) with
        cuts := bc.cuts + ((V0.length : Int) - 1) } : Build).store s =
        match (cutT bc fnd0.fragment V0).find? (fun t => t.1 = s) with
        | some t => t.2.1
        | none => getRes bc.store s := by
      unfold getRes
      simp only [applyCuts]
      rw [hget s]
      generalize List.find? (fun t => decide (t.1 = s)) (cutT bc fnd0.fragment V0) = m
      cases m <;> rfl
    rw [hstore]
    cases hfind : (cutT bc fnd0.fragment V0).find? (fun t => t.1 = s) with
    | none => exact ⟨hfa, hla, fun _ => rfl, fun _ => rfl⟩
    | some t =>
      simp only
      have htm := List.mem_of_find?_eq_some hfind
      have hts : t.1 = s := by simpa using List.find?_some hfind
      obtain ⟨j, hj, ej⟩ := List.getElem_of_mem htm
      have hjV : j < V0.length := by rw [← cutT_length bc fnd0.fragment V0]; exact hj
      obtain ⟨o', new, htrim, hTj⟩ := hT j hjV
      have hTj' : (cutT bc fnd0.fragment V0)[j]? = some t := by rw [List.getElem?_eq_getElem hj, ej]
      rw [hTj] at hTj'
      cases hTj'
      simp only at hts ⊢
      have hgr : (bc.store.getD V0[j] default).o = getRes bc.store s := by rw [hts]; rfl
      obtain ⟨a0, c0, o2, new2, hs0, he0, hac0, ht2, _, _, _, hb2, hst2, hen2, hrows2, hoid2⟩ :=
        hV0.trim_full j hjV (bc.nextOid + j)
      have hgr' : getRes bc.store V0[j] = getRes bc.store s := by rw [hts]
      rw [hgr'] at hs0 he0 ht2 hb2 hst2 hen2 hrows2
      rw [hgr] at htrim
      rw [htrim] at ht2
      cases ht2
      have hne : fnd.fragment.oid ≠ fnd0.fragment.oid := hF.distinct k k0 fnd fnd0 hf hf0 hk0
      have hbelow := hF.below k fnd hf
      have hio := hI.oid
      exact trim_keeps_other hs0 he0 hac0 hfa hla hne (by rw [hoid2]; omega) hb2 hst2 hen2 hrows2

theorem cutLoop_ok {found : List (Key × Found)} {N0 : Nat} (hF : FoundOK found N0) :
    ∀ (ks : List Key) (bc : Build), ks.Nodup → SeqInv found N0 ks bc →
      ∃ bc', ks.foldlM C01.cutKey bc = .ok bc'
  | [], bc, _, _ => ⟨bc, rfl⟩
  | k0 :: rest, bc, hnd, hI => by
    rw [List.foldlM_cons]
    unfold C01.cutKey
    cases hf0 : dGet? bc.found k0 with
    | none =>
      simp only [pure, Except.pure, bind, Except.bind]
      exact cutLoop_ok hF rest bc (List.nodup_cons.mp hnd).2
        ⟨hI.hfound, hI.oid, fun k hk fnd hf => hI.ready k (by simp [hk]) fnd hf⟩
    | some fnd0 =>
      have hf0' : dGet? found k0 = some fnd0 := by rw [← hI.hfound]; exact hf0
      obtain ⟨bc', hcut, hI'⟩ := cutStep_keeps hF hnd hI hf0'
      simp only [hcut, bind, Except.bind]
      exact cutLoop_ok hF rest bc' (List.nodup_cons.mp hnd).2 hI'

/-- **`cut_remaining_overlaps` succeeds** on a build satisfying `HoldCtx` whose object counter lies above the input's
    object ids -/
theorem cutRemaining_ok {input ptx : List Scaffold} {err : Int} {b : Build} (h : HoldCtx input ptx err b)
    (hoid : ∀ f ∈ C01.inputFrags input, f.oid < b.nextOid) : ∃ b', cutRemaining b = .ok b' := by
  have hF : FoundOK b.found b.nextOid := by
    refine ⟨?_, ?_, ?_⟩
    · intro k fnd hf
      exact hoid _ (h.mid.foundOK k fnd hf).2
    · intro k k' fnd fnd' hf hf' hne e
      obtain ⟨k1, i1⟩ := h.mid.foundOK k fnd hf
      obtain ⟨k2, i2⟩ := h.mid.foundOK k' fnd' hf'
      have := h.wf.oid_inj i1 i2 e
      rw [this] at k1
      exact hne (k1.symm.trans k2)
    · intro k fnd hf
      have hh : C01.holders b k = fnd.scaffolds := by unfold C01.holders; rw [hf]
      rw [List.nodup_iff_count]
      intro s
      have := h.mid.counts k s
      rw [hh] at this
      rw [this]
      exact h.mid.holdCount_le_one h.wf k s
  have hI : SeqInv b.found b.nextOid b.multi b := by
    refine ⟨rfl, Nat.le_refl _, ?_⟩
    intro k hk fnd hf
    obtain ⟨sc, X, Y, hH⟩ := h.holderSet hk hf
    exact hH.visit
  obtain ⟨bc', hbc'⟩ := cutLoop_ok hF b.multi b h.mid.multiNodup hI
  refine ⟨{ bc' with multi := [] }, ?_⟩
  rw [C01.cutRemaining_eq']
  simp only [hbc', bind, Except.bind, pure, Except.pure]

end AgpTpf.C02
