/-
  C03 end to end, output side: a FASTA text written by `FastaStream.write_assembly` (`fastaOf`) read back by the tool's
  OWN indexer (`indexFasta`): it is a well-formed file of records (`C04.Rec`), one per scaffold, so indexing succeeds
  exactly as C04 describes — provided the scaffold names are pairwise different — and the index lists the scaffold names
  in order with the record lengths.
-/
import AgpTpf.Proofs.C03CliFasta
namespace AgpTpf.C03
open AgpTpf AgpTpf.StreamProofs AgpTpf.WrapProofs AgpTpf.C04

/-- a name a FASTA header line carries unchanged: non-empty, ASCII, no whitespace (the indexer keeps the first
    whitespace-separated token of the header line and decodes it as ASCII) -/
def PlainName (s : Str) : Prop := s ≠ [] ∧ ∀ c ∈ s, c.toNat < 128 ∧ isBSpace c.toNat = false

instance (s : Str) : Decidable (PlainName s) := by unfold PlainName; infer_instance

/-- the record written for a scaffold, as a `C04.Rec`: header = the name, LF line ends, the body in lines of `w` -/
def recOfScaffold (w : Nat) (resOf : Str → Bytes) (sc : Scaffold) : Rec :=
  { hdr := strToBytes sc.name, le := [10], lines := linesOf w (rowsBody resOf sc.rows) }

theorem recOfScaffold_bytes (w : Nat) (hw : 1 ≤ w) (resOf : Str → Bytes) (sc : Scaffold) :
    (recOfScaffold w resOf sc).bytes = recordBytes (w : Int) sc.name (rowsBody resOf sc.rows) := by
  rw [recordBytes_lines w hw]
  simp [Rec.bytes, Rec.fileLines, Rec.hdrLine, recOfScaffold, recordLines]

theorem fileOf_recOfScaffold (w : Nat) (hw : 1 ≤ w) (resOf : Str → Bytes) (scs : List Scaffold) :
    fileOf (scs.map (recOfScaffold w resOf)) = fastaOf (w : Int) resOf scs := by
  unfold fileOf fastaOf
  rw [List.map_map]
  congr 1
  apply List.map_congr_left
  intro sc _
  exact recOfScaffold_bytes w hw resOf sc

theorem recOfScaffold_res (w : Nat) (resOf : Str → Bytes) (sc : Scaffold) :
    (recOfScaffold w resOf sc).res = rowsBody resOf sc.rows := by
  simp [Rec.res, recOfScaffold, linesOf_flatten]

theorem takeWhile_all {α} (p : α → Bool) : ∀ (l : List α), (∀ x ∈ l, p x = true) → l.takeWhile p = l
  | [], _ => rfl
  | a :: t, h => by
    rw [List.takeWhile_cons, h a (by simp), if_pos rfl, takeWhile_all p t (fun x hx => h x (by simp [hx]))]

theorem dropWhile_head {α} (p : α → Bool) (a : α) (t : List α) (h : p a = false) : (a :: t).dropWhile p = a :: t := by
  rw [List.dropWhile_cons, h]; rfl

theorem tokOf_plain (s : Str) (h : PlainName s) : tokOf (strToBytes s) = strToBytes s := by
  obtain ⟨hne, hall⟩ := h
  have hb : ∀ b ∈ strToBytes s, isBSpace b = false := by
    intro b hb
    obtain ⟨c, hc, rfl⟩ := List.mem_map.mp hb
    exact (hall c hc).2
  unfold tokOf
  cases hs : strToBytes s with
  | nil => rfl
  | cons a t =>
    rw [hs] at hb
    rw [dropWhile_head _ a t (hb a (by simp))]
    exact takeWhile_all _ _ (fun x hx => by simp [hb x hx])

theorem map_ofNat_strToBytes (s : Str) : (strToBytes s).map Char.ofNat = s := by
  unfold strToBytes
  rw [List.map_map]
  have : (Char.ofNat ∘ Char.toNat) = id := by funext c; exact Char.ofNat_toNat c
  rw [this, List.map_id]

theorem recOfScaffold_name (w : Nat) (resOf : Str → Bytes) (sc : Scaffold) (h : PlainName sc.name) :
    (recOfScaffold w resOf sc).name = sc.name := by
  unfold Rec.name Rec.tok
  show (tokOf (strToBytes sc.name)).map Char.ofNat = sc.name
  rw [tokOf_plain sc.name h, map_ofNat_strToBytes]

theorem recOfScaffold_wf (w : Nat) (resOf : Str → Bytes) (sc : Scaffold) (h : PlainName sc.name)
    (hb : CleanBytes (rowsBody resOf sc.rows)) : (recOfScaffold w resOf sc).WF := by
  have hbytes : ∀ b ∈ strToBytes sc.name, b < 128 ∧ isBSpace b = false := by
    intro b hb'
    obtain ⟨c, hc, rfl⟩ := List.mem_map.mp hb'
    exact h.2 c hc
  refine ⟨Or.inl ⟨rfl, ?_⟩, ?_, ?_, ?_, ?_⟩
  · intro e
    have := (hbytes 13 (List.mem_of_getLast? e)).2
    revert this; decide
  · intro e
    have := (hbytes 10 e).2
    revert this; decide
  · show tokOf (strToBytes sc.name) ≠ []
    rw [tokOf_plain sc.name h]
    intro e
    unfold strToBytes at e
    exact h.1 (List.map_eq_nil_iff.mp e)
  · show ∀ b ∈ tokOf (strToBytes sc.name), b < 128
    rw [tokOf_plain sc.name h]
    exact fun b hb' => (hbytes b hb').1
  · intro l hl
    have hl' : l ∈ linesOf w (rowsBody resOf sc.rows) := hl
    refine ⟨fun e => (hb 10 (mem_linesOf w _ l hl' 10 e)).2 rfl, ?_⟩
    cases l with
    | nil => simp
    | cons c t =>
      intro e
      simp only [List.head?_cons, Option.some.injEq] at e
      exact (hb c (mem_linesOf w _ _ hl' c (by simp))).1 e

theorem foldl_addRec_idx_lengths (recs : List Rec) : ∀ (o : Out),
    (recs.foldl addRec o).idx.map (fun e => (e.1, e.2.length)) =
      o.idx.map (fun e => (e.1, e.2.length)) ++ recs.map (fun r => (r.name, ((r.res.length : Nat) : Int))) := by
  induction recs with
  | nil => intro o; simp
  | cons r t ih =>
    intro o
    rw [List.foldl_cons, ih]
    simp [addRec, Rec.info]

/-- **reading the written FASTA back with the tool's own indexer.**  For scaffolds with plain, pairwise different
    names and bodies without `>` / LF: indexing the text `fastaOf w resOf scs` (any buffer size) succeeds and the index
    lists, in scaffold order, each scaffold's name with the number of residues of its record. -/
theorem fastaOf_reindexes (bs : Int) (w : Nat) (hw : 1 ≤ w) (resOf : Str → Bytes) (scs : List Scaffold)
    (hne : scs ≠ []) (hplain : ∀ sc ∈ scs, PlainName sc.name) (hnd : (scs.map (·.name)).Nodup)
    (hb : ∀ sc ∈ scs, CleanBytes (rowsBody resOf sc.rows)) :
    ∃ st, indexFasta (bLines (fastaOf (w : Int) resOf scs)) bs = .ok st ∧
      st.idx.map (fun e => (e.1, e.2.length)) =
        scs.map (fun sc => (sc.name, (((rowsBody resOf sc.rows).length : Nat) : Int))) := by
  have hnames : (scs.map (recOfScaffold w resOf)).map Rec.name = scs.map (·.name) := by
    rw [List.map_map]
    apply List.map_congr_left
    intro sc hsc
    exact recOfScaffold_name w resOf sc (hplain sc hsc)
  obtain ⟨st, e, hi, _⟩ := indexFasta_fileOf bs (scs.map (recOfScaffold w resOf)) (by simpa using hne)
    (by
      intro r hr
      obtain ⟨sc, hsc, rfl⟩ := List.mem_map.mp hr
      exact recOfScaffold_wf w resOf sc (hplain sc hsc) (hb sc hsc))
    (by rw [hnames]; exact hnd)
  rw [fileOf_recOfScaffold w hw] at e
  refine ⟨st, e, ?_⟩
  rw [hi, foldl_addRec_idx_lengths]
  simp only [List.map_nil, List.nil_append, List.map_map]
  apply List.map_congr_left
  intro sc hsc
  simp only [Function.comp, recOfScaffold_name w resOf sc (hplain sc hsc), recOfScaffold_res]

/-- … and with two scaffolds of the same (plain) name the tool's own indexer REJECTS the text: `ValueError`
    ("More than one sequence named …") -/
theorem fastaOf_reindex_fails (bs : Int) (w : Nat) (hw : 1 ≤ w) (resOf : Str → Bytes) (scs : List Scaffold)
    (hplain : ∀ sc ∈ scs, PlainName sc.name) (hdup : ¬ (scs.map (·.name)).Nodup)
    (hb : ∀ sc ∈ scs, CleanBytes (rowsBody resOf sc.rows)) :
    indexFasta (bLines (fastaOf (w : Int) resOf scs)) bs = .error .value := by
  have hnames : (scs.map (recOfScaffold w resOf)).map Rec.name = scs.map (·.name) := by
    rw [List.map_map]
    apply List.map_congr_left
    intro sc hsc
    exact recOfScaffold_name w resOf sc (hplain sc hsc)
  rw [← fileOf_recOfScaffold w hw]
  apply indexFasta_dup bs
  · intro r hr
    obtain ⟨sc, hsc, rfl⟩ := List.mem_map.mp hr
    exact recOfScaffold_wf w resOf sc (hplain sc hsc) (hb sc hsc)
  · rw [hnames]; exact hdup

end AgpTpf.C03
