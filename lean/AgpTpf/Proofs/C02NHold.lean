/-
  C02 "remapping never fails" (task W7-C02NOERR), helper part 5: THE HOLDERS OF A SHARED CONTIG ARE CONSECUTIVE PIECES.

  `Tiling err ptx`: on every input scaffold the pieces of the map are valid, pairwise disjoint, leave no hole between
  two of them, and a piece with pieces on both sides has at least `err` bases.  For such a map, in any build state
  reached by `find_assembly_overlaps` and any number of resolver rounds (invariants `Mid`, `StoreR`, `BaitsDisj`,
  `SoloS`, `AddedOK`, store baits = the pieces with a lookup result), every contig in `multi` satisfies `VisitOK`: its
  holders, ordered as `cut_fragments` visits them, own abutting stretches of the contig.
-/
import AgpTpf.Proofs.C02NGeo
import AgpTpf.Proofs.C02NCut
import AgpTpf.Proofs.C02KAdded
namespace AgpTpf.C02
open AgpTpf OverlapResult
open AgpTpf.C18 (Inv ids)
open AgpTpf.C01 (WFInput Mid inputFrags FragDisjoint holders)

/-- all Pretext fragments (pieces) of the map -/
def ptxFrags (ptx : List Scaffold) : List Fragment := ptx.flatMap Scaffold.fragments

/-- **the pieces tile their input scaffolds** (at error length `err`) -/
structure Tiling (err : Int) (ptx : List Scaffold) : Prop where
  /-- every piece is a valid interval -/
  valid : ∀ p ∈ ptxFrags ptx, p.start ≤ p.stop
  /-- pieces of one input scaffold are pairwise disjoint -/
  disjoint : PtxDisjoint ptx
  /-- no hole between two pieces of one input scaffold -/
  convex : ∀ p ∈ ptxFrags ptx, ∀ q ∈ ptxFrags ptx, p.name = q.name → ∀ x, p.stop < x → x < q.start →
    ∃ m ∈ ptxFrags ptx, m.name = p.name ∧ m.start ≤ x ∧ x ≤ m.stop
  /-- a piece with pieces on both sides has at least `err` bases (a PretextView piece of a cut scaffold has ≥ 2 texels) -/
  long : ∀ m ∈ ptxFrags ptx, (∃ p ∈ ptxFrags ptx, p.name = m.name ∧ p.stop < m.start) →
    (∃ q ∈ ptxFrags ptx, q.name = m.name ∧ m.stop < q.start) → err ≤ m.length

/-- two pieces (as list members) that share a base are the same fragment value -/
theorem Tiling.eq_or_disjoint {err : Int} {ptx : List Scaffold} (hT : Tiling err ptx) {p q : Fragment}
    (hp : p ∈ ptxFrags ptx) (hq : q ∈ ptxFrags ptx) : p = q ∨ FragDisjoint p q ∨ FragDisjoint q p :=
  C01.pairwise_mem FragDisjoint _ hT.disjoint p hp q hq

/-! ### contig coordinates of a bait -/

/-- the contig coordinate (of `F`, lying at scaffold positions `fs … fe`) of the low / high end of the piece `p` -/
def cLo (F : Fragment) (fs fe : Int) (p : Fragment) : Int :=
  if F.strand = 1 then F.start + (p.start - fs) else F.start + (fe - p.stop)
def cHi (F : Fragment) (fs fe : Int) (p : Fragment) : Int :=
  if F.strand = 1 then F.start + (p.stop - fs) else F.start + (fe - p.start)

/-! ### the context: a build before cutting, a tiling map, a contig in `multi` -/

structure HoldCtx (input ptx : List Scaffold) (err : Int) (b : Build) : Prop where
  wf : WFInput input
  nn : InputNonNeg input
  strands : ∀ f ∈ inputFrags input, f.strand = 1 ∨ f.strand = -1
  tiling : Tiling err ptx
  mid : Mid input b
  storeR : StoreR input err b.store
  disj : BaitsDisj b.store
  solo : SoloS input err b.store
  added : AddedOK b.store
  baitsIn : ∀ r ∈ b.store, r.o.bait ∈ ptxFrags ptx
  present : ∀ p ∈ ptxFrags ptx, C09.hits input p = true → ∃ r ∈ b.store, r.o.bait = p

section
variable {input ptx : List Scaffold} {err : Int} {b : Build}

/-- what is known of one holder -/
theorem HoldCtx.holder (h : HoldCtx input ptx err b) {k : Key} {fnd : Found} (hf : dGet? b.found k = some fnd)
    {sc : Scaffold} (hsc : sc ∈ input) {X Y : List Row} (hs : sc.rows = X ++ .frag fnd.fragment :: Y)
    {sid : Nat} (hsid : sid ∈ fnd.scaffolds) :
    ∃ r, b.store[sid]? = some r ∧ Row.frag fnd.fragment ∈ r.o.rows ∧ sc.name = r.o.bait.name ∧
      Inv sc.rows r.o ∧ RGeo sc.rows r.o := by
  have hcount := h.mid.holders_by_object h.wf k fnd hf sid
  have hh : holders b k = fnd.scaffolds := by unfold holders; rw [hf]
  rw [hh] at hcount
  have hpos : 0 < fnd.scaffolds.count sid := List.count_pos_iff.mpr hsid
  cases hr : b.store[sid]? with
  | none => rw [hr] at hcount; simp only at hcount; omega
  | some r =>
    rw [hr] at hcount
    simp only at hcount
    rw [hcount] at hpos
    obtain ⟨g, hg, hoid⟩ := List.countP_pos_iff.mp hpos
    have hrm := List.mem_of_getElem? hr
    obtain ⟨hkey, hFin⟩ := h.mid.foundOK k fnd hf
    obtain ⟨sc', hsc', hinf⟩ := h.mid.slices r hrm
    have hgrow : g ∈ fragmentsOf r.o.rows := by
      unfold C01.resFrags at hg
      split at hg
      · exact hg
      · cases hg
    have hgin : g ∈ inputFrags input := C01.mem_inputFrags.mpr ⟨sc', hsc', C01.fragmentsOf_infix hinf g hgrow⟩
    have : g = fnd.fragment := h.wf.oid_inj hgin hFin (by simpa using hoid)
    subst this
    have hFr : Row.frag fnd.fragment ∈ r.o.rows := C01.mem_fragmentsOf.mp hgrow
    obtain ⟨sc2, o0, hsc2, hname, _, hK, hG, _⟩ := h.storeR r hrm
    obtain ⟨A, B, hsl, _⟩ := hG.slice
    have : sc2 = sc := scaffold_unique h.wf hsc2 hsc (f := fnd.fragment) (by rw [hsl]; simp [hFr]) (by rw [hs]; simp)
    subst this
    exact ⟨r, rfl, hFr, hname, hK.inv, hG⟩

/-- a piece lying wholly inside the contig, with at least `err` bases, is a holder -/
theorem HoldCtx.inside (h : HoldCtx input ptx err b) {k : Key} {fnd : Found} (hf : dGet? b.found k = some fnd)
    {sc : Scaffold} (hsc : sc ∈ input) {X Y : List Row} (hs : sc.rows = X ++ .frag fnd.fragment :: Y)
    {m : Fragment} (hm : m ∈ ptxFrags ptx) (hname : m.name = sc.name) (h1 : rowsLength X + 1 ≤ m.start)
    (h2 : m.start ≤ m.stop) (h3 : m.stop ≤ rowsLength X + fnd.fragment.length) (h4 : err ≤ m.length) :
    ∃ sid r, sid ∈ fnd.scaffolds ∧ b.store[sid]? = some r ∧ r.o.bait = m := by
  obtain ⟨o0, hlook, hrows, hst, hen⟩ := lookup_inside (h.nn sc hsc) hs h1 h2 h3
  have hlk : C09.lookupOf input m = .ok (some o0) := by
    unfold C09.lookupOf lookupScaffold
    rw [hname, C08.find?_name input sc h.wf.1 hsc]
    simp only [bind, Except.bind]
    exact hlook
  have hhit : C09.hits input m = true := by unfold C09.hits; rw [hlk]
  obtain ⟨r, hr, hbait⟩ := h.present m hm hhit
  obtain ⟨sid, hsid⟩ := List.getElem?_of_mem hr
  obtain ⟨q1, _, _⟩ := h.solo r hr o0 (by rw [hbait]; exact hlk) (by rw [hrows]; rfl) (by rw [hbait, hst]; exact h1)
    (by rw [hbait, hen]; exact h3) (by rw [hbait]; exact h4)
  have hadd : r.added = true := by
    cases hc : r.added with
    | true => rfl
    | false =>
      have := h.added r hr hc
      rw [q1, hrows] at this; cases this
  refine ⟨sid, r, ?_, hsid, hbait⟩
  have hcount := h.mid.holders_by_object h.wf k fnd hf sid
  have hh : holders b k = fnd.scaffolds := by unfold holders; rw [hf]
  rw [hh, hsid] at hcount
  simp only at hcount
  have : (C01.resFrags r).countP (fun g => g.oid == fnd.fragment.oid) = 1 := by
    unfold C01.resFrags
    rw [hadd, q1, hrows]
    simp [fragmentsOf]
  rw [this] at hcount
  exact List.count_pos_iff.mp (by omega)

end

/-- a sorted list has nothing strictly between two neighbours -/
theorem no_between {V : List Nat} {key : Nat → Int} (hs : V.Pairwise (fun a c => key a ≤ key c)) {j : Nat}
    (hj : j + 1 < V.length) {x : Nat} (hx : x ∈ V) (h1 : key (V[j]'(by omega)) < key x) (h2 : key x < key V[j + 1]) :
    False := by
  obtain ⟨i, hi, rfl⟩ := List.getElem_of_mem hx
  rw [List.pairwise_iff_getElem] at hs
  by_cases hij : i ≤ j
  · by_cases e : i = j
    · subst e; omega
    · have := hs i j hi (by omega) (by omega); omega
  · by_cases e : i = j + 1
    · subst e; omega
    · have := hs (j + 1) i hj hi (by omega); omega

/-- the facts about all holders of a contig in `multi`, collected -/
structure HolderSet (input ptx : List Scaffold) (err : Int) (b : Build) (fnd : Found) (sc : Scaffold) (X Y : List Row) :
    Prop where
  sc_in : sc ∈ input
  rows : sc.rows = X ++ .frag fnd.fragment :: Y
  strand : fnd.fragment.strand = 1 ∨ fnd.fragment.strand = -1
  valid : fnd.fragment.start ≤ fnd.fragment.stop
  two : 2 ≤ fnd.scaffolds.length
  nodup : fnd.scaffolds.Nodup
  each : ∀ s ∈ fnd.scaffolds, ∃ r, b.store[s]? = some r ∧ getRes b.store s = r.o ∧ r.o.bait ∈ ptxFrags ptx ∧
    r.o.bait.name = sc.name ∧ r.o.bait.start ≤ r.o.bait.stop ∧
    ∃ a c, firstIs r.o fnd.fragment = .ok a ∧ lastIs r.o fnd.fragment = .ok c ∧
      (a = true → r.o.start = rowsLength X + 1) ∧ (c = true → r.o.stop = rowsLength X + fnd.fragment.length) ∧
      (rowsLength X + 1 < r.o.bait.start → a = true) ∧ (r.o.bait.stop < rowsLength X + fnd.fragment.length → c = true) ∧
      rowsLength X + 1 ≤ r.o.bait.stop ∧ r.o.bait.start ≤ rowsLength X + fnd.fragment.length
  apart : ∀ s ∈ fnd.scaffolds, ∀ t ∈ fnd.scaffolds, s ≠ t →
    (getRes b.store s).bait.stop < (getRes b.store t).bait.start ∨
    (getRes b.store t).bait.stop < (getRes b.store s).bait.start
  between : ∀ s ∈ fnd.scaffolds, ∀ t ∈ fnd.scaffolds,
    (getRes b.store s).bait.stop + 1 < (getRes b.store t).bait.start →
    ∃ u ∈ fnd.scaffolds, (getRes b.store s).bait.stop < (getRes b.store u).bait.start ∧
      (getRes b.store u).bait.start ≤ (getRes b.store u).bait.stop ∧
      (getRes b.store u).bait.stop < (getRes b.store t).bait.start

section
variable {input ptx : List Scaffold} {err : Int} {b : Build}

theorem HoldCtx.holderSet (h : HoldCtx input ptx err b) {k : Key} {fnd : Found} (hk : k ∈ b.multi)
    (hf : dGet? b.found k = some fnd) : ∃ sc X Y, HolderSet input ptx err b fnd sc X Y := by
  obtain ⟨hkey, hFin⟩ := h.mid.foundOK k fnd hf
  obtain ⟨sc, hsc, hFsc⟩ := C01.mem_inputFrags.mp hFin
  obtain ⟨X, Y, hs⟩ := List.append_of_mem (C01.mem_fragmentsOf.mp hFsc)
  have hh : holders b k = fnd.scaffolds := by unfold holders; rw [hf]
  have hlen := h.nn sc hsc
  have hd := ids_nodup_of_wf h.wf hsc
  have heach : ∀ s ∈ fnd.scaffolds, ∃ r, b.store[s]? = some r ∧ getRes b.store s = r.o ∧ r.o.bait ∈ ptxFrags ptx ∧
      r.o.bait.name = sc.name ∧ r.o.bait.start ≤ r.o.bait.stop ∧
      ∃ a c, firstIs r.o fnd.fragment = .ok a ∧ lastIs r.o fnd.fragment = .ok c ∧
        (a = true → r.o.start = rowsLength X + 1) ∧ (c = true → r.o.stop = rowsLength X + fnd.fragment.length) ∧
        (rowsLength X + 1 < r.o.bait.start → a = true) ∧
        (r.o.bait.stop < rowsLength X + fnd.fragment.length → c = true) ∧
        rowsLength X + 1 ≤ r.o.bait.stop ∧ r.o.bait.start ≤ rowsLength X + fnd.fragment.length := by
    intro s hsid
    obtain ⟨r, hr, hFr, hname, hI, hG⟩ := h.holder hf hsc hs hsid
    have hin := h.baitsIn r (List.mem_of_getElem? hr)
    refine ⟨r, hr, ?_, hin, hname.symm, h.tiling.valid _ hin, holder_geom hlen hd hI hG hs hFr⟩
    unfold getRes; rw [C01.getD_of_getElem? hr]
  have hnd : fnd.scaffolds.Nodup := by
    rw [List.nodup_iff_count]
    intro s
    have := h.mid.counts k s
    rw [hh] at this
    rw [this]
    exact h.mid.holdCount_le_one h.wf k s
  have hapart : ∀ s ∈ fnd.scaffolds, ∀ t ∈ fnd.scaffolds, s ≠ t →
      (getRes b.store s).bait.stop < (getRes b.store t).bait.start ∨
      (getRes b.store t).bait.stop < (getRes b.store s).bait.start := by
    intro s hs' t ht hne
    obtain ⟨r, hr, e1, _, n1, _⟩ := heach s hs'
    obtain ⟨r', hr', e2, _, n2, _⟩ := heach t ht
    rw [e1, e2]
    exact baitsDisj_get h.disj hne hr hr' (n1.trans n2.symm)
  refine ⟨sc, X, Y, hsc, hs, h.strands _ hFin, h.wf.2.2.2.2 _ hFin, ?_, hnd, heach, hapart, ?_⟩
  · have := (h.mid.registry.2 k).mp hk
    rw [hh] at this; exact this
  · intro s hs' t ht hgap
    obtain ⟨r, hr, e1, in1, n1, v1, _, _, _, _, _, _, _, _, m1, _⟩ := heach s hs'
    obtain ⟨r', hr', e2, in2, n2, v2, _, _, _, _, _, _, _, _, _, m2⟩ := heach t ht
    rw [e1, e2] at hgap ⊢
    obtain ⟨m, hm, hmn, hm1, hm2⟩ := h.tiling.convex _ in1 _ in2 (n1.trans n2.symm) (r.o.bait.stop + 1) (by omega) hgap
    have hmv := h.tiling.valid m hm
    -- `m` lies strictly between the two baits
    have hA : r.o.bait.stop < m.start := by
      rcases h.tiling.eq_or_disjoint hm in1 with e | d | d
      · rw [e] at hm2; omega
      · have := d hmn; omega
      · have := d hmn.symm; omega
    have hB : m.stop < r'.o.bait.start := by
      rcases h.tiling.eq_or_disjoint hm in2 with e | d | d
      · rw [e] at hm1; omega
      · have := d (hmn.trans (n1.trans n2.symm)); omega
      · have := d (hmn.trans (n1.trans n2.symm)).symm; omega
    have hlong : err ≤ m.length :=
      h.tiling.long m hm ⟨_, in1, hmn.symm, hA⟩ ⟨_, in2, (n2.trans n1.symm).trans hmn.symm, hB⟩
    obtain ⟨u, ru, hu, hru, hbu⟩ := h.inside hf hsc hs hm (hmn.trans n1) (by omega) hmv (by omega) hlong
    refine ⟨u, hu, ?_⟩
    have : getRes b.store u = ru.o := by unfold getRes; rw [C01.getD_of_getElem? hru]
    rw [this, hbu]
    exact ⟨hA, hmv, hB⟩

end

/-- **the holders of a contig in `multi` are consecutive pieces, in the order `cut_fragments` visits them** -/
theorem HolderSet.visit {input ptx : List Scaffold} {err : Int} {b : Build} {fnd : Found} {sc : Scaffold}
    {X Y : List Row} (H : HolderSet input ptx err b fnd sc X Y) : ∃ V lo hi, VisitOK b fnd V lo hi := by
  let bait : Nat → Fragment := fun s => (getRes b.store s).bait
  let key : Nat → Int := fun s => cLo fnd.fragment (rowsLength X + 1) (rowsLength X + fnd.fragment.length) (bait s)
  let V := stableSort (fun a c => decide (key a ≤ key c)) fnd.scaffolds
  have hperm : V.Perm fnd.scaffolds := C01.stableSort_perm _ _
  have hsorted : V.Pairwise (fun a c => key a ≤ key c) := stableSort_pairwise key _
  have hVnd : V.Nodup := hperm.nodup_iff.mpr H.nodup
  have hVlen : V.length = fnd.scaffolds.length := hperm.length_eq
  have hmemV : ∀ j (hj : j < V.length), V[j] ∈ fnd.scaffolds := fun j hj => hperm.subset (List.getElem_mem hj)
  have hlenF : fnd.fragment.length = fnd.fragment.stop - fnd.fragment.start + 1 := rfl
  have hv := H.valid
  -- consecutive holders abut, in contig coordinates
  have habut : ∀ j (hj : j + 1 < V.length),
      cHi fnd.fragment (rowsLength X + 1) (rowsLength X + fnd.fragment.length) (bait (V[j]'(by omega))) + 1 = cLo fnd.fragment (rowsLength X + 1) (rowsLength X + fnd.fragment.length) (bait V[j + 1]) := by
    intro j hj
    have hs' := hmemV j (by omega)
    have ht := hmemV (j + 1) hj
    have hne : V[j]'(by omega) ≠ V[j + 1] := by
      intro e
      have := (List.getElem_inj hVnd).mp e
      omega
    have hord : key (V[j]'(by omega)) ≤ key V[j + 1] := by
      rw [List.pairwise_iff_getElem] at hsorted
      exact hsorted j (j + 1) (by omega) hj (by omega)
    obtain ⟨r, _, e1, _, _, v1, _⟩ := H.each _ hs'
    obtain ⟨r', _, e2, _, _, v2, _⟩ := H.each _ ht
    have hb1 : bait (V[j]'(by omega)) = r.o.bait := by simp only [bait, e1]
    have hb2 : bait V[j + 1] = r'.o.bait := by simp only [bait, e2]
    have hap := H.apart _ hs' _ ht hne
    rw [e1, e2] at hap
    simp only [key, hb1, hb2] at hord
    rw [hb1, hb2]
    simp only [cLo, cHi] at hord ⊢
    rcases H.strand with c3 | c3
    · simp only [c3, if_true] at hord ⊢
      have hlt : r.o.bait.stop < r'.o.bait.start := by omega
      by_cases hg : r.o.bait.stop + 1 < r'.o.bait.start
      · exfalso
        have hbt := H.between _ hs' _ ht (by rw [e1, e2]; exact hg)
        obtain ⟨u, hu, u1, u2, u3⟩ := hbt
        rw [e1] at u1; rw [e2] at u3
        refine no_between hsorted hj (hperm.symm.subset hu) ?_ ?_
        · simp only [key, hb1, cLo, c3, if_true, bait]; omega
        · simp only [key, hb2, cLo, c3, if_true, bait]; omega
      · omega
    · have c4 : ¬ (fnd.fragment.strand = 1) := by
        omega
      simp only [c4, if_false] at hord ⊢
      have hlt : r'.o.bait.stop < r.o.bait.start := by omega
      by_cases hg : r'.o.bait.stop + 1 < r.o.bait.start
      · exfalso
        have hbt := H.between _ ht _ hs' (by rw [e1, e2]; exact hg)
        obtain ⟨u, hu, u1, u2, u3⟩ := hbt
        rw [e2] at u1; rw [e1] at u3
        refine no_between hsorted hj (hperm.symm.subset hu) ?_ ?_
        · simp only [key, hb1, cLo, c4, if_false, bait]; omega
        · simp only [key, hb2, cLo, c4, if_false, bait]; omega
      · omega
  -- geometry of every holder, in contig coordinates
  have hgeo : ∀ j (hj : j < V.length), cLo fnd.fragment (rowsLength X + 1) (rowsLength X + fnd.fragment.length) (bait V[j]) ≤ cHi fnd.fragment (rowsLength X + 1) (rowsLength X + fnd.fragment.length) (bait V[j]) ∧
      fnd.fragment.start ≤ cHi fnd.fragment (rowsLength X + 1) (rowsLength X + fnd.fragment.length) (bait V[j]) ∧ cLo fnd.fragment (rowsLength X + 1) (rowsLength X + fnd.fragment.length) (bait V[j]) ≤ fnd.fragment.stop := by
    intro j hj
    obtain ⟨r, _, e1, _, _, v1, a, c, _, _, _, _, _, _, m1, m2⟩ := H.each _ (hmemV j hj)
    have hb1 : bait V[j] = r.o.bait := by simp only [bait, e1]
    rw [hb1]
    unfold cLo cHi
    split <;> omega
  refine ⟨V, fun j => cLo fnd.fragment (rowsLength X + 1) (rowsLength X + fnd.fragment.length) (bait (V.getD j 0)), fun j => cHi fnd.fragment (rowsLength X + 1) (rowsLength X + fnd.fragment.length) (bait (V.getD j 0)), ?_⟩
  have hgetD : ∀ j (hj : j < V.length), V.getD j 0 = V[j] := by
    intro j hj; simp [List.getD_eq_getElem?_getD, List.getElem?_eq_getElem hj]
  refine ⟨hperm, ?_, H.strand, hv, ?_, ?_, ?_⟩
  · intro e
    have : V.length = 0 := by rw [e]; rfl
    have := H.two
    omega
  · intro j hj
    simp only [hgetD j hj]
    exact hgeo j hj
  · intro j hj
    simp only [hgetD j (by omega), hgetD (j + 1) hj]
    exact habut j hj
  · intro j hj
    obtain ⟨r, _, e1, _, _, v1, a, c, ha, hc, a1, c1, a2, c2, m1, m2⟩ := H.each _ (hmemV j hj)
    have hb1 : bait V[j] = r.o.bait := by simp only [bait, e1]
    simp only [hgetD j hj]
    rw [e1]
    -- position facts
    have hprev : 0 < j → fnd.fragment.start < cLo fnd.fragment (rowsLength X + 1) (rowsLength X + fnd.fragment.length) (bait V[j]) := by
      intro h0
      have h1 := habut (j - 1) (by omega)
      have h2 := (hgeo (j - 1) (by omega)).2.1
      have e : j - 1 + 1 = j := by omega
      simp only [e] at h1
      omega
    have hnext : j + 1 < V.length → cHi fnd.fragment (rowsLength X + 1) (rowsLength X + fnd.fragment.length) (bait V[j]) < fnd.fragment.stop := by
      intro h0
      have h1 := habut j h0
      have h2 := (hgeo (j + 1) h0).2.2
      omega
    rw [hb1] at hprev hnext ⊢
    have hn2 : 2 ≤ V.length := by rw [hVlen]; exact H.two
    simp only [cLo, cHi] at hprev hnext ⊢
    simp only [lowB, highB, ovLow, ovHigh]
    rcases H.strand with c3 | c3
    · simp only [c3, if_true] at hprev hnext ⊢
      have hA : 0 < j → a = true := fun h0 => a2 (by have := hprev h0; omega)
      have hC : j + 1 < V.length → c = true := fun h0 => c2 (by have := hnext h0; omega)
      refine ⟨a, c, ha, hc, ?_, ?_, ?_, hA, hC⟩
      · by_cases h0 : 0 < j
        · exact Or.inl (hA h0)
        · exact Or.inr (hC (by omega))
      · intro hat; have := a1 hat; unfold startOverhang; omega
      · intro hct; have := c1 hct; unfold endOverhang; omega
    · have c4 : ¬ (fnd.fragment.strand = 1) := by
        omega
      simp only [c4, if_false] at hprev hnext ⊢
      have hC : 0 < j → c = true := fun h0 => c2 (by have := hprev h0; omega)
      have hA : j + 1 < V.length → a = true := fun h0 => a2 (by have := hnext h0; omega)
      refine ⟨a, c, ha, hc, ?_, ?_, ?_, hC, hA⟩
      · by_cases h0 : 0 < j
        · exact Or.inr (hC h0)
        · exact Or.inl (hA (by omega))
      · intro hct; have := c1 hct; unfold endOverhang; omega
      · intro hat; have := a1 hat; unfold startOverhang; omega

end AgpTpf.C02
