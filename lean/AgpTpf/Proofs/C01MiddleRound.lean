/-
  C01, the middle of `remap_to_input_assembly` — part 3 (L2 continued): the bookkeeping of applied fixes, the whole
  resolver round and the loop `discardOverhanging`.
-/
import AgpTpf.Proofs.C01MiddleResolve
namespace AgpTpf.C01
open AgpTpf

/-! ### `applyFixBookkeeping` -/

theorem removeFirst_spec : ∀ (l : List Nat) (x : Nat) (rest : List Nat), removeFirst l x = some rest →
    x ∈ l ∧ rest = l.erase x
  | [], x, rest, h => by simp [removeFirst] at h
  | y :: r, x, rest, h => by
    unfold removeFirst at h
    split at h
    · next e =>
      subst e
      simp only [Option.some.injEq] at h
      subst h
      exact ⟨List.mem_cons_self .., by simp⟩
    · next e =>
      cases hr : removeFirst r x with
      | none => rw [hr] at h; simp at h
      | some r' =>
        rw [hr] at h
        simp only [Option.map_some, Option.some.injEq] at h
        subst h
        obtain ⟨h1, h2⟩ := removeFirst_spec r x r' hr
        refine ⟨List.mem_cons_of_mem _ h1, ?_⟩
        rw [List.erase_cons_tail (by simpa using e), h2]

/-- the fields a bookkeeping step can change are `found` and `multi` -/
def SameRest (b b' : Build) : Prop :=
  b'.store = b.store ∧ b'.nextOid = b.nextOid ∧ b'.extra = b.extra ∧ b'.joinGap = b.joinGap ∧ b'.err = b.err ∧
  b'.cuts = b.cuts ∧ b'.namer = b.namer

theorem SameRest.refl (b : Build) : SameRest b b := ⟨rfl, rfl, rfl, rfl, rfl, rfl, rfl⟩
theorem SameRest.trans {a b c : Build} (h1 : SameRest a b) (h2 : SameRest b c) : SameRest a c := by
  obtain ⟨a1, a2, a3, a4, a5, a6, a7⟩ := h1
  obtain ⟨c1, c2, c3, c4, c5, c6, c7⟩ := h2
  exact ⟨c1.trans a1, c2.trans a2, c3.trans a3, c4.trans a4, c5.trans a5, c6.trans a6, c7.trans a7⟩

/-- recorded Fragment objects are never replaced, no key is dropped from or added to `found` -/
def SameObjects (b b' : Build) : Prop :=
  ∀ k, (dGet? b'.found k).map (·.fragment) = (dGet? b.found k).map (·.fragment)

theorem bookkeeping_shape (b b' : Build) (p : Premise) (hk : p.fragment.keyTuple ∈ b.multi)
    (fnd : Found) (hf : dGet? b.found p.fragment.keyTuple = some fnd)
    (h : applyFixBookkeeping b p = .ok b') :
    p.sid ∈ fnd.scaffolds ∧
    b'.found = dSet b.found p.fragment.keyTuple { fnd with scaffolds := fnd.scaffolds.erase p.sid } ∧
    b'.multi = (if (fnd.scaffolds.erase p.sid).length ≤ 1 then b.multi.filter (· ≠ p.fragment.keyTuple) else b.multi) ∧
    SameRest b b' := by
  unfold applyFixBookkeeping at h
  have hc : b.multi.contains p.fragment.keyTuple = true := List.contains_iff_mem.mpr hk
  simp only [hc, ↓reduceIte, hf] at h
  cases hrm : removeFirst fnd.scaffolds p.sid with
  | none => rw [hrm] at h; cases h
  | some rest =>
    rw [hrm] at h
    obtain ⟨hmem, hrest⟩ := removeFirst_spec _ _ _ hrm
    subst hrest
    simp only [Except.ok.injEq] at h
    subst h
    refine ⟨hmem, ?_, ?_, ?_⟩
    · split <;> rfl
    · split <;> rfl
    · split <;> exact ⟨rfl, rfl, rfl, rfl, rfl, rfl, rfl⟩

theorem bookkeeping_step (b b' : Build) (p : Premise) (hreg : RegistryInv b) (hk : p.fragment.keyTuple ∈ b.multi)
    (h : applyFixBookkeeping b p = .ok b') :
    p.sid ∈ holders b p.fragment.keyTuple ∧
    (∀ k, holders b' k = if k = p.fragment.keyTuple then (holders b k).erase p.sid else holders b k) ∧
    RegistryInv b' ∧ (b.multi.Nodup → b'.multi.Nodup) ∧
    (∀ k, k ≠ p.fragment.keyTuple → (k ∈ b'.multi ↔ k ∈ b.multi)) ∧
    SameObjects b b' ∧ SameRest b b' := by
  have h2 : 2 ≤ (holders b p.fragment.keyTuple).length := (hreg.2 _).mp hk
  cases hf : dGet? b.found p.fragment.keyTuple with
  | none => simp [holders, hf] at h2
  | some fnd =>
    have hh : holders b p.fragment.keyTuple = fnd.scaffolds := by simp [holders, hf]
    rw [hh] at h2
    obtain ⟨hmem, hfound, hmulti, hsame⟩ := bookkeeping_shape b b' p hk fnd hf h
    have hlen : (fnd.scaffolds.erase p.sid).length = fnd.scaffolds.length - 1 := List.length_erase_of_mem hmem
    have hhold : ∀ k, holders b' k = if k = p.fragment.keyTuple then (holders b k).erase p.sid else holders b k := by
      intro k
      unfold holders
      rw [hfound]
      by_cases e : k = p.fragment.keyTuple
      · subst e; rw [dGet?_dSet_self, hf]; simp
      · rw [dGet?_dSet_other _ _ _ _ (fun e' => e e'.symm)]; simp [e]
    have hmem_multi : ∀ k, k ≠ p.fragment.keyTuple → (k ∈ b'.multi ↔ k ∈ b.multi) := by
      intro k hne
      rw [hmulti]
      split
      · simp [List.mem_filter, hne]
      · exact Iff.rfl
    refine ⟨hh ▸ hmem, hhold, ⟨?_, ?_⟩, ?_, hmem_multi, ?_, hsame⟩
    · intro k fnd' hk'
      rw [hfound] at hk'
      by_cases e : p.fragment.keyTuple = k
      · subst e
        rw [dGet?_dSet_self] at hk'
        cases hk'
        simp only
        intro hnil
        rw [hnil] at hlen
        simp at hlen
        omega
      · rw [dGet?_dSet_other _ _ _ _ e] at hk'
        exact hreg.1 k fnd' hk'
    · intro k
      by_cases e : k = p.fragment.keyTuple
      · subst e
        rw [hhold, if_pos rfl, hh, hmulti]
        split
        · next hle =>
          constructor
          · intro hm; simp [List.mem_filter] at hm
          · intro h2'; omega
        · next hle =>
          constructor
          · intro _; omega
          · intro _; exact hk
      · rw [hmem_multi k e, hhold, if_neg e]
        exact hreg.2 k
    · intro hnd
      rw [hmulti]
      split
      · exact hnd.filter _
      · exact hnd
    · intro k
      rw [hfound]
      by_cases e : p.fragment.keyTuple = k
      · subst e; rw [dGet?_dSet_self, hf]; rfl
      · rw [dGet?_dSet_other _ _ _ _ e]

theorem bookkeeping_fold : ∀ (fixes : List Premise) (bc b' : Build), RegistryInv bc → bc.multi.Nodup →
    (fixes.map (fun p => p.fragment.keyTuple)).Nodup → (∀ p ∈ fixes, p.fragment.keyTuple ∈ bc.multi) →
    fixes.foldlM applyFixBookkeeping bc = .ok b' →
    (∀ k s, (holders b' k).count s + fixes.countP (fixAt k s) = (holders bc k).count s) ∧
    (∀ k, (holders b' k).length + fixes.countP (fixOf k) = (holders bc k).length) ∧
    RegistryInv b' ∧ b'.multi.Nodup ∧ SameObjects bc b' ∧ SameRest bc b'
  | [], bc, b', hreg, hnd, _, _, h => by
    simp only [List.foldlM_nil, pure, Except.pure, Except.ok.injEq] at h
    subst h
    exact ⟨by simp, by simp, hreg, hnd, fun _ => rfl, SameRest.refl _⟩
  | p :: t, bc, b', hreg, hnd, hkeys, hin, h => by
    rw [List.foldlM_cons] at h
    simp only [bind, Except.bind] at h
    split at h
    · cases h
    · next b1 hb1 =>
      rw [List.map_cons, List.nodup_cons] at hkeys
      obtain ⟨hmem, hhold, hreg1, hnd1, hmulti1, hobj1, hsame1⟩ :=
        bookkeeping_step bc b1 p hreg (hin p (List.mem_cons_self ..)) hb1
      have hin1 : ∀ q ∈ t, q.fragment.keyTuple ∈ b1.multi := by
        intro q hq
        have hne : q.fragment.keyTuple ≠ p.fragment.keyTuple := by
          intro e; exact hkeys.1 (e ▸ List.mem_map_of_mem (f := fun p : Premise => p.fragment.keyTuple) hq)
        exact (hmulti1 _ hne).mpr (hin q (List.mem_cons_of_mem _ hq))
      obtain ⟨c1, c2, c3, c4, c5, c6⟩ := bookkeeping_fold t b1 b' hreg1 (hnd1 hnd) hkeys.2 hin1 h
      refine ⟨?_, ?_, c3, c4, fun k => (c5 k).trans (hobj1 k), hsame1.trans c6⟩
      · intro k s
        have := c1 k s
        rw [hhold k] at this
        rw [List.countP_cons]
        by_cases e : k = p.fragment.keyTuple
        · subst e
          rw [if_pos rfl, List.count_erase] at this
          by_cases es : p.sid = s
          · subst es
            have hpos : 0 < (holders bc p.fragment.keyTuple).count p.sid := List.count_pos_iff.mpr hmem
            simp only [fixAt, and_self, decide_true, ↓reduceIte, beq_self_eq_true] at this ⊢
            omega
          · have hb : (p.sid == s) = false := by simpa using es
            simp only [fixAt, es, and_false, decide_false, Bool.false_eq_true, ↓reduceIte, hb] at this ⊢
            omega
        · rw [if_neg e] at this
          have : fixAt k s p = false := by
            simp only [fixAt, decide_eq_false_iff_not]; exact fun ⟨e', _⟩ => e e'.symm
          simp only [this, Bool.false_eq_true, ↓reduceIte]
          omega
      · intro k
        have := c2 k
        rw [hhold k] at this
        rw [List.countP_cons]
        by_cases e : k = p.fragment.keyTuple
        · subst e
          rw [if_pos rfl, List.length_erase_of_mem hmem] at this
          have hpos : 0 < (holders bc p.fragment.keyTuple).length := List.length_pos_of_mem hmem
          simp only [fixOf, decide_true, ↓reduceIte] at this ⊢
          omega
        · rw [if_neg e] at this
          have : fixOf k p = false := by
            simp only [fixOf, decide_eq_false_iff_not]; exact fun e' => e e'.symm
          simp only [this, Bool.false_eq_true, ↓reduceIte]
          omega

/-! ### one round -/

theorem resolverRound_eq (b : Build) :
    resolverRound b = (do
      let prems ← collectPremises b
      let (store, fixes) ← (prems.map (·.2)).foldlM (fixOne b.err) (b.store, [])
      if fixes.isEmpty then pure none
      else do
        let b ← fixes.foldlM applyFixBookkeeping { b with store := store }
        pure (some b)) := rfl

/-- L2: a productive round of the resolver keeps the registry invariant (in particular every registered key keeps at
    least one holder), does not touch the set of registered keys or the recorded Fragment objects, and creates no
    Fragment object. -/
theorem reg_resolver_round_aux (input : List Scaffold) (hwf : WFInput input) (b b' : Build) (hm : Mid input b)
    (h : resolverRound b = .ok (some b')) :
    Mid input b' ∧ SameObjects b b' ∧
    b'.nextOid = b.nextOid ∧ b'.extra = b.extra ∧ b'.joinGap = b.joinGap ∧ b'.err = b.err ∧ b'.cuts = b.cuts ∧
    b'.namer = b.namer := by
  rw [resolverRound_eq] at h
  simp only [bind, Except.bind] at h
  split at h
  · cases h
  · next prems hprems =>
    obtain ⟨hpn, hpv⟩ := collectPremises_ok input hwf b hm prems hprems
    split at h
    · cases h
    · next v hv =>
      obtain ⟨store, fixes⟩ := v
      simp only at h
      rw [List.foldlM_map] at hv
      have hinit : FInv input b prems b.store [] :=
        ⟨by simp, by simp, hpv, hpn, by simp, (by intro p hp; cases hp), hm.slices⟩
      have hfin := fixFold input b b.err prems b.store [] store fixes hinit hv
      split at h
      · cases h
      · split at h
        · cases h
        · next b2 hb2 =>
          simp only [pure, Except.pure, Except.ok.injEq, Option.some.injEq] at h
          subst h
          have hreg0 : RegistryInv { b with store := store } := hm.registry
          obtain ⟨c1, c2, c3, c4, c5, c6⟩ := bookkeeping_fold fixes { b with store := store } b2 hreg0 hm.multiNodup
            hfin.fixNodup (fun p hp => (hfin.fixKeys p hp).1) hb2
          obtain ⟨s1, s2, s3, s4, s5, s6, s7⟩ := c6
          simp only at s1 s2 s3 s4 s5 s6 s7
          have hholders : ∀ k, holders { b with store := store } k = holders b k := fun _ => rfl
          refine ⟨⟨c3, c4, ?_, ?_, ?_, ?_⟩, c5, s2, s3, s4, s5, s6, s7⟩
          · intro k s
            have h1 := c1 k s
            have h2 := hfin.counts k s
            rw [hholders, hm.counts] at h1
            rw [s1]; omega
          · intro k
            have h1 := c2 k
            have h2 := hfin.total k
            rw [hholders, hm.total] at h1
            rw [s1]; omega
          · rw [s1]; exact hfin.slices
          · intro k fnd' hk'
            have := c5 k
            rw [hk'] at this
            cases hb : dGet? b.found k with
            | none => simp [hb] at this
            | some fnd =>
              simp only [hb, Option.map_some, Option.some.injEq] at this
              rw [this]
              exact hm.foundOK k fnd hb

/-- the loop `discard_overhanging_fragments` -/
theorem discardOverhanging_mid (input : List Scaffold) (hwf : WFInput input) (fuel : Nat) (b b' : Build)
    (hm : Mid input b) (h : discardOverhanging fuel b = .ok b') :
    Mid input b' ∧ SameObjects b b' ∧
    b'.nextOid = b.nextOid ∧ b'.extra = b.extra ∧ b'.joinGap = b.joinGap ∧ b'.err = b.err ∧ b'.cuts = b.cuts ∧
    b'.namer = b.namer := by
  induction fuel generalizing b with
  | zero => simp [discardOverhanging] at h
  | succ n ih =>
    unfold discardOverhanging at h
    split at h
    · cases h; exact ⟨hm, fun _ => rfl, rfl, rfl, rfl, rfl, rfl, rfl⟩
    · simp only [bind, Except.bind] at h
      split at h
      · cases h
      · next r hr =>
        split at h
        · simp only [pure, Except.pure, Except.ok.injEq] at h; subst h
          exact ⟨hm, fun _ => rfl, rfl, rfl, rfl, rfl, rfl, rfl⟩
        · next b1 =>
          obtain ⟨q0, q1, q2, q3, q4, q5, q6, q7⟩ := reg_resolver_round_aux input hwf b b1 hm hr
          obtain ⟨r0, r1, r2, r3, r4, r5, r6, r7⟩ := ih b1 q0 h
          exact ⟨r0, fun k => (r1 k).trans (q1 k), r2.trans q2, r3.trans q3, r4.trans q4, r5.trans q5, r6.trans q6,
            r7.trans q7⟩

end AgpTpf.C01
