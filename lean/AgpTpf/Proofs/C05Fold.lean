/- C05 (f): folding a line reader over the lines of a scaffold / an assembly (shared by AGP and TPF) -/
import AgpTpf.Proofs.C05Line
import AgpTpf.Proofs.C05MapM
namespace AgpTpf.C05
open AgpTpf

/-- object ids as the readers assign them: `k, k+1, …` to the fragments in order -/
def renumRows (k : Nat) : List Row → List Row
  | [] => []
  | .frag f :: r => .frag { f with oid := k } :: renumRows (k + 1) r
  | .gap g :: r => .gap g :: renumRows k r

def countFrags : List Row → Nat
  | [] => 0
  | .frag _ :: r => countFrags r + 1
  | .gap _ :: r => countFrags r

/-- what a reader rebuilds from scaffolds: name and rows only (tag, haplotype, rank, … are not in the file),
    fragments numbered from `k` on -/
def canonScaffolds (k : Nat) : List Scaffold → List Scaffold
  | [] => []
  | s :: t => { name := s.name, rows := renumRows k s.rows } :: canonScaffolds (k + countFrags s.rows) t

def canonAssembly (a : Assembly) : Assembly := { header := a.header, scaffolds := canonScaffolds 0 a.scaffolds }

/-- reading one row of scaffold `name` -/
def stepRow (name : Str) (st : ParseState) (row : Row) : R ParseState := addRowOid (st.switchScaffold name) row

/-- reader state while inside scaffold `name` -/
def InScaffold (name : Str) (st : ParseState) : Prop := st.currentName = name ∧ st.haveScaffold = true

theorem switchScaffold_same (st : ParseState) (name : Str) (h : st.currentName = name) :
    st.switchScaffold name = st := by
  unfold ParseState.switchScaffold; simp [h]

theorem foldlM_cons_ok {α β} (f : β → α → R β) (b b' : β) (a : α) (l : List α) (h : f b a = .ok b') :
    (a :: l).foldlM f b = l.foldlM f b' := by
  rw [List.foldlM_cons, h]; rfl

/-- rows after the first: the state stays inside the scaffold, rows are appended, fragments numbered on -/
theorem fold_in_scaffold (P : ParseState → Str → R ParseState) (name : Str) (rows : List Row) :
    ∀ (lines : List Str) (st : ParseState) (pre : List Scaffold) (sc : Scaffold),
    Forall2 (fun line row => ∀ st, InScaffold name st → P st line = stepRow name st row) lines rows →
    InScaffold name st → st.scaffolds = pre ++ [sc] →
    lines.foldlM P st = .ok { st with scaffolds := pre ++ [{ sc with rows := sc.rows ++ renumRows st.nextOid rows }],
                                       nextOid := st.nextOid + countFrags rows } := by
  induction rows with
  | nil =>
    intro lines st pre sc hf hin hs
    cases lines with
    | cons _ _ => exact hf.elim
    | nil =>
      simp only [List.foldlM_nil, renumRows, countFrags, List.append_nil, Nat.add_zero]
      cases st; simp at hs; subst hs; rfl
  | cons row rest ih =>
    intro lines st pre sc hf hin hs
    cases lines with
    | nil => exact hf.elim
    | cons l ls =>
      obtain ⟨h1, h2⟩ := hf
      have hstep := h1 st hin
      rw [stepRow, switchScaffold_same _ _ hin.1] at hstep
      cases row with
      | gap g =>
        simp only [addRowOid] at hstep
        rw [addRow_append st _ pre sc hin.2 hs] at hstep
        rw [foldlM_cons_ok _ _ _ _ _ hstep]
        refine (ih ls { st with scaffolds := pre ++ [{ sc with rows := sc.rows ++ [Row.gap g] }] } pre _ h2
          ⟨hin.1, hin.2⟩ rfl).trans ?_
        simp [renumRows, countFrags]
      | frag f =>
        simp only [addRowOid] at hstep
        rw [addRow_append st _ pre sc hin.2 hs] at hstep
        simp only at hstep
        rw [foldlM_cons_ok _ _ _ _ _ hstep]
        refine (ih ls { st with scaffolds := pre ++ [{ sc with rows := sc.rows ++ [Row.frag { f with oid := st.nextOid }] }],
                                nextOid := st.nextOid + 1 } pre _ h2 ⟨hin.1, hin.2⟩ rfl).trans ?_
        simp [renumRows, countFrags, Nat.add_assoc, Nat.add_comm 1]

/-- one whole (non-empty) scaffold whose name differs from the current one: a new scaffold is opened -/
theorem fold_scaffold (P : ParseState → Str → R ParseState) (name : Str) (row : Row) (rows : List Row)
    (line : Str) (lines : List Str) (st : ParseState)
    (h0 : ∀ st, P st line = stepRow name st row)
    (hf : Forall2 (fun line row => ∀ st, InScaffold name st → P st line = stepRow name st row) lines rows)
    (hn : name ≠ st.currentName) :
    (line :: lines).foldlM P st =
      .ok { header := st.header, scaffolds := st.scaffolds ++ [{ name := name, rows := renumRows st.nextOid (row :: rows) }],
            currentName := name, haveScaffold := true, nextOid := st.nextOid + countFrags (row :: rows) } := by
  have hstep := h0 st
  have hsw : st.switchScaffold name =
      { st with currentName := name, haveScaffold := true, scaffolds := st.scaffolds ++ [{ name := name }] } := by
    unfold ParseState.switchScaffold; rw [if_pos hn]
  rw [stepRow, hsw] at hstep
  cases row with
  | gap g =>
    simp only [addRowOid] at hstep
    rw [addRow_append _ _ st.scaffolds { name := name } rfl rfl] at hstep
    rw [foldlM_cons_ok _ _ _ _ _ hstep]
    refine (fold_in_scaffold P name rows lines _ st.scaffolds _ hf ⟨rfl, rfl⟩ rfl).trans ?_
    simp [renumRows, countFrags]
  | frag f =>
    simp only [addRowOid] at hstep
    rw [addRow_append _ _ st.scaffolds { name := name } rfl rfl] at hstep
    simp only at hstep
    rw [foldlM_cons_ok _ _ _ _ _ hstep]
    refine (fold_in_scaffold P name rows lines _ st.scaffolds _ hf ⟨rfl, rfl⟩ rfl).trans ?_
    simp [renumRows, countFrags, Nat.add_assoc, Nat.add_comm 1]

/-- consecutive scaffolds are named differently (the readers open a new scaffold only on a name CHANGE), the
    first one differently from `cur` -/
def NamesChain (cur : Str) : List Scaffold → Prop
  | [] => True
  | s :: t => s.name ≠ cur ∧ NamesChain s.name t

instance : ∀ (cur : Str) (l : List Scaffold), Decidable (NamesChain cur l)
  | _, [] => isTrue trivial
  | cur, s :: t => by
    unfold NamesChain
    have := instDecidableNamesChain s.name t
    infer_instance

/-- the lines of scaffold `s`, as a reader `P` understands them -/
def ScaffoldLines (P : ParseState → Str → R ParseState) (s : Scaffold) (rows' : List Row) (ls : List Str) : Prop :=
  match ls, rows' with
  | line :: lines, row :: rows =>
    (∀ st, P st line = stepRow s.name st row) ∧
    Forall2 (fun line row => ∀ st, InScaffold s.name st → P st line = stepRow s.name st row) lines rows
  | _, _ => False

theorem foldlM_flatten {α β} (f : β → α → R β) (ls : List (List α)) (b : β) :
    ls.flatten.foldlM f b = ls.foldlM (fun b l => l.foldlM f b) b := by
  induction ls generalizing b with
  | nil => rfl
  | cons l t ih =>
    rw [List.flatten_cons, List.foldlM_append, List.foldlM_cons]
    cases l.foldlM f b with
    | error e => rfl
    | ok b' => exact ih b'

/-- all scaffolds: `rowsOf s` is what the reader gets back for `s.rows` (identity for AGP, tags dropped for TPF) -/
theorem fold_scaffolds (P : ParseState → Str → R ParseState) (rowsOf : Scaffold → List Row)
    (scs : List Scaffold) :
    ∀ (bodies : List (List Str)) (st : ParseState),
    Forall2 (fun s ls => ScaffoldLines P s (rowsOf s) ls) scs bodies →
    NamesChain st.currentName scs →
    ∃ st', bodies.flatten.foldlM P st = .ok st' ∧ st'.header = st.header ∧
      st'.scaffolds = st.scaffolds ++ canonScaffolds st.nextOid (scs.map (fun s => { s with rows := rowsOf s })) := by
  induction scs with
  | nil =>
    intro bodies st hf _
    cases bodies with
    | cons _ _ => exact hf.elim
    | nil => exact ⟨st, rfl, rfl, by simp [canonScaffolds]⟩
  | cons s t ih =>
    intro bodies st hf hch
    cases bodies with
    | nil => exact hf.elim
    | cons b bt =>
      obtain ⟨hb, hbt⟩ := hf
      obtain ⟨hne, hch'⟩ := hch
      unfold ScaffoldLines at hb
      cases b with
      | nil => exact hb.elim
      | cons line lines =>
        cases hr : rowsOf s with
        | nil => rw [hr] at hb; exact hb.elim
        | cons row rows =>
          rw [hr] at hb
          obtain ⟨h0, hrest⟩ := hb
          have hsc := fold_scaffold P s.name row rows line lines st h0 hrest hne
          rw [List.flatten_cons, List.foldlM_append, hsc]
          obtain ⟨st', h1, h2, h3⟩ := ih bt
            { header := st.header, scaffolds := st.scaffolds ++ [{ name := s.name, rows := renumRows st.nextOid (row :: rows) }],
              currentName := s.name, haveScaffold := true, nextOid := st.nextOid + countFrags (row :: rows) } hbt hch'
          refine ⟨st', h1, h2, ?_⟩
          rw [h3]
          simp [canonScaffolds, hr, List.append_assoc]

end AgpTpf.C05
