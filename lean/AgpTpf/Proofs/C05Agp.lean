/- C05 (e): AGP line level -/
import AgpTpf.Proofs.C05Line
namespace AgpTpf.C05
open AgpTpf AgpTpf.C06

/-- object (scaffold) name the AGP reader can take back: it is the FIRST column, so it must not be empty (an
    empty first scaffold name equals the reader's initial `scaffold_name = ""` → AttributeError on `None`),
    must not contain a tab, and must not start with '#' (the line would be a comment). -/
def AgpScafNameOk (n : Str) : Prop := n ≠ [] ∧ '\t' ∉ n ∧ n.head? ≠ some '#'

instance (n : Str) : Decidable (AgpScafNameOk n) := by unfold AgpScafNameOk; infer_instance

/-- only the LAST column is exposed to `rstrip()`: the last tag (if any) must end in a non-whitespace character
    (so it is non-empty). -/
def lastTagOk (tags : List Str) : Bool :=
  match tags.getLast? with
  | none => true
  | some t => endsNonSpace t

/-- row the AGP reader takes back unchanged.  Component names and gap types may be empty and may contain
    spaces; no column may contain a tab; `start ≤ end` and the strand range are `Fragment.__init__`'s checks. -/
def AgpRowOk (r : Row) : Prop :=
  match r with
  | .gap g => '\t' ∉ g.gapType
  | .frag f => '\t' ∉ f.name ∧ (∀ t ∈ f.tags, '\t' ∉ t) ∧ lastTagOk f.tags = true ∧ f.start ≤ f.stop ∧
      (f.strand = 0 ∨ f.strand = 1 ∨ f.strand = -1)

instance (r : Row) : Decidable (AgpRowOk r) := by unfold AgpRowOk; cases r <;> infer_instance

theorem startsWith_hash_false (line : Str) (h : line.head? ≠ some '#') : startsWith ['#'] line = false := by
  cases line with
  | nil => rfl
  | cons c t =>
    simp only [List.head?_cons, ne_eq, Option.some.injEq] at h
    simp [startsWith, List.isPrefixOf, Ne.symm h]

theorem startsWith_hashhash_false (line : Str) (h : line.head? ≠ some '#') : startsWith ['#', '#'] line = false := by
  cases line with
  | nil => rfl
  | cons c t =>
    simp only [List.head?_cons, ne_eq, Option.some.injEq] at h
    simp [startsWith, List.isPrefixOf, Ne.symm h]

theorem lineOfCols_head (name : Str) (rest : List Str) (hn : name ≠ []) :
    (lineOfCols (name :: rest)).head? = name.head? := by
  cases name with
  | nil => exact absurd rfl hn
  | cons c t =>
    cases rest with
    | nil => rfl
    | cons g gs => rfl

theorem isBlankLine_lineOfCols (cols : List Str) (f : Str) (c : Char) (hf : f ∈ cols) (hc : c ∈ f)
    (hs : isSpace c = false) : isBlankLine (lineOfCols cols) = false :=
  isBlankLine_false _ c (List.mem_append_left _ (mem_joinWith _ _ _ _ hf hc)) hs

theorem strandStr_agp (s : Int) (h : s = 0 ∨ s = 1 ∨ s = -1) :
    ∃ t, strandStr Gen.agpStrandStr s = .ok t ∧ lookupStr Gen.agpStrandDict t = .ok s ∧
      '\t' ∉ t ∧ '\n' ∉ t ∧ endsNonSpace t = true := by
  rcases h with rfl | rfl | rfl <;> exact ⟨_, rfl, rfl, by decide, by decide, by decide⟩

theorem lookupStr_agp_strand (t : Str) (s : Int) (h : lookupStr Gen.agpStrandDict t = .ok s) :
    s = 0 ∨ s = 1 ∨ s = -1 := by
  unfold lookupStr at h
  cases hd : dGet? Gen.agpStrandDict t with
  | none => rw [hd] at h; cases h
  | some v =>
    rw [hd] at h; cases h
    have := dGet?_some_mem hd
    simp only [Gen.agpStrandDict, List.mem_cons, List.not_mem_nil, or_false, Prod.mk.injEq] at this
    omega

theorem mkFragment_ok (oid : Nat) (name : Str) (s e strand : Int) (tags : List Str)
    (h1 : strand = 0 ∨ strand = 1 ∨ strand = -1) (h2 : s ≤ e) :
    mkFragment oid name s e strand tags = .ok { oid, name, start := s, stop := e, strand, tags } := by
  unfold mkFragment
  rw [if_neg (fun hn => hn h1), if_neg (by omega)]

/-- the part of `parse_agp`'s loop body after `fields = line.rstrip().split("\t")` -/
def agpFields (st : ParseState) (fields : List Str) : R ParseState := do
    let f0 ← pyGet fields 0
    let st := st.switchScaffold f0
    let f4 ← pyGet fields 4
    if Gen.agpGapComponentTypes.contains f4 then do
      if ¬ st.haveScaffold then throw .attribute
      let f5 ← pyGet fields 5
      let f6 ← pyGet fields 6
      let len ← pyInt f5
      st.addRow (.gap { length := len, gapType := f6 })
    else do
      if ¬ st.haveScaffold then throw .attribute
      let f5 ← pyGet fields 5
      let f6 ← pyGet fields 6
      let f7 ← pyGet fields 7
      let f8 ← pyGet fields 8
      let strand ← lookupStr Gen.agpStrandDict f8
      let s ← pyInt f6
      let e ← pyInt f7
      let f ← mkFragment st.nextOid f5 s e strand (fields.drop 9)
      let st ← st.addRow (.frag f)
      pure { st with nextOid := st.nextOid + 1 }

theorem parseAgpLine_eq (st : ParseState) (line : Str) : parseAgpLine st line =
    if isBlankLine line then .ok st
    else if startsWith ['#', '#'] line then .ok st
    else if startsWith ['#'] line then
      match headerText line with
      | some h => .ok { st with header := st.header ++ [h] }
      | none => .ok st
    else agpFields st (splitOnChar '\t' (rstripBy isSpace line)) := by
  unfold parseAgpLine agpFields
  rfl

theorem addRow_noScaffold (st : ParseState) (r : Row) (h : st.haveScaffold = false) :
    st.addRow r = .error .attribute := by
  unfold ParseState.addRow; simp [h]

theorem agpFields_gap (st : ParseState) (name a b c : Str) (len : Int) (gt x y : Str) :
    agpFields st [name, a, b, c, Gen.agpGapCol5, intToStr len, gt, x, y] =
      addRowOid (st.switchScaffold name) (.gap { length := len, gapType := gt }) := by
  have g0 : pyGet [name, a, b, c, Gen.agpGapCol5, intToStr len, gt, x, y] 0 = .ok name := pyGet_nat _ 0 _ rfl
  have g4 : pyGet [name, a, b, c, Gen.agpGapCol5, intToStr len, gt, x, y] 4 = .ok Gen.agpGapCol5 := pyGet_nat _ 4 _ rfl
  have g5 : pyGet [name, a, b, c, Gen.agpGapCol5, intToStr len, gt, x, y] 5 = .ok (intToStr len) := pyGet_nat _ 5 _ rfl
  have g6 : pyGet [name, a, b, c, Gen.agpGapCol5, intToStr len, gt, x, y] 6 = .ok gt := pyGet_nat _ 6 _ rfl
  have hU : Gen.agpGapComponentTypes.contains Gen.agpGapCol5 = true := by decide
  unfold agpFields
  simp only [g0, g4, g5, g6, bind, Except.bind, hU, if_true, pyInt_intToStr, addRowOid]
  cases hh : (st.switchScaffold name).haveScaffold with
  | true => simp
  | false => simp [addRow_noScaffold _ _ hh, throw, throwThe, MonadExceptOf.throw]

theorem agpFields_frag (st : ParseState) (name a b c : Str) (f : Fragment) (ss : Str)
    (hlook : lookupStr Gen.agpStrandDict ss = .ok f.strand) (hse : f.start ≤ f.stop) :
    agpFields st (name :: a :: b :: c :: Gen.agpFragCol5 :: f.name :: intToStr f.start :: intToStr f.stop :: ss :: f.tags) =
      addRowOid (st.switchScaffold name) (.frag f) := by
  have hstr := lookupStr_agp_strand _ _ hlook
  have g0 : pyGet (name :: a :: b :: c :: Gen.agpFragCol5 :: f.name :: intToStr f.start :: intToStr f.stop :: ss :: f.tags) 0 = .ok name := pyGet_nat _ 0 _ rfl
  have g4 : pyGet (name :: a :: b :: c :: Gen.agpFragCol5 :: f.name :: intToStr f.start :: intToStr f.stop :: ss :: f.tags) 4 = .ok Gen.agpFragCol5 := pyGet_nat _ 4 _ rfl
  have g5 : pyGet (name :: a :: b :: c :: Gen.agpFragCol5 :: f.name :: intToStr f.start :: intToStr f.stop :: ss :: f.tags) 5 = .ok f.name := pyGet_nat _ 5 _ rfl
  have g6 : pyGet (name :: a :: b :: c :: Gen.agpFragCol5 :: f.name :: intToStr f.start :: intToStr f.stop :: ss :: f.tags) 6 = .ok (intToStr f.start) := pyGet_nat _ 6 _ rfl
  have g7 : pyGet (name :: a :: b :: c :: Gen.agpFragCol5 :: f.name :: intToStr f.start :: intToStr f.stop :: ss :: f.tags) 7 = .ok (intToStr f.stop) := pyGet_nat _ 7 _ rfl
  have g8 : pyGet (name :: a :: b :: c :: Gen.agpFragCol5 :: f.name :: intToStr f.start :: intToStr f.stop :: ss :: f.tags) 8 = .ok ss := pyGet_nat _ 8 _ rfl
  have hW : Gen.agpGapComponentTypes.contains Gen.agpFragCol5 = false := by decide
  unfold agpFields
  simp only [g0, g4, g5, g6, g7, g8, bind, Except.bind, hW, Bool.false_eq_true, if_false, pyInt_intToStr, hlook,
    List.drop_succ_cons, List.drop_zero, mkFragment_ok _ _ _ _ _ _ hstr hse, addRowOid]
  cases hh : (st.switchScaffold name).haveScaffold with
  | true =>
    simp only [not_true_eq_false, if_false]
    cases (st.switchScaffold name).addRow (Row.frag { f with oid := (st.switchScaffold name).nextOid }) <;> rfl
  | false => simp [addRow_noScaffold _ _ hh, throw, throwThe, MonadExceptOf.throw]

/-- (e, AGP) the reader applied to a written line adds exactly that row (opening the scaffold if its name is new) -/
theorem parseAgpLine_row (st : ParseState) (name : Str) (p i : Int) (row : Row) (cols : List Str)
    (hn : AgpScafNameOk name) (hr : AgpRowOk row) (hc : agpRowCols name p i row = .ok cols) :
    parseAgpLine st (lineOfCols cols) = addRowOid (st.switchScaffold name) row := by
  obtain ⟨hne, hnt, hnh⟩ := hn
  obtain ⟨d, hdm, hds⟩ := intToStr_has_nonspace (p + 1)
  cases row with
  | gap g =>
    simp only [agpRowCols] at hc
    cases hc
    have hfields := agp_line_cols
      ([name, intToStr (p + 1), intToStr (p + (Row.gap g).length), intToStr (i + 1)] ++
        [Gen.agpGapCol5, intToStr g.length, g.gapType, Gen.agpGapLinkage, Gen.agpGapEvidence])
      (by
        intro c hc
        simp only [List.cons_append, List.nil_append, List.mem_cons, List.not_mem_nil, or_false] at hc
        rcases hc with rfl | rfl | rfl | rfl | rfl | rfl | rfl | rfl | rfl
        · exact hnt
        · exact intToStr_no_tab _
        · exact intToStr_no_tab _
        · exact intToStr_no_tab _
        · decide
        · exact intToStr_no_tab _
        · exact hr
        · decide
        · decide)
      Gen.agpGapEvidence rfl (by decide)
    rw [parseAgpLine_eq, isBlankLine_lineOfCols _ _ d (by simp) hdm hds,
      startsWith_hashhash_false _ (by rw [List.cons_append, lineOfCols_head _ _ hne]; exact hnh),
      startsWith_hash_false _ (by rw [List.cons_append, lineOfCols_head _ _ hne]; exact hnh)]
    simp only [Bool.false_eq_true, if_false]
    rw [hfields]
    exact agpFields_gap st name _ _ _ g.length g.gapType _ _
  | frag f =>
    obtain ⟨hft, htt, hlast, hse, hstr⟩ := hr
    obtain ⟨ss, hss, hlook, hsst, _, hsse⟩ := strandStr_agp f.strand hstr
    simp only [agpRowCols, hss] at hc
    cases hc
    have hlastcol : ∃ l, ([name, intToStr (p + 1), intToStr (p + (Row.frag f).length), intToStr (i + 1)] ++
          [Gen.agpFragCol5, f.name, intToStr f.start, intToStr f.stop, ss] ++ f.tags).getLast? = some l ∧
          endsNonSpace l = true := by
      cases hl : f.tags.getLast? with
      | none =>
        simp at hl
        rw [hl]; exact ⟨ss, rfl, hsse⟩
      | some t =>
        refine ⟨t, ?_, ?_⟩
        · rw [List.getLast?_append, hl]; rfl
        · unfold lastTagOk at hlast; rw [hl] at hlast; exact hlast
    obtain ⟨l, hl1, hl2⟩ := hlastcol
    have hfields := agp_line_cols
      ([name, intToStr (p + 1), intToStr (p + (Row.frag f).length), intToStr (i + 1)] ++
        [Gen.agpFragCol5, f.name, intToStr f.start, intToStr f.stop, ss] ++ f.tags)
      (by
        intro c hc
        simp only [List.cons_append, List.nil_append, List.mem_cons] at hc
        rcases hc with rfl | rfl | rfl | rfl | rfl | rfl | rfl | rfl | rfl | hc
        · exact hnt
        · exact intToStr_no_tab _
        · exact intToStr_no_tab _
        · exact intToStr_no_tab _
        · decide
        · exact hft
        · exact intToStr_no_tab _
        · exact intToStr_no_tab _
        · exact hsst
        · exact htt c hc)
      l hl1 hl2
    rw [parseAgpLine_eq, isBlankLine_lineOfCols _ _ d (by simp) hdm hds,
      startsWith_hashhash_false _ (by rw [List.cons_append, List.cons_append, lineOfCols_head _ _ hne]; exact hnh),
      startsWith_hash_false _ (by rw [List.cons_append, List.cons_append, lineOfCols_head _ _ hne]; exact hnh)]
    simp only [Bool.false_eq_true, if_false]
    rw [hfields]
    exact agpFields_frag st name _ _ _ f ss hlook hse


theorem agpFields_ok {st : ParseState} {fields : List Str} {st' : ParseState} (h : agpFields st fields = .ok st') :
    ∃ name r st'', pyGet fields 0 = .ok name ∧ (st.switchScaffold name).addRow r = .ok st'' ∧
      st'.scaffolds = st''.scaffolds ∧ st'.header = st''.header := by
  unfold agpFields at h
  simp only [bind, Except.bind] at h
  cases h0 : pyGet fields 0 with
  | error e => rw [h0] at h; cases h
  | ok name =>
    rw [h0] at h; simp only at h
    refine ⟨name, ?_⟩
    cases h4 : pyGet fields 4 with
    | error e => rw [h4] at h; cases h
    | ok f4 =>
      rw [h4] at h; simp only at h
      cases hh : (st.switchScaffold name).haveScaffold with
      | false => simp [hh, throw, throwThe, MonadExceptOf.throw] at h
      | true =>
        simp only [hh, not_true_eq_false, if_false] at h
        split at h
        · cases h5 : pyGet fields 5 with
          | error e => rw [h5] at h; cases h
          | ok f5 =>
            rw [h5] at h; simp only at h
            cases h6 : pyGet fields 6 with
            | error e => rw [h6] at h; cases h
            | ok f6 =>
              rw [h6] at h; simp only at h
              cases hi : pyInt f5 with
              | error e => rw [hi] at h; cases h
              | ok len =>
                rw [hi] at h; simp only at h
                exact ⟨_, st', rfl, h, rfl, rfl⟩
        · cases h5 : pyGet fields 5 with
          | error e => rw [h5] at h; cases h
          | ok f5 =>
            rw [h5] at h; simp only at h
            cases h6 : pyGet fields 6 with
            | error e => rw [h6] at h; cases h
            | ok f6 =>
              rw [h6] at h; simp only at h
              cases h7 : pyGet fields 7 with
              | error e => rw [h7] at h; cases h
              | ok f7 =>
                rw [h7] at h; simp only at h
                cases h8 : pyGet fields 8 with
                | error e => rw [h8] at h; cases h
                | ok f8 =>
                  rw [h8] at h; simp only at h
                  cases hl : lookupStr Gen.agpStrandDict f8 with
                  | error e => rw [hl] at h; cases h
                  | ok strand =>
                    rw [hl] at h; simp only at h
                    cases hi : pyInt f6 with
                    | error e => rw [hi] at h; cases h
                    | ok sv =>
                      rw [hi] at h; simp only at h
                      cases hj : pyInt f7 with
                      | error e => rw [hj] at h; cases h
                      | ok ev =>
                        rw [hj] at h; simp only at h
                        cases hm : mkFragment (st.switchScaffold name).nextOid f5 sv ev strand (List.drop 9 fields) with
                        | error e => rw [hm] at h; cases h
                        | ok fr =>
                          rw [hm] at h; simp only at h
                          cases ha : (st.switchScaffold name).addRow (Row.frag fr) with
                          | error e => rw [ha] at h; cases h
                          | ok st'' =>
                            rw [ha] at h
                            simp only [pure, Except.pure, Except.ok.injEq] at h
                            subst h
                            exact ⟨_, st'', rfl, ha, rfl, rfl⟩

/-- (e) "no line is silently skipped, merged or re-homed" for the AGP reader: a blank or `#` line leaves the
    scaffolds untouched; every other line either raises or adds exactly one row — to the scaffold named in its
    first column, which is the current one or a newly opened one. -/
theorem agp_line_one_row_or_error (st : ParseState) (line : Str) (st' : ParseState)
    (h : parseAgpLine st line = .ok st') :
    (isBlankLine line = true ∨ startsWith ['#'] line = true →
        st'.scaffolds = st.scaffolds ∧ st'.currentName = st.currentName ∧ st'.nextOid = st.nextOid) ∧
    (¬ (isBlankLine line = true ∨ startsWith ['#'] line = true) →
        OneRowAdded st st' ∧ totalRows st' = totalRows st + 1 ∧ st'.header = st.header) := by
  rw [parseAgpLine_eq] at h
  have h21 : startsWith ['#', '#'] line = true → startsWith ['#'] line = true := by
    cases line with
    | nil => intro h; cases h
    | cons c t => simp only [startsWith, List.isPrefixOf]; intro h; simp at h ⊢; exact h.1
  by_cases hb : isBlankLine line = true
  · rw [if_pos hb] at h; cases h
    exact ⟨fun _ => ⟨rfl, rfl, rfl⟩, fun hn => absurd (Or.inl hb) hn⟩
  · rw [if_neg hb] at h
    by_cases h2 : startsWith ['#', '#'] line = true
    · rw [if_pos h2] at h; cases h
      exact ⟨fun _ => ⟨rfl, rfl, rfl⟩, fun hn => absurd (Or.inr (h21 h2)) hn⟩
    · rw [if_neg h2] at h
      by_cases h1 : startsWith ['#'] line = true
      · rw [if_pos h1] at h
        refine ⟨fun _ => ?_, fun hn => absurd (Or.inr h1) hn⟩
        split at h <;> (cases h; exact ⟨rfl, rfl, rfl⟩)
      · rw [if_neg h1] at h
        refine ⟨fun hc => by rcases hc with hc | hc <;> contradiction, fun _ => ?_⟩
        obtain ⟨name, r, st'', _, ha, e1, e2⟩ := agpFields_ok h
        obtain ⟨hone, hhdr, _⟩ := oneRow_of_switch_addRow st name r st'' ha
        have hone' : OneRowAdded st st' := by
          obtain ⟨r, hr⟩ := hone
          exact ⟨r, by rw [e1]; exact hr⟩
        exact ⟨hone', hone'.totalRows, by rw [e2, hhdr]⟩

end AgpTpf.C05
