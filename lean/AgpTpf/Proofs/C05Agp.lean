/- C05 (e): AGP line level -/
import AgpTpf.Proofs.C05Line
namespace AgpTpf.C05
open AgpTpf AgpTpf.C06

/-- object (scaffold) name the AGP reader can take back: it is the FIRST column, so it must not be empty (an
    empty first scaffold name equals the reader's initial `scaffold_name = ""` → AttributeError on `None`),
    must not contain a tab, and must not start with '#' (the line would be a comment). -/
def AgpScafNameOk (n : Str) : Prop := n ≠ [] ∧ '\t' ∉ n ∧ n.head? ≠ some '#'

instance (n : Str) : Decidable (AgpScafNameOk n) := by unfold AgpScafNameOk; infer_instance

/-- only the LAST column is exposed to `rstrip()`: the last tag (if any) must end in a non-whitespace character
    (so it is non-empty). -/
def lastTagOk (tags : List Str) : Bool :=
  match tags.getLast? with
  | none => true
  | some t => endsNonSpace t

/-- row the AGP reader takes back unchanged.  Component names and gap types may be empty and may contain
    spaces; no column may contain a tab; `start ≤ end` and the strand range are `Fragment.__init__`'s checks. -/
def AgpRowOk (r : Row) : Prop :=
  match r with
  | .gap g => '\t' ∉ g.gapType
  | .frag f => '\t' ∉ f.name ∧ (∀ t ∈ f.tags, '\t' ∉ t) ∧ lastTagOk f.tags = true ∧ f.start ≤ f.stop ∧
      (f.strand = 0 ∨ f.strand = 1 ∨ f.strand = -1)

instance (r : Row) : Decidable (AgpRowOk r) := by unfold AgpRowOk; cases r <;> infer_instance

theorem startsWith_hash_false (line : Str) (h : line.head? ≠ some '#') : startsWith ['#'] line = false := by
  cases line with
  | nil => rfl
  | cons c t =>
    simp only [List.head?_cons, ne_eq, Option.some.injEq] at h
    simp [startsWith, List.isPrefixOf, h]

theorem startsWith_hashhash_false (line : Str) (h : line.head? ≠ some '#') : startsWith ['#', '#'] line = false := by
  cases line with
  | nil => rfl
  | cons c t =>
    simp only [List.head?_cons, ne_eq, Option.some.injEq] at h
    simp [startsWith, List.isPrefixOf, h]

theorem lineOfCols_head (name : Str) (rest : List Str) (hn : name ≠ []) :
    (lineOfCols (name :: rest)).head? = name.head? := by
  cases name with
  | nil => exact absurd rfl hn
  | cons c t =>
    cases rest with
    | nil => rfl
    | cons g gs => rfl

theorem strandStr_agp (s : Int) (h : s = 0 ∨ s = 1 ∨ s = -1) :
    ∃ t, strandStr Gen.agpStrandStr s = .ok t ∧ lookupStr Gen.agpStrandDict t = .ok s ∧
      '\t' ∉ t ∧ endsNonSpace t = true := by
  rcases h with rfl | rfl | rfl <;> exact ⟨_, rfl, rfl, by decide, by decide⟩

theorem lookupStr_agp_strand (t : Str) (s : Int) (h : lookupStr Gen.agpStrandDict t = .ok s) :
    s = 0 ∨ s = 1 ∨ s = -1 := by
  unfold lookupStr at h
  cases hd : dGet? Gen.agpStrandDict t with
  | none => rw [hd] at h; cases h
  | some v =>
    rw [hd] at h; cases h
    have := dGet?_some_mem hd
    simp only [Gen.agpStrandDict, List.mem_cons, List.not_mem_nil, or_false, Prod.mk.injEq] at this
    omega

theorem mkFragment_ok (oid : Nat) (name : Str) (s e strand : Int) (tags : List Str)
    (h1 : strand = 0 ∨ strand = 1 ∨ strand = -1) (h2 : s ≤ e) :
    mkFragment oid name s e strand tags = .ok { oid, name, start := s, stop := e, strand, tags } := by
  unfold mkFragment
  rw [if_neg (by simpa using h1), if_neg (by omega)]

/-- (e, AGP) the reader applied to a written line adds exactly that row (opening the scaffold if its name is new) -/
theorem parseAgpLine_row (st : ParseState) (name : Str) (p i : Int) (row : Row) (cols : List Str)
    (hn : AgpScafNameOk name) (hr : AgpRowOk row) (hc : agpRowCols name p i row = .ok cols) :
    parseAgpLine st (lineOfCols cols) = addRowOid (st.switchScaffold name) row := by
  obtain ⟨hne, hnt, hnh⟩ := hn
  obtain ⟨d, hdm, hds⟩ := intToStr_has_nonspace (p + 1)
  cases row with
  | gap g =>
    simp only [agpRowCols] at hc
    cases hc
    have hfields := agp_line_cols
      ([name, intToStr (p + 1), intToStr (p + (Row.gap g).length), intToStr (i + 1)] ++
        [Gen.agpGapCol5, intToStr g.length, g.gapType, Gen.agpGapLinkage, Gen.agpGapEvidence])
      (by
        intro c hc
        simp only [List.cons_append, List.nil_append, List.mem_cons, List.not_mem_nil, or_false] at hc
        rcases hc with rfl | rfl | rfl | rfl | rfl | rfl | rfl | rfl | rfl
        · exact hnt
        · exact intToStr_no_tab _
        · exact intToStr_no_tab _
        · exact intToStr_no_tab _
        · decide
        · exact intToStr_no_tab _
        · exact hr
        · decide
        · decide)
      Gen.agpGapEvidence rfl (by decide)
    unfold parseAgpLine
    rw [isBlankLine_false _ d (List.mem_append_left _ (mem_joinWith _ _ _ _ (by simp) hdm)) hds]
    rw [startsWith_hashhash_false _ (by rw [List.cons_append, lineOfCols_head _ _ hne]; exact hnh),
      startsWith_hash_false _ (by rw [List.cons_append, lineOfCols_head _ _ hne]; exact hnh)]
    simp only [Bool.false_eq_true, if_false]
    rw [hfields]
    have g0 : ∀ l : List Str, pyGet (name :: l) 0 = .ok name := fun l => pyGet_nat _ 0 _ rfl
    simp only [List.cons_append, List.nil_append]
    rw [g0]
    simp only [bind, Except.bind]
    rw [pyGet_nat _ 4 Gen.agpGapCol5 rfl]
    simp only
    rw [if_pos (by decide)]
    simp only [addRowOid]
    by_cases hh : (st.switchScaffold name).haveScaffold = true
    · simp only [hh, not_true_eq_false, if_false]
      rw [pyGet_nat _ 5 (intToStr g.length) rfl, pyGet_nat _ 6 g.gapType rfl]
      simp only [pyInt_intToStr]
      rfl
    · simp only [hh, not_false_eq_true, if_true]
      unfold ParseState.addRow
      simp [hh]
      rfl
  | frag f =>
    obtain ⟨hft, htt, hlast, hse, hstr⟩ := hr
    obtain ⟨ss, hss, hlook, hsst, hsse⟩ := strandStr_agp f.strand hstr
    simp only [agpRowCols, hss] at hc
    cases hc
    have hlastcol : ∃ l, ([name, intToStr (p + 1), intToStr (p + (Row.frag f).length), intToStr (i + 1)] ++
          [Gen.agpFragCol5, f.name, intToStr f.start, intToStr f.stop, ss] ++ f.tags).getLast? = some l ∧
          endsNonSpace l = true := by
      cases hl : f.tags.getLast? with
      | none =>
        simp at hl
        rw [hl]; exact ⟨ss, rfl, hsse⟩
      | some t =>
        refine ⟨t, ?_, ?_⟩
        · rw [List.getLast?_append, hl]; rfl
        · unfold lastTagOk at hlast; rw [hl] at hlast; exact hlast
    obtain ⟨l, hl1, hl2⟩ := hlastcol
    have hfields := agp_line_cols
      ([name, intToStr (p + 1), intToStr (p + (Row.frag f).length), intToStr (i + 1)] ++
        [Gen.agpFragCol5, f.name, intToStr f.start, intToStr f.stop, ss] ++ f.tags)
      (by
        intro c hc
        simp only [List.cons_append, List.nil_append, List.mem_cons, List.mem_append, List.not_mem_nil, or_false] at hc
        rcases hc with rfl | rfl | rfl | rfl | rfl | rfl | rfl | rfl | rfl | hc
        · exact hnt
        · exact intToStr_no_tab _
        · exact intToStr_no_tab _
        · exact intToStr_no_tab _
        · decide
        · exact hft
        · exact intToStr_no_tab _
        · exact intToStr_no_tab _
        · exact hsst
        · exact htt c hc)
      l hl1 hl2
    unfold parseAgpLine
    rw [isBlankLine_false _ d (List.mem_append_left _ (mem_joinWith _ _ _ _ (by simp) hdm)) hds]
    rw [startsWith_hashhash_false _ (by rw [List.cons_append, lineOfCols_head _ _ hne]; exact hnh),
      startsWith_hash_false _ (by rw [List.cons_append, lineOfCols_head _ _ hne]; exact hnh)]
    simp only [Bool.false_eq_true, if_false]
    rw [hfields]
    have g0 : ∀ l : List Str, pyGet (name :: l) 0 = .ok name := fun l => pyGet_nat _ 0 _ rfl
    simp only [List.cons_append, List.nil_append]
    rw [g0]
    simp only [bind, Except.bind]
    rw [pyGet_nat _ 4 Gen.agpFragCol5 rfl]
    simp only
    rw [if_neg (by decide)]
    simp only [addRowOid]
    by_cases hh : (st.switchScaffold name).haveScaffold = true
    · simp only [hh, not_true_eq_false, if_false]
      rw [pyGet_nat _ 5 f.name rfl, pyGet_nat _ 6 (intToStr f.start) rfl, pyGet_nat _ 7 (intToStr f.stop) rfl,
        pyGet_nat _ 8 ss rfl]
      simp only [hlook, pyInt_intToStr]
      rw [show List.drop 9 (name :: intToStr (p + 1) :: intToStr (p + (Row.frag f).length) :: intToStr (i + 1) ::
            Gen.agpFragCol5 :: f.name :: intToStr f.start :: intToStr f.stop :: ss :: f.tags) = f.tags from rfl]
      rw [mkFragment_ok _ _ _ _ _ _ hstr hse]
      simp only
      cases (st.switchScaffold name).addRow (Row.frag { oid := (st.switchScaffold name).nextOid, name := f.name,
        start := f.start, stop := f.stop, strand := f.strand, tags := f.tags }) <;> rfl
    · simp only [hh, not_false_eq_true, if_true]
      unfold ParseState.addRow
      simp [hh]
      rfl

end AgpTpf.C05
