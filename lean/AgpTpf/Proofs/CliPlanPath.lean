/- pathlib on file names, `format_from_file_extn`, `parse_output_file`: shape lemmas (used by C16Plan) -/
import AgpTpf.Model.CliPlan
namespace AgpTpf.CliPlan
open AgpTpf

/-! ### the last '.'-separated segment of a name -/

/-- the characters behind the last '.' (the whole name when there is none) -/
def lastSeg (s : Str) : Str := (s.reverse.takeWhile (· ≠ '.')).reverse

theorem lastSeg_no_dot (s : Str) : '.' ∉ lastSeg s := by
  unfold lastSeg
  intro h
  have h' : '.' ∈ s.reverse.takeWhile (· ≠ '.') := by simpa using h
  have := List.all_takeWhile (p := (fun c : Char => decide (c ≠ '.'))) (l := s.reverse)
  rw [List.all_eq_true] at this
  have := this '.' h'
  simp at this

theorem lastSeg_append_dot (x w : Str) (hw : '.' ∉ w) : lastSeg (x ++ '.' :: w) = w := by
  unfold lastSeg
  have e : (x ++ '.' :: w).reverse = w.reverse ++ '.' :: x.reverse := by simp
  rw [e, List.takeWhile_append_of_pos]
  · simp
  · intro a ha
    have : a ∈ w := by simpa using ha
    have : a ≠ '.' := fun h => hw (h ▸ this)
    simpa using this

/-- a name that ends in `.w` (no '.' in `w`) is not a name that ends in `.w'` for another `w'` -/
theorem ne_of_lastSeg_ne (x y w w' : Str) (hw : '.' ∉ w) (hw' : '.' ∉ w') (hne : w ≠ w') :
    x ++ '.' :: w ≠ y ++ '.' :: w' := by
  intro h
  have := congrArg lastSeg h
  rw [lastSeg_append_dot x w hw, lastSeg_append_dot y w' hw'] at this
  exact hne this

/-! ### `pathSuffix` / `pathStem` / `withSuffix` -/

theorem pathSuffix_eq (name : Str) :
    pathSuffix name = if lastSeg name ≠ [] ∧ (lastSeg name).length + 1 < name.length then '.' :: lastSeg name else [] := rfl

theorem pathSuffix_shape (name : Str) :
    pathSuffix name = [] ∨ (pathSuffix name = '.' :: lastSeg name ∧ lastSeg name ≠ [] ∧ '.' ∉ lastSeg name) := by
  rw [pathSuffix_eq]
  split
  · next h => exact .inr ⟨rfl, h.1, lastSeg_no_dot name⟩
  · exact .inl rfl

/-- a non-empty stem followed by a one-dot extension: that extension is the suffix -/
theorem pathSuffix_append (x w : Str) (hx : x ≠ []) (hw : w ≠ []) (hdot : '.' ∉ w) :
    pathSuffix (x ++ '.' :: w) = '.' :: w := by
  rw [pathSuffix_eq, lastSeg_append_dot x w hdot]
  have hl : 0 < x.length := List.length_pos_iff.2 hx
  rw [if_pos]
  refine ⟨hw, ?_⟩
  simp only [List.length_append, List.length_cons]
  omega

theorem pathStem_append (x w : Str) (hx : x ≠ []) (hw : w ≠ []) (hdot : '.' ∉ w) :
    pathStem (x ++ '.' :: w) = x := by
  unfold pathStem
  rw [pathSuffix_append x w hx hw hdot]
  have : (x ++ '.' :: w).length - ('.' :: w).length = x.length := by
    simp only [List.length_append, List.length_cons]; omega
  rw [this]; simp

/-- `with_suffix` never changes anything but the last suffix: the result is `stem + suffix` -/
theorem withSuffix_ok (name sfx r : Str) (h : withSuffix name sfx = .ok r) : r = pathStem name ++ sfx := by
  unfold withSuffix at h
  split at h
  · cases h
  · split at h
    · cases h
    · split at h
      · cases h
      · unfold pathStem
        simp only [] at h
        split at h
        · next he =>
          have : pathSuffix name = [] := by simpa using he
          cases h; rw [this]; simp
        · cases h; rfl

theorem withSuffix_isOk (name sfx : Str) (hn : name ≠ []) (h1 : sfx.contains '/' = false)
    (h2 : ((!sfx.isEmpty && !startsWith ['.'] sfx) || sfx == ['.']) = false) :
    withSuffix name sfx = .ok (pathStem name ++ sfx) := by
  have hne : name.isEmpty = false := by cases name with | nil => exact absurd rfl hn | cons _ _ => rfl
  cases h : withSuffix name sfx with
  | ok r => rw [withSuffix_ok name sfx r h]
  | error e =>
    unfold withSuffix at h
    simp only [h1, h2, hne, Bool.false_eq_true, if_false] at h
    split at h <;> cases h

theorem withName_ok (name new r : Str) (h : withName name new = .ok r) : r = new := by
  unfold withName at h
  split at h
  · cases h
  · split at h
    · cases h
    · cases h; rfl

theorem logFileName_ok (n r : Str) (h : logFileName n = .ok r) : r = pathStem n ++ ".log".toList :=
  withSuffix_ok n _ r h
theorem chrReportName_ok (n r : Str) (h : chrReportName n = .ok r) : r = pathStem n ++ ".chr_report.csv".toList :=
  withSuffix_ok n _ r h
theorem infoYamlName_ok (n r : Str) (h : infoYamlName n = .ok r) : r = pathStem n ++ ".info.yaml".toList :=
  withName_ok n _ r h

theorem agpBesideName_append (x w : Str) (hx : x ≠ []) (hw : w ≠ []) (hdot : '.' ∉ w) :
    agpBesideName (x ++ '.' :: w) = .ok (x ++ ".agp".toList) := by
  unfold agpBesideName
  rw [withSuffix_isOk _ _ (by simp) (by decide) (by decide), pathStem_append x w hx hw hdot]
  rfl

/-! ### suffix accepted by `format_from_file_extn` -/

/-- first letter (lower case) of the extension of each format -/
def fmtLetter : Fmt → Char
  | .AGP => 'a' | .TPF => 't' | .FASTA => 'f'

/-- the shape of a suffix returned by `parse_output_file`: one dot, then a non-empty dot-free extension whose first
    letter is that of the format (any case) -/
def SuffixOk (fmt : Fmt) (sfx : Str) : Prop :=
  ∃ c w, sfx = '.' :: c :: w ∧ '.' ∉ c :: w ∧ toLowerAscii c = fmtLetter fmt

theorem formatFromExt_first (sfx : Str) (fmt : Fmt) (h : formatFromExt sfx none = some fmt) :
    ∃ c w, sfx = '.' :: c :: w ∧ toLowerAscii c = fmtLetter fmt := by
  unfold formatFromExt at h
  split at h
  · next rest =>
    cases rest with
    | nil => simp [lowerStr, startsWith] at h
    | cons c w =>
      refine ⟨c, w, rfl, ?_⟩
      simp only [lowerStr, List.map_cons, startsWith] at h
      split at h
      · next h1 =>
        cases h
        have : ('a' == toLowerAscii c) = true := by
          simp only [List.isPrefixOf, Bool.and_eq_true] at h1; exact h1.1.1
        simpa [fmtLetter] using (beq_iff_eq.1 this).symm
      · split at h
        · next h1 =>
          cases h
          have : ('t' == toLowerAscii c) = true := by
            simp only [List.isPrefixOf, Bool.and_eq_true] at h1; exact h1.1.1
          simpa [fmtLetter] using (beq_iff_eq.1 this).symm
        · split at h
          · next h1 =>
            cases h
            have : ('f' == toLowerAscii c) = true := by
              simp only [List.isPrefixOf, Bool.and_eq_true] at h1; exact h1.1.1
            simpa [fmtLetter] using (beq_iff_eq.1 this).symm
          · cases h
  · cases h

theorem formatFromExt_literal (fmt : Fmt) : formatFromExt ('.' :: lowerStr fmt.name) none = some fmt := by
  cases fmt <;> decide

/-- everything `parse_output_file` returns about the suffix -/
theorem parseOutputFile_suffix (name : Str) (fmt : Fmt) (root v sfx : Str)
    (h : parseOutputFile name = .ok (fmt, root, v, sfx)) :
    SuffixOk fmt sfx ∧ formatFromExt sfx none = some fmt ∧ name ≠ [] := by
  unfold parseOutputFile at h
  split at h
  · cases h
  · next fmt' hf =>
    have hne : name ≠ [] := by
      intro e; subst e
      have : formatFromExt (pathSuffix []) none = none := by decide
      rw [this] at hf; cases hf
    have hA : SuffixOk fmt' (pathSuffix name) := by
      obtain ⟨c, w, e, hc⟩ := formatFromExt_first _ _ hf
      rcases pathSuffix_shape name with h0 | ⟨h1, _, h3⟩
      · rw [h0] at e; cases e
      · refine ⟨c, w, e, ?_, hc⟩
        rw [h1] at e
        have : lastSeg name = c :: w := (List.cons.inj e).2
        rw [← this]; exact h3
    have hB : SuffixOk fmt' ('.' :: lowerStr fmt'.name) := by
      cases fmt'
      · exact ⟨'a', ['g', 'p'], rfl, by decide, rfl⟩
      · exact ⟨'t', ['p', 'f'], rfl, by decide, rfl⟩
      · exact ⟨'f', ['a', 's', 't', 'a'], rfl, by decide, rfl⟩
    by_cases hc : startsWith (lowerStr (pathSuffix name)) ('.' :: lowerStr fmt'.name) = true
    · simp only [hc, if_true] at h
      split at h <;> (cases h; exact ⟨hA, hf, hne⟩)
    · simp only [hc, if_false] at h
      split at h <;> (cases h; exact ⟨hB, formatFromExt_literal _, hne⟩)

/-- what the extension of a planned assembly file can NOT be -/
theorem SuffixOk.ext_ne (fmt : Fmt) (sfx : Str) (h : SuffixOk fmt sfx) :
    ∃ w, sfx = '.' :: w ∧ w ≠ [] ∧ '.' ∉ w ∧ w ≠ "log".toList ∧ w ≠ "yaml".toList ∧ w ≠ "csv".toList ∧
      (fmt = .FASTA → w ≠ "agp".toList) := by
  obtain ⟨c, w, e, hd, hc⟩ := h
  refine ⟨c :: w, e, by simp, hd, ?_, ?_, ?_, ?_⟩
  · intro h'; cases h'; cases fmt <;> simp [fmtLetter] at hc <;> revert hc <;> decide
  · intro h'; cases h'; cases fmt <;> simp [fmtLetter] at hc <;> revert hc <;> decide
  · intro h'; cases h'; cases fmt <;> simp [fmtLetter] at hc <;> revert hc <;> decide
  · intro hf h'; cases h'; subst hf; simp [fmtLetter] at hc; revert hc; decide

end AgpTpf.CliPlan
