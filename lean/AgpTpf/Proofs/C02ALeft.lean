/-
  C02 (aligned maps), part 2: nothing to resolve or cut; the contigs no piece claims come back through `add_missing`
  (arbitrary subsets of every input scaffold, not only whole absent scaffolds as in C08); `remap_to_input_assembly`.
-/
import AgpTpf.Proofs.C02ABuild
namespace AgpTpf.C02
open AgpTpf
open AgpTpf.C01 (missStep missingRows_eq missStep_gap missStep_found missStep_missing sepBefore missingRows_spec)
open AgpTpf.C08 (NamerPlain namedPlain namedPlain_plain makeScaffoldName_plain firstRowName_cons_frag amStep addMissing_eq
  dHas_true_of_mem dHas_false_of_not_mem dupCheck_ok discardOverhanging_nil cutRemaining_nil renameBySize_nil)

/-! ### `missingRows` only looks at which keys are registered and at the join gap -/

theorem sepBefore_congr (b b' : Build) (rows : List Row) (la : Option Nat) (i : Nat) (hj : b.joinGap = b'.joinGap) :
    sepBefore b rows la i = sepBefore b' rows la i := by
  unfold sepBefore; rw [hj]

theorem missStep_congr (b b' : Build) (rows : List Row) (hj : b.joinGap = b'.joinGap)
    (hf : ∀ k, dHas b.found k = dHas b'.found k) (acc) (p : Nat × Row) :
    missStep b rows acc p = missStep b' rows acc p := by
  obtain ⟨out, la, fi⟩ := acc
  obtain ⟨i, row⟩ := p
  cases row with
  | gap g => rfl
  | frag f =>
    cases h : dHas b.found f.keyTuple with
    | true => rw [missStep_found b rows _ i f h, missStep_found b' rows _ i f (by rw [← hf]; exact h)]
    | false =>
      rw [missStep_missing b rows out la fi i f h, missStep_missing b' rows out la fi i f (by rw [← hf]; exact h),
        sepBefore_congr b b' rows la i hj]

theorem missingRows_congr (b b' : Build) (rows : List Row) (hj : b.joinGap = b'.joinGap)
    (hf : ∀ k, dHas b.found k = dHas b'.found k) : missingRows b rows = missingRows b' rows := by
  rw [missingRows_eq, missingRows_eq]
  have : missStep b rows = missStep b' rows := by
    funext acc p; exact missStep_congr b b' rows hj hf acc p
  rw [this]

theorem sepBefore_ok_of_joinGap (b : Build) (rows : List Row) (la : Option Nat) (i : Nat) (g : Gap)
    (hj : b.joinGap = some g) : ∃ sep, sepBefore b rows la i = .ok sep := by
  unfold sepBefore
  rw [hj]
  cases la with
  | none => exact ⟨_, rfl⟩
  | some l =>
    simp only []
    split
    · exact ⟨_, rfl⟩
    · split
      · exact ⟨_, rfl⟩
      · exact ⟨_, rfl⟩

theorem missStep_ok_of_joinGap (b : Build) (rows : List Row) (g : Gap) (hj : b.joinGap = some g) (acc) (p : Nat × Row) :
    ∃ r, missStep b rows acc p = .ok r := by
  obtain ⟨out, la, fi⟩ := acc
  obtain ⟨i, row⟩ := p
  cases row with
  | gap g' => exact ⟨_, missStep_gap b rows _ i g'⟩
  | frag f =>
    cases h : dHas b.found f.keyTuple with
    | true => exact ⟨_, missStep_found b rows _ i f h⟩
    | false =>
      obtain ⟨sep, hs⟩ := sepBefore_ok_of_joinGap b rows la i g hj
      exact ⟨_, by rw [missStep_missing b rows out la fi i f h, hs]; rfl⟩

/-- with a join gap configured `missingRows` never raises -/
theorem missingRows_ok_of_joinGap (b : Build) (rows : List Row) (g : Gap) (hj : b.joinGap = some g) :
    ∃ r, missingRows b rows = .ok r := by
  rw [missingRows_eq]
  have : ∀ (l : List (Nat × Row)) acc, ∃ r, l.foldlM (missStep b rows) acc = .ok r := by
    intro l
    induction l with
    | nil => intro acc; exact ⟨acc, rfl⟩
    | cons p t ih =>
      intro acc
      obtain ⟨r, hr⟩ := missStep_ok_of_joinGap b rows g hj acc p
      obtain ⟨r', hr'⟩ := ih r
      exact ⟨r', by simp only [List.foldlM_cons, hr, bind, Except.bind]; exact hr'⟩
  obtain ⟨⟨out, la, fi⟩, hr⟩ := this ((List.range rows.length).zip rows) ([], none, none)
  exact ⟨(out, fi), by rw [hr]; rfl⟩

/-- a build that registers exactly `keys` and has the join gap `jg`: the canonical argument of `missingRows` -/
def specBuild (keys : List Key) (jg : Gap) : Build :=
  { namer := { autosomePrefix := [] }, found := keys.map (fun k => (k, { fragment := default, scaffolds := [] })),
    nextOid := 0, joinGap := some jg, err := 0 }

/-- **the left-over rows of one input scaffold** when the contigs with keys `keys` are claimed by pieces:
    `missingRows` (characterised by `C01.missing_rows_exact`: the unclaimed contigs, in order, each once; only gap rows
    between two of them are kept as they are, otherwise the gap row in front or the join gap separates them) together
    with the row index of the first left-over contig -/
def leftover (keys : List Key) (jg : Gap) (rows : List Row) : List Row × Option Nat :=
  match missingRows (specBuild keys jg) rows with
  | .ok r => r
  | .error _ => ([], none)

theorem dHas_specBuild (keys : List Key) (jg : Gap) (k : Key) : dHas (specBuild keys jg).found k = keys.contains k := by
  by_cases h : k ∈ keys
  · rw [dHas_true_of_mem _ _ (by simp [specBuild, List.map_map, Function.comp_def, h])]
    simp [h]
  · rw [dHas_false_of_not_mem _ _ (by simp [specBuild, List.map_map, Function.comp_def, h])]
    simp [h]

theorem missingRows_eq_leftover (b : Build) (keys : List Key) (jg : Gap) (rows : List Row)
    (hj : b.joinGap = some jg) (hf : ∀ k, dHas b.found k = keys.contains k) :
    missingRows b rows = .ok (leftover keys jg rows) := by
  rw [missingRows_congr b (specBuild keys jg) rows hj (fun k => by rw [hf, dHas_specBuild])]
  obtain ⟨r, hr⟩ := missingRows_ok_of_joinGap (specBuild keys jg) rows jg rfl
  unfold leftover
  rw [hr]

/-- what `leftover` is (from `C01.missing_rows_exact`) -/
theorem leftover_spec (keys : List Key) (jg : Gap) (rows : List Row) :
    fragmentsOf (leftover keys jg rows).1 = (fragmentsOf rows).filter (fun f => !keys.contains f.keyTuple) ∧
    (∀ g, (leftover keys jg rows).1.head? ≠ some (.gap g)) ∧ (∀ g, (leftover keys jg rows).1.getLast? ≠ some (.gap g)) := by
  have h := missingRows_eq_leftover (specBuild keys jg) keys jg rows rfl (dHas_specBuild keys jg)
  obtain ⟨h1, -, -, h4, h5, -⟩ := missingRows_spec (specBuild keys jg) rows (leftover keys jg rows).1 (leftover keys jg rows).2 h
  refine ⟨?_, h4, h5⟩
  rw [h1]
  congr 1
  funext f
  rw [dHas_specBuild]

/-! ### `add_missing` -/

/-- hypotheses on the contigs no piece claims: no tags, and a name that does not have the shape `<hap>_…_<digits>` -/
def UnclaimedOk (keys : List Key) (sc : Scaffold) : Prop :=
  ∀ f ∈ sc.fragments, keys.contains f.keyTuple = false → f.tags = [] ∧ hapPrefixOfName f.name = none

/-- the left-over scaffold (and its recorded input predecessor) `add_missing` makes of one input scaffold -/
def leftoverEntry (keys : List Key) (jg : Gap) (sc : Scaffold) : Option (Scaffold × Option (Fragment × List Gap)) :=
  if (leftover keys jg sc.rows).1.isEmpty then none
  else some ({ name := sc.name, rows := (leftover keys jg sc.rows).1, rank := 3 },
             match (leftover keys jg sc.rows).2 with
             | some i => inputPredecessor sc.rows i
             | none => none)

theorem amStep_general (b : Build) (keys : List Key) (jg : Gap) (sc : Scaffold) (hplain : NamerPlain b.namer)
    (hj : b.joinGap = some jg) (hf : ∀ k, dHas b.found k = keys.contains k) (hu : UnclaimedOk keys sc) :
    ∃ n, NamerPlain n ∧ n.autosomePrefix = b.namer.autosomePrefix ∧
      amStep b sc = .ok { b with namer := n, extra := b.extra ++ (leftoverEntry keys jg sc).toList } := by
  have hm := missingRows_eq_leftover b keys jg sc.rows hj hf
  obtain ⟨hfr, hhead, -⟩ := leftover_spec keys jg sc.rows
  unfold amStep leftoverEntry
  rw [hm]
  cases hout : (leftover keys jg sc.rows).1 with
  | nil =>
    refine ⟨b.namer, hplain, rfl, ?_⟩
    simp [bind, Except.bind, pure, Except.pure, hout]
  | cons r0 rest =>
    rw [hout] at hfr hhead
    cases r0 with
    | gap g => exact absurd rfl (hhead g)
    | frag f0 =>
      have hmemf : ∀ f ∈ fragmentsOf (Row.frag f0 :: rest), f ∈ sc.fragments ∧ keys.contains f.keyTuple = false := by
        intro f hf'
        rw [hfr, List.mem_filter] at hf'
        exact ⟨hf'.1, by simpa using hf'.2⟩
      have h0 := hmemf f0 (by simp [fragmentsOf])
      have htags : ({ name := sc.name, rows := Row.frag f0 :: rest } : Scaffold).fragmentTags = [] :=
        fragmentTags_nil_of_untagged _ (fun f hf' => (hu f (hmemf f hf').1 (hmemf f hf').2).1)
      have hname : makeScaffoldName b.namer sc.name (Row.frag f0 :: rest) [] = .ok (namedPlain b.namer f0.name) :=
        makeScaffoldName_plain b.namer _ f0.name _ hplain.primary (firstRowName_cons_frag _ _) (hu f0 h0.1 h0.2).2
      refine ⟨namedPlain b.namer f0.name, namedPlain_plain hplain _, rfl, ?_⟩
      simp only [bind, Except.bind, hout, List.isEmpty_cons, Bool.false_eq_true, if_false, htags, hname, pure,
        Except.pure]
      simp [namedPlain, hplain.target]
      cases (leftover keys jg sc.rows).2 <;> rfl

/-- the left-over scaffolds, in input order -/
def expectedExtra (keys : List Key) (jg : Gap) (input : List Scaffold) :
    List (Scaffold × Option (Fragment × List Gap)) :=
  input.filterMap (leftoverEntry keys jg)

theorem addMissing_aligned (keys : List Key) (jg : Gap) (l : List Scaffold) (b : Build) (hplain : NamerPlain b.namer)
    (hj : b.joinGap = some jg) (hf : ∀ k, dHas b.found k = keys.contains k) (hu : ∀ sc ∈ l, UnclaimedOk keys sc) :
    ∃ b', l.foldlM amStep b = .ok b' ∧ b'.extra = b.extra ++ expectedExtra keys jg l ∧
      b'.store = b.store ∧ b'.multi = b.multi ∧ b'.cuts = b.cuts ∧ b'.joinGap = b.joinGap ∧
      b'.namer.autosomePrefix = b.namer.autosomePrefix := by
  induction l generalizing b with
  | nil => exact ⟨b, rfl, by simp [expectedExtra], rfl, rfl, rfl, rfl, rfl⟩
  | cons sc r ih =>
    obtain ⟨n, hn, hpre, hstep⟩ := amStep_general b keys jg sc hplain hj hf (hu sc (by simp))
    obtain ⟨b', e, h1, h2, h3, h4, h5, h6⟩ :=
      ih { b with namer := n, extra := b.extra ++ (leftoverEntry keys jg sc).toList } hn hj hf
        (fun s hs => hu s (by simp [hs]))
    refine ⟨b', ?_, ?_, h2, h3, h4, h5, h6.trans hpre⟩
    · simp only [List.foldlM_cons, hstep, bind, Except.bind]; exact e
    · rw [h1]
      simp only [expectedExtra, List.filterMap_cons]
      cases leftoverEntry keys jg sc <;> simp

/-! ### the whole of `remap_to_input_assembly` -/

/-- **the aligned (conflict-free) Pretext map** -/
structure Aligned (input ptx : List Scaffold) (err : Int) : Prop where
  names : (input.map (·.name)).Nodup                             -- `IndexedAssembly.add_scaffold` rejects duplicates
  lens : ∀ sc ∈ input, ∀ r ∈ sc.rows, 0 ≤ r.length               -- monotone index
  scaffolds : ∀ S ∈ ptx, ScaffoldAligned input err S             -- lookup results exist and need no trimming; untagged
  disjoint : (claimedKeys input ptx).Nodup                       -- no contig is claimed twice
  unclaimed : ∀ sc ∈ input, UnclaimedOk (claimedKeys input ptx) sc

theorem remapToInput_aligned (input ptx : List Scaffold) (prefix_ : Str) (jg : Gap) (err : Int)
    (ha : Aligned input ptx err) :
    ∃ b, remapToInput input ptx prefix_ (some jg) err = .ok b ∧
      b.store = expectedStore input ptx ∧
      b.extra = expectedExtra (claimedKeys input ptx) jg input ∧
      b.multi = [] ∧ b.cuts = 0 ∧ b.joinGap = some jg ∧ b.namer.autosomePrefix = prefix_ := by
  unfold remapToInput
  have hdup := dupCheck_ok input [] ha.names (by simp)
  simp only [bind, Except.bind, hdup]
  generalize (input.flatMap Scaffold.fragments).foldl (fun m f => max m (f.oid + 1)) 0 = oid0
  obtain ⟨b1, e1, hstore, hfound, hplain, hpre, hmulti, hextra, hcuts, hjg, herr⟩ :=
    findAssemblyOverlaps_aligned input ptx
      { namer := { autosomePrefix := prefix_ }, nextOid := oid0, joinGap := some jg, err := err }
      ha.lens ha.scaffolds ⟨rfl, rfl, rfl⟩ ha.disjoint (by intro k _; simp)
  simp only [e1]
  have hm1 : b1.multi = [] := hmulti
  simp only [discardOverhanging_nil _ b1 hm1, cutRemaining_nil b1 hm1, hplain.haplotig, renameBySize_nil]
  have hkeys : ∀ k, dHas b1.found k = (claimedKeys input ptx).contains k := by
    intro k
    by_cases h : k ∈ claimedKeys input ptx
    · rw [dHas_true_of_mem _ _ (by rw [hfound]; simpa using h)]; simp [h]
    · rw [dHas_false_of_not_mem _ _ (by rw [hfound]; simpa using h)]; simp [h]
  obtain ⟨b2, e2, gextra, gstore, gmulti, gcuts, gjg, gpre⟩ :=
    addMissing_aligned (claimedKeys input ptx) jg input
      { namer := b1.namer, store := b1.store, found := b1.found, multi := [], extra := b1.extra, cuts := b1.cuts,
        nextOid := b1.nextOid, joinGap := b1.joinGap, err := b1.err } hplain hjg hkeys ha.unclaimed
  rw [addMissing_eq, e2]
  refine ⟨b2, rfl, ?_, ?_, gmulti, ?_, ?_, ?_⟩
  · rw [gstore, hstore]; simp
  · rw [gextra, hextra]; simp
  · rw [gcuts, hcuts]
  · rw [gjg, hjg]
  · rw [gpre, hpre]

end AgpTpf.C02
