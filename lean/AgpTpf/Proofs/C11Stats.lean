/-
  C11 helpers, part 3: `Assembly.junctionSet`, `junctionsByPrefix`, `makeStats`.
-/
import AgpTpf.Proofs.C11Sets
import AgpTpf.Model.Remap
namespace AgpTpf.C11
open AgpTpf

/-- `j` is the junction tuple of two consecutive fragments of one of the scaffolds -/
def JunctionIn (scs : List Scaffold) (j : Junction) : Prop :=
  ∃ sc ∈ scs, ∃ pre a b post, sc.fragments = pre ++ a :: b :: post ∧ junctionTuple a b = .ok j

/-- every consecutive fragment pair in these scaffolds has strands ±1 -/
def StrandsOk (scs : List Scaffold) : Prop :=
  ∀ sc ∈ scs, ∀ pre a b post, sc.fragments = pre ++ a :: b :: post →
    (a.strand = 1 ∨ a.strand = -1) ∧ (b.strand = 1 ∨ b.strand = -1)

theorem junctionSet_ok_strands (sc : Scaffold) (S : List Junction) (h : sc.junctionSet = .ok S) :
    ∀ pre a b post, sc.fragments = pre ++ a :: b :: post →
      (a.strand = 1 ∨ a.strand = -1) ∧ (b.strand = 1 ∨ b.strand = -1) := by
  obtain ⟨js, hjs, -⟩ := (junctionSet_ok_iff sc S).mp h
  exact (jf_ok_iff _).mp ⟨js, hjs⟩

/-! ### `Assembly.junctionSet` -/

theorem asm_fold (scs : List Scaffold) (acc S : List Junction)
    (h : scs.foldlM (fun acc (s : Scaffold) => do let js ← s.junctionSet; pure (sUnion acc js)) acc = .ok S) :
    (acc.Nodup → S.Nodup) ∧ StrandsOk scs ∧ ∀ j, j ∈ S ↔ j ∈ acc ∨ JunctionIn scs j := by
  induction scs generalizing acc with
  | nil =>
    simp only [List.foldlM_nil, pure, Except.pure, Except.ok.injEq] at h
    subst h
    refine ⟨id, ?_, ?_⟩
    · intro sc hsc; simp at hsc
    · intro j; simp [JunctionIn]
  | cons sc scs ih =>
    simp only [List.foldlM_cons] at h
    cases hs : sc.junctionSet with
    | error e => rw [hs] at h; simp [bind, Except.bind] at h
    | ok js =>
      rw [hs] at h
      simp only [bind, Except.bind, pure, Except.pure] at h
      obtain ⟨h1, h2, h3⟩ := ih _ h
      refine ⟨fun hn => h1 (nodup_sUnion _ _ hn), ?_, ?_⟩
      · intro sc' hsc'
        rcases List.mem_cons.mp hsc' with rfl | hm
        · exact junctionSet_ok_strands _ _ hs
        · exact h2 sc' hm
      · intro j
        rw [h3 j, mem_sUnion, mem_junctionSet sc js hs j]
        unfold JunctionIn
        constructor
        · rintro ((h | ⟨pre, a, b, post, e, ht⟩) | ⟨sc', hm, r⟩)
          · exact Or.inl h
          · exact Or.inr ⟨sc, List.mem_cons_self, pre, a, b, post, e, ht⟩
          · exact Or.inr ⟨sc', List.mem_cons_of_mem _ hm, r⟩
        · rintro (h | ⟨sc', hm, r⟩)
          · exact Or.inl (Or.inl h)
          · rcases List.mem_cons.mp hm with rfl | hm'
            · exact Or.inl (Or.inr r)
            · exact Or.inr ⟨sc', hm', r⟩

theorem asm_junctionSet (a : Assembly) (S : List Junction) (h : a.junctionSet = .ok S) :
    S.Nodup ∧ StrandsOk a.scaffolds ∧ ∀ j, j ∈ S ↔ JunctionIn a.scaffolds j := by
  unfold Assembly.junctionSet at h
  obtain ⟨h1, h2, h3⟩ := asm_fold _ _ _ h
  refine ⟨h1 (by simp), h2, ?_⟩
  intro j; rw [h3 j]; simp

/-! ### `junctionsByPrefix` -/

/-- union of all the values of a dict of sets -/
def InValues (d : List (Option Str × List Junction)) (j : Junction) : Prop := ∃ p ∈ d, j ∈ p.2

theorem inValues_dSet (d : List (Option Str × List Junction)) (k : Option Str) (js : List Junction) (j : Junction) :
    InValues (dSet d k (sUnion ((dGet? d k).getD []) js)) j ↔ InValues d j ∨ j ∈ js := by
  unfold InValues
  induction d with
  | nil => simp [dSet, dGet?, mem_sUnion]
  | cons p r ih =>
    obtain ⟨k', v'⟩ := p
    by_cases hk : k' = k
    · subst hk
      simp only [dSet, dGet?, if_true, Option.getD_some, List.mem_cons, exists_eq_or_imp, mem_sUnion]
      constructor
      · rintro ((h | h) | h)
        · exact Or.inl (Or.inl h)
        · exact Or.inr h
        · exact Or.inl (Or.inr h)
      · rintro ((h | h) | h)
        · exact Or.inl (Or.inl h)
        · exact Or.inr h
        · exact Or.inl (Or.inr h)
    · simp only [dSet, dGet?, hk, if_false, List.mem_cons, exists_eq_or_imp, ih]
      constructor
      · rintro (h | h | h)
        · exact Or.inl (Or.inl h)
        · exact Or.inl (Or.inr h)
        · exact Or.inr h
      · rintro ((h | h) | h)
        · exact Or.inl h
        · exact Or.inr (Or.inl h)
        · exact Or.inr (Or.inr h)

theorem junctionSet_of_no_fragments (sc : Scaffold) (h : sc.fragments = []) : sc.junctionSet = .ok [] := by
  unfold Scaffold.junctionSet
  rw [h]
  rfl

theorem byPrefix_fold (input : List Scaffold) (acc res : List (Option Str × List Junction))
    (h : input.foldlM (fun acc (sc : Scaffold) =>
      match sc.fragments with
      | [] => (pure acc : R _)
      | f :: _ => do
        let js ← sc.junctionSet
        let k := asmPrefixOfName f.name
        let cur := (dGet? acc k).getD []
        pure (dSet acc k (sUnion cur js))) acc = .ok res) :
    StrandsOk input ∧ ∀ j, InValues res j ↔ InValues acc j ∨ JunctionIn input j := by
  induction input generalizing acc with
  | nil =>
    simp only [List.foldlM_nil, pure, Except.pure, Except.ok.injEq] at h
    subst h
    refine ⟨?_, ?_⟩
    · intro sc hsc; simp at hsc
    · intro j; simp [JunctionIn]
  | cons sc scs ih =>
    simp only [List.foldlM_cons] at h
    cases hf : sc.fragments with
    | nil =>
      rw [hf] at h
      simp only [bind, Except.bind, pure, Except.pure] at h
      obtain ⟨h2, h3⟩ := ih _ h
      refine ⟨?_, ?_⟩
      · intro sc' hsc'
        rcases List.mem_cons.mp hsc' with rfl | hm
        · intro pre a b post e
          rw [hf] at e
          have := congrArg List.length e
          simp at this
        · exact h2 sc' hm
      · intro j
        rw [h3 j]
        unfold JunctionIn
        constructor
        · rintro (h | ⟨sc', hm, r⟩)
          · exact Or.inl h
          · exact Or.inr ⟨sc', List.mem_cons_of_mem _ hm, r⟩
        · rintro (h | ⟨sc', hm, pre, a, b, post, e, ht⟩)
          · exact Or.inl h
          · rcases List.mem_cons.mp hm with rfl | hm'
            · rw [hf] at e
              have := congrArg List.length e
              simp at this
            · exact Or.inr ⟨sc', hm', pre, a, b, post, e, ht⟩
    | cons f rest =>
      rw [hf] at h
      cases hs : sc.junctionSet with
      | error e => rw [hs] at h; simp [bind, Except.bind] at h
      | ok js =>
        rw [hs] at h
        simp only [bind, Except.bind, pure, Except.pure] at h
        obtain ⟨h2, h3⟩ := ih _ h
        refine ⟨?_, ?_⟩
        · intro sc' hsc'
          rcases List.mem_cons.mp hsc' with rfl | hm
          · exact junctionSet_ok_strands _ _ hs
          · exact h2 sc' hm
        · intro j
          rw [h3 j, inValues_dSet, mem_junctionSet sc js hs j]
          unfold JunctionIn
          constructor
          · rintro ((h | ⟨pre, a, b, post, e, ht⟩) | ⟨sc', hm, r⟩)
            · exact Or.inl h
            · exact Or.inr ⟨sc, List.mem_cons_self, pre, a, b, post, e, ht⟩
            · exact Or.inr ⟨sc', List.mem_cons_of_mem _ hm, r⟩
          · rintro (h | ⟨sc', hm, r⟩)
            · exact Or.inl (Or.inl h)
            · rcases List.mem_cons.mp hm with rfl | hm'
              · exact Or.inl (Or.inr r)
              · exact Or.inr ⟨sc', hm', r⟩

theorem junctionsByPrefix_spec (input : List Scaffold) (res : List (Option Str × List Junction))
    (h : junctionsByPrefix input = .ok res) :
    StrandsOk input ∧ ∀ j, InValues res j ↔ JunctionIn input j := by
  unfold junctionsByPrefix at h
  obtain ⟨h2, h3⟩ := byPrefix_fold _ _ _ h
  refine ⟨h2, ?_⟩
  intro j; rw [h3 j]; simp [InValues]

/-! ### output side -/

/-- junctions of any scaffold of any output assembly -/
def JunctionInOuts (outs : List OutAsm) (j : Junction) : Prop := ∃ a ∈ outs, JunctionIn a.scaffolds j

theorem outSets_spec (outs : List OutAsm) (outSets : List (Option Str × List Junction))
    (h : outs.mapM (fun (a : OutAsm) => do
      let js ← ({ scaffolds := a.scaffolds } : Assembly).junctionSet
      pure (a.key, js)) = .ok outSets) :
    (∀ a ∈ outs, StrandsOk a.scaffolds) ∧ ∀ j, InValues outSets j ↔ JunctionInOuts outs j := by
  induction outs generalizing outSets with
  | nil =>
    simp only [List.mapM_nil, pure, Except.pure, Except.ok.injEq] at h
    subst h
    exact ⟨by simp, by simp [InValues, JunctionInOuts]⟩
  | cons a outs ih =>
    simp only [List.mapM_cons] at h
    cases hs : ({ scaffolds := a.scaffolds } : Assembly).junctionSet with
    | error e => rw [hs] at h; simp [bind, Except.bind] at h
    | ok js =>
      rw [hs] at h
      simp only [bind, Except.bind, pure, Except.pure] at h
      cases hr : outs.mapM (fun (a : OutAsm) => do
          let js ← ({ scaffolds := a.scaffolds } : Assembly).junctionSet
          pure (a.key, js)) with
      | error e =>
        simp only [bind, Except.bind, pure, Except.pure] at hr
        rw [hr] at h; simp at h
      | ok rest =>
        simp only [bind, Except.bind, pure, Except.pure] at hr
        rw [hr] at h
        simp only [Except.ok.injEq] at h
        subst h
        obtain ⟨i1, i2⟩ := ih rest (by simpa [bind, Except.bind, pure, Except.pure] using hr)
        obtain ⟨-, s2, s3⟩ := asm_junctionSet _ _ hs
        refine ⟨?_, ?_⟩
        · intro a' ha'
          rcases List.mem_cons.mp ha' with rfl | hm
          · exact s2
          · exact i1 a' hm
        · intro j
          unfold InValues JunctionInOuts at *
          simp only [List.mem_cons, exists_eq_or_imp]
          rw [i2 j, s3 j]

/-! ### `makeStats` -/

/-- the per-assembly output junction sets computed inside `makeStats` -/
def outSetsOf (outs : List OutAsm) : R (List (Option Str × List Junction)) :=
  outs.mapM (fun (a : OutAsm) => do
    let js ← ({ scaffolds := a.scaffolds } : Assembly).junctionSet
    pure (a.key, js))

/-- the union of a dict of junction sets, as `makeStats` builds it (`input_set |= junc_set`) -/
def unionOf (sets : List (Option Str × List Junction)) : List Junction :=
  sets.foldl (fun acc p => sUnion acc p.2) []

theorem makeStats_ok (input : List Scaffold) (outs : List OutAsm) (cuts : Int) (st : Stats)
    (h : makeStats input outs cuts = .ok st) :
    ∃ inSets outSets, junctionsByPrefix input = .ok inSets ∧ outSetsOf outs = .ok outSets ∧
      st.cuts = cuts ∧
      st.breaks = ((sDiff (unionOf inSets) (unionOf outSets)).length : Int) ∧
      st.joins = ((sDiff (unionOf outSets) (unionOf inSets)).length : Int) := by
  unfold makeStats at h
  cases h1 : junctionsByPrefix input with
  | error e => rw [h1] at h; simp [bind, Except.bind] at h
  | ok inSets =>
    cases h2 : outSetsOf outs with
    | error e =>
      unfold outSetsOf at h2
      rw [h1, h2] at h; simp [bind, Except.bind] at h
    | ok outSets =>
      refine ⟨inSets, outSets, rfl, rfl, ?_⟩
      unfold outSetsOf at h2
      rw [h1, h2] at h
      simp only [bind, Except.bind, pure, Except.pure, Except.ok.injEq] at h
      subst h
      exact ⟨rfl, rfl, rfl⟩

theorem unionOf_nodup (sets : List (Option Str × List Junction)) : (unionOf sets).Nodup := by
  unfold unionOf
  exact nodup_foldl_sUnion (fun (p : Option Str × List Junction) => p.2) sets [] (by simp)

theorem mem_unionOf (sets : List (Option Str × List Junction)) (j : Junction) :
    j ∈ unionOf sets ↔ InValues sets j := by
  unfold unionOf InValues
  rw [mem_foldl_sUnion (fun (p : Option Str × List Junction) => p.2)]
  simp

end AgpTpf.C11
