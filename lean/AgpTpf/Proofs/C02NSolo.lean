/-
  C02 "remapping never fails" (task W7-C02NOERR), helper part 3: a piece lying wholly INSIDE one contig keeps it.

  `Solo input err o`: if the fresh lookup of `o`'s bait is a single row whose span contains the whole bait, and the bait has
  at least `err` bases, then `o` still IS that lookup result (rows, start, stop).  Established by `find_assembly_overlaps`
  (`trim_large_overhangs` does not touch such a result) and kept by every round of the overhang resolver: `improves` is
  false on a one-row result, and the sub-texel rule needs an overlap `< err` while the row shares the whole bait.
-/
import AgpTpf.Proofs.C02KCut
namespace AgpTpf.C02
open AgpTpf OverlapResult
open AgpTpf.C18 (Inv ids)
open AgpTpf.C01 (WFInput Mid foldlM_inv FInv)

def Solo (input : List Scaffold) (err : Int) (o : OverlapResult) : Prop :=
  ∀ o0, C09.lookupOf input o.bait = .ok (some o0) → o0.rows.length = 1 → o0.start ≤ o.bait.start →
    o.bait.stop ≤ o0.stop → err ≤ o.bait.length → o.rows = o0.rows ∧ o.start = o0.start ∧ o.stop = o0.stop

def SoloS (input : List Scaffold) (err : Int) (store : List Res) : Prop := ∀ r ∈ store, Solo input err r.o

theorem Solo.congr {input : List Scaffold} {err : Int} {o o' : OverlapResult} (h : Solo input err o)
    (hr : o'.rows = o.rows) (hs : o'.start = o.start) (he : o'.stop = o.stop) (hb : o'.bait = o.bait) :
    Solo input err o' := by
  intro o0 h1 h2 h3 h4 h5
  rw [hb] at h1 h3 h4 h5
  rw [hr, hs, he]
  exact h o0 h1 h2 h3 h4 h5

theorem soloS_of_core4 {input : List Scaffold} {err : Int} (s1 s2 : List Res) (h : s1.map core4 = s2.map core4)
    (hs : SoloS input err s2) : SoloS input err s1 := by
  intro r hr
  have : core4 r ∈ s2.map core4 := h ▸ List.mem_map_of_mem hr
  obtain ⟨r2, h2, e⟩ := List.mem_map.mp this
  simp only [core4, Prod.mk.injEq] at e
  exact (hs r2 h2).congr e.2.1.symm e.2.2.1.symm e.2.2.2.symm e.1.symm

/-! ### a single row that contains the whole bait shares the whole bait with it -/

theorem solo_start_overlap {o : OverlapResult} {r0 : Row} {err ov : Int} (hr : o.rows = [r0])
    (hspan : o.stop - o.start + 1 = rowsLength o.rows) (h1 : o.start ≤ o.bait.start) (h2 : o.bait.stop ≤ o.stop)
    (hl : err ≤ o.bait.length) (h : o.startRowBaitOverlap = .ok ov) : err ≤ ov := by
  unfold startRowBaitOverlap at h
  rw [hr] at h
  rw [hr, C18.rowsLength_singleton] at hspan
  simp only [pyGet, List.length_singleton, bind, Except.bind, pure, Except.pure] at h
  simp at h
  unfold Fragment.length at hl
  subst h
  split <;> omega

theorem solo_end_overlap {o : OverlapResult} {r0 : Row} {err ov : Int} (hr : o.rows = [r0])
    (hspan : o.stop - o.start + 1 = rowsLength o.rows) (h1 : o.start ≤ o.bait.start) (h2 : o.bait.stop ≤ o.stop)
    (hl : err ≤ o.bait.length) (h : o.endRowBaitOverlap = .ok ov) : err ≤ ov := by
  unfold endRowBaitOverlap at h
  rw [hr] at h
  rw [hr, C18.rowsLength_singleton] at hspan
  simp only [pyGet, List.length_singleton, bind, Except.bind, pure, Except.pure] at h
  simp at h
  unfold Fragment.length at hl
  subst h
  split <;> omega

/-- `trim_large_overhangs` leaves such a result alone -/
theorem solo_trimLarge {o o' : OverlapResult} {r0 : Row} {err : Int} (hr : o.rows = [r0])
    (hspan : o.stop - o.start + 1 = rowsLength o.rows) (h1 : o.start ≤ o.bait.start) (h2 : o.bait.stop ≤ o.stop)
    (hl : err ≤ o.bait.length) (h : trimLargeOverhangs o err = .ok o') : o' = o := by
  rcases trimLarge_char h with ⟨_, e⟩ | ⟨_, o1, hA, hB⟩
  · exact e
  · have e1 : o1 = o := by
      rcases hA with ⟨⟨_, ov, hov, hlt⟩, _⟩ | ⟨_, e⟩
      · have := solo_start_overlap hr hspan h1 h2 hl hov; omega
      · exact e
    subst e1
    rcases hB with ⟨⟨_, ov, hov, hlt⟩, _, _⟩ | ⟨_, hC⟩
    · have := solo_start_overlap hr hspan h1 h2 hl hov; omega
    · rcases hC with ⟨⟨_, ov, hov, hlt⟩, _⟩ | ⟨_, e⟩
      · have := solo_end_overlap hr hspan h1 h2 hl hov; omega
      · exact e

/-! ### `find_assembly_overlaps` -/

theorem list_len_one {α} {l : List α} (h : l.length = 1) : ∃ x, l = [x] := by
  match l, h with
  | [x], _ => exact ⟨x, rfl⟩

theorem processBait_solo {input : List Scaffold} (hwf : WFInput input)
    (scTags : List Str) (orig : Str) (b b' : Build) (bait : Fragment)
    (hS : SoloS input b.err b.store) (h : processBait input scTags orig b bait = .ok b') :
    SoloS input b.err b'.store ∧ b'.err = b.err := by
  unfold processBait at h
  simp only [bind, Except.bind] at h
  split at h
  · cases h
  · next sc hsc =>
    obtain ⟨hscin, hname⟩ := C01.lookupScaffold_ok _ _ _ hsc
    split at h
    · cases h
    · next fo hfo =>
      split at h
      · simp only [pure, Except.pure, Except.ok.injEq] at h; subst h; exact ⟨hS, rfl⟩
      · next o0 =>
        have hd := ids_nodup_of_wf hwf hscin
        have hK0 := kinv_lookup (3 * b.err) hd hfo
        have hb0 : o0.bait = bait := hK0.bait
        split at h
        · cases h
        · next v hv =>
          obtain ⟨n, o1⟩ := v
          obtain ⟨hr1, hb1, hs1, he1⟩ := C01.labelScaffold_rows _ _ _ _ _ _ _ _ hv
          simp only at h
          split at h
          · cases h
          · next o2 ho2 =>
            have hlook : C09.lookupOf input bait = .ok (some o0) := by
              unfold C09.lookupOf
              simp only [hsc, bind, Except.bind, hfo]
            have hb2 : o2.bait = bait := by
              obtain ⟨_, q⟩ := C01.trimLargeOverhangs_infix o1 o2 _ ho2
              rw [q, hb1, hb0]
            have hok : Solo input b.err o2 := by
              intro o0' hl' hlen h1 h2 h3
              rw [hb2] at hl' h1 h2 h3
              rw [hlook] at hl'
              cases hl'
              obtain ⟨r0, hr0⟩ := list_len_one hlen
              have hspan1 : o1.stop - o1.start + 1 = rowsLength o1.rows := by
                rw [hr1, hs1, he1]; exact hK0.inv.span
              have : o2 = o1 := solo_trimLarge (r0 := r0) (by rw [hr1, hr0]) hspan1
                (by rw [hs1, hb1, hb0]; exact h1) (by rw [he1, hb1, hb0]; exact h2) (by rw [hb1, hb0]; exact h3) ho2
              rw [this]
              exact ⟨hr1, hs1, he1⟩
            have happ : ∀ (added : Bool), SoloS input b.err (b.store ++ [{ o := o2, added := added }]) := by
              intro added x hx
              rcases List.mem_append.mp hx with hx | hx
              · exact hS x hx
              · simp only [List.mem_cons, List.not_mem_nil, or_false] at hx; subst hx; exact hok
            split at h
            · simp only [pure, Except.pure, Except.ok.injEq] at h
              subst h
              exact ⟨happ false, rfl⟩
            · simp only [pure, Except.pure, Except.ok.injEq] at h
              subst h
              rw [C01.storeFragmentsFound_eq]
              obtain ⟨f1, _, _, _, _, _, f7⟩ := C01.foldl_storeOne_other_fields b.store.length (fragmentsOf o2.rows)
                { b with namer := n, store := b.store ++ [{ o := o2, added := true }] }
              rw [f1, f7]
              exact ⟨happ true, rfl⟩

theorem findAssemblyOverlaps_solo {input : List Scaffold} (hwf : WFInput input)
    (ptx : List Scaffold) (err : Int) (b b' : Build) (he : b.err = err)
    (hS : SoloS input err b.store) (h : findAssemblyOverlaps input ptx b = .ok b') :
    SoloS input err b'.store ∧ b'.err = err := by
  unfold findAssemblyOverlaps at h
  refine foldlM_inv (fun x : Build => SoloS input err x.store ∧ x.err = err) _ ptx ?_ b b' ⟨hS, he⟩ h
  intro a ps a' ha hstep
  simp only [bind, Except.bind] at hstep
  split at hstep
  · cases hstep
  · next n hn =>
    split at hstep
    · cases hstep
    · next b2 hb2 =>
      simp only [pure, Except.pure, Except.ok.injEq] at hstep
      subst hstep
      have hmid := foldlM_inv (fun x : Build => SoloS input err x.store ∧ x.err = err) _ ps.fragments
        (fun x bait x' hx hs' => by
          obtain ⟨q1, q2⟩ := processBait_solo hwf _ _ x x' bait (by rw [hx.2]; exact hx.1) hs'
          rw [hx.2] at q1 q2
          exact ⟨q1, q2⟩)
        { a with namer := n } b2 ⟨ha.1, ha.2⟩ hb2
      exact ⟨soloS_of_core4 _ _ (renameBySize_core4 _ _) hmid.1, hmid.2⟩

/-! ### the overhang resolver -/

/-- applying a guarded premise keeps `StoreR`, the baits and `SoloS` -/
theorem solo_apply {input : List Scaffold} (hwf : WFInput input) (hnn : InputNonNeg input) {err : Int} (herr : 0 ≤ err)
    {b : Build} (hm : Mid input b) {e : Key × List Premise} {rest : List (Key × List Premise)} {store : List Res}
    {fixes : List Premise} (hF : FInv input b (e :: rest) store fixes) (hS : StoreR input err store)
    (hD : BaitsDisj store) (hQ : SoloS input err store) {p : Premise} (hp : p ∈ e.2) {store1 : List Res}
    (happ : p.apply store = .ok store1)
    (hg : (∃ ov, p.baitOverlap store = .ok ov ∧ ov < err) ∨ p.improves store err = .ok true) :
    SoloS input err store1 := by
  obtain ⟨hval, _, _⟩ := hF.valid e (List.mem_cons_self ..) p hp
  obtain ⟨r, hr, _, hk⟩ := hval
  have hgetD : store.getD p.sid default = r := C01.getD_of_getElem? hr
  have hgetRes : getRes store p.sid = r.o := by unfold getRes; rw [hgetD]
  obtain ⟨_, _, o', hdisc, hset⟩ := apply_only_touches happ
  rw [hgetRes] at hdisc
  rw [hgetD] at hset
  obtain ⟨sc, o0, hsc, hname, hlook, hK, hG, hSf⟩ := hS r (List.mem_of_getElem? hr)
  have hb : o'.bait = r.o.bait := by
    cases hkind : p.kind with
    | start =>
      rw [hkind] at hdisc
      obtain ⟨_, _, _, _, _, _, hb⟩ := discardStart_full hdisc
      exact hb
    | stop =>
      rw [hkind] at hdisc
      obtain ⟨_, _, _, _, _, _, hb⟩ := discardEnd_full hdisc
      exact hb
  subst hset
  intro x hx
  rcases List.mem_or_eq_of_mem_set hx with hx | rfl
  · exact hQ x hx
  · -- the touched result: its `Solo` premise cannot hold
    intro o0' hl' hlen h1 h2 h3
    simp only at hl' h1 h2 h3 ⊢
    rw [hb] at hl' h1 h2 h3
    exfalso
    obtain ⟨q1, q2, q3⟩ := hQ r (List.mem_of_getElem? hr) o0' hl' hlen h1 h2 h3
    obtain ⟨r0, hr0⟩ := list_len_one hlen
    have hrows : r.o.rows = [r0] := by rw [q1, hr0]
    have hspan := hK.inv.span
    rcases hg with ⟨ov, hov, hlt⟩ | himp
    · cases hkind : p.kind with
      | start =>
        simp only [Premise.baitOverlap, hkind, hgetRes] at hov
        have := solo_start_overlap hrows hspan (by rw [q2]; exact h1) (by rw [q3]; exact h2) h3 hov
        omega
      | stop =>
        simp only [Premise.baitOverlap, hkind, hgetRes] at hov
        have := solo_end_overlap hrows hspan (by rw [q2]; exact h1) (by rw [q3]; exact h2) h3 hov
        omega
    · obtain ⟨h2', _⟩ := improves_guard himp
      rw [hgetRes, hrows] at h2'
      simp at h2'

theorem solo_fixFold {input : List Scaffold} (hwf : WFInput input) (hnn : InputNonNeg input) {err : Int} (herr : 0 ≤ err)
    {b : Build} (hm : Mid input b) : ∀ (rest : List (Key × List Premise)) (store : List Res) (fixes : List Premise)
    (store' : List Res) (fixes' : List Premise),
    FInv input b rest store fixes → StoreR input err store → BaitsDisj store → SoloS input err store →
    rest.foldlM (fun st e => fixOne err st e.2) (store, fixes) = .ok (store', fixes') →
    SoloS input err store'
  | [], store, fixes, store', fixes', _, _, _, hQ, h => by
    simp only [List.foldlM_nil, pure, Except.pure, Except.ok.injEq, Prod.mk.injEq] at h
    obtain ⟨rfl, rfl⟩ := h
    exact hQ
  | e :: rest, store, fixes, store', fixes', hF, hS, hD, hQ, h => by
    rw [List.foldlM_cons] at h
    simp only [bind, Except.bind] at h
    split at h
    · cases h
    · next st1 hst1 =>
      obtain ⟨store1, fixes1⟩ := st1
      have hF1 := finv_step input b err e rest store fixes store1 fixes1 hF hst1
      have hstep : (StoreR input err store1 ∧ store1.map (·.o.bait) = store.map (·.o.bait)) ∧ SoloS input err store1 := by
        rcases fixOne_guarded hst1 with ⟨rfl, _⟩ | ⟨p, hp, happ, _, hg⟩
        · exact ⟨⟨hS, rfl⟩, hQ⟩
        · exact ⟨storeR_apply hwf hnn herr hm hF hS hD hp happ hg, solo_apply hwf hnn herr hm hF hS hD hQ hp happ hg⟩
      have hD1 : BaitsDisj store1 := by unfold BaitsDisj; rw [hstep.1.2]; exact hD
      exact solo_fixFold hwf hnn herr hm rest store1 fixes1 store' fixes' hF1 hstep.1.1 hD1 hstep.2 h

theorem solo_resolverRound {input : List Scaffold} (hwf : WFInput input) (hnn : InputNonNeg input) {err : Int}
    (herr : 0 ≤ err) (b b' : Build) (hm : Mid input b) (he : b.err = err) (hS : StoreR input err b.store)
    (hD : BaitsDisj b.store) (hQ : SoloS input err b.store) (h : resolverRound b = .ok (some b')) :
    SoloS input err b'.store := by
  rw [C01.resolverRound_eq] at h
  simp only [bind, Except.bind] at h
  split at h
  · cases h
  · next prems hprems =>
    obtain ⟨hpn, hpv⟩ := C01.collectPremises_ok input hwf b hm prems hprems
    split at h
    · cases h
    · next v hv =>
      obtain ⟨store, fixes⟩ := v
      simp only at h
      rw [List.foldlM_map] at hv
      have hinit : FInv input b prems b.store [] :=
        ⟨by simp, by simp, hpv, hpn, by simp, (by intro p hp; cases hp), hm.slices⟩
      rw [he] at hv
      have hfin := solo_fixFold hwf hnn herr hm prems b.store [] store fixes hinit hS hD hQ hv
      split at h
      · cases h
      · split at h
        · cases h
        · next b2 hb2 =>
          simp only [pure, Except.pure, Except.ok.injEq, Option.some.injEq] at h
          subst h
          have hst : b2.store = store := by
            have := foldlM_inv (fun x : Build => x.store = store) _ fixes
              (fun x p x' hx hs' => by
                obtain ⟨q1, _⟩ := C07.applyFixBookkeeping_fields (fun _ => True) x x' p hs' (fun _ _ => trivial)
                exact q1.trans hx)
              { b with store := store } b2 rfl hb2
            exact this
          rw [hst]; exact hfin

theorem solo_discardOverhanging {input : List Scaffold} (hwf : WFInput input) (hnn : InputNonNeg input) {err : Int}
    (herr : 0 ≤ err) (fuel : Nat) (b b' : Build) (hm : Mid input b) (he : b.err = err) (hS : StoreR input err b.store)
    (hD : BaitsDisj b.store) (hQ : SoloS input err b.store) (h : discardOverhanging fuel b = .ok b') :
    SoloS input err b'.store := by
  induction fuel generalizing b with
  | zero => simp [discardOverhanging] at h
  | succ n ih =>
    unfold discardOverhanging at h
    split at h
    · cases h; exact hQ
    · simp only [bind, Except.bind] at h
      split at h
      · cases h
      · next r hr =>
        split at h
        · simp only [pure, Except.pure, Except.ok.injEq] at h; subst h
          exact hQ
        · next b1 =>
          obtain ⟨q0, _, _, _, _, q5, _, _⟩ := C01.reg_resolver_round_aux input hwf b b1 hm hr
          obtain ⟨s1, s2⟩ := storeR_resolverRound hwf hnn herr b b1 hm he hS hD hr
          have hD1 : BaitsDisj b1.store := by unfold BaitsDisj; rw [s2]; exact hD
          have hQ1 := solo_resolverRound hwf hnn herr b b1 hm he hS hD hQ hr
          exact ih b1 q0 (q5.trans he) s1 hD1 hQ1 h

end AgpTpf.C02
