/-
  C02 (script model), part 1: texel arithmetic and the pieces of one input scaffold (`Model/Pretext.lean`).
  Everything here is about natural numbers; no remapper code is involved.
-/
import AgpTpf.Model.Pretext
namespace AgpTpf.C02
open AgpTpf AgpTpf.Pretext

/-! ### `coord p q t = ⌊t·p/q⌋` -/

theorem coord_zero (p q : Nat) : coord p q 0 = 0 := by simp [coord]

theorem coord_mono (p q : Nat) {a b : Nat} (h : a ≤ b) : coord p q a ≤ coord p q b :=
  Nat.div_le_div_right (Nat.mul_le_mul_right p h)

/-- `⌊t·β⌋·q ≤ t·p` -/
theorem coord_mul_le (p q t : Nat) : coord p q t * q ≤ t * p := Nat.div_mul_le_self _ _

/-- `t·p < (⌊t·β⌋ + 1)·q` -/
theorem lt_coord_succ_mul (p q t : Nat) (hq : 1 ≤ q) : t * p < (coord p q t + 1) * q := by
  unfold coord
  have := Nat.lt_mul_div_succ (t * p) (show 0 < q by omega)
  rw [Nat.mul_comm q] at this; exact this

/-- `⌊a·β⌋ + ⌊d·β⌋ ≤ ⌊(a+d)·β⌋` -/
theorem coord_add_le (p q a d : Nat) (hq : 1 ≤ q) : coord p q a + coord p q d ≤ coord p q (a + d) := by
  unfold coord
  rw [Nat.le_div_iff_mul_le (by omega), Nat.add_mul, Nat.add_mul]
  have h1 := Nat.div_mul_le_self (a * p) q
  have h2 := Nat.div_mul_le_self (d * p) q
  omega

/-- `t·⌊β⌋ ≤ ⌊t·β⌋` -/
theorem mul_floor_le_coord (p q t : Nat) (hq : 1 ≤ q) : t * (p / q) ≤ coord p q t := by
  unfold coord
  rw [Nat.le_div_iff_mul_le (by omega), Nat.mul_assoc]
  exact Nat.mul_le_mul_left t (Nat.div_mul_le_self p q)

/-- β ≥ 1: consecutive texels end at different bases -/
theorem coord_succ (p q a : Nat) (hq : 1 ≤ q) (hpq : q ≤ p) : coord p q a + 1 ≤ coord p q (a + 1) := by
  have h := coord_add_le p q a 1 hq
  have h1 : 1 ≤ coord p q 1 := by
    unfold coord
    rw [Nat.le_div_iff_mul_le (by omega)]; omega
  omega

theorem coord_lt (p q : Nat) (hq : 1 ≤ q) (hpq : q ≤ p) {a b : Nat} (h : a < b) : coord p q a < coord p q b := by
  have h1 := coord_succ p q a hq hpq
  have h2 := coord_mono p q (show a + 1 ≤ b by omega)
  omega

/-- a piece of `d` texels is at least `⌊d·β⌋` bp long … -/
theorem coord_diff_ge (p q a d : Nat) (hq : 1 ≤ q) : coord p q d ≤ coord p q (a + d) - coord p q a := by
  have := coord_add_le p q a d hq
  omega

/-- … and shorter than `d·β + 1`: `(⌊(a+d)β⌋ − ⌊aβ⌋)·q < d·p + q` -/
theorem coord_diff_lt (p q a d : Nat) (hq : 1 ≤ q) : (coord p q (a + d) - coord p q a) * q < d * p + q := by
  have h1 := coord_mul_le p q (a + d)
  have h2 := lt_coord_succ_mul p q a hq
  have h3 := coord_mono p q (show a ≤ a + d by omega)
  rw [Nat.sub_mul]
  rw [Nat.add_mul] at h1 h2
  have h4 : coord p q a * q ≤ coord p q (a + d) * q := Nat.mul_le_mul_right q h3
  omega

theorem errLen_ge_two (p q : Nat) (hq : 1 ≤ q) (hpq : q ≤ p) : 2 ≤ errLen p q := by
  unfold errLen
  have : 1 ≤ p / q := by rw [Nat.le_div_iff_mul_le (by omega)]; omega
  omega

/-! ### the texel count -/

/-- floor choice: `⌊T·β⌋ ≤ L` -/
theorem coord_floorT_le (p q L : Nat) (hq : 1 ≤ q) (_hpq : q ≤ p) : coord p q (floorT p q L) ≤ L := by
  unfold coord floorT
  have h1 := Nat.div_mul_le_self (L * q) p
  have h2 : L * q / p * p / q ≤ L * q / q := Nat.div_le_div_right h1
  rw [Nat.mul_div_cancel _ (show 0 < q by omega)] at h2
  exact h2

/-- floor choice: `L < ⌊T·β⌋ + 1 + β`, i.e. `L·q < ⌊T·β⌋·q + q + p` -/
theorem lt_coord_floorT (p q L : Nat) (hq : 1 ≤ q) (hpq : q ≤ p) :
    L * q < coord p q (floorT p q L) * q + q + p := by
  have h1 := lt_coord_succ_mul p q (floorT p q L) hq
  have h2 : L * q < (floorT p q L + 1) * p := by
    unfold floorT
    have := Nat.lt_mul_div_succ (L * q) (show 0 < p by omega)
    rw [Nat.mul_comm p] at this; exact this
  rw [Nat.add_mul] at h1 h2
  omega

/-- floor choice, in whole bases: the scaffold end is undershot by at most `errLen = 1 + ⌊β⌋` -/
theorem floorT_undershoot (p q L : Nat) (hq : 1 ≤ q) (hpq : q ≤ p) :
    L - coord p q (floorT p q L) ≤ errLen p q := by
  have h := lt_coord_floorT p q L hq hpq
  have h0 := coord_floorT_le p q L hq hpq
  unfold errLen
  generalize coord p q (floorT p q L) = c at h h0
  -- (L - c) * q < q + p  ⇒  L - c ≤ (q + p) / q = 1 + p / q
  have h3 : (L - c) * q < q + p := by
    rw [Nat.sub_mul]
    have : c * q ≤ L * q := Nat.mul_le_mul_right q h0
    omega
  have h4 : L - c ≤ (q + p) / q := by
    rw [Nat.le_div_iff_mul_le (by omega)]; omega
  have h5 : (q + p) / q = 1 + p / q := by
    rw [Nat.add_comm q p, Nat.add_div_right _ (show 0 < q by omega)]; omega
  omega

/-- ceiling choice: `L ≤ ⌊T·β⌋` -/
theorem le_coord_ceilT (p q L : Nat) (hq : 1 ≤ q) (hpq : q ≤ p) : L ≤ coord p q (ceilT p q L) := by
  unfold coord
  rw [Nat.le_div_iff_mul_le (by omega)]
  unfold ceilT
  have h := Nat.lt_mul_div_succ (L * q + p - 1) (show 0 < p by omega)
  have e : p * ((L * q + p - 1) / p + 1) = (L * q + p - 1) / p * p + p := by
    rw [Nat.mul_add, Nat.mul_comm]; omega
  omega

/-- ceiling choice: `⌊T·β⌋ < L + β`, i.e. `⌊T·β⌋·q < L·q + p` -/
theorem coord_ceilT_lt (p q L : Nat) (hq : 1 ≤ q) (hpq : q ≤ p) :
    coord p q (ceilT p q L) * q < L * q + p := by
  have h1 := coord_mul_le p q (ceilT p q L)
  have h2 : ceilT p q L * p ≤ L * q + p - 1 := Nat.div_mul_le_self _ _
  omega

/-- ceiling choice, in whole bases: the scaffold end is overshot by less than `errLen` -/
theorem ceilT_overshoot (p q L : Nat) (hq : 1 ≤ q) (hpq : q ≤ p) :
    coord p q (ceilT p q L) - L < errLen p q := by
  have h := coord_ceilT_lt p q L hq hpq
  have h0 := le_coord_ceilT p q L hq hpq
  unfold errLen
  generalize coord p q (ceilT p q L) = c at h h0
  have h3 : (c - L) * q < p := by
    rw [Nat.sub_mul]
    have : L * q ≤ c * q := Nat.mul_le_mul_right q h0
    omega
  have h4 : c - L ≤ p / q := by
    rw [Nat.le_div_iff_mul_le (by omega)]; omega
  omega

/-- when `⌊L/β⌋ = 0` and `L ≥ 1`, `⌈L/β⌉ = 1` (so the generator's "T = 1" is the ceiling choice) -/
theorem ceilT_eq_one (p q L : Nat) (hq : 1 ≤ q) (hpq : q ≤ p) (hL : 1 ≤ L) (h0 : floorT p q L = 0) : ceilT p q L = 1 := by
  unfold floorT at h0
  unfold ceilT
  have hp : 0 < p := by omega
  have h1 : L * q < p := by
    have := Nat.lt_mul_div_succ (L * q) hp
    rw [h0] at this; omega
  have h2 : 1 ≤ L * q := Nat.mul_pos hL hq
  have e : L * q + p - 1 = (L * q - 1) + p := by omega
  rw [e, Nat.add_div_right _ hp, Nat.div_eq_of_lt (by omega)]

/-! ### the pieces of one scaffold -/

/-- strictly ascending from `a` -/
def Inc (a : Nat) : List Nat → Prop
  | [] => True
  | b :: r => a < b ∧ Inc b r

/-- every step at least `d` texels -/
def Steps (d a : Nat) : List Nat → Prop
  | [] => True
  | b :: r => a + d ≤ b ∧ Steps d b r

theorem Steps.inc {d a : Nat} {l : List Nat} (hd : 1 ≤ d) (h : Steps d a l) : Inc a l := by
  induction l generalizing a with
  | nil => trivial
  | cons b r ih => exact ⟨by have := h.1; omega, ih h.2⟩

theorem stepsOk_iff (a : Nat) (l : List Nat) : stepsOk a l = true ↔ Steps 2 a l := by
  induction l generalizing a with
  | nil => simp [stepsOk, Steps]
  | cons b r ih => simp [stepsOk, Steps, ih]

/-- what `ScafScript.wf` says about a present scaffold -/
theorem wf_present {p q L : Nat} {c : ScafScript} (h : c.wf p q L = true) (hp : c.present = true) :
    (c.T = floorT p q L ∨ c.T = ceilT p q L ∨ (floorT p q L = 0 ∧ c.T = 1)) ∧ 1 ≤ c.T ∧
    (c.cuts = [] ∨ Steps 2 0 (c.cuts ++ [c.T])) := by
  unfold ScafScript.wf at h
  rw [if_pos hp] at h
  simp only [Bool.and_eq_true, Bool.or_eq_true, beq_iff_eq, decide_eq_true_eq, List.isEmpty_iff] at h
  refine ⟨?_, h.1.2, ?_⟩
  · rcases h.1.1 with (h1 | h1) | h1
    · exact Or.inl h1
    · exact Or.inr (Or.inl h1)
    · exact Or.inr (Or.inr h1)
  · rcases h.2 with h2 | h2
    · exact Or.inl h2
    · exact Or.inr ((stepsOk_iff _ _).1 h2)

theorem wf_absent {p q L : Nat} {c : ScafScript} (h : c.wf p q L = true) (hp : c.present = false) :
    floorT p q L = 0 ∧ c.cuts = [] := by
  unfold ScafScript.wf at h
  rw [hp] at h
  simpa using h

theorem wf_inc {p q L : Nat} {c : ScafScript} (h : c.wf p q L = true) (hp : c.present = true) :
    Inc 0 (c.cuts ++ [c.T]) := by
  obtain ⟨-, hT, hc⟩ := wf_present h hp
  rcases hc with hc | hc
  · rw [hc]; exact ⟨by omega, trivial⟩
  · exact hc.inc (by omega)

/-- the spans unfolded along the interior cuts -/
theorem spansFrom_nil (p q a T : Nat) : spansFrom p q a ([] ++ [T]) = [(coord p q a + 1, coord p q T)] := rfl

theorem spansFrom_cons (p q a c T : Nat) (cs : List Nat) :
    spansFrom p q a ((c :: cs) ++ [T]) = (coord p q a + 1, coord p q c) :: spansFrom p q c (cs ++ [T]) := rfl

theorem spansFrom_length (p q a : Nat) (l : List Nat) : (spansFrom p q a l).length = l.length := by
  induction l generalizing a with
  | nil => rfl
  | cons b r ih => simp [spansFrom, ih]

/-- where the ends of a piece come from: it begins one base after `⌊a·β⌋` or after an interior cut coordinate, and ends at
    an interior cut coordinate or at `⌊T·β⌋` -/
theorem mem_spansFrom {p q a T : Nat} {cuts : List Nat} {x : Nat × Nat} (h : x ∈ spansFrom p q a (cuts ++ [T])) :
    (x.1 = coord p q a + 1 ∨ ∃ c ∈ cuts, x.1 = coord p q c + 1) ∧ (x.2 = coord p q T ∨ ∃ c ∈ cuts, x.2 = coord p q c) := by
  induction cuts generalizing a with
  | nil =>
    rw [spansFrom_nil] at h
    simp only [List.mem_singleton] at h
    subst h
    exact ⟨Or.inl rfl, Or.inl rfl⟩
  | cons c cs ih =>
    rw [spansFrom_cons] at h
    rcases List.mem_cons.1 h with rfl | h
    · exact ⟨Or.inl rfl, Or.inr ⟨c, by simp, rfl⟩⟩
    · obtain ⟨h1, h2⟩ := ih h
      refine ⟨Or.inr ?_, ?_⟩
      · rcases h1 with h1 | ⟨d, hd, h1⟩
        · exact ⟨c, by simp, h1⟩
        · exact ⟨d, by simp [hd], h1⟩
      · rcases h2 with h2 | ⟨d, hd, h2⟩
        · exact Or.inl h2
        · exact Or.inr ⟨d, by simp [hd], h2⟩

/-- every piece lies within `[⌊a·β⌋ + 1, ⌊last·β⌋]` and is not empty -/
theorem spansFrom_bounds {p q : Nat} (hq : 1 ≤ q) (hpq : q ≤ p) {a T : Nat} {cuts : List Nat}
    (hinc : Inc a (cuts ++ [T])) {x : Nat × Nat} (h : x ∈ spansFrom p q a (cuts ++ [T])) :
    coord p q a + 1 ≤ x.1 ∧ x.1 ≤ x.2 ∧ x.2 ≤ coord p q T := by
  induction cuts generalizing a with
  | nil =>
    rw [spansFrom_nil] at h
    simp only [List.mem_singleton] at h
    subst h
    have := coord_lt p q hq hpq hinc.1
    exact ⟨Nat.le_refl _, this, Nat.le_refl _⟩
  | cons c cs ih =>
    rw [spansFrom_cons] at h
    have hac : a < c := hinc.1
    have hinc' : Inc c (cs ++ [T]) := hinc.2
    have hcT : coord p q c < coord p q T ∨ True := Or.inr trivial
    rcases List.mem_cons.1 h with rfl | h
    · -- the first piece ends at `coord c ≤ coord T`
      have h1 := coord_lt p q hq hpq hac
      have h2 : coord p q c ≤ coord p q T := by
        -- `c` is below the last element of an ascending list
        have : ∀ (l : List Nat) (b : Nat), Inc b (l ++ [T]) → b ≤ T := by
          intro l
          induction l with
          | nil => intro b hb; exact Nat.le_of_lt hb.1
          | cons d r ihr => intro b hb; exact Nat.le_trans (Nat.le_of_lt hb.1) (ihr d hb.2)
        exact coord_mono p q (this cs c hinc')
      exact ⟨Nat.le_refl _, h1, h2⟩
    · obtain ⟨h1, h2, h3⟩ := ih hinc' h
      have := coord_lt p q hq hpq hac
      exact ⟨by omega, h2, h3⟩

/-- consecutive pieces abut, the first begins at `⌊a·β⌋ + 1`, the last ends at `⌊T·β⌋`;
    stated on the list: `spans = (x₀,y₀) :: …` with `x₀ = ⌊a·β⌋ + 1` and `Abut` along the list ending in `⌊T·β⌋` -/
def AbutFrom (s : Nat) (e : Nat) : List (Nat × Nat) → Prop
  | [] => s = e + 1
  | x :: r => x.1 = s ∧ AbutFrom (x.2 + 1) e r

theorem spansFrom_abut (p q a T : Nat) (cuts : List Nat) :
    AbutFrom (coord p q a + 1) (coord p q T) (spansFrom p q a (cuts ++ [T])) := by
  induction cuts generalizing a with
  | nil => exact ⟨rfl, rfl⟩
  | cons c cs ih => exact ⟨rfl, ih c⟩

theorem AbutFrom.next {e : Nat} : ∀ {l : List (Nat × Nat)} {s n : Nat} {x y : Nat × Nat},
    AbutFrom s e l → l[n]? = some x → l[n + 1]? = some y → x.2 + 1 = y.1 := by
  intro l
  induction l with
  | nil => intro s n x y _ hx; simp at hx
  | cons a r ih =>
    intro s n x y h hx hy
    cases n with
    | zero =>
      simp only [List.getElem?_cons_zero, Option.some.injEq] at hx
      subst hx
      cases r with
      | nil => simp at hy
      | cons b r' =>
        simp only [List.getElem?_cons_succ, List.getElem?_cons_zero, Option.some.injEq] at hy
        subst hy
        exact h.2.1.symm
    | succ n =>
      simp only [List.getElem?_cons_succ] at hx hy
      exact ih h.2 hx hy

theorem AbutFrom.last {e : Nat} : ∀ {l : List (Nat × Nat)} {s : Nat} {x : Nat × Nat},
    AbutFrom s e l → l.getLast? = some x → x.2 = e := by
  intro l
  induction l with
  | nil => intro s x _ hx; simp at hx
  | cons a r ih =>
    intro s x h hx
    cases r with
    | nil =>
      simp only [List.getLast?_singleton, Option.some.injEq] at hx
      subst hx
      have : a.2 + 1 = e + 1 := h.2
      omega
    | cons b r' =>
      rw [List.getLast?_cons_cons] at hx
      exact ih h.2 hx

/-- earlier pieces end before later pieces begin (hence pairwise disjoint, and sorted by start) -/
theorem spansFrom_pairwise {p q : Nat} (hq : 1 ≤ q) (hpq : q ≤ p) {a T : Nat} {cuts : List Nat}
    (hinc : Inc a (cuts ++ [T])) :
    (spansFrom p q a (cuts ++ [T])).Pairwise (fun x y => x.2 < y.1) := by
  induction cuts generalizing a with
  | nil => rw [spansFrom_nil]; exact List.pairwise_singleton _ _
  | cons c cs ih =>
    rw [spansFrom_cons]
    refine List.Pairwise.cons ?_ (ih hinc.2)
    intro y hy
    have := (spansFrom_bounds hq hpq hinc.2 hy).1
    show coord p q c < y.1
    omega

/-- the pieces cover `[⌊a·β⌋ + 1, ⌊T·β⌋]` -/
theorem spansFrom_cover {p q : Nat} {a T : Nat} {cuts : List Nat} (z : Nat)
    (h1 : coord p q a + 1 ≤ z) (h2 : z ≤ coord p q T) :
    ∃ x ∈ spansFrom p q a (cuts ++ [T]), x.1 ≤ z ∧ z ≤ x.2 := by
  induction cuts generalizing a with
  | nil => exact ⟨(coord p q a + 1, coord p q T), by rw [spansFrom_nil]; simp, h1, h2⟩
  | cons c cs ih =>
    rw [spansFrom_cons]
    by_cases hz : z ≤ coord p q c
    · exact ⟨(coord p q a + 1, coord p q c), by simp, h1, hz⟩
    · obtain ⟨x, hx, hx1, hx2⟩ := ih (a := c) (by omega)
      exact ⟨x, by simp [hx], hx1, hx2⟩

/-- piece lengths: with every step at least `d` texels, each piece has at least `⌊d·β⌋` bases -/
theorem spansFrom_long {p q : Nat} (hq : 1 ≤ q) {d a : Nat} {l : List Nat} (hs : Steps d a l)
    {x : Nat × Nat} (h : x ∈ spansFrom p q a l) : coord p q d ≤ x.2 + 1 - x.1 := by
  induction l generalizing a with
  | nil => cases h
  | cons b r ih =>
    rcases List.mem_cons.1 h with rfl | h
    · show coord p q d ≤ coord p q b + 1 - (coord p q a + 1)
      have h1 := coord_diff_ge p q a d hq
      have h2 := coord_mono p q hs.1
      omega
    · exact ih hs.2 h

end AgpTpf.C02
