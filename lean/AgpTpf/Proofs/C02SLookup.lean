/-
  C02 (script model), part 2: what the lookup of a piece `[a, b]` returns, read off C12 (`find_overlaps_spec_strong`):
  exactly the fragment rows whose span meets `[a, b]`, the span running from the first to the last of them.
-/
import AgpTpf.Properties.C12
import AgpTpf.Proofs.C02ABuild
namespace AgpTpf.C02
open AgpTpf
open AgpTpf.C12 (rowSpan meets bruteForce pre pre_mono pre_zero meets_iff)

theorem rowSpan_fst (rows : List Row) (k : Nat) : (rowSpan rows k).1 = 1 + pre rows k := rfl
theorem rowSpan_snd (rows : List Row) (k : Nat) : (rowSpan rows k).2 = pre rows (k + 1) := rfl

theorem pre_nonneg (rows : List Row) (hlen : ∀ r ∈ rows, 0 ≤ r.length) (k : Nat) : 0 ≤ pre rows k := by
  have := pre_mono rows hlen 0 k (by omega)
  rw [pre_zero] at this; exact this

/-- every row starts at a positive coordinate -/
theorem rowSpan_fst_pos (rows : List Row) (hlen : ∀ r ∈ rows, 0 ≤ r.length) (k : Nat) : 1 ≤ (rowSpan rows k).1 := by
  have := pre_nonneg rows hlen k
  rw [rowSpan_fst]; omega

/-- later rows start later and end later -/
theorem rowSpan_mono (rows : List Row) (hlen : ∀ r ∈ rows, 0 ≤ r.length) {i k : Nat} (h : i ≤ k) :
    (rowSpan rows i).1 ≤ (rowSpan rows k).1 ∧ (rowSpan rows i).2 ≤ (rowSpan rows k).2 := by
  have h1 := pre_mono rows hlen i k h
  have h2 := pre_mono rows hlen (i + 1) (k + 1) (by omega)
  simp only [rowSpan_fst, rowSpan_snd]; omega

/-- a later row starts after an earlier row ends -/
theorem rowSpan_lt (rows : List Row) (hlen : ∀ r ∈ rows, 0 ≤ r.length) {i k : Nat} (h : i < k) :
    (rowSpan rows i).2 < (rowSpan rows k).1 := by
  have h1 := pre_mono rows hlen (i + 1) k h
  simp only [rowSpan_fst, rowSpan_snd]; omega

/-- the span of a contig row is as long as the contig -/
theorem rowSpan_len (rows : List Row) (k : Nat) (r : Row) (h : rows[k]? = some r) :
    (rowSpan rows k).2 = (rowSpan rows k).1 + r.length - 1 := by
  have hk : k < rows.length := by
    by_cases hk : k < rows.length
    · exact hk
    · rw [List.getElem?_eq_none (by omega)] at h; cases h
  rw [rowSpan_fst, rowSpan_snd, C12.pre_succ rows k hk]
  rw [List.getElem?_eq_getElem hk] at h
  cases h
  omega

/-- rows between two meeting rows meet the query as well -/
theorem meets_between (rows : List Row) (hlen : ∀ r ∈ rows, 0 ≤ r.length) (a b : Int) {i j k : Nat} {f : Fragment}
    (hi : meets rows a b i = true) (hj : meets rows a b j = true) (hik : i ≤ k) (hkj : k ≤ j)
    (hk : rows[k]? = some (.frag f)) : meets rows a b k = true := by
  obtain ⟨_, _, _, hi2⟩ := (meets_iff _ _ _ _).1 hi
  obtain ⟨_, _, hj1, _⟩ := (meets_iff _ _ _ _).1 hj
  have h1 := rowSpan_mono rows hlen hik
  have h2 := rowSpan_mono rows hlen hkj
  exact (meets_iff _ _ _ _).2 ⟨f, hk, by omega, by omega⟩

/-- the lookup result, as the slice between the least and the greatest meeting fragment row -/
theorem lookup_some {rows : List Row} {bait : Fragment} {o : OverlapResult} (hlen : ∀ r ∈ rows, 0 ≤ r.length)
    (h : findOverlaps rows bait = .ok (some o)) :
    ∃ i j, meets rows bait.start bait.stop i = true ∧ meets rows bait.start bait.stop j = true ∧
      (∀ k, meets rows bait.start bait.stop k = true → i ≤ k ∧ k ≤ j) ∧
      o.bait = bait ∧ o.start = (rowSpan rows i).1 ∧ o.stop = (rowSpan rows j).2 ∧
      o.rows = (rows.drop i).take (j + 1 - i) := by
  have hne : rows ≠ [] := by
    intro e; subst e; simp [findOverlaps] at h
  rw [C12.find_overlaps_spec_strong rows bait hne hlen] at h
  have h' : bruteForce rows bait = some o := by simpa using h
  obtain ⟨i, j, hi, hj, hall, rfl⟩ := C12.bruteForce_eq_some rows bait o h'
  exact ⟨i, j, hi, hj, hall, rfl, rfl, rfl, rfl⟩

/-- a query that meets a fragment row has a lookup result -/
theorem lookup_exists {rows : List Row} {bait : Fragment} (hlen : ∀ r ∈ rows, 0 ≤ r.length) (k : Nat)
    (hk : meets rows bait.start bait.stop k = true) : ∃ o, findOverlaps rows bait = .ok (some o) := by
  have hne : rows ≠ [] := by
    intro e; subst e
    obtain ⟨f, hf, -⟩ := (meets_iff _ _ _ _).1 hk
    simp at hf
  rw [C12.find_overlaps_spec_strong rows bait hne hlen]
  cases hb : bruteForce rows bait with
  | some o => exact ⟨o, rfl⟩
  | none =>
    have := (C12.bruteForce_eq_none_iff rows bait).1 hb k
    rw [hk] at this; cases this

/-- a query that meets no fragment row has none -/
theorem lookup_none {rows : List Row} {bait : Fragment} (hne : rows ≠ []) (hlen : ∀ r ∈ rows, 0 ≤ r.length)
    (h : ∀ k, meets rows bait.start bait.stop k = false) : findOverlaps rows bait = .ok none :=
  C12.find_overlaps_only_gaps rows bait hne hlen h

theorem mem_frags {rows : List Row} {f : Fragment} : f ∈ fragmentsOf rows ↔ Row.frag f ∈ rows := by
  induction rows with
  | nil => simp [fragmentsOf]
  | cons r t ih =>
    cases r with
    | frag g => simp [fragmentsOf, ih]
    | gap g => simp [fragmentsOf, ih]

theorem mem_slice (rows : List Row) (i j : Nat) (r : Row) :
    r ∈ (rows.drop i).take (j + 1 - i) ↔ ∃ k, i ≤ k ∧ k ≤ j ∧ rows[k]? = some r := by
  rw [List.mem_iff_getElem?]
  constructor
  · rintro ⟨t, ht⟩
    rw [C12.slice_getElem?] at ht
    by_cases h : t < j + 1 - i
    · rw [if_pos h] at ht
      exact ⟨i + t, by omega, by omega, ht⟩
    · rw [if_neg h] at ht; cases ht
  · rintro ⟨k, h1, h2, hk⟩
    refine ⟨k - i, ?_⟩
    rw [C12.slice_getElem?, if_pos (by omega)]
    have : i + (k - i) = k := by omega
    rw [this]; exact hk

/-- **the contigs a lookup returns**: exactly the fragment rows whose span meets the query -/
theorem mem_lookup {rows : List Row} {bait : Fragment} {o : OverlapResult} (hlen : ∀ r ∈ rows, 0 ≤ r.length)
    (h : findOverlaps rows bait = .ok (some o)) (f : Fragment) :
    f ∈ fragmentsOf o.rows ↔ ∃ k, rows[k]? = some (.frag f) ∧ meets rows bait.start bait.stop k = true := by
  obtain ⟨i, j, hi, hj, hall, -, -, -, hrows⟩ := lookup_some hlen h
  rw [mem_frags, hrows, mem_slice]
  constructor
  · rintro ⟨k, h1, h2, hk⟩
    exact ⟨k, hk, meets_between rows hlen _ _ hi hj h1 h2 hk⟩
  · rintro ⟨k, hk, hm⟩
    obtain ⟨h1, h2⟩ := hall k hm
    exact ⟨k, h1, h2, hk⟩

/-- the overhangs of a lookup result, in terms of the first and last meeting rows -/
theorem lookup_overhangs {rows : List Row} {bait : Fragment} {o : OverlapResult} (hlen : ∀ r ∈ rows, 0 ≤ r.length)
    (h : findOverlaps rows bait = .ok (some o)) :
    ∃ i j, meets rows bait.start bait.stop i = true ∧ meets rows bait.start bait.stop j = true ∧
      o.startOverhang = bait.start - (rowSpan rows i).1 ∧ o.endOverhang = (rowSpan rows j).2 - bait.stop := by
  obtain ⟨i, j, hi, hj, -, hb, hs, he, -⟩ := lookup_some hlen h
  refine ⟨i, j, hi, hj, ?_, ?_⟩
  · unfold OverlapResult.startOverhang; rw [hb, hs]
  · unfold OverlapResult.endOverhang; rw [hb, he]

/-! ### at the level of `lookupPiece` -/

theorem lookupPiece_eq {input : List Scaffold} {p : Fragment} {sc : Scaffold} (hn : (input.map (·.name)).Nodup)
    (hsc : sc ∈ input) (hname : p.name = sc.name) :
    lookupPiece input p = match findOverlaps sc.rows p with
      | .ok (some o) => some o
      | _ => none := by
  unfold lookupPiece
  rw [hname, C08.find?_name input sc hn hsc]
  rfl

/-- a piece that meets a contig of its scaffold has a lookup result, and `pieceO` is it -/
theorem lookupPiece_of_meets {input : List Scaffold} {p : Fragment} {sc : Scaffold} (hn : (input.map (·.name)).Nodup)
    (hsc : sc ∈ input) (hname : p.name = sc.name) (hlen : ∀ r ∈ sc.rows, 0 ≤ r.length) (k : Nat)
    (hk : meets sc.rows p.start p.stop k = true) :
    (lookupPiece input p).isSome = true ∧ findOverlaps sc.rows p = .ok (some (pieceO input p)) := by
  obtain ⟨o, ho⟩ := lookup_exists hlen k hk
  have e := lookupPiece_eq (p := p) hn hsc hname
  rw [ho] at e
  simp only at e
  refine ⟨by rw [e]; rfl, ?_⟩
  unfold pieceO
  rw [e, ho]; rfl

/-- a piece that meets no contig claims nothing -/
theorem pieceKeys_of_no_meet {input : List Scaffold} {p : Fragment} {sc : Scaffold} (hn : (input.map (·.name)).Nodup)
    (hsc : sc ∈ input) (hname : p.name = sc.name) (hlen : ∀ r ∈ sc.rows, 0 ≤ r.length)
    (hk : ∀ k, meets sc.rows p.start p.stop k = false) : pieceKeys input p = [] := by
  have e := lookupPiece_eq (p := p) hn hsc hname
  have : lookupPiece input p = none := by
    rw [e]
    by_cases hne : sc.rows = []
    · rw [hne]; simp [findOverlaps]
    · rw [lookup_none hne hlen hk]
  unfold pieceKeys pieceO
  rw [this]
  rfl

end AgpTpf.C02
