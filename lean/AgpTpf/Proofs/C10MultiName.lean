/-
  C10, chromosome numbering with several haplotypes, part 3: `ChrGroup.name_chromosome` on an arbitrary group and
  `ChrNamer.name_chromosomes` (sort the groups by the first haplotype's length, number them 1..n).
-/
import AgpTpf.Model.Remap
import AgpTpf.Proofs.C10Rename
import AgpTpf.Proofs.C10Groups
import AgpTpf.Proofs.C10GroupsBuild
import AgpTpf.Proofs.C10GroupsNumber
import AgpTpf.Proofs.C10MultiDict
import AgpTpf.Proofs.C10MultiBuild
namespace AgpTpf.C10
open AgpTpf Dict

/-! ### rename jobs -/

/-- `(old, new, ids)`: in every scaffold of `ids` replace `old` by `new` in the name -/
abbrev Job := Str × Str × List Nat

def runJobs (jobs : List Job) (fs : List Scaffold) : List Scaffold :=
  jobs.foldl (fun fs j => j.2.2.foldl (renameAt j.1 j.2.1) fs) fs

theorem runJobs_append (a b : List Job) (fs : List Scaffold) : runJobs (a ++ b) fs = runJobs b (runJobs a fs) := by
  unfold runJobs; rw [List.foldl_append]

theorem runJobs_spec : ∀ (jobs : List Job) (fs : List Scaffold), (jobs.flatMap (·.2.2)).Nodup →
    (runJobs jobs fs).length = fs.length ∧
    (∀ j, j ∉ jobs.flatMap (·.2.2) → (runJobs jobs fs).getD j default = fs.getD j default) ∧
    (∀ q ∈ jobs, ∀ j ∈ q.2.2, (runJobs jobs fs).getD j default = renameScaffold q.1 q.2.1 (fs.getD j default)) := by
  intro jobs
  induction jobs with
  | nil => intro fs _; exact ⟨rfl, fun _ _ => rfl, fun p hp => (by cases hp)⟩
  | cons q r ih =>
    intro fs hnd
    rw [List.flatMap_cons, List.nodup_append] at hnd
    obtain ⟨hq, hr, hdis⟩ := hnd
    obtain ⟨a, b, c⟩ := foldl_renameAt q.1 q.2.1 q.2.2 fs hq
    obtain ⟨a', b', c'⟩ := ih (q.2.2.foldl (renameAt q.1 q.2.1) fs) hr
    have hunf : runJobs (q :: r) fs = runJobs r (q.2.2.foldl (renameAt q.1 q.2.1) fs) := rfl
    rw [hunf]
    refine ⟨a'.trans a, ?_, ?_⟩
    · intro j hj
      rw [List.flatMap_cons, List.mem_append, not_or] at hj
      rw [b' j hj.2, b j hj.1]
    · intro p hp j hj
      rcases List.mem_cons.1 hp with e | hp
      · subst e
        have hnr : j ∉ r.flatMap (·.2.2) := fun hjr => hdis j hj j hjr rfl
        rw [b' j hnr, c j hj]
      · have hjr : j ∈ r.flatMap (·.2.2) := List.mem_flatMap.2 ⟨p, hp, hj⟩
        have hnq : j ∉ q.2.2 := fun hjq => hdis j hjq j hjr rfl
        rw [c' p hp j hj, b j hnq]

/-! ### `multi_chr_list` -/

/-- the suffix a chromosome gets inside its haplotype set: none when it is alone, else the `i`-th letter from `A` -/
def chrLetter (c i : Nat) : Str := if c = 1 then [] else [Char.ofNat (65 + i)]

/-- `multi_chr_list(base, c)[i]` -/
def chrLabel (base : Str) (c i : Nat) : Str := base ++ chrLetter c i

theorem multiChrList_eq (base : Str) (c : Nat) : multiChrList base c = (List.range c).map (chrLabel base c) := by
  unfold multiChrList
  by_cases h : c = 1
  · subst h; simp [chrLabel, chrLetter, List.range_succ]
  · rw [if_neg h]
    apply List.map_congr_left
    intro k _
    simp [chrLabel, chrLetter, h]

theorem multiChrList_length (base : Str) (c : Nat) : (multiChrList base c).length = c := by
  rw [multiChrList_eq]; simp

/-! ### `name_chromosome` as a list of jobs -/

def hapJobs (chrs : ChrDict) (base : Str) : List Job :=
  (chrs.zip (multiChrList base chrs.length)).map (fun p => (p.1.1, p.2, p.1.2))

def groupJobs (g : GroupData) (prefix_ : Str) (n : Nat) : List Job :=
  g.flatMap (fun hc => hapJobs hc.2 (prefix_ ++ natToStr n))

theorem nameGroup_eq_jobs (fs : List Scaffold) (g : GroupData) (prefix_ : Str) (n : Nat) :
    nameGroup fs g prefix_ n = runJobs (groupJobs g prefix_ n) fs := by
  unfold nameGroup groupJobs runJobs
  rw [List.foldl_flatMap]
  congr 1
  funext fs hc
  unfold hapJobs
  rw [List.foldl_map]
  rfl

theorem hapJobs_ids (chrs : ChrDict) (base : Str) : (hapJobs chrs base).flatMap (·.2.2) = chrIds chrs := by
  unfold hapJobs chrIds
  have hl := multiChrList_length base chrs.length
  generalize multiChrList base chrs.length = names at hl
  induction chrs generalizing names with
  | nil => simp
  | cons a r ih =>
    cases names with
    | nil => simp at hl
    | cons nm names =>
      simp only [List.zip_cons_cons, List.map_cons, List.flatMap_cons]
      rw [ih names (by simpa using hl)]

theorem groupJobs_ids (g : GroupData) (prefix_ : Str) (n : Nat) :
    (groupJobs g prefix_ n).flatMap (·.2.2) = groupIds g := by
  unfold groupJobs groupIds
  rw [List.flatMap_assoc]
  congr 1
  funext hc
  exact hapJobs_ids _ _

theorem mem_hapJobs (chrs : ChrDict) (base : Str) (i : Nat) (hi : i < chrs.length) :
    (chrs[i].1, chrLabel base chrs.length i, chrs[i].2) ∈ hapJobs chrs base := by
  unfold hapJobs
  rw [multiChrList_eq]
  rw [List.mem_map]
  refine ⟨(chrs[i], chrLabel base chrs.length i), ?_, rfl⟩
  rw [List.mem_iff_getElem]
  refine ⟨i, by simpa using hi, ?_⟩
  simp

/-- **`name_chromosome(prefix, n)` on any group** whose scaffold ids are pairwise different: exactly the scaffolds of
    the group are touched; in a scaffold of the `i`-th chromosome (Pretext name `o`) of a haplotype with `c`
    chromosomes in the group every occurrence of `o` in the name is replaced by `prefix ++ str(n)` (`c = 1`) resp.
    `prefix ++ str(n) ++ <i-th letter>`. -/
theorem nameGroup_spec (fs : List Scaffold) (g : GroupData) (prefix_ : Str) (n : Nat) (hnd : (groupIds g).Nodup) :
    (nameGroup fs g prefix_ n).length = fs.length ∧
    (∀ j, j ∉ groupIds g → (nameGroup fs g prefix_ n).getD j default = fs.getD j default) ∧
    (∀ hc ∈ g, ∀ i (hi : i < hc.2.length), ∀ j ∈ hc.2[i].2,
      (nameGroup fs g prefix_ n).getD j default =
        renameScaffold hc.2[i].1 (chrLabel (prefix_ ++ natToStr n) hc.2.length i) (fs.getD j default)) := by
  rw [nameGroup_eq_jobs]
  obtain ⟨a, b, c⟩ := runJobs_spec (groupJobs g prefix_ n) fs (by rw [groupJobs_ids]; exact hnd)
  refine ⟨a, by rw [groupJobs_ids] at b; exact b, ?_⟩
  intro hc hhc i hi j hj
  exact c (hc.2[i].1, chrLabel (prefix_ ++ natToStr n) hc.2.length i, hc.2[i].2)
    (List.mem_flatMap.2 ⟨hc, hhc, mem_hapJobs hc.2 _ i hi⟩) j hj

/-! ### numbering a list of groups -/

def nameGroups (prefix_ : Str) (ps : List (Nat × GroupData)) (fs : List Scaffold) : List Scaffold :=
  ps.foldl (fun fs p => nameGroup fs p.2 prefix_ (p.1 + 1)) fs

def allJobs (prefix_ : Str) (ps : List (Nat × GroupData)) : List Job :=
  ps.flatMap (fun p => groupJobs p.2 prefix_ (p.1 + 1))

theorem nameGroups_eq_jobs (prefix_ : Str) (ps : List (Nat × GroupData)) (fs : List Scaffold) :
    nameGroups prefix_ ps fs = runJobs (allJobs prefix_ ps) fs := by
  unfold nameGroups allJobs
  conv => rhs; unfold runJobs
  rw [List.foldl_flatMap]
  congr 1
  funext fs p
  rw [nameGroup_eq_jobs]; rfl

theorem allJobs_ids (prefix_ : Str) (ps : List (Nat × GroupData)) :
    (allJobs prefix_ ps).flatMap (·.2.2) = ps.flatMap (fun p => groupIds p.2) := by
  unfold allJobs
  rw [List.flatMap_assoc]
  congr 1
  funext p
  exact groupJobs_ids _ _ _

/-- **numbering the groups `gs` in order 1..n** (ids pairwise different) -/
theorem nameGroups_spec (prefix_ : Str) (gs : List GroupData) (fs : List Scaffold)
    (hnd : (gs.flatMap groupIds).Nodup) :
    let fs' := nameGroups prefix_ ((List.range gs.length).zip gs) fs
    fs'.length = fs.length ∧
    (∀ j, j ∉ gs.flatMap groupIds → fs'.getD j default = fs.getD j default) ∧
    (∀ k (hk : k < gs.length), ∀ hc ∈ gs[k], ∀ i (hi : i < hc.2.length), ∀ j ∈ hc.2[i].2,
      fs'.getD j default =
        renameScaffold hc.2[i].1 (chrLabel (prefix_ ++ natToStr (k + 1)) hc.2.length i) (fs.getD j default)) := by
  intro fs'
  have hids : (allJobs prefix_ ((List.range gs.length).zip gs)).flatMap (·.2.2) = gs.flatMap groupIds := by
    rw [allJobs_ids]; exact zip_range_flatMap groupIds gs
  have hfs' : fs' = runJobs (allJobs prefix_ ((List.range gs.length).zip gs)) fs := nameGroups_eq_jobs _ _ _
  obtain ⟨a, b, c⟩ := runJobs_spec (allJobs prefix_ ((List.range gs.length).zip gs)) fs (by rw [hids]; exact hnd)
  rw [← hfs'] at a b c
  refine ⟨a, by rw [hids] at b; exact b, ?_⟩
  intro k hk hc hhc i hi j hj
  refine c (hc.2[i].1, chrLabel (prefix_ ++ natToStr (k + 1)) hc.2.length i, hc.2[i].2) ?_ j hj
  unfold allJobs
  rw [List.mem_flatMap]
  refine ⟨(k, gs[k]), mem_zip_range gs k hk, ?_⟩
  exact List.mem_flatMap.2 ⟨hc, hhc, mem_hapJobs hc.2 _ i hi⟩

/-! ### `check_groups`, `length_of_first_haplotype`, the sort -/

theorem groupsHaveErrors_iff (groups : List GroupData) :
    groupsHaveErrors groups = true ↔
      ∃ g ∈ groups, ∃ h first rest, g = (h, first) :: rest ∧ first.length ≠ 1 := by
  unfold groupsHaveErrors
  rw [List.any_eq_true]
  constructor
  · rintro ⟨g, hg, hb⟩
    refine ⟨g, hg, ?_⟩
    cases g with
    | nil => cases hb
    | cons p rest =>
      obtain ⟨h, first⟩ := p
      refine ⟨h, first, rest, rfl, ?_⟩
      simp only [Bool.or_eq_true, List.isEmpty_iff, decide_eq_true_eq] at hb
      rcases hb with hb | hb
      · rw [hb]; simp
      · omega
  · rintro ⟨g, hg, h, first, rest, rfl, hne⟩
    refine ⟨_, hg, ?_⟩
    simp only [Bool.or_eq_true, List.isEmpty_iff, decide_eq_true_eq]
    cases first with
    | nil => exact Or.inl rfl
    | cons a r => right; simp at hne ⊢; cases r with
      | nil => exact absurd rfl hne
      | cons _ _ => simp

theorem groupsHaveErrors_false_iff (groups : List GroupData) :
    groupsHaveErrors groups = false ↔
      ∀ g ∈ groups, ∀ h first rest, g = (h, first) :: rest → first.length = 1 := by
  constructor
  · intro hf g hg h first rest e
    apply Classical.byContradiction
    intro hne
    have := (groupsHaveErrors_iff groups).2 ⟨g, hg, h, first, rest, e, hne⟩
    rw [hf] at this; cases this
  · intro hall
    cases hc : groupsHaveErrors groups with
    | false => rfl
    | true =>
      obtain ⟨g, hg, h, first, rest, e, hne⟩ := (groupsHaveErrors_iff groups).1 hc
      exact absurd (hall g hg h first rest e) hne

/-- `length_of_first_haplotype` as a total function (0 where Python raises) -/
def firstLen (fs : List Scaffold) (g : GroupData) : Int :=
  match groupFirstLength fs g with | .ok v => v | .error _ => 0

theorem groupFirstLength_ok (fs : List Scaffold) (g : GroupData) (hne : g ≠ [])
    (h1 : ∀ h first rest, g = (h, first) :: rest → first.length = 1) :
    groupFirstLength fs g = .ok (firstLen fs g) := by
  cases g with
  | nil => exact absurd rfl hne
  | cons p rest =>
    obtain ⟨h, first⟩ := p
    have := h1 h first rest rfl
    match first, this with
    | [(o, ids)], _ => rfl

theorem firstLen_single (fs : List Scaffold) (h o : Str) (ids : List Nat) (rest : GroupData) :
    firstLen fs ((h, [(o, ids)]) :: rest) = sumInts (ids.map (fun i => (fs.getD i default).fragmentsLength)) := rfl

/-- the groups, longest first haplotype first, ties in build order -/
def sortedGroups (fs : List Scaffold) (gs : List GroupData) : List GroupData :=
  stableSort (fun a c => decide (firstLen fs a ≥ firstLen fs c)) gs

theorem sortedGroups_perm (fs : List Scaffold) (gs : List GroupData) : (sortedGroups fs gs).Perm gs :=
  stableSort_perm _ gs

theorem sortedGroups_sorted (fs : List Scaffold) (gs : List GroupData) :
    (sortedGroups fs gs).Pairwise (fun a b => firstLen fs a ≥ firstLen fs b) := by
  have := stableSort_sorted (fun a b : GroupData => decide (firstLen fs a ≥ firstLen fs b))
    (by intro a b; simp only [decide_eq_true_eq]; omega)
    (by intro a b c; simp only [decide_eq_true_eq]; omega) gs
  exact this.imp (fun h => by simpa using h)

theorem sortedGroups_stable (fs : List Scaffold) (gs : List GroupData) (L : Int) :
    (sortedGroups fs gs).filter (fun g => firstLen fs g = L) = gs.filter (fun g => firstLen fs g = L) :=
  stableSort_filter _ _ (by intro x y hx hy; simp only [decide_eq_true_eq] at hx hy ⊢; omega) gs

/-- **`name_chromosomes` given the groups**: `ChrNamerError` if `check_groups` finds an error, else the groups are
    sorted and numbered -/
theorem nameChromosomes_of_groups (prefix_ : Str) (fs : List Scaffold) (haps : List Str) (entries : List Entry)
    (groups : List GroupData) (hb : buildGroups fs haps entries = .ok groups) (hne : ∀ g ∈ groups, g ≠ []) :
    (groupsHaveErrors groups = true → nameChromosomes prefix_ fs haps entries = .error .chrNamer) ∧
    (groupsHaveErrors groups = false →
      nameChromosomes prefix_ fs haps entries =
        .ok (nameGroups prefix_ ((List.range (sortedGroups fs groups).length).zip (sortedGroups fs groups)) fs)) := by
  constructor
  · intro he
    unfold nameChromosomes
    rw [hb, ok_bind]
    simp only [he, if_true]
    rfl
  · intro he
    unfold nameChromosomes
    rw [hb, ok_bind]
    simp only [he, Bool.false_eq_true, if_false]
    have h1 := (groupsHaveErrors_false_iff groups).1 he
    have hm := C20.mapM_ok (fun g => (do let l ← groupFirstLength fs g; pure (l, g) : R (Int × GroupData)))
      (fun g => (firstLen fs g, g)) groups
      (by
        intro g hgm
        rw [groupFirstLength_ok fs g (hne g hgm) (h1 g hgm)]; rfl)
    rw [hm, ok_bind]
    rw [stableSort_map, List.map_map]
    have hs : ((fun x : Int × GroupData => x.2) ∘ fun g : GroupData => (firstLen fs g, g)) = id := by
      funext g; rfl
    rw [hs, List.map_id]
    rfl

end AgpTpf.C10
