/- asm-format glue: whole runs with one input (a file, or STDIN), and file content → lines -/
import AgpTpf.Proofs.AsmFormatRun
namespace AgpTpf.AsmFormat
open AgpTpf AgpTpf.C05

theorem inFmtOf_ok {i : Option Fmt} {f : Option Str} {x : Fmt} (h : inFmtOf i f = .ok x) : inFmtSel i f = x := by
  unfold inFmtOf at h
  cases hs : inFmtSel i f <;> rw [hs] at h <;> cases h <;> rfl

theorem outFmtOf_ok {i : Option OutFmt} {f : Option Str} {x : OutFmt} (h : outFmtOf i f = .ok x) :
    outFmtSel i f = some x := by
  unfold outFmtOf at h
  cases hs : outFmtSel i f <;> rw [hs] at h <;> cases h <;> rfl

theorem fileLinesRead_of_ne (o : AsmFormatOpts) (f : Str × List Str) (h : o.outputFile ≠ some f.1) :
    fileLinesRead o f = f.2 := by
  unfold fileLinesRead; rw [if_neg h]

/-- FINDING (in-place run): the file that is also the output file is read as empty -/
theorem fileLinesRead_of_eq (o : AsmFormatOpts) (f : Str × List Str) (h : o.outputFile = some f.1) :
    fileLinesRead o f = [] := by
  unfold fileLinesRead; rw [if_pos h]

/-- a run on one input file whose `process_fh` succeeds -/
theorem asmFormat_single (o : AsmFormatOpts) (f : Str × List Str) (stdin : List Str) (text : Str) (pairs : List OvPair)
    (h : processFile o (outFmtSel o.format o.outputFile) f = .ok (text, pairs)) :
    (asmFormat o [f] stdin).written = text ∧ (asmFormat o [f] stdin).error = none ∧
    (asmFormat o [f] stdin).reports = (if pairs.isEmpty then [] else [(fileAsmName o f, pairs)]) := by
  rw [asmFormat_files, asmFormatLoop_cons, h]
  simp only [asmFormatLoop]
  refine ⟨by rw [addReport_written]; rfl, by rw [addReport_error], by rw [addReport_reports]; rfl⟩

/-- a run on one input file whose `process_fh` raises: nothing written, `ValueError` -/
theorem asmFormat_single_error (o : AsmFormatOpts) (f : Str × List Str) (stdin : List Str) (e : Err)
    (h : processFile o (outFmtSel o.format o.outputFile) f = .error e) :
    (asmFormat o [f] stdin).written = [] ∧ (asmFormat o [f] stdin).error = some .value := by
  rw [asmFormat_files, asmFormatLoop_cons, h]
  exact ⟨by simp only [addReport_written], rfl⟩

/-- a run on STDIN whose `process_fh` succeeds -/
theorem asmFormat_stdin_ok (o : AsmFormatOpts) (stdin : List Str) (text : Str) (pairs : List OvPair)
    (h : processFh (stdinInFmt o) (stdinAsmName o) stdin (outFmtSel o.format o.outputFile) o.qcOverlaps = .ok (text, pairs)) :
    (asmFormat o [] stdin).written = text ∧ (asmFormat o [] stdin).error = none ∧
    (asmFormat o [] stdin).reports = (if pairs.isEmpty then [] else [(stdinAsmName o, pairs)]) := by
  rw [asmFormat_stdin, h]
  refine ⟨by rw [addReport_written], by rw [addReport_error], by rw [addReport_reports]; rfl⟩

/-- … and when it raises: the ORIGINAL exception, nothing written -/
theorem asmFormat_stdin_error (o : AsmFormatOpts) (stdin : List Str) (e : Err)
    (h : processFh (stdinInFmt o) (stdinAsmName o) stdin (outFmtSel o.format o.outputFile) o.qcOverlaps = .error e) :
    (asmFormat o [] stdin).written = [] ∧ (asmFormat o [] stdin).error = some e := by
  rw [asmFormat_stdin, h]
  exact ⟨by simp only [addReport_written], rfl⟩

/-! ### universal newlines -/

theorem universalNewlinesGo_id (s : Str) (h : '\r' ∉ s) : universalNewlinesGo false s = s := by
  induction s with
  | nil => rfl
  | cons c t ih =>
    have hc : c ≠ '\r' := fun e => h (by simp [e])
    have ht : '\r' ∉ t := fun e => h (by simp [e])
    simp only [universalNewlinesGo, hc, if_false, Bool.false_eq_true, and_false, ih ht]

/-- a text without carriage return is read as it is -/
theorem fileLines_of_noCR (s : Str) (h : '\r' ∉ s) : fileLines s = pyLines s := by
  unfold fileLines universalNewlines; rw [universalNewlinesGo_id s h]

end AgpTpf.AsmFormat
