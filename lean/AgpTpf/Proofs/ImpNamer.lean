/-
  Helper lemmas for `Properties/C09Imp.lean`: the translated Python source of `ScaffoldNamer` (`Gen.Imp.ScaffoldNamer_*`, generated
  from `build_utils.py`) against the hand-written model (`Model/Remap.lean`: `Namer.getSetHaplotype`, `scanTag`,
  `makeScaffoldName`, `labelScaffold`, `renameBySize`).

  The source works on `PyRt.SrcNamer` (attributes with their Python types), the model on `Namer`; the ties are refinements through
  `absG cH cU` (`absNamer = absG Int.toNat Int.toNat`).  `make_scaffold_name` is tied for EVERY pair of counter abstractions
  `cH cU : Int → Nat` with `cU 0 = 0`; instantiating them with indicator functions gives "the haplotig counter is not touched, the
  unloc counter is 0 afterwards" (well-formedness is preserved) from the model-level `C10.makeScaffoldName_counters`, without a
  second pass over the generated text.

  Layout: (1) `Except` plumbing and loop combinators (`forIn_sim`: a `for` loop that never breaks is a `foldlM` on abstracted states,
  under continuations; `bind_sim`); (2) run-time support (`setLabel`, `strTruthy`, `optStrText`, decimal rendering of a non-negative
  counter); (3) the small kernels; (4) `rename_by_size`; (5) `label_scaffold`; (6) the model's `makeScaffoldName` in stages
  (model-side only); (7) `make_scaffold_name`.

  What depends on the generated text: the ORDER of the tuple components of the loop state of `make_scaffold_name`
  (`absScan`) and of the `(haplotype, self)` pair after `haplotype_from_first_row_name`, and that the tail after the Primary block
  is emitted twice (macros `namer_tail` / `namer_primary` are run on each copy); the names of the generated locals do not matter.
  The translator emits these tuples sorted by the Lean text of the variable's type, then by name, so re-ordering assignments /
  `elif` branches in the Python (or renaming a local) does not permute them; the order of the loop state is known to the pattern
  macro `scanSt⟨…⟩` only; the per-tag step of the loop is proved by case analysis on the MODEL-level conditions (`tag = sPainted`, …) with the
  pairwise distinctness of the three literal tags given to `simp`, so the order of the `if … elif` chain does not matter either.
  Everything else goes through unfolding by name, case analysis on model-level quantities and `simp`.  Truthiness tests on
  `str`-or-None values are handled by splitting the VALUE into `none` / `some []` / `some (c :: cs)`, so the proofs do not care
  whether the translator writes `PyRt.strTruthy x` or the narrowed `match x with | none => … | some v => if !v.isEmpty …`
  (the file checks unchanged against both generations of `Gen/Imp.lean` that existed while it was written).
-/
import AgpTpf.Gen.Imp
import AgpTpf.Proofs.C10
set_option linter.unusedSimpArgs false
set_option linter.unusedVariables false
set_option linter.unusedSectionVars false
namespace AgpTpf.ImpNamer
open AgpTpf

/-! ### the abstraction -/

/-- `SrcNamer ↦ Namer` with the two counters read through `cH`, `cU` -/
def absG (cH cU : Int → Nat) (s : PyRt.SrcNamer) : Namer :=
  { autosomePrefix := s.autosome_prefix, currentScaffoldName := s.current_scaffold_name,
    currentRank := s.current_rank.getD 0, currentHaplotype := s.current_haplotype,
    haplotigN := cH s.haplotig_n, haplotigScaffolds := s.haplotig_scaffolds,
    primaryHaplotype := s.primary_haplotype, targetTags := s.target_tags,
    unlocN := cU s.unloc_n, unlocScaffolds := s.unloc_scaffolds, haplotypeLc := s.haplotype_lc_dict }

/-- the abstraction function of the tie theorems (`None` rank ↦ 0, counters ↦ `Nat`) -/
def absNamer (s : PyRt.SrcNamer) : Namer := absG Int.toNat Int.toNat s

/-- the counters of the Python object are never negative -/
def WfNamer (s : PyRt.SrcNamer) : Prop := 0 ≤ s.haplotig_n ∧ 0 ≤ s.unloc_n

/-! ### 1. `Except` plumbing, loops -/

theorem ok_bind {α β : Type} (a : α) (f : α → R β) : ((Except.ok a : R α) >>= f) = f a := rfl

theorem bind_eq_of {α β : Type} (x : R α) (a : α) (f : α → R β) (h : x = .ok a) : (x >>= f) = f a := by
  subst h; rfl

theorem forIn_of_next {α σ ρ : Type} (f : σ → α → R σ) (body : α → σ → R (PyRt.Ctl σ ρ))
    (h : ∀ x s, body x s = (f s x).map PyRt.Ctl.next) :
    ∀ (xs : List α) (s : σ), PyRt.forIn xs s body = (xs.foldlM f s).map PyRt.Done.fell := by
  intro xs
  induction xs with
  | nil => intro s; rfl
  | cons x xs ih =>
    intro s
    simp only [PyRt.forIn, h, List.foldlM_cons]
    cases f s x with
    | error e => rfl
    | ok s' => simpa [Except.map, bind, Except.bind] using ih s'

theorem foldlM_ok {α σ : Type} (f : σ → α → σ) : ∀ (xs : List α) (s : σ),
    xs.foldlM (fun s x => (Except.ok (f s x) : R σ)) s = .ok (xs.foldl f s) := by
  intro xs
  induction xs with
  | nil => intro s; rfl
  | cons x xs ih => intro s; simp [List.foldlM_cons, bind, Except.bind, ih]

theorem forIn_total {α σ ρ : Type} (g : σ → α → σ) (body : α → σ → R (PyRt.Ctl σ ρ))
    (h : ∀ x s, body x s = .ok (.next (g s x))) (xs : List α) (s : σ) :
    PyRt.forIn xs s body = .ok (.fell (xs.foldl g s)) := by
  rw [forIn_of_next (fun s x => .ok (g s x)) body (fun x s => by simp [h, Except.map]), foldlM_ok]; rfl

theorem insertBy_length {α : Type} (le : α → α → Bool) (x : α) (l : List α) :
    (insertBy le x l).length = l.length + 1 := by
  induction l with
  | nil => rfl
  | cons y ys ih => simp only [insertBy]; split <;> simp [ih]

theorem stableSort_length {α : Type} (le : α → α → Bool) (l : List α) : (stableSort le l).length = l.length := by
  induction l with
  | nil => rfl
  | cons x xs ih => simp [stableSort, insertBy_length, ih]

/-- the `next` state of one pass of a loop body, `none` for `break` / `return` -/
def ctlNext {σ τ ρ : Type} (abs : σ → τ) : PyRt.Ctl σ ρ → Option τ
  | .next s => some (abs s)
  | _ => none

/-- simulation of a `for` loop that never breaks / returns by a monadic fold on abstracted states, under continuations -/
theorem forIn_sim {α σ ρ τ β γ : Type} (abs : σ → τ) (body : α → σ → R (PyRt.Ctl σ ρ)) (f : τ → α → R τ)
    (K : PyRt.Done σ ρ → R β) (K' : τ → R γ) (g : β → γ)
    (hstep : ∀ x s, (body x s).map (ctlNext abs) = (f (abs s) x).map some)
    (hK : ∀ s, (K (.fell s)).map g = K' (abs s)) :
    ∀ (xs : List α) (s : σ), (PyRt.forIn xs s body >>= K).map g = xs.foldlM f (abs s) >>= K' := by
  intro xs
  induction xs with
  | nil => intro s; simpa [PyRt.forIn, bind, Except.bind, pure, Except.pure] using hK s
  | cons x xs ih =>
    intro s
    have h := hstep x s
    simp only [PyRt.forIn, List.foldlM_cons]
    cases hb : body x s with
    | error e =>
      cases hf : f (abs s) x with
      | error e' => simp [hb, hf, Except.map] at h; subst h; rfl
      | ok t => simp [hb, hf, Except.map] at h
    | ok c =>
      cases hf : f (abs s) x with
      | error e' => simp [hb, hf, Except.map] at h
      | ok t =>
        cases c with
        | next s' =>
          simp [hb, hf, Except.map, ctlNext] at h
          subst h
          simpa [bind, Except.bind] using ih s'
        | brk s' => simp [hb, hf, Except.map, ctlNext] at h
        | ret r => simp [hb, hf, Except.map, ctlNext] at h

/-- sequencing under an abstraction -/
theorem bind_sim {σ τ β γ : Type} (abs : σ → τ) (g : β → γ) (x : R σ) (y : R τ) (T : σ → R β) (T' : τ → R γ)
    (hx : x.map abs = y) (hT : ∀ s, (T s).map g = T' (abs s)) : (x >>= T).map g = y >>= T' := by
  subst hx
  cases x with
  | error e => rfl
  | ok s => simpa [bind, Except.bind, Except.map] using hT s

/-! ### 2. run-time support -/

theorem truthy_eq : truthy = PyRt.strTruthy := by
  funext o; cases o with
  | none => rfl
  | some l => cases l <;> rfl

theorem truthy_none : truthy none = false := rfl
theorem truthy_nil : truthy (some []) = false := rfl
theorem truthy_cons (c : Char) (cs : Str) : truthy (some (c :: cs)) = true := rfl

theorem optStrText_eq (o : Option Str) : PyRt.optStrText o = o.getD sNone := by
  cases o <;> rfl

theorem intToStr_of_nonneg {i : Int} (h : 0 ≤ i) : intToStr i = natToStr i.toNat := by
  cases i with
  | ofNat n => rfl
  | negSucc n => omega

theorem toNat_succ {i : Int} (h : 0 ≤ i) : (i + 1).toNat = i.toNat + 1 := by omega

theorem getRes_updRes (store : List Res) (sid : Nat) (a : OverlapResult) (h : sid < store.length) :
    getRes (PyRt.updRes store sid a) sid = a := by
  simp [getRes, PyRt.updRes, AgpTpf.setAt, h]

theorem updRes_of_ge (store : List Res) (sid : Nat) (a : OverlapResult) (h : store.length ≤ sid) :
    PyRt.updRes store sid a = store := by
  simp [PyRt.updRes, AgpTpf.setAt, List.set_eq_of_length_le h]

theorem updRes_updRes (store : List Res) (sid : Nat) (a b : OverlapResult) :
    PyRt.updRes (PyRt.updRes store sid a) sid b = PyRt.updRes store sid b := by
  by_cases h : sid < store.length
  · simp [PyRt.updRes, AgpTpf.setAt, h]
  · simp [updRes_of_ge _ _ _ (Nat.le_of_not_lt h)]

theorem setLabel_setLabel (store : List Res) (sid : Nat) (f g : OverlapResult → OverlapResult) :
    PyRt.setLabel (PyRt.setLabel store sid f) sid g = PyRt.setLabel store sid (fun o => g (f o)) := by
  by_cases h : sid < store.length
  · simp only [PyRt.setLabel, getRes_updRes _ _ _ h, updRes_updRes]
  · simp [PyRt.setLabel, updRes_of_ge _ _ _ (Nat.le_of_not_lt h)]

theorem strLits :
    ("Contaminant".toList : Str) = sContaminant ∧ ("Target".toList : Str) = sTarget ∧
    ("FalseDuplicate".toList : Str) = sFalseDuplicate ∧ ("Haplotig".toList : Str) = sHaplotig ∧
    ("Unloc".toList : Str) = sUnloc ∧ ("Painted".toList : Str) = sPainted ∧ ("Primary".toList : Str) = sPrimary ∧
    ("H_".toList : Str) = ['H', '_'] := by decide

theorem get_set_haplotype_eq (s : PyRt.SrcNamer) (h : Str) :
    Gen.Imp.ScaffoldNamer_get_set_haplotype s h
      = .ok ({ s with haplotype_lc_dict := (dSetDefault s.haplotype_lc_dict (lowerStr h) h).1 },
             (dSetDefault s.haplotype_lc_dict (lowerStr h) h).2) := rfl


/-! ### 3. the small kernels -/

theorem get_set_haplotype_abs (cH cU : Int → Nat) (s : PyRt.SrcNamer) (h : Str) :
    (Gen.Imp.ScaffoldNamer_get_set_haplotype s h).map (fun p => (absG cH cU p.1, p.2))
      = .ok ((absG cH cU s).getSetHaplotype h) := by
  simp [get_set_haplotype_eq, Except.map, Namer.getSetHaplotype, absG]

theorem haplotig_name_abs (s : PyRt.SrcNamer) (h : 0 ≤ s.haplotig_n) :
    Gen.Imp.ScaffoldNamer_haplotig_name s
      = .ok ({ s with haplotig_n := s.haplotig_n + 1 }, ['H', '_'] ++ natToStr ((absNamer s).haplotigN + 1)) := by
  simp [Gen.Imp.ScaffoldNamer_haplotig_name, absNamer, absG, intToStr_of_nonneg (show 0 ≤ s.haplotig_n + 1 by omega),
    toNat_succ h]

theorem unloc_name_abs (s : PyRt.SrcNamer) (h : 0 ≤ s.unloc_n) :
    Gen.Imp.ScaffoldNamer_unloc_name s
      = .ok ({ s with unloc_n := s.unloc_n + 1 },
             (absNamer s).currentScaffoldName.getD sNone ++ "_unloc_".toList ++ natToStr ((absNamer s).unlocN + 1)) := by
  simp [Gen.Imp.ScaffoldNamer_unloc_name, absNamer, absG, intToStr_of_nonneg (show 0 ≤ s.unloc_n + 1 by omega),
    toNat_succ h, optStrText_eq]

theorem abs_haplotig_succ (s : PyRt.SrcNamer) (h : 0 ≤ s.haplotig_n) :
    absNamer { s with haplotig_n := s.haplotig_n + 1 } = { absNamer s with haplotigN := (absNamer s).haplotigN + 1 } := by
  simp [absNamer, absG, toNat_succ h]

theorem abs_unloc_succ (s : PyRt.SrcNamer) (h : 0 ≤ s.unloc_n) :
    absNamer { s with unloc_n := s.unloc_n + 1 } = { absNamer s with unlocN := (absNamer s).unlocN + 1 } := by
  simp [absNamer, absG, toNat_succ h]

/-! ### 4. `rename_by_size` -/

theorem rename_by_size_tie (store : List Res) (ids : List Nat) :
    Gen.Imp.ScaffoldNamer_rename_by_size store ids = .ok (renameBySize store ids) := by
  unfold Gen.Imp.ScaffoldNamer_rename_by_size renameBySize
  cases hids : ids.isEmpty with
  | true => simp
  | false =>
    have hlen : (sortByIntKeyDesc (fun s => (getRes store s).length) ids).length
        = (ids.map (fun s => (getRes store s).name)).length := by
      simp [sortByIntKeyDesc, stableSort_length]
    simp only [PyRt.zipStrict, hlen, if_true]
    simp only [bind, Except.bind, Bool.not_false, Bool.not_true, Bool.false_eq_true, if_false]
    rw [forIn_total _ _ (fun _ _ => rfl)]
    simp [Except.map, PyRt.setLabel, PyRt.updRes, getRes, PyRt.optStrText]

/-! ### 5. `label_scaffold` -/

theorem label_scaffold_tie (store : List Res) (s : PyRt.SrcNamer) (sid : Nat) (frag : Fragment) (scTags : List Str)
    (on : Str) (hw : WfNamer s) :
    (Gen.Imp.ScaffoldNamer_label_scaffold store s sid frag scTags on).map (fun p => (absNamer p.1, p.2))
      = (labelScaffold (absNamer s) (getRes store sid) sid frag scTags on).map
          (fun q => (q.1, PyRt.updRes store sid q.2)) := by
  obtain ⟨hh, hu⟩ := hw
  have e1 := intToStr_of_nonneg (show 0 ≤ s.haplotig_n + 1 by omega)
  have e2 := intToStr_of_nonneg (show 0 ≤ s.unloc_n + 1 by omega)
  have e3 := toNat_succ hh
  have e4 := toNat_succ hu
  obtain ⟨l1, l2, l3, l4, l5, l6, l7, l8⟩ := strLits
  unfold Gen.Imp.ScaffoldNamer_label_scaffold labelScaffold Gen.Imp.ScaffoldNamer_haplotig_name Gen.Imp.ScaffoldNamer_unloc_name
  simp only [l1, l2, l3, l4, l5, l6, l8, absNamer, absG, absG]
  have hcond : ∀ a b c : Bool, (a = true ∨ (c = true ∧ ¬ b = true)) ↔ ((a || c && !b) = true) := by
    intro a b c; cases a <;> cases b <;> cases c <;> decide
  simp only [hcond, setLabel_setLabel]
  generalize (frag.tags.contains sContaminant || s.target_tags && !scTags.contains sTarget) = c
  generalize frag.tags.contains sFalseDuplicate = b3
  generalize frag.tags.contains sHaplotig = b4
  generalize frag.tags.contains sUnloc = b5
  generalize scTags.contains sPainted = b6
  cases c <;> cases b3 <;> cases b4 <;> cases b5 <;> cases b6 <;>
    simp [bind, Except.bind, Except.map, pure, Except.pure, throw, throwThe, MonadExceptOf.throw,
      setLabel_setLabel, e1, e2, e3, e4, optStrText_eq] <;>
    simp [PyRt.setLabel]

theorem label_scaffold_wf (store store' : List Res) (s s' : PyRt.SrcNamer) (sid : Nat) (frag : Fragment) (scTags : List Str)
    (on : Str) (hw : WfNamer s)
    (h : Gen.Imp.ScaffoldNamer_label_scaffold store s sid frag scTags on = .ok (s', store')) : WfNamer s' := by
  obtain ⟨hh, hu⟩ := hw
  unfold Gen.Imp.ScaffoldNamer_label_scaffold Gen.Imp.ScaffoldNamer_haplotig_name Gen.Imp.ScaffoldNamer_unloc_name at h
  revert h
  generalize (frag.tags.contains _ || s.target_tags && !scTags.contains _) = c
  generalize frag.tags.contains _ = b3
  generalize frag.tags.contains _ = b4
  generalize frag.tags.contains _ = b5
  generalize scTags.contains _ = b6
  cases c <;> cases b3 <;> cases b4 <;> cases b5 <;> cases b6 <;>
    simp [bind, Except.bind] <;> intro h1 _ <;> subst h1 <;> simp [WfNamer] <;> omega

/-! ### 6. the model's `makeScaffoldName` after the tag loop, in stages (model side only) -/


/-- `if not haplotype: haplotype = self.haplotype_from_first_row_name(scaffold)` -/
def hapStage (rows : List Row) (n : Namer) (hap : Option Str) : R (Namer × Option Str) :=
  if truthy hap then pure (n, hap)
  else do
    let nm ← firstRowName rows
    match hapPrefixOfName nm with
    | some g => let (n', h) := n.getSetHaplotype g; pure (n', some h)
    | none => pure (n, none)

/-- `if primary_tag and not self.primary_haplotype: …` -/
def primaryStage (primaryTag : Bool) (n : Namer) (hap : Option Str) : R Namer :=
  if primaryTag ∧ ¬ truthy n.primaryHaplotype then
    match hap with
    | some h => if h.isEmpty then throw .tagging else
        let (n', v) := n.getSetHaplotype h
        pure { n' with primaryHaplotype := some v }
    | none => throw .tagging
  else pure n

/-- `if not scaffold_name: …` -/
def nameStage (scName : Str) (rows : List Row) (s : TagScan) : R (Str × Int) :=
  if truthy s.scaffoldName then pure (s.scaffoldName.getD [], s.rank.getD 0)
  else if s.isPainted then pure (scName, match s.rank with | some r => if r ≠ 0 then r else 1 | none => 1)
  else do
    let nm ← firstRowName rows
    pure (nm, 3)

/-- the final assignments -/
def finalStage (n : Namer) (hap : Option Str) (p : Str × Int) : Namer :=
  { n with currentHaplotype := if truthy n.primaryHaplotype then (if hap = n.primaryHaplotype then some sPrimary else hap) else hap,
           currentScaffoldName := some p.1, currentRank := p.2, unlocN := 0, unlocScaffolds := [] }

/-- the model's `makeScaffoldName` after the name has been settled (copied from `Model/Remap.lean`) -/
def mkTail3 (scName : Str) (rows : List Row) (s : TagScan) (n : Namer) (hap : Option Str) : R Namer := do
  let (scaffoldName, rank) ←
    if truthy s.scaffoldName then pure (s.scaffoldName.getD [], s.rank.getD 0)
    else if s.isPainted then pure (scName, match s.rank with | some r => if r ≠ 0 then r else 1 | none => 1)
    else do
      let nm ← firstRowName rows
      pure (nm, 3)
  let cur := if truthy n.primaryHaplotype then
      (if hap = n.primaryHaplotype then some sPrimary else hap)
    else hap
  pure { n with currentHaplotype := cur, currentScaffoldName := some scaffoldName, currentRank := rank,
                unlocN := 0, unlocScaffolds := [] }

def mkTail2 (scName : Str) (rows : List Row) (s : TagScan) (n : Namer) (hap : Option Str) : R Namer := do
  let n ←
    if s.primaryTag ∧ ¬ truthy n.primaryHaplotype then
      match hap with
      | some h => if h.isEmpty then throw .tagging else
          let (n', v) := n.getSetHaplotype h
          pure { n' with primaryHaplotype := some v }
      | none => throw .tagging
    else pure n
  mkTail3 scName rows s n hap

def mkTail1 (scName : Str) (rows : List Row) (s : TagScan) (n : Namer) : R Namer := do
  let (n, hap) ←
    if truthy s.haplotype then pure (n, s.haplotype)
    else do
      let nm ← firstRowName rows
      match hapPrefixOfName nm with
      | some g => let (n', h) := n.getSetHaplotype g; pure (n', some h)
      | none => pure (n, none)
  mkTail2 scName rows s n hap

theorem makeScaffoldName_tail (n : Namer) (scName : Str) (rows : List Row) (tags : List Str) :
    makeScaffoldName n scName rows tags = (tags.foldlM scanTag (n, {}) >>= fun st => mkTail1 scName rows st.2 st.1) := by
  rfl

theorem mkTail3_eq (scName : Str) (rows : List Row) (s : TagScan) (n : Namer) (hap : Option Str) :
    mkTail3 scName rows s n hap = nameStage scName rows s >>= fun p => pure (finalStage n hap p) := by
  unfold mkTail3 nameStage finalStage
  by_cases h1 : truthy s.scaffoldName = true
  · simp only [h1, if_true]
  · by_cases h2 : s.isPainted = true
    · simp only [h1, h2, if_true, if_false]; rfl
    · simp only [h1, h2, if_true, if_false]
      cases firstRowName rows <;> rfl

theorem mkTail2_eq (scName : Str) (rows : List Row) (s : TagScan) (n : Namer) (hap : Option Str) :
    mkTail2 scName rows s n hap = primaryStage s.primaryTag n hap >>= fun n' => mkTail3 scName rows s n' hap := by
  unfold mkTail2 primaryStage
  by_cases h1 : (s.primaryTag = true ∧ ¬ truthy n.primaryHaplotype = true)
  · simp only [h1, if_true]
    rcases hap with _ | _ | ⟨c, cs⟩ <;> rfl
  · simp only [h1, if_false]

theorem mkTail1_eq (scName : Str) (rows : List Row) (s : TagScan) (n : Namer) :
    mkTail1 scName rows s n = hapStage rows n s.haplotype >>= fun nh => mkTail2 scName rows s nh.1 nh.2 := by
  unfold mkTail1 hapStage
  by_cases h1 : truthy s.haplotype = true
  · simp only [h1, if_true]
  · simp only [h1, if_false]
    cases firstRowName rows with
    | error e => rfl
    | ok nm => cases h : hapPrefixOfName nm <;> simp [bind, Except.bind, h, pure, Except.pure]

/-! ### 7. `make_scaffold_name` -/

/-- the tags `make_scaffold_name` iterates over: the argument when it is a non-empty list, else `scaffold.fragment_tags()` -/
def tagsOf (sc : Scaffold) (ft : Option (List Str)) : List Str :=
  match ft with
  | some (t :: ts) => t :: ts
  | _ => sc.fragmentTags

/-- THE place that knows the order of the generated loop-state tuple of `make_scaffold_name` (the translator sorts the carried
    variables by the Lean text of their type, then by name): a pattern / constructor with the components in a fixed, named order.
    `absScan` and every `intro` that destructures a loop state go through it. -/
local macro "scanSt⟨" hap:term ", " ip:term ", " pt:term ", " rk:term ", " sn:term ", " self:term "⟩" : term =>
  `(($rk, $hap, $sn, $ip, $pt, $self))

/-- the loop state of `make_scaffold_name` (in the order of the generated tuple) ↦ the model's `(Namer, TagScan)` -/
def absScan (cH cU : Int → Nat) : Option Int × Option Str × Option Str × Bool × Bool × PyRt.SrcNamer → Namer × TagScan
  | scanSt⟨haplotype, is_painted, primary_tag, rank, scaffold_name, self⟩ =>
    (absG cH cU self,
     { scaffoldName := scaffold_name, haplotype := haplotype, isPainted := is_painted, rank := rank, primaryTag := primary_tag })

theorem firstRow_src (rows : List Row) :
    (pyGet rows (0 : Int) >>= fun (t : Row) => (PyRt.asFrag t).map (·.name)) = firstRowName rows := by
  unfold firstRowName
  cases pyGet rows 0 with
  | error e => rfl
  | ok r => cases r <;> rfl

theorem hffrn_eq (s : PyRt.SrcNamer) (sc : Scaffold) :
    Gen.Imp.ScaffoldNamer_haplotype_from_first_row_name s sc
      = firstRowName sc.rows >>= fun nm =>
          match hapPrefixOfName nm with
          | none => .ok (s, none)
          | some g => .ok ({ s with haplotype_lc_dict := (dSetDefault s.haplotype_lc_dict (lowerStr g) g).1 },
                           some (dSetDefault s.haplotype_lc_dict (lowerStr g) g).2) := by
  unfold Gen.Imp.ScaffoldNamer_haplotype_from_first_row_name firstRowName
  cases pyGet sc.rows 0 with
  | error e => rfl
  | ok r =>
    cases r with
    | gap g => rfl
    | frag f =>
      simp only [ok_bind, PyRt.asFrag, Except.map, bind, Except.bind, pure, Except.pure]
      cases hapPrefixOfName f.name <;> simp [get_set_haplotype_eq]

/-- the model's `if m := re.search(…, rows[0].name): return self.get_set_haplotype(m.group(1)) else: return None` -/
def hapFromFirstRow (rows : List Row) (n : Namer) : R (Namer × Option Str) := do
  let nm ← firstRowName rows
  match hapPrefixOfName nm with
  | some g => let (n', h) := n.getSetHaplotype g; pure (n', some h)
  | none => pure (n, none)

theorem hffrn_abs (cH cU : Int → Nat) (s : PyRt.SrcNamer) (sc : Scaffold) :
    (Gen.Imp.ScaffoldNamer_haplotype_from_first_row_name s sc).map (fun p => (absG cH cU p.1, p.2))
      = hapFromFirstRow sc.rows (absG cH cU s) := by
  rw [hffrn_eq]
  unfold hapFromFirstRow
  cases firstRowName sc.rows with
  | error e => rfl
  | ok nm =>
    cases hpn : hapPrefixOfName nm <;>
      simp [hpn, Except.map, bind, Except.bind, pure, Except.pure, absG, Namer.getSetHaplotype]

theorem hffrn_counters (s s' : PyRt.SrcNamer) (sc : Scaffold) (v : Option Str)
    (h : Gen.Imp.ScaffoldNamer_haplotype_from_first_row_name s sc = .ok (s', v)) :
    s'.haplotig_n = s.haplotig_n ∧ s'.unloc_n = s.unloc_n := by
  rw [hffrn_eq] at h
  cases hf : firstRowName sc.rows with
  | error e => simp [hf, bind, Except.bind] at h
  | ok nm =>
    cases hpn : hapPrefixOfName nm <;> simp [hf, hpn, bind, Except.bind] at h <;> obtain ⟨rfl, _⟩ := h <;> exact ⟨rfl, rfl⟩

theorem ite_ok_bind {α β : Type} (c : Prop) [Decidable c] (a b : α) (f : α → R β) :
    ((if c then (Except.ok a : R α) else .ok b) >>= f) = f (if c then a else b) := by
  split <;> rfl

set_option hygiene false in
/-- the part of `make_scaffold_name` after the Primary block (it occurs twice in the generated text); `p` = the primary haplotype
    at that point, in constructor form (`none` / `some []` / `some (c :: cs)`), `h` = the haplotype -/
macro "namer_tail " p:term " , " h:term : tactic => `(tactic| (
  try simp only [mkTail3_eq, nameStage, finalStage]
  by_cases hE : $h = $p
  all_goals rcases sn with _ | _ | ⟨c', cs'⟩
  all_goals simp only [truthy_none, truthy_nil, truthy_cons, Bool.not_false, Bool.not_true, if_true, if_false,
    Bool.false_eq_true, ok_bind]
  all_goals first
    | done
    | (cases ip
       · rcases hg : pyGet sc.rows 0 with _ | _ | _ <;>
           simp [truthy_none, truthy_nil, truthy_cons, ← truthy_eq, hE, hg, firstRowName, PyRt.asFrag, Except.map, bind,
             Except.bind, pure, Except.pure, absG, hU, Namer.getSetHaplotype, throw, throwThe, MonadExceptOf.throw]
       · rcases rk with _ | r
         · simp [truthy_none, truthy_nil, truthy_cons, ← truthy_eq, hE, Except.map, bind, Except.bind, pure, Except.pure,
             absG, hU, Namer.getSetHaplotype]
         · by_cases hr : r = 0 <;>
             simp [truthy_none, truthy_nil, truthy_cons, ← truthy_eq, hE, hr, Except.map, bind, Except.bind, pure,
               Except.pure, absG, hU, Namer.getSetHaplotype])
    | simp [truthy_none, truthy_nil, truthy_cons, ← truthy_eq, hE, Except.map, bind, Except.bind, pure, Except.pure, absG,
        hU, Namer.getSetHaplotype]))

set_option hygiene false in
/-- the Primary block of `make_scaffold_name` (`if primary_tag and not self.primary_haplotype:`), followed by the tail -/
macro "namer_primary" : tactic => `(tactic| (
  rcases hap' with _ | _ | ⟨c, cs⟩
  · first | rfl | simp [truthy_none, truthy_nil, ← truthy_eq, throw, throwThe, MonadExceptOf.throw, bind, Except.bind, Except.map]
  · first | rfl | simp [truthy_none, truthy_nil, ← truthy_eq, throw, throwThe, MonadExceptOf.throw, bind, Except.bind, Except.map]
  · simp only [truthy_cons, Bool.not_true, Bool.false_eq_true, if_false, PyRt.needObj, ok_bind, List.isEmpty_cons,
      pure, Except.pure, Namer.getSetHaplotype, absG, hU]
    generalize dSetDefault self'.haplotype_lc_dict (lowerStr (c :: cs)) (c :: cs) = dv
    obtain ⟨d, v⟩ := dv
    rcases v with _ | ⟨vc, vcs⟩
    · namer_tail (some []), (some (c :: cs))
    · namer_tail (some (vc :: vcs)), (some (c :: cs))))

/-- `make_scaffold_name` against `makeScaffoldName`, for every reading `cH`, `cU` of the two counters with `cU 0 = 0` -/
theorem make_scaffold_name_tieG (cH cU : Int → Nat) (hU : cU 0 = 0) (s : PyRt.SrcNamer) (sc : Scaffold)
    (ft : Option (List Str)) :
    (Gen.Imp.ScaffoldNamer_make_scaffold_name s sc ft).map (absG cH cU)
      = makeScaffoldName (absG cH cU s) sc.name sc.rows (tagsOf sc ft) := by
  obtain ⟨l1, l2, l3, l4, l5, l6, l7, l8⟩ := strLits
  rw [makeScaffoldName_tail]
  unfold Gen.Imp.ScaffoldNamer_make_scaffold_name
  refine Eq.trans (congrArg (Except.map (absG cH cU)) (bind_eq_of _ (some (tagsOf sc ft)) _ ?hpre)) ?_
  case hpre => rcases ft with _ | _ | ⟨t, ts⟩ <;> rfl
  simp only [ok_bind, PyRt.needIter, l2, l6, l7]
  refine forIn_sim (absScan cH cU) _ scanTag _ _ (absG cH cU) ?hstep ?hK _ _
  case hstep =>
    intro tag scanSt⟨hap, ip, pt, rk, sn, self⟩
    simp only [absScan, scanTag, get_set_haplotype_eq, Namer.getSetHaplotype, ← truthy_eq]
    -- the three literal tags are pairwise different, so the order in which the source tests them does not matter
    obtain ⟨d1, d2, d3, d4, d5, d6⟩ : sPainted ≠ sTarget ∧ sPainted ≠ sPrimary ∧ sTarget ≠ sPainted ∧ sTarget ≠ sPrimary ∧
        sPrimary ≠ sPainted ∧ sPrimary ≠ sTarget := by decide
    by_cases h1 : tag = sPainted
    · subst h1; simp [d1, d2, d3, d4, d5, d6, Except.map, ctlNext, absScan, absG, hU]
    by_cases h2 : tag = sTarget
    · subst h2; simp [d1, d2, d3, d4, d5, d6, Except.map, ctlNext, absScan, absG, hU]
    by_cases h3 : tag = sPrimary
    · subst h3; simp [d1, d2, d3, d4, d5, d6, Except.map, ctlNext, absScan, absG, hU]
    by_cases h4 : isChrNameTag tag = true
    · by_cases h5 : sn = some tag
      · subst h5; simp [h1, h2, h3, h4, Except.map, ctlNext, absScan, absG, hU]
      · have h5' : ¬ some tag = sn := fun h => h5 h.symm
        rcases sn with _ | _ | ⟨c, cs⟩ <;>
          simp [h1, h2, h3, h4, h5, h5', truthy_none, truthy_nil, truthy_cons, Except.map, ctlNext, absScan, absG, hU]
    cases h5 : Gen.otherKnownTags.contains tag
    · rcases hap with _ | _ | ⟨c, cs⟩ <;>
        simp [h1, h2, h3, h4, h5, truthy_none, truthy_nil, truthy_cons, Except.map, ctlNext, absScan, absG, hU, bind,
          Except.bind]
    · simp [h1, h2, h3, h4, h5, Except.map, ctlNext, absScan, absG, hU]
  case hK =>
    intro scanSt⟨hap, ip, pt, rk, sn, self⟩
    simp only [absScan, mkTail1_eq]
    refine bind_sim (fun p => (absG cH cU p.2, p.1)) (absG cH cU) _ _ _ _ ?h1 ?hT1
    case h1 =>
      simp only [hffrn_eq, hapStage, ← truthy_eq]
      rcases hap with _ | _ | ⟨c, cs⟩
      case some.cons => simp [truthy_cons, Except.map, pure, Except.pure]
      all_goals
        simp only [truthy_none, truthy_nil, Bool.not_false, if_true, Bool.false_eq_true, if_false]
        cases firstRowName sc.rows with
        | error e => simp [Except.map, bind, Except.bind]
        | ok nm =>
          cases hpn : hapPrefixOfName nm <;>
            simp [hpn, Except.map, bind, Except.bind, pure, Except.pure, absG, hU, Namer.getSetHaplotype]
    case hT1 =>
      intro ⟨hap', self'⟩
      simp only [mkTail2_eq, mkTail3_eq, primaryStage, nameStage, finalStage, ← truthy_eq, get_set_haplotype_eq,
        Namer.getSetHaplotype, absG]
      rcases hp : self'.primary_haplotype with _ | _ | ⟨pc, pcs⟩ <;> cases pt <;>
        simp only [truthy_none, truthy_nil, truthy_cons, Bool.true_and, Bool.false_and, Bool.not_true, Bool.not_false,
          Bool.false_eq_true, if_true, if_false, true_and, false_and, not_true_eq_false, not_false_eq_true, and_self,
          and_false, pure, Except.pure, ok_bind]
      · namer_tail none, hap'
      · namer_primary
      · namer_tail (some []), hap'
      · namer_primary
      · namer_tail (some (pc :: pcs)), hap'
      · namer_tail (some (pc :: pcs)), hap'


theorem make_scaffold_name_tie (s : PyRt.SrcNamer) (sc : Scaffold) (ft : Option (List Str)) :
    (Gen.Imp.ScaffoldNamer_make_scaffold_name s sc ft).map absNamer
      = makeScaffoldName (absNamer s) sc.name sc.rows (tagsOf sc ft) :=
  make_scaffold_name_tieG Int.toNat Int.toNat rfl s sc ft

/-- `make_scaffold_name` does not touch the haplotig counter and leaves the unloc counter at 0 -/
theorem make_scaffold_name_counters (s s' : PyRt.SrcNamer) (sc : Scaffold) (ft : Option (List Str))
    (h : Gen.Imp.ScaffoldNamer_make_scaffold_name s sc ft = .ok s') :
    s'.haplotig_n = s.haplotig_n ∧ s'.unloc_n = 0 := by
  have t := make_scaffold_name_tieG (fun i => if i = s.haplotig_n then 0 else 1) (fun i => if i = 0 then 0 else 1)
    (by simp) s sc ft
  rw [h] at t
  have c := C10.makeScaffoldName_counters _ _ _ _ _ t.symm
  obtain ⟨⟨c1, _, _⟩, c2, _⟩ := c
  simp only [absG, if_true] at c1 c2
  constructor
  · by_cases hh : s'.haplotig_n = s.haplotig_n
    · exact hh
    · simp [hh] at c1
  · by_cases hh : s'.unloc_n = 0
    · exact hh
    · simp [hh] at c2

end AgpTpf.ImpNamer
