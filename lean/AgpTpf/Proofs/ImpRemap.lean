/-
  Helper lemmas for `Properties/C01ImpRemap.lean` (T1c capstone): the translated Python source of the WHOLE of phase 1,
  `BuildAssembly.remap_to_input_assembly` (`Gen.Imp.BuildAssembly_remap_to_input_assembly`), refines the model's `remapToInput`
  (`Model/Remap.lean`).  The source method is a composition of translated kernels, each of which is tied to the model in its own
  property file; here the ties are composed:

    find_assembly_overlaps   = make_scaffold_name (C09Imp) ; find_overlaps (parameter; C12Imp) ; label_scaffold (C09Imp) ;
                               trim_large_overhangs (the model's, called directly) ; store_fragments_found (C01ImpFound) ;
                               rename_unlocs_by_size (C09Imp)                                  against `findAssemblyOverlaps`
    discard_overhanging_fragments (C01ImpFound)                                                against `discardOverhanging`
    cut_remaining_overhangs  = cut_fragments (C01ImpCut) for every entry of `multi`            against `cutRemaining`
    rename_haplotigs_by_size (C09Imp)                                                          against `renameBySize`
    add_missing_scaffolds_from_input (C01ImpMissing)                                           against `addMissing`

  The plumbing is `ImpFound.Ref` ("the source raises what the model raises, or returns a related value") with its `>>=` /
  `PyRt.forIn` rules.  The generated definitions are unfolded by name; the only generated shape the relations depend on is the
  order of the components of the loop states (sorted by the text of their type, then by variable name, by the translator), which is
  confined to `FSt.pack` / `CSt.pack` and their projections (a state is destructured through `FSt.cases` / `CSt.cases`).
-/
import AgpTpf.Properties.C01ImpFound
import AgpTpf.Properties.C01ImpCut
import AgpTpf.Properties.C09Imp
import AgpTpf.Properties.C12Imp
import AgpTpf.Properties.C12ImpIndex
import AgpTpf.Properties.C01ImpMissing
set_option linter.unusedSimpArgs false
set_option linter.unusedVariables false
namespace AgpTpf.ImpRemap
open AgpTpf ImpFound

/-! ### 0. plumbing -/

theorem ok_bind {α β : Type} (a : α) (f : α → R β) : ((Except.ok a : R α) >>= f) = f a := rfl
theorem error_bind {α β : Type} (e : Err) (f : α → R β) : ((Except.error e : R α) >>= f) = .error e := rfl

/-- an equation `src.map f = mdl.map g` read as a refinement -/
theorem Ref.of_map {τ μ ν : Type} {src : R τ} {mdl : R μ} (f : τ → ν) (g : μ → ν) (h : src.map f = mdl.map g) :
    Ref (fun t m => f t = g m ∧ src = .ok t) src mdl := by
  cases mdl with
  | error e =>
    cases src with
    | error e' => simp only [Except.map] at h; cases h; rfl
    | ok t => simp [Except.map] at h
  | ok m =>
    cases src with
    | error e' => simp [Except.map] at h
    | ok t => simp only [Except.map, Except.ok.injEq] at h; exact ⟨t, rfl, h, rfl⟩

/-- a refinement of a model computation that is known to be `.ok m` / `.error e` -/
theorem Ref.elim_ok {τ μ : Type} {Q : τ → μ → Prop} {src : R τ} {m : μ} (h : Ref Q src (.ok m)) : ∃ t, src = .ok t ∧ Q t m := h
theorem Ref.elim_error {τ μ : Type} {Q : τ → μ → Prop} {src : R τ} {e : Err} (h : Ref Q src (.error e : R μ)) :
    src = .error e := h

/-- `>>=` on the source side only (the model's computation is the last thing the model does) -/
theorem Ref.bind_ok {τ μ τ' : Type} {Q : τ → μ → Prop} {Q' : τ' → μ → Prop} {src : R τ} {mdl : R μ} {k : τ → R τ'}
    (h : Ref Q src mdl) (hk : ∀ t m, Q t m → Ref Q' (k t) (.ok m)) : Ref Q' (src >>= k) mdl := by
  cases mdl with
  | error e => simp only [Ref] at h; subst h; rfl
  | ok m => obtain ⟨t, rfl, hq⟩ := h; exact hk t m hq

/-- the source returned: so did the model, with a related value -/
theorem Ref.of_src_ok {τ μ : Type} {Q : τ → μ → Prop} {src : R τ} {mdl : R μ} {t : τ} (h : Ref Q src mdl) (hs : src = .ok t) :
    ∃ m, mdl = .ok m ∧ Q t m := by
  cases mdl with
  | error e => simp only [Ref] at h; rw [h] at hs; cases hs
  | ok m => obtain ⟨t', ht', hq⟩ := h; rw [ht'] at hs; cases hs; exact ⟨m, rfl, hq⟩

/-! ### 1. the store of results: allocation at the end, writes through the new reference -/

theorem getRes_snoc (store : List Res) (r : Res) : getRes (store ++ [r]) store.length = r.o := by
  simp [getRes]

theorem updRes_snoc (store : List Res) (r : Res) (o : OverlapResult) :
    PyRt.updRes (store ++ [r]) store.length o = store ++ [{ r with o := o }] := by
  simp [PyRt.updRes, AgpTpf.setAt]

theorem markAdded_snoc (store : List Res) (r : Res) :
    PyRt.markAdded (store ++ [r]) store.length = store ++ [{ r with added := true }] := by
  simp [PyRt.markAdded, AgpTpf.setAt]

/-! ### 2. `rename_unlocs_by_size`, `rename_haplotigs_by_size` -/

theorem rename_unlocs_eq (store : List Res) (s : PyRt.SrcNamer) :
    Gen.Imp.ScaffoldNamer_rename_unlocs_by_size store s = .ok (renameBySize store s.unloc_scaffolds) := by
  unfold Gen.Imp.ScaffoldNamer_rename_unlocs_by_size
  rw [C09.rename_by_size_is_source]
  rfl

theorem rename_haplotigs_eq (store : List Res) (s : PyRt.SrcNamer) :
    Gen.Imp.ScaffoldNamer_rename_haplotigs_by_size store s = .ok (renameBySize store s.haplotig_scaffolds) := by
  unfold Gen.Imp.ScaffoldNamer_rename_haplotigs_by_size
  rw [C09.rename_by_size_is_source]
  rfl

/-! ### 3. the namer kernels as refinements -/

theorem tagsOf_own (sc : Scaffold) : C09.tagsOf sc (some sc.fragmentTags) = sc.fragmentTags := by
  unfold C09.tagsOf
  cases h : sc.fragmentTags <;> simp [h]

/-- `make_scaffold_name(scaffold, scaffold.fragment_tags())` -/
theorem make_name_ref (s : PyRt.SrcNamer) (sc : Scaffold) (hw : C09.WfNamer s) :
    Ref (fun (s' : PyRt.SrcNamer) (n : Namer) => C09.absNamer s' = n ∧ C09.WfNamer s')
      (Gen.Imp.ScaffoldNamer_make_scaffold_name s sc (some sc.fragmentTags))
      (makeScaffoldName (C09.absNamer s) sc.name sc.rows sc.fragmentTags) := by
  obtain ⟨h1, h2⟩ := C09.make_scaffold_name_refines s sc (some sc.fragmentTags)
  rw [tagsOf_own] at h1
  have h1' : (Gen.Imp.ScaffoldNamer_make_scaffold_name s sc (some sc.fragmentTags)).map C09.absNamer
      = (makeScaffoldName (C09.absNamer s) sc.name sc.rows sc.fragmentTags).map id := by
    rw [h1]; cases makeScaffoldName (C09.absNamer s) sc.name sc.rows sc.fragmentTags <;> rfl
  refine (Ref.of_map _ _ h1').mono ?_
  rintro s' n ⟨ha, hs⟩
  exact ⟨ha, ((h2 s' hs).2.2 hw.1)⟩

/-- `label_scaffold` on the result a reference points at -/
theorem label_ref (store : List Res) (s : PyRt.SrcNamer) (sid : Nat) (frag : Fragment) (tags : List Str) (name : Str)
    (hw : C09.WfNamer s) :
    Ref (fun (p : PyRt.SrcNamer × List Res) (q : Namer × OverlapResult) =>
          C09.absNamer p.1 = q.1 ∧ p.2 = PyRt.updRes store sid q.2 ∧ C09.WfNamer p.1)
      (Gen.Imp.ScaffoldNamer_label_scaffold store s sid frag tags name)
      (labelScaffold (C09.absNamer s) (getRes store sid) sid frag tags name) := by
  obtain ⟨h1, h2⟩ := C09.label_scaffold_refines store s sid frag tags name hw
  refine (Ref.of_map _ _ h1).mono ?_
  rintro ⟨s', st'⟩ ⟨n, o⟩ ⟨ha, hs⟩
  simp only [Prod.mk.injEq] at ha
  exact ⟨ha.1, ha.2, h2 s' st' hs⟩

/-! ### 4. `find_assembly_overlaps` -/

/-- `input_asm.find_overlaps` as the model has it: the scaffold of the bait's name, then the overlap search in it -/
def overlapsOf (input : List Scaffold) (bait : Fragment) : R (Option OverlapResult) :=
  lookupScaffold input bait.name >>= fun sc => findOverlaps sc.rows bait

/-- the model state a source state stands for; everything else (`extra`, `cuts`, `nextOid`, `joinGap`, `err`) as in `b0` -/
def mkBuild (b0 : Build) (store : List Res) (s : PyRt.SrcNamer) (heap : List Found) (found multi : List (Key × Nat)) : Build :=
  { b0 with store := store, namer := C09.absNamer s, found := C01.absFound heap found, multi := multi.map (·.1) }

/-- the loop state of the translated `find_assembly_overlaps` (both loops).  The translator orders the components by the text of their
    type, then by variable name:
    `(self_found_fragments, self_fragments_found_more_than_once, heap_ff, store, self_scaffold_namer)`.  `FSt.pack` and the
    projections below are the ONLY place that knows this order: a future permutation needs this block edited, nothing else. -/
abbrev FSt := List (Key × Nat) × List (Key × Nat) × List Found × List Res × PyRt.SrcNamer

@[reducible] def FSt.pack (store : List Res) (s : PyRt.SrcNamer) (heap : List Found) (found multi : List (Key × Nat)) : FSt :=
  (found, multi, heap, store, s)
@[reducible] def FSt.store (st : FSt) : List Res := st.2.2.2.1
@[reducible] def FSt.namer (st : FSt) : PyRt.SrcNamer := st.2.2.2.2
@[reducible] def FSt.heap (st : FSt) : List Found := st.2.2.1
@[reducible] def FSt.found (st : FSt) : List (Key × Nat) := st.1
@[reducible] def FSt.multi (st : FSt) : List (Key × Nat) := st.2.1
/-- every state is a `FSt.pack` (used instead of an anonymous-constructor pattern, which would name the components by position) -/
theorem FSt.cases (st : FSt) : ∃ store s heap found multi, st = FSt.pack store s heap found multi :=
  ⟨st.store, st.namer, st.heap, st.found, st.multi, rfl⟩

def RelF (b0 : Build) (st : FSt) (b : Build) : Prop :=
  C09.WfNamer st.namer ∧ C01.Coherent st.heap st.found st.multi ∧
  b = mkBuild b0 st.store st.namer st.heap st.found st.multi

/-- what the model does with a result that was found (label, trim, append, register its contigs) -/
def baitFound (tags : List Str) (name : Str) (b : Build) (bait : Fragment) (o : OverlapResult) : R Build :=
  labelScaffold b.namer o b.store.length bait tags name >>= fun q =>
  q.2.trimLargeOverhangs b.err >>= fun o' =>
  .ok (if o'.rows.isEmpty then { b with namer := q.1, store := b.store ++ [{ o := o', added := false }] }
       else storeFragmentsFound { b with namer := q.1, store := b.store ++ [{ o := o', added := true }] } b.store.length
              (fragmentsOf o'.rows))

theorem processBait_eq (input : List Scaffold) (tags : List Str) (name : Str) (b : Build) (bait : Fragment) :
    processBait input tags name b bait
      = overlapsOf input bait >>= fun r => match r with
          | none => .ok b
          | some o => baitFound tags name b bait o := by
  unfold processBait overlapsOf
  cases lookupScaffold input bait.name with
  | error e => rfl
  | ok sc =>
    simp only [ok_bind, bind_assoc]
    cases findOverlaps sc.rows bait with
    | error e => rfl
    | ok r =>
      cases r with
      | none => rfl
      | some o =>
        simp only [ok_bind, baitFound]
        cases labelScaffold b.namer o b.store.length bait tags name with
        | error e => rfl
        | ok q =>
          obtain ⟨n, o1⟩ := q
          simp only [ok_bind]
          cases o1.trimLargeOverhangs b.err with
          | error e => rfl
          | ok o2 =>
            simp only [ok_bind]
            by_cases h : o2.rows.isEmpty = true <;> simp [h, pure, Except.pure]

/-- a found result: allocated, labelled and trimmed in place, registered -/
theorem bait_found_ref (b0 : Build) (tags : List Str) (name : Str) (bait : Fragment) (o : OverlapResult)
    (store : List Res) (s : PyRt.SrcNamer) (heap : List Found) (found multi : List (Key × Nat)) (b : Build)
    (h : RelF b0 (FSt.pack store s heap found multi) b)
    {ρ : Type} (body : R (PyRt.Ctl FSt ρ))
    (hbody : body =
      (Gen.Imp.ScaffoldNamer_label_scaffold (store ++ [{ o := o, added := false }]) s store.length bait tags name) >>= fun nk4 =>
      (OverlapResult.trimLargeOverhangs (getRes nk4.2 store.length) b0.err) >>= fun mu5 =>
      (if (!((getRes (PyRt.updRes nk4.2 store.length mu5) store.length).rows).isEmpty) = true then
          (Gen.Imp.BuildAssembly_store_fragments_found (PyRt.markAdded (PyRt.updRes nk4.2 store.length mu5) store.length) heap found multi
              store.length) >>= fun sf6 =>
          .ok (FSt.pack sf6.1 nk4.1 sf6.2.1 sf6.2.2.1 sf6.2.2.2)
        else .ok (FSt.pack (PyRt.updRes nk4.2 store.length mu5) nk4.1 heap found multi)) >>= fun (j7 : FSt) =>
      .ok (.next (FSt.pack j7.store j7.namer j7.heap j7.found j7.multi))) :
    Ref (nextRel (RelF b0)) body (baitFound tags name b bait o) := by
  obtain ⟨hw, hc, rfl⟩ := h
  subst hbody
  unfold baitFound
  have hl := label_ref (store ++ [{ o := o, added := false }]) s store.length bait tags name hw
  rw [getRes_snoc] at hl
  refine Ref.bind (mdl := labelScaffold (C09.absNamer s) o store.length bait tags name) hl ?_
  · rintro ⟨s', st'⟩ ⟨n, o1⟩ ⟨hn, hst, hw'⟩
    simp only [] at hn hst hw'
    subst hst
    have hlt : store.length < (store ++ [({ o := o, added := false } : Res)]).length := by simp
    simp only [ImpNamer.getRes_updRes _ _ _ hlt, ImpNamer.updRes_updRes, updRes_snoc, getRes_snoc, markAdded_snoc]
    show Ref _ _ (o1.trimLargeOverhangs b0.err >>= _)
    cases o1.trimLargeOverhangs b0.err with
    | error e => rfl
    | ok o2 =>
      simp only [ok_bind]
      by_cases he : o2.rows.isEmpty = true
      · simp only [he, Bool.not_true, Bool.false_eq_true, if_false, if_true, ok_bind]
        refine Ref.ok ⟨_, rfl, hw', hc, ?_⟩
        simp only [mkBuild, hn]
      · simp only [he, Bool.not_false, if_true, if_false]
        obtain ⟨heap', found', multi', hsrc, hc', hb'⟩ := C01.store_fragments_found_refines
          { mkBuild b0 store s heap found multi with namer := n, store := store ++ [{ o := o2, added := true }] }
          heap found multi store.length hc rfl rfl
        simp only [] at hsrc
        rw [hsrc]
        simp only [ok_bind]
        refine Ref.ok ⟨_, rfl, hw', hc', ?_⟩
        simp only [getRes_snoc] at hb'
        refine Eq.trans (b := _) hb' ?_
        simp only [mkBuild, hn]

/-- what `find_assembly_overlaps_refines` says about the pair (source result, model result) -/
def FindQ (b0 : Build) (t : List Res × List Found × PyRt.SrcNamer × List (Key × Nat) × List (Key × Nat)) (b' : Build) : Prop :=
  RelF b0 (FSt.pack t.1 t.2.2.1 t.2.1 t.2.2.2.1 t.2.2.2.2) b'

theorem find_tie (input ptx : List Scaffold) (b0 : Build) (fo : Fragment → R (Option OverlapResult))
    (hfo : ∀ bait, fo bait = overlapsOf input bait)
    (store : List Res) (s : PyRt.SrcNamer) (heap : List Found) (found multi : List (Key × Nat)) (b : Build)
    (h : RelF b0 (FSt.pack store s heap found multi) b) :
    Ref (FindQ b0) (Gen.Imp.BuildAssembly_find_assembly_overlaps store heap s found multi ptx b0.err fo)
      (findAssemblyOverlaps input ptx b) := by
  unfold Gen.Imp.BuildAssembly_find_assembly_overlaps findAssemblyOverlaps
  dsimp only
  refine forIn_bind_ok (RelF b0) ?step h ?fin
  case fin =>
    rintro st b' hr
    obtain ⟨store', s', heap', found', multi', rfl⟩ := st.cases
    exact Ref.ok hr
  case step =>
    rintro ps - st b hst
    obtain ⟨store, s, heap, found, multi, rfl⟩ := st.cases
    obtain ⟨hw, hc, rfl⟩ := hst
    dsimp only at hw hc ⊢
    refine Ref.bind (make_name_ref s ps hw) ?_
    rintro s1 n ⟨rfl, hw1⟩
    refine forIn_bind (RelF b0) ?bait ⟨hw1, hc, rfl⟩ ?after
    case after =>
      rintro st b' hst
      obtain ⟨store', s', heap', found', multi', rfl⟩ := st.cases
      obtain ⟨hw', hc', rfl⟩ := hst
      dsimp only at hw' hc' ⊢
      rw [rename_unlocs_eq]
      exact Ref.ok ⟨_, rfl, hw', hc', rfl⟩
    case bait =>
      rintro bait - st b hr
      obtain ⟨store, s, heap, found, multi, rfl⟩ := st.cases
      rw [processBait_eq, hfo]
      dsimp only
      cases overlapsOf input bait with
      | error e => rfl
      | ok r =>
        cases r with
        | none => exact Ref.ok ⟨_, rfl, hr⟩
        | some o =>
          simp only [ok_bind, Option.map_some]
          exact bait_found_ref b0 _ _ bait o store s heap found multi b hr _ rfl

/-! ### 5. `cut_remaining_overhangs` -/

/-- the loop state of the translated `cut_remaining_overhangs`, components ordered by the text of their type, then by variable name:
    `(self_fragments_found_more_than_once, heap_ff, store, self_assembly_stats_cuts, nextOid)`; the arena and `multi` are not touched
    by the loop.  `CSt.pack` and the projections are the only place that knows the order. -/
abbrev CSt := List (Key × Nat) × List Found × List Res × Int × Nat

@[reducible] def CSt.pack (store : List Res) (heap : List Found) (multi : List (Key × Nat)) (oid : Nat) (cuts : Int) : CSt :=
  (multi, heap, store, cuts, oid)
@[reducible] def CSt.store (st : CSt) : List Res := st.2.2.1
@[reducible] def CSt.heap (st : CSt) : List Found := st.2.1
@[reducible] def CSt.multi (st : CSt) : List (Key × Nat) := st.1
@[reducible] def CSt.oid (st : CSt) : Nat := st.2.2.2.2
@[reducible] def CSt.cuts (st : CSt) : Int := st.2.2.2.1
/-- every state is a `CSt.pack` (used instead of an anonymous-constructor pattern) -/
theorem CSt.cases (st : CSt) : ∃ store heap multi oid cuts, st = CSt.pack store heap multi oid cuts :=
  ⟨st.store, st.heap, st.multi, st.oid, st.cuts, rfl⟩

def RelC (b0 : Build) (heap : List Found) (multi : List (Key × Nat)) (st : CSt) (b : Build) : Prop :=
  st.heap = heap ∧ st.multi = multi ∧ b = { b0 with store := st.store, nextOid := st.oid, cuts := st.cuts }

/-- what `cut_remaining_refines` says about the pair (source result, model result) -/
def CutQ (b0 : Build) (heap : List Found) (t : List Res × Nat × List Found × List (Key × Nat) × Int) (b' : Build) : Prop :=
  t = (b'.store, b'.nextOid, heap, [], b'.cuts) ∧
  b' = { b0 with store := b'.store, nextOid := b'.nextOid, cuts := b'.cuts, multi := [] }

theorem cut_tie (b : Build) (heap : List Found) (found multi : List (Key × Nat))
    (hc : C01.Coherent heap found multi) (hf : b.found = C01.absFound heap found) (hm : b.multi = multi.map (·.1)) :
    Ref (CutQ b heap) (Gen.Imp.BuildAssembly_cut_remaining_overhangs b.store b.nextOid heap multi b.cuts) (cutRemaining b) := by
  unfold Gen.Imp.BuildAssembly_cut_remaining_overhangs cutRemaining
  rw [hm, List.foldlM_map, forIn_map]
  refine forIn_bind (RelC b heap multi) ?step ⟨rfl, rfl, rfl⟩ ?fin
  case fin =>
    rintro st b' hst
    obtain ⟨store', heap', multi', oid', cuts', rfl⟩ := st.cases
    obtain ⟨rfl, rfl, rfl⟩ := hst
    exact Ref.ok ⟨rfl, rfl⟩
  case step =>
    rintro kv hkv st b' hst
    obtain ⟨store', heap', multi', oid', cuts', rfl⟩ := st.cases
    obtain ⟨rfl, rfl, rfl⟩ := hst
    dsimp only
    have hg : dGet? b.found kv.1 = some (PyRt.getFound heap' kv.2) := by
      rw [hf]
      show dGet? (ImpFound.absFound heap' found) kv.1 = _
      rw [ImpFound.dGet?_absFound, hc.2.2.1 kv hkv]
      rfl
    rw [hg]
    dsimp only
    have hsrc := C01.cut_fragments_is_source { b with store := store', nextOid := oid', cuts := cuts' } (PyRt.getFound heap' kv.2)
    dsimp only at hsrc
    rw [hsrc]
    cases hcf : cutFragments { b with store := store', nextOid := oid', cuts := cuts' } (PyRt.getFound heap' kv.2) with
    | error e => rfl
    | ok b' =>
      have hfr := C01.cut_fragments_frame _ _ _ hcf
      refine Ref.ok ⟨_, rfl, rfl, rfl, ?_⟩
      rw [hfr]

/-! ### 6. `discardOverhanging` is insensitive to extra fuel (unless it ran out of it) -/

theorem discardOverhanging_mono : ∀ (fuel : Nat) (b : Build) (r : R Build), discardOverhanging fuel b = r → r ≠ .error .other →
    ∀ fuel', fuel ≤ fuel' → discardOverhanging fuel' b = r := by
  intro fuel
  induction fuel with
  | zero => intro b r h hr; simp only [discardOverhanging] at h; exact absurd h.symm hr
  | succ fuel ih =>
    intro b r h hr fuel' hle
    obtain ⟨k, rfl⟩ : ∃ k, fuel' = k + 1 := ⟨fuel' - 1, by omega⟩
    simp only [discardOverhanging] at h ⊢
    by_cases hm : b.multi.isEmpty = true
    · simp only [hm, if_true] at h ⊢; exact h
    · simp only [hm, if_false, Bool.false_eq_true] at h ⊢
      cases hrr : resolverRound b with
      | error e => rw [hrr] at h; exact h
      | ok ob =>
        rw [hrr] at h
        cases ob with
        | none => exact h
        | some b' => exact ih b' r h hr k (by omega)

/-! ### 7. the indexed input assembly: `overlapsOf input` IS the source's `input_asm.find_overlaps` -/

/-- `IndexedAssembly.__init__`: `for scffld in scaffolds: self.add_scaffold(scffld)`, from the two empty dictionaries -/
def indexInput (input : List Scaffold) : R (List (Str × Scaffold) × List (Str × List Int)) :=
  input.foldlM (fun d sc => Gen.Imp.IndexedAssembly_add_scaffold d.1 d.2 sc) ([], [])

/-- the duplicate-name check `remapToInput` starts with -/
def dupStep (seen : List Str) (s : Scaffold) : R (List Str) :=
  if seen.contains s.name then throw Err.value else pure (seen ++ [s.name])
def dupCheck (input : List Scaffold) : R (List Str) := input.foldlM dupStep []

def dictOf (l : List Scaffold) : List (Str × Scaffold) := l.map (fun sc => (sc.name, sc))
def idxOf (l : List Scaffold) : List (Str × List Int) := l.map (fun sc => (sc.name, buildIndex sc.rows))

/-- `scaffold_by_name`: ValueError for an unknown name -/
def byNameOf (d : List (Str × Scaffold)) (n : Str) : R Scaffold :=
  match dGet? d n with
  | some sc => .ok sc
  | none => .error .value
/-- `self._scaffold_index.get(name)`; `None` (falsy, as the empty list) for an unknown name -/
def indexGetOf (ix : List (Str × List Int)) (n : Str) : List Int := (dGet? ix n).getD []

theorem dGet?_dictOf_isSome (l : List Scaffold) (n : Str) : (dGet? (dictOf l) n).isSome = (l.map (·.name)).contains n := by
  induction l with
  | nil => rfl
  | cons a l ih =>
    simp only [dictOf, List.map_cons, dGet?, List.contains_cons] at ih ⊢
    by_cases h : a.name = n
    · simp [h]
    · have h' : ¬ n = a.name := fun e => h e.symm
      simp [h, h', ih]

theorem index_fold (rest : List Scaffold) : ∀ (pre : List Scaffold),
    rest.foldlM (fun (d : List (Str × Scaffold) × List (Str × List Int)) sc => Gen.Imp.IndexedAssembly_add_scaffold d.1 d.2 sc)
        (dictOf pre, idxOf pre)
      = (rest.foldlM dupStep (pre.map Scaffold.name)).map
          (fun _ => (dictOf (pre ++ rest), idxOf (pre ++ rest))) := by
  induction rest with
  | nil => intro pre; simp [List.foldlM_nil, pure, Except.pure, Except.map]
  | cons sc rest ih =>
    intro pre
    rw [List.foldlM_cons, List.foldlM_cons, C12.add_scaffold_is_source, dGet?_dictOf_isSome]
    have hstep : dupStep (pre.map Scaffold.name) sc
        = if (pre.map Scaffold.name).contains sc.name = true then .error .value else .ok (pre.map Scaffold.name ++ [sc.name]) := rfl
    rw [hstep]
    by_cases h : (pre.map Scaffold.name).contains sc.name = true
    · simp only [h, if_true]; rfl
    · simp only [h, if_false, Bool.false_eq_true]
      have hn : dGet? (dictOf pre) sc.name = none := by
        have := dGet?_dictOf_isSome pre sc.name
        cases hg : dGet? (dictOf pre) sc.name with
        | none => rfl
        | some v => rw [hg] at this; simp at this; simp [this] at h
      have hn2 : dGet? (idxOf pre) sc.name = none := by
        clear ih h hstep
        induction pre with
        | nil => rfl
        | cons a pre ihp =>
          simp only [dictOf, idxOf, List.map_cons, dGet?] at hn ihp ⊢
          by_cases hk : a.name = sc.name
          · simp [hk] at hn
          · simp only [hk, if_false] at hn ⊢; exact ihp hn
      rw [ImpFound.dSet_of_none _ hn, ImpFound.dSet_of_none _ hn2]
      have e1 : dictOf pre ++ [(sc.name, sc)] = dictOf (pre ++ [sc]) := by simp [dictOf]
      have e2 : idxOf pre ++ [(sc.name, buildIndex sc.rows)] = idxOf (pre ++ [sc]) := by simp [idxOf]
      have e3 : pre.map Scaffold.name ++ [sc.name] = (pre ++ [sc]).map Scaffold.name := by simp
      simp only [ok_bind, pure, Except.pure]
      rw [e1, e2, e3, ih (pre ++ [sc])]
      simp only [List.append_assoc, List.singleton_append]

/-- indexing the input = the model's duplicate-name check; the dictionaries hold every scaffold, and its index, under its name -/
theorem indexInput_eq (input : List Scaffold) :
    indexInput input = (dupCheck input).map (fun _ => (dictOf input, idxOf input)) := by
  have := index_fold input []
  simpa [indexInput, dupCheck, dictOf, idxOf] using this

theorem byNameOf_dictOf (input : List Scaffold) (n : Str) : byNameOf (dictOf input) n = lookupScaffold input n := by
  unfold byNameOf lookupScaffold
  induction input with
  | nil => rfl
  | cons a l ih =>
    simp only [dictOf, List.map_cons, dGet?, List.find?_cons] at ih ⊢
    by_cases h : a.name = n
    · simp [h]
    · simp only [h, if_false, decide_false]; exact ih

theorem indexGetOf_idxOf (input : List Scaffold) (n : Str) (sc : Scaffold) (h : lookupScaffold input n = .ok sc) :
    indexGetOf (idxOf input) n = buildIndex sc.rows := by
  unfold indexGetOf
  unfold lookupScaffold at h
  induction input with
  | nil => simp at h
  | cons a l ih =>
    simp only [idxOf, List.map_cons, dGet?, List.find?_cons] at ih h ⊢
    by_cases hk : a.name = n
    · simp only [hk, decide_true] at h; cases h; simp [hk]
    · simp only [hk, decide_false, if_false] at h ⊢; exact ih h

theorem lookupScaffold_mem (input : List Scaffold) (n : Str) (sc : Scaffold) (h : lookupScaffold input n = .ok sc) : sc ∈ input := by
  unfold lookupScaffold at h
  cases hf : input.find? (fun s => s.name = n) with
  | none => rw [hf] at h; cases h
  | some s => rw [hf] at h; cases h; exact List.mem_of_find?_eq_some hf

/-- the model's lookup IS the source's `find_overlaps` on the indexed input, for every fuel above the longest scaffold -/
theorem overlapsOf_is_source (input : List Scaffold) (fuel : Nat) (hfuel : ∀ sc ∈ input, sc.rows.length + 1 < fuel) (bait : Fragment) :
    Gen.Imp.IndexedAssembly_find_overlaps fuel bait (byNameOf (dictOf input)) (indexGetOf (idxOf input)) = overlapsOf input bait := by
  unfold overlapsOf
  cases h : lookupScaffold input bait.name with
  | error e =>
    exact C12.find_overlaps_unknown_scaffold bait fuel _ e (by rw [byNameOf_dictOf, h]) _
  | ok sc =>
    exact C12.find_overlaps_is_source sc bait fuel (hfuel sc (lookupScaffold_mem _ _ _ h)) _ (by rw [byNameOf_dictOf, h]) _
      (indexGetOf_idxOf _ _ _ h)

/-! ### 8. the composition: `remap_to_input_assembly` -/

/-- `remapToInput` after its duplicate-name check, from any start state -/
def phase1 (input ptx : List Scaffold) (b0 : Build) : R Build :=
  findAssemblyOverlaps input ptx b0 >>= fun b =>
  discardOverhanging (totalRows b.store + 2) b >>= fun b =>
  cutRemaining b >>= fun b =>
  addMissing input { b with store := renameBySize b.store b.namer.haplotigScaffolds }

/-- the state `remapToInput` starts from -/
def initBuild (input : List Scaffold) (prefix_ : Str) (joinGap : Option Gap) (err : Int) : Build :=
  { namer := { autosomePrefix := prefix_ },
    nextOid := (input.flatMap Scaffold.fragments).foldl (fun m f => max m (f.oid + 1)) 0, joinGap := joinGap, err := err }

theorem remapToInput_eq (input ptx : List Scaffold) (prefix_ : Str) (joinGap : Option Gap) (err : Int) :
    remapToInput input ptx prefix_ joinGap err
      = dupCheck input >>= fun _ => phase1 input ptx (initBuild input prefix_ joinGap err) := rfl

/-- the fuel handed to `discard_overhanging_fragments`: what the model uses, or more when the model did not run out of it -/
def FuelOk (input ptx : List Scaffold) (b0 : Build) (fuel : Nat) : Prop :=
  ∀ b1, findAssemblyOverlaps input ptx b0 = .ok b1 →
    fuel = totalRows b1.store + 2 ∨
    (totalRows b1.store + 2 ≤ fuel ∧ discardOverhanging (totalRows b1.store + 2) b1 ≠ .error .other)

/-- the result tuple of the translated `remap_to_input_assembly`:
    `(store, nextOid, heap_lo, added_lo, heap_ff, namer, found, multi, cuts)` -/
abbrev RemapT := List Res × Nat × List PyRt.Leftover × List Nat × List Found × PyRt.SrcNamer × List (Key × Nat) × List (Key × Nat) × Int

def RemapQ (b0 : Build) (t : RemapT) (b : Build) : Prop :=
  ∃ heap_lo heap_ff s found,
    t = (b.store, b.nextOid, heap_lo, List.range heap_lo.length, heap_ff, s, found, [], b.cuts) ∧
    C09.WfNamer s ∧ C01.Coherent heap_ff found [] ∧ (∀ x ∈ heap_lo, ImpMissing.loSrc (ImpMissing.loModel x) = x) ∧
    b = { b0 with store := b.store, nextOid := b.nextOid, cuts := b.cuts, namer := C09.absNamer s,
                  found := C01.absFound heap_ff found, multi := [], extra := b0.extra ++ heap_lo.map ImpMissing.loModel }

theorem missing_ref (input : List Scaffold) (b : Build) (g : Gap) (hg : b.joinGap = some g) (s : PyRt.SrcNamer) (hw : C09.WfNamer s)
    (heap : List Found) (found : List (Key × Nat)) (hn : b.namer = C09.absNamer s) (hf : b.found = C01.absFound heap found) :
    Ref (fun (t : List PyRt.Leftover × List Nat × PyRt.SrcNamer) (b' : Build) =>
          t.2.1 = List.range t.1.length ∧ C09.WfNamer t.2.2 ∧ (∀ x ∈ t.1, ImpMissing.loSrc (ImpMissing.loModel x) = x) ∧
          b' = { b with namer := C09.absNamer t.2.2, extra := b.extra ++ t.1.map ImpMissing.loModel })
      (Gen.Imp.BuildAssembly_add_missing_scaffolds_from_input s input g found) (addMissing input b) := by
  have hkeys : ∀ k, (dGet? found k).isSome = dHas b.found k := by
    intro k
    rw [hf]
    show _ = (dGet? (ImpFound.absFound heap found) k).isSome
    rw [ImpFound.dGet?_absFound]
    cases dGet? found k <;> rfl
  obtain ⟨h1, h2⟩ := C01.add_missing_refines_of_namer_tie input b g hg s hw hn.symm found hkeys
    (fun s sc ft _ => (C09.make_scaffold_name_refines s sc ft).1)
    (fun s sc ft s' hws h => ((C09.make_scaffold_name_refines s sc ft).2 s' h).2.2 hws.1)
  cases hsrc : Gen.Imp.BuildAssembly_add_missing_scaffolds_from_input s input g found with
  | error e => rw [h2 e hsrc]; rfl
  | ok t =>
    obtain ⟨heap_lo, added, s'⟩ := t
    obtain ⟨ha, hw', hl, hm⟩ := h1 heap_lo added s' hsrc
    rw [hm]
    exact Ref.ok ⟨ha, hw', hl, rfl⟩

theorem phase1_tie (input ptx : List Scaffold) (b0 : Build) (g : Gap) (hg : b0.joinGap = some g)
    (fo : Fragment → R (Option OverlapResult)) (hfo : ∀ bait, fo bait = overlapsOf input bait)
    (s : PyRt.SrcNamer) (heap : List Found) (found multi : List (Key × Nat))
    (h : RelF b0 (FSt.pack b0.store s heap found multi) b0) (fuel : Nat) (hfuel : FuelOk input ptx b0 fuel) :
    Ref (RemapQ b0)
      (Gen.Imp.BuildAssembly_remap_to_input_assembly fuel b0.store b0.nextOid heap s found multi b0.cuts ptx input b0.err g fo)
      (phase1 input ptx b0) := by
  unfold Gen.Imp.BuildAssembly_remap_to_input_assembly phase1
  dsimp only
  -- find_assembly_overlaps
  have h1 := find_tie input ptx b0 fo hfo b0.store s heap found multi b0 h
  cases hfa : findAssemblyOverlaps input ptx b0 with
  | error e => rw [hfa] at h1; rw [Ref.elim_error h1]; rfl
  | ok b1 =>
    rw [hfa] at h1
    obtain ⟨⟨store1, heap1, s1, found1, multi1⟩, hs1, hw1, hc1, hb1⟩ := Ref.elim_ok h1
    dsimp only at hw1 hc1 hb1
    rw [hs1]
    simp only [ok_bind]
    -- discard_overhanging_fragments: the fuel
    have hfu : discardOverhanging (totalRows b1.store + 2) b1 = discardOverhanging fuel b1 := by
      rcases hfuel b1 hfa with h | ⟨hle, hne⟩
      · rw [h]
      · exact (discardOverhanging_mono _ b1 _ rfl hne fuel hle).symm
    rw [hfu]
    have h2 := C01.discard_overhanging_refines fuel b1 heap1 found1 multi1 hc1 (by rw [hb1]; rfl) (by rw [hb1]; rfl)
    have hst1 : b1.store = store1 := by rw [hb1]; rfl
    have herr1 : b1.err = b0.err := by rw [hb1]; rfl
    rw [hst1, herr1] at h2
    cases hd : discardOverhanging fuel b1 with
    | error e => rw [hd] at h2; simp only [] at h2; rw [h2]; rfl
    | ok b2 =>
      rw [hd] at h2
      obtain ⟨heap2, multi2, hs2, hc2, hb2⟩ := h2
      rw [hs2]
      simp only [ok_bind]
      -- cut_remaining_overhangs
      have h3 := cut_tie b2 heap2 found1 multi2 hc2 (by rw [hb2]) (by rw [hb2])
      have hoid2 : b2.nextOid = b0.nextOid := by rw [hb2, hb1]; rfl
      have hcuts2 : b2.cuts = b0.cuts := by rw [hb2, hb1]; rfl
      rw [hoid2, hcuts2] at h3
      cases hc : cutRemaining b2 with
      | error e => rw [hc] at h3; rw [Ref.elim_error h3]; rfl
      | ok b3 =>
        rw [hc] at h3
        obtain ⟨t3, hs3, rfl, hb3⟩ := Ref.elim_ok h3
        rw [hs3]
        simp only [ok_bind]
        -- rename_haplotigs_by_size
        rw [rename_haplotigs_eq]
        simp only [ok_bind]
        -- add_missing_scaffolds_from_input
        have hn3 : b3.namer = C09.absNamer s1 := by rw [hb3, hb2, hb1]; rfl
        have hf3 : b3.found = C01.absFound heap2 found1 := by rw [hb3, hb2]
        have hg3 : b3.joinGap = some g := by rw [hb3, hb2, hb1]; exact hg
        have h4 := missing_ref input { b3 with store := renameBySize b3.store b3.namer.haplotigScaffolds } g hg3 s1 hw1 heap2 found1
          hn3 hf3
        refine Ref.bind_ok h4 ?_
        rintro ⟨heap_lo, added, s4⟩ b4 ⟨ha, hw4, hl, rfl⟩
        dsimp only at ha hw4 hl ⊢
        subst ha
        refine Ref.ok ⟨heap_lo, heap2, s4, found1, ?_, hw4, ⟨hc2.1, hc2.2.1, by simp, by simp⟩, hl, ?_⟩
        · rw [hn3]; rfl
        · rw [hb3, hb2, hb1]; rfl

end AgpTpf.ImpRemap
