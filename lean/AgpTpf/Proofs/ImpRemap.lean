/-
  Helper lemmas for `Properties/C01ImpRemap.lean` (T1c capstone): the translated Python source of the WHOLE of phase 1,
  `BuildAssembly.remap_to_input_assembly` (`Gen.Imp.BuildAssembly_remap_to_input_assembly`), refines the model's `remapToInput`
  (`Model/Remap.lean`).  The source method is a composition of translated kernels, each of which is tied to the model in its own
  property file; here the ties are composed:

    find_assembly_overlaps   = make_scaffold_name (C09Imp) ; find_overlaps (parameter; C12Imp) ; label_scaffold (C09Imp) ;
                               trim_large_overhangs (the model's, called directly) ; store_fragments_found (C01ImpFound) ;
                               rename_unlocs_by_size (C09Imp)                                  against `findAssemblyOverlaps`
    discard_overhanging_fragments (C01ImpFound)                                                against `discardOverhanging`
    cut_remaining_overhangs  = cut_fragments (C01ImpCut) for every entry of `multi`            against `cutRemaining`
    rename_haplotigs_by_size (C09Imp)                                                          against `renameBySize`
    add_missing_scaffolds_from_input (C01ImpMissing)                                           against `addMissing`

  The plumbing is `ImpFound.Ref` ("the source raises what the model raises, or returns a related value") with its `>>=` /
  `PyRt.forIn` rules.  The generated definitions are unfolded by name; the only generated shape the relations depend on is the
  order of the components of the loop states.
-/
import AgpTpf.Properties.C01ImpFound
import AgpTpf.Properties.C01ImpCut
import AgpTpf.Properties.C09Imp
import AgpTpf.Properties.C12Imp
import AgpTpf.Properties.C12ImpIndex
set_option linter.unusedSimpArgs false
set_option linter.unusedVariables false
namespace AgpTpf.ImpRemap
open AgpTpf ImpFound

/-! ### 0. plumbing -/

theorem ok_bind {α β : Type} (a : α) (f : α → R β) : ((Except.ok a : R α) >>= f) = f a := rfl
theorem error_bind {α β : Type} (e : Err) (f : α → R β) : ((Except.error e : R α) >>= f) = .error e := rfl

/-- an equation `src.map f = mdl.map g` read as a refinement -/
theorem Ref.of_map {τ μ ν : Type} {src : R τ} {mdl : R μ} (f : τ → ν) (g : μ → ν) (h : src.map f = mdl.map g) :
    Ref (fun t m => f t = g m ∧ src = .ok t) src mdl := by
  cases mdl with
  | error e =>
    cases src with
    | error e' => simp only [Except.map] at h; cases h; rfl
    | ok t => simp [Except.map] at h
  | ok m =>
    cases src with
    | error e' => simp [Except.map] at h
    | ok t => simp only [Except.map, Except.ok.injEq] at h; exact ⟨t, rfl, h, rfl⟩

/-- a refinement of a model computation that is known to be `.ok m` / `.error e` -/
theorem Ref.elim_ok {τ μ : Type} {Q : τ → μ → Prop} {src : R τ} {m : μ} (h : Ref Q src (.ok m)) : ∃ t, src = .ok t ∧ Q t m := h
theorem Ref.elim_error {τ μ : Type} {Q : τ → μ → Prop} {src : R τ} {e : Err} (h : Ref Q src (.error e : R μ)) :
    src = .error e := h

/-- the source returned: so did the model, with a related value -/
theorem Ref.of_src_ok {τ μ : Type} {Q : τ → μ → Prop} {src : R τ} {mdl : R μ} {t : τ} (h : Ref Q src mdl) (hs : src = .ok t) :
    ∃ m, mdl = .ok m ∧ Q t m := by
  cases mdl with
  | error e => simp only [Ref] at h; rw [h] at hs; cases hs
  | ok m => obtain ⟨t', ht', hq⟩ := h; rw [ht'] at hs; cases hs; exact ⟨m, rfl, hq⟩

/-! ### 1. the store of results: allocation at the end, writes through the new reference -/

theorem getRes_snoc (store : List Res) (r : Res) : getRes (store ++ [r]) store.length = r.o := by
  simp [getRes]

theorem updRes_snoc (store : List Res) (r : Res) (o : OverlapResult) :
    PyRt.updRes (store ++ [r]) store.length o = store ++ [{ r with o := o }] := by
  simp [PyRt.updRes, AgpTpf.setAt]

theorem markAdded_snoc (store : List Res) (r : Res) :
    PyRt.markAdded (store ++ [r]) store.length = store ++ [{ r with added := true }] := by
  simp [PyRt.markAdded, AgpTpf.setAt]

/-! ### 2. `rename_unlocs_by_size`, `rename_haplotigs_by_size` -/

theorem rename_unlocs_eq (store : List Res) (s : PyRt.SrcNamer) :
    Gen.Imp.ScaffoldNamer_rename_unlocs_by_size store s = .ok (renameBySize store s.unloc_scaffolds) := by
  unfold Gen.Imp.ScaffoldNamer_rename_unlocs_by_size
  rw [C09.rename_by_size_is_source]
  rfl

theorem rename_haplotigs_eq (store : List Res) (s : PyRt.SrcNamer) :
    Gen.Imp.ScaffoldNamer_rename_haplotigs_by_size store s = .ok (renameBySize store s.haplotig_scaffolds) := by
  unfold Gen.Imp.ScaffoldNamer_rename_haplotigs_by_size
  rw [C09.rename_by_size_is_source]
  rfl

/-! ### 3. the namer kernels as refinements -/

theorem tagsOf_own (sc : Scaffold) : C09.tagsOf sc (some sc.fragmentTags) = sc.fragmentTags := by
  unfold C09.tagsOf
  cases h : sc.fragmentTags <;> simp [h]

/-- `make_scaffold_name(scaffold, scaffold.fragment_tags())` -/
theorem make_name_ref (s : PyRt.SrcNamer) (sc : Scaffold) (hw : C09.WfNamer s) :
    Ref (fun (s' : PyRt.SrcNamer) (n : Namer) => C09.absNamer s' = n ∧ C09.WfNamer s')
      (Gen.Imp.ScaffoldNamer_make_scaffold_name s sc (some sc.fragmentTags))
      (makeScaffoldName (C09.absNamer s) sc.name sc.rows sc.fragmentTags) := by
  obtain ⟨h1, h2⟩ := C09.make_scaffold_name_refines s sc (some sc.fragmentTags)
  rw [tagsOf_own] at h1
  have h1' : (Gen.Imp.ScaffoldNamer_make_scaffold_name s sc (some sc.fragmentTags)).map C09.absNamer
      = (makeScaffoldName (C09.absNamer s) sc.name sc.rows sc.fragmentTags).map id := by
    rw [h1]; cases makeScaffoldName (C09.absNamer s) sc.name sc.rows sc.fragmentTags <;> rfl
  refine (Ref.of_map _ _ h1').mono ?_
  rintro s' n ⟨ha, hs⟩
  exact ⟨ha, ((h2 s' hs).2.2 hw.1)⟩

/-- `label_scaffold` on the result a reference points at -/
theorem label_ref (store : List Res) (s : PyRt.SrcNamer) (sid : Nat) (frag : Fragment) (tags : List Str) (name : Str)
    (hw : C09.WfNamer s) :
    Ref (fun (p : PyRt.SrcNamer × List Res) (q : Namer × OverlapResult) =>
          C09.absNamer p.1 = q.1 ∧ p.2 = PyRt.updRes store sid q.2 ∧ C09.WfNamer p.1)
      (Gen.Imp.ScaffoldNamer_label_scaffold store s sid frag tags name)
      (labelScaffold (C09.absNamer s) (getRes store sid) sid frag tags name) := by
  obtain ⟨h1, h2⟩ := C09.label_scaffold_refines store s sid frag tags name hw
  refine (Ref.of_map _ _ h1).mono ?_
  rintro ⟨s', st'⟩ ⟨n, o⟩ ⟨ha, hs⟩
  simp only [Prod.mk.injEq] at ha
  exact ⟨ha.1, ha.2, h2 s' st' hs⟩

end AgpTpf.ImpRemap
