/-
  Helper lemmas for `Properties/C01ImpRemap.lean` (T1c capstone): the translated Python source of the WHOLE of phase 1,
  `BuildAssembly.remap_to_input_assembly` (`Gen.Imp.BuildAssembly_remap_to_input_assembly`), refines the model's `remapToInput`
  (`Model/Remap.lean`).  The source method is a composition of translated kernels, each of which is tied to the model in its own
  property file; here the ties are composed:

    find_assembly_overlaps   = make_scaffold_name (C09Imp) ; find_overlaps (parameter; C12Imp) ; label_scaffold (C09Imp) ;
                               trim_large_overhangs (the model's, called directly) ; store_fragments_found (C01ImpFound) ;
                               rename_unlocs_by_size (C09Imp)                                  against `findAssemblyOverlaps`
    discard_overhanging_fragments (C01ImpFound)                                                against `discardOverhanging`
    cut_remaining_overhangs  = cut_fragments (C01ImpCut) for every entry of `multi`            against `cutRemaining`
    rename_haplotigs_by_size (C09Imp)                                                          against `renameBySize`
    add_missing_scaffolds_from_input (C01ImpMissing)                                           against `addMissing`

  The plumbing is `ImpFound.Ref` ("the source raises what the model raises, or returns a related value") with its `>>=` /
  `PyRt.forIn` rules.  The generated definitions are unfolded by name; the only generated shape the relations depend on is the
  order of the components of the loop states.
-/
import AgpTpf.Properties.C01ImpFound
import AgpTpf.Properties.C01ImpCut
import AgpTpf.Properties.C09Imp
import AgpTpf.Properties.C12Imp
import AgpTpf.Properties.C12ImpIndex
set_option linter.unusedSimpArgs false
set_option linter.unusedVariables false
namespace AgpTpf.ImpRemap
open AgpTpf ImpFound

/-! ### 0. plumbing -/

theorem ok_bind {α β : Type} (a : α) (f : α → R β) : ((Except.ok a : R α) >>= f) = f a := rfl
theorem error_bind {α β : Type} (e : Err) (f : α → R β) : ((Except.error e : R α) >>= f) = .error e := rfl

/-- an equation `src.map f = mdl.map g` read as a refinement -/
theorem Ref.of_map {τ μ ν : Type} {src : R τ} {mdl : R μ} (f : τ → ν) (g : μ → ν) (h : src.map f = mdl.map g) :
    Ref (fun t m => f t = g m ∧ src = .ok t) src mdl := by
  cases mdl with
  | error e =>
    cases src with
    | error e' => simp only [Except.map] at h; cases h; rfl
    | ok t => simp [Except.map] at h
  | ok m =>
    cases src with
    | error e' => simp [Except.map] at h
    | ok t => simp only [Except.map, Except.ok.injEq] at h; exact ⟨t, rfl, h, rfl⟩

/-- a refinement of a model computation that is known to be `.ok m` / `.error e` -/
theorem Ref.elim_ok {τ μ : Type} {Q : τ → μ → Prop} {src : R τ} {m : μ} (h : Ref Q src (.ok m)) : ∃ t, src = .ok t ∧ Q t m := h
theorem Ref.elim_error {τ μ : Type} {Q : τ → μ → Prop} {src : R τ} {e : Err} (h : Ref Q src (.error e : R μ)) :
    src = .error e := h

/-- the source returned: so did the model, with a related value -/
theorem Ref.of_src_ok {τ μ : Type} {Q : τ → μ → Prop} {src : R τ} {mdl : R μ} {t : τ} (h : Ref Q src mdl) (hs : src = .ok t) :
    ∃ m, mdl = .ok m ∧ Q t m := by
  cases mdl with
  | error e => simp only [Ref] at h; rw [h] at hs; cases hs
  | ok m => obtain ⟨t', ht', hq⟩ := h; rw [ht'] at hs; cases hs; exact ⟨m, rfl, hq⟩

/-! ### 1. the store of results: allocation at the end, writes through the new reference -/

theorem getRes_snoc (store : List Res) (r : Res) : getRes (store ++ [r]) store.length = r.o := by
  simp [getRes]

theorem updRes_snoc (store : List Res) (r : Res) (o : OverlapResult) :
    PyRt.updRes (store ++ [r]) store.length o = store ++ [{ r with o := o }] := by
  simp [PyRt.updRes, AgpTpf.setAt]

theorem markAdded_snoc (store : List Res) (r : Res) :
    PyRt.markAdded (store ++ [r]) store.length = store ++ [{ r with added := true }] := by
  simp [PyRt.markAdded, AgpTpf.setAt]

/-! ### 2. `rename_unlocs_by_size`, `rename_haplotigs_by_size` -/

theorem rename_unlocs_eq (store : List Res) (s : PyRt.SrcNamer) :
    Gen.Imp.ScaffoldNamer_rename_unlocs_by_size store s = .ok (renameBySize store s.unloc_scaffolds) := by
  unfold Gen.Imp.ScaffoldNamer_rename_unlocs_by_size
  rw [C09.rename_by_size_is_source]
  rfl

theorem rename_haplotigs_eq (store : List Res) (s : PyRt.SrcNamer) :
    Gen.Imp.ScaffoldNamer_rename_haplotigs_by_size store s = .ok (renameBySize store s.haplotig_scaffolds) := by
  unfold Gen.Imp.ScaffoldNamer_rename_haplotigs_by_size
  rw [C09.rename_by_size_is_source]
  rfl

/-! ### 3. the namer kernels as refinements -/

theorem tagsOf_own (sc : Scaffold) : C09.tagsOf sc (some sc.fragmentTags) = sc.fragmentTags := by
  unfold C09.tagsOf
  cases h : sc.fragmentTags <;> simp [h]

/-- `make_scaffold_name(scaffold, scaffold.fragment_tags())` -/
theorem make_name_ref (s : PyRt.SrcNamer) (sc : Scaffold) (hw : C09.WfNamer s) :
    Ref (fun (s' : PyRt.SrcNamer) (n : Namer) => C09.absNamer s' = n ∧ C09.WfNamer s')
      (Gen.Imp.ScaffoldNamer_make_scaffold_name s sc (some sc.fragmentTags))
      (makeScaffoldName (C09.absNamer s) sc.name sc.rows sc.fragmentTags) := by
  obtain ⟨h1, h2⟩ := C09.make_scaffold_name_refines s sc (some sc.fragmentTags)
  rw [tagsOf_own] at h1
  have h1' : (Gen.Imp.ScaffoldNamer_make_scaffold_name s sc (some sc.fragmentTags)).map C09.absNamer
      = (makeScaffoldName (C09.absNamer s) sc.name sc.rows sc.fragmentTags).map id := by
    rw [h1]; cases makeScaffoldName (C09.absNamer s) sc.name sc.rows sc.fragmentTags <;> rfl
  refine (Ref.of_map _ _ h1').mono ?_
  rintro s' n ⟨ha, hs⟩
  exact ⟨ha, ((h2 s' hs).2.2 hw.1)⟩

/-- `label_scaffold` on the result a reference points at -/
theorem label_ref (store : List Res) (s : PyRt.SrcNamer) (sid : Nat) (frag : Fragment) (tags : List Str) (name : Str)
    (hw : C09.WfNamer s) :
    Ref (fun (p : PyRt.SrcNamer × List Res) (q : Namer × OverlapResult) =>
          C09.absNamer p.1 = q.1 ∧ p.2 = PyRt.updRes store sid q.2 ∧ C09.WfNamer p.1)
      (Gen.Imp.ScaffoldNamer_label_scaffold store s sid frag tags name)
      (labelScaffold (C09.absNamer s) (getRes store sid) sid frag tags name) := by
  obtain ⟨h1, h2⟩ := C09.label_scaffold_refines store s sid frag tags name hw
  refine (Ref.of_map _ _ h1).mono ?_
  rintro ⟨s', st'⟩ ⟨n, o⟩ ⟨ha, hs⟩
  simp only [Prod.mk.injEq] at ha
  exact ⟨ha.1, ha.2, h2 s' st' hs⟩

/-! ### 4. `find_assembly_overlaps` -/

/-- `input_asm.find_overlaps` as the model has it: the scaffold of the bait's name, then the overlap search in it -/
def overlapsOf (input : List Scaffold) (bait : Fragment) : R (Option OverlapResult) :=
  lookupScaffold input bait.name >>= fun sc => findOverlaps sc.rows bait

/-- the model state a source state stands for; everything else (`extra`, `cuts`, `nextOid`, `joinGap`, `err`) as in `b0` -/
def mkBuild (b0 : Build) (store : List Res) (s : PyRt.SrcNamer) (heap : List Found) (found multi : List (Key × Nat)) : Build :=
  { b0 with store := store, namer := C09.absNamer s, found := C01.absFound heap found, multi := multi.map (·.1) }

/-- the loop state of the translated `find_assembly_overlaps` (both loops) -/
abbrev FSt := List Res × PyRt.SrcNamer × List Found × List (Key × Nat) × List (Key × Nat)

def RelF (b0 : Build) (st : FSt) (b : Build) : Prop :=
  C09.WfNamer st.2.1 ∧ C01.Coherent st.2.2.1 st.2.2.2.1 st.2.2.2.2 ∧
  b = mkBuild b0 st.1 st.2.1 st.2.2.1 st.2.2.2.1 st.2.2.2.2

/-- what the model does with a result that was found (label, trim, append, register its contigs) -/
def baitFound (tags : List Str) (name : Str) (b : Build) (bait : Fragment) (o : OverlapResult) : R Build :=
  labelScaffold b.namer o b.store.length bait tags name >>= fun q =>
  q.2.trimLargeOverhangs b.err >>= fun o' =>
  .ok (if o'.rows.isEmpty then { b with namer := q.1, store := b.store ++ [{ o := o', added := false }] }
       else storeFragmentsFound { b with namer := q.1, store := b.store ++ [{ o := o', added := true }] } b.store.length
              (fragmentsOf o'.rows))

theorem processBait_eq (input : List Scaffold) (tags : List Str) (name : Str) (b : Build) (bait : Fragment) :
    processBait input tags name b bait
      = overlapsOf input bait >>= fun r => match r with
          | none => .ok b
          | some o => baitFound tags name b bait o := by
  unfold processBait overlapsOf
  cases lookupScaffold input bait.name with
  | error e => rfl
  | ok sc =>
    simp only [ok_bind, bind_assoc]
    cases findOverlaps sc.rows bait with
    | error e => rfl
    | ok r =>
      cases r with
      | none => rfl
      | some o =>
        simp only [ok_bind, baitFound]
        cases labelScaffold b.namer o b.store.length bait tags name with
        | error e => rfl
        | ok q =>
          obtain ⟨n, o1⟩ := q
          simp only [ok_bind]
          cases o1.trimLargeOverhangs b.err with
          | error e => rfl
          | ok o2 =>
            simp only [ok_bind]
            by_cases h : o2.rows.isEmpty = true <;> simp [h, pure, Except.pure]

/-- a found result: allocated, labelled and trimmed in place, registered -/
theorem bait_found_ref (b0 : Build) (tags : List Str) (name : Str) (bait : Fragment) (o : OverlapResult)
    (store : List Res) (s : PyRt.SrcNamer) (heap : List Found) (found multi : List (Key × Nat)) (b : Build)
    (h : RelF b0 (store, s, heap, found, multi) b)
    {ρ : Type} (body : R (PyRt.Ctl FSt ρ))
    (hbody : body =
      (Gen.Imp.ScaffoldNamer_label_scaffold (store ++ [{ o := o, added := false }]) s store.length bait tags name) >>= fun nk4 =>
      (OverlapResult.trimLargeOverhangs (getRes nk4.2 store.length) b0.err) >>= fun mu5 =>
      (if (!((getRes (PyRt.updRes nk4.2 store.length mu5) store.length).rows).isEmpty) = true then
          (Gen.Imp.BuildAssembly_store_fragments_found (PyRt.markAdded (PyRt.updRes nk4.2 store.length mu5) store.length) heap found multi
              store.length) >>= fun sf6 =>
          .ok (sf6.1, sf6.2.1, nk4.1, sf6.2.2.1, sf6.2.2.2)
        else .ok (PyRt.updRes nk4.2 store.length mu5, heap, nk4.1, found, multi)) >>= fun j7 =>
      .ok (.next (j7.1, j7.2.2.1, j7.2.1, j7.2.2.2.1, j7.2.2.2.2))) :
    Ref (nextRel (RelF b0)) body (baitFound tags name b bait o) := by
  obtain ⟨hw, hc, rfl⟩ := h
  subst hbody
  unfold baitFound
  have hl := label_ref (store ++ [{ o := o, added := false }]) s store.length bait tags name hw
  rw [getRes_snoc] at hl
  refine Ref.bind (mdl := labelScaffold (C09.absNamer s) o store.length bait tags name) hl ?_
  · rintro ⟨s', st'⟩ ⟨n, o1⟩ ⟨hn, hst, hw'⟩
    simp only [] at hn hst hw'
    subst hst
    have hlt : store.length < (store ++ [({ o := o, added := false } : Res)]).length := by simp
    simp only [ImpNamer.getRes_updRes _ _ _ hlt, ImpNamer.updRes_updRes, updRes_snoc, getRes_snoc, markAdded_snoc]
    show Ref _ _ (o1.trimLargeOverhangs b0.err >>= _)
    cases o1.trimLargeOverhangs b0.err with
    | error e => rfl
    | ok o2 =>
      simp only [ok_bind]
      by_cases he : o2.rows.isEmpty = true
      · simp only [he, Bool.not_true, Bool.false_eq_true, if_false, if_true, ok_bind]
        refine Ref.ok ⟨_, rfl, hw', hc, ?_⟩
        simp only [mkBuild, hn]
      · simp only [he, Bool.not_false, if_true, if_false]
        obtain ⟨heap', found', multi', hsrc, hc', hb'⟩ := C01.store_fragments_found_refines
          { mkBuild b0 store s heap found multi with namer := n, store := store ++ [{ o := o2, added := true }] }
          heap found multi store.length hc rfl rfl
        simp only [] at hsrc
        rw [hsrc]
        simp only [ok_bind]
        refine Ref.ok ⟨_, rfl, hw', hc', ?_⟩
        simp only [getRes_snoc] at hb'
        refine Eq.trans (b := _) hb' ?_
        simp only [mkBuild, hn]

end AgpTpf.ImpRemap
