/-
  C10 uniqueness (W5), part 5: every scaffold of `scaffolds_fused_by_name` carries the label fields (name, tag,
  haplotype, rank, original name / tags) of ONE stored lookup result or ONE left-over scaffold — the one that created
  its dict entry.
-/
import AgpTpf.Proofs.C09Fuse
import AgpTpf.Proofs.C10UBack
namespace AgpTpf.C10U
open AgpTpf

/-- a scaffold without its rows: the label fields -/
def lab (s : Scaffold) : Scaffold := { s with rows := [] }

/-- the label fields of a stored lookup result, as `scaffolds_fused_by_name` copies them -/
def labRes (r : Res) : Scaffold :=
  { name := r.o.name, tag := r.o.tag, haplotype := r.o.haplotype, rank := r.o.rank,
    originalName := r.o.originalName, originalTags := r.o.originalTags }

theorem lab_eta (s : Scaffold) :
    ({ name := s.name, tag := s.tag, haplotype := s.haplotype, rank := s.rank, originalName := s.originalName,
       originalTags := s.originalTags } : Scaffold) = lab s := by
  cases s; rfl

theorem fuseStep_lab (acc : List (C09.FKey × Scaffold)) (it : C09.Item) (P : Scaffold → Prop)
    (hacc : ∀ q ∈ acc, P (lab q.2)) (hit : P (lab it.proto)) : ∀ q ∈ C09.fuseStep acc it, P (lab q.2) := by
  intro q hq
  cases hg : dGet? acc it.key with
  | none =>
    rw [C09.fuseStep_none acc it hg] at hq
    rcases List.mem_append.1 hq with hq | hq
    · exact hacc q hq
    · simp only [List.mem_singleton] at hq
      subst hq; exact hit
  | some s =>
    rw [C09.fuseStep_some acc it s hg] at hq
    rcases Dict.mem_dSet _ _ _ _ hq with hq | hq
    · subst hq
      exact hacc (it.key, s) (Dict.dGet?_mem _ _ _ hg)
    · exact hacc q hq

theorem fuseFold_lab (P : Scaffold → Prop) : ∀ (items : List C09.Item) (acc : List (C09.FKey × Scaffold)),
    (∀ q ∈ acc, P (lab q.2)) → (∀ it ∈ items, P (lab it.proto)) → ∀ q ∈ items.foldl C09.fuseStep acc, P (lab q.2) := by
  intro items
  induction items with
  | nil => intro acc h _; exact h
  | cons it r ih =>
    intro acc hacc hit
    simp only [List.foldl_cons]
    exact ih _ (fuseStep_lab acc it P hacc (hit it (by simp))) (fun x hx => hit x (by simp [hx]))

/-- **labels of the fused scaffolds**: any property of the label fields that holds of every stored result and every
    left-over scaffold holds of every fused scaffold -/
theorem fused_lab (b : Build) (P : Scaffold → Prop) (hs : ∀ r ∈ b.store, P (labRes r))
    (he : ∀ e ∈ b.extra, P (lab e.1)) : ∀ s ∈ fuseByName b, P (lab s) := by
  intro s hs'
  rw [C09.fuseByName_eq] at hs'
  obtain ⟨q, hq, rfl⟩ := List.mem_map.1 hs'
  refine fuseFold_lab P (C09.fuseItems b) [] (fun q hq => (by cases hq)) ?_ q hq
  intro it hit
  rcases List.mem_append.1 hit with hit | hit
  · obtain ⟨r, hr, hir⟩ := List.mem_filterMap.1 hit
    unfold C09.itemOfRes at hir
    split at hir
    · cases hir
    · cases hir
      exact hs r hr
  · obtain ⟨e, hee, hie⟩ := List.mem_filterMap.1 hit
    unfold C09.itemOfExtra at hie
    split at hie
    · cases hie
    · cases hie
      simp only
      rw [lab_eta]
      have : lab (lab e.1) = lab e.1 := rfl
      rw [this]
      exact he e hee

/-- `ScOk` speaks about label fields only -/
theorem scOk_of_lab (p : Str) (N : List Str) (s : Scaffold) (h : ScOk p N (lab s)) : ScOk p N s :=
  ⟨h.hapNe, h.hapNoTag, h.tagCases, h.taggedRank, h.r1, h.r2, h.r3⟩

end AgpTpf.C10U
