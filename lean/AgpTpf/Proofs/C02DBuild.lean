/-
  C02 (deep cuts), part 1: `find_assembly_overlaps` when `trim_large_overhangs` has nothing to discard — contigs may be
  claimed by several pieces: the store is `expectedStore` (as for aligned maps), the registry is `regOf`.
-/
import AgpTpf.Proofs.C02DSpec
namespace AgpTpf.C02
open AgpTpf
open AgpTpf.C08 (NamerPlain namedPlain namedPlain_plain makeScaffoldName_plain firstRowName_cons_frag labelScaffold_plain
  renameBySize_nil faoStep findAssemblyOverlaps_eq)

/-! ### `trim_large_overhangs` keeps a terminal row that shares `≥ err` bases with the bait -/

theorem trimLarge_noop (o : OverlapResult) (err : Int)
    (hs : o.startOverhang ≤ err ∨ ∃ ov, o.startRowBaitOverlap = .ok ov ∧ err ≤ ov)
    (he : o.endOverhang ≤ err ∨ ∃ ov, o.endRowBaitOverlap = .ok ov ∧ err ≤ ov) :
    o.trimLargeOverhangs err = .ok o := by
  unfold OverlapResult.trimLargeOverhangs
  by_cases c0 : o.rows.length = 1 ∧ o.bait.length > err
  · rw [if_pos c0]
  · rw [if_neg c0]
    have hend : (if o.endOverhang > err then (do
          let ov ← o.endRowBaitOverlap
          if ov < err then o.discardEnd else pure o)
        else pure o : R OverlapResult) = .ok o := by
      by_cases c2 : o.endOverhang > err
      · obtain ⟨ov, hov, hge⟩ := he.resolve_left (by omega)
        have : ¬ ov < err := by omega
        simp only [c2, if_true, hov, bind, Except.bind, this, if_false, pure, Except.pure]
      · simp only [c2, if_false, pure, Except.pure]
    by_cases c1 : o.startOverhang > err
    · obtain ⟨ov, hov, hge⟩ := hs.resolve_left (by omega)
      have : ¬ ov < err := by omega
      simp only [c1, if_true, hov, bind, Except.bind, this, if_false, pure, Except.pure, Bool.false_eq_true,
        false_and]
      simpa only [bind, Except.bind, pure, Except.pure] using hend
    · simp only [c1, if_false, bind, Except.bind, pure, Except.pure, Bool.false_eq_true, false_and]
      simpa only [bind, Except.bind, pure, Except.pure] using hend

/-! ### the registry -/

theorem storeFragmentsFound_reg (b : Build) (sid : Nat) (frags : List Fragment) :
    storeFragmentsFound b sid frags =
      { b with found := (frags.foldl (regStep sid) (b.found, b.multi)).1,
               multi := (frags.foldl (regStep sid) (b.found, b.multi)).2 } := by
  unfold storeFragmentsFound
  induction frags generalizing b with
  | nil => rfl
  | cons f r ih =>
    simp only [List.foldl_cons]
    rw [ih]
    cases h : dGet? b.found f.keyTuple <;> simp [regStep, h]

/-! ### one piece -/

/-- hypotheses on one piece: it has a lookup result, carries no tags, is a valid interval, and each terminal row of the
    result either sticks out by at most the error length or shares at least `err` bases with the piece — nothing for
    `trim_large_overhangs` to discard -/
structure PieceKeep (input : List Scaffold) (err : Int) (p : Fragment) : Prop where
  found : (lookupPiece input p).isSome = true
  untagged : p.tags = []
  valid : p.start ≤ p.stop
  startOk : (pieceO input p).startOverhang ≤ err ∨ ∃ ov, (pieceO input p).startRowBaitOverlap = .ok ov ∧ err ≤ ov
  endOk : (pieceO input p).endOverhang ≤ err ∨ ∃ ov, (pieceO input p).endRowBaitOverlap = .ok ov ∧ err ≤ ov

/-- fields `find_assembly_overlaps` never touches -/
def SameCfg (b b' : Build) : Prop :=
  b'.extra = b.extra ∧ b'.cuts = b.cuts ∧ b'.joinGap = b.joinGap ∧ b'.err = b.err ∧ b'.nextOid = b.nextOid

theorem SameCfg.refl (b : Build) : SameCfg b b := ⟨rfl, rfl, rfl, rfl, rfl⟩
theorem SameCfg.trans {a b c : Build} (h1 : SameCfg a b) (h2 : SameCfg b c) : SameCfg a c :=
  ⟨h2.1.trans h1.1, h2.2.1.trans h1.2.1, h2.2.2.1.trans h1.2.2.1, h2.2.2.2.1.trans h1.2.2.2.1,
   h2.2.2.2.2.trans h1.2.2.2.2⟩

theorem processBait_deep (input : List Scaffold) (S : Scaffold) (p : Fragment) (b : Build)
    (hlen : ∀ sc ∈ input, ∀ r ∈ sc.rows, 0 ≤ r.length) (hp : PieceKeep input b.err p)
    (hcur : b.namer.currentScaffoldName = some (outName S)) (hrank : b.namer.currentRank = 3)
    (hhap : b.namer.currentHaplotype = none) (htar : b.namer.targetTags = false) :
    ∃ b', processBait input [] S.name b p = .ok b' ∧ b'.store = b.store ++ [pieceRes input S p] ∧
      (b'.found, b'.multi) = regPiece input (b.found, b.multi) ((S, p), b.store.length) ∧
      b'.namer = b.namer ∧ SameCfg b b' := by
  obtain ⟨sc, hfind, hfo⟩ := lookupPiece_spec hp.found
  have hsc : sc ∈ input := List.mem_of_find?_eq_some hfind
  obtain ⟨hbait, htag, hrows, -⟩ := findOverlaps_shape sc.rows p _ (hlen sc hsc) hfo
  have h1 : lookupScaffold input p.name = .ok sc := by unfold lookupScaffold; rw [hfind]
  have hne : (pieceO input p).rows.isEmpty = false := by
    cases h : (pieceO input p).rows <;> simp_all
  unfold processBait
  simp only [h1, hfo, bind, Except.bind]
  rw [labelScaffold_plain b.namer _ _ p S.name (outName S) hp.untagged htar hcur]
  simp only []
  rw [trimLarge_noop]
  · simp only [hne, Bool.false_eq_true, if_false, pure, Except.pure]
    rw [storeFragmentsFound_reg]
    refine ⟨_, rfl, ?_, rfl, rfl, ⟨rfl, rfl, rfl, rfl, rfl⟩⟩
    simp [pieceRes, labelled, hhap, hrank, htag]
  · exact hp.startOk
  · exact hp.endOk

theorem zipIdx_map_cons_eq {α β} (f : α → β) (a : α) (r : List α) (n : Nat) :
    ((a :: r).map f).zipIdx n = (f a, n) :: (r.map f).zipIdx (n + 1) := rfl

/-- all pieces of one Pretext scaffold -/
theorem processBaits_deep (input : List Scaffold) (S : Scaffold) (ps : List Fragment) (b : Build)
    (hlen : ∀ sc ∈ input, ∀ r ∈ sc.rows, 0 ≤ r.length) (hp : ∀ p ∈ ps, PieceKeep input b.err p)
    (hcur : b.namer.currentScaffoldName = some (outName S)) (hrank : b.namer.currentRank = 3)
    (hhap : b.namer.currentHaplotype = none) (htar : b.namer.targetTags = false) :
    ∃ b', ps.foldlM (processBait input [] S.name) b = .ok b' ∧ b'.store = b.store ++ ps.map (pieceRes input S) ∧
      (b'.found, b'.multi) = regFrom input ((ps.map (fun p => (S, p))).zipIdx b.store.length) (b.found, b.multi) ∧
      b'.namer = b.namer ∧ SameCfg b b' := by
  induction ps generalizing b with
  | nil => exact ⟨b, rfl, by simp, rfl, rfl, SameCfg.refl b⟩
  | cons p r ih =>
    obtain ⟨b1, e1, s1, f1, n1, r1⟩ := processBait_deep input S p b hlen (hp p (by simp)) hcur hrank hhap htar
    obtain ⟨b2, e2, s2, f2, n2, r2⟩ := ih b1 (fun q hq => by rw [r1.2.2.2.1]; exact hp q (by simp [hq]))
      (by rw [n1]; exact hcur) (by rw [n1]; exact hrank) (by rw [n1]; exact hhap) (by rw [n1]; exact htar)
    refine ⟨b2, ?_, ?_, ?_, n2.trans n1, r1.trans r2⟩
    · simp only [List.foldlM_cons, e1, bind, Except.bind]; exact e2
    · rw [s2, s1]; simp
    · rw [f2, f1, s1, zipIdx_map_cons_eq]
      simp [regFrom]

/-! ### one Pretext scaffold, all Pretext scaffolds -/

structure ScaffoldKeep (input : List Scaffold) (err : Int) (S : Scaffold) : Prop where
  head : ∃ f r, S.rows = .frag f :: r
  pieces : ∀ p ∈ S.fragments, PieceKeep input err p
  noHap : hapPrefixOfName (outName S) = none

theorem faoStep_deep (input : List Scaffold) (S : Scaffold) (b : Build)
    (hlen : ∀ sc ∈ input, ∀ r ∈ sc.rows, 0 ≤ r.length) (hS : ScaffoldKeep input b.err S)
    (hplain : NamerPlain b.namer) :
    ∃ b', faoStep input b S = .ok b' ∧ b'.store = b.store ++ S.fragments.map (pieceRes input S) ∧
      (b'.found, b'.multi) =
        regFrom input ((S.fragments.map (fun p => (S, p))).zipIdx b.store.length) (b.found, b.multi) ∧
      NamerPlain b'.namer ∧ b'.namer.autosomePrefix = b.namer.autosomePrefix ∧ SameCfg b b' := by
  obtain ⟨f0, r0, hrows⟩ := hS.head
  have hon : outName S = f0.name := by unfold outName; rw [hrows]
  have htags : S.fragmentTags = [] := fragmentTags_nil_of_untagged S (fun f hf => (hS.pieces f hf).untagged)
  have h1 : makeScaffoldName b.namer S.name S.rows [] = .ok (namedPlain b.namer (outName S)) := by
    rw [hon]
    exact makeScaffoldName_plain b.namer _ f0.name _ hplain.primary (by rw [hrows]; exact firstRowName_cons_frag _ _)
      (by rw [← hon]; exact hS.noHap)
  obtain ⟨b1, e1, s1, f1, n1, r1⟩ := processBaits_deep input S S.fragments
    { b with namer := namedPlain b.namer (outName S) } hlen hS.pieces rfl rfl rfl hplain.target
  unfold faoStep
  rw [htags]
  simp only [h1, bind, Except.bind, e1, pure, Except.pure]
  have hun : b1.namer.unlocScaffolds = [] := by rw [n1]; rfl
  refine ⟨_, rfl, ?_, f1, ?_, ?_, ?_⟩
  · simp only [hun, renameBySize_nil]; exact s1
  · show NamerPlain b1.namer
    rw [n1]; exact namedPlain_plain hplain _
  · show b1.namer.autosomePrefix = _
    rw [n1]; rfl
  · exact r1

theorem expectedStore_eq_map (input ptx : List Scaffold) :
    expectedStore input ptx = (allPieces ptx).map (fun x => pieceRes input x.1 x.2) := by
  unfold expectedStore allPieces
  rw [List.map_flatMap]
  simp [List.map_map, Function.comp_def]

theorem allPieces_cons (S : Scaffold) (r : List Scaffold) :
    allPieces (S :: r) = S.fragments.map (fun p => (S, p)) ++ allPieces r := by
  simp [allPieces]

theorem findAssemblyOverlaps_deep (input ptx : List Scaffold) (b : Build)
    (hlen : ∀ sc ∈ input, ∀ r ∈ sc.rows, 0 ≤ r.length) (hS : ∀ S ∈ ptx, ScaffoldKeep input b.err S)
    (hplain : NamerPlain b.namer) :
    ∃ b', findAssemblyOverlaps input ptx b = .ok b' ∧ b'.store = b.store ++ expectedStore input ptx ∧
      (b'.found, b'.multi) = regFrom input ((allPieces ptx).zipIdx b.store.length) (b.found, b.multi) ∧
      NamerPlain b'.namer ∧ b'.namer.autosomePrefix = b.namer.autosomePrefix ∧ SameCfg b b' := by
  rw [findAssemblyOverlaps_eq]
  induction ptx generalizing b with
  | nil => exact ⟨b, rfl, by simp [expectedStore], rfl, hplain, rfl, SameCfg.refl b⟩
  | cons S r ih =>
    obtain ⟨b1, e1, s1, f1, p1, a1, r1⟩ := faoStep_deep input S b hlen (hS S (by simp)) hplain
    obtain ⟨b2, e2, s2, f2, p2, a2, r2⟩ := ih b1 (fun T hT => by rw [r1.2.2.2.1]; exact hS T (by simp [hT])) p1
    refine ⟨b2, ?_, ?_, ?_, p2, a2.trans a1, r1.trans r2⟩
    · simp only [List.foldlM_cons, e1, bind, Except.bind]; exact e2
    · rw [s2, s1]; simp [expectedStore]
    · rw [f2, f1, s1, allPieces_cons, List.zipIdx_append]
      simp [regFrom, List.foldl_append]

end AgpTpf.C02
