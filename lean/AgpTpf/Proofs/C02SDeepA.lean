/-
  C02 (script model), part 11: scripts whose cuts fall between contigs OR deep inside contigs — the per-piece facts
  (`PieceKeep`, `DeepBase` of `Proofs/C02DHyp.lean`).
-/
import AgpTpf.Proofs.C02SAligned
import AgpTpf.Proofs.C02DNHyp
namespace AgpTpf.C02
open AgpTpf AgpTpf.Pretext
open AgpTpf.C12 (rowSpan meets meets_iff)

/-! ### the ends of a lookup result -/

/-- everything about the lookup result of `[bait.start, bait.stop]` in terms of its first and last meeting rows -/
theorem lookup_ends {rows : List Row} {bait : Fragment} {o : OverlapResult} (hlen : ∀ r ∈ rows, 0 ≤ r.length)
    (h : findOverlaps rows bait = .ok (some o)) :
    ∃ i j fi fj, i ≤ j ∧ rows[i]? = some (.frag fi) ∧ rows[j]? = some (.frag fj) ∧
      meets rows bait.start bait.stop i = true ∧ meets rows bait.start bait.stop j = true ∧
      (∀ k, meets rows bait.start bait.stop k = true → i ≤ k ∧ k ≤ j) ∧
      o.bait = bait ∧ o.start = (rowSpan rows i).1 ∧ o.stop = (rowSpan rows j).2 ∧
      (∃ t, o.rows = .frag fi :: t) ∧ (∃ t, o.rows = t ++ [.frag fj]) ∧ o.rows.length = j + 1 - i := by
  obtain ⟨i, j, hi, hj, hall, hb, hs, he, hrows⟩ := lookup_some hlen h
  obtain ⟨fi, hfi, -, -⟩ := (meets_iff _ _ _ _).1 hi
  obtain ⟨fj, hfj, -, -⟩ := (meets_iff _ _ _ _).1 hj
  have hij : i ≤ j := (hall i hi).2
  have hjl : j < rows.length := by
    by_cases hk : j < rows.length
    · exact hk
    · rw [List.getElem?_eq_none (by omega)] at hfj; cases hfj
  have hlen' : o.rows.length = j + 1 - i := by
    rw [hrows]; simp only [List.length_take, List.length_drop]; omega
  refine ⟨i, j, fi, fj, hij, hfi, hfj, hi, hj, hall, hb, hs, he, ?_, ?_, hlen'⟩
  · have h0 : o.rows[0]? = some (.frag fi) := by
      rw [hrows, C12.slice_getElem?, if_pos (by omega)]; simpa using hfi
    cases ho : o.rows with
    | nil => rw [ho] at h0; cases h0
    | cons a t =>
      rw [ho] at h0
      simp only [List.getElem?_cons_zero, Option.some.injEq] at h0
      exact ⟨t, by rw [h0]⟩
  · have h1 : o.rows[j - i]? = some (.frag fj) := by
      rw [hrows, C12.slice_getElem?, if_pos (by omega)]
      have : i + (j - i) = j := by omega
      rw [this]; exact hfj
    rcases C18.list_nil_or_concat o.rows with e | ⟨t, x, e⟩
    · rw [e] at hlen'; simp at hlen'; omega
    · have hl : t.length = j - i := by
        have := congrArg List.length e
        rw [hlen'] at this
        simp at this; omega
      rw [e, List.getElem?_append_right (by omega)] at h1
      have : j - i - t.length = 0 := by omega
      rw [this] at h1
      simp only [List.getElem?_cons_zero, Option.some.injEq] at h1
      exact ⟨t, by rw [e, h1]⟩

/-- the overlap of the bait with the first row of the result -/
theorem startRowOverlap_eq {o : OverlapResult} {f : Fragment} {t : List Row} (h : o.rows = .frag f :: t) :
    o.startRowBaitOverlap =
      .ok (if min o.bait.stop (o.start + f.length - 1) < max o.bait.start o.start then 0
           else min o.bait.stop (o.start + f.length - 1) - max o.bait.start o.start + 1) := by
  unfold OverlapResult.startRowBaitOverlap
  rw [h, C18.pyGet_zero_cons]
  rfl

/-- the overlap of the bait with the last row of the result -/
theorem endRowOverlap_eq {o : OverlapResult} {f : Fragment} {t : List Row} (h : o.rows = t ++ [.frag f]) :
    o.endRowBaitOverlap =
      .ok (if min o.bait.stop o.stop < max o.bait.start (o.stop - f.length + 1) then 0
           else min o.bait.stop o.stop - max o.bait.start (o.stop - f.length + 1) + 1) := by
  unfold OverlapResult.endRowBaitOverlap
  rw [h, C18.pyGet_neg_one_concat]
  rfl

/-! ### the hypotheses -/

/-- a cut at `c | c + 1` and a contig row spanning `[a, b]`: the contig does not straddle the cut, or the cut is deeper
    than `M` bases inside it on both sides (`M < c − a + 1` bases before the cut, `M < b − c` after it) -/
def CutOk (M : Int) (a b c : Int) : Prop := b ≤ c ∨ c < a ∨ (M < c - a + 1 ∧ M < b - c)

/-- one input scaffold and its cuts: every interior cut is between contigs or deeper than `3·errLen` inside a contig; a
    contig straddling the END of the last piece sticks out by at most `errLen`; every piece touches a contig -/
structure ScafDeep (p q : Nat) (sc : Scaffold) (c : ScafScript) : Prop where
  cuts : ∀ t ∈ c.cuts, ∀ k f, sc.rows[k]? = some (.frag f) →
    CutOk (3 * (errLen p q : Int)) (rowSpan sc.rows k).1 (rowSpan sc.rows k).2 (coord p q t : Int)
  last : ∀ k f, sc.rows[k]? = some (.frag f) → (rowSpan sc.rows k).1 ≤ (coord p q c.T : Int) →
    (rowSpan sc.rows k).2 - (coord p q c.T : Int) ≤ (errLen p q : Int)
  touch : ∀ ab ∈ c.spans p q, ∃ k, meets sc.rows ab.1 ab.2 k = true

def DeepScript (input : List Scaffold) (s : Script) : Prop :=
  ∀ (i : Nat) (sc : Scaffold) (c : ScafScript), input[i]? = some sc → s.scafs[i]? = some c → c.present = true →
    ScafDeep s.p s.q sc c

theorem CleanScript.deep {input : List Scaffold} {s : Script} (h : CleanScript input s) : DeepScript input s := by
  intro i sc c hi hc hp
  obtain ⟨h1, h2, h3⟩ := h i sc c hi hc hp
  refine ⟨?_, h2, h3⟩
  intro t ht k f hk
  rcases h1 t ht k f hk with h | h
  · exact Or.inl h
  · exact Or.inr (Or.inl h)

/-- length of a piece of a scaffold that is cut at least once: at least `errLen` -/
theorem span_long {p q : Nat} (hq : 1 ≤ q) (hpq : q ≤ p) {L : Nat} {c : ScafScript} (hwf : c.wf p q L = true)
    (hp : c.present = true) (hcut : c.cuts ≠ []) {ab : Nat × Nat} (hab : ab ∈ spansFrom p q 0 (c.cuts ++ [c.T])) :
    errLen p q ≤ ab.2 + 1 - ab.1 := by
  have h2 : Steps 2 0 (c.cuts ++ [c.T]) := by
    rcases (wf_present hwf hp).2.2 with e | h
    · exact absurd e hcut
    · exact h
  have hlong := spansFrom_long hq h2 hab
  have hm := mul_floor_le_coord p q 2 hq
  have he := errLen_ge_two p q hq hpq
  have : errLen p q - 1 = p / q := by unfold errLen; omega
  omega

/-! ### one piece -/

/-- the lookup result of a placed piece of such a script has nothing for `trim_large_overhangs` to discard -/
theorem piece_keep {input : List Scaffold} {s : Script} (hw : WfScript input s) (hin : InputBase input)
    (hd : DeepScript input s) {bx : Bool × Placed} (hbx : bx ∈ itemsT s) {pf : Fragment}
    (hpf : pieceFrag input s bx.1 bx.2 = some pf) :
    (lookupPiece input pf).isSome = true ∧ pf.start ≤ pf.stop ∧
      ((pieceO input pf).startOverhang ≤ (errLen s.p s.q : Int) ∨
        ∃ ov, (pieceO input pf).startRowBaitOverlap = .ok ov ∧ (errLen s.p s.q : Int) ≤ ov) ∧
      ((pieceO input pf).endOverhang ≤ (errLen s.p s.q : Int) ∨
        ∃ ov, (pieceO input pf).endRowBaitOverlap = .ok ov ∧ (errLen s.p s.q : Int) ≤ ov) := by
  obtain ⟨pf', sc, c, ab, hpf', hsc, hc, hp, hab, habm, hname, hstart, hstop, -, -⟩ :=
    pieceFrag_some hw bx.1 (mem_itemsT hbx)
  rw [hpf] at hpf'; cases hpf'
  have hmem : sc ∈ input := mem_of_getElem? hsc
  have hlen := hin.lens sc hmem
  have hcs := hd _ sc c hsc hc hp
  have hwf := hw.scaf _ sc c hsc hc
  obtain ⟨k0, hk0⟩ := hcs.touch ab habm
  have hk0' : meets sc.rows pf.start pf.stop k0 = true := by rw [hstart, hstop]; exact hk0
  obtain ⟨hfound, hfo⟩ := lookupPiece_of_meets hin.names hmem hname hlen k0 hk0'
  obtain ⟨i, j, fi, fj, hij, hfi, hfj, hi, hj, -, hb, hs, he, ⟨ti, hri⟩, ⟨tj, hrj⟩, -⟩ := lookup_ends hlen hfo
  rw [hstart, hstop] at hi hj
  obtain ⟨_, _, hi1, hi2⟩ := (meets_iff _ _ _ _).1 hi
  obtain ⟨_, _, hj1, hj2⟩ := (meets_iff _ _ _ _).1 hj
  rw [spans_present hp] at habm
  have hbd := spansFrom_bounds hw.hq hw.hpq (wf_inc hwf hp) habm
  obtain ⟨hA, hB⟩ := mem_spansFrom habm
  have he2 := errLen_ge_two s.p s.q hw.hq hw.hpq
  have hli := rowSpan_len sc.rows i _ hfi
  have hlj := rowSpan_len sc.rows j _ hfj
  simp only [Row.length] at hli hlj
  refine ⟨hfound, by rw [hstart, hstop]; omega, ?_, ?_⟩
  · -- start
    rcases hA with e | ⟨t, ht, e⟩
    · left
      unfold OverlapResult.startOverhang
      rw [hb, hs, hstart]
      have := rowSpan_fst_pos sc.rows hlen i
      rw [coord_zero] at e
      omega
    · have hlong := span_long hw.hq hw.hpq hwf hp (List.ne_nil_of_mem ht) habm
      rcases hcs.cuts t ht i fi hfi with h | h | ⟨h1, h2⟩
      · omega
      · left
        unfold OverlapResult.startOverhang
        rw [hb, hs, hstart]; omega
      · right
        rw [startRowOverlap_eq hri, hb, hs, hstart, hstop]
        refine ⟨_, rfl, ?_⟩
        split <;> omega
  · -- end
    rcases hB with e | ⟨t, ht, e⟩
    · left
      unfold OverlapResult.endOverhang
      rw [hb, he, hstop]
      have := hcs.last j fj hfj (by omega)
      omega
    · have hlong := span_long hw.hq hw.hpq hwf hp (List.ne_nil_of_mem ht) habm
      rcases hcs.cuts t ht j fj hfj with h | h | ⟨h1, h2⟩
      · left
        unfold OverlapResult.endOverhang
        rw [hb, he, hstop]; omega
      · omega
      · right
        rw [endRowOverlap_eq hrj, hb, he, hstart, hstop]
        refine ⟨_, rfl, ?_⟩
        split <;> omega

/-! ### `DeepBase` -/

/-- **the base clauses of `DeepCut` / `DeepCutN`** for the map of an unpainted script whose cuts are clean or deep -/
theorem script_deepBase {input : List Scaffold} {s : Script} (hw : WfScript input s) (hin : InputOk input)
    (hoid : ∀ sc ∈ input, (C18.ids sc.rows).Nodup) (hd : DeepScript input s) (hh : HeadsOk input s)
    (ht : TailOk input s) (hup : ∀ g ∈ s.groups, g.painted = false) :
    DeepBase input (ptxOf input s) (errLen s.p s.q : Int) := by
  have he2 := errLen_ge_two s.p s.q hw.hq hw.hpq
  refine ⟨hin.names, hin.lens, hoid, by omega, ?_, unclaimed_ok hw hin ht⟩
  intro S hS
  obtain ⟨g, n, hg, hname, hrows, hfr⟩ := mem_ptxOf hS
  have hgm : g ∈ s.groups := mem_of_getElem? hg
  obtain ⟨x, r, hitems⟩ : ∃ x r, g.items = x :: r := by
    cases hi : g.items with
    | nil => exact absurd hi (hw.groupsNe g hgm)
    | cons x r => exact ⟨x, r, rfl⟩
  have hxp : x ∈ s.placed := by
    unfold Script.placed
    exact List.mem_flatMap.2 ⟨g, hgm, by rw [hitems]; simp⟩
  obtain ⟨pf, sc, c, ab, hpf, hsc, -, -, -, -, hpn, -⟩ := pieceFrag_some hw g.painted hxp
  have hgf : groupFrags input s g = pf :: r.filterMap (pieceFrag input s g.painted) := by
    unfold groupFrags
    rw [hitems, List.filterMap_cons, hpf]
  obtain ⟨t, htt⟩ := joinRows_cons s.gap pf (r.filterMap (pieceFrag input s g.painted))
  have hrows' : S.rows = .frag pf :: t := by rw [hrows, hgf, htt]
  refine ⟨⟨pf, t, hrows'⟩, ?_, ?_⟩
  · intro p hp
    rw [hfr] at hp
    unfold groupFrags at hp
    obtain ⟨y, hy, hyp⟩ := List.mem_filterMap.1 hp
    have hbx : (g.painted, y) ∈ itemsT s := by
      unfold itemsT
      exact List.mem_flatMap.2 ⟨g, hgm, List.mem_map_of_mem hy⟩
    obtain ⟨h1, h2, h3, h4⟩ := piece_keep hw hin.toInputBase hd hbx hyp
    obtain ⟨sc', c', ab', _, _, _, rfl⟩ := pieceFrag_eq_some hyp
    refine ⟨h1, ?_, h2, h3, h4⟩
    show (if g.painted = true then [sPainted] else []) = []
    rw [hup g hgm]; rfl
  · have : outName S = pf.name := by unfold outName; rw [hrows']
    rw [this, hpn]
    exact hh g hgm x (by rw [hitems]; rfl) sc hsc

end AgpTpf.C02
