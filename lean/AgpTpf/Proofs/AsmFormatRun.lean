/- asm-format glue: `process_fh` and the file loop of `cli` taken apart -/
import AgpTpf.Proofs.AsmFormatParse
import AgpTpf.Proofs.C05MapM
import AgpTpf.Proofs.C06Cols
namespace AgpTpf.AsmFormat
open AgpTpf AgpTpf.C05 AgpTpf.C06

/-! ### the writers do not look at the assembly name -/

theorem formatAgp_name (a : Assembly) (n : Str) : formatAgp { a with name := n } = formatAgp a := rfl
theorem formatTpf_name (a : Assembly) (n : Str) : formatTpf { a with name := n } = formatTpf a := rfl

/-! ### `parseFh` -/

theorem parseFh_ok {inFmt : Fmt} {n : Str} {lines : List Str} {asm : Assembly} (h : parseFh inFmt n lines = .ok asm) :
    ∃ a, ((inFmt = .AGP ∧ parseAgp lines = .ok a) ∨ (inFmt = .TPF ∧ parseTpf lines = .ok a)) ∧
      asm = { a with name := n } := by
  unfold parseFh at h
  cases inFmt with
  | AGP =>
    simp only [bind, Except.bind] at h
    cases hp : parseAgp lines with
    | error e => rw [hp] at h; cases h
    | ok a => rw [hp] at h; cases h; exact ⟨a, Or.inl ⟨rfl, rfl⟩, rfl⟩
  | TPF =>
    simp only [bind, Except.bind] at h
    cases hp : parseTpf lines with
    | error e => rw [hp] at h; cases h
    | ok a => rw [hp] at h; cases h; exact ⟨a, Or.inr ⟨rfl, rfl⟩, rfl⟩
  | FASTA => cases h

theorem parseFh_agp (n : Str) (lines : List Str) (a : Assembly) (h : parseAgp lines = .ok a) :
    parseFh .AGP n lines = .ok { a with name := n } := by
  unfold parseFh; simp only [bind, Except.bind, h]; rfl

theorem parseFh_tpf (n : Str) (lines : List Str) (a : Assembly) (h : parseTpf lines = .ok a) :
    parseFh .TPF n lines = .ok { a with name := n } := by
  unfold parseFh; simp only [bind, Except.bind, h]; rfl

/-- PARSER GUARANTEE through `process_fh`'s first step -/
theorem parseFh_rowsParsed {inFmt : Fmt} {n : Str} {lines : List Str} {asm : Assembly}
    (h : parseFh inFmt n lines = .ok asm) : RowsParsed asm.scaffolds := by
  obtain ⟨a, h1 | h1, rfl⟩ := parseFh_ok h
  · exact (parseAgp_rowsParsed h1.2 : RowsParsed a.scaffolds)
  · exact (parseTpf_rowsParsed h1.2 : RowsParsed a.scaffolds)

theorem parseFh_rows {inFmt : Fmt} {n : Str} {lines : List Str} {asm : Assembly}
    (h : parseFh inFmt n lines = .ok asm) : asmRows asm = (lines.filter isDataLine).length := by
  obtain ⟨a, h1 | h1, rfl⟩ := parseFh_ok h
  · exact (parseAgp_rows h1.2 : asmRows a = _)
  · exact (parseTpf_rows h1.2 : asmRows a = _)

/-! ### `process_fh` -/

theorem processFh_ok_iff (inFmt : Fmt) (n : Str) (lines : List Str) (outFmt : Option OutFmt) (qc : Bool)
    (text : Str) (pairs : List OvPair) :
    processFh inFmt n lines outFmt qc = .ok (text, pairs) ↔
      ∃ asm, parseFh inFmt n lines = .ok asm ∧ pairs = (if qc then findOverlappingFragments asm else []) ∧
        writeFh asm outFmt = .ok text := by
  unfold processFh
  simp only [bind, Except.bind]
  cases hp : parseFh inFmt n lines with
  | error e => simp
  | ok asm =>
    simp only
    cases hw : writeFh asm outFmt with
    | error e =>
      simp only [Except.ok.injEq, reduceCtorEq, false_iff, not_exists, not_and]
      intro asm' e1 _ h; cases e1; rw [hw] at h; cases h
    | ok t =>
      simp only [pure, Except.pure, Except.ok.injEq, Prod.mk.injEq]
      constructor
      · rintro ⟨rfl, rfl⟩; exact ⟨asm, rfl, rfl, hw⟩
      · rintro ⟨asm', e, rfl, h⟩; cases e; rw [hw] at h; cases h; exact ⟨rfl, rfl⟩

/-- the report option has no influence on success and on the text -/
theorem processFh_qc_irrelevant (inFmt : Fmt) (n : Str) (lines : List Str) (outFmt : Option OutFmt) (qc qc' : Bool) :
    (processFh inFmt n lines outFmt qc).map (·.1) = (processFh inFmt n lines outFmt qc').map (·.1) := by
  unfold processFh
  simp only [bind, Except.bind]
  cases parseFh inFmt n lines with
  | error e => rfl
  | ok asm =>
    simp only
    cases writeFh asm outFmt <;> rfl

/-! ### after a successful parse the AGP and TPF writers cannot raise -/

theorem formatAgp_ok_of_rowsParsed (a : Assembly) (h : RowsParsed a.scaffolds) : ∃ ls, formatAgp a = .ok ls := by
  have := mapM_ok_of_forall (fun s : Scaffold => formatAgpRows s.name 0 0 s.rows) (fun _ _ => True) a.scaffolds
    (by
      intro s hs
      obtain ⟨colss, hc, _⟩ := agpCols_valid false s.name 0 0 s.rows (fun r hr => (h s hs r hr).strandOk.writable)
        (fun hf => Bool.noConfusion hf)
      exact ⟨colss.map lineOfCols, by rw [formatAgpRows_eq, hc]; rfl, trivial⟩)
  obtain ⟨ls, hls, _⟩ := this
  exact ⟨_, by unfold formatAgp; rw [hls]; rfl⟩

theorem formatTpfRow_ok_of_rowParsed (name : Str) (r : Row) (h : RowParsed r) : ∃ l, formatTpfRow name r = .ok l := by
  cases r with
  | gap g => exact ⟨_, rfl⟩
  | frag f =>
    obtain ⟨hs, _⟩ := h
    rcases hs with hs | hs | hs <;> (simp only [formatTpfRow, hs]; exact ⟨_, rfl⟩)

theorem formatTpf_ok_of_rowsParsed (a : Assembly) (h : RowsParsed a.scaffolds) : ∃ ls, formatTpf a = .ok ls := by
  have := mapM_ok_of_forall (fun s : Scaffold => s.rows.mapM (formatTpfRow s.name)) (fun _ _ => True) a.scaffolds
    (by
      intro s hs
      obtain ⟨ys, hys, _⟩ := mapM_ok_of_forall (formatTpfRow s.name) (fun _ _ => True) s.rows
        (fun r hr => by obtain ⟨l, hl⟩ := formatTpfRow_ok_of_rowParsed s.name r (h s hs r hr); exact ⟨l, hl, trivial⟩)
      exact ⟨ys, hys, trivial⟩)
  obtain ⟨ls, hls, _⟩ := this
  exact ⟨_, by unfold formatTpf; rw [hls]; rfl⟩

/-- once the input has been parsed, writing can only fail on an unknown output format -/
theorem writeFh_parsed_ok {inFmt : Fmt} {n : Str} {lines : List Str} {asm : Assembly}
    (h : parseFh inFmt n lines = .ok asm) (outFmt : OutFmt) : ∃ text, writeFh asm (some outFmt) = .ok text := by
  have hp := parseFh_rowsParsed h
  cases outFmt with
  | AGP => obtain ⟨ls, hls⟩ := formatAgp_ok_of_rowsParsed asm hp; exact ⟨_, by simp only [writeFh, hls]; rfl⟩
  | TPF => obtain ⟨ls, hls⟩ := formatTpf_ok_of_rowsParsed asm hp; exact ⟨_, by simp only [writeFh, hls]; rfl⟩
  | STR => exact ⟨_, rfl⟩
  | REPR => exact ⟨_, rfl⟩

/-! ### number of lines written -/

theorem flatten_length_of_forall2 {α β} (l : List α) (ys : List (List β)) (len : α → Nat)
    (h : Forall2 (fun x y => y.length = len x) l ys) : ys.flatten.length = (l.map len).sum := by
  induction l generalizing ys with
  | nil => cases ys with | nil => rfl | cons _ _ => exact h.elim
  | cons x xs ih =>
    cases ys with
    | nil => exact h.elim
    | cons y t => simp [h.1, ih t h.2]

theorem formatAgpRows_length (name : Str) (p i : Int) (rows : List Row) (ls : List Str)
    (h : formatAgpRows name p i rows = .ok ls) : ls.length = rows.length := by
  induction rows generalizing p i ls with
  | nil => simp only [formatAgpRows] at h; cases h; rfl
  | cons row rest ih =>
    rw [formatAgpRows_eq] at h
    cases hc : agpCols name p i (row :: rest) with
    | error e => rw [hc] at h; cases h
    | ok colss =>
      rw [hc] at h; cases h
      have hw := (agpCols_ok_iff_strands name p i (row :: rest)).1 ⟨colss, hc⟩
      obtain ⟨colss', hc', hlen, _⟩ := agpCols_valid false name p i (row :: rest) hw (fun hf => Bool.noConfusion hf)
      rw [hc] at hc'; cases hc'
      simp [hlen]

theorem mapM_length {α β} (f : α → R β) (l : List α) (ys : List β) (h : l.mapM f = .ok ys) : ys.length = l.length :=
  (((mapM_ok_iff f l ys).1 h).length_eq).symm

/-- `format_agp` writes one line per header line and one per row -/
theorem formatAgp_length (a : Assembly) (ls : List Str) (h : formatAgp a = .ok ls) :
    ls.length = a.header.length + asmRows a := by
  unfold formatAgp at h
  simp only [bind, Except.bind] at h
  cases hm : a.scaffolds.mapM (fun s => formatAgpRows s.name 0 0 s.rows) with
  | error e => rw [hm] at h; cases h
  | ok body =>
    rw [hm] at h
    simp only [pure, Except.pure, Except.ok.injEq] at h
    subst h
    have hf := (mapM_ok_iff _ _ _).1 hm
    have := flatten_length_of_forall2 a.scaffolds body (fun s => s.rows.length)
      (hf.imp (fun s y hy => formatAgpRows_length s.name 0 0 s.rows y hy))
    simp [this, asmRows]

/-- `format_tpf` writes one line per header line and one per row -/
theorem formatTpf_length (a : Assembly) (ls : List Str) (h : formatTpf a = .ok ls) :
    ls.length = a.header.length + asmRows a := by
  unfold formatTpf at h
  simp only [bind, Except.bind] at h
  cases hm : a.scaffolds.mapM (fun s => s.rows.mapM (formatTpfRow s.name)) with
  | error e => rw [hm] at h; cases h
  | ok body =>
    rw [hm] at h
    simp only [pure, Except.pure, Except.ok.injEq] at h
    subst h
    have hf := (mapM_ok_iff _ _ _).1 hm
    have := flatten_length_of_forall2 a.scaffolds body (fun s => s.rows.length)
      (hf.imp (fun s y hy => mapM_length _ _ _ hy))
    simp [this, asmRows]

/-! ### the file loop -/

/-- the arguments `cli` hands to `process_fh` for one input file -/
def fileInFmt (o : AsmFormatOpts) (f : Str × List Str) : Fmt := inFmtSel o.inputFormat (some f.1)
def fileAsmName (o : AsmFormatOpts) (f : Str × List Str) : Str := asmNameOf o.name f.1
/-- the lines read from the file: none if it is the (already truncated) output file -/
def fileLinesRead (o : AsmFormatOpts) (f : Str × List Str) : List Str := if o.outputFile = some f.1 then [] else f.2
def processFile (o : AsmFormatOpts) (outFmt : Option OutFmt) (f : Str × List Str) : R (Str × List OvPair) :=
  processFh (fileInFmt o f) (fileAsmName o f) (fileLinesRead o f) outFmt o.qcOverlaps

theorem asmFormatLoop_cons (o : AsmFormatOpts) (outFmt : Option OutFmt) (f : Str × List Str)
    (rest : List (Str × List Str)) (acc : AsmFormatResult) :
    asmFormatLoop o outFmt (f :: rest) acc =
      match processFile o outFmt f with
      | .ok (text, pairs) =>
        asmFormatLoop o outFmt rest ({ acc with written := acc.written ++ text }.addReport (fileAsmName o f) pairs)
      | .error _ =>
        { (acc.addReport (fileAsmName o f)
            (reportBeforeFailure (fileInFmt o f) (fileAsmName o f) (fileLinesRead o f) o.qcOverlaps)) with
          error := some .value } := by
  cases f; rfl

theorem addReport_written (r : AsmFormatResult) (n : Str) (p : List OvPair) : (r.addReport n p).written = r.written := by
  unfold AsmFormatResult.addReport; split <;> rfl
theorem addReport_error (r : AsmFormatResult) (n : Str) (p : List OvPair) : (r.addReport n p).error = r.error := by
  unfold AsmFormatResult.addReport; split <;> rfl
theorem addReport_reports (r : AsmFormatResult) (n : Str) (p : List OvPair) :
    (r.addReport n p).reports = r.reports ++ (if p.isEmpty then [] else [(n, p)]) := by
  unfold AsmFormatResult.addReport; split <;> simp

/-- what the loop leaves behind: the texts of the files up to the first failing one, concatenated behind what was
    there; either all files succeeded (error state unchanged) or file number `k` raised and the run ends with
    `ValueError`. -/
theorem asmFormatLoop_spec (o : AsmFormatOpts) (outFmt : Option OutFmt) (files : List (Str × List Str))
    (acc : AsmFormatResult) :
    ∃ (k : Nat) (outs : List (Str × List OvPair)),
      Forall2 (fun f out => processFile o outFmt f = .ok out) (files.take k) outs ∧
      (asmFormatLoop o outFmt files acc).written = acc.written ++ (outs.map (·.1)).flatten ∧
      (asmFormatLoop o outFmt files acc).reports.take acc.reports.length = acc.reports ∧
      ((k = files.length ∧ (asmFormatLoop o outFmt files acc).error = acc.error ∧
          (asmFormatLoop o outFmt files acc).reports =
            acc.reports ++ ((files.zip outs).flatMap (fun fo => if fo.2.2.isEmpty then [] else [(fileAsmName o fo.1, fo.2.2)]))) ∨
       (∃ f e, files[k]? = some f ∧ processFile o outFmt f = .error e ∧
          (asmFormatLoop o outFmt files acc).error = some .value)) := by
  induction files generalizing acc with
  | nil => exact ⟨0, [], trivial, by simp [asmFormatLoop], by simp [asmFormatLoop], Or.inl ⟨rfl, rfl, by simp [asmFormatLoop]⟩⟩
  | cons f rest ih =>
    rw [asmFormatLoop_cons]
    cases hp : processFile o outFmt f with
    | error e =>
      refine ⟨0, [], trivial, by simp [addReport_written], ?_, Or.inr ⟨f, e, rfl, hp, rfl⟩⟩
      simp [addReport_reports]
    | ok out =>
      obtain ⟨text, pairs⟩ := out
      simp only
      obtain ⟨k, outs, h1, h2, h3, h4⟩ :=
        ih ({ acc with written := acc.written ++ text }.addReport (fileAsmName o f) pairs)
      refine ⟨k + 1, (text, pairs) :: outs, ⟨hp, h1⟩, ?_, ?_, ?_⟩
      · rw [h2, addReport_written]; simp
      · have := congrArg (List.take acc.reports.length) h3
        rw [List.take_take, addReport_reports] at this
        simp only [List.length_append] at this
        rw [Nat.min_eq_left (by omega)] at this
        rw [this]; simp
      · rcases h4 with ⟨hk, he, hr⟩ | ⟨g, e, hg, hge, he⟩
        · refine Or.inl ⟨by simp [hk], by rw [he, addReport_error], ?_⟩
          rw [hr, addReport_reports]; simp
        · exact Or.inr ⟨g, e, by simpa using hg, hge, he⟩

/-- all files succeed ⇒ everything is written, nothing raised -/
theorem asmFormatLoop_all_ok (o : AsmFormatOpts) (outFmt : Option OutFmt) (files : List (Str × List Str))
    (outs : List (Str × List OvPair)) (h : Forall2 (fun f out => processFile o outFmt f = .ok out) files outs)
    (acc : AsmFormatResult) :
    (asmFormatLoop o outFmt files acc).written = acc.written ++ (outs.map (·.1)).flatten ∧
    (asmFormatLoop o outFmt files acc).error = acc.error := by
  induction files generalizing acc outs with
  | nil => cases outs with | nil => simp [asmFormatLoop] | cons _ _ => exact h.elim
  | cons f rest ih =>
    cases outs with
    | nil => exact h.elim
    | cons out t =>
      obtain ⟨text, pairs⟩ := out
      rw [asmFormatLoop_cons, h.1]
      simp only
      obtain ⟨e1, e2⟩ := ih t h.2 ({ acc with written := acc.written ++ text }.addReport (fileAsmName o f) pairs)
      rw [e1, e2, addReport_written, addReport_error]
      simp

theorem asmFormat_files (o : AsmFormatOpts) (f : Str × List Str) (rest : List (Str × List Str)) (stdin : List Str) :
    asmFormat o (f :: rest) stdin = asmFormatLoop o (outFmtSel o.format o.outputFile) (f :: rest) {} := rfl

/-- the STDIN arguments -/
def stdinInFmt (o : AsmFormatOpts) : Fmt := match o.inputFormat with | some f => f | none => .AGP
def stdinAsmName (o : AsmFormatOpts) : Str := if truthy o.name then o.name.getD [] else "stdin".toList

theorem asmFormat_stdin (o : AsmFormatOpts) (stdin : List Str) :
    asmFormat o [] stdin =
      match processFh (stdinInFmt o) (stdinAsmName o) stdin (outFmtSel o.format o.outputFile) o.qcOverlaps with
      | .ok (text, pairs) => ({ written := text } : AsmFormatResult).addReport (stdinAsmName o) pairs
      | .error e =>
        { (({} : AsmFormatResult).addReport (stdinAsmName o)
            (reportBeforeFailure (stdinInFmt o) (stdinAsmName o) stdin o.qcOverlaps)) with error := some e } := rfl

end AgpTpf.AsmFormat
