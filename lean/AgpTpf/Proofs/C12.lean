/-
  Helper lemmas for C12 (overlap lookup = brute-force scan).
  Nothing here mentions the brute-force specification; it characterises the model functions of
  `Model/Lookup.lean` (`buildIndex`, `bsearch`, `extendLeft`, `extendRight`, `skipGapsRight`, `skipGapsLeft`,
  `findOverlaps`) in terms of prefix sums of row lengths.
-/
import AgpTpf.Model.Lookup
namespace AgpTpf.C12
open AgpTpf

/-! ### prefix sums -/

/-- total length of the first `k` rows -/
def pre (rows : List Row) (k : Nat) : Int := rowsLength (rows.take k)

/-- row `k` exists and is a fragment -/
def fragAt (rows : List Row) (k : Nat) : Bool :=
  match rows[k]? with
  | some (.frag _) => true
  | _ => false

theorem sumInts_append (a b : List Int) : sumInts (a ++ b) = sumInts a + sumInts b := by
  induction a with
  | nil => simp [sumInts]
  | cons x xs ih => simp [sumInts, ih]; omega

theorem rowsLength_append (a b : List Row) : rowsLength (a ++ b) = rowsLength a + rowsLength b := by
  simp [rowsLength, sumInts_append]

theorem pre_zero (rows : List Row) : pre rows 0 = 0 := by simp [pre, rowsLength, sumInts]

theorem pre_succ (rows : List Row) (k : Nat) (h : k < rows.length) :
    pre rows (k + 1) = pre rows k + rows[k].length := by
  unfold pre
  rw [List.take_succ_eq_append_getElem h, rowsLength_append]
  simp [rowsLength, sumInts]

theorem pre_succ_ge (rows : List Row) (k : Nat) (h : rows.length ≤ k) :
    pre rows (k + 1) = pre rows k := by
  unfold pre
  rw [List.take_of_length_le h, List.take_of_length_le (by omega)]

theorem pre_mono_succ (rows : List Row) (hlen : ∀ r ∈ rows, 0 ≤ r.length) (k : Nat) :
    pre rows k ≤ pre rows (k + 1) := by
  by_cases h : k < rows.length
  · rw [pre_succ rows k h]
    have := hlen rows[k] (List.getElem_mem h)
    omega
  · rw [pre_succ_ge rows k (by omega)]; omega

theorem pre_mono (rows : List Row) (hlen : ∀ r ∈ rows, 0 ≤ r.length) (i j : Nat) (hij : i ≤ j) :
    pre rows i ≤ pre rows j := by
  induction j with
  | zero => have : i = 0 := by omega
            subst this; omega
  | succ j ih =>
    by_cases h : i = j + 1
    · subst h; omega
    · have := ih (by omega)
      have := pre_mono_succ rows hlen j
      omega

theorem cumEnds_length (acc : Int) (rows : List Row) : (cumEnds acc rows).length = rows.length := by
  induction rows generalizing acc with
  | nil => rfl
  | cons r rs ih => simp [cumEnds, ih]

theorem buildIndex_length (rows : List Row) : (buildIndex rows).length = rows.length :=
  cumEnds_length 0 rows

theorem cumEnds_getD (acc : Int) (rows : List Row) (k : Nat) (h : k < rows.length) :
    (cumEnds acc rows).getD k 0 = acc + pre rows (k + 1) := by
  induction rows generalizing acc k with
  | nil => simp at h
  | cons r rs ih =>
    cases k with
    | zero => simp [cumEnds, pre, rowsLength, sumInts]
    | succ k =>
      have h' : k < rs.length := by simpa using h
      have := ih (acc + r.length) k h'
      simp only [cumEnds, List.getD_cons_succ, this]
      simp [pre, rowsLength, sumInts]; omega

theorem idxAt_buildIndex (rows : List Row) (k : Nat) (h : k < rows.length) :
    idxAt (buildIndex rows) k = pre rows (k + 1) := by
  unfold idxAt buildIndex
  rw [cumEnds_getD 0 rows k h]; omega

theorem rowStart_buildIndex (rows : List Row) (k : Nat) (h : k ≤ rows.length) :
    rowStart (buildIndex rows) k = 1 + pre rows k := by
  unfold rowStart
  by_cases hk : k = 0
  · subst hk; simp [pre_zero]
  · simp only [hk, if_false]
    rw [idxAt_buildIndex rows (k - 1) (by omega)]
    have : k - 1 + 1 = k := by omega
    rw [this]

/-! ### binary search -/

theorem bsearch_some (idx : List Int) (bs be : Int) (a z m : Nat) :
    bsearch idx bs be a z = some m →
      a ≤ m ∧ m < z ∧ ¬ (idxAt idx m < bs) ∧ ¬ (rowStart idx m > be) := by
  fun_induction bsearch idx bs be a z with
  | case1 a z h m' h1 ih =>
      intro h2; obtain ⟨x, y, w⟩ := ih h2
      have hm : m' = a + (z - a) / 2 := rfl
      exact ⟨by omega, y, w⟩
  | case2 a z h m' h1 h2 ih =>
      intro h3; obtain ⟨x, y, w⟩ := ih h3
      have hm : m' = a + (z - a) / 2 := rfl
      exact ⟨x, by omega, w⟩
  | case3 a z h m' h1 h2 =>
      intro h3
      have hm : m' = a + (z - a) / 2 := rfl
      have : m' = m := by simpa using h3
      subst this
      exact ⟨by omega, by omega, h1, h2⟩
  | case4 a z h => intro h2; simp at h2

/-- `none` means no row in the searched window passes the closed-span test (needs monotone ends). -/
theorem bsearch_none (rows : List Row) (hlen : ∀ r ∈ rows, 0 ≤ r.length) (bs be : Int) (a z : Nat)
    (hz : z ≤ rows.length) :
    bsearch (buildIndex rows) bs be a z = none →
      ∀ k, a ≤ k → k < z → pre rows (k + 1) < bs ∨ be < 1 + pre rows k := by
  fun_induction bsearch (buildIndex rows) bs be a z with
  | case1 a z h m' h1 ih =>
      intro h2 k hk1 hk2
      have hmd : m' = a + (z - a) / 2 := rfl
      by_cases hkm : k ≤ m'
      · left
        rw [idxAt_buildIndex rows m' (by omega)] at h1
        have := pre_mono rows hlen (k + 1) (m' + 1) (by omega)
        omega
      · exact ih hz h2 k (by omega) hk2
  | case2 a z h m' h1 h2 ih =>
      intro h3 k hk1 hk2
      have hmd : m' = a + (z - a) / 2 := rfl
      by_cases hkm : k < m'
      · exact ih (by omega) h3 k hk1 hkm
      · right
        rw [rowStart_buildIndex rows m' (by omega)] at h2
        have := pre_mono rows hlen m' k (by omega)
        omega
  | case3 a z h m' h1 h2 => intro h3; simp at h3
  | case4 a z h => intro _ k hk1 hk2; omega

/-! ### extending the hit to the block of rows passing the test -/

theorem extendLeft_spec (idx : List Int) (bs : Int) (k : Nat) :
    extendLeft idx bs k k ≤ k ∧
    (∀ j, extendLeft idx bs k k ≤ j → j < k → ¬ (idxAt idx j < bs)) ∧
    (extendLeft idx bs k k = 0 ∨ idxAt idx (extendLeft idx bs k k - 1) < bs) := by
  induction k with
  | zero => simp [extendLeft]
  | succ k ih =>
    unfold extendLeft
    by_cases h : idxAt idx k < bs
    · simp only [h, if_true]
      refine ⟨by omega, ?_, ?_⟩
      · intro j h1 h2; omega
      · right; simpa using h
    · simp only [h, if_false]
      obtain ⟨h1, h2, h3⟩ := ih
      refine ⟨by omega, ?_, h3⟩
      intro j hj1 hj2
      by_cases hjk : j = k
      · subst hjk; exact h
      · exact h2 j hj1 (by omega)

theorem extendRight_spec (idx : List Int) (be : Int) (fuel cur : Nat) :
    cur ≤ extendRight idx be fuel cur ∧ extendRight idx be fuel cur ≤ cur + fuel ∧
    (∀ j, cur < j → j ≤ extendRight idx be fuel cur → ¬ (rowStart idx j > be)) ∧
    (extendRight idx be fuel cur = cur + fuel ∨ rowStart idx (extendRight idx be fuel cur + 1) > be) := by
  induction fuel generalizing cur with
  | zero => simp [extendRight]; intro j h1 h2; omega
  | succ fuel ih =>
    unfold extendRight
    dsimp only
    by_cases h : rowStart idx (cur + 1) > be
    · rw [if_pos h]
      refine ⟨by omega, by omega, ?_, Or.inr h⟩
      intro j h1 h2; omega
    · rw [if_neg h]
      obtain ⟨h1, h2, h3, h4⟩ := ih (cur + 1)
      refine ⟨by omega, by omega, ?_, ?_⟩
      · intro j hj1 hj2
        by_cases hjk : j = cur + 1
        · subst hjk; exact h
        · exact h3 j (by omega) hj2
      · rcases h4 with h4 | h4
        · left; omega
        · right; exact h4

/-! ### stripping gaps -/

theorem pyGet_nat {α} (l : List α) (k : Nat) (h : k < l.length) : pyGet l (k : Int) = .ok l[k] := by
  unfold pyGet
  have h1 : ¬ ((k : Int) < 0) := by omega
  have h2 : ¬ ((k : Int) < 0 ∨ (l.length : Int) ≤ (k : Int)) := by omega
  simp [h1, h]

theorem fragAt_eq (rows : List Row) (k : Nat) (h : k < rows.length) :
    fragAt rows k = !rows[k].isGap := by
  unfold fragAt
  rw [List.getElem?_eq_getElem h]
  cases rows[k] <;> simp [Row.isGap]

theorem fragAt_lt (rows : List Row) (k : Nat) (h : fragAt rows k = true) : k < rows.length := by
  unfold fragAt at h
  by_cases hk : k < rows.length
  · exact hk
  · rw [List.getElem?_eq_none (by omega)] at h; simp at h

theorem skipGapsRight_spec (rows : List Row) (fuel i0 j0 : Nat) (hj : j0 < rows.length)
    (hi : i0 ≤ j0 + 1) (hf : j0 + 1 < fuel + i0) :
    ∃ i' : Nat, skipGapsRight rows fuel (i0 : Int) (j0 : Int) = .ok (i' : Int) ∧ i0 ≤ i' ∧ i' ≤ j0 + 1 ∧
      (∀ k, i0 ≤ k → k < i' → fragAt rows k = false) ∧ (i' ≤ j0 → fragAt rows i' = true) := by
  induction fuel generalizing i0 with
  | zero => omega
  | succ fuel ih =>
    unfold skipGapsRight
    by_cases hle : (i0 : Int) ≤ (j0 : Int)
    · have hle' : i0 ≤ j0 := by omega
      have hlt : i0 < rows.length := by omega
      simp only [hle, if_true, pyGet_nat rows i0 hlt, bind, Except.bind]
      by_cases hg : rows[i0].isGap = true
      · simp only [hg, if_true]
        obtain ⟨i', e, a1, a2, a3, a4⟩ := ih (i0 + 1) (by omega) (by omega)
        refine ⟨i', ?_, by omega, a2, ?_, a4⟩
        · rw [← e]; rfl
        · intro k hk1 hk2
          by_cases hk : k = i0
          · subst hk; rw [fragAt_eq rows k hlt, hg]; rfl
          · exact a3 k (by omega) hk2
      · simp only [hg]
        refine ⟨i0, rfl, by omega, by omega, ?_, ?_⟩
        · intro k h1 h2; omega
        · intro _; rw [fragAt_eq rows i0 hlt]; simpa using hg
    · simp only [hle, if_false]
      refine ⟨i0, rfl, by omega, by omega, ?_, ?_⟩
      · intro k h1 h2; omega
      · intro h; omega

theorem skipGapsLeft_spec (rows : List Row) (fuel i0 : Nat) (j : Int) (hj : j < rows.length)
    (hi : (i0 : Int) ≤ j + 1) (hf : j + 1 < fuel + i0) :
    ∃ j' : Int, skipGapsLeft rows fuel (i0 : Int) j = .ok j' ∧ (i0 : Int) - 1 ≤ j' ∧ j' ≤ j ∧
      (∀ k : Nat, j' < k → (k : Int) ≤ j → fragAt rows k = false) ∧
      ((i0 : Int) ≤ j' → fragAt rows j'.toNat = true) := by
  induction fuel generalizing j with
  | zero => omega
  | succ fuel ih =>
    unfold skipGapsLeft
    by_cases hle : j ≥ (i0 : Int)
    · obtain ⟨jn, rfl⟩ := Int.eq_ofNat_of_zero_le (a := j) (by omega)
      have hlt : jn < rows.length := by omega
      simp only [hle, if_true, pyGet_nat rows jn hlt, bind, Except.bind]
      by_cases hg : rows[jn].isGap = true
      · simp only [hg, if_true]
        obtain ⟨j', e, a1, a2, a3, a4⟩ := ih ((jn : Int) - 1) (by omega) (by omega) (by omega)
        refine ⟨j', e, a1, by omega, ?_, a4⟩
        intro k hk1 hk2
        by_cases hk : k = jn
        · subst hk; rw [fragAt_eq rows k hlt, hg]; rfl
        · exact a3 k hk1 (by omega)
      · simp only [hg]
        refine ⟨jn, rfl, by omega, by omega, ?_, ?_⟩
        · intro k h1 h2; omega
        · intro _; simp only [Int.toNat_natCast]; rw [fragAt_eq rows jn hlt]; simpa using hg
    · simp only [hle, if_false]
      refine ⟨j, rfl, by omega, by omega, ?_, ?_⟩
      · intro k h1 h2; omega
      · intro h; omega

/-! ### the whole lookup -/

/-- closed-span test of row `k` against the query `[a, b]`, in prefix sums -/
def passes (rows : List Row) (a b : Int) (k : Nat) : Prop :=
  1 + pre rows k ≤ b ∧ a ≤ pre rows (k + 1)

/-- What `findOverlaps` computes, without reference to any specification function:
    either nothing (and then no fragment row passes the span test), or the slice between the least and the
    greatest fragment row passing it. -/
theorem findOverlaps_cases (rows : List Row) (bait : Fragment) (hne : rows ≠ [])
    (hlen : ∀ r ∈ rows, 0 ≤ r.length) :
    (findOverlaps rows bait = .ok none ∧
      ∀ k, fragAt rows k = true → ¬ passes rows bait.start bait.stop k) ∨
    (∃ i j : Nat, i ≤ j ∧ j < rows.length ∧
      findOverlaps rows bait = .ok (some
        { bait := bait, start := 1 + pre rows i, stop := pre rows (j + 1),
          rows := (rows.drop i).take (j + 1 - i), name := "matches".toList }) ∧
      fragAt rows i = true ∧ fragAt rows j = true ∧
      passes rows bait.start bait.stop i ∧ passes rows bait.start bait.stop j ∧
      ∀ k, fragAt rows k = true → passes rows bait.start bait.stop k → i ≤ k ∧ k ≤ j) := by
  have hemp : rows.isEmpty = false := by cases rows <;> simp_all
  have hn := buildIndex_length rows
  unfold findOverlaps
  simp only [hemp, Bool.false_eq_true, if_false, hn]
  cases hb : bsearch (buildIndex rows) bait.start bait.stop 0 rows.length with
  | none =>
    left
    refine ⟨rfl, ?_⟩
    intro k hk hp
    have := bsearch_none rows hlen _ _ 0 _ (Nat.le_refl _) hb k (by omega) (fragAt_lt rows k hk)
    unfold passes at hp
    omega
  | some ovr =>
    dsimp only
    obtain ⟨-, hovr, ho1, ho2⟩ := bsearch_some _ _ _ _ _ _ hb
    rw [idxAt_buildIndex rows ovr hovr] at ho1
    rw [rowStart_buildIndex rows ovr (by omega)] at ho2
    -- block boundaries
    obtain ⟨hl1, hl2, hl3⟩ := extendLeft_spec (buildIndex rows) bait.start ovr
    obtain ⟨hr1, hr2, hr3, hr4⟩ :=
      extendRight_spec (buildIndex rows) bait.stop (rows.length - (ovr + 1)) ovr
    generalize extendLeft (buildIndex rows) bait.start ovr ovr = iO at hl1 hl2 hl3 ⊢
    generalize extendRight (buildIndex rows) bait.stop (rows.length - (ovr + 1)) ovr = jO
      at hr1 hr2 hr3 hr4 ⊢
    have hjO : jO < rows.length := by omega
    -- rows left of the block end before the query, rows right of it start after it
    have hleft : ∀ k, k < iO → pre rows (k + 1) < bait.start := by
      intro k hk
      rcases hl3 with h | h
      · omega
      · rw [idxAt_buildIndex rows (iO - 1) (by omega)] at h
        have := pre_mono rows hlen (k + 1) (iO - 1 + 1) (by omega)
        omega
    have hright : ∀ k, jO < k → k < rows.length → bait.stop < 1 + pre rows k := by
      intro k hk hkn
      rcases hr4 with h | h
      · omega
      · by_cases hjl : jO + 1 ≤ rows.length
        · rw [rowStart_buildIndex rows (jO + 1) hjl] at h
          have := pre_mono rows hlen (jO + 1) k (by omega)
          omega
        · omega
    have hblock : ∀ k, iO ≤ k → k ≤ jO → passes rows bait.start bait.stop k := by
      intro k hk1 hk2
      unfold passes
      by_cases hko : k ≤ ovr
      · have e1 := pre_mono rows hlen k ovr hko
        refine ⟨by omega, ?_⟩
        by_cases hke : k = ovr
        · subst hke; omega
        · have := hl2 k hk1 (by omega)
          rw [idxAt_buildIndex rows k (by omega)] at this
          omega
      · have := hr3 k (by omega) hk2
        rw [rowStart_buildIndex rows k (by omega)] at this
        have e1 := pre_mono rows hlen (ovr + 1) (k + 1) (by omega)
        exact ⟨by omega, by omega⟩
    -- gap stripping
    obtain ⟨i', ei, hi1, hi2, hi3, hi4⟩ :=
      skipGapsRight_spec rows (rows.length + 2) iO jO hjO (by omega) (by omega)
    obtain ⟨j', ej, hj1, hj2, hj3, hj4⟩ :=
      skipGapsLeft_spec rows (rows.length + 2) i' (jO : Int) (by omega) (by omega) (by omega)
    simp only [ei, ej, bind, Except.bind]
    by_cases hij : (i' : Int) ≤ j'
    · right
      obtain ⟨jn, rfl⟩ := Int.eq_ofNat_of_zero_le (a := j') (by omega)
      have hjn : jn ≤ jO := by omega
      have hfi : fragAt rows i' = true := hi4 (by omega)
      have hfj : fragAt rows jn = true := by simpa using hj4 hij
      refine ⟨i', jn, by omega, by omega, ?_, hfi, hfj, hblock i' hi1 (by omega),
        hblock jn (by omega) hjn, ?_⟩
      · have hjl : jn < (buildIndex rows).length := by omega
        simp only [hij, not_true, if_false, pyGet_nat (buildIndex rows) jn hjl, pure, Except.pure]
        have est : (if (i' : Int) = 0 then (1 : Int)
            else 1 + idxAt (buildIndex rows) ((i' : Int) - 1).toNat) = 1 + pre rows i' := by
          by_cases h0 : i' = 0
          · subst h0; simp [pre_zero]
          · have : ¬ ((i' : Int) = 0) := by omega
            simp only [this, if_false]
            have e : ((i' : Int) - 1).toNat = i' - 1 := by omega
            rw [e, idxAt_buildIndex rows (i' - 1) (by omega)]
            have : i' - 1 + 1 = i' := by omega
            rw [this]
        have een : (buildIndex rows)[jn] = pre rows (jn + 1) := by
          have := idxAt_buildIndex rows jn (by omega)
          unfold idxAt at this
          rw [← this, List.getD_eq_getElem?_getD, List.getElem?_eq_getElem hjl]; rfl
        have esl : pySlice rows (i' : Int) ((jn : Int) + 1) = (rows.drop i').take (jn + 1 - i') := by
          unfold pySlice
          have e1 : ((jn : Int) + 1).toNat = jn + 1 := by omega
          simp only [Int.toNat_natCast, e1]
        rw [est, een, esl]
      · intro k hk hp
        have hkl := fragAt_lt rows k hk
        unfold passes at hp
        have h1 : iO ≤ k := by
          by_cases h : k < iO
          · have := hleft k h; omega
          · omega
        have h2 : k ≤ jO := by
          by_cases h : jO < k
          · have := hright k h hkl; omega
          · omega
        constructor
        · by_cases h : k < i'
          · have := hi3 k h1 h; simp [hk] at this
          · omega
        · by_cases h : jn < k
          · have := hj3 k (by omega) (by omega); simp [hk] at this
          · omega
    · left
      simp only [hij, not_false_eq_true, if_true]
      refine ⟨rfl, ?_⟩
      intro k hk hp
      have hkl := fragAt_lt rows k hk
      unfold passes at hp
      have h1 : iO ≤ k := by
        by_cases h : k < iO
        · have := hleft k h; omega
        · omega
      have h2 : k ≤ jO := by
        by_cases h : jO < k
        · have := hright k h hkl; omega
        · omega
      -- the block consists of gaps only
      have hi' : i' = jO + 1 := by
        by_cases h : i' ≤ jO
        · have hf := hi4 h
          by_cases h' : j' < (i' : Int)
          · have := hj3 i' h' (by omega)
            simp [hf] at this
          · omega
        · omega
      have := hi3 k h1 (by omega)
      simp [hk] at this

/-! ### first / last element of a filtered index range -/

theorem head?_filter_range (p : Nat → Bool) (n i : Nat) (hi : i < n) (hp : p i = true)
    (hmin : ∀ k, k < n → p k = true → i ≤ k) :
    ((List.range n).filter p).head? = some i := by
  rw [List.head?_filter, List.find?_range_eq_some]
  refine ⟨hp, by simpa using hi, ?_⟩
  intro k hk
  cases h : p k with
  | false => rfl
  | true => have := hmin k (by omega) h; omega

theorem getLast?_filter_range (p : Nat → Bool) (n j : Nat) (hj : j < n) (hp : p j = true)
    (hmax : ∀ k, k < n → p k = true → k ≤ j) :
    ((List.range n).filter p).getLast? = some j := by
  induction n with
  | zero => omega
  | succ n ih =>
    rw [List.range_succ, List.filter_append]
    by_cases hjn : j = n
    · subst hjn
      simp [hp]
    · have hpn : p n = false := by
        cases h : p n with
        | false => rfl
        | true => have := hmax n (by omega) h; omega
      simp only [List.filter_cons, hpn, List.filter_nil, Bool.false_eq_true, if_false, List.append_nil]
      exact ih (by omega) (fun k hk hpk => hmax k (by omega) hpk)

theorem filter_range_eq_nil (p : Nat → Bool) (n : Nat) (h : ∀ k, k < n → p k = false) :
    (List.range n).filter p = [] := by
  rw [List.filter_eq_nil_iff]
  intro a ha
  have := h a (by simpa using ha)
  simp [this]

end AgpTpf.C12
