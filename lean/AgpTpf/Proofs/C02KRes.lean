/-
  C02 core (task W6-C02CORE), helper part 3: what holds of a stored result while the resolver runs (before cutting):
  `Slice` — its rows are an exact, unshortened slice of its input scaffold and `start` is the scaffold coordinate of the
  first row; `MeetsBait` — every fragment row still in it overlaps the bait (scaffold coordinates).  Established by the
  lookup (C12: lookup = brute force), kept by `discard_start` / `discard_end` / `trim_large_overhangs`.
  From these: a terminal row that another result with a DISJOINT bait also holds is not wholly inside the bait
  (`sticks_out_start`, `sticks_out_end`) — the side condition of guard (a) in `GStep`.
-/
import AgpTpf.Proofs.C02KOps
import AgpTpf.Properties.C12
import AgpTpf.Proofs.C01MiddleBase
namespace AgpTpf.C02
open AgpTpf OverlapResult
open AgpTpf.C18 (Inv ids rowsLength_nil rowsLength_cons rowsLength_append rowsLength_singleton)
open AgpTpf.C01 (AllGaps WFInput inputFrags FragDisjoint)

/-! ### uniqueness of a fragment object inside a scaffold / inside the input -/

theorem decomp_unique {src A B A' B' : List Row} {f : Fragment} (hd : (ids src).Nodup)
    (h1 : src = A ++ .frag f :: B) (h2 : src = A' ++ .frag f :: B') : A = A' := by
  have key : ∀ (A B A' B' : List Row), src = A ++ .frag f :: B → src = A' ++ .frag f :: B' → A.length ≤ A'.length → A = A' := by
    intro A B A' B' h1 h2 hle
    have h : A ++ .frag f :: B = A' ++ .frag f :: B' := h1.symm.trans h2
    rcases List.append_eq_append_iff.mp h with ⟨C, hA', hB⟩ | ⟨C, hA, hB'⟩
    · cases C with
      | nil => simpa using hA'.symm
      | cons c C' =>
        exfalso
        simp only [List.cons_append, List.cons.injEq] at hB
        obtain ⟨rfl, hB⟩ := hB
        rw [h1, hB, C18.ids_append, C18.ids_cons_frag, C18.ids_append, C18.ids_cons_frag] at hd
        have := (List.nodup_append.mp hd).2.1
        rw [List.nodup_cons] at this
        exact this.1 (by simp)
    · have : C = [] := by
        have hl := congrArg List.length hA
        simp only [List.length_append] at hl
        exact List.eq_nil_of_length_eq_zero (by omega)
      subst this; simpa using hA
  rcases Nat.le_total A.length A'.length with hle | hle
  · exact key A B A' B' h1 h2 hle
  · exact (key A' B' A B h2 h1 hle).symm

theorem decomp_of_getElem? {α} {l : List α} {k : Nat} {x : α} (h : l[k]? = some x) :
    l = l.take k ++ x :: l.drop (k + 1) := by
  obtain ⟨hk, hx⟩ := List.getElem?_eq_some_iff.mp h
  rw [← hx, List.getElem_cons_drop, List.take_append_drop]

theorem eq_of_mem_flatMap_nodup {α β} (g : α → List β) : ∀ (l : List α), (l.flatMap g).Nodup →
    ∀ a ∈ l, ∀ b ∈ l, ∀ x, x ∈ g a → x ∈ g b → a = b
  | [], _, a, ha, _, _, _, _, _ => by cases ha
  | c :: t, h, a, ha, b, hb, x, xa, xb => by
    rw [List.flatMap_cons, List.nodup_append] at h
    obtain ⟨_, h2, h3⟩ := h
    rcases List.mem_cons.mp ha with rfl | ha' <;> rcases List.mem_cons.mp hb with rfl | hb'
    · rfl
    · exact absurd rfl (h3 x xa x (List.mem_flatMap.mpr ⟨b, hb', xb⟩))
    · exact absurd rfl (h3 x xb x (List.mem_flatMap.mpr ⟨a, ha', xa⟩))
    · exact eq_of_mem_flatMap_nodup g t h2 a ha' b hb' x xa xb

/-- a Fragment object of a well-formed input lies in exactly one input scaffold -/
theorem scaffold_unique {input : List Scaffold} (hwf : WFInput input) {sc sc' : Scaffold} (h1 : sc ∈ input)
    (h2 : sc' ∈ input) {f : Fragment} (hf : Row.frag f ∈ sc.rows) (hf' : Row.frag f ∈ sc'.rows) : sc = sc' := by
  have hnd : ((inputFrags input).map (·.oid)).Nodup := hwf.2.1
  unfold inputFrags at hnd
  rw [List.map_flatMap] at hnd
  exact eq_of_mem_flatMap_nodup _ input hnd sc h1 sc' h2 f.oid
    (List.mem_map_of_mem (f := (·.oid)) (C01.mem_fragmentsOf.mpr hf))
    (List.mem_map_of_mem (f := (·.oid)) (C01.mem_fragmentsOf.mpr hf'))

theorem ids_nodup_of_wf {input : List Scaffold} (hwf : WFInput input) {sc : Scaffold} (hsc : sc ∈ input) :
    (ids sc.rows).Nodup := by
  have hsub : sc.fragments.Sublist (inputFrags input) := by
    unfold inputFrags
    rw [List.flatMap_def]
    exact List.sublist_flatten_of_mem (List.mem_map_of_mem hsc)
  exact (hsub.map (·.oid)).nodup hwf.2.1

/-! ### `Slice` and `MeetsBait` -/

/-- the rows are an exact slice of the source scaffold and `start` is the scaffold coordinate of the first row -/
def Slice (src : List Row) (o : OverlapResult) : Prop :=
  ∃ A B, src = A ++ o.rows ++ B ∧ o.start = 1 + rowsLength A

/-- every fragment row still in the result overlaps the bait, in the coordinates of the source scaffold -/
def MeetsBait (src : List Row) (o : OverlapResult) : Prop :=
  ∀ A f B, src = A ++ .frag f :: B → Row.frag f ∈ o.rows →
    1 + rowsLength A ≤ o.bait.stop ∧ o.bait.start ≤ rowsLength A + f.length

structure RGeo (src : List Row) (o : OverlapResult) : Prop where
  slice : Slice src o
  meets : MeetsBait src o

theorem RGeo.discardStart {src : List Row} {o o' : OverlapResult} (hg : RGeo src o) (h : discardStart o = .ok o') :
    RGeo src o' := by
  obtain ⟨d, G, hrows, _, hst, _, hb⟩ := discardStart_full h
  obtain ⟨A, B, hs, ha⟩ := hg.slice
  refine ⟨⟨A ++ d :: G, B, ?_, ?_⟩, ?_⟩
  · rw [hs, hrows]; simp
  · rw [hst, ha, rowsLength_append, rowsLength_cons]; omega
  · intro A' f B' hs' hm
    rw [hb]
    exact hg.meets A' f B' hs' (by rw [hrows]; simp [hm])

theorem RGeo.discardEnd {src : List Row} {o o' : OverlapResult} (hg : RGeo src o) (h : discardEnd o = .ok o') :
    RGeo src o' := by
  obtain ⟨d, G, hrows, _, _, hst, hb⟩ := discardEnd_full h
  obtain ⟨A, B, hs, ha⟩ := hg.slice
  refine ⟨⟨A, G ++ [d] ++ B, ?_, ?_⟩, ?_⟩
  · rw [hs, hrows]; simp
  · rw [hst, ha]
  · intro A' f B' hs' hm
    rw [hb]
    exact hg.meets A' f B' hs' (by rw [hrows]; simp [hm])

theorem RGeo.trimLarge {src : List Row} {o o' : OverlapResult} {err : Int} (hg : RGeo src o)
    (h : trimLargeOverhangs o err = .ok o') : RGeo src o' := by
  rcases trimLarge_char h with ⟨_, rfl⟩ | ⟨_, o1, h1, h2⟩
  · exact hg
  · have hg1 : RGeo src o1 := by
      rcases h1 with ⟨_, hd⟩ | ⟨_, rfl⟩
      · exact hg.discardStart hd
      · exact hg
    rcases h2 with ⟨_, _, rfl⟩ | ⟨_, h3⟩
    · exact hg1
    · rcases h3 with ⟨_, hd⟩ | ⟨_, rfl⟩
      · exact hg1.discardEnd hd
      · exact hg1

/-- only `rows`, `start`, `bait` are read -/
theorem RGeo.congr {src : List Row} {o o' : OverlapResult} (hg : RGeo src o) (hr : o'.rows = o.rows)
    (hs : o'.start = o.start) (hb : o'.bait = o.bait) : RGeo src o' := by
  obtain ⟨A, B, h1, h2⟩ := hg.slice
  exact ⟨⟨A, B, by rw [hr]; exact h1, by rw [hs]; exact h2⟩,
    fun A' f B' hs' hm => by rw [hb]; exact hg.meets A' f B' hs' (hr ▸ hm)⟩

/-- the fresh lookup result -/
theorem rgeo_lookup {src : List Row} {bait : Fragment} {o : OverlapResult} (hlen : NonNeg src) (hd : (ids src).Nodup)
    (h : findOverlaps src bait = .ok (some o)) : RGeo src o := by
  have hne : src ≠ [] := by
    intro he; subst he; simp [findOverlaps] at h
  constructor
  · obtain ⟨i, j, hij, hj, _, _, hrows, hst, _, _⟩ := C18.findOverlaps_spec h
    refine ⟨src.take i, src.drop (j + 1), ?_, hst⟩
    rw [hrows]
    have h1 : src.drop (j + 1) = ((src.drop i).drop (j + 1 - i)) := by
      rw [List.drop_drop]; congr 1; omega
    rw [h1, List.append_assoc, List.take_append_drop, List.take_append_drop]
  · rw [C12.find_overlaps_spec_strong src bait hne hlen] at h
    have h' : C12.bruteForce src bait = some o := by simpa using h
    obtain ⟨i, j, hi, hj, hall, rfl⟩ := C12.bruteForce_eq_some src bait o h'
    obtain ⟨fi, hfi, hi1, hi2⟩ := (C12.meets_iff _ _ _ _).1 hi
    obtain ⟨fj, hfj, hj1, hj2⟩ := (C12.meets_iff _ _ _ _).1 hj
    intro A f B hs hm
    simp only at hm ⊢
    obtain ⟨t, ht⟩ := List.mem_iff_getElem?.mp hm
    rw [C12.slice_getElem?] at ht
    split at ht
    · next hlt =>
      have hA : A = src.take (i + t) := decomp_unique hd hs (decomp_of_getElem? ht)
      have hk : i + t < src.length := by
        by_cases hk : i + t < src.length
        · exact hk
        · rw [List.getElem?_eq_none (by omega)] at ht; cases ht
      have hk' : src[i + t] = .frag f := by
        obtain ⟨_, hx⟩ := List.getElem?_eq_some_iff.mp ht; exact hx
      have e1 : rowsLength A = C12.pre src (i + t) := by rw [hA]; rfl
      have e2 : C12.pre src (i + t + 1) = C12.pre src (i + t) + f.length := by
        rw [C12.pre_succ src (i + t) hk, hk']; rfl
      have m1 := C12.pre_mono src hlen (i + t) j (by omega)
      have m2 := C12.pre_mono src hlen (i + 1) (i + t + 1) (by omega)
      simp only [C12.rowSpan] at hi1 hi2 hj1 hj2
      have e3 : rowsLength (src.take j) = C12.pre src j := rfl
      have e4 : rowsLength (src.take (i + 1)) = C12.pre src (i + 1) := rfl
      constructor <;> omega
    · cases ht

/-! ### a terminal row shared with a result whose bait is disjoint sticks out of the bait -/

theorem sticks_out_start {src : List Row} {o o2 : OverlapResult} {f : Fragment} {t : List Row}
    (hg : RGeo src o) (hg2 : RGeo src o2) (hname : o.bait.name = o2.bait.name) (hdis : FragDisjoint o.bait o2.bait)
    (hr : o.rows = .frag f :: t) (hm : Row.frag f ∈ o2.rows) :
    o.start < o.bait.start ∨ o.bait.stop < o.start + (Row.frag f).length - 1 := by
  obtain ⟨A, B, hs, ha⟩ := hg.slice
  have hs' : src = A ++ .frag f :: (t ++ B) := by rw [hs, hr]; simp
  obtain ⟨m1, m2⟩ := hg2.meets A f (t ++ B) hs' hm
  have := hdis hname
  simp only [Row.length]
  omega

theorem sticks_out_end {src : List Row} {o o2 : OverlapResult} {f : Fragment} {t : List Row}
    (hI : Inv src o) (hg : RGeo src o) (hg2 : RGeo src o2) (hname : o.bait.name = o2.bait.name)
    (hdis : FragDisjoint o.bait o2.bait) (hr : o.rows = t ++ [.frag f]) (hm : Row.frag f ∈ o2.rows) :
    o.stop - (Row.frag f).length + 1 < o.bait.start ∨ o.bait.stop < o.stop := by
  obtain ⟨A, B, hs, ha⟩ := hg.slice
  have hs' : src = (A ++ t) ++ .frag f :: B := by rw [hs, hr]; simp
  obtain ⟨m1, m2⟩ := hg2.meets (A ++ t) f B hs' hm
  have hsp := hI.span
  rw [hr, rowsLength_append, rowsLength_singleton] at hsp
  rw [rowsLength_append] at m1 m2
  have := hdis hname
  simp only [Row.length] at hsp ⊢
  omega

end AgpTpf.C02
