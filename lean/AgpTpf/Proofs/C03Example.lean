/-
  A small concrete indexed FASTA file and scaffold satisfying the hypotheses of the stream theorems
  (non-vacuity fixtures shared by C03 / C13 / C14).
-/
import AgpTpf.Proofs.C03Stream
namespace AgpTpf.StreamExample
open AgpTpf AgpTpf.StreamProofs AgpTpf.SeqProofs

/-- record `x` = AACCNNGTTAC -/
def exRes : Bytes := [65, 65, 67, 67, 78, 78, 71, 84, 84, 65, 67]
/-- `>x\nAACC\nNNGT\nTAC\n` : the record in lines of 4 -/
def exFile : Bytes := [62, 120, 10, 65, 65, 67, 67, 10, 78, 78, 71, 84, 10, 84, 65, 67, 10]
def exInfo : FastaInfo := { length := 11, fileOffset := 3, rpl := 4, mll := 5 }
def exIdx : List (Str × FastaInfo) := [("x".toList, exInfo)]
def exResOf : Str → Bytes := fun _ => exRes
/-- `x:1-4(+) gap(2) x:6-10(-)` -/
def exScaffold : Scaffold := { name := "s".toList, rows :=
  [.frag { name := "x".toList, start := 1, stop := 4, strand := 1 }, .gap { length := 2, gapType := [] },
   .frag { name := "x".toList, start := 6, stop := 10, strand := -1 }] }

/-- `x:1-4(?) gap(1) x:6-10(+)` : a scaffold with an unknown-strand fragment (finding F9) -/
def exUnknown : Scaffold := { name := "s".toList, rows :=
  [.frag { name := "x".toList, start := 1, stop := 4, strand := 0 }, .gap { length := 1, gapType := [] },
   .frag { name := "x".toList, start := 6, stop := 10, strand := 1 }] }

theorem exLaidOut : LaidOut exFile 3 4 5 exRes := by
  have hb : ∀ L, L < 3 → ∀ c, c < 4 → L * 4 + c < exRes.length → exFile[3 + 5 * L + c]? = exRes[L * 4 + c]? := by
    decide
  intro L c hc h
  exact hb L (by simp only [exRes, List.length_cons, List.length_nil] at h; omega) c hc h

theorem exRecordOK : RecordOK exFile exInfo exRes :=
  ⟨by decide, by decide, by decide, exLaidOut⟩

/-- any fragment of `x` within 1..11 is OK -/
theorem exFragOK (f : Fragment) (hn : f.name = "x".toList) (h1 : 1 ≤ f.start) (h2 : f.start ≤ f.stop) (h3 : f.stop ≤ 11) :
    FragOK exFile exIdx exResOf f :=
  ⟨exInfo, by rw [hn]; rfl, exRecordOK, h1, h2, h3⟩

theorem exRowsOK : ∀ r ∈ exScaffold.rows, RowOK exFile exIdx exResOf r := by
  intro r hr
  simp only [exScaffold, List.mem_cons, List.not_mem_nil, or_false] at hr
  rcases hr with rfl | rfl | rfl
  · exact exFragOK _ rfl (by decide) (by decide) (by decide)
  · trivial
  · exact exFragOK _ rfl (by decide) (by decide) (by decide)

/-- the model indexes this very file to this very index entry (buffer size 3) -/
example : (indexFasta (bLines exFile) 3).toOption.map (·.idx) = some exIdx := by decide +kernel

end AgpTpf.StreamExample
