/-
  T1c helper lemmas for `Properties/C07ImpLeftover.lean`: `BuildAssembly.input_predecessor` / `BuildAssembly.gaps_before_leftover`
  (assembly/build_assembly.py) against the model's `inputPredecessor` / `gapsBeforeLeftover` (Model/Remap.lean).

  (1) `PyRt.sliceRevFrom l (i - 1)` is `(l.take i).reverse`; (2) `pyGet l (-1)` is the head of `l.reverse`;
  (3) the backwards walk: a `PyRt.forIn` whose body prepends Gap rows and returns at the first Fragment row is
      `inputPredecessor.go` (the body is a parameter: only what one pass returns is asked);
  (4) the two conversions between the model's `(Fragment, List Gap)` and the source's row objects;
  (5) `gaps_before_leftover` spelled out for an arbitrary stored `(row, rows)` pair.
  Nothing here mentions a generated term.
-/
import AgpTpf.Model.Remap
import AgpTpf.Model.PyRt
namespace AgpTpf.ImpLeftover
open AgpTpf

/-! ### 1. slices and indexing -/

/-- `l[i-1::-1]` for `i > 0`: the first `i` rows, backwards (all of them when `i` is beyond the end) -/
theorem sliceRevFrom_pred {α : Type} (l : List α) (i : Nat) (h : i ≠ 0) :
    PyRt.sliceRevFrom l ((i : Int) - 1) = (l.take i).reverse := by
  unfold PyRt.sliceRevFrom
  have h1 : ¬ ((i : Int) - 1 < 0) := by omega
  have h2 : ((i : Int) - 1).toNat + 1 = i := by omega
  simp only [h1, if_false, h2]
  rw [← List.take_eq_take_min]

/-- `l[i-1::-1]` for a negative `i`: Python counts from the end, so it is the first `len + i` rows backwards (none if `-i ≥ len`) -/
theorem sliceRevFrom_pred_neg {α : Type} (l : List α) (i : Int) (h : i < 0) :
    PyRt.sliceRevFrom l (i - 1) = (l.take (i + (l.length : Int)).toNat).reverse := by
  unfold PyRt.sliceRevFrom
  have h1 : i - 1 < 0 := by omega
  simp only [h1, if_true]
  by_cases h2 : i - 1 + (l.length : Int) < 0
  · have : (i + (l.length : Int)).toNat = 0 := by omega
    simp [h2, this]
  · have : (i - 1 + (l.length : Int)).toNat + 1 = (i + (l.length : Int)).toNat := by omega
    simp only [h2, if_false, this]
    rw [← List.take_eq_take_min]

/-- `l[-1]` of a non-empty list is the head of the reversed list -/
theorem pyGet_neg_one {α : Type} (l : List α) (x : α) (r : List α) (h : l.reverse = x :: r) : pyGet l (-1) = .ok x := by
  have hl : l = r.reverse ++ [x] := by
    have := congrArg List.reverse h
    simpa using this
  subst hl
  unfold pyGet
  have h1 : ¬ (((-1 : Int) + ((r.reverse ++ [x]).length : Int) < 0) ∨
      ((r.reverse ++ [x]).length : Int) ≤ (-1 : Int) + ((r.reverse ++ [x]).length : Int)) := by
    simp only [List.length_append, List.length_reverse, List.length_cons, List.length_nil]; omega
  have h2 : ((-1 : Int) + ((r.reverse ++ [x]).length : Int)).toNat = r.reverse.length := by
    simp only [List.length_append, List.length_reverse, List.length_cons, List.length_nil]; omega
  simp only [show ((-1 : Int) < 0) from by omega, if_true, h1, if_false, h2]
  simp

/-! ### 2. the conversions between the model's pair and the source's row objects -/

/-- what `input_predecessor` returns: the Fragment as a row object, the gaps as rows -/
def predToRows (p : Fragment × List Gap) : Row × List Row := (Row.frag p.1, p.2.map Row.gap)

/-- a list of Gap rows read back as gaps (`none` if a Fragment row is among them) -/
def gapsOfRows : List Row → Option (List Gap)
  | [] => some []
  | .gap g :: r => (gapsOfRows r).map (g :: ·)
  | .frag _ :: _ => none

/-- the row pair read back (`none` when the first component is not a Fragment row or a non-Gap row is among the second) -/
def predOfRows (q : Row × List Row) : Option (Fragment × List Gap) :=
  match q.1 with
  | .frag f => (gapsOfRows q.2).map (fun gs => (f, gs))
  | .gap _ => none

theorem gapsOfRows_map (gs : List Gap) : gapsOfRows (gs.map Row.gap) = some gs := by
  induction gs with
  | nil => rfl
  | cons g gs ih => simp [gapsOfRows, ih]

theorem map_of_gapsOfRows (rs : List Row) (gs : List Gap) (h : gapsOfRows rs = some gs) : gs.map Row.gap = rs := by
  induction rs generalizing gs with
  | nil => simp [gapsOfRows] at h; subst h; rfl
  | cons a rs ih =>
    cases a with
    | frag f => simp [gapsOfRows] at h
    | gap g =>
      simp only [gapsOfRows, Option.map_eq_some_iff] at h
      obtain ⟨gs', h1, rfl⟩ := h
      simp [ih gs' h1]

/-- `predOfRows` inverts `predToRows` -/
theorem predOfRows_predToRows (p : Fragment × List Gap) : predOfRows (predToRows p) = some p := by
  simp [predOfRows, predToRows, gapsOfRows_map]

/-- `predToRows` is injective (the source object determines the model pair) -/
theorem predToRows_inj (p q : Fragment × List Gap) (h : predToRows p = predToRows q) : p = q := by
  have := congrArg predOfRows h
  simpa [predOfRows_predToRows] using this

/-- anything `predOfRows` accepts is a `predToRows` image -/
theorem predToRows_predOfRows (q : Row × List Row) (p : Fragment × List Gap) (h : predOfRows q = some p) : predToRows p = q := by
  obtain ⟨r, rs⟩ := q
  cases r with
  | gap g => simp [predOfRows] at h
  | frag f =>
    simp only [predOfRows, Option.map_eq_some_iff] at h
    obtain ⟨gs, hgs, rfl⟩ := h
    simp [predToRows, map_of_gapsOfRows rs gs hgs]

/-! ### 3. the backwards walk -/

/-- a loop that prepends Gap rows to `gaps` and returns `(row, gaps)` at the first Fragment row is the model's `go` -/
theorem forIn_walk (body : Row → List Row → R (PyRt.Ctl (List Row) (Option (Row × List Row))))
    (hgap : ∀ g gaps, body (.gap g) gaps = .ok (.next (Row.gap g :: gaps)))
    (hfrag : ∀ f gaps, body (.frag f) gaps = .ok (.ret (some (Row.frag f, gaps))))
    (l : List Row) (acc : List Gap) :
    (∀ p, inputPredecessor.go acc l = some p →
        PyRt.forIn l (acc.map Row.gap) body = .ok (.returned (some (predToRows p)))) ∧
    (inputPredecessor.go acc l = none → ∃ s, PyRt.forIn l (acc.map Row.gap) body = .ok (.fell s)) := by
  induction l generalizing acc with
  | nil =>
    refine ⟨fun p h => ?_, fun _ => ⟨_, rfl⟩⟩
    simp [inputPredecessor.go] at h
  | cons x xs ih =>
    cases x with
    | gap g =>
      have := ih (g :: acc)
      simp only [inputPredecessor.go, PyRt.forIn, hgap]
      simpa using this
    | frag f =>
      simp only [inputPredecessor.go, PyRt.forIn, hfrag]
      refine ⟨fun p h => ?_, fun h => by simp at h⟩
      simp only [Option.some.injEq] at h
      subst h; rfl

/-- the loop followed by `return None`, as one equation -/
theorem forIn_walk_eq (body : Row → List Row → R (PyRt.Ctl (List Row) (Option (Row × List Row))))
    (hgap : ∀ g gaps, body (.gap g) gaps = .ok (.next (Row.gap g :: gaps)))
    (hfrag : ∀ f gaps, body (.frag f) gaps = .ok (.ret (some (Row.frag f, gaps))))
    (l : List Row) :
    (PyRt.forIn l [] body >>= fun lp => match lp with
        | .returned r => (.ok r : R (Option (Row × List Row)))
        | .fell _ => .ok none)
      = .ok ((inputPredecessor.go [] l).map predToRows) := by
  obtain ⟨h1, h2⟩ := forIn_walk body hgap hfrag l []
  cases h : inputPredecessor.go [] l with
  | none =>
    obtain ⟨s, hs⟩ := h2 h
    simp only [List.map_nil] at hs
    rw [hs]; rfl
  | some p =>
    have := h1 p h
    simp only [List.map_nil] at this
    rw [this]; rfl

/-! ### 4. the default gap -/

theorem dflt_eq (jg : Option Gap) :
    (jg.toList).map Row.gap = (match jg with | some g => [Row.gap g] | none => []) := by
  cases jg <;> rfl

/-! ### 5. `gaps_before_leftover` for an arbitrary stored pair -/

/-- `gaps_before_leftover(build_scffld, scffld)` spelled out for whatever `scffld.input_predecessor` holds: `prev` is a row object whose
    `name` / `strand` / `start` / `end` are read only after `isinstance(last, Fragment)` succeeded — AttributeError if it is a Gap —
    and `gaps` are returned as they are -/
def gapsBeforeLeftoverRows (joinGap : Option Gap) (built : List Row) (pred : Option (Row × List Row)) : R (List Row) :=
  if built.isEmpty then .ok []
  else
    match pred, built.reverse with
    | some (prev, gaps), Row.frag last :: _ =>
      match prev with
      | Row.gap _ => .error .attribute
      | Row.frag prev =>
        if last.name = prev.name ∧ last.strand = prev.strand ∧
           (if prev.strand = -1 then last.start else last.stop) = (if prev.strand = -1 then prev.start else prev.stop)
        then .ok gaps else .ok (joinGap.toList.map Row.gap)
    | _, _ => .ok (joinGap.toList.map Row.gap)

/-- on what `input_predecessor` stores it is the model's `gapsBeforeLeftover` -/
theorem gapsBeforeLeftoverRows_predToRows (joinGap : Option Gap) (built : List Row) (pred : Option (Fragment × List Gap)) :
    gapsBeforeLeftoverRows joinGap built (pred.map predToRows) = .ok (gapsBeforeLeftover joinGap built pred) := by
  unfold gapsBeforeLeftoverRows gapsBeforeLeftover
  cases built.isEmpty with
  | true => rfl
  | false =>
    cases pred with
    | none => cases joinGap <;> rfl
    | some p =>
      cases built.reverse with
      | nil => cases joinGap <;> rfl
      | cons x r =>
        cases x with
        | gap g => cases joinGap <;> rfl
        | frag last =>
          cases joinGap <;> exact (apply_ite Except.ok _ _ _).symm

end AgpTpf.ImpLeftover
