/-
  C08 helpers, part 4 (stage N3): `remap_to_input_assembly` on an unedited Pretext map.
-/
import AgpTpf.Proofs.C08Missing
namespace AgpTpf.C08
open AgpTpf

/-- the input scaffold is shown by one of the pieces -/
def isPresent (pieces : List Piece) (sc : Scaffold) : Bool := (pieces.map (·.sc.name)).contains sc.name

/-- the input scaffolds missing from the Pretext map (shorter than a texel), in input order -/
def absentOf (input : List Scaffold) (pieces : List Piece) : List Scaffold :=
  input.filter (fun sc => !isPresent pieces sc)

/-- **the unedited Pretext map**: every Pretext scaffold is one whole, forward, untagged piece `[1, E]` of a different
    input scaffold, reaching into its last contig and ending within the error length of its end; the input has pairwise
    different scaffold names and contig keys; input scaffolds not shown at all are well-formed and untagged. -/
structure Unedited (input : List Scaffold) (pieces : List Piece) (err : Int) : Prop where
  names : (input.map (·.name)).Nodup
  keys : KeysDistinct input
  err0 : 0 ≤ err
  piecesOk : ∀ p ∈ pieces, PieceOk input err p
  once : (pieces.map (·.sc.name)).Nodup
  absent : ∀ sc ∈ input, isPresent pieces sc = false → AbsentOk sc

theorem dupCheck_ok (l : List Scaffold) (seen : List Str) (hnd : (l.map (·.name)).Nodup)
    (hdis : ∀ s ∈ l, s.name ∉ seen) :
    (l.foldlM (fun (seen : List Str) s => if seen.contains s.name then throw Err.value else pure (seen ++ [s.name])) seen
      : R (List Str)) = .ok (seen ++ l.map (·.name)) := by
  induction l generalizing seen with
  | nil => simp [pure, Except.pure]
  | cons a r ih =>
    simp only [List.map_cons, List.nodup_cons] at hnd
    have h1 : seen.contains a.name = false := by
      have := hdis a (by simp)
      simpa using this
    simp only [List.foldlM_cons, h1, Bool.false_eq_true, if_false, pure_bind]
    rw [ih (seen ++ [a.name]) hnd.2]
    · simp
    · intro s hs
      simp only [List.mem_append, List.mem_singleton, not_or]
      refine ⟨hdis s (by simp [hs]), ?_⟩
      intro e
      exact hnd.1 (e ▸ List.mem_map_of_mem hs)

theorem dHas_true_of_mem {ν : Type} (d : List (Key × ν)) (k : Key) (h : k ∈ d.map (·.1)) : dHas d k = true := by
  unfold dHas
  cases hg : dGet? d k with
  | none => exact absurd h ((Dict.dGet?_none_iff d k).1 hg)
  | some v => rfl

theorem dHas_false_of_not_mem {ν : Type} (d : List (Key × ν)) (k : Key) (h : k ∉ d.map (·.1)) : dHas d k = false := by
  unfold dHas
  rw [(Dict.dGet?_none_iff d k).2 h]; rfl

theorem discardOverhanging_nil (fuel : Nat) (b : Build) (h : b.multi = []) : discardOverhanging (fuel + 1) b = .ok b := by
  unfold discardOverhanging
  simp [h]

theorem cutRemaining_nil (b : Build) (h : b.multi = []) : cutRemaining b = .ok { b with multi := [] } := by
  unfold cutRemaining
  simp [h, bind, Except.bind, pure, Except.pure]

/-- scaffold names identify input scaffolds -/
theorem eq_of_name_eq (input : List Scaffold) (hn : (input.map (·.name)).Nodup) (a b : Scaffold)
    (ha : a ∈ input) (hb : b ∈ input) (h : a.name = b.name) : a = b := by
  have h1 := find?_name input a hn ha
  have h2 := find?_name input b hn hb
  rw [h] at h1
  rw [h1] at h2
  exact Option.some.inj h2

theorem isPresent_iff (pieces : List Piece) (sc : Scaffold) :
    isPresent pieces sc = true ↔ ∃ p ∈ pieces, p.sc.name = sc.name := by
  unfold isPresent
  simp

/-- **N3.** `remap_to_input_assembly` on an unedited map returns a build with: one stored result per Pretext scaffold
    holding exactly the rows of its input scaffold, named like the input scaffold, rank 3, no tag, no haplotype;
    nothing shared (`multi = []`), no cuts; the absent input scaffolds as whole left-overs without predecessor. -/
theorem remapToInput_unedited (input : List Scaffold) (pieces : List Piece) (prefix_ : Str) (joinGap : Option Gap)
    (err : Int) (hu : Unedited input pieces err) :
    ∃ b, remapToInput input (pieces.map Piece.ptx) prefix_ joinGap err = .ok b ∧
      b.store = pieces.map Piece.res ∧
      b.extra = (absentOf input pieces).map (fun sc => (absentOut sc, none)) ∧
      b.multi = [] ∧ b.cuts = 0 ∧ b.joinGap = joinGap ∧ b.namer.autosomePrefix = prefix_ := by
  unfold remapToInput
  have hdup := dupCheck_ok input [] hu.names (by simp)
  simp only [bind, Except.bind, hdup]
  generalize (input.flatMap Scaffold.fragments).foldl (fun m f => max m (f.oid + 1)) 0 = oid0
  obtain ⟨b1, e1, hstore, hfound, hmulti, hextra, hcuts, hjg, herr, hplain, hpre⟩ :=
    findAssemblyOverlaps_unedited input pieces
      { namer := { autosomePrefix := prefix_ }, nextOid := oid0, joinGap := joinGap, err := err }
      hu.names hu.keys hu.err0 hu.piecesOk hu.once ⟨rfl, rfl, rfl⟩ (by intro p _ f _; simp)
  simp only [e1]
  have hm1 : b1.multi = [] := hmulti
  simp only [discardOverhanging_nil _ b1 hm1, cutRemaining_nil b1 hm1, hplain.haplotig, renameBySize_nil]
  -- which input scaffolds are registered
  have hkeys : ∀ k, k ∈ b1.found.map (·.1) ↔ ∃ p ∈ pieces, ∃ f ∈ p.sc.fragments, f.keyTuple = k := by
    intro k
    rw [hfound]
    simp only [List.map_nil, List.nil_append, List.mem_map, List.mem_flatMap]
    constructor
    · rintro ⟨f, ⟨p, hp, hf⟩, e⟩; exact ⟨p, hp, f, hf, e⟩
    · rintro ⟨p, hp, f, hf, e⟩; exact ⟨f, ⟨p, hp, hf⟩, e⟩
  obtain ⟨b2, e2, gextra, gstore, -, gmulti, gcuts, gjg, -, -, gpre⟩ :=
    addMissing_unedited (isPresent pieces) input
      { namer := b1.namer, store := b1.store, found := b1.found, multi := [], extra := b1.extra, cuts := b1.cuts,
        nextOid := b1.nextOid, joinGap := b1.joinGap, err := b1.err } hplain
      (by
        intro sc hsc hpr f hf
        obtain ⟨p, hp, hname⟩ := (isPresent_iff pieces sc).1 hpr
        have : p.sc = sc := eq_of_name_eq input hu.names _ _ (hu.piecesOk p hp).mem hsc hname
        exact dHas_true_of_mem _ _ ((hkeys _).2 ⟨p, hp, f, this ▸ hf, rfl⟩))
      (by
        intro sc hsc hpr
        refine ⟨hu.absent sc hsc hpr, ?_⟩
        intro f hf
        apply dHas_false_of_not_mem
        intro hmem
        obtain ⟨p, hp, g, hg, e⟩ := (hkeys _).1 hmem
        have hne : p.sc.name ≠ sc.name := by
          intro e'
          have : isPresent pieces sc = true := (isPresent_iff pieces sc).2 ⟨p, hp, e'⟩
          rw [hpr] at this; cases this
        exact hu.keys.across p.sc sc (hu.piecesOk p hp).mem hsc hne g hg f hf e)
  rw [addMissing_eq, e2]
  refine ⟨b2, rfl, ?_, ?_, gmulti, ?_, ?_, ?_⟩
  · rw [gstore, hstore]; simp
  · rw [gextra, hextra]; simp [absentOf]
  · rw [gcuts, hcuts]
  · rw [gjg, hjg]
  · rw [gpre, hpre]

end AgpTpf.C08
