/-
  C07, first clause chained end to end — part D: from the build returned by `remap_to_input_assembly` to the output
  assemblies of `remap`.
    * whenever `remap` completes, `make_stats` completed, so every pair of consecutive fragments of an input scaffold
      has strands ±1 (`junction_tuple` raises otherwise): no strand hypothesis is needed;
    * every gapless adjacency of a fused scaffold is an input adjacency (`fused_adjacent`).
-/
import AgpTpf.Proofs.C07ChainC
import AgpTpf.Proofs.C07Leftover
import AgpTpf.Proofs.C09Split
import AgpTpf.Proofs.C11Extra
namespace AgpTpf.C07
open AgpTpf
open AgpTpf.C11 (End leftFacing rightFacing facingEnds SameAdj)

/-! ### `remap` completes ⇒ input strands are ±1 wherever two fragments follow each other -/

theorem outsTail_stats (input : List Scaffold) (b : Build) (asms : C09.Asms) (fs : List Scaffold) (outs : List OutAsm)
    (stats : Stats) (h : C09.outsTail input b asms fs = .ok (outs, stats)) :
    makeStats input outs b.cuts = .ok stats := by
  unfold C09.outsTail at h
  rw [C09.bind_eq_ok] at h
  obtain ⟨outs', _, h⟩ := h
  rw [C09.bind_eq_ok] at h
  obtain ⟨stats', hs, h⟩ := h
  cases h
  exact hs

theorem assembliesFused_stats (input : List Scaffold) (b : Build) (outs : List OutAsm) (stats : Stats)
    (h : assembliesFused input b = .ok (outs, stats)) : makeStats input outs b.cuts = .ok stats := by
  rw [C09.assembliesFused_eq] at h
  generalize C09.splitLoop b.namer.autosomePrefix (fuseByName b) = st at h
  obtain ⟨asms, entries, haps, fs⟩ := st
  unfold C09.finishAssemblies at h
  simp only [] at h
  split at h
  · exact outsTail_stats input b asms fs outs stats h
  · rw [C09.bind_eq_ok] at h
    obtain ⟨groups, _, h⟩ := h
    split at h
    · rw [C09.bind_eq_ok] at h
      obtain ⟨_, h1, _⟩ := h
      cases h1
    · rw [C09.bind_eq_ok] at h
      obtain ⟨keyed, _, h⟩ := h
      exact outsTail_stats input b asms _ outs stats h

/-- `make_stats` completed ⇒ directly adjacent input fragments have strands ±1 -/
theorem input_strands_of_stats (input : List Scaffold) (outs : List OutAsm) (cuts : Int) (st : Stats)
    (h : makeStats input outs cuts = .ok st) :
    ∀ sc ∈ input, ∀ pr ∈ adjPairs sc.rows, StrandPM pr.1 ∧ StrandPM pr.2 := by
  obtain ⟨okI, _⟩ := (C11.makeStats_ok_iff input outs cuts).mp ⟨st, h⟩
  intro sc hsc pr hp
  obtain ⟨a, b⟩ := pr
  obtain ⟨S, hS⟩ := okI sc hsc
  obtain ⟨pre, post, e⟩ := adjPairs_fragmentsOf sc.rows a b hp
  exact C11.junctionSet_ok_strands sc S hS pre a b post e

/-! ### fused scaffolds -/

/-- every gapless fragment–fragment adjacency of a fused scaffold is an input adjacency, given the invariant of
    parts B/C for the build, a configured join gap, and strands ±1 at the input adjacencies -/
theorem fused_adjacent (input : List Scaffold) (N0 : Nat) (g : Gap) (b : Build)
    (hc : CInv input N0 (some g) b) (hex : ∀ e ∈ b.extra, ExtraOK input e)
    (hstr : ∀ sc ∈ input, ∀ pr ∈ adjPairs sc.rows, StrandPM pr.1 ∧ StrandPM pr.2) :
    ∀ s ∈ fuseByName b, ∀ pr ∈ adjPairs s.rows, IsInputAdj input (facingEnds pr.1 pr.2) := by
  intro s hs
  refine (C01.fuseByName_all (fun rows => ∀ pr ∈ adjPairs rows, IsInputAdj input (facingEnds pr.1 pr.2)) b ?_ ?_ s hs).1
  · intro r hr _ _
    have part : ∀ pr ∈ adjPairs r.o.toScaffoldRows, IsInputAdj input (facingEnds pr.1 pr.2) := by
      intro pr hp
      obtain ⟨sc, hsc, hI⟩ := (hc.store r hr).inv
      obtain ⟨⟨a0, b0⟩, hq, hsame⟩ := toScaffoldRows_adjacent hI.content (hstr sc hsc) pr hp
      exact isInputAdj_of input sc hsc a0 b0 hq _ hsame
    refine ⟨fun pr hp => ?_, fun built _ hb pr hp => ?_⟩
    · rw [C01.adjPairs_appendRows] at hp
      simp only [List.mem_append] at hp
      rcases hp with (hp | hp) | hp
      · cases hp
      · rw [hc.jg] at hp; cases hp
      · exact part pr hp
    · rw [C01.adjPairs_appendRows] at hp
      simp only [List.mem_append] at hp
      rcases hp with (hp | hp) | hp
      · exact hb pr hp
      · rw [hc.jg] at hp; cases hp
      · exact part pr hp
  · intro e he _
    obtain ⟨sc, hsc, hadj, hseam⟩ := hex e he
    have part : ∀ pr ∈ adjPairs e.1.rows, IsInputAdj input (facingEnds pr.1 pr.2) := by
      rintro ⟨a, c⟩ hp
      exact isInputAdj_of input sc hsc a c (hadj _ hp) _ (SameAdj.refl _)
    have seamCase : ∀ built, built ≠ [] → ∀ pr ∈ (if gapsBeforeLeftover b.joinGap built e.2 = [] then seam built e.1.rows
          else ([] : List (Fragment × Fragment))), IsInputAdj input (facingEnds pr.1 pr.2) := by
      intro built hbne pr hp
      by_cases hg : gapsBeforeLeftover b.joinGap built e.2 = []
      · rw [if_pos hg] at hp
        rw [hc.jg] at hg
        obtain ⟨prev, last, hpred, hlast, hface⟩ := (gapsBeforeLeftover_nil_iff g built hbne e.2).mp hg
        obtain ⟨a, c⟩ := pr
        obtain ⟨h1, h2⟩ := (seam_mem _ _ _ _).mp hp
        have ea : last = a := by
          rw [hlast] at h1
          injection h1 with h1
          injection h1
        have hface' : FacingEnd a prev := ea ▸ hface
        have hin := hseam prev c hpred h2
        have hl : leftFacing a = leftFacing prev := facingEnd_leftFacing a prev (hstr sc hsc _ hin).1 hface'
        refine isInputAdj_of input sc hsc prev c hin _ ?_
        have : facingEnds a c = facingEnds prev c := by simp [facingEnds, hl]
        rw [this]; exact SameAdj.refl _
      · rw [if_neg hg] at hp; cases hp
    refine ⟨part, fun built hbne hb pr hp => ?_⟩
    rw [adjPairs_leftover_add] at hp
    simp only [List.mem_append] at hp
    rcases hp with (hp | hp) | hp
    · exact hb pr hp
    · exact seamCase built hbne pr hp
    · exact part pr hp

end AgpTpf.C07
