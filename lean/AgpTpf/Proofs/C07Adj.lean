/-
  Helper lemmas for C07 (and C01 S3/S4): gapless fragment–fragment adjacencies of a row list, first/last rows.
-/
import AgpTpf.Model.Remap
namespace AgpTpf.C07
open AgpTpf

/-- results of the model can be compared by `decide` in the non-vacuity examples -/
instance instDecEqR {α} [DecidableEq α] : DecidableEq (R α) := fun a b =>
  match a, b with
  | .ok x, .ok y => if h : x = y then isTrue (by rw [h]) else isFalse (by intro e; cases e; exact h rfl)
  | .error x, .error y => if h : x = y then isTrue (by rw [h]) else isFalse (by intro e; cases e; exact h rfl)
  | .ok _, .error _ => isFalse (by intro e; cases e)
  | .error _, .ok _ => isFalse (by intro e; cases e)

/-- the pairs of fragments that are directly adjacent (no gap row between them), in order -/
def adjPairs : List Row → List (Fragment × Fragment)
  | [] => []
  | .gap _ :: r => adjPairs r
  | .frag a :: r =>
    match r with
    | .frag b :: _ => (a, b) :: adjPairs r
    | _ => adjPairs r

/-- the adjacency created where `l` is followed by `r` without a separator -/
def seam (l r : List Row) : List (Fragment × Fragment) :=
  match l.getLast?, r.head? with
  | some (.frag a), some (.frag b) => [(a, b)]
  | _, _ => []

@[simp] theorem adjPairs_nil : adjPairs [] = [] := rfl
@[simp] theorem adjPairs_gap_cons (g : Gap) (r : List Row) : adjPairs (.gap g :: r) = adjPairs r := rfl
@[simp] theorem adjPairs_frag_frag (a b : Fragment) (r : List Row) :
    adjPairs (.frag a :: .frag b :: r) = (a, b) :: adjPairs (.frag b :: r) := rfl
@[simp] theorem adjPairs_frag_gap (a : Fragment) (g : Gap) (r : List Row) :
    adjPairs (.frag a :: .gap g :: r) = adjPairs r := rfl
@[simp] theorem adjPairs_single (x : Row) : adjPairs [x] = [] := by cases x <;> rfl

theorem adjPairs_append (l r : List Row) : adjPairs (l ++ r) = adjPairs l ++ seam l r ++ adjPairs r := by
  induction l with
  | nil => simp [seam]
  | cons x t ih =>
    cases x with
    | gap g =>
      cases t with
      | nil => simp [seam]
      | cons y t' =>
        simp only [List.cons_append, adjPairs_gap_cons] at ih ⊢
        rw [ih]; simp [seam, List.getLast?_cons_cons]
    | frag a =>
      cases t with
      | nil =>
        cases r with
        | nil => simp [seam]
        | cons y r' => cases y <;> simp [seam]
      | cons y t' =>
        cases y with
        | gap g =>
          simp only [List.cons_append, adjPairs_frag_gap, adjPairs_gap_cons] at ih ⊢
          rw [ih]; simp [seam, List.getLast?_cons_cons]
        | frag c =>
          simp only [List.cons_append, adjPairs_frag_frag] at ih ⊢
          rw [ih]; simp [seam, List.getLast?_cons_cons]

theorem seam_gap_left (l r : List Row) (g : Gap) : seam (l ++ [.gap g]) r = [] := by
  simp [seam]

theorem seam_gap_right (l r : List Row) (g : Gap) : seam l (.gap g :: r) = [] := by
  unfold seam; simp only [List.head?_cons]; split <;> simp_all

theorem seam_nil_left (r : List Row) : seam [] r = [] := by simp [seam]
theorem seam_nil_right (l : List Row) : seam l [] = [] := by
  unfold seam; simp only [List.head?_nil]; split <;> simp_all

/-- a separating gap row prevents any adjacency across it -/
theorem adjPairs_append_gap (l r : List Row) (g : Gap) :
    adjPairs (l ++ [.gap g] ++ r) = adjPairs l ++ adjPairs r := by
  rw [adjPairs_append, adjPairs_append, seam_gap_left, seam_gap_right]; simp

theorem mem_adjPairs_of_getElem? (rows : List Row) (i : Nat) (a b : Fragment)
    (h1 : rows[i]? = some (.frag a)) (h2 : rows[i + 1]? = some (.frag b)) : (a, b) ∈ adjPairs rows := by
  induction rows generalizing i with
  | nil => simp at h1
  | cons x t ih =>
    cases i with
    | zero =>
      simp only [List.getElem?_cons_zero, Option.some.injEq] at h1
      subst h1
      cases t with
      | nil => simp at h2
      | cons y t' =>
        simp only [Nat.zero_add, List.getElem?_cons_succ, List.getElem?_cons_zero, Option.some.injEq] at h2
        subst h2; simp
    | succ j =>
      simp only [List.getElem?_cons_succ] at h1 h2
      have := ih j h1 h2
      cases x with
      | gap g => simpa using this
      | frag c =>
        cases t with
        | nil => simp at h1
        | cons y t' => cases y <;> simp_all

theorem getElem?_of_mem_adjPairs (rows : List Row) (a b : Fragment) (h : (a, b) ∈ adjPairs rows) :
    ∃ i, rows[i]? = some (.frag a) ∧ rows[i + 1]? = some (.frag b) := by
  induction rows with
  | nil => simp at h
  | cons x t ih =>
    cases x with
    | gap g =>
      obtain ⟨i, h1, h2⟩ := ih (by simpa using h)
      exact ⟨i + 1, by simpa using h1, by simpa using h2⟩
    | frag c =>
      cases t with
      | nil => simp at h
      | cons y t' =>
        cases y with
        | gap g =>
          rw [adjPairs_frag_gap] at h
          obtain ⟨i, h1, h2⟩ := ih (by simpa using h)
          exact ⟨i + 1, by simpa using h1, by simpa using h2⟩
        | frag d =>
          rw [adjPairs_frag_frag] at h
          rcases List.mem_cons.mp h with e | h'
          · cases e; exact ⟨0, by simp, by simp⟩
          · obtain ⟨i, h1, h2⟩ := ih h'
            exact ⟨i + 1, by simpa using h1, by simpa using h2⟩

/-- `adjPairs` is exactly the set of consecutive fragment rows -/
theorem mem_adjPairs_iff (rows : List Row) (a b : Fragment) :
    (a, b) ∈ adjPairs rows ↔ ∃ i, rows[i]? = some (.frag a) ∧ rows[i + 1]? = some (.frag b) :=
  ⟨getElem?_of_mem_adjPairs rows a b, fun ⟨i, h1, h2⟩ => mem_adjPairs_of_getElem? rows i a b h1 h2⟩

/-- neither the first nor the last row is a gap -/
def NoTerminalGap (rows : List Row) : Prop :=
  (∀ g, rows.head? ≠ some (.gap g)) ∧ (∀ g, rows.getLast? ≠ some (.gap g))

end AgpTpf.C07
