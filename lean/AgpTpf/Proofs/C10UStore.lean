/-
  C10 uniqueness (W5), part 9: the store invariant of `find_assembly_overlaps`.
    * every stored result satisfies the per-scaffold conditions `PE`;
    * the Haplotig-tagged results are exactly those listed in `namer.haplotig_scaffolds`, are called `H_<k>` with `k`
      up to the counter, and are pairwise differently named;
    * while one Pretext scaffold is processed, the results listed in `namer.unloc_scaffolds` are not Haplotig-tagged, are
      called `<current>_unloc_<k>` and would satisfy `PE` under any such name — so `rename_by_size` keeps the invariant.
-/
import AgpTpf.Proofs.C10ULabel
import AgpTpf.Proofs.C10UKeep
import AgpTpf.Proofs.C01MiddleBase
namespace AgpTpf.C10U
open AgpTpf

/-! ### list bookkeeping -/

theorem getD_append_lt {α} (l : List α) (x d : α) (i : Nat) (h : i < l.length) : (l ++ [x]).getD i d = l.getD i d := by
  simp only [List.getD_eq_getElem?_getD]
  rw [List.getElem?_append_left h]

theorem getD_append_len {α} (l : List α) (x d : α) : (l ++ [x]).getD l.length d = x := by
  simp only [List.getD_eq_getElem?_getD]
  rw [List.getElem?_append_right (Nat.le_refl _)]
  simp

theorem mem_getD {α} (l : List α) (x d : α) (h : x ∈ l) : ∃ j, j < l.length ∧ l.getD j d = x := by
  obtain ⟨j, hj, e⟩ := List.mem_iff_getElem.1 h
  refine ⟨j, hj, ?_⟩
  rw [List.getD_eq_getElem?_getD, List.getElem?_eq_getElem hj]; simpa using e

/-! ### the invariant -/

structure FInv (TG : Par) (p : Str) (N : List Str) (b : Build) : Prop where
  entries : ∀ r ∈ b.store, PE TG p N (labRes r)
  good : NamerGood b.namer
  ni : TG.NI b.namer
  pre : b.namer.autosomePrefix = p
  hapNodup : b.namer.haplotigScaffolds.Nodup
  hapLt : ∀ i ∈ b.namer.haplotigScaffolds, i < b.store.length
  hapIff : ∀ i, i < b.store.length →
    ((b.store.getD i default).o.tag = some sHaplotig ↔ i ∈ b.namer.haplotigScaffolds)
  hapBound : ∀ i, i < b.store.length → (b.store.getD i default).o.tag = some sHaplotig →
    ∃ k, k ≤ b.namer.haplotigN ∧ (b.store.getD i default).o.name = C10.hapName k
  hapInj : ∀ i j, i < b.store.length → j < b.store.length → (b.store.getD i default).o.tag = some sHaplotig →
    (b.store.getD j default).o.tag = some sHaplotig →
    (b.store.getD i default).o.name = (b.store.getD j default).o.name → i = j

structure UInv (TG : Par) (p : Str) (N : List Str) (c : Str) (b : Build) : Prop where
  nodup : b.namer.unlocScaffolds.Nodup
  each : ∀ i ∈ b.namer.unlocScaffolds, i < b.store.length ∧ (b.store.getD i default).o.tag ≠ some sHaplotig ∧
    (∃ k, (b.store.getD i default).o.name = c ++ C10.unlocSuffix k) ∧
    ∀ suf, SufOk suf → PE TG p N (labRes (C10.withName (b.store.getD i default) (c ++ suf)))

/-- appending the result `r` that `label_scaffold` has just labelled -/
theorem append_inv {TG : Par} {p : Str} {N : List Str} {c : Str} (b b' : Build) (r : Res) (o1 : OverlapResult)
    (hF : FInv TG p N b) (hU : UInv TG p N c b) (hst : b'.store = b.store ++ [r])
    (hfix : oFixed r.o = oFixed o1) (hname : r.o.name = o1.name)
    (hout : LabelOut TG p N b.namer b'.namer o1 b.store.length c) : FInv TG p N b' ∧ UInv TG p N c b' := by
  simp only [oFixed, Prod.mk.injEq] at hfix
  obtain ⟨f1, f2, f3, f4, f5, _⟩ := hfix
  have hlab : ∀ x, labRes (C10.withName r x) = labO { o1 with name := x } := by
    intro x; unfold labRes labO C10.withName; simp only [f1, f2, f3, f4, f5]
  have hlab0 : labRes r = labO o1 := by unfold labRes labO; simp only [f1, f2, f3, f4, f5, hname]
  have hlen : b'.store.length = b.store.length + 1 := by rw [hst]; simp
  have hold : ∀ i, i < b.store.length → b'.store.getD i default = b.store.getD i default := by
    intro i hi; rw [hst]; exact getD_append_lt _ _ _ _ hi
  have hnew : b'.store.getD b.store.length default = r := by rw [hst]; exact getD_append_len _ _ _
  have hsplit : ∀ i, i < b'.store.length → i < b.store.length ∨ i = b.store.length := by
    intro i hi; rw [hlen] at hi; omega
  have hnotin : b.store.length ∉ b.namer.haplotigScaffolds := fun h => Nat.lt_irrefl _ (hF.hapLt _ h)
  constructor
  · -- FInv
    refine ⟨?_, hF.good.of_sameCore hout.same, TG.ni_core _ _ hout.same hF.ni,
      hout.same.2.2.2.2.2.2.trans hF.pre, ?_, ?_, ?_, ?_, ?_⟩
    · intro r' hr'
      rw [hst] at hr'
      rcases List.mem_append.1 hr' with h | h
      · exact hF.entries r' h
      · simp only [List.mem_singleton] at h; subst h; rw [hlab0]; exact hout.pe
    · rcases hout.hap with ⟨_, _, _, e⟩ | ⟨_, _, e⟩
      · rw [e, List.nodup_append]
        exact ⟨hF.hapNodup, by simp, fun a ha b' hb' => by
          simp only [List.mem_singleton] at hb'; subst hb'; exact fun e => hnotin (e ▸ ha)⟩
      · rw [e]; exact hF.hapNodup
    · intro i hi
      rcases hout.hap with ⟨_, _, _, e⟩ | ⟨_, _, e⟩
      · rw [e] at hi
        rcases List.mem_append.1 hi with h | h
        · have := hF.hapLt i h; omega
        · simp only [List.mem_singleton] at h; omega
      · rw [e] at hi; have := hF.hapLt i hi; omega
    · intro i hi
      rcases hsplit i hi with h | h
      · rw [hold i h]
        rcases hout.hap with ⟨_, _, _, e⟩ | ⟨_, _, e⟩
        · rw [e, hF.hapIff i h]
          simp only [List.mem_append, List.mem_singleton]
          constructor
          · exact Or.inl
          · rintro (h' | h')
            · exact h'
            · omega
        · rw [e]; exact hF.hapIff i h
      · subst h
        rw [hnew, f1]
        rcases hout.hap with ⟨t, _, _, e⟩ | ⟨t, _, e⟩
        · rw [e]; exact ⟨fun _ => by simp, fun _ => t⟩
        · rw [e]; exact ⟨fun h => absurd h t, fun h => absurd h hnotin⟩
    · intro i hi ht
      rcases hsplit i hi with h | h
      · rw [hold i h] at ht ⊢
        obtain ⟨k, hk, hn⟩ := hF.hapBound i h ht
        refine ⟨k, ?_, hn⟩
        rcases hout.hap with ⟨_, _, e, _⟩ | ⟨_, e, _⟩ <;> omega
      · subst h
        rw [hnew] at ht ⊢
        rw [f1] at ht
        rcases hout.hap with ⟨_, nm, e, _⟩ | ⟨t, _, _⟩
        · exact ⟨b.namer.haplotigN + 1, by omega, by rw [hname]; exact nm⟩
        · exact absurd ht t
    · intro i j hi hj hti htj hnm
      rcases hsplit i hi with h | h <;> rcases hsplit j hj with h' | h'
      · rw [hold i h] at hti hnm
        rw [hold j h'] at htj hnm
        exact hF.hapInj i j h h' hti htj hnm
      · subst h'
        exfalso
        rw [hold i h] at hti hnm
        rw [hnew] at htj hnm
        rw [f1] at htj
        rcases hout.hap with ⟨_, nm, _, _⟩ | ⟨t, _, _⟩
        · obtain ⟨k, hk, hn⟩ := hF.hapBound i h hti
          rw [hn, hname, nm] at hnm
          have := C10.hapName_inj _ _ hnm
          omega
        · exact t htj
      · subst h
        exfalso
        rw [hold j h'] at htj hnm
        rw [hnew] at hti hnm
        rw [f1] at hti
        rcases hout.hap with ⟨_, nm, _, _⟩ | ⟨t, _, _⟩
        · obtain ⟨k, hk, hn⟩ := hF.hapBound j h' htj
          rw [hn, hname, nm] at hnm
          have := C10.hapName_inj _ _ hnm
          omega
        · exact t hti
      · omega
  · -- UInv
    have hkeep : ∀ i ∈ b.namer.unlocScaffolds, i < b'.store.length ∧
        (b'.store.getD i default).o.tag ≠ some sHaplotig ∧
        (∃ k, (b'.store.getD i default).o.name = c ++ C10.unlocSuffix k) ∧
        ∀ suf, SufOk suf → PE TG p N (labRes (C10.withName (b'.store.getD i default) (c ++ suf))) := by
      intro i hi
      obtain ⟨a1, a2, a3, a4⟩ := hU.each i hi
      rw [hold i a1]
      exact ⟨by omega, a2, a3, a4⟩
    rcases hout.unloc with ⟨e, hk, ht, hall⟩ | e
    · refine ⟨?_, ?_⟩
      · rw [e, List.nodup_append]
        refine ⟨hU.nodup, by simp, ?_⟩
        intro a ha b'' hb''
        simp only [List.mem_singleton] at hb''; subst hb''
        intro e'
        have := (hU.each a ha).1
        omega
      · intro i hi
        rw [e] at hi
        rcases List.mem_append.1 hi with h | h
        · exact hkeep i h
        · simp only [List.mem_singleton] at h
          subst h
          rw [hnew]
          refine ⟨by omega, by rw [f1]; exact ht, by rw [hname]; exact hk, ?_⟩
          intro suf hsuf
          rw [hlab]; exact hall suf hsuf
    · exact ⟨by rw [e]; exact hU.nodup, by rw [e]; exact hkeep⟩

/-! ### `rename_by_size` -/

/-- what `rename_by_size` does, in the form used here: lengths and all fields but `name` are kept; results outside `ids`
    are untouched; a result in `ids` gets the name some result of `ids` had; the names over `ids` are permuted -/
theorem rename_props (store : List Res) (ids : List Nat) (hnd : ids.Nodup) (hlt : ∀ i ∈ ids, i < store.length) :
    (renameBySize store ids).length = store.length ∧
    (∀ j, j ∉ ids → (renameBySize store ids).getD j default = store.getD j default) ∧
    (∀ j, ∃ x, (renameBySize store ids).getD j default = C10.withName (store.getD j default) x) ∧
    (∀ j ∈ ids, ∃ j' ∈ ids, (renameBySize store ids).getD j default =
        C10.withName (store.getD j default) (store.getD j' default).o.name) ∧
    (ids.map (fun i => ((renameBySize store ids).getD i default).o.name)).Perm
      (ids.map (fun i => (store.getD i default).o.name)) := by
  by_cases hne : ids = []
  · subst hne
    rw [C10.rename_by_size_nil]
    exact ⟨rfl, fun _ _ => rfl, fun j => ⟨(store.getD j default).o.name, rfl⟩, fun j hj => (by cases hj), List.Perm.refl _⟩
  · obtain ⟨_, _, _, _, _, hperm, hlen, hout, hwith, _⟩ := C10.rename_by_size store ids hne hnd hlt
    refine ⟨hlen, hout, hwith, ?_, hperm⟩
    intro j hj
    obtain ⟨x, hx⟩ := hwith j
    have hxn : C10.nameOf (renameBySize store ids) j = x := by unfold C10.nameOf; rw [hx]; rfl
    have hm : x ∈ ids.map (C10.nameOf (renameBySize store ids)) := by
      rw [← hxn]; exact List.mem_map.2 ⟨j, hj, rfl⟩
    have hm' := hperm.mem_iff.1 hm
    obtain ⟨j', hj', e⟩ := List.mem_map.1 hm'
    exact ⟨j', hj', by rw [hx, ← e]; rfl⟩

theorem withName_tag (r : Res) (x : Str) : (C10.withName r x).o.tag = r.o.tag := rfl
theorem withName_name (r : Res) (x : Str) : (C10.withName r x).o.name = x := rfl

/-- the per-Pretext-scaffold `rename_by_size` of the unlocs keeps the invariant -/
theorem rename_unloc_inv {TG : Par} {p : Str} {N : List Str} {c : Str} (b : Build) (hF : FInv TG p N b)
    (hU : UInv TG p N c b) :
    FInv TG p N { b with store := renameBySize b.store b.namer.unlocScaffolds } := by
  obtain ⟨hlen, hout, hwith, hin, _⟩ := rename_props b.store b.namer.unlocScaffolds hU.nodup
    (fun i hi => (hU.each i hi).1)
  have htag : ∀ j, ((renameBySize b.store b.namer.unlocScaffolds).getD j default).o.tag = (b.store.getD j default).o.tag := by
    intro j; obtain ⟨x, hx⟩ := hwith j; rw [hx]; rfl
  have hsame : ∀ j, (b.store.getD j default).o.tag = some sHaplotig →
      (renameBySize b.store b.namer.unlocScaffolds).getD j default = b.store.getD j default := by
    intro j ht
    apply hout
    intro hj
    exact (hU.each j hj).2.1 ht
  refine ⟨?_, hF.good, hF.ni, hF.pre, hF.hapNodup, ?_, ?_, ?_, ?_⟩
  · intro r hr
    obtain ⟨j, hj, e⟩ := mem_getD _ r default hr
    rw [hlen] at hj
    by_cases hju : j ∈ b.namer.unlocScaffolds
    · obtain ⟨j', hj', e'⟩ := hin j hju
      rw [e'] at e
      obtain ⟨k, hk⟩ := (hU.each j' hj').2.2.1
      rw [← e, hk]
      exact (hU.each j hju).2.2.2 _ (Or.inr ⟨k, rfl⟩)
    · rw [hout j hju] at e
      rw [← e]
      exact hF.entries _ (getD_mem _ _ _ hj)
  · intro i hi; show i < (renameBySize _ _).length; rw [hlen]; exact hF.hapLt i hi
  · intro i hi
    have hi' : i < b.store.length := by rw [← hlen]; exact hi
    show ((renameBySize _ _).getD i default).o.tag = some sHaplotig ↔ _
    rw [htag]; exact hF.hapIff i hi'
  · intro i hi ht
    have hi' : i < b.store.length := by rw [← hlen]; exact hi
    have ht' : (b.store.getD i default).o.tag = some sHaplotig := by rw [← htag]; exact ht
    show ∃ k, k ≤ _ ∧ ((renameBySize _ _).getD i default).o.name = _
    rw [hsame i ht']; exact hF.hapBound i hi' ht'
  · intro i j hi hj hti htj hnm
    have hi' : i < b.store.length := by rw [← hlen]; exact hi
    have hj' : j < b.store.length := by rw [← hlen]; exact hj
    have hti' : (b.store.getD i default).o.tag = some sHaplotig := by rw [← htag]; exact hti
    have htj' : (b.store.getD j default).o.tag = some sHaplotig := by rw [← htag]; exact htj
    have hnm' : ((renameBySize b.store b.namer.unlocScaffolds).getD i default).o.name =
        ((renameBySize b.store b.namer.unlocScaffolds).getD j default).o.name := hnm
    rw [hsame i hti', hsame j htj'] at hnm'
    exact hF.hapInj i j hi' hj' hti' htj' hnm'

/-- `PE` of a Haplotig-tagged scaffold does not depend on the name -/
theorem pe_rename_tagged {TG : Par} {p : Str} {N : List Str} (r : Res) (x : Str) (ht : r.o.tag = some sHaplotig)
    (h : PE TG p N (labRes r)) : PE TG p N (labRes (C10.withName r x)) := by
  obtain ⟨hs, _⟩ := h
  have hne : r.o.tag ≠ none := by rw [ht]; simp
  refine ⟨⟨hs.hapNe, hs.hapNoTag, hs.tagCases, hs.taggedRank, fun h => absurd h hne, fun h => absurd h hne,
    fun h => absurd h hne⟩, ?_⟩
  intro hcf
  have e : (labRes (C10.withName r x)).tag = some sHaplotig := ht
  rw [e] at hcf
  rcases hcf with h | h <;> exact absurd h (by decide)

/-- what is left of the invariant after the final `rename_by_size` of the haplotigs: `PE` everywhere, and
    Haplotig-tagged results pairwise differently named -/
structure StoreOk (TG : Par) (p : Str) (N : List Str) (store : List Res) : Prop where
  entries : ∀ r ∈ store, PE TG p N (labRes r)
  hapInj : ∀ r ∈ store, ∀ r' ∈ store, r.o.tag = some sHaplotig → r'.o.tag = some sHaplotig → r.o.name = r'.o.name →
    labRes r = labRes r'

theorem rename_hap_ok {TG : Par} {p : Str} {N : List Str} (b : Build) (hF : FInv TG p N b) :
    StoreOk TG p N (renameBySize b.store b.namer.haplotigScaffolds) := by
  obtain ⟨hlen, hout, hwith, hin, hperm⟩ := rename_props b.store b.namer.haplotigScaffolds hF.hapNodup hF.hapLt
  have htag : ∀ j, ((renameBySize b.store b.namer.haplotigScaffolds).getD j default).o.tag =
      (b.store.getD j default).o.tag := by
    intro j; obtain ⟨x, hx⟩ := hwith j; rw [hx]; rfl
  -- the old names over the ids are pairwise different, hence so are the new ones
  have hnd_old : (b.namer.haplotigScaffolds.map (fun i => (b.store.getD i default).o.name)).Nodup := by
    rw [List.Nodup, List.pairwise_map]
    refine hF.hapNodup.imp_of_mem ?_
    intro i j hi hj hij hnm
    exact hij (hF.hapInj i j (hF.hapLt i hi) (hF.hapLt j hj) ((hF.hapIff i (hF.hapLt i hi)).2 hi)
      ((hF.hapIff j (hF.hapLt j hj)).2 hj) hnm)
  have hnd_new := hperm.nodup_iff.2 hnd_old
  refine ⟨?_, ?_⟩
  · intro r hr
    obtain ⟨j, hj, e⟩ := mem_getD _ r default hr
    rw [hlen] at hj
    by_cases hju : j ∈ b.namer.haplotigScaffolds
    · obtain ⟨x, hx⟩ := hwith j
      rw [← e, hx]
      apply pe_rename_tagged
      · exact (hF.hapIff j hj).2 hju
      · exact hF.entries _ (getD_mem _ _ _ hj)
    · rw [hout j hju] at e
      rw [← e]; exact hF.entries _ (getD_mem _ _ _ hj)
  · intro r hr r' hr' ht ht' hnm
    obtain ⟨i, hi, ei⟩ := mem_getD _ r default hr
    obtain ⟨j, hj, ej⟩ := mem_getD _ r' default hr'
    rw [hlen] at hi hj
    have hiu : i ∈ b.namer.haplotigScaffolds := by
      apply (hF.hapIff i hi).1; rw [← htag, ei]; exact ht
    have hju : j ∈ b.namer.haplotigScaffolds := by
      apply (hF.hapIff j hj).1; rw [← htag, ej]; exact ht'
    have : i = j := by
      apply C01.nodup_map_inj (fun i => ((renameBySize b.store b.namer.haplotigScaffolds).getD i default).o.name)
        _ hnd_new i hiu j hju
      simp only [ei, ej]; exact hnm
    subst this
    rw [← ei, ← ej]

end AgpTpf.C10U
