/-
  C07, first clause chained end to end — part C: the invariant of part B through the resolver, cutting, the left-over
  scaffolds and the whole of `remap_to_input_assembly`.
-/
import AgpTpf.Proofs.C07ChainB
namespace AgpTpf.C07
open AgpTpf
open AgpTpf.C01 (foldlM_inv)

/-! ### the resolver -/

theorem default_res_rows : (default : Res).o.rows = [] := rfl

theorem premise_apply_ok {input : List Scaffold} {N0 n : Nat} (p : Premise) (store store' : List Res)
    (hs : StoreOK input N0 n store) (h : p.apply store = .ok store') : StoreOK input N0 n store' := by
  unfold Premise.apply at h
  have key : ∀ o', ((store.getD p.sid default).o.discardStart = .ok o' ∨ (store.getD p.sid default).o.discardEnd = .ok o') →
      StoreOK input N0 n (setAt store p.sid { store.getD p.sid default with o := o' }) := by
    intro o' ho r hr
    rcases mem_setAt _ _ _ _ hr with hr | rfl
    · exact hs r hr
    · rcases getD_mem_or_default store p.sid with hm | hm
      · rcases ho with ho | ho
        · exact (hs _ hm).discardStart ho
        · exact (hs _ hm).discardEnd ho
      · rw [hm] at ho
        rcases ho with ho | ho
        · rw [discardStart_nil _ default_res_rows] at ho; cases ho
        · rw [discardEnd_nil _ default_res_rows] at ho; cases ho
  cases hk : p.kind with
  | start =>
    simp only [hk, bind, Except.bind] at h
    split at h
    · cases h
    · next o' ho =>
      simp only [pure, Except.pure, Except.ok.injEq] at h
      subst h; exact key o' (Or.inl ho)
  | stop =>
    simp only [hk, bind, Except.bind] at h
    split at h
    · cases h
    · next o' ho =>
      simp only [pure, Except.pure, Except.ok.injEq] at h
      subst h; exact key o' (Or.inr ho)

theorem applyFixBookkeeping_fields (Q : Fragment → Prop) (b b' : Build) (p : Premise)
    (h : applyFixBookkeeping b p = .ok b') (hq : ∀ kf ∈ b.found, Q kf.2.fragment) :
    b'.store = b.store ∧ b'.nextOid = b.nextOid ∧ b'.joinGap = b.joinGap ∧ ∀ kf ∈ b'.found, Q kf.2.fragment := by
  unfold applyFixBookkeeping at h
  simp only at h
  split at h
  · split at h
    · cases h; exact ⟨rfl, rfl, rfl, hq⟩
    · next fnd hfnd =>
      split at h
      · cases h
      · next rest _ =>
        simp only [Except.ok.injEq] at h
        subst h
        have hfound : ∀ kf ∈ dSet b.found p.fragment.keyTuple { fnd with scaffolds := rest }, Q kf.2.fragment := by
          intro kf hkf
          rcases C01.mem_dSet _ _ _ _ hkf with hm | rfl
          · exact hq kf hm
          · exact hq (p.fragment.keyTuple, fnd) (C01.dGet?_mem _ _ _ hfnd)
        split <;> exact ⟨rfl, rfl, rfl, hfound⟩
  · cases h; exact ⟨rfl, rfl, rfl, hq⟩

theorem resolverRound_cinv {input : List Scaffold} {N0 : Nat} {J : Option Gap} (b b' : Build) (hc : CInv input N0 J b)
    (h : resolverRound b = .ok (some b')) : CInv input N0 J b' := by
  unfold resolverRound at h
  simp only [bind, Except.bind] at h
  split at h
  · cases h
  · next prems _ =>
    split at h
    · cases h
    · next v hv =>
      obtain ⟨store, fixes⟩ := v
      simp only at h
      have hst : StoreOK input N0 b.nextOid store := by
        refine foldlM_inv (fun (x : List Res × List Premise) => StoreOK input N0 b.nextOid x.1) _ _ ?_ (b.store, [])
          (store, fixes) hc.store hv
        intro a ps a' ha hstep
        obtain ⟨a1, a2⟩ := a
        obtain ⟨a1', a2'⟩ := a'
        rcases fixOne_store _ _ _ _ _ _ hstep with rfl | ⟨p, hp⟩
        · exact ha
        · exact premise_apply_ok p _ _ ha hp
      split at h
      · cases h
      · split at h
        · cases h
        · next b2 hb2 =>
          simp only [pure, Except.pure, Except.ok.injEq, Option.some.injEq] at h
          subst h
          have := foldlM_inv (fun x : Build => x.store = store ∧ x.nextOid = b.nextOid ∧ x.joinGap = b.joinGap ∧
              ∀ kf ∈ x.found, kf.2.fragment ∈ inputFrags input) _ fixes
            (fun x p x' ⟨hx1, hx2, hx3, hx4⟩ hs' => by
              obtain ⟨q1, q2, q3, q4⟩ := applyFixBookkeeping_fields (· ∈ inputFrags input) x x' p hs' hx4
              exact ⟨q1.trans hx1, q2.trans hx2, q3.trans hx3, q4⟩)
            { b with store := store } b2 ⟨rfl, rfl, rfl, hc.found⟩ hb2
          obtain ⟨t1, t2, t3, t4⟩ := this
          exact ⟨by rw [t1, t2]; exact hst, t4, by rw [t2]; exact hc.n0, by rw [t3]; exact hc.jg⟩

theorem discardOverhanging_cinv {input : List Scaffold} {N0 : Nat} {J : Option Gap} (fuel : Nat) (b b' : Build)
    (hc : CInv input N0 J b) (h : discardOverhanging fuel b = .ok b') : CInv input N0 J b' := by
  induction fuel generalizing b with
  | zero => simp [discardOverhanging] at h
  | succ n ih =>
    unfold discardOverhanging at h
    split at h
    · cases h; exact hc
    · simp only [bind, Except.bind] at h
      split at h
      · cases h
      · next r hr =>
        split at h
        · simp only [pure, Except.pure, Except.ok.injEq] at h; subst h; exact hc
        · next b1 => exact ih b1 (resolverRound_cinv b b1 hc hr) h

/-! ### cutting -/

theorem cutStep_cinv {input : List Scaffold} {N0 : Nat} {J : Option Gap} (hin : InputOK input N0) (f : Fragment)
    (hf : f ∈ inputFrags input) (last : Nat) (b : Build) (subs : List Fragment) (i sid : Nat)
    (acc' : Build × List Fragment × Nat) (hc : CInv input N0 J b)
    (h : C01.cutStep f last (b, subs, i) sid = .ok acc') : CInv input N0 J acc'.1 ∧ acc'.1.found = b.found := by
  unfold C01.cutStep at h
  simp only [bind, Except.bind] at h
  split at h
  · cases h
  · next v hv =>
    obtain ⟨o, new⟩ := v
    simp only [pure, Except.pure, Except.ok.injEq] at h
    subst h
    refine ⟨⟨?_, hc.found, Nat.le_succ_of_le hc.n0, hc.jg⟩, rfl⟩
    intro r hr
    rcases mem_setAt _ _ _ _ hr with hr | rfl
    · exact (hc.store r hr).mono (Nat.le_succ _)
    · rcases getD_mem_or_default b.store sid with hm | hm
      · exact (hc.store _ hm).trimFragment hin hc.n0 hf hv
      · rw [hm] at hv
        rw [trimFragment_nil _ _ _ _ _ default_res_rows] at hv
        cases hv

theorem cutFragments_cinv {input : List Scaffold} {N0 : Nat} {J : Option Gap} (hin : InputOK input N0) (b b' : Build)
    (fnd : Found) (hf : fnd.fragment ∈ inputFrags input) (hc : CInv input N0 J b)
    (h : cutFragments b fnd = .ok b') : CInv input N0 J b' ∧ b'.found = b.found := by
  obtain ⟨ordered, b1, subs, n, _, hfold, _, rfl⟩ := C01.cutFragments_ok b b' fnd h
  have := foldlM_inv (fun (x : Build × List Fragment × Nat) => CInv input N0 J x.1 ∧ x.1.found = b.found) _ ordered
    (fun x sid x' ⟨hx1, hx2⟩ hstep => by
      obtain ⟨xb, xs, xi⟩ := x
      obtain ⟨q1, q2⟩ := cutStep_cinv hin _ hf _ _ _ _ _ _ hx1 hstep
      exact ⟨q1, q2.trans hx2⟩)
    (b, [], 0) (b1, subs, n) ⟨hc, rfl⟩ hfold
  obtain ⟨t1, t2⟩ := this
  exact ⟨⟨t1.store, t1.found, t1.n0, t1.jg⟩, t2⟩

theorem cutRemaining_cinv {input : List Scaffold} {N0 : Nat} {J : Option Gap} (hin : InputOK input N0) (b b' : Build)
    (hc : CInv input N0 J b) (h : cutRemaining b = .ok b') : CInv input N0 J b' := by
  unfold cutRemaining at h
  simp only [bind, Except.bind] at h
  split at h
  · cases h
  · next b1 hb1 =>
    simp only [pure, Except.pure, Except.ok.injEq] at h
    subst h
    have := foldlM_inv (fun x : Build => CInv input N0 J x) _ b.multi
      (fun x k x' hx hstep => by
        split at hstep
        · next fnd hfnd =>
          exact (cutFragments_cinv hin _ _ fnd (hx.found (k, fnd) (C01.dGet?_mem _ _ _ hfnd)) hx hstep).1
        · simp only [pure, Except.pure, Except.ok.injEq] at hstep; subst hstep; exact hx)
      b b1 hc hb1
    exact ⟨this.store, this.found, this.n0, this.jg⟩

/-! ### left-over scaffolds -/

/-- a left-over scaffold: its adjacencies are adjacencies of ONE input scaffold, and when its recorded input predecessor
    has no gap, (predecessor, first left-over fragment) is an adjacency of that input scaffold -/
def ExtraOK (input : List Scaffold) (e : Scaffold × Option (Fragment × List Gap)) : Prop :=
  ∃ sc ∈ input, (∀ pr ∈ adjPairs e.1.rows, pr ∈ adjPairs sc.rows) ∧
    ∀ prev c, e.2 = some (prev, []) → e.1.rows.head? = some (.frag c) → (prev, c) ∈ adjPairs sc.rows

theorem find_missing_head (b : Build) (ps : List (Nat × Row)) (i : Nat) (row : Row)
    (h : ps.find? (C01.isMissing b) = some (i, row)) :
    ∃ f, row = .frag f ∧
      ((fragmentsOf (ps.map Prod.snd)).filter (fun f => !dHas b.found f.keyTuple)).head? = some f := by
  induction ps with
  | nil => cases h
  | cons p t ih =>
    obtain ⟨j, r⟩ := p
    rw [List.find?_cons] at h
    cases r with
    | gap g =>
      have : C01.isMissing b (j, Row.gap g) = false := rfl
      rw [this] at h
      obtain ⟨f, e1, e2⟩ := ih h
      exact ⟨f, e1, by simpa [fragmentsOf] using e2⟩
    | frag c =>
      by_cases hm : dHas b.found c.keyTuple = true
      · have : C01.isMissing b (j, Row.frag c) = false := by simp [C01.isMissing, hm]
        rw [this] at h
        obtain ⟨f, e1, e2⟩ := ih h
        refine ⟨f, e1, ?_⟩
        simp only [List.map_cons, fragmentsOf]
        rw [List.filter_cons_of_neg (by simp [hm])]
        exact e2
      · have hm' : dHas b.found c.keyTuple = false := by simpa using hm
        have : C01.isMissing b (j, Row.frag c) = true := by simp [C01.isMissing, hm']
        rw [this] at h
        simp only [Option.some.injEq, Prod.mk.injEq] at h
        obtain ⟨rfl, rfl⟩ := h
        refine ⟨c, rfl, ?_⟩
        simp only [List.map_cons, fragmentsOf]
        rw [List.filter_cons_of_pos (by simp [hm'])]
        rfl

theorem head_fragmentsOf (out : List Row) (c : Fragment) (h : out.head? = some (.frag c)) :
    (fragmentsOf out).head? = some c := by
  cases out with
  | nil => cases h
  | cons x t =>
    simp only [List.head?_cons, Option.some.injEq] at h
    subst h; rfl

/-- the index `first` that `add_missing_scaffolds_from_input` hands to `input_predecessor` is the position of the
    left-over scaffold's first row in the input scaffold -/
theorem first_missing_head (b : Build) (rows out : List Row) (first : Option Nat)
    (h : missingRows b rows = .ok (out, first)) (i : Nat) (hf : first = some i) (c : Fragment)
    (hc : out.head? = some (.frag c)) : rows[i]? = some (.frag c) := by
  obtain ⟨h1, _, _, _, _, h6⟩ := C01.missingRows_spec b rows out first h
  rw [hf] at h6
  cases hfind : ((List.range rows.length).zip rows).find? (C01.isMissing b) with
  | none => rw [hfind] at h6; cases h6
  | some p =>
    obtain ⟨j, row⟩ := p
    rw [hfind] at h6
    simp only [Option.map_some, Option.some.injEq] at h6
    subst h6
    obtain ⟨f, e1, e2⟩ := find_missing_head b _ _ _ hfind
    rw [C01.zip_range_snd, ← h1, head_fragmentsOf out c hc] at e2
    cases e2
    have := C01.zip_range_getElem? rows _ (List.mem_of_find?_eq_some hfind)
    rw [e1] at this
    exact this

theorem addMissing_cinv {input : List Scaffold} {N0 : Nat} {J : Option Gap} (b b' : Build)
    (hc : CInv input N0 J b) (he : ∀ e ∈ b.extra, ExtraOK input e)
    (h : addMissing input b = .ok b') : CInv input N0 J b' ∧ ∀ e ∈ b'.extra, ExtraOK input e := by
  unfold addMissing at h
  -- generalise the list folded over so that membership in `input` is kept
  have gen : ∀ (l : List Scaffold), (∀ sc ∈ l, sc ∈ input) → ∀ (a a' : Build),
      (CInv input N0 J a ∧ ∀ e ∈ a.extra, ExtraOK input e) →
      l.foldlM (fun (b : Build) sc => do
        let (rows, first) ← missingRows b sc.rows
        if rows.isEmpty then pure b
        else do
          let tags := ({ name := sc.name, rows := rows } : Scaffold).fragmentTags
          let n ← makeScaffoldName b.namer sc.name rows tags
          let tag := if n.targetTags ∧ ¬ sc.fragmentTags.contains sTarget then some sContaminant else none
          let new : Scaffold := { name := sc.name, rows := rows, rank := 3, tag := tag, haplotype := n.currentHaplotype }
          let pred := match first with | some i => inputPredecessor sc.rows i | none => none
          pure { b with namer := n, extra := b.extra ++ [(new, pred)] }) a = .ok a' →
      (CInv input N0 J a' ∧ ∀ e ∈ a'.extra, ExtraOK input e) := by
    intro l
    induction l with
    | nil =>
      intro _ a a' ha hfold
      simp only [List.foldlM_nil, pure, Except.pure, Except.ok.injEq] at hfold
      subst hfold; exact ha
    | cons sc t ih =>
      intro hl a a' ha hfold
      rw [List.foldlM_cons] at hfold
      simp only [bind, Except.bind] at hfold
      split at hfold
      · cases hfold
      · next a1 hstep =>
        refine ih (fun s hs => hl s (List.mem_cons_of_mem _ hs)) a1 a' ?_ hfold
        have hscin : sc ∈ input := hl sc (List.mem_cons_self ..)
        obtain ⟨hx1, hx2⟩ := ha
        split at hstep
        · cases hstep
        · next v hv =>
          obtain ⟨rows, first⟩ := v
          simp only at hstep
          split at hstep
          · simp only [pure, Except.pure, Except.ok.injEq] at hstep; subst hstep; exact ⟨hx1, hx2⟩
          · split at hstep
            · cases hstep
            · simp only [pure, Except.pure, Except.ok.injEq] at hstep
              subst hstep
              refine ⟨⟨hx1.store, hx1.found, hx1.n0, hx1.jg⟩, ?_⟩
              intro e hemem
              rcases List.mem_append.mp hemem with hemem | hemem
              · exact hx2 e hemem
              · simp only [List.mem_cons, List.not_mem_nil, or_false] at hemem
                subst hemem
                obtain ⟨_, _, h3, _, _, h6⟩ := C01.missingRows_spec _ _ _ _ hv
                refine ⟨sc, hscin, h3, ?_⟩
                intro prev c hpred hhead
                simp only at hpred hhead
                cases hfirst : first with
                | none => rw [hfirst] at hpred; cases hpred
                | some i =>
                  rw [hfirst] at hpred
                  simp only at hpred
                  have hrow := first_missing_head _ _ _ _ hv i hfirst c hhead
                  have hi : i ≤ sc.rows.length := by
                    have := (List.getElem?_eq_some_iff.mp hrow).1
                    omega
                  obtain ⟨hpos, hprev⟩ := inputPredecessor_none_gap sc.rows i prev hpred hi
                  have hrow' : sc.rows[i - 1 + 1]? = some (.frag c) := by
                    have : i - 1 + 1 = i := by omega
                    rw [this]; exact hrow
                  exact mem_adjPairs_of_getElem? sc.rows (i - 1) prev c hprev hrow'
  exact gen input (fun _ hs => hs) b b' ⟨hc, he⟩ h

/-! ### `remap_to_input_assembly` -/

theorem foldl_max_oid (l : List Fragment) (m0 : Nat) :
    m0 ≤ l.foldl (fun m f => max m (f.oid + 1)) m0 ∧ ∀ f ∈ l, f.oid < l.foldl (fun m f => max m (f.oid + 1)) m0 := by
  induction l generalizing m0 with
  | nil => exact ⟨Nat.le_refl _, fun f hf => by cases hf⟩
  | cons a t ih =>
    rw [List.foldl_cons]
    obtain ⟨h1, h2⟩ := ih (max m0 (a.oid + 1))
    refine ⟨by omega, fun f hf => ?_⟩
    rcases List.mem_cons.mp hf with rfl | hf
    · omega
    · exact h2 f hf

/-- the first object id `remap_to_input_assembly` hands to a cut piece -/
def firstNewOid (input : List Scaffold) : Nat :=
  (input.flatMap Scaffold.fragments).foldl (fun m f => max m (f.oid + 1)) 0

theorem inputOK_of_nodup (input : List Scaffold) (hnd : ((inputFrags input).map (·.oid)).Nodup) :
    InputOK input (firstNewOid input) :=
  ⟨hnd, (foldl_max_oid _ 0).2⟩

/-- after `remap_to_input_assembly`: every stored result satisfies the C18 invariant w.r.t. one input scaffold, every
    left-over scaffold is `ExtraOK`, and the join gap is the configured one -/
theorem remapToInput_cinv (input ptx : List Scaffold) (prefix_ : Str) (joinGap : Option Gap) (err : Int) (b : Build)
    (hnd : ((inputFrags input).map (·.oid)).Nodup)
    (h : remapToInput input ptx prefix_ joinGap err = .ok b) :
    CInv input (firstNewOid input) joinGap b ∧ ∀ e ∈ b.extra, ExtraOK input e := by
  have hin := inputOK_of_nodup input hnd
  unfold remapToInput at h
  simp only [bind, Except.bind] at h
  split at h
  · cases h
  · split at h
    · cases h
    · next b1 hb1 =>
      split at h
      · cases h
      · next b2 hb2 =>
        split at h
        · cases h
        · next b3 hb3 =>
          have c0 : CInv input (firstNewOid input) joinGap
              { namer := { autosomePrefix := prefix_ }, nextOid := firstNewOid input, joinGap := joinGap, err := err } :=
            ⟨fun r hr => (by cases hr), fun kf hkf => (by cases hkf), Nat.le_refl _, rfl⟩
          have c1 := findAssemblyOverlaps_cinv hin ptx _ _ c0 hb1
          have c2 := discardOverhanging_cinv _ _ _ c1 hb2
          have c3 := cutRemaining_cinv hin _ _ c2 hb3
          have c4 : CInv input (firstNewOid input) joinGap
              { b3 with store := renameBySize b3.store b3.namer.haplotigScaffolds } :=
            ⟨storeOK_of_core3 _ _ (renameBySize_core3 _ _) c3.store, c3.found, c3.n0, c3.jg⟩
          have hex : ∀ e ∈ b3.extra, ExtraOK input e := by
            have e1 := (findAssemblyOverlaps_ntg input ptx _ b1 (fun r hr => by cases hr) hb1)
            have e2 := discardOverhanging_ntg _ _ _ e1.1 hb2
            have e3 := cutRemaining_ntg _ _ e2.1 hb3
            rw [e3.2, e2.2, e1.2]
            intro e he; cases he
          exact addMissing_cinv _ b c4 hex h

end AgpTpf.C07
