/-
  Helper lemmas for C09 / C10 / C17: a branch-by-branch characterisation of `labelScaffold`.
-/
import AgpTpf.Model.Remap
namespace AgpTpf.C09
open AgpTpf

/-- the `Contaminant`-or-Target-mode pre-assignment of `label_scaffold` -/
def preTag (n : Namer) (o : OverlapResult) (frag : Fragment) (scTags : List Str) : Option Str × Int :=
  if frag.tags.contains sContaminant ∨ (n.targetTags ∧ ¬ scTags.contains sTarget) then (some sContaminant, 3)
  else (o.tag, n.currentRank)

def labelled (n : Namer) (o : OverlapResult) (name : Option Str) (tag : Option Str) (rank : Int) (scTags : List Str)
    (orig : Str) : OverlapResult :=
  { o with name := name.getD sNone, tag := tag, haplotype := n.currentHaplotype, rank := rank,
           originalName := some orig, originalTags := some scTags }

theorem labelScaffold_eq (n : Namer) (o : OverlapResult) (sid : Nat) (frag : Fragment) (scTags : List Str)
    (orig : Str) :
    labelScaffold n o sid frag scTags orig =
      if frag.tags.contains sFalseDuplicate then
        .ok (n, labelled n o n.currentScaffoldName (some sFalseDuplicate) 3 scTags orig)
      else if frag.tags.contains sHaplotig then
        .ok ({ n with haplotigN := n.haplotigN + 1, haplotigScaffolds := n.haplotigScaffolds ++ [sid] },
             labelled n o (some (['H', '_'] ++ natToStr (n.haplotigN + 1))) (some sHaplotig) 3 scTags orig)
      else if frag.tags.contains sUnloc then
        if ¬ scTags.contains sPainted then .error .value
        else
          .ok ({ n with unlocN := n.unlocN + 1, unlocScaffolds := n.unlocScaffolds ++ [sid] },
               labelled n o (some ((n.currentScaffoldName.getD sNone) ++ "_unloc_".toList ++ natToStr (n.unlocN + 1)))
                 (preTag n o frag scTags).1 (preTag n o frag scTags).2 scTags orig)
      else .ok (n, labelled n o n.currentScaffoldName (preTag n o frag scTags).1 (preTag n o frag scTags).2 scTags orig) := by
  unfold labelScaffold
  by_cases h1 : frag.tags.contains sFalseDuplicate = true
  · simp only [if_pos h1]; rfl
  simp only [if_neg h1]
  by_cases h2 : frag.tags.contains sHaplotig = true
  · simp only [if_pos h2]; rfl
  simp only [if_neg h2]
  by_cases h3 : frag.tags.contains sUnloc = true
  · simp only [if_pos h3]
    by_cases h4 : ¬ scTags.contains sPainted = true
    · simp only [if_pos h4]; rfl
    · simp only [if_neg h4]; rfl
  · simp only [if_neg h3]; rfl

end AgpTpf.C09
