/- `mapM` in `Except` -/
import AgpTpf.Model.Text
namespace AgpTpf.C05
open AgpTpf

/-- element-wise relation between two lists of equal length -/
def Forall2 {α β} (P : α → β → Prop) : List α → List β → Prop
  | [], [] => True
  | x :: xs, y :: ys => P x y ∧ Forall2 P xs ys
  | _, _ => False

theorem Forall2.length_eq {α β} {P : α → β → Prop} {l : List α} {ys : List β} (h : Forall2 P l ys) :
    l.length = ys.length := by
  induction l generalizing ys with
  | nil => cases ys with | nil => rfl | cons _ _ => exact h.elim
  | cons x xs ih => cases ys with | nil => exact h.elim | cons y t => simp [ih h.2]

theorem Forall2.imp {α β} {P Q : α → β → Prop} {l : List α} {ys : List β} (hpq : ∀ x y, P x y → Q x y)
    (h : Forall2 P l ys) : Forall2 Q l ys := by
  induction l generalizing ys with
  | nil => cases ys with | nil => trivial | cons _ _ => exact h.elim
  | cons x xs ih => cases ys with | nil => exact h.elim | cons y t => exact ⟨hpq _ _ h.1, ih h.2⟩

theorem mapM_ok_iff {α β} (f : α → R β) (l : List α) (ys : List β) :
    l.mapM f = .ok ys ↔ Forall2 (fun x y => f x = .ok y) l ys := by
  induction l generalizing ys with
  | nil =>
    simp only [List.mapM_nil]
    constructor
    · intro h; cases h; trivial
    · intro h; cases ys with | nil => rfl | cons _ _ => exact h.elim
  | cons x xs ih =>
    rw [List.mapM_cons]
    constructor
    · intro h
      cases hx : f x with
      | error e => rw [hx] at h; cases h
      | ok y =>
        rw [hx] at h
        cases hxs : xs.mapM f with
        | error e => rw [hxs] at h; cases h
        | ok t =>
          rw [hxs] at h; cases h
          exact ⟨hx, (ih t).1 hxs⟩
    · intro h
      cases ys with
      | nil => exact h.elim
      | cons y t => rw [h.1, (ih _).2 h.2]; rfl

theorem mapM_ok_of_forall {α β} (f : α → R β) (P : α → β → Prop) (l : List α)
    (h : ∀ x ∈ l, ∃ y, f x = .ok y ∧ P x y) :
    ∃ ys, l.mapM f = .ok ys ∧ Forall2 P l ys := by
  induction l with
  | nil => exact ⟨[], rfl, trivial⟩
  | cons x xs ih =>
    obtain ⟨y, hy, hp⟩ := h x (by simp)
    obtain ⟨t, ht, hpt⟩ := ih (fun z hz => h z (by simp [hz]))
    refine ⟨y :: t, ?_, ⟨hp, hpt⟩⟩
    rw [List.mapM_cons, hy, ht]; rfl

end AgpTpf.C05
