/-
  The line wrapper of `FastaStream.write_scaffold` (`writeChunk`) — helper lemmas for C03 / C13.
  `wrapGo` is a byte-at-a-time specification of the wrapper state machine; `linesOf` the closed form of its output.
-/
import AgpTpf.Model.Fasta
namespace AgpTpf.WrapProofs
open AgpTpf

/-- byte-at-a-time line wrapper: `want` = bytes still missing in the current line; a newline is written as soon
    as a line is full.  Returns the written bytes and the new `want`. -/
def wrapGo (w : Int) : Int → Bytes → Bytes × Int
  | want, [] => ([], want)
  | want, b :: bs =>
    if want = 1 then (b :: 10 :: (wrapGo w w bs).1, (wrapGo w w bs).2)
    else (b :: (wrapGo w (want - 1) bs).1, (wrapGo w (want - 1) bs).2)

theorem wrapGo_append (w : Int) : ∀ (c₁ c₂ : Bytes) (want : Int),
    wrapGo w want (c₁ ++ c₂)
      = ((wrapGo w want c₁).1 ++ (wrapGo w (wrapGo w want c₁).2 c₂).1, (wrapGo w (wrapGo w want c₁).2 c₂).2)
  | [], c₂, want => by simp [wrapGo]
  | b :: c₁, c₂, want => by
    simp only [List.cons_append, wrapGo]
    split
    · rw [wrapGo_append w c₁ c₂ w]; simp
    · rw [wrapGo_append w c₁ c₂ (want - 1)]; simp

/-- fewer bytes than the line still wants: written as they are. -/
theorem wrapGo_short (w : Int) : ∀ (s : Bytes) (want : Int), (s.length : Int) < want →
    wrapGo w want s = (s, want - s.length)
  | [], want, _ => by simp [wrapGo]
  | b :: s, want, h => by
    simp only [List.length_cons, Int.natCast_add, Int.cast_ofNat_Int] at h
    have h1 : want ≠ 1 := by omega
    simp only [wrapGo, h1, if_false]
    rw [wrapGo_short w s (want - 1) (by omega)]
    simp only [List.length_cons, Int.natCast_add, Int.cast_ofNat_Int, Prod.mk.injEq, true_and]
    omega

/-- exactly the bytes the line still wants: written, newline, fresh line. -/
theorem wrapGo_full (w : Int) : ∀ (s : Bytes) (want : Int), 1 ≤ want → (s.length : Int) = want →
    wrapGo w want s = (s ++ [10], w)
  | [], want, h1, h => by simp at h; omega
  | b :: s, want, h1, h => by
    simp only [List.length_cons, Int.natCast_add, Int.cast_ofNat_Int] at h
    by_cases h2 : want = 1
    · have : s = [] := by
        have : s.length = 0 := by omega
        exact List.length_eq_zero_iff.mp this
      subst this
      simp [wrapGo, h2]
    · simp only [wrapGo, h2, if_false]
      rw [wrapGo_full w s (want - 1) (by omega) (by omega)]
      simp

/-- `writeChunk` (the `while True: chunk.read(want)` loop) is the byte-wise wrapper, for `1 ≤ want ≤ w` and
    the fuel `streamRow` passes (`chunk.length + 1`) or more. -/
theorem writeChunk_eq_wrapGo (w : Int) : ∀ (fuel : Nat) (want : Int) (chunk : Bytes),
    1 ≤ want → want ≤ w → chunk.length + 1 ≤ fuel → writeChunk w fuel want chunk = wrapGo w want chunk := by
  intro fuel
  induction fuel with
  | zero => intro want chunk _ _ h; omega
  | succ fuel ih =>
    intro want chunk h1 h2 hf
    unfold writeChunk
    have hneg : ¬ want < 0 := by omega
    simp only [hneg, if_false]
    by_cases hc : chunk = []
    · subst hc; simp [wrapGo]
    · have hlen : 0 < chunk.length := List.length_pos_iff.mpr hc
      have hne : (List.take want.toNat chunk).isEmpty = false := by
        rw [List.isEmpty_eq_false_iff]
        intro h
        have := congrArg List.length h
        simp only [List.length_take, List.length_nil] at this
        omega
      simp only [hne]
      have hsplit : chunk = List.take want.toNat chunk ++ List.drop want.toNat chunk :=
        (List.take_append_drop _ _).symm
      have hdl : (List.drop (List.take want.toNat chunk).length chunk).length + 1 ≤ fuel := by
        simp only [List.length_take, List.length_drop]; omega
      by_cases hlt : (chunk.length : Int) < want
      · -- the whole chunk fits without filling the line
        have htk : List.take want.toNat chunk = chunk := List.take_of_length_le (by omega)
        have hw : ¬ (want - (chunk.length : Int) = 0) := by omega
        simp only [htk, List.drop_length, hw, if_false]
        rw [ih (want - chunk.length) [] (by omega) (by omega) (by simp; omega)]
        rw [wrapGo_short w chunk want hlt]
        simp [wrapGo]
      · have htl : ((List.take want.toNat chunk).length : Int) = want := by
          simp only [List.length_take]; omega
        have hw : want - ((List.take want.toNat chunk).length : Int) = 0 := by omega
        simp only [hw, if_true]
        rw [ih w _ (by omega) (by omega) hdl]
        conv => rhs; rw [hsplit, wrapGo_append, wrapGo_full w _ want h1 htl]
        simp only [List.length_take, List.append_assoc]
        have : min want.toNat chunk.length = want.toNat := by omega
        simp [this]

/-- the `want` after writing `s`: `w - ((w - want + |s|) mod w)`, i.e. the column advances by `|s|` modulo `w`. -/
theorem wrapGo_want (w : Int) (hw : 1 ≤ w) : ∀ (s : Bytes) (want : Int), 1 ≤ want → want ≤ w →
    (wrapGo w want s).2 = w - ((w - want + s.length) % w)
  | [], want, h1, h2 => by
    simp only [wrapGo, List.length_nil, Int.natCast_zero, Int.add_zero]
    rw [Int.emod_eq_of_lt (by omega) (by omega)]; omega
  | b :: s, want, h1, h2 => by
    simp only [wrapGo, List.length_cons, Int.natCast_add, Int.cast_ofNat_Int]
    split
    · next h =>
      rw [wrapGo_want w hw s w (by omega) (by omega)]
      subst h
      have : w - 1 + ((s.length : Int) + 1) = (w - w + s.length) + w := by omega
      rw [this, Int.add_emod_right]
    · next h =>
      rw [wrapGo_want w hw s (want - 1) (by omega) (by omega)]
      have : w - (want - 1) + (s.length : Int) = w - want + ((s.length : Int) + 1) := by omega
      rw [this]

theorem wrapGo_want_range (w : Int) (hw : 1 ≤ w) (s : Bytes) (want : Int) (h1 : 1 ≤ want) (h2 : want ≤ w) :
    1 ≤ (wrapGo w want s).2 ∧ (wrapGo w want s).2 ≤ w := by
  rw [wrapGo_want w hw s want h1 h2]
  have := Int.emod_nonneg (w - want + s.length) (show w ≠ 0 by omega)
  have := Int.emod_lt_of_pos (w - want + s.length) (show 0 < w by omega)
  omega

/-- writing a list of chunks one after the other, as `write_scaffold` does: written bytes and final `want` -/
def writeAll (w : Int) : Int → List Bytes → Bytes × Int
  | want, [] => ([], want)
  | want, c :: cs =>
    ((writeChunk w (c.length + 1) want c).1 ++ (writeAll w (writeChunk w (c.length + 1) want c).2 cs).1,
     (writeAll w (writeChunk w (c.length + 1) want c).2 cs).2)

/-! ### closed form of a whole record body -/

/-- the lines of a record body of width `w`: consecutive slices of `w` bytes, the last one shorter if need be;
    no line for an empty body. -/
def linesOf (w : Nat) (s : Bytes) : List Bytes :=
  if h : w = 0 ∨ s.length ≤ w then (if s = [] then [] else [s])
  else s.take w :: linesOf w (s.drop w)
termination_by s.length
decreasing_by simp only [List.length_drop]; omega

/-- what `write_scaffold` writes after the header for a body `s`: wrapper from a fresh line, plus the final
    newline when the last line is incomplete. -/
def wrapBody (w : Int) (s : Bytes) : Bytes :=
  if (wrapGo w w s).2 ≠ w then (wrapGo w w s).1 ++ [10] else (wrapGo w w s).1

theorem wrapBody_eq_lines (w : Nat) (hw : 1 ≤ w) (s : Bytes) :
    wrapBody (w : Int) s = ((linesOf w s).map (· ++ [10])).flatten := by
  fun_induction linesOf w s with
  | case1 h => simp [wrapBody, wrapGo]
  | case2 s h hs =>
    have hl : s.length ≤ w := by omega
    have hpos : 0 < s.length := List.length_pos_iff.mpr hs
    unfold wrapBody
    by_cases he : s.length = w
    · rw [wrapGo_full (w : Int) s w (by omega) (by omega)]; simp
    · rw [wrapGo_short (w : Int) s w (by omega)]
      have : ¬ ((w : Int) - (s.length : Int) = w) := by omega
      simp [this]
  | case3 s h ih =>
    have hl : w < s.length := by omega
    have hsplit : s = List.take w s ++ List.drop w s := (List.take_append_drop _ _).symm
    have htl : ((List.take w s).length : Int) = w := by simp only [List.length_take]; omega
    have key : wrapGo (w : Int) w s
        = ((List.take w s ++ [10]) ++ (wrapGo (w : Int) w (List.drop w s)).1, (wrapGo (w : Int) w (List.drop w s)).2) := by
      conv => lhs; rw [hsplit]
      rw [wrapGo_append, wrapGo_full (w : Int) _ w (by omega) htl]
    unfold wrapBody at ih ⊢
    rw [key]
    simp only [List.map_cons, List.flatten_cons, ← ih]
    split <;> simp

theorem linesOf_flatten (w : Nat) (s : Bytes) : (linesOf w s).flatten = s := by
  fun_induction linesOf w s with
  | case1 h => simp
  | case2 s h hs => simp
  | case3 s h ih => simp [ih]

/-- no empty and no over-long line -/
theorem linesOf_len (w : Nat) (hw : 1 ≤ w) (s : Bytes) : ∀ l ∈ linesOf w s, 1 ≤ l.length ∧ l.length ≤ w := by
  fun_induction linesOf w s with
  | case1 h => simp
  | case2 s h hs =>
    intro l hl
    simp only [List.mem_singleton] at hl
    subst hl
    have := List.length_pos_iff.mpr hs
    omega
  | case3 s h ih =>
    intro l hl
    rcases List.mem_cons.mp hl with rfl | hl
    · simp only [List.length_take]; omega
    · exact ih l hl

/-- every line but the last is exactly `w` long -/
theorem linesOf_full (w : Nat) (hw : 1 ≤ w) (s : Bytes) : ∀ l ∈ (linesOf w s).dropLast, l.length = w := by
  fun_induction linesOf w s with
  | case1 h => simp
  | case2 s h hs => simp
  | case3 s h ih =>
    intro l hl
    have hne : linesOf w (List.drop w s) ≠ [] := by
      intro hnil
      have := linesOf_flatten w (List.drop w s)
      rw [hnil] at this
      have := congrArg List.length this
      simp only [List.flatten_nil, List.length_nil, List.length_drop] at this
      omega
    rw [List.dropLast_cons_of_ne_nil hne] at hl
    rcases List.mem_cons.mp hl with rfl | hl
    · simp only [List.length_take]; omega
    · exact ih l hl

/-- number of lines = ⌈|s| / w⌉ -/
theorem linesOf_count (w : Nat) (hw : 1 ≤ w) (s : Bytes) : (linesOf w s).length = (s.length + w - 1) / w := by
  fun_induction linesOf w s with
  | case1 h =>
    simp only [List.length_nil]
    rw [Nat.div_eq_of_lt]; omega
  | case2 s h hs =>
    have := List.length_pos_iff.mpr hs
    simp only [List.length_singleton]
    have : s.length + w - 1 = (s.length - 1) + 1 * w := by omega
    rw [this, Nat.add_mul_div_right _ _ (by omega), Nat.div_eq_of_lt (by omega)]
  | case3 s h ih =>
    simp only [List.length_cons, ih, List.length_drop]
    have : s.length + w - 1 = (s.length - w + w - 1) + 1 * w := by omega
    rw [this, Nat.add_mul_div_right _ _ (by omega)]

/-! ### reading the output back with the model's binary line splitter -/

theorem bLines_line (l rest : Bytes) (h : ∀ b ∈ l, b ≠ 10) :
    bLines (l ++ 10 :: rest) = (l ++ [10]) :: bLines rest := by
  induction l with
  | nil => simp [bLines]
  | cons c l ih =>
    have hc : c ≠ 10 := h c (by simp)
    have := ih (fun b hb => h b (by simp [hb]))
    simp [bLines, hc, this]

theorem bLines_lines (ls : List Bytes) (h : ∀ l ∈ ls, ∀ b ∈ l, b ≠ 10) :
    bLines ((ls.map (· ++ [10])).flatten) = ls.map (· ++ [10]) := by
  induction ls with
  | nil => simp [bLines]
  | cons l ls ih =>
    simp only [List.map_cons, List.flatten_cons, List.append_assoc, List.singleton_append]
    rw [bLines_line l _ (h l (by simp)), ih (fun l' hl' => h l' (by simp [hl']))]

theorem mem_linesOf (w : Nat) (s : Bytes) : ∀ l ∈ linesOf w s, ∀ b ∈ l, b ∈ s := by
  intro l hl b hb
  rw [← linesOf_flatten w s]
  exact List.mem_flatten.mpr ⟨l, hl, hb⟩

end AgpTpf.WrapProofs
