/-
  C02 — helper lemmas for M2 (`trimLargeOverhangs` guards), M5 (`trimFragment` cuts at the bait coordinate) and
  M6 (`toScaffoldRows` orientation).
-/
import AgpTpf.Properties.C18
namespace AgpTpf.C02
open AgpTpf OverlapResult
open AgpTpf.C18

/-! ## M2 — `trim_large_overhangs` -/

/-- the early return of `trim_large_overhangs`: a single row under a bait longer than the error length -/
def EarlyKeep (o : OverlapResult) (err : Int) : Prop := o.rows.length = 1 ∧ o.bait.length > err

/-- the condition under which `discard_start()` is called -/
def StartGuard (o : OverlapResult) (err : Int) : Prop :=
  o.startOverhang > err ∧ ∃ ov, o.startRowBaitOverlap = .ok ov ∧ ov < err

/-- the condition under which `discard_end()` is called (evaluated on the result AFTER the start was handled) -/
def EndGuard (o : OverlapResult) (err : Int) : Prop :=
  o.endOverhang > err ∧ ∃ ov, o.endRowBaitOverlap = .ok ov ∧ ov < err

/-- complete case analysis of an accepted `trim_large_overhangs` -/
theorem trimLarge_char {o o' : OverlapResult} {err : Int} (h : trimLargeOverhangs o err = .ok o') :
    (EarlyKeep o err ∧ o' = o) ∨
    (¬ EarlyKeep o err ∧
      ∃ o1, ((StartGuard o err ∧ discardStart o = .ok o1) ∨ (¬ StartGuard o err ∧ o1 = o)) ∧
        ((StartGuard o err ∧ o1.rows = [] ∧ o' = o1) ∨
         (¬ (StartGuard o err ∧ o1.rows = []) ∧
            ((EndGuard o1 err ∧ discardEnd o1 = .ok o') ∨ (¬ EndGuard o1 err ∧ o' = o1))))) := by
  unfold trimLargeOverhangs at h
  split at h
  · rename_i he; cases h; exact Or.inl ⟨he, rfl⟩
  · rename_i he
    refine Or.inr ⟨he, ?_⟩
    have key : ∀ (o1 : OverlapResult) (d : Bool),
        (if (d = true ∧ o1.rows.isEmpty = true) then (pure o1 : R OverlapResult)
         else if o1.endOverhang > err then do
           let ov ← o1.endRowBaitOverlap
           if ov < err then o1.discardEnd else pure o1
         else pure o1) = .ok o' →
        (d = true ∧ o1.rows = [] ∧ o' = o1) ∨
        (¬ (d = true ∧ o1.rows = []) ∧
          ((EndGuard o1 err ∧ discardEnd o1 = .ok o') ∨ (¬ EndGuard o1 err ∧ o' = o1))) := by
      intro o1 d h2
      split at h2
      · rename_i hc
        cases h2
        exact Or.inl ⟨hc.1, List.isEmpty_iff.mp hc.2, rfl⟩
      · rename_i hc
        have hc' : ¬ (d = true ∧ o1.rows = []) := fun hh => hc ⟨hh.1, List.isEmpty_iff.mpr hh.2⟩
        refine Or.inr ⟨hc', ?_⟩
        split at h2
        · rename_i hov
          cases hv : o1.endRowBaitOverlap with
          | error e => rw [hv] at h2; cases h2
          | ok ov =>
            rw [hv] at h2
            simp only [bind, Except.bind] at h2
            split at h2
            · rename_i hlt; exact Or.inl ⟨⟨hov, ov, hv, hlt⟩, h2⟩
            · rename_i hlt
              cases h2
              refine Or.inr ⟨?_, rfl⟩
              rintro ⟨_, ov', hv', hlt'⟩
              rw [hv] at hv'; cases hv'; exact hlt hlt'
        · rename_i hov
          cases h2
          exact Or.inr ⟨fun hg => hov hg.1, rfl⟩
    split at h
    · rename_i hso
      cases hov : o.startRowBaitOverlap with
      | error e => rw [hov] at h; cases h
      | ok ov =>
        rw [hov] at h
        simp only [bind, Except.bind] at h
        split at h
        · rename_i hlt
          have hg : StartGuard o err := ⟨hso, ov, hov, hlt⟩
          cases hd : o.discardStart with
          | error e => rw [hd] at h; cases h
          | ok o1 =>
            rw [hd] at h
            refine ⟨o1, Or.inl ⟨hg, rfl⟩, ?_⟩
            rcases key o1 true h with ⟨_, h1, h2⟩ | ⟨h1, h2⟩
            · exact Or.inl ⟨hg, h1, h2⟩
            · exact Or.inr ⟨fun hh => h1 ⟨rfl, hh.2⟩, h2⟩
        · rename_i hlt
          have hg : ¬ StartGuard o err := by
            rintro ⟨_, ov', hv', hlt'⟩
            rw [hov] at hv'; cases hv'; exact hlt hlt'
          refine ⟨o, Or.inr ⟨hg, rfl⟩, ?_⟩
          rcases key o false h with ⟨h0, _, _⟩ | ⟨_, h2⟩
          · cases h0
          · exact Or.inr ⟨fun hh => hg hh.1, h2⟩
    · rename_i hso
      have hg : ¬ StartGuard o err := fun hh => hso hh.1
      refine ⟨o, Or.inr ⟨hg, rfl⟩, ?_⟩
      rcases key o false h with ⟨h0, _, _⟩ | ⟨_, h2⟩
      · cases h0
      · exact Or.inr ⟨fun hh => hg hh.1, h2⟩

/-- the start is discarded ONLY IF the guard holds; otherwise the only thing that can have happened is the end discard -/
theorem trimLarge_start {o o' : OverlapResult} {err : Int} (h : trimLargeOverhangs o err = .ok o') :
    (¬ EarlyKeep o err ∧ StartGuard o err ∧
      ∃ o1, discardStart o = .ok o1 ∧ (o' = o1 ∨ (o1.rows ≠ [] ∧ EndGuard o1 err ∧ discardEnd o1 = .ok o'))) ∨
    (¬ (¬ EarlyKeep o err ∧ StartGuard o err) ∧
      (o' = o ∨ (¬ EarlyKeep o err ∧ EndGuard o err ∧ discardEnd o = .ok o'))) := by
  rcases trimLarge_char h with ⟨he, rfl⟩ | ⟨he, o1, h1, h2⟩
  · exact Or.inr ⟨fun hh => hh.1 he, Or.inl rfl⟩
  · rcases h1 with ⟨hg, hd⟩ | ⟨hg, rfl⟩
    · refine Or.inl ⟨he, hg, o1, hd, ?_⟩
      rcases h2 with ⟨_, _, h3⟩ | ⟨hne, h3⟩
      · exact Or.inl h3
      · rcases h3 with ⟨h4, h5⟩ | ⟨_, h5⟩
        · exact Or.inr ⟨fun hh => hne ⟨hg, hh⟩, h4, h5⟩
        · exact Or.inl h5
    · refine Or.inr ⟨fun hh => hg hh.2, ?_⟩
      rcases h2 with ⟨hg', _, _⟩ | ⟨_, h3⟩
      · exact absurd hg' hg
      · rcases h3 with ⟨h4, h5⟩ | ⟨_, h5⟩
        · exact Or.inr ⟨he, h4, h5⟩
        · exact Or.inl h5

/-- `discard_end` on a result with ≥ 2 rows whose first row is a fragment keeps that first row and `start` -/
theorem discardEnd_keeps_head {o o' : OverlapResult} {f : Fragment} {t : List Row} (hr : o.rows = .frag f :: t)
    (ht : t ≠ []) (h : discardEnd o = .ok o') : ∃ t', o'.rows = .frag f :: t' ∧ o'.start = o.start ∧ o'.bait = o.bait := by
  unfold discardEnd at h
  split at h
  · cases h
  · rename_i d r hrev
    obtain ⟨G, T, hL, hG, hp, _⟩ := popLeadingGaps_spec r d.length
    rw [hp] at h
    simp only [Except.ok.injEq] at h
    subst h
    have h1 := congrArg List.reverse hrev
    simp only [List.reverse_reverse, List.reverse_cons, hL, List.reverse_append] at h1
    -- o.rows = T.reverse ++ G.reverse ++ [d]
    rw [hr] at h1
    cases hT : T.reverse with
    | nil =>
      rw [hT, List.nil_append] at h1
      cases hGr : G.reverse with
      | nil =>
        rw [hGr, List.nil_append] at h1
        simp only [List.cons.injEq] at h1
        exact absurd h1.2 ht
      | cons g G' =>
        rw [hGr] at h1
        simp only [List.cons_append, List.cons.injEq] at h1
        have : g ∈ G := by rw [← List.mem_reverse, hGr]; simp
        have := hG g this
        rw [← h1.1] at this
        simp [Row.isGap] at this
    | cons x T' =>
      rw [hT] at h1
      simp only [List.cons_append, List.cons.injEq] at h1
      exact ⟨T', by simp only [h1.1], rfl, rfl⟩

/-- `discard_start` on a result with ≥ 2 rows whose last row is a fragment keeps that last row and `stop` -/
theorem discardStart_keeps_last {o o' : OverlapResult} {f : Fragment} {t : List Row} (hr : o.rows = t ++ [.frag f])
    (ht : t ≠ []) (h : discardStart o = .ok o') : ∃ t', o'.rows = t' ++ [.frag f] ∧ o'.stop = o.stop ∧ o'.bait = o.bait := by
  unfold discardStart at h
  split at h
  · cases h
  · rename_i d r hrows
    obtain ⟨G, T, hL, hG, hp, _⟩ := popLeadingGaps_spec r (o.start + d.length)
    rw [hp] at h
    simp only [Except.ok.injEq] at h
    subst h
    -- o.rows = d :: G ++ T
    rw [hr, hL] at hrows
    rcases list_nil_or_concat T with hT | ⟨T', x, hT⟩
    · subst hT
      rw [List.append_nil] at hrows
      rcases list_nil_or_concat G with hG0 | ⟨G', g, hG0⟩
      · subst hG0
        have := congrArg List.length hrows
        simp at this
        exact absurd this ht
      · subst hG0
        have h2 : t ++ [Row.frag f] = (d :: G') ++ [g] := by simpa using hrows
        have h3 := List.append_inj_right' h2 rfl
        simp only [List.cons.injEq, and_true] at h3
        have := hG g (by simp)
        rw [← h3] at this
        simp [Row.isGap] at this
    · subst hT
      have h2 : t ++ [Row.frag f] = (d :: G ++ T') ++ [x] := by simpa using hrows
      have h3 := List.append_inj_right' h2 rfl
      simp only [List.cons.injEq, and_true] at h3
      exact ⟨T', by simp only; rw [h3], rfl, rfl⟩

/-- a first row whose bait overlap is ≥ err is not discarded (≥ 2 rows, terminal rows are fragments) -/
theorem trimLarge_first_survives {o o' : OverlapResult} {err ov : Int} {f : Fragment} {t : List Row}
    (hr : o.rows = .frag f :: t) (ht : t ≠ [])
    (hov : o.startRowBaitOverlap = .ok ov) (hge : err ≤ ov)
    (h : trimLargeOverhangs o err = .ok o') :
    (∃ t', o'.rows = .frag f :: t') ∧ o'.start = o.start ∧
      (o' = o ∨ (EndGuard o err ∧ discardEnd o = .ok o')) := by
  have hng : ¬ StartGuard o err := by
    rintro ⟨_, ov', hv', hlt⟩
    rw [hov] at hv'; cases hv'; omega
  rcases trimLarge_start h with ⟨_, hg, _⟩ | ⟨_, h2⟩
  · exact absurd hg hng
  · rcases h2 with rfl | ⟨_, hg, hd⟩
    · exact ⟨⟨t, hr⟩, rfl, Or.inl rfl⟩
    · obtain ⟨t', h1, h2, _⟩ := discardEnd_keeps_head hr ht hd
      exact ⟨⟨t', h1⟩, h2, Or.inr ⟨hg, hd⟩⟩

/-- a last row whose bait overlap is ≥ err is not discarded (≥ 2 rows, terminal rows are fragments) -/
theorem trimLarge_last_survives {o o' : OverlapResult} {err ov : Int} {f : Fragment} {t : List Row}
    (hr : o.rows = t ++ [.frag f]) (ht : t ≠ [])
    (hov : o.endRowBaitOverlap = .ok ov) (hge : err ≤ ov)
    (h : trimLargeOverhangs o err = .ok o') :
    (∃ t', o'.rows = t' ++ [.frag f]) ∧ o'.stop = o.stop ∧
      (o' = o ∨ (StartGuard o err ∧ discardStart o = .ok o')) := by
  have hne : ¬ EndGuard o err := by
    rintro ⟨_, ov', hv', hlt⟩
    rw [hov] at hv'; cases hv'; omega
  rcases trimLarge_start h with ⟨_, hg, o1, hd, h2⟩ | ⟨_, h2⟩
  · obtain ⟨t', h3, h4, h5⟩ := discardStart_keeps_last hr ht hd
    have hne1 : ¬ EndGuard o1 err := by
      rintro ⟨h6, ov', hv', hlt⟩
      have e1 := endRowBaitOverlap_ok h3
      have e0 := endRowBaitOverlap_ok hr
      rw [h4, h5] at e1
      rw [e1] at hv'
      rw [e0] at hov
      rw [hov] at hv'
      cases hv'; omega
    rcases h2 with rfl | ⟨_, hg1, _⟩
    · exact ⟨⟨t', h3⟩, h4, Or.inr ⟨hg, hd⟩⟩
    · exact absurd hg1 hne1
  · rcases h2 with rfl | ⟨_, hg, _⟩
    · exact ⟨⟨t, hr⟩, rfl, Or.inl rfl⟩
    · exact absurd hg hne

/-- a single row (span consistent with the row, as the C18 invariant guarantees) whose bait overlap is ≥ err:
    nothing is discarded, at either end -/
theorem trimLarge_single_survives {o o' : OverlapResult} {err ov : Int} {r : Row}
    (hr : o.rows = [r]) (hspan : o.stop - o.start + 1 = r.length)
    (hov : o.startRowBaitOverlap = .ok ov) (hge : err ≤ ov)
    (h : trimLargeOverhangs o err = .ok o') : o' = o := by
  have hng : ¬ StartGuard o err := by
    rintro ⟨_, ov', hv', hlt⟩
    rw [hov] at hv'; cases hv'; omega
  have hne : ¬ EndGuard o err := by
    rintro ⟨_, ov', hv', hlt⟩
    have e0 := startRowBaitOverlap_ok (o := o) (r := r) (t := []) hr
    have e1 := endRowBaitOverlap_ok (o := o) (r := r) (t := []) (by simpa using hr)
    rw [e0] at hov; rw [e1] at hv'
    cases hov; cases hv'
    have h1 : o.start + r.length - 1 = o.stop := by omega
    have h2 : o.stop - r.length + 1 = o.start := by omega
    rw [h1] at hge; rw [h2] at hlt
    omega
  rcases trimLarge_start h with ⟨_, hg, _⟩ | ⟨_, h2⟩
  · exact absurd hg hng
  · rcases h2 with rfl | ⟨_, hg, _⟩
    · rfl
    · exact absurd hg hne

/-- the early return: a single row is never discarded when the bait is longer than the error length -/
theorem trimLarge_single_long {o : OverlapResult} {err : Int} (h1 : o.rows.length = 1) (h2 : o.bait.length > err) :
    trimLargeOverhangs o err = .ok o := by
  unfold trimLargeOverhangs
  rw [if_pos ⟨h1, h2⟩]

/-! ## M5 — `trim_fragment` cuts exactly at the bait coordinate -/

theorem lastIs_ok_of_ne {o : OverlapResult} (f : Fragment) (h : o.rows ≠ []) : ∃ b, lastIs o f = .ok b := by
  rcases list_nil_or_concat o.rows with h0 | ⟨t, x, h0⟩
  · exact absurd h0 h
  · exact ⟨_, lastIs_concat o f x t h0⟩

theorem firstIs_ok_of_ne {o : OverlapResult} (f : Fragment) (h : o.rows ≠ []) : ∃ a, firstIs o f = .ok a := by
  cases h0 : o.rows with
  | nil => exact absurd h0 h
  | cons x t => exact ⟨_, firstIs_cons o f x t h0⟩

/-- start side, `f` is the first row -/
theorem trimFragment_start {o o' : OverlapResult} {f new : Fragment} {t : List Row} {ks ke : Bool} {oid : Nat}
    (hr : o.rows = .frag f :: t) (h : trimFragment o f ks ke oid = .ok (o', new)) :
    ∃ d1 : Int, d1 = (if o.startOverhang > 0 ∧ ks = false then o.startOverhang else 0) ∧
      o'.start = o.start + d1 ∧ o'.bait = o.bait ∧
      (if f.strand = 1 then new.start = f.start + d1 else new.stop = f.stop - d1) := by
  have hs : firstIs o f = .ok true := by rw [firstIs_cons o f _ t hr, rowIs_self]
  obtain ⟨b, he⟩ := lastIs_ok_of_ne f (by rw [hr]; simp : o.rows ≠ [])
  obtain ⟨d1, d2, h1, _, _, h4, _, h6, _, _, _, _, h11, _⟩ := trimFragment_spec hs he h
  refine ⟨d1, ?_, h4, h6, ?_⟩
  · rw [h1]; simp
  · split at h11
    · rename_i hs1; rw [if_pos hs1]; exact h11.1
    · rename_i hs1; rw [if_neg hs1]; exact h11.2

/-- end side, `f` is the last row -/
theorem trimFragment_end {o o' : OverlapResult} {f new : Fragment} {t : List Row} {ks ke : Bool} {oid : Nat}
    (hr : o.rows = t ++ [.frag f]) (h : trimFragment o f ks ke oid = .ok (o', new)) :
    ∃ d2 : Int, d2 = (if o.endOverhang > 0 ∧ ke = false then o.endOverhang else 0) ∧
      o'.stop = o.stop - d2 ∧ o'.bait = o.bait ∧
      (if f.strand = 1 then new.stop = f.stop - d2 else new.start = f.start + d2) := by
  have he : lastIs o f = .ok true := by rw [lastIs_concat o f _ t hr, rowIs_self]
  obtain ⟨a, hs⟩ := firstIs_ok_of_ne f (by rw [hr]; simp : o.rows ≠ [])
  obtain ⟨d1, d2, _, h2, _, _, h5, h6, _, _, _, _, h11, _⟩ := trimFragment_spec hs he h
  refine ⟨d2, ?_, h5, h6, ?_⟩
  · rw [h2]; simp
  · split at h11
    · rename_i hs1; rw [if_pos hs1]; exact h11.2
    · rename_i hs1; rw [if_neg hs1]; exact h11.1

/-! ## M6 — `to_scaffold` -/

/-- a row with its strand multiplied by the piece orientation `s` -/
def orientRow (s : Int) : Row → Row
  | .frag f => .frag { f with strand := f.strand * s }
  | .gap g => .gap g

theorem orientRow_one (r : Row) : orientRow 1 r = r := by
  cases r with
  | frag f => simp [orientRow]
  | gap g => rfl

theorem orientRow_neg_one (r : Row) : orientRow (-1) r = Row.reverse r := by
  cases r with
  | frag f =>
    simp only [orientRow, Row.reverse, Fragment.reverse]
    congr 2; omega
  | gap g => rfl

theorem map_orientRow_one (l : List Row) : l.map (orientRow 1) = l := by
  induction l with
  | nil => rfl
  | cons r l ih => rw [List.map_cons, orientRow_one, ih]

theorem toScaffoldRows_plus {o : OverlapResult} (h : o.bait.strand ≠ -1) : toScaffoldRows o = o.rows := by
  unfold toScaffoldRows; rw [if_neg h]

theorem toScaffoldRows_minus {o : OverlapResult} (h : o.bait.strand = -1) :
    toScaffoldRows o = o.rows.reverse.map Row.reverse := by
  unfold toScaffoldRows; rw [if_pos h]

theorem toScaffoldRows_orient {o : OverlapResult} (h : o.bait.strand = 1 ∨ o.bait.strand = -1) :
    toScaffoldRows o = (if o.bait.strand = -1 then o.rows.reverse else o.rows).map (orientRow o.bait.strand) := by
  rcases h with h | h
  · rw [toScaffoldRows_plus (by omega), if_neg (by omega), h, map_orientRow_one]
  · rw [toScaffoldRows_minus h, if_pos h, h]
    apply List.map_congr_left
    intro r _
    exact (orientRow_neg_one r).symm

theorem toScaffoldRows_length (o : OverlapResult) : (toScaffoldRows o).length = o.rows.length := by
  unfold toScaffoldRows; split <;> simp

end AgpTpf.C02
