/-
  C02 (aligned maps), part 1: `find_assembly_overlaps` when every Pretext piece has a lookup result that needs no trimming
  and no contig is claimed by two pieces.  Generalises `Proofs/C08Find.lean` (piece = whole scaffold) to arbitrary pieces.
-/
import AgpTpf.Proofs.C08Remap
namespace AgpTpf.C02
open AgpTpf
open AgpTpf.C08 (NamerPlain namedPlain namedPlain_plain makeScaffoldName_plain firstRowName_cons_frag labelScaffold_plain
  trimLargeOverhangs_id storeFragmentsFound_fresh renameBySize_nil faoStep findAssemblyOverlaps_eq foundEntries)

/-! ### the pieces and their lookup results -/

/-- the lookup `process_bait` performs for the Pretext fragment `p`: the input scaffold named `p.name`, then
    `find_overlaps` on it; `none` when the scaffold does not exist, the lookup raises or finds nothing -/
def lookupPiece (input : List Scaffold) (p : Fragment) : Option OverlapResult :=
  match input.find? (fun s => s.name = p.name) with
  | some sc =>
    match findOverlaps sc.rows p with
    | .ok (some o) => some o
    | _ => none
  | none => none

/-- the lookup result of piece `p` (meaningful under `PieceAligned`) -/
def pieceO (input : List Scaffold) (p : Fragment) : OverlapResult := (lookupPiece input p).getD default

/-- keys of the contigs piece `p` claims -/
def pieceKeys (input : List Scaffold) (p : Fragment) : List Key :=
  (fragmentsOf (pieceO input p).rows).map Fragment.keyTuple

/-- all claimed contig keys, in Pretext order -/
def claimedKeys (input ptx : List Scaffold) : List Key :=
  ptx.flatMap (fun S => S.fragments.flatMap (pieceKeys input))

/-- the name an UNPAINTED Pretext scaffold's output gets: the name of its first row (= the input scaffold of its first
    piece) -/
def outName (S : Scaffold) : Str :=
  match S.rows with
  | .frag f :: _ => f.name
  | _ => []

/-- hypotheses on one piece: it has a lookup result, neither end of which sticks out by more than the error length
    (nothing for `trim_large_overhangs` to discard), and it carries no tags -/
structure PieceAligned (input : List Scaffold) (err : Int) (p : Fragment) : Prop where
  found : (lookupPiece input p).isSome = true
  startOk : (pieceO input p).startOverhang ≤ err
  endOk : (pieceO input p).endOverhang ≤ err
  untagged : p.tags = []

theorem lookupPiece_spec {input : List Scaffold} {p : Fragment} (h : (lookupPiece input p).isSome = true) :
    ∃ sc, input.find? (fun s => s.name = p.name) = some sc ∧ findOverlaps sc.rows p = .ok (some (pieceO input p)) := by
  unfold pieceO
  unfold lookupPiece at h ⊢
  cases hf : input.find? (fun s => s.name = p.name) with
  | none => rw [hf] at h; cases h
  | some sc =>
    rw [hf] at h
    refine ⟨sc, rfl, ?_⟩
    simp only at h ⊢
    cases hfo : findOverlaps sc.rows p with
    | error e => rw [hfo] at h; cases h
    | ok r =>
      cases r with
      | none => rw [hfo] at h; cases h
      | some o => rfl

/-- a fresh lookup result is for the bait given, carries no tag, and (non-negative row lengths) is not empty -/
theorem findOverlaps_shape (rows : List Row) (bait : Fragment) (o : OverlapResult) (hlen : ∀ r ∈ rows, 0 ≤ r.length)
    (h : findOverlaps rows bait = .ok (some o)) : o.bait = bait ∧ o.tag = none ∧ o.rows ≠ [] ∧ o.rows <:+: rows := by
  have hne : rows ≠ [] := by
    intro e; subst e; simp [findOverlaps] at h
  rcases C12.findOverlaps_cases rows bait hne hlen with ⟨h', -⟩ | ⟨i, j, hij, hj, h', -⟩
  · rw [h'] at h; cases h
  · rw [h'] at h
    simp only [Except.ok.injEq, Option.some.injEq] at h
    subst h
    refine ⟨rfl, rfl, ?_, ?_⟩
    · intro e
      have := congrArg List.length e
      simp only [List.length_take, List.length_drop, List.length_nil] at this
      omega
    · exact (List.take_prefix _ _).isInfix.trans (List.drop_suffix _ _).isInfix

/-! ### tags -/

theorem fragmentTags_nil_of_untagged (S : Scaffold) (h : ∀ f ∈ S.fragments, f.tags = []) : S.fragmentTags = [] := by
  unfold Scaffold.fragmentTags
  generalize S.fragments = l at h
  induction l with
  | nil => rfl
  | cons f r ih =>
    simp only [List.foldl_cons, h f (by simp), List.filter_nil, List.foldl_nil]
    exact ih (fun g hg => h g (by simp [hg]))

/-! ### one piece -/

/-- what the build stores for piece `p` of an untagged, unpainted Pretext scaffold `S` -/
def labelled (S : Scaffold) (o : OverlapResult) : OverlapResult :=
  { o with name := outName S, tag := none, haplotype := none, rank := 3,
           originalName := some S.name, originalTags := some [] }

def pieceRes (input : List Scaffold) (S : Scaffold) (p : Fragment) : Res :=
  { o := labelled S (pieceO input p), added := true }

/-- the fields of a build that `find_assembly_overlaps` does not touch (or only through the namer) -/
def SameRest (b b' : Build) : Prop :=
  b'.multi = b.multi ∧ b'.extra = b.extra ∧ b'.cuts = b.cuts ∧ b'.joinGap = b.joinGap ∧ b'.err = b.err

theorem SameRest.refl (b : Build) : SameRest b b := ⟨rfl, rfl, rfl, rfl, rfl⟩
theorem SameRest.trans {a b c : Build} (h1 : SameRest a b) (h2 : SameRest b c) : SameRest a c :=
  ⟨h2.1.trans h1.1, h2.2.1.trans h1.2.1, h2.2.2.1.trans h1.2.2.1, h2.2.2.2.1.trans h1.2.2.2.1,
   h2.2.2.2.2.trans h1.2.2.2.2⟩

theorem processBait_aligned (input : List Scaffold) (S : Scaffold) (p : Fragment) (b : Build)
    (hlen : ∀ sc ∈ input, ∀ r ∈ sc.rows, 0 ≤ r.length) (hp : PieceAligned input b.err p)
    (hcur : b.namer.currentScaffoldName = some (outName S)) (hrank : b.namer.currentRank = 3)
    (hhap : b.namer.currentHaplotype = none) (htar : b.namer.targetTags = false)
    (hnd : (pieceKeys input p).Nodup)
    (hfresh : ∀ k ∈ pieceKeys input p, k ∉ b.found.map (·.1)) :
    ∃ b', processBait input [] S.name b p = .ok b' ∧ b'.store = b.store ++ [pieceRes input S p] ∧
      b'.found.map (·.1) = b.found.map (·.1) ++ pieceKeys input p ∧ b'.namer = b.namer ∧ SameRest b b' := by
  obtain ⟨sc, hfind, hfo⟩ := lookupPiece_spec hp.found
  have hsc : sc ∈ input := List.mem_of_find?_eq_some hfind
  obtain ⟨hbait, htag, hrows, -⟩ := findOverlaps_shape sc.rows p _ (hlen sc hsc) hfo
  have h1 : lookupScaffold input p.name = .ok sc := by unfold lookupScaffold; rw [hfind]
  have hne : (pieceO input p).rows.isEmpty = false := by
    cases h : (pieceO input p).rows <;> simp_all
  unfold processBait
  simp only [h1, hfo, bind, Except.bind]
  rw [labelScaffold_plain b.namer _ _ p S.name (outName S) hp.untagged htar hcur]
  simp only []
  rw [trimLargeOverhangs_id]
  · simp only [hne, Bool.false_eq_true, if_false, pure, Except.pure]
    rw [storeFragmentsFound_fresh]
    · refine ⟨_, rfl, ?_, ?_, rfl, ⟨rfl, rfl, rfl, rfl, rfl⟩⟩
      · simp [pieceRes, labelled, hhap, hrank, htag]
      · simp [foundEntries, pieceKeys, Function.comp_def]
    · exact hnd
    · intro f hf
      exact hfresh _ (List.mem_map_of_mem hf)
  · exact hp.startOk
  · exact hp.endOk

/-- all pieces of one Pretext scaffold -/
theorem processBaits_aligned (input : List Scaffold) (S : Scaffold) (ps : List Fragment) (b : Build)
    (hlen : ∀ sc ∈ input, ∀ r ∈ sc.rows, 0 ≤ r.length) (hp : ∀ p ∈ ps, PieceAligned input b.err p)
    (hcur : b.namer.currentScaffoldName = some (outName S)) (hrank : b.namer.currentRank = 3)
    (hhap : b.namer.currentHaplotype = none) (htar : b.namer.targetTags = false)
    (hnd : (ps.flatMap (pieceKeys input)).Nodup)
    (hfresh : ∀ k ∈ ps.flatMap (pieceKeys input), k ∉ b.found.map (·.1)) :
    ∃ b', ps.foldlM (processBait input [] S.name) b = .ok b' ∧ b'.store = b.store ++ ps.map (pieceRes input S) ∧
      b'.found.map (·.1) = b.found.map (·.1) ++ ps.flatMap (pieceKeys input) ∧ b'.namer = b.namer ∧ SameRest b b' := by
  induction ps generalizing b with
  | nil => exact ⟨b, rfl, by simp, by simp, rfl, SameRest.refl b⟩
  | cons p r ih =>
    rw [List.flatMap_cons, List.nodup_append] at hnd
    obtain ⟨hnd1, hnd2, hnd3⟩ := hnd
    obtain ⟨b1, e1, s1, f1, n1, r1⟩ := processBait_aligned input S p b hlen (hp p (by simp)) hcur hrank hhap htar hnd1
      (fun k hk => hfresh k (by simp [hk]))
    obtain ⟨b2, e2, s2, f2, n2, r2⟩ := ih b1 (fun q hq => by rw [r1.2.2.2.2]; exact hp q (by simp [hq]))
      (by rw [n1]; exact hcur) (by rw [n1]; exact hrank) (by rw [n1]; exact hhap) (by rw [n1]; exact htar) hnd2
      (by
        intro k hk
        rw [f1]
        simp only [List.mem_append, not_or]
        exact ⟨hfresh k (by simp only [List.flatMap_cons, List.mem_append]; exact Or.inr hk),
          fun hk' => hnd3 k hk' k hk rfl⟩)
    refine ⟨b2, ?_, ?_, ?_, n2.trans n1, r1.trans r2⟩
    · simp only [List.foldlM_cons, e1, bind, Except.bind]; exact e2
    · rw [s2, s1]; simp
    · rw [f2, f1]; simp

/-! ### one Pretext scaffold, all Pretext scaffolds -/

/-- hypotheses on one Pretext scaffold: it begins with a fragment row, all its pieces are aligned, and the name of its
    first row does not have the shape `<hap>_…_<digits>` -/
structure ScaffoldAligned (input : List Scaffold) (err : Int) (S : Scaffold) : Prop where
  head : ∃ f r, S.rows = .frag f :: r
  pieces : ∀ p ∈ S.fragments, PieceAligned input err p
  noHap : hapPrefixOfName (outName S) = none

theorem faoStep_aligned (input : List Scaffold) (S : Scaffold) (b : Build)
    (hlen : ∀ sc ∈ input, ∀ r ∈ sc.rows, 0 ≤ r.length) (hS : ScaffoldAligned input b.err S)
    (hplain : NamerPlain b.namer)
    (hnd : (S.fragments.flatMap (pieceKeys input)).Nodup)
    (hfresh : ∀ k ∈ S.fragments.flatMap (pieceKeys input), k ∉ b.found.map (·.1)) :
    ∃ b', faoStep input b S = .ok b' ∧ b'.store = b.store ++ S.fragments.map (pieceRes input S) ∧
      b'.found.map (·.1) = b.found.map (·.1) ++ S.fragments.flatMap (pieceKeys input) ∧
      NamerPlain b'.namer ∧ b'.namer.autosomePrefix = b.namer.autosomePrefix ∧ SameRest b b' := by
  obtain ⟨f0, r0, hrows⟩ := hS.head
  have hon : outName S = f0.name := by unfold outName; rw [hrows]
  have htags : S.fragmentTags = [] := fragmentTags_nil_of_untagged S (fun f hf => (hS.pieces f hf).untagged)
  have h1 : makeScaffoldName b.namer S.name S.rows [] = .ok (namedPlain b.namer (outName S)) := by
    rw [hon]
    exact makeScaffoldName_plain b.namer _ f0.name _ hplain.primary (by rw [hrows]; exact firstRowName_cons_frag _ _)
      (by rw [← hon]; exact hS.noHap)
  obtain ⟨b1, e1, s1, f1, n1, r1⟩ := processBaits_aligned input S S.fragments
    { b with namer := namedPlain b.namer (outName S) } hlen hS.pieces rfl rfl rfl hplain.target hnd hfresh
  unfold faoStep
  rw [htags]
  simp only [h1, bind, Except.bind, e1, pure, Except.pure]
  have hun : b1.namer.unlocScaffolds = [] := by rw [n1]; rfl
  refine ⟨_, rfl, ?_, f1, ?_, ?_, ?_⟩
  · simp only [hun, renameBySize_nil]; exact s1
  · show NamerPlain b1.namer
    rw [n1]; exact namedPlain_plain hplain _
  · show b1.namer.autosomePrefix = _
    rw [n1]; rfl
  · exact r1

/-- the store `find_assembly_overlaps` builds: one result per piece, in Pretext order -/
def expectedStore (input ptx : List Scaffold) : List Res :=
  ptx.flatMap (fun S => S.fragments.map (pieceRes input S))

theorem findAssemblyOverlaps_aligned (input ptx : List Scaffold) (b : Build)
    (hlen : ∀ sc ∈ input, ∀ r ∈ sc.rows, 0 ≤ r.length) (hS : ∀ S ∈ ptx, ScaffoldAligned input b.err S)
    (hplain : NamerPlain b.namer)
    (hnd : (claimedKeys input ptx).Nodup)
    (hfresh : ∀ k ∈ claimedKeys input ptx, k ∉ b.found.map (·.1)) :
    ∃ b', findAssemblyOverlaps input ptx b = .ok b' ∧ b'.store = b.store ++ expectedStore input ptx ∧
      b'.found.map (·.1) = b.found.map (·.1) ++ claimedKeys input ptx ∧
      NamerPlain b'.namer ∧ b'.namer.autosomePrefix = b.namer.autosomePrefix ∧ SameRest b b' := by
  rw [findAssemblyOverlaps_eq]
  induction ptx generalizing b with
  | nil => exact ⟨b, rfl, by simp [expectedStore], by simp [claimedKeys], hplain, rfl, SameRest.refl b⟩
  | cons S r ih =>
    unfold claimedKeys at hnd hfresh
    rw [List.flatMap_cons, List.nodup_append] at hnd
    obtain ⟨hnd1, hnd2, hnd3⟩ := hnd
    obtain ⟨b1, e1, s1, f1, p1, a1, r1⟩ := faoStep_aligned input S b hlen (hS S (by simp)) hplain hnd1
      (fun k hk => hfresh k (by simp only [List.flatMap_cons, List.mem_append]; exact Or.inl hk))
    obtain ⟨b2, e2, s2, f2, p2, a2, r2⟩ := ih b1 (fun T hT => by rw [r1.2.2.2.2]; exact hS T (by simp [hT])) p1 hnd2
      (by
        intro k hk
        rw [f1]
        simp only [List.mem_append, not_or]
        exact ⟨hfresh k (by simp only [List.flatMap_cons, List.mem_append]; exact Or.inr hk),
          fun hk' => hnd3 k hk' k hk rfl⟩)
    refine ⟨b2, ?_, ?_, ?_, p2, a2.trans a1, r1.trans r2⟩
    · simp only [List.foldlM_cons, e1, bind, Except.bind]; exact e2
    · rw [s2, s1]; simp [expectedStore]
    · rw [f2, f1]; simp [claimedKeys]

end AgpTpf.C02
