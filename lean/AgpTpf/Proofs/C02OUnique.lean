/-
  C02 order, part 3: uniqueness for a well-formed input (`C01.WFInput`), from C01 `remap_exactly_once`.
  * `frag_one_fused`          two fused scaffolds holding fragments that share a contig base are the same fused scaffold
                              (same POSITION in `fuseByName b`, hence same `(tag, haplotype, name)` key);
  * `same_scaffold_same_key`  two store results with a fragment each inside ONE output scaffold have the same key;
  * `order_unique`            the output scaffold of `output_order` is the only one holding a base of either piece.
-/
import AgpTpf.Model.Remap
import AgpTpf.Proofs.C02OOut
import AgpTpf.Proofs.C02KOut
import AgpTpf.Properties.C01
namespace AgpTpf.C02
open AgpTpf Dict
open AgpTpf.C09 (FKey triple noName routeKey)
open AgpTpf.C01 (WFInput)

theorem ordMem_two_split {α} (l : List α) (x y : α) (hx : x ∈ l) (hy : y ∈ l) (hne : x ≠ y) :
    ∃ X Y Z, l = X ++ x :: (Y ++ y :: Z) ∨ l = X ++ y :: (Y ++ x :: Z) := by
  obtain ⟨X, Z, hl⟩ := List.append_of_mem hx
  rw [hl] at hy
  rcases List.mem_append.1 hy with hy | hy
  · obtain ⟨X1, X2, hX⟩ := List.append_of_mem hy
    refine ⟨X1, X2, Z, Or.inr ?_⟩
    rw [hl, hX]; simp
  · rcases List.mem_cons.1 hy with hy | hy
    · exact absurd hy.symm hne
    · obtain ⟨Z1, Z2, hZ⟩ := List.append_of_mem hy
      exact ⟨X, Z1, Z2, Or.inl (by rw [hl, hZ])⟩

theorem ordCountP_flatMap_two {α β} (p : β → Bool) (f : α → List β) (X Y Z : List α) (x y : α) (t t' : β)
    (hx : t ∈ f x) (hy : t' ∈ f y) (ht : p t = true) (ht' : p t' = true) :
    2 ≤ ((X ++ x :: (Y ++ y :: Z)).flatMap f).countP p := by
  have h1 : 1 ≤ (f x).countP p := List.countP_pos_iff.mpr ⟨t, hx, ht⟩
  have h2 : 1 ≤ (f y).countP p := List.countP_pos_iff.mpr ⟨t', hy, ht'⟩
  simp only [List.flatMap_append, List.flatMap_cons, List.countP_append]
  omega

/-- the triples of the output = the triples of the fused scaffolds (as multisets) -/
theorem outputTriples_perm_fused (input : List Scaffold) (b : Build) (outs : List OutAsm) (stats : Stats)
    (haf : assembliesFused input b = .ok (outs, stats)) :
    (C01.outputTriples outs).Perm ((fuseByName b).flatMap (fun s => C01.keysOf s.rows)) := by
  have h1 := C07.assembliesFused_perm input b outs stats haf
  have h2 : C01.outputTriples outs = ((outs.flatMap (·.scaffolds)).map (·.rows)).flatMap C01.keysOf := by
    unfold C01.outputTriples; rw [List.flatMap_map]
  have h3 : ((fuseByName b).flatMap (fun s => C01.keysOf s.rows)) = ((fuseByName b).map (·.rows)).flatMap C01.keysOf := by
    rw [List.flatMap_map]
  rw [h2, h3]
  exact h1.flatMap_right C01.keysOf

/-- **One fused scaffold only.**  Well-formed input, `remap` completes: two fused scaffolds (members of
    `fuseByName b`) holding fragments that share a base of one contig are the same scaffold. -/
theorem frag_one_fused (input ptx : List Scaffold) (prefix_ : Str) (joinGap : Option Gap) (err : Int)
    (outs : List OutAsm) (stats : Stats) (hwf : WFInput input)
    (h : remap input ptx prefix_ joinGap err = .ok (outs, stats))
    (b : Build) (haf : assembliesFused input b = .ok (outs, stats))
    (F F' : Scaffold) (hF : F ∈ fuseByName b) (hF' : F' ∈ fuseByName b) (g g' : Fragment)
    (hg : Row.frag g ∈ F.rows) (hg' : Row.frag g' ∈ F'.rows) (hname : g.name = g'.name) (x : Int)
    (hx : g.start ≤ x ∧ x ≤ g.stop) (hx' : g'.start ≤ x ∧ x ≤ g'.stop) : F = F' := by
  apply Classical.byContradiction
  intro hne
  have hperm := outputTriples_perm_fused input b outs stats haf
  have hk : g.keyTuple ∈ C01.keysOf F.rows := C09.mem_keysOf_of_frag _ _ hg
  have hk' : g'.keyTuple ∈ C01.keysOf F'.rows := C09.mem_keysOf_of_frag _ _ hg'
  have hkO : g.keyTuple ∈ C01.outputTriples outs :=
    hperm.symm.subset (List.mem_flatMap.mpr ⟨F, hF, hk⟩)
  obtain ⟨_, F0, hF0, hFn, hF1, hF2⟩ := (C01.remap_partitions input ptx prefix_ joinGap err outs stats hwf h).2 _ hkO
  have hone := C01.remap_exactly_once input ptx prefix_ joinGap err outs stats hwf h F0 hF0 x
    (by have : g.keyTuple.2.1 = g.start := rfl; omega) (by have : g.keyTuple.2.2 = g.stop := rfl; omega)
  rw [hperm.countP_eq] at hone
  have hn1 : g.keyTuple.1 = g.name := rfl
  have c1 : C01.coversK F0.name x g.keyTuple = true := by
    simp only [C01.coversK, decide_eq_true_eq]
    exact ⟨hFn.symm, hx.1, hx.2⟩
  have c2 : C01.coversK F0.name x g'.keyTuple = true := by
    simp only [C01.coversK, decide_eq_true_eq]
    refine ⟨?_, hx'.1, hx'.2⟩
    show g'.name = F0.name
    rw [← hname, hFn]; rfl
  obtain ⟨X, Y, Z, hl | hl⟩ := ordMem_two_split (fuseByName b) F F' hF hF' hne
  · have := ordCountP_flatMap_two (C01.coversK F0.name x) (fun s : Scaffold => C01.keysOf s.rows) X Y Z F F' _ _ hk hk' c1 c2
    rw [← hl] at this
    omega
  · have := ordCountP_flatMap_two (C01.coversK F0.name x) (fun s : Scaffold => C01.keysOf s.rows) X Y Z F' F _ _ hk' hk c2 c1
    rw [← hl] at this
    omega

/-- **Same output scaffold ⇒ same key.**  Well-formed input.  If one output scaffold `s` holds a fragment `gi` of the
    (added, non-empty) stored result `ri` and a fragment `gj` of `rj`, then `ri` and `rj` have the same
    `(tag, haplotype, name)` key — they were fused into one scaffold, not merely renamed alike. -/
theorem same_scaffold_same_key (input ptx : List Scaffold) (prefix_ : Str) (joinGap : Option Gap) (err : Int)
    (outs : List OutAsm) (stats : Stats) (hwf : WFInput input)
    (h : remap input ptx prefix_ joinGap err = .ok (outs, stats))
    (b : Build) (haf : assembliesFused input b = .ok (outs, stats))
    (ri rj : Res) (hi : ri ∈ b.store) (hj : rj ∈ b.store)
    (ai : ri.added = true) (ni : ri.o.rows ≠ []) (aj : rj.added = true) (nj : rj.o.rows ≠ [])
    (a : OutAsm) (ha : a ∈ outs) (s : Scaffold) (hs : s ∈ a.scaffolds) (gi gj : Fragment)
    (hgi : Row.frag gi ∈ ri.o.toScaffoldRows) (hgj : Row.frag gj ∈ rj.o.toScaffoldRows)
    (hsi : Row.frag gi ∈ s.rows) (hsj : Row.frag gj ∈ s.rows) :
    (ri.o.tag, ri.o.haplotype, ri.o.name) = (rj.o.tag, rj.o.haplotype, rj.o.name) := by
  obtain ⟨_, _, hfrom⟩ := C09.assembliesFused_route input b outs stats haf
  obtain ⟨F, hF, hn, _⟩ := hfrom a ha s hs
  have hrows : s.rows = F.rows := (C09.noName_fields hn).1
  obtain ⟨h1, _, _, _⟩ := C09.fuse_keeps_tag b
  obtain ⟨Fi, hFi, hki, hinfi⟩ := h1 ri hi ai ni
  obtain ⟨Fj, hFj, hkj, hinfj⟩ := h1 rj hj aj nj
  have vi := C09.output_fragment_valid input ptx prefix_ joinGap err outs stats hwf h a ha s hs gi hsi
  have vj := C09.output_fragment_valid input ptx prefix_ joinGap err outs stats hwf h a ha s hs gj hsj
  have e1 : F = Fi := frag_one_fused input ptx prefix_ joinGap err outs stats hwf h b haf F Fi hF hFi gi gi
    (hrows ▸ hsi) (hinfi.subset hgi) rfl gi.start ⟨Int.le_refl _, vi⟩ ⟨Int.le_refl _, vi⟩
  have e2 : F = Fj := frag_one_fused input ptx prefix_ joinGap err outs stats hwf h b haf F Fj hF hFj gj gj
    (hrows ▸ hsj) (hinfj.subset hgj) rfl gj.start ⟨Int.le_refl _, vj⟩ ⟨Int.le_refl _, vj⟩
  rw [← hki, ← hkj, ← e1, ← e2]

/-- `OnlyHome outs a s T`: scaffold `s` of assembly `a` is the ONLY place of the output where sequence of the rows `T`
    lives — any fragment of any scaffold `s'` of any output assembly `a'` that shares a contig base with a fragment row of
    `T` forces `a' = a` and `s' = s` -/
def OnlyHome (outs : List OutAsm) (a : OutAsm) (s : Scaffold) (T : List Row) : Prop :=
  ∀ a' ∈ outs, ∀ s' ∈ a'.scaffolds, ∀ g f', Row.frag g ∈ T → Row.frag f' ∈ s'.rows →
    f'.name = g.name → (∃ y, g.start ≤ y ∧ y ≤ g.stop ∧ f'.start ≤ y ∧ y ≤ f'.stop) → a' = a ∧ s' = s

/-- **Exactly one.**  Well-formed input: an output scaffold `s` (of assembly `a`) that holds the rows of the stored
    result `r` as a block is the only output scaffold, in the only assembly, holding a base of any fragment of `r`. -/
theorem order_unique (input ptx : List Scaffold) (prefix_ : Str) (joinGap : Option Gap) (err : Int)
    (outs : List OutAsm) (stats : Stats) (hwf : WFInput input)
    (h : remap input ptx prefix_ joinGap err = .ok (outs, stats))
    (a : OutAsm) (ha : a ∈ outs) (s : Scaffold) (hs : s ∈ a.scaffolds) (T : List Row) (hT : T <:+: s.rows) :
    OnlyHome outs a s T := by
  intro a' ha' s' hs' g f' hg hf' hnm ⟨y, y1, y2, y3, y4⟩
  have hgs : Row.frag g ∈ s.rows := hT.subset hg
  have e1 : a = a' := C09.shared_base_same_assembly input ptx prefix_ joinGap err outs stats hwf h a a' ha ha' s s' hs hs'
    g f' hgs hf' hnm.symm y ⟨y1, y2⟩ ⟨y3, y4⟩
  subst e1
  exact ⟨rfl, (shared_base_same_scaffold input ptx prefix_ joinGap err outs stats hwf h a ha s s' hs hs' g f' hgs hf'
    hnm.symm y ⟨y1, y2⟩ ⟨y3, y4⟩).symm⟩

end AgpTpf.C02
