/-
  C02 core (task W6-C02CORE), helper part 4: the per-result invariant at build level while the resolver runs
  (`RRes`: lookup scaffold, fresh lookup result, `KInv`, `RGeo`), and that `find_assembly_overlaps` establishes it for
  every stored result.
-/
import AgpTpf.Proofs.C02KRes
import AgpTpf.Proofs.C02KSafe
import AgpTpf.Proofs.C09RFixed
import AgpTpf.Proofs.C01MiddleBase
namespace AgpTpf.C02
open AgpTpf OverlapResult
open AgpTpf.C18 (Inv ids)
open AgpTpf.C01 (WFInput inputFrags FragDisjoint foldlM_inv)

/-- every row of every input scaffold has a non-negative length (contigs have `start ≤ end` by `WFInput`; this adds:
    no gap row of negative length) -/
def InputNonNeg (input : List Scaffold) : Prop := ∀ sc ∈ input, NonNeg sc.rows

instance (input : List Scaffold) : Decidable (InputNonNeg input) := by unfold InputNonNeg NonNeg; infer_instance

/-! ### congruence: the invariants read only `bait`, `rows`, `start`, `stop` -/

theorem KInv.congr {src : List Row} {M s0 e0 : Int} {p : Fragment} {o o' : OverlapResult} (hk : KInv src M s0 e0 p o)
    (hr : o'.rows = o.rows) (hs : o'.start = o.start) (he : o'.stop = o.stop) (hb : o'.bait = o.bait) :
    KInv src M s0 e0 p o' := by
  refine ⟨?_, hb.trans hk.bait, ?_, ?_⟩
  · refine C18.Inv.mk' ?_ (by rw [hr]; exact hk.inv.distinct)
    cases hk.inv.content with
    | empty a b => exact .empty (hr.trans a) (by rw [he, hs]; exact b)
    | one A B s r dl dr a b c d e f g => exact .one A B s r dl dr a (hr.trans b) c d e (hs.trans f) (he.trans g)
    | many A B mid s0 s1 r0 r1 dl dr a b c d e f g k =>
      exact .many A B mid s0 s1 r0 r1 dl dr a (hr.trans b) c d e f (hs.trans g) (he.trans k)
  · intro x h1 h2 hc h3 h4
    rw [hb] at h3 h4; rw [hs, he]
    exact hk.core x h1 h2 hc h3 h4
  · unfold EdgeOK
    rw [hr, hs, he, hb]; exact hk.edge

/-- what is known of a stored result while the resolver runs: it was looked up in the input scaffold named by its bait,
    and satisfies `KInv` (relative to the span of the fresh lookup result) and `RGeo` -/
def RRes (input : List Scaffold) (err : Int) (o : OverlapResult) : Prop :=
  ∃ sc o0, sc ∈ input ∧ sc.name = o.bait.name ∧ findOverlaps sc.rows o.bait = .ok (some o0) ∧
    KInv sc.rows (3 * err) o0.start o0.stop o.bait o ∧ RGeo sc.rows o ∧ SafeKept sc.rows err (3 * err) o

def StoreR (input : List Scaffold) (err : Int) (store : List Res) : Prop := ∀ r ∈ store, RRes input err r.o

theorem RRes.congr {input : List Scaffold} {err : Int} {o o' : OverlapResult} (h : RRes input err o)
    (hr : o'.rows = o.rows) (hs : o'.start = o.start) (he : o'.stop = o.stop) (hb : o'.bait = o.bait) :
    RRes input err o' := by
  obtain ⟨sc, o0, h1, h2, h3, h4, h5, h6⟩ := h
  refine ⟨sc, o0, h1, by rw [hb]; exact h2, by rw [hb]; exact h3, ?_, h5.congr hr hs hb, h6.congr hs he hb⟩
  rw [hb]; exact h4.congr hr hs he hb

def core4 (r : Res) : Fragment × List Row × Int × Int := (r.o.bait, r.o.rows, r.o.start, r.o.stop)

theorem storeR_of_core4 {input : List Scaffold} {err : Int} (s1 s2 : List Res) (h : s1.map core4 = s2.map core4)
    (hs : StoreR input err s2) : StoreR input err s1 := by
  intro r hr
  have : core4 r ∈ s2.map core4 := h ▸ List.mem_map_of_mem hr
  obtain ⟨r2, h2, e⟩ := List.mem_map.mp this
  simp only [core4, Prod.mk.injEq] at e
  exact (hs r2 h2).congr e.2.1.symm e.2.2.1.symm e.2.2.2.symm e.1.symm

theorem renameBySize_core4 (store : List Res) (ids : List Nat) : (renameBySize store ids).map core4 = store.map core4 := by
  have e : ∀ s : List Res, s.map core4 =
      (s.map (fun r => (C09.fixedOf r, r.o.rows, r.o.start, r.o.stop))).map
        (fun x => (x.1.1.2.2.2.2.2, x.2.1, x.2.2.1, x.2.2.2)) := by
    intro s; rw [List.map_map]; rfl
  rw [e, e, C09.renameBySize_fixed]

theorem storeR_append {input : List Scaffold} {err : Int} (store : List Res) (r : Res) (hs : StoreR input err store)
    (hr : RRes input err r.o) : StoreR input err (store ++ [r]) := by
  intro x hx
  rcases List.mem_append.mp hx with hx | hx
  · exact hs x hx
  · simp only [List.mem_cons, List.not_mem_nil, or_false] at hx; subst hx; exact hr

/-! ### `find_assembly_overlaps` -/

theorem processBait_storeR {input : List Scaffold} (hwf : WFInput input) (hnn : InputNonNeg input)
    (scTags : List Str) (orig : Str) (b b' : Build) (bait : Fragment) (herr : 0 ≤ b.err)
    (hS : StoreR input b.err b.store) (h : processBait input scTags orig b bait = .ok b') :
    StoreR input b.err b'.store ∧ b'.err = b.err := by
  unfold processBait at h
  simp only [bind, Except.bind] at h
  split at h
  · cases h
  · next sc hsc =>
    obtain ⟨hscin, hname⟩ := C01.lookupScaffold_ok _ _ _ hsc
    split at h
    · cases h
    · next fo hfo =>
      split at h
      · simp only [pure, Except.pure, Except.ok.injEq] at h; subst h; exact ⟨hS, rfl⟩
      · next o0 =>
        have hd := ids_nodup_of_wf hwf hscin
        have hK0 := kinv_lookup (3 * b.err) hd hfo
        have hG0 := rgeo_lookup (hnn sc hscin) hd hfo
        have hS0 := safeKept_lookup b.err (3 * b.err) (hnn sc hscin) hfo
        have hb0 : o0.bait = bait := hK0.bait
        split at h
        · cases h
        · next v hv =>
          obtain ⟨n, o1⟩ := v
          obtain ⟨hr1, hb1, hs1, he1⟩ := C01.labelScaffold_rows _ _ _ _ _ _ _ _ hv
          simp only at h
          split at h
          · cases h
          · next o2 ho2 =>
            have hK1 : KInv sc.rows (3 * b.err) o0.start o0.stop bait o1 := hK0.congr hr1 hs1 he1 hb1
            have hG1 : RGeo sc.rows o1 := hG0.congr hr1 hs1 hb1
            have hK2 := kinv_trimLarge (hnn sc hscin) herr hK1 ho2
            have hG2 := hG1.trimLarge ho2
            have hS2 := safeKept_trimLarge (hnn sc hscin) hK1.inv hG1 (hS0.congr hs1 he1 hb1) ho2
            have hb2 : o2.bait = bait := hK2.bait
            have hok : RRes input b.err o2 := by
              refine ⟨sc, o0, hscin, by rw [hb2]; exact hname, by rw [hb2]; exact hfo, ?_, hG2, hS2⟩
              rw [hb2]; exact hK2
            split at h
            · simp only [pure, Except.pure, Except.ok.injEq] at h
              subst h
              exact ⟨storeR_append _ _ hS hok, rfl⟩
            · simp only [pure, Except.pure, Except.ok.injEq] at h
              subst h
              rw [C01.storeFragmentsFound_eq]
              obtain ⟨f1, _, _, _, _, _, f7⟩ := C01.foldl_storeOne_other_fields b.store.length (fragmentsOf o2.rows)
                { b with namer := n, store := b.store ++ [{ o := o2, added := true }] }
              rw [f1, f7]
              exact ⟨storeR_append _ _ hS hok, rfl⟩

theorem findAssemblyOverlaps_storeR {input : List Scaffold} (hwf : WFInput input) (hnn : InputNonNeg input)
    (ptx : List Scaffold) (err : Int) (herr : 0 ≤ err) (b b' : Build) (he : b.err = err)
    (hS : StoreR input err b.store) (h : findAssemblyOverlaps input ptx b = .ok b') :
    StoreR input err b'.store ∧ b'.err = err := by
  unfold findAssemblyOverlaps at h
  refine foldlM_inv (fun x : Build => StoreR input err x.store ∧ x.err = err) _ ptx ?_ b b' ⟨hS, he⟩ h
  intro a ps a' ha hstep
  simp only [bind, Except.bind] at hstep
  split at hstep
  · cases hstep
  · next n hn =>
    split at hstep
    · cases hstep
    · next b2 hb2 =>
      simp only [pure, Except.pure, Except.ok.injEq] at hstep
      subst hstep
      have hmid := foldlM_inv (fun x : Build => StoreR input err x.store ∧ x.err = err) _ ps.fragments
        (fun x bait x' hx hs' => by
          obtain ⟨q1, q2⟩ := processBait_storeR hwf hnn _ _ x x' bait (by rw [hx.2]; exact herr)
            (by rw [hx.2]; exact hx.1) hs'
          rw [hx.2] at q1 q2
          exact ⟨q1, q2⟩)
        { a with namer := n } b2 ⟨ha.1, ha.2⟩ hb2
      exact ⟨storeR_of_core4 _ _ (renameBySize_core4 _ _) hmid.1, hmid.2⟩

end AgpTpf.C02
