/-
  C01, the middle of `remap_to_input_assembly` — part 5 (L4): chaining find → resolver → cutting → left-overs:
  the fragments held by the returned build cover every base of every input contig exactly once.
-/
import AgpTpf.Proofs.C01MiddleCut
namespace AgpTpf.C01
open AgpTpf

/-! ### `find_assembly_overlaps` creates no Fragment objects -/

theorem processBait_nextOid (input : List Scaffold) (scTags : List Str) (orig : Str) (b b' : Build) (bait : Fragment)
    (h : processBait input scTags orig b bait = .ok b') : b'.nextOid = b.nextOid := by
  unfold processBait at h
  simp only [bind, Except.bind] at h
  split at h
  · cases h
  · split at h
    · cases h
    · split at h
      · simp only [pure, Except.pure, Except.ok.injEq] at h; subst h; rfl
      · split at h
        · cases h
        · next v hv =>
          obtain ⟨n, o1⟩ := v
          simp only at h
          split at h
          · cases h
          · next o2 ho2 =>
            split at h
            · simp only [pure, Except.pure, Except.ok.injEq] at h
              subst h; rfl
            · simp only [pure, Except.pure, Except.ok.injEq] at h
              subst h
              rw [storeFragmentsFound_eq]
              exact (foldl_storeOne_other_fields b.store.length (fragmentsOf o2.rows)
                { b with namer := n, store := b.store ++ [{ o := o2, added := true }] }).2.2.2.2.1

theorem findAssemblyOverlaps_nextOid (input ptx : List Scaffold) (b b' : Build)
    (h : findAssemblyOverlaps input ptx b = .ok b') : b'.nextOid = b.nextOid := by
  unfold findAssemblyOverlaps at h
  refine foldlM_inv (fun x => x.nextOid = b.nextOid) _ ptx ?_ b b' rfl h
  intro a ps a' ha hstep
  simp only [bind, Except.bind] at hstep
  split at hstep
  · cases hstep
  · next n hn =>
    split at hstep
    · cases hstep
    · next b2 hb2 =>
      simp only [pure, Except.pure, Except.ok.injEq] at hstep
      subst hstep
      exact foldlM_inv (fun x => x.nextOid = b.nextOid) _ ps.fragments
        (fun x bait x' hx hs => (processBait_nextOid input _ _ x x' bait hs).trans hx)
        { a with namer := n } b2 ha hb2

/-- the first object id handed out by `remap_to_input_assembly` is above every input object id -/
theorem foldl_max_oid : ∀ (l : List Fragment) (m0 : Nat),
    m0 ≤ l.foldl (fun m f => max m (f.oid + 1)) m0 ∧ ∀ f ∈ l, f.oid < l.foldl (fun m f => max m (f.oid + 1)) m0
  | [], m0 => ⟨Nat.le_refl _, fun f hf => by cases hf⟩
  | g :: t, m0 => by
    rw [List.foldl_cons]
    obtain ⟨h1, h2⟩ := foldl_max_oid t (max m0 (g.oid + 1))
    refine ⟨by omega, ?_⟩
    intro f hf
    rcases List.mem_cons.mp hf with rfl | hf
    · omega
    · exact h2 f hf

/-! ### left-overs -/

def extraFrags (extra : List (Scaffold × Option (Fragment × List Gap))) : List Fragment :=
  extra.flatMap (fun e => fragmentsOf e.1.rows)

theorem extraKeys_eq (extra : List (Scaffold × Option (Fragment × List Gap))) :
    extraKeys extra = (extraFrags extra).map Fragment.keyTuple := by
  unfold extraKeys extraFrags keysOf
  rw [List.map_flatMap]

/-- `add_missing_scaffolds_from_input`: the left-over scaffolds hold exactly the input fragments whose key is not
    registered, in input order; the store and the registry are untouched -/
theorem addMissing_spec : ∀ (input : List Scaffold) (b b' : Build), addMissing input b = .ok b' →
    b'.store = b.store ∧ b'.found = b.found ∧
    extraFrags b'.extra = extraFrags b.extra ++ (inputFrags input).filter (fun f => !dHas b.found f.keyTuple)
  | [], b, b', h => by
    simp only [addMissing, List.foldlM_nil, pure, Except.pure, Except.ok.injEq] at h
    subst h; simp [inputFrags]
  | sc :: rest, b, b', h => by
    unfold addMissing at h
    rw [List.foldlM_cons] at h
    simp only [bind, Except.bind] at h
    split at h
    · cases h
    · next b1 hb1 =>
      have hstep : b1.store = b.store ∧ b1.found = b.found ∧
          extraFrags b1.extra = extraFrags b.extra ++ (fragmentsOf sc.rows).filter (fun f => !dHas b.found f.keyTuple) := by
        split at hb1
        · cases hb1
        · next v hv =>
          obtain ⟨rows, first⟩ := v
          have hfr := (missingRows_spec b sc.rows rows first hv).1
          simp only at hb1
          split at hb1
          · next hemp =>
            simp only [pure, Except.pure, Except.ok.injEq] at hb1
            subst hb1
            have : rows = [] := by simpa using hemp
            rw [this] at hfr
            refine ⟨rfl, rfl, ?_⟩
            rw [← hfr]; simp [fragmentsOf]
          · split at hb1
            · cases hb1
            · simp only [pure, Except.pure, Except.ok.injEq] at hb1
              subst hb1
              refine ⟨rfl, rfl, ?_⟩
              simp only [extraFrags, List.flatMap_append, List.flatMap_cons, List.flatMap_nil, List.append_nil]
              rw [hfr]
      obtain ⟨s1, s2, s3⟩ := hstep
      obtain ⟨t1, t2, t3⟩ := addMissing_spec rest b1 b' h
      refine ⟨t1.trans s1, t2.trans s2, ?_⟩
      rw [t3, s3, s2]
      simp only [inputFrags, Scaffold.fragments, List.flatMap_cons, List.filter_append, List.append_assoc]

/-! ### `remap_to_input_assembly` as a chain -/

/-- the build `remap_to_input_assembly` starts from -/
def freshBuild (input : List Scaffold) (prefix_ : Str) (joinGap : Option Gap) (err : Int) : Build :=
  { namer := { autosomePrefix := prefix_ },
    nextOid := (input.flatMap Scaffold.fragments).foldl (fun m f => max m (f.oid + 1)) 0,
    joinGap := joinGap, err := err }

theorem remapToInput_chain (input ptx : List Scaffold) (prefix_ : Str) (joinGap : Option Gap) (err : Int) (b : Build)
    (h : remapToInput input ptx prefix_ joinGap err = .ok b) :
    ∃ b1 b2 b3, findAssemblyOverlaps input ptx (freshBuild input prefix_ joinGap err) = .ok b1 ∧
      discardOverhanging (totalRows b1.store + 2) b1 = .ok b2 ∧ cutRemaining b2 = .ok b3 ∧
      addMissing input { b3 with store := renameBySize b3.store b3.namer.haplotigScaffolds } = .ok b := by
  unfold remapToInput at h
  simp only [bind, Except.bind] at h
  split at h
  · cases h
  · split at h
    · cases h
    · next b1 hb1 =>
      split at h
      · cases h
      · next b2 hb2 =>
        split at h
        · cases h
        · next b3 hb3 =>
          exact ⟨b1, b2, b3, hb1, hb2, hb3, h⟩

theorem storeFrags_of_core (s1 s2 : List Res) (h : s1.map resCore = s2.map resCore) : storeFrags s1 = storeFrags s2 := by
  have e : ∀ s : List Res, storeFrags s = (s.map resCore).flatMap (fun c => if c.1 then fragmentsOf c.2.1 else []) := by
    intro s
    unfold storeFrags resFrags
    rw [List.flatMap_map]
    rfl
  rw [e s1, e s2, h]

theorem nodup_of_map_nodup {α β} (g : α → β) (l : List α) (h : (l.map g).Nodup) : l.Nodup := by
  unfold List.Nodup at h ⊢
  rw [List.pairwise_map] at h
  exact h.imp (fun hne e => hne (congrArg g e))

/-- in a well-formed input a base covered by some fragment is covered by exactly one -/
theorem WFInput.cover_count {input} (hwf : WFInput input) {F : Fragment} (hF : F ∈ inputFrags input) {n : Str} {x : Int}
    (hc : covers n x F = true) : (inputFrags input).countP (covers n x) = 1 := by
  have hnd : (inputFrags input).Nodup := nodup_of_map_nodup (·.oid) _ hwf.2.1
  have : (inputFrags input).countP (covers n x) = (inputFrags input).count F := by
    rw [List.count_eq_countP]
    apply List.countP_congr
    intro g hg
    constructor
    · intro hcg; have := hwf.cover_unique hg hF hcg hc; subst this; simp
    · intro he; have : g = F := by simpa using he
      subst this; exact hc
  rw [this, hnd.count, if_pos hF]

/-- The heart of C01: for a well-formed input, whenever `remap_to_input_assembly` returns a build, the fragments held
    by the stored results (those appended to the build) together with the left-over scaffolds cover every base of every
    contig exactly as often as the input does (i.e. once where the input has the base, never elsewhere), and each of
    them is a sub-interval, under the same contig name and strand, of a fragment of the input. -/
theorem remapToInput_partition (input ptx : List Scaffold) (prefix_ : Str) (joinGap : Option Gap) (err : Int) (b : Build)
    (hwf : WFInput input) (h : remapToInput input ptx prefix_ joinGap err = .ok b) :
    (∀ n x, (storeFrags b.store ++ extraFrags b.extra).countP (covers n x) = (inputFrags input).countP (covers n x)) ∧
    (∀ g ∈ storeFrags b.store ++ extraFrags b.extra, ∃ F ∈ inputFrags input, PieceOf F g) := by
  obtain ⟨b1, b2, b3, hb1, hb2, hb3, hb4⟩ := remapToInput_chain _ _ _ _ _ _ h
  -- find
  obtain ⟨hm1, hx1, _, _, _⟩ := reg_after_find_aux input ptx (freshBuild input prefix_ joinGap err) b1 ⟨rfl, rfl, rfl⟩ hb1
  have hn1 : b1.nextOid = (freshBuild input prefix_ joinGap err).nextOid := findAssemblyOverlaps_nextOid _ _ _ _ hb1
  -- resolver loop
  obtain ⟨hm2, _, hn2, hx2, _, _, _, _⟩ := discardOverhanging_mid input hwf _ b1 b2 hm1 hb2
  -- object ids
  let n0 := (freshBuild input prefix_ joinGap err).nextOid
  have hbelow : ∀ f ∈ inputFrags input, f.oid < n0 := (foldl_max_oid (input.flatMap Scaffold.fragments) 0).2
  have hn0 : n0 ≤ b2.nextOid := by rw [hn2, hn1]; exact Nat.le_refl _
  -- cutting
  rw [cutRemaining_eq'] at hb3
  simp only [bind, Except.bind] at hb3
  split at hb3
  · cases hb3
  · next bm hbm =>
    simp only [pure, Except.pure, Except.ok.injEq] at hb3
    subst hb3
    have hinit : CInv input n0 b2 [] b2 := by
      refine ⟨?_, hn0, rfl, rfl, rfl, ?_, fun _ _ _ => rfl⟩
      · intro r hr g hg
        obtain ⟨sc, hsc, hinf⟩ := hm2.slices r hr
        exact Or.inl (mem_inputFrags.mpr ⟨sc, hsc, fragmentsOf_infix hinf g hg⟩)
      · intro n x k hk; cases hk
    have hc := cutFold input hwf n0 hbelow b2 hm2 b2.multi [] b2 bm hinit hm2.multiNodup (fun _ _ hk => by cases hk)
      (fun _ hk => hk) hbm
    simp only [List.nil_append] at hc
    -- left-overs
    obtain ⟨e1, e2, e3⟩ := addMissing_spec input _ b hb4
    simp only at e1 e2 e3
    have hextra0 : bm.extra = [] := by rw [hc.extra, hx2, hx1]; rfl
    have hS : storeFrags b.store = storeFrags bm.store := by
      rw [e1]; exact storeFrags_of_core _ _ (renameBySize_core _ _)
    have hE : extraFrags b.extra = (inputFrags input).filter (fun f => !dHas b2.found f.keyTuple) := by
      rw [e3, hextra0, hc.found]; simp [extraFrags]
    constructor
    · intro n x
      rw [List.countP_append, hS, hE, List.countP_filter]
      -- a fragment recorded for a key is the input fragment with that key
      have hrec : ∀ k fnd, dGet? b2.found k = some fnd → ∀ F ∈ inputFrags input, F.keyTuple = k → fnd.fragment = F := by
        intro k fnd hf F hF hk
        obtain ⟨a1, a2⟩ := hm2.foundOK k fnd hf
        exact hwf.key_inj a2 hF (a1.trans hk.symm)
      by_cases hex : ∃ F ∈ inputFrags input, covers n x F = true
      · obtain ⟨F, hF, hcF⟩ := hex
        rw [hwf.cover_count hF hcF]
        have hcov2 := hm2.cover_eq_holders hwf F hF n x hcF
        -- keys of other fragments do not cover (n, x)
        have hothers : ∀ k ∈ b2.multi, k ≠ F.keyTuple → ∀ fnd, dGet? b2.found k = some fnd → covers n x fnd.fragment = false := by
          intro k _ hne fnd hf
          cases hcc : covers n x fnd.fragment with
          | false => rfl
          | true =>
            obtain ⟨a1, a2⟩ := hm2.foundOK k fnd hf
            have := hwf.cover_unique a2 hF hcc hcF
            exact absurd (a1.symm.trans (congrArg Fragment.keyTuple this)) hne
        have hleft : ∀ v : Bool, (!dHas b2.found F.keyTuple) = v →
            (inputFrags input).countP (fun a => covers n x a && !dHas b2.found a.keyTuple) = if v then 1 else 0 := by
          intro v hv
          cases v with
          | true =>
            rw [← hwf.cover_count hF hcF]
            apply List.countP_congr
            intro g hg
            constructor
            · intro h'; simp only [Bool.and_eq_true] at h'; exact h'.1
            · intro h'
              have := hwf.cover_unique hg hF h' hcF
              subst this
              simp only [Bool.and_eq_true]; exact ⟨h', hv⟩
          | false =>
            simp only [Bool.false_eq_true, ↓reduceIte]
            rw [List.countP_eq_zero]
            intro g hg h'
            simp only [Bool.and_eq_true] at h'
            have := hwf.cover_unique hg hF h'.1 hcF
            subst this
            rw [hv] at h'; exact absurd h'.2 (by simp)
        cases hf : dGet? b2.found F.keyTuple with
        | none =>
          have hh : holders b2 F.keyTuple = [] := by simp [holders, hf]
          have hnm : F.keyTuple ∉ b2.multi := by
            intro hmem; have := (hm2.registry.2 _).mp hmem; rw [hh] at this; simp at this
          have hun := hc.uncut n x (fun k hk fnd hfk => hothers k hk (fun e => hnm (e ▸ hk)) fnd hfk)
          rw [hun, hcov2, hh, hleft true (by simp [dHas, hf])]
          rfl
        | some fnd =>
          have hfF : fnd.fragment = F := hrec _ fnd hf F hF rfl
          rw [hleft false (by simp [dHas, hf])]
          by_cases hmul : F.keyTuple ∈ b2.multi
          · rw [hc.cut n x _ hmul fnd hf (hfF ▸ hcF)]; simp
          · have hun := hc.uncut n x (fun k hk fnd' hfk => hothers k hk (fun e => hmul (e ▸ hk)) fnd' hfk)
            have hlen : (holders b2 F.keyTuple).length = 1 := by
              have h1 := hm2.registry.1 _ fnd hf
              have h2 : ¬ 2 ≤ (holders b2 F.keyTuple).length := fun h2 => hmul ((hm2.registry.2 _).mpr h2)
              have hh : holders b2 F.keyTuple = fnd.scaffolds := by simp [holders, hf]
              rw [hh] at h2 ⊢
              have : 0 < fnd.scaffolds.length := List.length_pos_iff.mpr h1
              omega
            rw [hun, hcov2, hlen]; simp
      · have hnone : ∀ g ∈ inputFrags input, covers n x g = false := by
          intro g hg
          cases hcc : covers n x g with
          | false => rfl
          | true => exact absurd ⟨g, hg, hcc⟩ hex
        have h0 : (inputFrags input).countP (covers n x) = 0 := by
          rw [List.countP_eq_zero]; intro g hg; rw [hnone g hg]; simp
        have h1 : (inputFrags input).countP (fun a => covers n x a && !dHas b2.found a.keyTuple) = 0 := by
          rw [List.countP_eq_zero]; intro g hg; rw [hnone g hg]; simp
        have h2 : (storeFrags b2.store).countP (covers n x) = 0 := by
          rw [List.countP_eq_zero]; intro g hg; rw [hnone g (hm2.store_input g hg)]; simp
        have hun := hc.uncut n x (fun k _ fnd hfk => hnone _ (hm2.foundOK k fnd hfk).2)
        rw [hun, h0, h1, h2]
    · intro g hg
      have hself : ∀ F ∈ inputFrags input, ∃ F' ∈ inputFrags input, PieceOf F' F :=
        fun F hF => ⟨F, hF, Int.le_refl _, Int.le_refl _, hwf.2.2.2.2 F hF, rfl, rfl⟩
      rcases List.mem_append.mp hg with hg | hg
      · rw [hS] at hg
        unfold storeFrags at hg
        obtain ⟨r, hr, hgr⟩ := List.mem_flatMap.mp hg
        unfold resFrags at hgr
        split at hgr
        · rcases hc.rows r hr g hgr with hin | ⟨_, F, hF, hp⟩
          · exact hself g hin
          · exact ⟨F, hF, hp⟩
        · cases hgr
      · rw [hE] at hg
        exact hself g (List.mem_filter.mp hg).1

/-! ### L3 on its own: what `cutRemaining` does to a build that satisfies the registry invariant -/

theorem cutRemaining_account (input : List Scaffold) (hwf : WFInput input) (b b' : Build) (hm : Mid input b)
    (hoid : ∀ f ∈ inputFrags input, f.oid < b.nextOid) (h : cutRemaining b = .ok b') :
    b'.multi = [] ∧ b'.found = b.found ∧ b'.extra = b.extra ∧ RowsOK input b.nextOid b'.store ∧
    (∀ n x, ∀ k ∈ b.multi, ∀ fnd, dGet? b.found k = some fnd → covers n x fnd.fragment = true →
      (storeFrags b'.store).countP (covers n x) = 1) ∧
    (∀ n x, (∀ k ∈ b.multi, ∀ fnd, dGet? b.found k = some fnd → covers n x fnd.fragment = false) →
      (storeFrags b'.store).countP (covers n x) = (storeFrags b.store).countP (covers n x)) := by
  rw [cutRemaining_eq'] at h
  simp only [bind, Except.bind] at h
  split at h
  · cases h
  · next bm hbm =>
    simp only [pure, Except.pure, Except.ok.injEq] at h
    subst h
    have hinit : CInv input b.nextOid b [] b := by
      refine ⟨?_, Nat.le_refl _, rfl, rfl, rfl, ?_, fun _ _ _ => rfl⟩
      · intro r hr g hg
        obtain ⟨sc, hsc, hinf⟩ := hm.slices r hr
        exact Or.inl (mem_inputFrags.mpr ⟨sc, hsc, fragmentsOf_infix hinf g hg⟩)
      · intro n x k hk; cases hk
    have hc := cutFold input hwf b.nextOid hoid b hm b.multi [] b bm hinit hm.multiNodup (fun _ _ hk => by cases hk)
      (fun _ hk => hk) hbm
    simp only [List.nil_append] at hc
    exact ⟨rfl, hc.found, hc.extra, hc.rows, hc.cut, hc.uncut⟩

/-! ### the registry invariant in terms of Fragment objects -/

theorem countP_fragmentsOf_infix_le (p : Fragment → Bool) {a b : List Row} (h : a <:+: b) :
    (fragmentsOf a).countP p ≤ (fragmentsOf b).countP p := by
  obtain ⟨s, t, rfl⟩ := h
  simp only [fragmentsOf_append, List.countP_append]
  omega

theorem countP_scaffold_le (p : Fragment → Bool) {input : List Scaffold} {sc : Scaffold} (h : sc ∈ input) :
    (fragmentsOf sc.rows).countP p ≤ (inputFrags input).countP p := by
  obtain ⟨s, t, rfl⟩ := List.append_of_mem h
  simp only [inputFrags, Scaffold.fragments, List.flatMap_append, List.flatMap_cons, List.countP_append]
  omega

/-- a stored result holds a given key at most once (well-formed input, before cutting) -/
theorem Mid.holdCount_le_one {input b} (hm : Mid input b) (hwf : WFInput input) (k : Key) (sid : Nat) :
    holdCount b.store k sid ≤ 1 := by
  unfold holdCount
  cases hs : b.store[sid]? with
  | none => simp
  | some r =>
    simp only
    obtain ⟨sc, hsc, hinf⟩ := hm.slices r (List.mem_of_getElem? hs)
    have h1 : (resFrags r).countP (hasKey k) ≤ (fragmentsOf r.o.rows).countP (hasKey k) := by
      unfold resFrags; split <;> simp
    have h2 := countP_fragmentsOf_infix_le (hasKey k) hinf
    have h3 := countP_scaffold_le (hasKey k) hsc
    have h4 : (inputFrags input).countP (hasKey k) = ((inputFrags input).map Fragment.keyTuple).count k := by
      rw [List.count_eq_countP, List.countP_map]
      apply List.countP_congr
      intro g _; simp [hasKey]
    have h5 := hwf.2.2.1.count (a := k)
    rw [h5] at h4
    split at h4 <;> omega

/-- the holder list of a registered key lists exactly the results whose rows contain the recorded OBJECT -/
theorem Mid.holders_by_object {input b} (hm : Mid input b) (hwf : WFInput input) (k : Key) (fnd : Found)
    (hf : dGet? b.found k = some fnd) (sid : Nat) :
    (holders b k).count sid =
      match b.store[sid]? with
      | some r => (resFrags r).countP (fun g => g.oid == fnd.fragment.oid)
      | none => 0 := by
  rw [hm.counts]
  unfold holdCount
  cases hs : b.store[sid]? with
  | none => rfl
  | some r =>
    simp only
    obtain ⟨hkey, hin⟩ := hm.foundOK k fnd hf
    apply List.countP_congr
    intro g hg
    have hgin : g ∈ inputFrags input := by
      unfold resFrags at hg
      split at hg
      · obtain ⟨sc, hsc, hinf⟩ := hm.slices r (List.mem_of_getElem? hs)
        exact mem_inputFrags.mpr ⟨sc, hsc, fragmentsOf_infix hinf g hg⟩
      · cases hg
    constructor
    · intro h'
      have : g = fnd.fragment := hwf.key_inj hgin hin (by rw [hkey]; simpa [hasKey] using h')
      subst this; simp
    · intro h'
      have : g = fnd.fragment := hwf.oid_inj hgin hin (by simpa using h')
      subst this; simp [hasKey, hkey]

/-- an input fragment whose key is not registered is in no stored result -/
theorem Mid.unregistered_absent {input b} (hm : Mid input b) (k : Key) (hf : dGet? b.found k = none) :
    ∀ g ∈ storeFrags b.store, g.keyTuple ≠ k := by
  have h0 : (storeFrags b.store).countP (hasKey k) = 0 := by
    rw [← hm.total]; simp [holders, hf]
  rw [List.countP_eq_zero] at h0
  intro g hg e
  exact h0 g hg (by simp [hasKey, e])

end AgpTpf.C01
