/-
  T1c helper lemmas for the chunk iterators of `fasta/index.py` (`get_gap_iter`, `fwd_chunks`, `rev_chunks`,
  `get_sequence_iter`) and for plugging them into `FastaStream.write_scaffold`.

  * a generator is translated to a `for` loop that appends what it yields to a list: `forIn_yieldM` says such a loop is a
    `List.mapM` (first failing step is the error), for ANY loop body meeting a one-line equational spec;
  * `range(n)` / `range(c, -1, -1)` as the index lists the model uses (`List.range`, reversed);
  * the writer (`Gen.Imp.FastaStream_write_scaffold`) with ARBITRARY chunk iterators is a fold of `ImpStream.rowStep`, and
    that fold looks only at the `.data` of the chunks (`chunk.seek(0)` comes first), never at their cursor;
  * for rows that are `StreamProofs.RowOK` (fragment inside an indexed record) every chunk has at most `buffer_size` bytes.
-/
import AgpTpf.Proofs.ImpStream
import AgpTpf.Proofs.C03Stream
import AgpTpf.Gen.Imp
namespace AgpTpf.ImpFasta
open AgpTpf AgpTpf.PyRt

/-! ### small facts about `R` -/

theorem bind_ok_eq_map {α β : Type} (x : R α) (f : α → β) : (x >>= fun a => (Except.ok (f a) : R β)) = x.map f := by
  cases x <;> rfl

theorem R_bind_ok {α : Type} (x : R α) : (x >>= fun a => (Except.ok a : R α)) = x := by cases x <;> rfl
theorem R_ok_bind {α β : Type} (a : α) (f : α → R β) : ((Except.ok a : R α) >>= f) = f a := rfl

theorem map_map' {α β γ : Type} (x : R α) (f : α → β) (g : β → γ) : (x.map f).map g = x.map (fun a => g (f a)) := by
  cases x <;> rfl

theorem map_id' {α : Type} (x : R α) : x.map (fun a => a) = x := by
  cases x <;> rfl

theorem mapM_map {α β γ : Type} (f : α → β) (g : β → R γ) (xs : List α) :
    (xs.map f).mapM g = xs.mapM (fun a => g (f a)) := by
  induction xs with
  | nil => rfl
  | cons x xs ih => simp only [List.map_cons, List.mapM_cons, ih]

theorem mapM_congr {α β : Type} (f g : α → R β) (xs : List α) (h : ∀ x ∈ xs, f x = g x) : xs.mapM f = xs.mapM g := by
  induction xs with
  | nil => rfl
  | cons x xs ih =>
    simp only [List.mapM_cons, h x (List.mem_cons_self ..), ih (fun y hy => h y (List.mem_cons_of_mem _ hy))]

/-- `mapM` of a step that never fails -/
theorem mapM_ok {α β : Type} (f : α → β) (xs : List α) : xs.mapM (fun a => (Except.ok (f a) : R β)) = .ok (xs.map f) := by
  induction xs with
  | nil => rfl
  | cons x xs ih => simp only [List.mapM_cons, ih, List.map_cons]; rfl

/-- post-processing every element after a `mapM` = doing it inside the step -/
theorem mapM_map_post {α β γ : Type} (g : α → R β) (h : β → γ) (xs : List α) :
    (xs.mapM g).map (List.map h) = xs.mapM (fun a => (g a).map h) := by
  induction xs with
  | nil => rfl
  | cons x xs ih =>
    simp only [List.mapM_cons, ← ih]
    cases g x with
    | error e => rfl
    | ok b =>
      cases List.mapM g xs with
      | error e => rfl
      | ok bs => rfl

/-! ### a generator: `for x in xs: … yield e` -/

/-- a `for` loop (over `is.map f`: the loop variable is computed from an index) whose body computes one value (or raises) and
    appends it to the list of yielded values is a `mapM` over the indices -/
theorem forIn_yieldM {ι α β ρ : Type} (f : ι → α) (g : ι → R β) (is : List ι) (acc : List β)
    (body : α → List β → R (Ctl (List β) ρ))
    (h : ∀ i ∈ is, ∀ acc, body (f i) acc = (g i).map (fun y => .next (acc ++ [y]))) :
    PyRt.forIn (is.map f) acc body = (is.mapM g).map (fun ys => .fell (acc ++ ys)) := by
  induction is generalizing acc with
  | nil => simp [PyRt.forIn, Except.map, pure, Except.pure]
  | cons x xs ih =>
    simp only [List.map_cons, PyRt.forIn, h x (List.mem_cons_self ..), List.mapM_cons]
    cases hg : g x with
    | error e => rfl
    | ok y =>
      simp only [Except.map, bind, Except.bind]
      rw [ih _ (fun z hz => h z (List.mem_cons_of_mem _ hz))]
      cases List.mapM g xs with
      | error e => rfl
      | ok ys => simp [Except.map, pure, Except.pure]

/-- the whole translated generator: the loop, then the hand-over `k` of the yielded list (`k` = the `match` on how the loop
    ended that the translator emits; only its `fell` branch matters, a generator body has no `return v`); the index list is
    given up to equality (`range(1 + n)` vs `range(n + 1)`) -/
theorem generator_eq_mapM {ι α β ρ : Type} (f : ι → α) (g : ι → R β) (is is' : List ι)
    (body : α → List β → R (Ctl (List β) ρ)) (k : Done (List β) ρ → R (List β))
    (his : is' = is)
    (h : ∀ i ∈ is, ∀ acc, body (f i) acc = (g i).map (fun y => .next (acc ++ [y])))
    (hk : ∀ ys, k (.fell ys) = .ok ys) :
    (PyRt.forIn (is'.map f) [] body >>= k) = is.mapM g := by
  subst his
  rw [forIn_yieldM f g is' [] body h]
  cases List.mapM g is' with
  | error e => rfl
  | ok ys => simp [Except.map, bind, Except.bind, hk]

/-- one `yield self.sequence_bytes(info, a, b)`, with the two bounds given up to equality -/
theorem yield_call_congr {α γ : Type} (sb : Int → Int → R α) (G : α → γ) {a b a' b' : Int}
    (ha : a = a') (hb : b = b') :
    (sb a b >>= fun t => (Except.ok (G t) : R γ)) = (sb a' b').map G := by
  subst ha hb
  cases sb a b <;> rfl

/-- one `yield F(self.sequence_bytes(info, a, b))` -/
theorem yield_call_congr' {α β γ : Type} (sb : Int → Int → R α) (F : α → β) (G : β → γ) {a b a' b' : Int}
    (ha : a = a') (hb : b = b') :
    (sb a b >>= fun t => (Except.ok (G (F t)) : R γ)) = ((sb a' b').map F).map G := by
  subst ha hb
  cases sb a b <;> rfl

/-! ### `range(n)` and `range(c, -1, -1)` -/

theorem rangeUp_zero (n : Int) : rangeUp 0 n = (List.range n.toNat).map (fun (k : Nat) => (k : Int)) := by
  simp [rangeUp]

theorem reverse_range_succ (n : Nat) : (List.range (n + 1)).reverse = (List.range (n + 1)).map (fun k => n - k) := by
  apply List.ext_getElem
  · simp
  · intro i h1 h2
    simp only [List.length_reverse, List.length_range] at h1
    simp only [List.getElem_reverse, List.getElem_range, List.getElem_map, List.length_range]
    omega

/-- `range(c, -1, -1)` is `c, c-1, …, 0` (nothing for `c < 0`) -/
theorem rangeDown_neg_one (c : Int) :
    rangeDown c (-1) = if c < 0 then [] else ((List.range (c.toNat + 1)).reverse).map (fun (k : Nat) => (k : Int)) := by
  unfold rangeDown
  split
  · have : (c - -1).toNat = 0 := by omega
    rw [this]; rfl
  · have : (c - -1).toNat = c.toNat + 1 := by omega
    rw [this, reverse_range_succ, List.map_map]
    apply List.map_congr_left
    intro k hk
    simp only [List.mem_range] at hk
    simp only [Function.comp, Int.ofNat_eq_natCast]
    omega

/-! ### the bytes of a gap chunk -/

theorem bytesRepeat_singleton (c : Nat) (n : Int) : bytesRepeat [c] n = List.replicate n.toNat c := by
  unfold bytesRepeat
  induction n.toNat with
  | zero => rfl
  | succ k ih => simp [List.replicate_succ, ih]

/-! ### the writer with arbitrary chunk iterators -/

/-- `if want != line_length: out.write(b"\n")`, on the `(want, out)` state -/
def finish (w : Int) (s : Int × Bytes) : Bytes := if s.1 ≠ w then s.2 ++ [10] else s.2

/-- **`write_scaffold` for ANY pair of chunk iterators** is the header, a fold of `ImpStream.rowStep` over the rows, and the closing
    newline — for every fuel above the length of every chunk the iterators yield for the rows of the scaffold. -/
theorem write_scaffold_rowStep (gapIt : Row → List Nat → List BytesIO) (seqIt : Row → R (List BytesIO))
    (w : Int) (gc : List Nat) (sc : Scaffold) (fuel : Nat)
    (hfuel : ∀ row ∈ sc.rows, ∀ cs, ImpStream.rowChunks (fun r => gapIt r gc) seqIt row = .ok cs →
      ∀ c ∈ cs, c.data.length < fuel) :
    Gen.Imp.FastaStream_write_scaffold fuel sc w gc gapIt seqIt =
      (sc.rows.foldlM (ImpStream.rowStep w (fun r => gapIt r gc) seqIt) (w, [62] ++ strToBytes sc.name ++ [10])).map (finish w) := by
  unfold Gen.Imp.FastaStream_write_scaffold
  dsimp only
  rw [ImpStream.forIn_nextM_enc ImpStream.enc2 (ImpStream.rowStep w (fun r => gapIt r gc) seqIt) _ (w, _)]
  · have hhdr : ([] : Bytes) ++ strToBytes (">".toList ++ sc.name ++ "\n".toList) = [62] ++ strToBytes sc.name ++ [10] := by
      simp [strToBytes]
    rw [hhdr]
    cases List.foldlM (ImpStream.rowStep w (fun r => gapIt r gc) seqIt) (w, [62] ++ strToBytes sc.name ++ [10]) sc.rows with
    | error e => rfl
    | ok s =>
      obtain ⟨want, out⟩ := s
      by_cases hw : want = w <;> simp [bind, Except.bind, Except.map, finish, ImpStream.enc2, hw]
  · intro row hrow s
    obtain ⟨want, out⟩ := s
    have hf := hfuel row hrow
    apply ImpStream.bind_of_eq (X' := ImpStream.rowChunks (fun r => gapIt r gc) seqIt row)
    · simp only [ImpStream.rowChunks]
      split
      · rfl
      · cases seqIt row <;> rfl
    · simp only [ImpStream.rowStep]
      cases hX : ImpStream.rowChunks (fun r => gapIt r gc) seqIt row with
      | error e => rfl
      | ok cs =>
        have hcs : ∀ c ∈ cs, c.data.length < fuel := hf cs hX
        simp only [bind, Except.bind, Except.map]
        rw [ImpStream.forIn_next_enc ImpStream.enc2 (ImpStream.chunkStep w) cs (want, out)]
        intro c hc s
        obtain ⟨want, out⟩ := s
        refine ImpStream.chunk_body ImpStream.st3 ImpStream.enc2 w fuel _ _ _ ?_ ?_ ?_ c (hcs c hc) want out
        · intro want c out; rfl
        · intro want c out
          dsimp only
          by_cases h1 : (c.read want).1.isEmpty = true
          · simp [h1]
          · by_cases h2 : want - ((c.read want).1.length : Int) = 0 <;> simp [h1, h2]
        · intro want c out; rfl

/-- writing a list of chunks looks only at their contents (`chunk.seek(0)` comes before the first `read`) -/
theorem foldl_chunkStep_data (w : Int) (cs cs' : List BytesIO) (h : cs.map (·.data) = cs'.map (·.data)) (s : Int × Bytes) :
    cs.foldl (ImpStream.chunkStep w) s = cs'.foldl (ImpStream.chunkStep w) s := by
  induction cs generalizing cs' s with
  | nil =>
    cases cs' with
    | nil => rfl
    | cons c' cs' => simp at h
  | cons c cs ih =>
    cases cs' with
    | nil => simp at h
    | cons c' cs' =>
      simp only [List.map_cons, List.cons.injEq] at h
      simp only [List.foldl_cons]
      have : ImpStream.chunkStep w s c = ImpStream.chunkStep w s c' := by simp only [ImpStream.chunkStep, h.1]
      rw [this]
      exact ih cs' h.2 _

/-- `.data` of every chunk, through the `Except` -/
def dataOf (x : R (List BytesIO)) : R (List Bytes) := x.map (List.map (·.data))

theorem rowStep_data (w : Int) (gapIt gapIt' : Row → List BytesIO) (seqIt seqIt' : Row → R (List BytesIO)) (row : Row)
    (h : dataOf (ImpStream.rowChunks gapIt seqIt row) = dataOf (ImpStream.rowChunks gapIt' seqIt' row)) (s : Int × Bytes) :
    ImpStream.rowStep w gapIt seqIt s row = ImpStream.rowStep w gapIt' seqIt' s row := by
  simp only [ImpStream.rowStep]
  cases h1 : ImpStream.rowChunks gapIt seqIt row with
  | error e =>
    cases h2 : ImpStream.rowChunks gapIt' seqIt' row with
    | error e' => rw [h1, h2] at h; simp only [dataOf, Except.map] at h; cases h; rfl
    | ok cs' => rw [h1, h2] at h; simp [dataOf, Except.map] at h
  | ok cs =>
    cases h2 : ImpStream.rowChunks gapIt' seqIt' row with
    | error e' => rw [h1, h2] at h; simp [dataOf, Except.map] at h
    | ok cs' =>
      rw [h1, h2] at h
      simp only [dataOf, Except.map, Except.ok.injEq] at h
      simp only [Except.map, foldl_chunkStep_data w cs cs' h]

theorem foldlM_congr_mem {α σ : Type} (f g : σ → α → R σ) (xs : List α) (h : ∀ x ∈ xs, ∀ s, f s x = g s x) (s : σ) :
    xs.foldlM f s = xs.foldlM g s := by
  induction xs generalizing s with
  | nil => rfl
  | cons x xs ih =>
    simp only [List.foldlM_cons, h x (List.mem_cons_self ..)]
    cases g s x with
    | error e => rfl
    | ok s' => exact ih (fun y hy => h y (List.mem_cons_of_mem _ hy)) s'

/-- **the writer's result depends only on the contents of the chunks**: two pairs of iterators that yield, for every row of the
    scaffold, chunks with the same `.data` (or the same exception) make `write_scaffold` return the same thing, for every fuel
    above the chunk lengths (of the second pair — the lengths are the same). -/
theorem write_scaffold_data_congr (gapIt gapIt' : Row → List Nat → List BytesIO) (seqIt seqIt' : Row → R (List BytesIO))
    (w : Int) (gc : List Nat) (sc : Scaffold) (fuel : Nat)
    (h : ∀ row ∈ sc.rows, dataOf (ImpStream.rowChunks (fun r => gapIt r gc) seqIt row)
      = dataOf (ImpStream.rowChunks (fun r => gapIt' r gc) seqIt' row))
    (hfuel : ∀ row ∈ sc.rows, ∀ cs, ImpStream.rowChunks (fun r => gapIt' r gc) seqIt' row = .ok cs →
      ∀ c ∈ cs, c.data.length < fuel) :
    Gen.Imp.FastaStream_write_scaffold fuel sc w gc gapIt seqIt = Gen.Imp.FastaStream_write_scaffold fuel sc w gc gapIt' seqIt' := by
  have hfuel' : ∀ row ∈ sc.rows, ∀ cs, ImpStream.rowChunks (fun r => gapIt r gc) seqIt row = .ok cs →
      ∀ c ∈ cs, c.data.length < fuel := by
    intro row hrow cs hcs c hc
    have hd := h row hrow
    rw [hcs] at hd
    cases h2 : ImpStream.rowChunks (fun r => gapIt' r gc) seqIt' row with
    | error e => rw [h2] at hd; simp [dataOf, Except.map] at hd
    | ok cs' =>
      rw [h2] at hd
      simp only [dataOf, Except.map, Except.ok.injEq] at hd
      have hmem : c.data ∈ cs'.map (·.data) := hd ▸ List.mem_map_of_mem hc
      obtain ⟨c', hc', hcd⟩ := List.mem_map.mp hmem
      rw [← hcd]
      exact hfuel row hrow cs' h2 c' hc'
  rw [write_scaffold_rowStep gapIt seqIt w gc sc fuel hfuel', write_scaffold_rowStep gapIt' seqIt' w gc sc fuel hfuel]
  congr 1
  exact foldlM_congr_mem _ _ _ (fun row hrow s => rowStep_data w _ _ _ _ row (h row hrow) s) _

/-! ### well-formed input: every chunk fits the buffer (so `buffer_size < fuel` is enough fuel for the writer) -/

open AgpTpf.ChunkProofs AgpTpf.StreamProofs in
theorem mapM_ok_mem {α β : Type} (g : α → R β) : ∀ (xs : List α) (ys : List β), xs.mapM g = .ok ys →
    ∀ y ∈ ys, ∃ x ∈ xs, g x = .ok y := by
  intro xs
  induction xs with
  | nil =>
    intro ys h y hy
    simp only [List.mapM_nil, pure, Except.pure, Except.ok.injEq] at h
    subst h; cases hy
  | cons x xs ih =>
    intro ys h y hy
    simp only [List.mapM_cons] at h
    cases hg : g x with
    | error e => rw [hg] at h; cases h
    | ok b =>
      rw [hg] at h
      cases hm : List.mapM g xs with
      | error e => rw [hm] at h; cases h
      | ok bs =>
        rw [hm] at h
        simp only [bind, Except.bind, pure, Except.pure, Except.ok.injEq] at h
        subst h
        rcases List.mem_cons.mp hy with rfl | hy'
        · exact ⟨x, List.mem_cons_self .., hg⟩
        · obtain ⟨x', hx', hgx'⟩ := ih bs hm y hy'
          exact ⟨x', List.mem_cons_of_mem _ hx', hgx'⟩

open AgpTpf.ChunkProofs AgpTpf.StreamProofs in
/-- for a fragment inside an indexed record and `buffer_size ≥ 1`, every chunk of the sequence iterator has at most
    `buffer_size` bytes -/
theorem seqIter_chunk_le {bs : Int} (hbs : 1 ≤ bs) (file : Bytes) (idx : List (Str × FastaInfo)) (resOf : Str → Bytes)
    (f : Fragment) (hf : FragOK file idx resOf f) (cs : List BytesIO) (hcs : ImpStream.seqIter file idx bs (.frag f) = .ok cs) :
    ∀ c ∈ cs, c.data.length ≤ bs.toNat := by
  obtain ⟨info, hinfo, hrec, h0, h1, h2⟩ := hf
  have ht := fwdChunkList_tiles f.start f.stop bs hbs h1
  have hbnd : ∀ b ∈ (if f.strand = -1 then revChunkList f.start f.stop bs else fwdChunkList f.start f.stop bs),
      1 ≤ b.1 ∧ b.1 ≤ b.2 ∧ b.2 ≤ ((resOf f.name).length : Int) ∧ b.2 - b.1 + 1 ≤ bs := by
    intro b hb
    have hb' : b ∈ fwdChunkList f.start f.stop bs := by
      split at hb
      · rw [revChunkList_eq_reverse f.start f.stop bs hbs h1] at hb
        exact List.mem_reverse.mp hb
      · exact hb
    have := ht.within b hb'
    have := ht.size_le b hb'
    omega
  simp only [ImpStream.seqIter, asFrag, hinfo, R_ok_bind] at hcs
  intro c hc
  obtain ⟨b, hb, hgb⟩ := mapM_ok_mem _ _ _ hcs c hc
  obtain ⟨hb1, hb2, hb3, hb4⟩ := hbnd b hb
  obtain ⟨rl, hrl, hdata, -⟩ := seq_chunk hrec b.1 b.2 hb1 hb2 hb3
  rw [hrl] at hgb
  simp only [R_ok_bind, pure, Except.pure, Except.ok.injEq] at hgb
  subst hgb
  have hlen := slice_length (resOf f.name) b.1 b.2 hb1 hb2 hb3
  split
  · simp only [reverseComplement, List.length_map, List.length_reverse, hdata]; omega
  · simp only [hdata]; omega

/-- one `yield BytesIO(gap_character * n)` for a one-byte gap character, the count given up to `Int.toNat` -/
theorem yield_gap_congr {ρ : Type} (acc : List BytesIO) (c : Nat) {a b : Int} (h : a.toNat = b.toNat) :
    (Except.ok (Ctl.next (acc ++ [({ data := bytesRepeat [c] a, pos := 0 } : BytesIO)])) : R (Ctl (List BytesIO) ρ))
      = (Except.ok ({ data := List.replicate b.toNat c } : BytesIO) : R BytesIO).map (fun y => Ctl.next (acc ++ [y])) := by
  rw [bytesRepeat_singleton, h]; rfl

end AgpTpf.ImpFasta
