/-
  C06 (composition), part 3: the assembly `index_fasta_file` derives from a FASTA has only `Good` rows
  (forward untagged fragments with `start ≤ end`, gaps of positive length and type "scaffold"), so its `.agp`
  rendering is strictly valid and each object ends at the record's length — the length stored in the index.
-/
import AgpTpf.Proofs.C06BFuse
import AgpTpf.Proofs.C04Access
namespace AgpTpf.C06
open AgpTpf AgpTpf.C04 AgpTpf.C05

/-- the only rows `store_info` creates: a forward, untagged fragment or a gap of type "scaffold" -/
def IndexRow (r : Row) : Prop :=
  match r with
  | .frag f => f.strand = 1 ∧ f.tags = []
  | .gap g => g.gapType = Gen.fastaGapType

instance (r : Row) : Decidable (IndexRow r) := by unfold IndexRow; cases r <;> infer_instance

theorem fastaGapType_expected : Gen.fastaGapType = "scaffold".toList := by decide

theorem tiled_good (name : Str) : ∀ (rows : List Row) (oid : Nat) (o : Int), Tiled name oid o rows →
    ∀ r ∈ rows, Good r ∧ IndexRow r := by
  intro rows
  induction rows with
  | nil => intro _ _ _ r hr; cases hr
  | cons x t ih =>
    intro oid o h r hr
    cases x with
    | frag f =>
      simp only [Tiled] at h
      obtain ⟨h1, h2, h3⟩ := h
      rcases List.mem_cons.mp hr with rfl | hr
      · have hs : f.strand = 1 := by rw [h1]
        have ht : f.tags = [] := by rw [h1]
        exact ⟨⟨Or.inr (Or.inl hs), h2⟩, hs, ht⟩
      · exact ih _ _ h3 r hr
    | gap g =>
      simp only [Tiled] at h
      obtain ⟨h1, h2, h3⟩ := h
      rcases List.mem_cons.mp hr with rfl | hr
      · refine ⟨⟨trivial, by omega, ?_⟩, h2⟩
        rw [h2]; decide
      · exact ih _ _ h3 r hr

theorem Forall2.comp {α β γ} {P : α → β → Prop} {Q : β → γ → Prop} {R : α → γ → Prop}
    (hpq : ∀ x y z, P x y → Q y z → R x z) :
    ∀ {l : List α} {m : List β} {n : List γ}, Forall2 P l m → Forall2 Q m n → Forall2 R l n := by
  intro l
  induction l with
  | nil =>
    intro m n h1 h2
    cases m with
    | nil => cases n with | nil => trivial | cons _ _ => exact h2.elim
    | cons _ _ => exact h1.elim
  | cons x xs ih =>
    intro m n h1 h2
    cases m with
    | nil => exact h1.elim
    | cons y ys =>
      cases n with
      | nil => exact h2.elim
      | cons z zs => exact ⟨hpq _ _ _ h1.1 h2.1, ih h1.2 h2.2⟩

theorem Forall2.imp_mem {α β} {P Q : α → β → Prop} : ∀ {l : List α} {ys : List β},
    (∀ x ∈ l, ∀ y, P x y → Q x y) → Forall2 P l ys → Forall2 Q l ys := by
  intro l
  induction l with
  | nil => intro ys _ h; cases ys with | nil => trivial | cons _ _ => exact h.elim
  | cons x xs ih =>
    intro ys hpq h
    cases ys with
    | nil => exact h.elim
    | cons y t =>
      exact ⟨hpq x (List.mem_cons_self ..) y h.1, ih (fun z hz => hpq z (List.mem_cons_of_mem _ hz)) h.2⟩

theorem Forall2.mem_right {α β} {P : α → β → Prop} : ∀ {l : List α} {ys : List β},
    Forall2 P l ys → ∀ y ∈ ys, ∃ x ∈ l, P x y := by
  intro l
  induction l with
  | nil => intro ys h y hy; cases ys with | nil => cases hy | cons _ _ => exact h.elim
  | cons x xs ih =>
    intro ys h y hy
    cases ys with
    | nil => cases hy
    | cons z zs =>
      rcases List.mem_cons.mp hy with rfl | hy
      · exact ⟨x, List.mem_cons_self .., h.1⟩
      · obtain ⟨x', hx', hp⟩ := ih h.2 y hy
        exact ⟨x', List.mem_cons_of_mem _ hx', hp⟩

/-- the scaffolds of the expected result, record by record -/
theorem foldl_addRec_forall2 (recs : List Rec) : ∀ o : Out, ∃ tail,
    (recs.foldl addRec o).scaffolds = o.scaffolds ++ tail ∧
    Forall2 (fun (r : Rec) (s : Scaffold) => ∃ k, s = { name := r.name, rows := specRows r.name k r.res }) recs tail := by
  induction recs with
  | nil => intro o; exact ⟨[], by simp, trivial⟩
  | cons r t ih =>
    intro o
    obtain ⟨tail, h1, h2⟩ := ih (addRec o r)
    refine ⟨{ name := r.name, rows := specRows r.name o.nextOid r.res } :: tail, ?_, ⟨o.nextOid, rfl⟩, h2⟩
    rw [List.foldl_cons, h1]
    simp [addRec]

/-- what the derived assembly looks like, record by record -/
def RecScaffold (r : Rec) (s : Scaffold) : Prop :=
  s.name = r.name ∧ s.length = r.res.length ∧ ∀ x ∈ s.rows, StrandOk x ∧ RowStrict x ∧ IndexRow x

theorem expected_scaffolds (recs : List Rec) : Forall2 RecScaffold recs (recs.foldl addRec {}).scaffolds := by
  obtain ⟨tail, h1, h2⟩ := foldl_addRec_forall2 recs {}
  rw [h1]
  simp only [List.nil_append]
  refine Forall2.imp ?_ h2
  rintro r s ⟨k, rfl⟩
  refine ⟨rfl, ?_, ?_⟩
  · show rowsLength (specRows r.name k r.res) = _
    exact specRows_length _ _ _
  · intro x hx
    obtain ⟨⟨a, b⟩, c⟩ := tiled_good r.name _ k 0 (specRows_tiled r.name k r.res) x hx
    exact ⟨a, b, c⟩

/-- the index entry of every record carries the record's length -/
theorem expected_info (recs : List Rec) (hnd : (recs.map Rec.name).Nodup) (r : Rec) (hr : r ∈ recs) :
    ∃ info, getInfo (recs.foldl addRec {}).idx r.name = .ok info ∧ info.length = r.res.length := by
  obtain ⟨pre, post, rfl⟩ := List.append_of_mem hr
  exact ⟨_, getInfo_expected pre r post hnd, rfl⟩

/-- the `.agp` rendering of the derived assembly, for any header lines: strictly valid, object by object, last end =
    the length in the record's index entry = the number of residues of the record -/
theorem built_index_valid (hdr : List Str) (recs : List Rec) (hnd : (recs.map Rec.name).Nodup)
    (idx : List (Str × FastaInfo)) (scs : List Scaffold)
    (hi : idx = (recs.foldl addRec {}).idx) (hs : scs = (recs.foldl addRec {}).scaffolds) :
    Forall2 RecScaffold recs scs ∧
    ∃ bodies : List (List (List Str)),
      formatAgp { header := hdr, scaffolds := scs } =
        .ok (hdr.map (fun h => Gen.agpHeaderPrefix ++ h ++ ['\n']) ++ (bodies.map (List.map lineOfCols)).flatten) ∧
      Forall2 (fun (r : Rec) colss => ∃ info, getInfo idx r.name = .ok info ∧ info.length = r.res.length ∧
                  ValidAgpLines true r.name 0 0 colss info.length) recs bodies := by
  subst hi hs
  have h1 := expected_scaffolds recs
  refine ⟨h1, ?_⟩
  have hgood : ∀ s ∈ (recs.foldl addRec {}).scaffolds, RowsGood s.rows := by
    intro s hs
    obtain ⟨r, _, hp⟩ := Forall2.mem_right h1 s hs
    exact fun x hx => ⟨(hp.2.2 x hx).1, (hp.2.2 x hx).2.1⟩
  obtain ⟨bodies, hb1, hb2⟩ := formatAgp_good { header := hdr, scaffolds := (recs.foldl addRec {}).scaffolds } hgood
  refine ⟨bodies, hb1, ?_⟩
  have hcomp : Forall2 (fun (r : Rec) (colss : List (List Str)) => ValidAgpLines true r.name 0 0 colss r.res.length)
      recs bodies := by
    refine Forall2.comp ?_ h1 hb2
    intro r s colss hp hq
    rw [← hp.1, ← hp.2.1]; exact hq.2
  refine Forall2.imp_mem ?_ hcomp
  intro r hr colss hv
  obtain ⟨info, hg, hl⟩ := expected_info recs hnd r hr
  exact ⟨info, hg, hl, by rw [hl]; exact hv⟩

end AgpTpf.C06
