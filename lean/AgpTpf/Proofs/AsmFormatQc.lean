/- asm-format glue: `find_overlapping_fragments` with scaffold names vs `overlappingPairs` -/
import AgpTpf.Model.AsmFormat
import AgpTpf.Properties.C19
import AgpTpf.Proofs.C05MapM
namespace AgpTpf.AsmFormat
open AgpTpf AgpTpf.C19

/-- the pair `((f1, s1), (f2, s2))` as the model records it -/
def mkOvPair (p : (Fragment × Str) × (Fragment × Str)) : OvPair := { f1 := p.1.1, s1 := p.1.2, f2 := p.2.1, s2 := p.2.2 }

/-- dropping the scaffold names gives the fragments in scan order -/
theorem fragmentsWithScaffold_fst (a : Assembly) : a.fragmentsWithScaffold.map (·.1) = a.allFragments := by
  unfold Assembly.fragmentsWithScaffold Assembly.allFragments
  induction a.scaffolds with
  | nil => rfl
  | cons s t ih =>
    simp only [List.flatMap_cons, List.map_append, ih]
    congr 1
    simp [List.map_map, Function.comp_def]

/-- every entry is a fragment of a scaffold of the assembly together with THAT scaffold's name -/
theorem mem_fragmentsWithScaffold (a : Assembly) (f : Fragment) (n : Str) :
    (f, n) ∈ a.fragmentsWithScaffold ↔ ∃ s ∈ a.scaffolds, f ∈ s.fragments ∧ s.name = n := by
  unfold Assembly.fragmentsWithScaffold
  simp only [List.mem_flatMap, List.mem_map, Prod.mk.injEq]
  constructor
  · rintro ⟨s, hs, g, hg, rfl, rfl⟩; exact ⟨s, hs, hg, rfl⟩
  · rintro ⟨s, hs, hf, rfl⟩; exact ⟨s, hs, f, hf, rfl, rfl⟩

/-- the scaffold names ride along: forgetting them gives `overlappingPairs` of the fragments -/
theorem overlappingPairsNamed_proj (l : List (Fragment × Str)) :
    (overlappingPairsNamed l).map (fun p => (p.f1, p.f2)) = overlappingPairs (l.map (·.1)) := by
  induction l with
  | nil => rfl
  | cons f r ih =>
    simp only [overlappingPairsNamed, List.map_cons, overlappingPairs, List.map_append, ih]
    congr 1
    clear ih
    induction r with
    | nil => rfl
    | cons g r' ih' =>
      simp only [List.filter, List.map]
      cases h : f.1.overlaps g.1 <;> simp [ih']

/-- the named scan is the filter of all position pairs `i < j` -/
theorem overlappingPairsNamed_spec (l : List (Fragment × Str)) :
    overlappingPairsNamed l = ((allPairs l).filter (fun p => p.1.1.overlaps p.2.1)).map mkOvPair := by
  induction l with
  | nil => rfl
  | cons f r ih =>
    simp only [overlappingPairsNamed, allPairs, List.filter_append, List.map_append, ih]
    congr 1
    clear ih
    induction r with
    | nil => rfl
    | cons g r' ih' =>
      simp only [List.filter, List.map]
      cases h : f.1.overlaps g.1 <;> simp [ih', mkOvPair]

theorem overlappingPairsNamed_nil_iff (l : List (Fragment × Str)) :
    overlappingPairsNamed l = [] ↔ ∀ p ∈ allPairs l, p.1.1.overlaps p.2.1 = false := by
  rw [overlappingPairsNamed_spec]
  simp [List.filter_eq_nil_iff]

/-- `allPairs` commutes with `map` -/
theorem allPairs_map {α β} (g : α → β) (l : List α) : allPairs (l.map g) = (allPairs l).map (fun p => (g p.1, g p.2)) := by
  induction l with
  | nil => rfl
  | cons x r ih => simp [allPairs, ih, List.map_map, Function.comp_def]

/-- nothing is reported iff no two fragments of the assembly (positions `i < j` in scan order) overlap -/
theorem findOverlapping_nil_iff (a : Assembly) :
    findOverlappingFragments a = [] ↔
      ∀ i j : Nat, i < j → ∀ f g, a.allFragments[i]? = some f → a.allFragments[j]? = some g → f.overlaps g = false := by
  unfold findOverlappingFragments
  rw [overlappingPairsNamed_nil_iff]
  constructor
  · intro h i j hij f g hf hg
    rw [← fragmentsWithScaffold_fst] at hf hg
    simp only [List.getElem?_map, Option.map_eq_some_iff] at hf hg
    obtain ⟨x, hx, rfl⟩ := hf
    obtain ⟨y, hy, rfl⟩ := hg
    exact h (x, y) ((mem_allPairs_iff _ x y).2 ⟨i, j, hij, hx, hy⟩)
  · intro h p hp
    obtain ⟨x, y⟩ := p
    obtain ⟨i, j, hij, hx, hy⟩ := (mem_allPairs_iff _ x y).1 hp
    refine h i j hij x.1 y.1 ?_ ?_
    · rw [← fragmentsWithScaffold_fst]; simp [hx]
    · rw [← fragmentsWithScaffold_fst]; simp [hy]

end AgpTpf.AsmFormat

/-! ### the STDERR rendering cannot raise for fragments that went through `Fragment.__init__` -/
namespace AgpTpf.AsmFormat
open AgpTpf

theorem fragmentStr_ok (f : Fragment) (h : f.strand = 0 ∨ f.strand = 1 ∨ f.strand = -1) : ∃ t, fragmentStr f = .ok t := by
  rcases h with h | h | h <;> (simp only [fragmentStr, fragmentStrandStr, h]; exact ⟨_, rfl⟩)

theorem mem_fragmentsOf (rows : List Row) (f : Fragment) : f ∈ fragmentsOf rows ↔ Row.frag f ∈ rows := by
  induction rows with
  | nil => simp [fragmentsOf]
  | cons r t ih =>
    cases r with
    | frag g => simp [fragmentsOf, ih]
    | gap g => simp [fragmentsOf, ih]

theorem reportOverlapsText_ok (asmName : Str) (pairs : List OvPair)
    (h : ∀ p ∈ pairs, (p.f1.strand = 0 ∨ p.f1.strand = 1 ∨ p.f1.strand = -1) ∧
                      (p.f2.strand = 0 ∨ p.f2.strand = 1 ∨ p.f2.strand = -1)) :
    ∃ t, reportOverlapsText asmName pairs = .ok t := by
  obtain ⟨ts, hts, _⟩ := C05.mapM_ok_of_forall overlapText (fun _ _ => True) pairs (by
    intro p hp
    obtain ⟨t1, h1⟩ := fragmentStr_ok p.f1 (h p hp).1
    obtain ⟨t2, h2⟩ := fragmentStr_ok p.f2 (h p hp).2
    refine ⟨"\nOverlap:\n".toList ++ p.s1 ++ [' '] ++ t1 ++ ['\n'] ++ p.s2 ++ [' '] ++ t2 ++ ['\n'], ?_, trivial⟩
    unfold overlapText
    rw [h1, h2]; rfl)
  refine ⟨"\nOverlaps detected in assembly '".toList ++ asmName ++ "'\n".toList ++ ts.flatten, ?_⟩
  unfold reportOverlapsText
  rw [hts]; rfl

end AgpTpf.AsmFormat
