/-
  T1c helper lemmas for `Properties/C07ImpFuse.lean`: `BuildAssembly.scaffolds_fused_by_name` (assembly/build_assembly.py) against the
  model's `fuseByName` (Model/Remap.lean).

  (1) the arena of Scaffold objects being built (`PyRt.bsGet` / `bsSet` / `bsSetDefault`) and the inner loop `for gap in …: add_row(gap)`;
  (2) the model side: `fuseByName` as a fold of `accRes` / `accLo` over a list of references (`fuseRefs`, any order);
  (3) dict + arena of the source as a representation (`dictOf`, `heapOf`) of the model's insertion-ordered dict of scaffolds;
  (4) what ONE pass of the source loop does (`stepSrc`, a pure function on `(dict, arena, gap)`), and that it is the model's step as long as
      `gap` is still `self.default_gap` (always, for a left-over);
  (5) the loop: any `PyRt.forIn` whose body does `stepSrc` (the body is a parameter);  (6) the generated kernel has such a body.
-/
import AgpTpf.Gen.Imp
import AgpTpf.Proofs.ImpSmall
import AgpTpf.Proofs.ImpLeftover
import AgpTpf.Proofs.ImpMissing
import AgpTpf.Properties.C07Imp
import AgpTpf.Properties.C07ImpLeftover
import AgpTpf.Properties.C14Imp
namespace AgpTpf.ImpFuse
open AgpTpf ImpLeftover
open AgpTpf.ImpMissing (loSrc)

/-! ### 1. the arena -/

theorem bsSet_bsSet (heap : List Scaffold) (r : Nat) (f g : Scaffold → Scaffold) :
    PyRt.bsSet (PyRt.bsSet heap r f) r g = PyRt.bsSet heap r (fun x => g (f x)) := by
  unfold PyRt.bsSet
  cases h : heap[r]? with
  | none => simp [h]
  | some x =>
    have hr : r < heap.length := (List.getElem?_eq_some_iff.1 h).1
    simp [hr]

/-- an update that reads the object through the reference first is the update of the object -/
theorem bsSet_const_get (heap : List Scaffold) (r : Nat) (f : Scaffold → Scaffold) :
    PyRt.bsSet heap r (fun _ => f (PyRt.bsGet heap r)) = PyRt.bsSet heap r f := by
  unfold PyRt.bsSet PyRt.bsGet
  cases h : heap[r]? with
  | none => rfl
  | some x => simp [List.getD, h]

theorem bsSet_id (heap : List Scaffold) (r : Nat) (f : Scaffold → Scaffold) (hf : ∀ x, f x = x) : PyRt.bsSet heap r f = heap := by
  unfold PyRt.bsSet
  cases h : heap[r]? with
  | none => rfl
  | some x =>
    have hr : r < heap.length := (List.getElem?_eq_some_iff.1 h).1
    have hx : heap[r] = x := (List.getElem?_eq_some_iff.1 h).2
    simp only [hf]
    rw [← hx, List.set_getElem_self]

theorem bsSet_congr (heap : List Scaffold) (r : Nat) (f g : Scaffold → Scaffold) (h : ∀ x, f x = g x) :
    PyRt.bsSet heap r f = PyRt.bsSet heap r g := by
  have : f = g := funext h
  rw [this]

/-- the value of the loop variable after `for gap in gb:` (Python keeps it): the last item, the old value when there was none -/
def lastOr (gap : Option Row) : List Row → Option Row
  | [] => gap
  | x :: xs => lastOr (some x) xs

theorem lastOr_ne_nil (gap : Option Row) (gb : List Row) (h : gb ≠ []) : lastOr gap gb = gb.getLast? := by
  induction gb generalizing gap with
  | nil => exact absurd rfl h
  | cons x xs ih =>
    cases xs with
    | nil => rfl
    | cons y ys =>
      rw [lastOr, ih (some x) (by simp)]
      simp [List.getLast?_cons_cons]

/-- the variables of `for gap in gb: build_scffld.add_row(gap)`: the reference `build_scffld`, the local `gap`, the arena of built scaffolds,
    the (never changed) arena of left-overs.  The ORDER in which the translator carries them (by the text of their type, then by name:
    `heap_lo`, `heap_b`, `gap`, `build_scffld`) is named here, in `ISt` / `ist`, and nowhere else -/
abbrev ISt := List PyRt.Leftover × List Scaffold × Option Row × Nat
/-- the state of the inner loop with `build_scffld = r`, `gap`, arena `heap`, left-overs `lo` -/
abbrev ist (r : Nat) (gap : Option Row) (heap : List Scaffold) (lo : List PyRt.Leftover) : ISt := (lo, heap, gap, r)

/-- `for gap in gb: build_scffld.add_row(gap)`: the rows are appended to the object, `gap` is re-bound -/
theorem forIn_addRows {ρ : Type}
    (body : Row → ISt → R (PyRt.Ctl ISt ρ))
    (hbody : ∀ g gap r lo heap, body g (ist r gap heap lo)
      = .ok (.next (ist r (some g) (PyRt.bsSet heap r (fun sc => { sc with rows := sc.rows ++ [g] })) lo)))
    (gb : List Row) (gap : Option Row) (r : Nat) (lo : List PyRt.Leftover) (heap : List Scaffold) :
    PyRt.forIn gb (ist r gap heap lo) body
      = .ok (.fell (ist r (lastOr gap gb) (PyRt.bsSet heap r (fun sc => { sc with rows := sc.rows ++ gb })) lo)) := by
  induction gb generalizing gap heap with
  | nil =>
    rw [bsSet_id heap r _ (by intro x; simp)]
    rfl
  | cons g gs ih =>
    rw [PyRt.forIn, hbody]
    simp only []
    rw [ih, lastOr, bsSet_bsSet]
    rw [bsSet_congr heap r _ (fun sc => { sc with rows := sc.rows ++ g :: gs }) (by intro x; simp)]

/-! ### 2. the model side: `fuseByName` as a fold over references -/

abbrev FKey := Option Str × Option Str × Str

/-- `step` of `fuseByName` -/
def fuseStep (acc : List (FKey × Scaffold)) (key : FKey) (proto : Scaffold) (add : List Row → List Row) : List (FKey × Scaffold) :=
  match dGet? acc key with
  | some s => dSet acc key { s with rows := add s.rows }
  | none => acc ++ [(key, { proto with rows := add [] })]

/-- the new Scaffold object handed to `setdefault`: the attributes copied from `scffld`, no rows -/
def protoOf (v : Scaffold) : Scaffold :=
  { name := v.name, tag := v.tag, haplotype := v.haplotype, rank := v.rank, originalName := v.originalName, originalTags := v.originalTags }

theorem protoOf_rows (v : Scaffold) : (protoOf v).rows = [] := rfl

def keyOf (v : Scaffold) : FKey := (v.tag, v.haplotype, v.name)

/-- the attributes of an OverlapResult that `scaffolds_fused_by_name` reads (`PyRt.brefView` of a `.res`) -/
def resView (o : OverlapResult) : Scaffold :=
  { name := o.name, rows := o.rows, tag := o.tag, haplotype := o.haplotype, rank := o.rank, originalName := o.originalName,
    originalTags := o.originalTags }

/-- one OverlapResult of `self.scaffolds` fused into the dict -/
def accRes (jg : Option Gap) (acc : List (FKey × Scaffold)) (o : OverlapResult) : List (FKey × Scaffold) :=
  if o.rows.isEmpty then acc
  else fuseStep acc (keyOf (resView o)) (protoOf (resView o)) (fun built => Scaffold.appendRows built o.toScaffoldRows jg)

/-- one left-over Scaffold of `self.scaffolds` fused into the dict -/
def accLo (jg : Option Gap) (acc : List (FKey × Scaffold)) (e : Scaffold × Option (Fragment × List Gap)) : List (FKey × Scaffold) :=
  if e.1.rows.isEmpty then acc
  else fuseStep acc (keyOf e.1) (protoOf e.1) (fun built => built ++ gapsBeforeLeftover jg built e.2 ++ e.1.rows)

/-- what a dangling reference into the arena of left-overs reads as (`PyRt.loGet`) -/
def dfltLo : Scaffold × Option (Fragment × List Gap) := (({ name := [] } : Scaffold), none)

/-- the model's fusing, for ANY order of `self.scaffolds`: every OverlapResult is appended with the JOIN gap -/
def fuseRefs (store : List Res) (extra : List (Scaffold × Option (Fragment × List Gap))) (jg : Option Gap)
    (refs : List PyRt.BuiltRef) (acc : List (FKey × Scaffold)) : List (FKey × Scaffold) :=
  refs.foldl (fun acc x => match x with
    | .res sid => accRes jg acc (getRes store sid)
    | .lo r => accLo jg acc (extra.getD r dfltLo)) acc

/-- `BuildAssembly.scaffolds` of a model state: the added results in store order, then the left-overs -/
def builtRefs (b : Build) : List PyRt.BuiltRef :=
  ((List.range b.store.length).filter (fun sid => (b.store.getD sid default).added)).map PyRt.BuiltRef.res
    ++ (List.range b.extra.length).map PyRt.BuiltRef.lo

theorem range_map_getD {α : Type} (l : List α) (d : α) : (List.range l.length).map (fun i => l.getD i d) = l := by
  apply List.ext_getElem
  · simp
  · intro i h1 h2
    simp at h1
    simp [h1]

theorem foldl_filter {α β : Type} (p : α → Bool) (f g : β → α → β) (h1 : ∀ a x, p x = false → f a x = a)
    (h2 : ∀ a x, p x = true → f a x = g a x) (l : List α) (a : β) : l.foldl f a = (l.filter p).foldl g a := by
  induction l generalizing a with
  | nil => rfl
  | cons x xs ih =>
    cases hp : p x with
    | false => simp only [List.foldl_cons, List.filter_cons, hp, h1 a x hp]; exact ih a
    | true => simp only [List.foldl_cons, List.filter_cons, hp, h2 a x hp, if_true]; exact ih _

theorem fuseByName_eq (b : Build) : fuseByName b = (fuseRefs b.store b.extra b.joinGap (builtRefs b) []).map (·.2) := by
  have h0 : fuseByName b
      = ((b.extra.foldl (accLo b.joinGap)
          (b.store.foldl (fun acc r => if ¬ r.added ∨ r.o.rows.isEmpty then acc else
            fuseStep acc (keyOf (resView r.o)) (protoOf (resView r.o))
              (fun built => Scaffold.appendRows built r.o.toScaffoldRows b.joinGap)) [])).map (·.2)) := by
    rfl
  rw [h0]
  unfold fuseRefs builtRefs
  rw [List.foldl_append, List.foldl_map, List.foldl_map]
  congr 1
  conv => lhs; rw [← range_map_getD b.extra dfltLo, List.foldl_map]
  congr 1
  conv => lhs; rw [← range_map_getD b.store default, List.foldl_map]
  refine foldl_filter _ _ _ ?_ ?_ _ _
  · intro a x hx
    generalize b.store.getD x default = r at hx
    rw [if_pos (Or.inl (by simp [hx]))]
  · intro a x hx
    show _ = accRes b.joinGap a (getRes b.store x)
    unfold accRes getRes
    generalize b.store.getD x default = r at hx
    by_cases h' : r.o.rows.isEmpty
    · rw [if_pos (Or.inr h'), if_pos h']
    · rw [if_neg (by simp [hx, h']), if_neg h']

/-! ### 3. the source's dict of references + arena as the model's dict of scaffolds -/

/-- the references are handed out in allocation order -/
def dictFrom (k : Nat) : List (FKey × Scaffold) → List (FKey × Nat)
  | [] => []
  | (key, _) :: r => (key, k) :: dictFrom (k + 1) r

def dictOf (acc : List (FKey × Scaffold)) : List (FKey × Nat) := dictFrom 0 acc
def heapOf (acc : List (FKey × Scaffold)) : List Scaffold := acc.map (·.2)

theorem dictFrom_append (k : Nat) (acc : List (FKey × Scaffold)) (key : FKey) (v : Scaffold) :
    dictFrom k (acc ++ [(key, v)]) = dictFrom k acc ++ [(key, k + acc.length)] := by
  induction acc generalizing k with
  | nil => rfl
  | cons x xs ih =>
    obtain ⟨k', v'⟩ := x
    simp only [List.cons_append, dictFrom, ih, List.length_cons]
    have : k + 1 + xs.length = k + (xs.length + 1) := by omega
    rw [this]

theorem dictFrom_values (k : Nat) (acc : List (FKey × Scaffold)) : (dictFrom k acc).map (·.2) = List.range' k acc.length := by
  induction acc generalizing k with
  | nil => rfl
  | cons x xs ih =>
    obtain ⟨k', v'⟩ := x
    simp only [dictFrom, List.map_cons, ih, List.length_cons, List.range'_succ]

theorem dGet?_dictFrom_none (k : Nat) (acc : List (FKey × Scaffold)) (key : FKey) (h : dGet? acc key = none) :
    dGet? (dictFrom k acc) key = none := by
  induction acc generalizing k with
  | nil => rfl
  | cons x xs ih =>
    obtain ⟨k', v'⟩ := x
    simp only [dGet?, dictFrom] at h ⊢
    by_cases hk : k' = key
    · simp [hk] at h
    · simp only [hk, if_false] at h ⊢
      exact ih _ h

/-- a key that is present: its reference points at the stored scaffold, and overwriting the entry is `set` on the arena -/
theorem dGet?_dictFrom_some (k : Nat) (acc : List (FKey × Scaffold)) (key : FKey) (s : Scaffold) (h : dGet? acc key = some s) :
    ∃ i, dGet? (dictFrom k acc) key = some (k + i) ∧ (heapOf acc)[i]? = some s ∧
      ∀ v, heapOf (dSet acc key v) = (heapOf acc).set i v ∧ dictFrom k (dSet acc key v) = dictFrom k acc := by
  induction acc generalizing k with
  | nil => simp [dGet?] at h
  | cons x xs ih =>
    obtain ⟨k', v'⟩ := x
    simp only [dGet?] at h
    by_cases hk : k' = key
    · simp only [hk, if_true, Option.some.injEq] at h
      subst h
      refine ⟨0, ?_, ?_, ?_⟩
      · simp [dictFrom, dGet?, hk]
      · simp [heapOf]
      · intro v; simp [dSet, hk, heapOf, dictFrom]
    · simp only [hk, if_false] at h
      obtain ⟨i, h1, h2, h3⟩ := ih (k + 1) h
      refine ⟨i + 1, ?_, ?_, ?_⟩
      · simp only [dictFrom, dGet?, hk, if_false, h1]
        congr 1
        omega
      · simpa [heapOf] using h2
      · intro v
        obtain ⟨h4, h5⟩ := h3 v
        simp only [dSet, hk, if_false, dictFrom, h5]
        simp only [heapOf] at h4 ⊢
        simp [h4]

/-- `setdefault` + an update of the rows of the object it returns, on dict and arena -/
def srcStep (dict : List (FKey × Nat)) (heap : List Scaffold) (key : FKey) (proto : Scaffold) (add : List Row → List Row) :
    List (FKey × Nat) × List Scaffold :=
  let sd := PyRt.bsSetDefault dict heap key proto
  (sd.1, PyRt.bsSet sd.2.1 sd.2.2 (fun sc => { sc with rows := add sc.rows }))

/-- … is the model's `step` -/
theorem srcStep_fuseStep (acc : List (FKey × Scaffold)) (key : FKey) (proto : Scaffold) (add : List Row → List Row)
    (hp : proto.rows = []) :
    srcStep (dictOf acc) (heapOf acc) key proto add
      = (dictOf (fuseStep acc key proto add), heapOf (fuseStep acc key proto add)) := by
  unfold srcStep PyRt.bsSetDefault fuseStep dictOf
  cases h : dGet? acc key with
  | none =>
    rw [dGet?_dictFrom_none 0 acc key h]
    have hl : (heapOf acc).length = acc.length := by simp [heapOf]
    simp only [dictFrom_append, hl, Nat.zero_add]
    congr 1
    unfold PyRt.bsSet
    have : (heapOf acc ++ [proto])[acc.length]? = some proto := by
      rw [← hl]; simp
    simp only [this]
    rw [← hl, List.set_append_right _ _ (Nat.le_refl _)]
    simp [heapOf, hp]
  | some s =>
    obtain ⟨i, h1, h2, h3⟩ := dGet?_dictFrom_some 0 acc key s h
    obtain ⟨h4, h5⟩ := h3 { s with rows := add s.rows }
    rw [h1]
    simp only [Nat.zero_add, h4, h5]
    congr 1
    unfold PyRt.bsSet
    simp only [h2]

/-- the rows of the object `setdefault` returns -/
theorem bsGet_setDefault (acc : List (FKey × Scaffold)) (key : FKey) (proto : Scaffold) (hp : proto.rows = []) :
    (PyRt.bsGet (PyRt.bsSetDefault (dictOf acc) (heapOf acc) key proto).2.1
        (PyRt.bsSetDefault (dictOf acc) (heapOf acc) key proto).2.2).rows
      = (match dGet? acc key with | some s => s.rows | none => []) := by
  unfold PyRt.bsSetDefault dictOf PyRt.bsGet
  cases h : dGet? acc key with
  | none =>
    rw [dGet?_dictFrom_none 0 acc key h]
    simp [hp]
  | some s =>
    obtain ⟨i, h1, h2, -⟩ := dGet?_dictFrom_some 0 acc key s h
    rw [h1]
    simp [List.getD, h2]

/-! ### 4. one pass of the source loop -/

/-- the loop state without the (never changed) arena of left-overs: dict, arena of built scaffolds, the local `gap` -/
abbrev St := List (FKey × Nat) × List Scaffold × Option Row

/-- what one pass of `for scffld in self.scaffolds:` does.  An OverlapResult is appended with the CURRENT value of the local `gap`; a
    left-over re-binds `gap` to the last row `gaps_before_leftover` returned (if any). -/
def stepSrc (store : List Res) (extra : List (Scaffold × Option (Fragment × List Gap))) (jg : Option Gap)
    (x : PyRt.BuiltRef) (s : St) : St :=
  match x with
  | .res sid =>
    let o := getRes store sid
    if o.rows.isEmpty then s
    else
      let p := srcStep s.1 s.2.1 (keyOf (resView o)) (protoOf (resView o))
        (fun built => ImpSmall.appendRowsRow built o.toScaffoldRows s.2.2)
      (p.1, p.2, s.2.2)
  | .lo r =>
    let e := extra.getD r dfltLo
    if e.1.rows.isEmpty then s
    else
      let sd := PyRt.bsSetDefault s.1 s.2.1 (keyOf e.1) (protoOf e.1)
      let p := srcStep s.1 s.2.1 (keyOf e.1) (protoOf e.1) (fun built => built ++ gapsBeforeLeftover jg built e.2 ++ e.1.rows)
      (p.1, p.2, lastOr s.2.2 (gapsBeforeLeftover jg (PyRt.bsGet sd.2.1 sd.2.2).rows e.2))

theorem stepSrc_res_eq (store : List Res) (extra : List (Scaffold × Option (Fragment × List Gap))) (jg : Option Gap) (sid : Nat)
    (dict : List (FKey × Nat)) (heap : List Scaffold) (gap : Option Row) :
    stepSrc store extra jg (.res sid) (dict, heap, gap)
      = if (getRes store sid).rows.isEmpty then (dict, heap, gap)
        else ((srcStep dict heap (keyOf (resView (getRes store sid))) (protoOf (resView (getRes store sid)))
                (fun built => ImpSmall.appendRowsRow built (getRes store sid).toScaffoldRows gap)).1,
              (srcStep dict heap (keyOf (resView (getRes store sid))) (protoOf (resView (getRes store sid)))
                (fun built => ImpSmall.appendRowsRow built (getRes store sid).toScaffoldRows gap)).2, gap) := rfl

theorem stepSrc_lo_eq (store : List Res) (extra : List (Scaffold × Option (Fragment × List Gap))) (jg : Option Gap) (r : Nat)
    (dict : List (FKey × Nat)) (heap : List Scaffold) (gap : Option Row) :
    stepSrc store extra jg (.lo r) (dict, heap, gap)
      = if (extra.getD r dfltLo).1.rows.isEmpty then (dict, heap, gap)
        else ((srcStep dict heap (keyOf (extra.getD r dfltLo).1) (protoOf (extra.getD r dfltLo).1)
                (fun built => built ++ gapsBeforeLeftover jg built (extra.getD r dfltLo).2 ++ (extra.getD r dfltLo).1.rows)).1,
              (srcStep dict heap (keyOf (extra.getD r dfltLo).1) (protoOf (extra.getD r dfltLo).1)
                (fun built => built ++ gapsBeforeLeftover jg built (extra.getD r dfltLo).2 ++ (extra.getD r dfltLo).1.rows)).2,
              lastOr gap (gapsBeforeLeftover jg
                (PyRt.bsGet (PyRt.bsSetDefault dict heap (keyOf (extra.getD r dfltLo).1) (protoOf (extra.getD r dfltLo).1)).2.1
                  (PyRt.bsSetDefault dict heap (keyOf (extra.getD r dfltLo).1) (protoOf (extra.getD r dfltLo).1)).2.2).rows
                (extra.getD r dfltLo).2)) := rfl

/-- an OverlapResult while `gap` is still `self.default_gap`: the model's step; `gap` stays -/
theorem stepSrc_res (store : List Res) (extra : List (Scaffold × Option (Fragment × List Gap))) (jg : Option Gap) (sid : Nat)
    (acc : List (FKey × Scaffold)) :
    stepSrc store extra jg (.res sid) (dictOf acc, heapOf acc, jg.map Row.gap)
      = (dictOf (accRes jg acc (getRes store sid)), heapOf (accRes jg acc (getRes store sid)), jg.map Row.gap) := by
  rw [stepSrc_res_eq]
  unfold accRes
  by_cases h : (getRes store sid).rows.isEmpty
  · rw [if_pos h, if_pos h]
  · rw [if_neg h, if_neg h]
    simp only [ImpSmall.appendRowsRow_gap]
    rw [srcStep_fuseStep _ _ _ _ (protoOf_rows _)]

/-- a left-over, whatever `gap` is: the model's step (and `gap` may change) -/
theorem stepSrc_lo (store : List Res) (extra : List (Scaffold × Option (Fragment × List Gap))) (jg : Option Gap) (r : Nat)
    (acc : List (FKey × Scaffold)) (gap : Option Row) :
    ∃ gap', stepSrc store extra jg (.lo r) (dictOf acc, heapOf acc, gap)
      = (dictOf (accLo jg acc (extra.getD r dfltLo)), heapOf (accLo jg acc (extra.getD r dfltLo)), gap') := by
  rw [stepSrc_lo_eq]
  unfold accLo
  by_cases h : (extra.getD r dfltLo).1.rows.isEmpty
  · exact ⟨gap, by rw [if_pos h, if_pos h]⟩
  · rw [if_neg h, if_neg h]
    simp only [srcStep_fuseStep _ _ _ _ (protoOf_rows _)]
    exact ⟨_, rfl⟩

theorem foldl_stepSrc_res (store : List Res) (extra : List (Scaffold × Option (Fragment × List Gap))) (jg : Option Gap)
    (sids : List Nat) (acc : List (FKey × Scaffold)) :
    (sids.map PyRt.BuiltRef.res).foldl (fun s x => stepSrc store extra jg x s) (dictOf acc, heapOf acc, jg.map Row.gap)
      = (dictOf (fuseRefs store extra jg (sids.map .res) acc), heapOf (fuseRefs store extra jg (sids.map .res) acc),
          jg.map Row.gap) := by
  induction sids generalizing acc with
  | nil => rfl
  | cons sid sids ih =>
    simp only [List.map_cons, List.foldl_cons, stepSrc_res, ih]
    rfl

theorem foldl_stepSrc_lo (store : List Res) (extra : List (Scaffold × Option (Fragment × List Gap))) (jg : Option Gap)
    (rs : List Nat) (acc : List (FKey × Scaffold)) (gap : Option Row) :
    ∃ gap', (rs.map PyRt.BuiltRef.lo).foldl (fun s x => stepSrc store extra jg x s) (dictOf acc, heapOf acc, gap)
      = (dictOf (fuseRefs store extra jg (rs.map .lo) acc), heapOf (fuseRefs store extra jg (rs.map .lo) acc), gap') := by
  induction rs generalizing acc gap with
  | nil => exact ⟨gap, rfl⟩
  | cons r rs ih =>
    obtain ⟨g1, h1⟩ := stepSrc_lo store extra jg r acc gap
    obtain ⟨g2, h2⟩ := ih (accLo jg acc (extra.getD r dfltLo)) g1
    exact ⟨g2, by simp only [List.map_cons, List.foldl_cons, h1, h2]; rfl⟩

/-- all OverlapResults before all left-overs: the source's fold is the model's -/
theorem foldl_stepSrc_ordered (store : List Res) (extra : List (Scaffold × Option (Fragment × List Gap))) (jg : Option Gap)
    (sids rs : List Nat) :
    ∃ gap', (sids.map PyRt.BuiltRef.res ++ rs.map PyRt.BuiltRef.lo).foldl (fun s x => stepSrc store extra jg x s)
        ([], [], jg.map Row.gap)
      = (dictOf (fuseRefs store extra jg (sids.map .res ++ rs.map .lo) []),
         heapOf (fuseRefs store extra jg (sids.map .res ++ rs.map .lo) []), gap') := by
  have h1 := foldl_stepSrc_res store extra jg sids []
  obtain ⟨g, h2⟩ := foldl_stepSrc_lo store extra jg rs (fuseRefs store extra jg (sids.map .res) []) (jg.map Row.gap)
  refine ⟨g, ?_⟩
  rw [List.foldl_append]
  have h0 : (([], [], jg.map Row.gap) : St) = (dictOf [], heapOf [], jg.map Row.gap) := rfl
  rw [h0, h1, h2]
  unfold fuseRefs
  rw [List.foldl_append]

/-! ### 5. the loops -/

/-- the variables of `for scffld in self.scaffolds`: the local `gap`, the dict, the arena of built scaffolds, the arena of left-overs.
    The ORDER in which the translator carries them (by the text of their type, then by name: `hap_name_scaffold`, `heap_lo`, `heap_b`,
    `gap`) is named here, in `FSt` / `fst4`, and nowhere else -/
abbrev FSt := List (FKey × Nat) × List PyRt.Leftover × List Scaffold × Option Row
/-- the state of the outer loop with `gap`, dict `dict`, arena `heap`, left-overs `lo` -/
abbrev fst4 (gap : Option Row) (dict : List (FKey × Nat)) (heap : List Scaffold) (lo : List PyRt.Leftover) : FSt := (dict, lo, heap, gap)

/-- a loop over `self.scaffolds` whose body does `step` on `(dict, arena, gap)` and leaves the arena of left-overs alone -/
theorem forIn_fuse {ρ : Type} (step : PyRt.BuiltRef → St → St) (lo0 : List PyRt.Leftover)
    (body : PyRt.BuiltRef → FSt → R (PyRt.Ctl FSt ρ))
    (hbody : ∀ x dict heap gap, body x (fst4 gap dict heap lo0)
      = .ok (.next (fst4 (step x (dict, heap, gap)).2.2 (step x (dict, heap, gap)).1 (step x (dict, heap, gap)).2.1 lo0)))
    (refs : List PyRt.BuiltRef) (dict : List (FKey × Nat)) (heap : List Scaffold) (gap : Option Row) :
    PyRt.forIn refs (fst4 gap dict heap lo0) body
      = .ok (.fell (fst4 (refs.foldl (fun s x => step x s) (dict, heap, gap)).2.2 (refs.foldl (fun s x => step x s) (dict, heap, gap)).1
          (refs.foldl (fun s x => step x s) (dict, heap, gap)).2.1 lo0)) := by
  induction refs generalizing dict heap gap with
  | nil => rfl
  | cons x xs ih =>
    simp only [PyRt.forIn, hbody, List.foldl_cons]
    exact ih _ _ _

theorem foldl_snoc {α : Type} (xs init : List α) : xs.foldl (fun s x => s ++ [x]) init = init ++ xs := by
  induction xs generalizing init with
  | nil => simp
  | cons x xs ih => simp [ih]

/-! ### 6. the generated kernel -/

theorem loGet_map_loSrc (extra : List (Scaffold × Option (Fragment × List Gap))) (r : Nat) :
    PyRt.loGet (extra.map loSrc) r = loSrc (extra.getD r dfltLo) := by
  unfold PyRt.loGet
  simp only [List.getD_eq_getElem?_getD, List.getElem?_map]
  cases extra[r]? <;> rfl

theorem loSrc_fst (e : Scaffold × Option (Fragment × List Gap)) : (loSrc e).1 = e.1 := rfl

/-- `obj.append_scaffold(othr, gap)` -/
theorem append_scaffold_eq (s othr : Scaffold) (gap : Option Row) :
    Gen.Imp.Scaffold_append_scaffold s othr gap = .ok { s with rows := ImpSmall.appendRowsRow s.rows othr.rows gap } := by
  rw [C07.append_scaffold_is_source, ImpSmall.appendRowsRow_eq]
  cases gap <;> rfl

theorem appendRowsRow_none (rows othr : List Row) : ImpSmall.appendRowsRow rows othr none = rows ++ othr := rfl

/-- `gaps_before_leftover` on a left-over of the model as the source stores it -/
theorem gaps_before_leftover_loSrc (built : Scaffold) (e : Scaffold × Option (Fragment × List Gap)) (jg : Option Gap) :
    Gen.Imp.BuildAssembly_gaps_before_leftover built (loSrc e).2 jg = .ok (gapsBeforeLeftover jg built.rows e.2) :=
  C07.gaps_before_leftover_is_source built e.2 jg

theorem bsSet_rows_get (heap : List Scaffold) (r : Nat) (add : List Row → List Row) :
    PyRt.bsSet heap r (fun _ => { PyRt.bsGet heap r with rows := add (PyRt.bsGet heap r).rows })
      = PyRt.bsSet heap r (fun sc => { sc with rows := add sc.rows }) :=
  bsSet_const_get heap r (fun sc => { sc with rows := add sc.rows })

/-- the left-over branch on the arena: the gap rows (computed from the object as it was) added, then the rows of the left-over -/
theorem bsSet_lo (heap : List Scaffold) (r : Nat) (gbf : List Row → List Row) (X : List Row) :
    PyRt.bsSet (PyRt.bsSet heap r (fun sc => { sc with rows := sc.rows ++ gbf (PyRt.bsGet heap r).rows })) r
        (fun _ => { PyRt.bsGet (PyRt.bsSet heap r (fun sc => { sc with rows := sc.rows ++ gbf (PyRt.bsGet heap r).rows })) r with
          rows := (PyRt.bsGet (PyRt.bsSet heap r (fun sc => { sc with rows := sc.rows ++ gbf (PyRt.bsGet heap r).rows })) r).rows ++ X })
      = PyRt.bsSet heap r (fun sc => { sc with rows := sc.rows ++ gbf sc.rows ++ X }) := by
  rw [bsSet_rows_get _ _ (fun built => built ++ X), bsSet_bsSet]
  refine (bsSet_const_get heap r _).symm.trans ?_
  refine ((bsSet_const_get heap r (fun sc => { sc with rows := sc.rows ++ gbf sc.rows ++ X })).symm.trans ?_).symm
  rfl

/-- the translated `scaffolds_fused_by_name`, for ANY list `self.scaffolds` (over left-overs of the model): never raises; the fold of
    `stepSrc`; the generator yields the dict values in order -/
theorem fused_eq_fold (store : List Res) (extra : List (Scaffold × Option (Fragment × List Gap))) (jg : Option Gap)
    (refs : List PyRt.BuiltRef) :
    Gen.Imp.BuildAssembly_scaffolds_fused_by_name store (extra.map loSrc) jg refs
      = .ok (store, (refs.foldl (fun s x => stepSrc store extra jg x s) ([], [], jg.map Row.gap)).2.1,
          (refs.foldl (fun s x => stepSrc store extra jg x s) ([], [], jg.map Row.gap)).1.map (·.2)) := by
  unfold Gen.Imp.BuildAssembly_scaffolds_fused_by_name
  dsimp only
  rw [forIn_fuse (stepSrc store extra jg) (extra.map loSrc) _ ?hb refs]
  case hb =>
    intro x dict heap gap
    cases x with
    | res sid =>
      rw [stepSrc_res_eq]
      simp only [PyRt.brefView, Bool.not_not]
      by_cases h : (getRes store sid).rows.isEmpty
      · rw [if_pos h, if_pos h]
      · rw [if_neg h, if_neg h]
        simp only [C14.to_scaffold_is_source_full, append_scaffold_eq, ImpSmall.ok_bind]
        rw [bsSet_rows_get _ _ (fun built => ImpSmall.appendRowsRow built (getRes store sid).toScaffoldRows gap)]
        rfl
    | lo r =>
      rw [stepSrc_lo_eq]
      simp only [PyRt.brefView, loGet_map_loSrc, Bool.not_not, loSrc_fst]
      generalize he : extra.getD r dfltLo = e
      by_cases h : e.1.rows.isEmpty
      · rw [if_pos h, if_pos h]
      · rw [if_neg h, if_neg h]
        simp only [gaps_before_leftover_loSrc, ImpSmall.ok_bind]
        rw [forIn_addRows _ ?hb2]
        case hb2 => intros; rfl
        simp only [ImpSmall.ok_bind, loGet_map_loSrc, he, loSrc_fst, append_scaffold_eq, appendRowsRow_none]
        rw [bsSet_lo _ _ (fun built => gapsBeforeLeftover jg built e.2)]
        rfl
  simp only [ImpSmall.ok_bind]
  rw [ImpSmall.forIn_pure (fun x s => s ++ [x]) _ (fun _ _ => rfl)]
  simp only [ImpSmall.ok_bind, foldl_snoc, List.nil_append]

theorem dictOf_values (acc : List (FKey × Scaffold)) : (dictOf acc).map (·.2) = List.range acc.length := by
  unfold dictOf
  rw [dictFrom_values, List.range_eq_range']

/-- dereferencing all references of an arena in order gives the arena -/
theorem range_map_bsGet (heap : List Scaffold) : (List.range heap.length).map (PyRt.bsGet heap) = heap :=
  range_map_getD heap _

/-- all OverlapResults before all left-overs: the arena holds the model's scaffolds and the references are yielded in order -/
theorem fused_ordered (store : List Res) (extra : List (Scaffold × Option (Fragment × List Gap))) (jg : Option Gap)
    (sids rs : List Nat) :
    Gen.Imp.BuildAssembly_scaffolds_fused_by_name store (extra.map loSrc) jg
        (sids.map PyRt.BuiltRef.res ++ rs.map PyRt.BuiltRef.lo)
      = .ok (store, (fuseRefs store extra jg (sids.map .res ++ rs.map .lo) []).map (·.2),
          List.range (fuseRefs store extra jg (sids.map .res ++ rs.map .lo) []).length) := by
  obtain ⟨g, hg⟩ := foldl_stepSrc_ordered store extra jg sids rs
  rw [fused_eq_fold, hg]
  simp only [dictOf_values]
  rfl

end AgpTpf.ImpFuse
