/-
  C02 core (task W6-C02CORE), helper part 10 — K4: a cut deeper than the margin inside a contig, between two pieces whose
  cores reach into the contig, splits the contig exactly at the Pretext coordinate — for ANY map satisfying the hypotheses
  of K2.  Both pieces keep their part of the contig (K2, row level); the two parts cannot share a base (C01: every input
  base is held by exactly one stored row), so each was shortened, and a shortened end lies exactly at the bait coordinate.
-/
import AgpTpf.Proofs.C02KOut
namespace AgpTpf.C02
open AgpTpf OverlapResult
open AgpTpf.C18 (Inv Short ids rowsLength_nil rowsLength_cons rowsLength_append rowsLength_singleton)
open AgpTpf.C01 (WFInput inputFrags)

theorem RowKept.span_contains {o : OverlapResult} {f : Fragment} {xs : Int} {L R : List Row} {r : Row} {dl dr : Int}
    (hk : RowKept o f xs L r R dl dr) {x : Int} (h1 : o.start ≤ x) (h2 : x ≤ o.stop) (hx1 : xs < x)
    (hx2 : x ≤ xs + f.length) : xs + 1 + dl ≤ x ∧ x ≤ xs + f.length - dr := by
  constructor
  · by_cases hd : dl = 0
    · omega
    · have hL : L = [] := Classical.byContradiction (fun hne => hd (hk.left hne))
      have := hk.pos
      rw [hL, rowsLength_nil] at this
      omega
  · by_cases hd : dr = 0
    · omega
    · have hR : R = [] := Classical.byContradiction (fun hne => hd (hk.right hne))
      have := hk.posR
      rw [hR, rowsLength_nil] at this
      omega

theorem scaffold_of_name {input : List Scaffold} (hwf : WFInput input) {sc sc' : Scaffold} (h1 : sc ∈ input)
    (h2 : sc' ∈ input) (hn : sc.name = sc'.name) : sc = sc' :=
  C01.nodup_map_inj (·.name) input hwf.1 sc h1 sc' h2 hn

/-- **K4 at the level of the stored results.**  The side conditions on the two pieces are only: each is non-empty and has at
    least `err` bases (`SafeKept`: a contig sharing `≥ err` bases with a piece and reaching deeper than `3·err` from both
    ends of the piece is never taken away from it). -/
theorem deep_cut_rows (input ptx : List Scaffold) (prefix_ : Str) (joinGap : Option Gap) (err : Int) (b : Build)
    (hwf : WFInput input) (hnn : InputNonNeg input) (hdis : PtxDisjoint ptx) (herr : 0 ≤ err)
    (h : remapToInput input ptx prefix_ joinGap err = .ok b)
    {i j : Nat} {r1 r2 : Res} (hne : i ≠ j) (hi : b.store[i]? = some r1) (hj : b.store[j]? = some r2)
    {c : Int} (hc1 : r1.o.bait.stop = c) (hc2 : r2.o.bait.start = c + 1)
    {sc : Scaffold} (hsc : sc ∈ input) (hn1 : sc.name = r1.o.bait.name) (hn2 : sc.name = r2.o.bait.name)
    {X Y : List Row} {f : Fragment} (hs : sc.rows = X ++ .frag f :: Y)
    (hd1 : rowsLength X + 1 + 3 * err < c) (hd2 : c < rowsLength X + f.length - 3 * err)
    (hp1 : r1.o.bait.start ≤ c) (hl1 : r1.o.bait.start + err ≤ c + 1)
    (hp2 : c + 1 ≤ r2.o.bait.stop) (hl2 : c + err ≤ r2.o.bait.stop) :
    ∃ L g1 g2 R, r1.o.rows = L ++ [.frag g1] ∧ r2.o.rows = .frag g2 :: R ∧ r1.o.stop = c ∧ r2.o.start = c + 1 ∧
      g1.name = f.name ∧ g2.name = f.name ∧ g1.strand = f.strand ∧ g2.strand = f.strand ∧
      (if f.strand = 1 then g1.stop = f.stop - (rowsLength X + f.length - c) ∧ g2.start = g1.stop + 1
       else g1.start = f.start + (rowsLength X + f.length - c) ∧ g2.stop + 1 = g1.start) := by
  have hcore := remapToInput_core input ptx prefix_ joinGap err b hwf hnn hdis herr h
  obtain ⟨sc1, o1, hsc1, hnm1, hl1', hK1, hS1⟩ := hcore r1 (List.mem_of_getElem? hi)
  obtain ⟨sc2, o2, hsc2, hnm2, hl2', hK2, hS2⟩ := hcore r2 (List.mem_of_getElem? hj)
  have e1 : sc1 = sc := scaffold_of_name hwf hsc1 hsc (hnm1.trans hn1.symm)
  have e2 : sc2 = sc := scaffold_of_name hwf hsc2 hsc (hnm2.trans hn2.symm)
  rw [e1] at hl1' hK1 hS1
  rw [e2] at hl2' hK2 hS2
  have hlen := hnn sc hsc
  have hfl : f.length = f.stop - f.start + 1 := rfl
  have hXnn := rowsLength_nonneg (hlen.of_eq_append3 hs).1
  -- the deep contig is safe in both pieces: the last base of piece 1 and the first base of piece 2 stay inside
  obtain ⟨q1a, q1b⟩ := hS1 X f Y hs (by omega) (by omega) (by omega) (by omega)
  obtain ⟨q2a, q2b⟩ := hS2 X f Y hs (by omega) (by omega) (by omega) (by omega)
  have hx1a : rowsLength X < c := by omega
  have hx1b : c ≤ rowsLength X + f.length := by omega
  have hx2a : rowsLength X < c + 1 := by omega
  have hx2b : c + 1 ≤ rowsLength X + f.length := by omega
  have p1a : r1.o.start ≤ c := by omega
  have p1b : c ≤ r1.o.stop := by omega
  have p2a : r2.o.start ≤ c + 1 := by omega
  have p2b : c + 1 ≤ r2.o.stop := by omega
  obtain ⟨L1, row1, R1, dl1, dr1, k1⟩ := row_kept_at hlen hK1.inv hK1.edge hs hx1a hx1b p1a p1b
  obtain ⟨L2, row2, R2, dl2, dr2, k2⟩ := row_kept_at hlen hK2.inv hK2.edge hs hx2a hx2b p2a p2b
  obtain ⟨sp1a, sp1b⟩ := k1.span_contains p1a p1b hx1a hx1b
  obtain ⟨sp2a, sp2b⟩ := k2.span_contains p2a p2b hx2a hx2b
  obtain ⟨g1, f1, rfl, hf1, hname1, hstr1, hco1⟩ := k1.short
  obtain ⟨g2, f2, rfl, hf2, hname2, hstr2, hco2⟩ := k2.short
  cases hf1
  cases hf2
  have hm1 : Row.frag g1 ∈ r1.o.rows := by rw [k1.rows]; simp
  have hm2 : Row.frag g2 ∈ r2.o.rows := by rw [k2.rows]; simp
  have hd1' := k1.dl0
  have hd1'' := k1.dr0
  have hd2' := k2.dl0
  have hd2'' := k2.dr0
  -- the right end of piece 1's part was cut
  have hdr1 : dr1 ≠ 0 := by
    intro h0
    by_cases hst : f.strand = 1
    · rw [if_pos hst] at hco1 hco2
      exact stored_rows_disjoint input ptx prefix_ joinGap err b hwf h hne hi hj hm1 hm2 (hname1.trans hname2.symm)
        (f.start + (c + 1 - rowsLength X - 1)) ⟨by omega, by omega⟩ ⟨by omega, by omega⟩
    · rw [if_neg hst] at hco1 hco2
      exact stored_rows_disjoint input ptx prefix_ joinGap err b hwf h hne hi hj hm1 hm2 (hname1.trans hname2.symm)
        (f.stop - (c + 1 - rowsLength X - 1)) ⟨by omega, by omega⟩ ⟨by omega, by omega⟩
  -- the left end of piece 2's part was cut
  have hdl2 : dl2 ≠ 0 := by
    intro h0
    by_cases hst : f.strand = 1
    · rw [if_pos hst] at hco1 hco2
      exact stored_rows_disjoint input ptx prefix_ joinGap err b hwf h hne hi hj hm1 hm2 (hname1.trans hname2.symm)
        (f.start + (c - rowsLength X - 1)) ⟨by omega, by omega⟩ ⟨by omega, by omega⟩
    · rw [if_neg hst] at hco1 hco2
      exact stored_rows_disjoint input ptx prefix_ joinGap err b hwf h hne hi hj hm1 hm2 (hname1.trans hname2.symm)
        (f.stop - (c - rowsLength X - 1)) ⟨by omega, by omega⟩ ⟨by omega, by omega⟩
  have hR1 : R1 = [] := Classical.byContradiction (fun hne' => hdr1 (k1.right hne'))
  have hL2 : L2 = [] := Classical.byContradiction (fun hne' => hdl2 (k2.left hne'))
  have hstop1 : r1.o.stop = c := by rw [k1.cutR hdr1, hK1.bait] at *; exact hc1
  have hstart2 : r2.o.start = c + 1 := by rw [k2.cutL hdl2, hK2.bait] at *; exact hc2
  have hp1' := k1.posR
  have hp2' := k2.pos
  rw [hR1, rowsLength_nil] at hp1'
  rw [hL2, rowsLength_nil] at hp2'
  refine ⟨L1, g1, g2, R2, by rw [k1.rows, hR1], by rw [k2.rows, hL2]; rfl, hstop1, hstart2, hname1, hname2, hstr1, hstr2, ?_⟩
  by_cases hst : f.strand = 1
  · rw [if_pos hst] at hco1 hco2 ⊢
    constructor <;> omega
  · rw [if_neg hst] at hco1 hco2 ⊢
    constructor <;> omega

/-- **deep rows survive** (build level): a contig row sharing `≥ err` (and `≥ 1`) bases with a piece and reaching deeper
    than `3·err` from both ends of the piece is still a row of the piece's result (`RowKept`), whatever the length of the
    piece -/
theorem deep_row_kept (input ptx : List Scaffold) (prefix_ : Str) (joinGap : Option Gap) (err : Int) (b : Build)
    (hwf : WFInput input) (hnn : InputNonNeg input) (hdis : PtxDisjoint ptx) (herr : 0 ≤ err)
    (h : remapToInput input ptx prefix_ joinGap err = .ok b) {r : Res} (hr : r ∈ b.store)
    {sc : Scaffold} (hsc : sc ∈ input) (hn : sc.name = r.o.bait.name)
    {X Y : List Row} {f : Fragment} (hs : sc.rows = X ++ .frag f :: Y)
    (h1 : err ≤ min (rowsLength X + f.length) r.o.bait.stop - max (rowsLength X + 1) r.o.bait.start + 1)
    (h2 : 1 ≤ min (rowsLength X + f.length) r.o.bait.stop - max (rowsLength X + 1) r.o.bait.start + 1)
    (h3 : r.o.bait.start + 3 * err ≤ rowsLength X + f.length) (h4 : rowsLength X + 1 ≤ r.o.bait.stop - 3 * err) :
    (r.o.start ≤ max (rowsLength X + 1) r.o.bait.start ∧ min (rowsLength X + f.length) r.o.bait.stop ≤ r.o.stop) ∧
    ∃ L row R dl dr, RowKept r.o f (rowsLength X) L row R dl dr := by
  obtain ⟨sc1, o1, hsc1, hnm1, _, hK, hS⟩ := remapToInput_core input ptx prefix_ joinGap err b hwf hnn hdis herr h r hr
  have e1 : sc1 = sc := scaffold_of_name hwf hsc1 hsc (hnm1.trans hn.symm)
  rw [e1] at hK hS
  obtain ⟨q1, q2⟩ := hS X f Y hs h1 h2 h3 h4
  refine ⟨⟨q1, q2⟩, ?_⟩
  exact row_kept_at (hnn sc hsc) hK.inv hK.edge hs (x := max (rowsLength X + 1) r.o.bait.start) (by omega) (by omega) q1
    (by omega)

end AgpTpf.C02
