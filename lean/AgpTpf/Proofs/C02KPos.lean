/-
  C02 core (task W6-C02CORE), helper part 1: scaffold positions (`rowAt`, `ContigAt`), boundaries, and the exact
  geometry of `discard_start` / `discard_end` on a result satisfying the C18 invariant (which rows and which scaffold
  positions are removed; that the gap rows stripped after the discarded row are gap positions of the source scaffold).
-/
import AgpTpf.Proofs.C18
import AgpTpf.Proofs.C01MiddleResolve
namespace AgpTpf.C02
open AgpTpf OverlapResult
open AgpTpf.C18 (Inv Content Short ids rowsLength_nil rowsLength_cons rowsLength_append rowsLength_singleton
  rowsLength_reverse popLeadingGaps_spec)
open AgpTpf.C01 (AllGaps)

/-! ### scaffold positions -/

/-- the row covering scaffold position `x` (1-based): the first row whose cumulative end is `≥ x` -/
def rowAt : List Row → Int → Option Row
  | [], _ => none
  | r :: rs, x => if x ≤ r.length then some r else rowAt rs (x - r.length)

/-- position `x` of the scaffold is a contig base (lies in a fragment row, not in a gap row) -/
def ContigAt (src : List Row) (x : Int) : Prop := 1 ≤ x ∧ ∃ f, rowAt src x = some (.frag f)

/-- all rows have non-negative length (so the cumulative index is monotone) -/
def NonNeg (rows : List Row) : Prop := ∀ r ∈ rows, 0 ≤ r.length

theorem NonNeg.append_left {a b : List Row} (h : NonNeg (a ++ b)) : NonNeg a :=
  fun r hr => h r (List.mem_append_left _ hr)
theorem NonNeg.append_right {a b : List Row} (h : NonNeg (a ++ b)) : NonNeg b :=
  fun r hr => h r (List.mem_append_right _ hr)

theorem rowsLength_nonneg {l : List Row} (h : NonNeg l) : 0 ≤ rowsLength l := by
  induction l with
  | nil => simp [rowsLength_nil]
  | cons r t ih =>
    rw [rowsLength_cons]
    have := h r (List.mem_cons_self ..)
    have := ih (fun x hx => h x (List.mem_cons_of_mem _ hx))
    omega

theorem rowAt_append_right (X l : List Row) (hX : NonNeg X) (x : Int) (hx : rowsLength X < x) :
    rowAt (X ++ l) x = rowAt l (x - rowsLength X) := by
  induction X generalizing x with
  | nil => simp [rowsLength_nil]
  | cons r t ih =>
    have h0 := rowsLength_nonneg (l := t) (fun y hy => hX y (List.mem_cons_of_mem _ hy))
    rw [rowsLength_cons] at hx
    have hr : ¬ x ≤ r.length := by omega
    simp only [List.cons_append, rowAt, hr, ↓reduceIte]
    rw [ih (fun y hy => hX y (List.mem_cons_of_mem _ hy)) (x - r.length) (by omega), rowsLength_cons]
    congr 1; omega

theorem rowAt_gaps (G l : List Row) (hG : AllGaps G) (x : Int) (h1 : 0 < x) (h2 : x ≤ rowsLength G) :
    ∃ g, rowAt (G ++ l) x = some (.gap g) := by
  induction G generalizing x with
  | nil => rw [rowsLength_nil] at h2; omega
  | cons r t ih =>
    cases r with
    | frag f => have := hG (.frag f) (List.mem_cons_self ..); simp [Row.isGap] at this
    | gap g =>
      simp only [List.cons_append, rowAt]
      by_cases hx : x ≤ (Row.gap g).length
      · rw [if_pos hx]; exact ⟨g, rfl⟩
      · rw [if_neg hx]
        rw [rowsLength_cons] at h2
        exact ih (fun y hy => hG y (List.mem_cons_of_mem _ hy)) _ (by omega) (by omega)

/-- a position inside a run of gap rows of the scaffold is not a contig base -/
theorem not_contigAt_gap_run {src X G Y : List Row} (hs : src = X ++ G ++ Y) (hlen : NonNeg src) (hG : AllGaps G)
    {x : Int} (h1 : rowsLength X < x) (h2 : x ≤ rowsLength X + rowsLength G) : ¬ ContigAt src x := by
  rintro ⟨_, f, hf⟩
  have hX : NonNeg X := by rw [hs, List.append_assoc] at hlen; exact hlen.append_left
  rw [hs, List.append_assoc, rowAt_append_right X _ hX x h1] at hf
  obtain ⟨g, hg⟩ := rowAt_gaps G Y hG (x - rowsLength X) (by omega) (by omega)
  rw [hg] at hf
  cases hf

/-- a position inside a fragment row is a contig base, and `rowAt` finds that row -/
theorem rowAt_frag {src X Y : List Row} {f : Fragment} (hs : src = X ++ .frag f :: Y) (hlen : NonNeg src)
    {x : Int} (h1 : rowsLength X < x) (h2 : x ≤ rowsLength X + f.length) : rowAt src x = some (.frag f) := by
  have hX : NonNeg X := by rw [hs] at hlen; exact hlen.append_left
  rw [hs, rowAt_append_right X _ hX x h1]
  simp only [rowAt]
  rw [if_pos (by simp only [Row.length]; omega)]

/-! ### boundaries -/

/-- `y` is a cumulative row end of `src` (a position between two rows, or 0, or the scaffold length) -/
def Boundary (src : List Row) (y : Int) : Prop := ∃ X Y, src = X ++ Y ∧ y = rowsLength X

/-! ### generic list facts -/

theorem gaps_prefix {G T mid : List Row} {f : Fragment} (hG : AllGaps G) (h : G ++ T = mid ++ [.frag f]) :
    ∃ mid', mid = G ++ mid' ∧ T = mid' ++ [.frag f] := by
  induction G generalizing mid with
  | nil => exact ⟨mid, rfl, by simpa using h⟩
  | cons g G' ih =>
    cases mid with
    | nil =>
      simp only [List.cons_append, List.nil_append, List.cons.injEq] at h
      have := hG g (List.mem_cons_self ..)
      rw [h.1] at this; simp [Row.isGap] at this
    | cons m mid0 =>
      simp only [List.cons_append, List.cons.injEq] at h
      obtain ⟨mid', h1, h2⟩ := ih (fun y hy => hG y (List.mem_cons_of_mem _ hy)) h.2
      exact ⟨mid', by rw [h.1, h1]; rfl, h2⟩

theorem gaps_suffix {G T mid : List Row} {f : Fragment} (hG : AllGaps G) (h : T ++ G = .frag f :: mid) :
    ∃ mid', mid = mid' ++ G ∧ T = .frag f :: mid' := by
  have hr : G.reverse ++ T.reverse = mid.reverse ++ [.frag f] := by
    have := congrArg List.reverse h
    simpa using this
  obtain ⟨m', h1, h2⟩ := gaps_prefix (fun y hy => hG y (List.mem_reverse.mp hy)) hr
  refine ⟨m'.reverse, ?_, ?_⟩
  · have := congrArg List.reverse h1; simpa using this
  · have := congrArg List.reverse h2; simpa using this

/-! ### `discard_start` -/

/-- everything `discard_start` does: the first row `d` and the run `G` of gap rows behind it go; `start` moves past them -/
theorem discardStart_full {o o' : OverlapResult} (h : discardStart o = .ok o') :
    ∃ d G, o.rows = d :: (G ++ o'.rows) ∧ AllGaps G ∧ o'.start = o.start + d.length + rowsLength G ∧
      o'.stop = o.stop ∧ o'.bait = o.bait := by
  unfold discardStart at h
  split at h
  · cases h
  · rename_i d r hr
    obtain ⟨G, T, hL, hG, hp, _⟩ := popLeadingGaps_spec r (o.start + d.length)
    rw [hp] at h
    simp only [Except.ok.injEq] at h
    subst h
    exact ⟨d, G, by simp [hr, hL], hG, rfl, rfl, rfl⟩

/-- on a result satisfying the C18 invariant: the stripped gap rows are a run of gap rows of the source scaffold,
    lying directly behind the discarded row -/
theorem discardStart_geom {src : List Row} {o o' : OverlapResult} (hI : Inv src o) (h : discardStart o = .ok o') :
    ∃ d G, o.rows = d :: (G ++ o'.rows) ∧ AllGaps G ∧ o'.start = o.start + d.length + rowsLength G ∧
      o'.stop = o.stop ∧ o'.bait = o.bait ∧
      ((o'.rows = [] ∧ G = []) ∨ ∃ X Y, src = X ++ G ++ Y ∧ rowsLength X = o.start + d.length - 1) := by
  obtain ⟨d, G, hrows, hG, hst, hen, hb⟩ := discardStart_full h
  refine ⟨d, G, hrows, hG, hst, hen, hb, ?_⟩
  cases hI.content with
  | empty hr _ => rw [hr] at hrows; cases hrows
  | one A B s r dl dr hs hr hsh h0 h1 hst' hen' =>
    rw [hr] at hrows
    simp only [List.cons.injEq] at hrows
    have : G ++ o'.rows = [] := hrows.2.symm
    exact Or.inl ⟨(List.append_eq_nil_iff.mp this).2, (List.append_eq_nil_iff.mp this).1⟩
  | many A B mid s0 s1 r0 r1 dl dr hs hr hs0 hs1 h0 h1 hst' hen' =>
    right
    rw [hr] at hrows
    simp only [List.cons_append, List.cons.injEq] at hrows
    obtain ⟨rfl, hrest⟩ := hrows
    obtain ⟨f1, g1, rfl, _⟩ := id hs1
    obtain ⟨mid', hm, _⟩ := gaps_prefix hG hrest.symm
    refine ⟨A ++ [s0], mid' ++ s1 :: B, ?_, ?_⟩
    · rw [hs, hm]; simp
    · have := hs0.length
      rw [rowsLength_append, rowsLength_singleton]; omega

/-! ### `discard_end` -/

theorem discardEnd_full {o o' : OverlapResult} (h : discardEnd o = .ok o') :
    ∃ d G, o.rows = o'.rows ++ G ++ [d] ∧ AllGaps G ∧ o'.stop = o.stop - d.length - rowsLength G ∧
      o'.start = o.start ∧ o'.bait = o.bait := by
  unfold discardEnd at h
  split at h
  · cases h
  · rename_i d r hr
    obtain ⟨G, T, hL, hG, hp, _⟩ := popLeadingGaps_spec r d.length
    rw [hp] at h
    simp only [Except.ok.injEq] at h
    subst h
    refine ⟨d, G.reverse, ?_, fun x hx => hG x (List.mem_reverse.mp hx), ?_, rfl, rfl⟩
    · have := congrArg List.reverse hr
      simp only [List.reverse_reverse, List.reverse_cons, hL, List.reverse_append] at this
      simp [this]
    · simp only [rowsLength_reverse]; omega

theorem discardEnd_geom {src : List Row} {o o' : OverlapResult} (hI : Inv src o) (h : discardEnd o = .ok o') :
    ∃ d G, o.rows = o'.rows ++ G ++ [d] ∧ AllGaps G ∧ o'.stop = o.stop - d.length - rowsLength G ∧
      o'.start = o.start ∧ o'.bait = o.bait ∧
      ((o'.rows = [] ∧ G = []) ∨ ∃ X Y, src = X ++ G ++ Y ∧ rowsLength X + rowsLength G = o.stop - d.length) := by
  obtain ⟨d, G, hrows, hG, hen, hst, hb⟩ := discardEnd_full h
  refine ⟨d, G, hrows, hG, hen, hst, hb, ?_⟩
  cases hI.content with
  | empty hr _ => rw [hr] at hrows; simp at hrows
  | one A B s r dl dr hs hr hsh h0 h1 hst' hen' =>
    rw [hr] at hrows
    have hl := congrArg List.length hrows
    simp only [List.length_cons, List.length_nil, List.length_append] at hl
    left
    exact ⟨List.eq_nil_of_length_eq_zero (by omega), List.eq_nil_of_length_eq_zero (by omega)⟩
  | many A B mid s0 s1 r0 r1 dl dr hs hr hs0 hs1 h0 h1 hst' hen' =>
    right
    rw [hr] at hrows
    have hrows' : (r0 :: mid) ++ [r1] = (o'.rows ++ G) ++ [d] := by simpa using hrows
    have hinj := List.append_inj' hrows' rfl
    obtain ⟨hrest, hd⟩ := hinj
    simp only [List.cons.injEq, and_true] at hd
    subst hd
    obtain ⟨f0, g0, rfl, _⟩ := id hs0
    obtain ⟨mid', hm, _⟩ := gaps_suffix hG hrest.symm
    refine ⟨A ++ s0 :: mid', s1 :: B, ?_, ?_⟩
    · rw [hs, hm]; simp
    · have := hs1.length
      rw [hm, rowsLength_append] at hen'
      rw [rowsLength_append, rowsLength_cons]; omega

end AgpTpf.C02
