/-
  C08 helpers, part 9 (painted variant): `ChrNamer.build_groups` / `name_chromosomes` when every painted scaffold is its
  own chromosome group (one haplotype `None`, pairwise different original names).
-/
import AgpTpf.Model.Remap
import AgpTpf.Proofs.C09Split
namespace AgpTpf.C08
open AgpTpf

/-- loop body of `build_groups` (verbatim) -/
def bgStep (fs : List Scaffold) (haps : List Str) (st : GroupScan) (e : Str × Nat) : R GroupScan := do
  let others := haps.drop 1
  let (hap, sid) := e
  let sc := fs.getD sid default
  let orig ← match sc.originalName with
    | some (c :: r) => pure (c :: r)
    | _ => throw Err.value
  let hd := (dGet? st.cur hap).getD []
  let st ←
    if ¬ hd.isEmpty then
      if ¬ others.isEmpty then
        if some hap ≠ st.lastHap then pure { st with groups := st.groups ++ [st.cur], cur := newGroup haps }
        else if some orig ≠ st.lastOrig then do
          let lo := st.lastOrig.getD []
          match dGet? hd lo with
          | none => throw Err.key
          | some ids =>
            let first ← pyGet ids 0
            let tags := ((fs.getD first default).originalTags).getD []
            if tags.contains sSingleton then pure { st with groups := st.groups ++ [st.cur], cur := newGroup haps }
            else pure st
        else pure st
      else if some orig ≠ st.lastOrig then pure { st with groups := st.groups ++ [st.cur], cur := newGroup haps }
      else pure st
    else pure st
  pure { st with cur := groupAdd st.cur hap orig sid, lastHap := some hap, lastOrig := some orig }

theorem buildGroups_eq (fs : List Scaffold) (haps : List Str) (entries : List (Str × Nat)) :
    buildGroups fs haps entries = (do
      let st ← entries.foldlM (bgStep fs haps) { groups := [], cur := newGroup haps }
      pure (st.groups ++ [st.cur])) := rfl

/-- the group of a single painted scaffold `i` with original name `nm` -/
def soloGroup (nm : Str) (i : Nat) : GroupData := [(sNone, [(nm, [i])])]

theorem bgStep_first (fs : List Scaffold) (nm : Str) (i : Nat) (hne : nm ≠ [])
    (horig : (fs.getD i default).originalName = some nm) :
    bgStep fs [sNone] { groups := [], cur := newGroup [sNone] } (sNone, i) =
      .ok { groups := [], cur := soloGroup nm i, lastHap := some sNone, lastOrig := some nm } := by
  obtain ⟨c, r, rfl⟩ : ∃ c r, nm = c :: r := by
    cases nm with
    | nil => exact absurd rfl hne
    | cons c r => exact ⟨c, r, rfl⟩
  unfold bgStep
  rw [List.getD_eq_getElem?_getD] at horig
  simp [horig, newGroup, dGet?, groupAdd, dSet, soloGroup, bind, Except.bind, pure, Except.pure]

theorem bgStep_next (fs : List Scaffold) (gs : List GroupData) (nm0 nm : Str) (i0 i : Nat) (hne : nm ≠ [])
    (hdiff : nm ≠ nm0) (horig : (fs.getD i default).originalName = some nm) :
    bgStep fs [sNone] { groups := gs, cur := soloGroup nm0 i0, lastHap := some sNone, lastOrig := some nm0 } (sNone, i) =
      .ok { groups := gs ++ [soloGroup nm0 i0], cur := soloGroup nm i, lastHap := some sNone, lastOrig := some nm } := by
  obtain ⟨c, r, rfl⟩ : ∃ c r, nm = c :: r := by
    cases nm with
    | nil => exact absurd rfl hne
    | cons c r => exact ⟨c, r, rfl⟩
  unfold bgStep
  have h : ¬ (c :: r = nm0) := hdiff
  rw [List.getD_eq_getElem?_getD] at horig
  simp [horig, newGroup, dGet?, groupAdd, dSet, soloGroup, bind, Except.bind, pure, Except.pure, h]

theorem buildGroups_solo (fs : List Scaffold) (names : Nat → Str) (m : Nat)
    (horig : ∀ i, i < m → (fs.getD i default).originalName = some (names i))
    (hne : ∀ i, i < m → names i ≠ [])
    (hdiff : ∀ i, i + 1 < m → names (i + 1) ≠ names i) (hm : 0 < m) :
    buildGroups fs [sNone] ((List.range m).map (fun i => (sNone, i))) =
      .ok ((List.range m).map (fun i => soloGroup (names i) i)) := by
  rw [buildGroups_eq]
  have key : ∀ k, k < m →
      ((List.range (k + 1)).map (fun i => (sNone, i))).foldlM (bgStep fs [sNone]) { groups := [], cur := newGroup [sNone] } =
        .ok { groups := (List.range k).map (fun i => soloGroup (names i) i), cur := soloGroup (names k) k,
              lastHap := some sNone, lastOrig := some (names k) } := by
    intro k
    induction k with
    | zero =>
      intro h0
      simp only [List.range_succ, List.range_zero, List.nil_append, List.map_cons, List.map_nil, List.foldlM_cons,
        List.foldlM_nil, bgStep_first fs (names 0) 0 (hne 0 h0) (horig 0 h0), bind, Except.bind]
      rfl
    | succ k ih =>
      intro hk
      rw [List.range_succ, List.map_append, List.foldlM_append, ih (by omega)]
      simp only [List.map_cons, List.map_nil, List.foldlM_cons, List.foldlM_nil, bind, Except.bind,
        bgStep_next fs _ (names k) (names (k + 1)) k (k + 1) (hne _ hk) (hdiff k hk) (horig _ hk)]
      simp [List.range_succ, pure, Except.pure]
  obtain ⟨k, rfl⟩ : ∃ k, m = k + 1 := ⟨m - 1, by omega⟩
  rw [key k (by omega)]
  simp [bind, Except.bind, pure, Except.pure, List.range_succ]

theorem groupsHaveErrors_solo (names : Nat → Str) (l : List Nat) :
    groupsHaveErrors (l.map (fun i => soloGroup (names i) i)) = false := by
  unfold groupsHaveErrors
  simp [soloGroup]

/-- total contig length of scaffold `i` -/
def fragLen (fs : List Scaffold) (i : Nat) : Int := (fs.getD i default).fragmentsLength

theorem groupFirstLength_solo (fs : List Scaffold) (nm : Str) (i : Nat) :
    groupFirstLength fs (soloGroup nm i) = .ok (fragLen fs i) := by
  simp [groupFirstLength, soloGroup, sumInts, fragLen]

theorem keyed_solo (fs : List Scaffold) (names : Nat → Str) (l : List Nat) :
    (l.map (fun i => soloGroup (names i) i)).mapM (fun g => do let len ← groupFirstLength fs g; pure (len, g)) =
      .ok (l.map (fun i => (fragLen fs i, soloGroup (names i) i))) := by
  induction l with
  | nil => rfl
  | cons a r ih =>
    simp only [List.map_cons, List.mapM_cons, groupFirstLength_solo, ih]
    rfl

/-- sorting decorated pairs = decorating the sorted indices -/
theorem stableSort_map_pair {ι κ γ} (le : κ → κ → Bool) (key : ι → κ) (g : ι → γ) (l : List ι) :
    stableSort (fun (a c : κ × γ) => le a.1 c.1) (l.map (fun x => (key x, g x))) =
      (stableSort (fun a b => le (key a) (key b)) l).map (fun x => (key x, g x)) := by
  have hins : ∀ (x : ι) (m : List ι),
      insertBy (fun (a c : κ × γ) => le a.1 c.1) (key x, g x) (m.map (fun x => (key x, g x)))
        = (insertBy (fun a b => le (key a) (key b)) x m).map (fun x => (key x, g x)) := by
    intro x m
    induction m with
    | nil => rfl
    | cons y ys ih =>
      simp only [List.map_cons, insertBy]
      split
      · simp
      · simp [ih]
  induction l with
  | nil => rfl
  | cons x xs ih => simp only [List.map_cons, stableSort, ih, hins]

/-! ### naming -/

theorem replaceAll_nil (old new : Str) (fuel : Nat) : replaceAll old new fuel [] = [] := by
  cases fuel <;> rfl

theorem replaceAll_self (p new : Str) (hne : p ≠ []) : replaceAll p new (p.length + 1) p = new := by
  cases p with
  | nil => exact absurd rfl hne
  | cons c cs =>
    have h1 : (c :: cs).isPrefixOf (c :: cs) = true := by
      rw [List.isPrefixOf_iff_prefix]; exact List.prefix_refl _
    have h2 : (c :: cs).isEmpty = false := rfl
    rw [replaceAll]
    rw [if_pos ⟨h1, by rw [h2]; simp⟩, List.drop_length, replaceAll_nil, List.append_nil]

/-- give scaffold `i` the name `nm` -/
def renameAt (fs : List Scaffold) (i : Nat) (nm : Str) : List Scaffold :=
  setAt fs i { (fs.getD i default) with name := nm }

theorem nameGroup_solo (fs : List Scaffold) (nm : Str) (i : Nat) (prefix_ : Str) (n : Nat)
    (hname : (fs.getD i default).name = nm) (hne : nm ≠ []) :
    nameGroup fs (soloGroup nm i) prefix_ n = renameAt fs i (prefix_ ++ natToStr n) := by
  have h := replaceAll_self nm (prefix_ ++ natToStr n) hne
  rw [List.getD_eq_getElem?_getD] at hname
  simp [nameGroup, soloGroup, multiChrList, renameAt, hname, h]

theorem renameAt_length (fs : List Scaffold) (i : Nat) (nm : Str) : (renameAt fs i nm).length = fs.length := by
  simp [renameAt, setAt]

theorem renameAt_getD (fs : List Scaffold) (i j : Nat) (nm : Str) (hi : i < fs.length) :
    (renameAt fs i nm).getD j default = if i = j then { (fs.getD i default) with name := nm } else fs.getD j default := by
  unfold renameAt
  rw [C09.getD_setAt]
  by_cases h : i = j
  · subst h; simp [hi]
  · simp [h]

/-- naming the solo groups of the indices `σ` (pairwise different) with the numbers `off+1, off+2, …`: scaffold `σ[k]`
    gets the name `prefix ++ (off + k + 1)`, everything else stays -/
theorem nameFold (names : Nat → Str) (prefix_ : Str) (σ : List Nat) (off : Nat) (fs : List Scaffold)
    (hnd : σ.Nodup) (hlt : ∀ i ∈ σ, i < fs.length)
    (hname : ∀ i ∈ σ, (fs.getD i default).name = names i) (hne : ∀ i ∈ σ, names i ≠ []) :
    ∃ fs', ((List.range' off σ.length).zip (σ.map (fun i => soloGroup (names i) i))).foldl
        (fun fs (p : Nat × GroupData) => nameGroup fs p.2 prefix_ (p.1 + 1)) fs = fs' ∧
      fs'.length = fs.length ∧
      ∀ j, fs'.getD j default =
        if j ∈ σ then { (fs.getD j default) with name := prefix_ ++ natToStr (off + σ.idxOf j + 1) }
        else fs.getD j default := by
  induction σ generalizing off fs with
  | nil => exact ⟨fs, rfl, rfl, by simp⟩
  | cons i r ih =>
    simp only [List.nodup_cons] at hnd
    have hi : i < fs.length := hlt i (by simp)
    simp only [List.length_cons, List.range'_succ, List.map_cons, List.zip_cons_cons, List.foldl_cons]
    rw [nameGroup_solo fs (names i) i prefix_ (off + 1) (hname i (by simp)) (hne i (by simp))]
    obtain ⟨fs', e, hl, hg⟩ := ih (off + 1) (renameAt fs i (prefix_ ++ natToStr (off + 1))) hnd.2
      (fun j hj => by rw [renameAt_length]; exact hlt j (by simp [hj]))
      (fun j hj => by
        rw [renameAt_getD _ _ _ _ hi]
        have : i ≠ j := fun e => hnd.1 (e ▸ hj)
        simp only [this, if_false]
        exact hname j (by simp [hj]))
      (fun j hj => hne j (by simp [hj]))
    refine ⟨fs', e, by rw [hl, renameAt_length], ?_⟩
    intro j
    rw [hg j, renameAt_getD _ _ _ _ hi]
    by_cases hji : i = j
    · subst hji
      simp [hnd.1]
    · have hji' : ¬ j = i := fun e => hji e.symm
      by_cases hjr : j ∈ r
      · have hidx : (i :: r).idxOf j = r.idxOf j + 1 := by
          have hb : (i == j) = false := by simpa using hji
          rw [List.idxOf_cons, hb]; rfl
        simp only [hjr, hji, if_true, if_false, List.mem_cons, or_true, hidx]
        have : off + 1 + List.idxOf j r + 1 = off + (List.idxOf j r + 1) + 1 := by omega
        rw [this]
      · simp [hjr, hji, hji']

end AgpTpf.C08
