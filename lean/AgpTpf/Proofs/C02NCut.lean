/-
  C02 "remapping never fails" (task W7-C02NOERR), helper part 2: `cut_fragments` SUCCEEDS (the QC passes) whenever the
  holders of the contig, in the order `cut_fragments` visits them, own abutting stretches of the contig (`VisitOK`).
  No restriction on the number of holders, on the strand, or on the Pretext tags.
-/
import AgpTpf.Proofs.C02NTrim
namespace AgpTpf.C02
open AgpTpf OverlapResult

/-! ### low / high side of a holder, in contig coordinates -/

/-- is the contig the row at the LOW side of the result (contig coordinates)?  first row for a forward contig, last row
    for a reverse one (`a` = it is the first row, `c` = it is the last row) -/
def lowB (F : Fragment) (a c : Bool) : Bool := if F.strand = 1 then a else c
def highB (F : Fragment) (a c : Bool) : Bool := if F.strand = 1 then c else a
/-- the overhang of the result over its bait at the contig's low / high side -/
def ovLow (o : OverlapResult) (F : Fragment) : Int := if F.strand = 1 then o.startOverhang else o.endOverhang
def ovHigh (o : OverlapResult) (F : Fragment) : Int := if F.strand = 1 then o.endOverhang else o.startOverhang

/-- `fragment_start_if_trimmed`, forwards -/
theorem fsit_eval (o : OverlapResult) (F : Fragment) (a c : Bool) (hs : firstIs o F = .ok a) (he : lastIs o F = .ok c)
    (hstr : F.strand = 1 ∨ F.strand = -1) :
    o.fragmentStartIfTrimmed F = .ok (if lowB F a c = true then F.start + ovLow o F else F.start) := by
  unfold fragmentStartIfTrimmed lowB ovLow
  rcases hstr with c3 | c3
  · cases a <;> simp [c3, hs, bind, Except.bind, pure, Except.pure]
  · have c4 : ¬ (F.strand = 1) := by omega
    cases c <;> simp [c4, he, bind, Except.bind, pure, Except.pure]

/-- **the holders in visiting order own abutting stretches of the contig.**
    `V` = the holder ids in the order `cut_fragments` visits them; `lo j … hi j` = the stretch of the contig (contig
    coordinates; it may stick out of the contig for the first and the last holder) that the bait of the `j`-th holder
    covers.  Consecutive stretches abut, each meets the contig; the contig is the low-side row of every holder but the
    first and the high-side row of every holder but the last, and where it is, the result's overhang over its bait is
    exactly the distance from the contig's end to the stretch. -/
structure VisitOK (b : Build) (fnd : Found) (V : List Nat) (lo hi : Nat → Int) : Prop where
  perm : V.Perm fnd.scaffolds
  ne : V ≠ []
  strand : fnd.fragment.strand = 1 ∨ fnd.fragment.strand = -1
  valid : fnd.fragment.start ≤ fnd.fragment.stop
  geo : ∀ j, j < V.length → lo j ≤ hi j ∧ fnd.fragment.start ≤ hi j ∧ lo j ≤ fnd.fragment.stop
  abut : ∀ j, j + 1 < V.length → hi j + 1 = lo (j + 1)
  res : ∀ j (h : j < V.length), ∃ a c,
    firstIs (getRes b.store V[j]) fnd.fragment = .ok a ∧ lastIs (getRes b.store V[j]) fnd.fragment = .ok c ∧
    (a = true ∨ c = true) ∧
    (lowB fnd.fragment a c = true → ovLow (getRes b.store V[j]) fnd.fragment = lo j - fnd.fragment.start) ∧
    (highB fnd.fragment a c = true → ovHigh (getRes b.store V[j]) fnd.fragment = fnd.fragment.stop - hi j) ∧
    (0 < j → lowB fnd.fragment a c = true) ∧ (j + 1 < V.length → highB fnd.fragment a c = true)

section
variable {b : Build} {fnd : Found} {V : List Nat} {lo hi : Nat → Int}

theorem VisitOK.hi_mono (h : VisitOK b fnd V lo hi) : ∀ k i, i + k < V.length → hi i ≤ hi (i + k)
  | 0, i, _ => by simp
  | k + 1, i, hlt => by
    have h1 := h.hi_mono k i (by omega)
    have h2 := h.abut (i + k) (by omega)
    have h3 := (h.geo (i + k + 1) (by omega)).1
    have : i + (k + 1) = i + k + 1 := by omega
    rw [this]; omega

/-- the `j`-th holder is trimmed to `lo j … hi j`, except that the first keeps the contig's first base and the last its
    last base -/
theorem VisitOK.trim_full (h : VisitOK b fnd V lo hi) (j : Nat) (hj : j < V.length) (oid : Nat) :
    ∃ a c o' new, firstIs (getRes b.store V[j]) fnd.fragment = .ok a ∧
      lastIs (getRes b.store V[j]) fnd.fragment = .ok c ∧ (a = true ∨ c = true) ∧
      (getRes b.store V[j]).trimFragment fnd.fragment
        (cutFlags fnd.fragment.strand j (V.length - 1)).1 (cutFlags fnd.fragment.strand j (V.length - 1)).2 oid =
        .ok (o', new) ∧
      new.start = (if j = 0 then fnd.fragment.start else lo j) ∧
      new.stop = (if j + 1 = V.length then fnd.fragment.stop else hi j) ∧ new.name = fnd.fragment.name ∧
      o'.bait = (getRes b.store V[j]).bait ∧
      o'.start = (if a = true ∧ 0 < (getRes b.store V[j]).startOverhang ∧
          (cutFlags fnd.fragment.strand j (V.length - 1)).1 = false
        then (getRes b.store V[j]).start + (getRes b.store V[j]).startOverhang else (getRes b.store V[j]).start) ∧
      o'.stop = (if c = true ∧ 0 < (getRes b.store V[j]).endOverhang ∧
          (cutFlags fnd.fragment.strand j (V.length - 1)).2 = false
        then (getRes b.store V[j]).stop - (getRes b.store V[j]).endOverhang else (getRes b.store V[j]).stop) ∧
      o'.rows = (if c = true then setLast (getRes b.store V[j]).rows (.frag new) else
        match (getRes b.store V[j]).rows with
        | [] => []
        | _ :: r => .frag new :: r) ∧
      new.oid = oid := by
  obtain ⟨a, c, hs, he, hac, hl, hh, hlow, hhigh⟩ := h.res j hj
  have hg := h.geo j hj
  have hv := h.valid
  have hlo : 0 < j → fnd.fragment.start < lo j := by
    intro h0
    have h1 := h.abut (j - 1) (by omega)
    have h2 := (h.geo (j - 1) (by omega)).2.1
    have : j - 1 + 1 = j := by omega
    rw [this] at h1; omega
  have hhi : j + 1 < V.length → hi j < fnd.fragment.stop := by
    intro h0
    have h1 := h.abut j h0
    have h2 := (h.geo (j + 1) h0).2.2
    omega
  have key : trimLow (getRes b.store V[j]) fnd.fragment a c (cutFlags fnd.fragment.strand j (V.length - 1)).1
        (cutFlags fnd.fragment.strand j (V.length - 1)).2 = (if j = 0 then 0 else lo j - fnd.fragment.start) ∧
      trimHigh (getRes b.store V[j]) fnd.fragment a c (cutFlags fnd.fragment.strand j (V.length - 1)).1
        (cutFlags fnd.fragment.strand j (V.length - 1)).2 = (if j + 1 = V.length then 0 else fnd.fragment.stop - hi j) := by
    unfold trimLow trimHigh cutFlags
    simp only [lowB, highB, ovLow, ovHigh] at hl hh hlow hhigh
    have b0 : j = 0 → (j == 0) = true := fun e => by simp [e]
    have b0' : ¬ j = 0 → (j == 0) = false := fun e => by simp [e]
    have b1 : j + 1 = V.length → (j == V.length - 1) = true := fun e => by
      have : j = V.length - 1 := by omega
      simp [← this]
    have b1' : ¬ j + 1 = V.length → (j == V.length - 1) = false := fun e => by
      have : ¬ j = V.length - 1 := by omega
      simp [this]
    rcases h.strand with c3 | c3
    · have c4 : ¬ (fnd.fragment.strand = -1) := by omega
      simp only [c3, if_true] at hl hh hlow hhigh
      simp only [c4, if_false]
      simp only [c3, if_true]
      constructor
      · by_cases h0 : j = 0
        · rw [if_pos h0, if_neg (by rw [b0 h0]; simp)]
        · have p1 := hlow (by omega); have p2 := hl p1; have p3 := hlo (by omega)
          rw [if_neg h0, if_pos ⟨p1, by omega, b0' h0⟩, p2]
      · by_cases h0 : j + 1 = V.length
        · rw [if_pos h0, if_neg (by rw [b1 h0]; simp)]
        · have p1 := hhigh (by omega); have p2 := hh p1; have p3 := hhi (by omega)
          rw [if_neg h0, if_pos ⟨p1, by omega, b1' h0⟩, p2]
    · have c4 : ¬ (fnd.fragment.strand = 1) := by omega
      simp only [c4, if_false] at hl hh hlow hhigh
      simp only [c4, if_false]
      simp only [c3, if_true]
      constructor
      · by_cases h0 : j = 0
        · rw [if_pos h0, if_neg (by rw [b0 h0]; simp)]
        · have p1 := hlow (by omega); have p2 := hl p1; have p3 := hlo (by omega)
          rw [if_neg h0, if_pos ⟨p1, by omega, b0' h0⟩, p2]
      · by_cases h0 : j + 1 = V.length
        · rw [if_pos h0, if_neg (by rw [b1 h0]; simp)]
        · have p1 := hhigh (by omega); have p2 := hh p1; have p3 := hhi (by omega)
          rw [if_neg h0, if_pos ⟨p1, by omega, b1' h0⟩, p2]
  have hval : fnd.fragment.start + trimLow (getRes b.store V[j]) fnd.fragment a c
        (cutFlags fnd.fragment.strand j (V.length - 1)).1 (cutFlags fnd.fragment.strand j (V.length - 1)).2 ≤
      fnd.fragment.stop - trimHigh (getRes b.store V[j]) fnd.fragment a c
        (cutFlags fnd.fragment.strand j (V.length - 1)).1 (cutFlags fnd.fragment.strand j (V.length - 1)).2 := by
    rw [key.1, key.2]
    split <;> split <;> omega
  obtain ⟨o', new, ht, n1, n2, n3, n4, n5, n6, n7, n8, _⟩ :=
    trim_eval (getRes b.store V[j]) fnd.fragment _ _ oid a c hs he hac h.strand hval
  refine ⟨a, c, o', new, hs, he, hac, ht, ?_, ?_, n3, n4, n5, n6, n7, n8⟩
  · rw [n1, key.1]; split <;> omega
  · rw [n2, key.2]; split <;> omega

/-- the `j`-th holder is trimmed to `lo j … hi j`, except that the first keeps the contig's first base and the last its
    last base -/
theorem VisitOK.trim (h : VisitOK b fnd V lo hi) (j : Nat) (hj : j < V.length) (oid : Nat) :
    ∃ o' new, (b.store.getD V[j] default).o.trimFragment fnd.fragment
        (cutFlags fnd.fragment.strand j (V.length - 1)).1 (cutFlags fnd.fragment.strand j (V.length - 1)).2 oid =
        .ok (o', new) ∧
      new.start = (if j = 0 then fnd.fragment.start else lo j) ∧
      new.stop = (if j + 1 = V.length then fnd.fragment.stop else hi j) ∧ new.name = fnd.fragment.name := by
  obtain ⟨_, _, o', new, _, _, _, ht, n1, n2, n3, _⟩ := h.trim_full j hj oid
  exact ⟨o', new, ht, n1, n2, n3⟩

/-- `fragment_start_if_trimmed` of the `j`-th holder: at most `hi j`, and exactly `lo j` for `j > 0` -/
theorem VisitOK.key (h : VisitOK b fnd V lo hi) (j : Nat) (hj : j < V.length) :
    ∃ v, (getRes b.store V[j]).fragmentStartIfTrimmed fnd.fragment = .ok v ∧ v ≤ hi j ∧ (0 < j → v = lo j) := by
  obtain ⟨a, c, hs, he, hac, hl, hh, hlow, hhigh⟩ := h.res j hj
  have hg := h.geo j hj
  refine ⟨_, fsit_eval _ _ a c hs he h.strand, ?_, ?_⟩
  · split
    · next hb => rw [hl hb]; omega
    · omega
  · intro h0
    rw [if_pos (hlow h0), hl (hlow h0)]; omega

end

/-- the list `cut_fragments_chain` wants: holder id, trimmed result, new Fragment, in visiting order -/
def cutT (b : Build) (F : Fragment) (V : List Nat) : List (Nat × OverlapResult × Fragment) :=
  V.zipIdx.map (fun x =>
    (x.1, match (b.store.getD x.1 default).o.trimFragment F (cutFlags F.strand x.2 (V.length - 1)).1
              (cutFlags F.strand x.2 (V.length - 1)).2 (b.nextOid + x.2) with
          | .ok p => p
          | .error _ => default))

theorem cutT_fst (b : Build) (F : Fragment) (V : List Nat) : (cutT b F V).map (·.1) = V := by
  unfold cutT
  rw [List.map_map]
  exact List.zipIdx_map_fst 0 V

theorem cutT_length (b : Build) (F : Fragment) (V : List Nat) : (cutT b F V).length = V.length := by
  simp [cutT]

theorem cutT_get (b : Build) (F : Fragment) (V : List Nat) (j : Nat) (hj : j < V.length) :
    (cutT b F V)[j]? = some (V[j],
      match (b.store.getD V[j] default).o.trimFragment F (cutFlags F.strand j (V.length - 1)).1
              (cutFlags F.strand j (V.length - 1)).2 (b.nextOid + j) with
          | .ok p => p
          | .error _ => default) := by
  unfold cutT
  rw [List.getElem?_map, List.getElem?_zipIdx, List.getElem?_eq_getElem hj]
  simp

/-- **`cut_fragments` succeeds** for a contig whose holders own abutting stretches: the QC passes; holder `V[j]` gets the
    result `trim_fragment` returns with the flags of position `j`; nothing else of the build changes but the counters. -/
theorem cut_ok_of_visit {b : Build} {fnd : Found} {V : List Nat} {lo hi : Nat → Int} (h : VisitOK b fnd V lo hi) :
    cutFragments b fnd =
      .ok { applyCuts b (cutT b fnd.fragment V) with cuts := b.cuts + ((V.length : Int) - 1) } ∧
    ∀ j (hj : j < V.length), ∃ o' new, (b.store.getD V[j] default).o.trimFragment fnd.fragment
        (cutFlags fnd.fragment.strand j (V.length - 1)).1 (cutFlags fnd.fragment.strand j (V.length - 1)).2
        (b.nextOid + j) = .ok (o', new) ∧ (cutT b fnd.fragment V)[j]? = some (V[j], o', new) := by
  have hn : 0 < V.length := List.length_pos_iff.mpr h.ne
  have hget : ∀ j (hj : j < V.length), ∃ o' new, (b.store.getD V[j] default).o.trimFragment fnd.fragment
        (cutFlags fnd.fragment.strand j (V.length - 1)).1 (cutFlags fnd.fragment.strand j (V.length - 1)).2
        (b.nextOid + j) = .ok (o', new) ∧ (cutT b fnd.fragment V)[j]? = some (V[j], o', new) ∧
      new.start = (if j = 0 then fnd.fragment.start else lo j) ∧
      new.stop = (if j + 1 = V.length then fnd.fragment.stop else hi j) ∧ new.name = fnd.fragment.name := by
    intro j hj
    obtain ⟨o', new, ht, n1, n2, n3⟩ := h.trim j hj (b.nextOid + j)
    refine ⟨o', new, ht, ?_, n1, n2, n3⟩
    rw [cutT_get b fnd.fragment V j hj, ht]
  refine ⟨?_, fun j hj => by obtain ⟨o', new, h1, h2, _⟩ := hget j hj; exact ⟨o', new, h1, h2⟩⟩
  -- the sort keys
  let κ : Nat → Int := fun s =>
    match (getRes b.store s).fragmentStartIfTrimmed fnd.fragment with
    | .ok v => v
    | .error _ => 0
  have hκV : ∀ j (hj : j < V.length), (getRes b.store V[j]).fragmentStartIfTrimmed fnd.fragment = .ok (κ V[j]) ∧
      κ V[j] ≤ hi j ∧ (0 < j → κ V[j] = lo j) := by
    intro j hj
    obtain ⟨v, hv, h1, h2⟩ := h.key j hj
    have : κ V[j] = v := by simp only [κ, hv]
    rw [this]; exact ⟨hv, h1, h2⟩
  have hκ : ∀ s ∈ fnd.scaffolds, (getRes b.store s).fragmentStartIfTrimmed fnd.fragment = .ok (κ s) := by
    intro s hs
    have hsV : s ∈ V := h.perm.symm.subset hs
    obtain ⟨j, hj, rfl⟩ := List.getElem_of_mem hsV
    exact (hκV j hj).1
  have hsorted : ((cutT b fnd.fragment V).map (·.1)).Pairwise (fun a c => κ a < κ c) := by
    rw [cutT_fst, List.pairwise_iff_getElem]
    intro i j hi' hj' hij
    have h1 := (hκV i hi').2.1
    have h2 := (hκV j hj').2.2 (by omega)
    have h3 := h.hi_mono (j - 1 - i) i (by omega)
    have h4 := h.abut (j - 1) (by omega)
    have e1 : i + (j - 1 - i) = j - 1 := by omega
    have e2 : j - 1 + 1 = j := by omega
    rw [e1] at h3; rw [e2] at h4
    omega
  have hperm : ((cutT b fnd.fragment V).map (·.1)).Perm fnd.scaffolds := by rw [cutT_fst]; exact h.perm
  -- the new fragments
  have hlenT := cutT_length b fnd.fragment V
  have hnews_len : ((cutT b fnd.fragment V).map (·.2.2)).length = V.length := by simp [hlenT]
  have hnews_get : ∀ j (hj : j < V.length), ∃ new, ((cutT b fnd.fragment V).map (·.2.2))[j]'(by omega) = new ∧
      new.start = (if j = 0 then fnd.fragment.start else lo j) ∧
      new.stop = (if j + 1 = V.length then fnd.fragment.stop else hi j) ∧ new.name = fnd.fragment.name := by
    intro j hj
    obtain ⟨o', new, _, hT, n1, n2, n3⟩ := hget j hj
    refine ⟨new, ?_, n1, n2, n3⟩
    have : ((cutT b fnd.fragment V).map (·.2.2))[j]? = some new := by
      rw [List.getElem?_map, hT]; rfl
    exact (List.getElem?_eq_some_iff.mp this).2
  obtain ⟨x, ts, hnews⟩ : ∃ x ts, (cutT b fnd.fragment V).map (·.2.2) = x :: ts := by
    cases hc : (cutT b fnd.fragment V).map (·.2.2) with
    | nil => rw [hc] at hnews_len; simp at hnews_len; omega
    | cons x ts => exact ⟨x, ts, rfl⟩
  have hadj : Adj Follows' (x :: ts) := by
    rw [← hnews]
    apply adj_of_get
    intro p hp
    rw [hnews_len] at hp
    obtain ⟨n1, e1, s1, t1, m1⟩ := hnews_get p (by omega)
    obtain ⟨n2, e2, s2, t2, m2⟩ := hnews_get (p + 1) hp
    rw [e1, e2]
    have g1 := h.geo p (by omega)
    have g2 := h.geo (p + 1) hp
    have hab := h.abut p hp
    have hv := h.valid
    refine ⟨m1.trans m2.symm, ?_, ?_, ?_⟩
    · rw [t1, if_neg (by omega), s1]; split <;> omega
    · rw [s2, t2, if_neg (by omega)]; split <;> omega
    · rw [t1, s2, if_neg (by omega), if_neg (by omega)]; exact hab
  have hstart : x.start = fnd.fragment.start := by
    obtain ⟨n1, e1, s1, _, _⟩ := hnews_get 0 hn
    have : ((cutT b fnd.fragment V).map (·.2.2))[0]'(by omega) = x := by simp [hnews]
    rw [← this, e1, s1, if_pos rfl]
  have hstop : ((x :: ts).getLast (by simp)).stop = fnd.fragment.stop := by
    obtain ⟨n1, e1, _, t1, _⟩ := hnews_get (V.length - 1) (by omega)
    have hl : (x :: ts).length = V.length := by rw [← hnews, hnews_len]
    rw [List.getLast_eq_getElem]
    have : (x :: ts)[(x :: ts).length - 1]'(by simp) = n1 := by
      rw [← e1]
      simp only [hl]
      congr 1
      exact hnews.symm
    rw [this, t1, if_pos (by omega)]
  have hmain := cutFragments_chain b fnd (cutT b fnd.fragment V) κ hκ hperm hsorted
    (by
      intro j t ht
      rw [hlenT]
      have hj : j < V.length := by
        rw [← hlenT]; exact (List.getElem?_eq_some_iff.mp ht).1
      obtain ⟨o', new, h1, h2, _⟩ := hget j hj
      rw [h2] at ht
      cases ht
      exact h1)
    x ts hnews hadj hstart hstop
  rw [hmain, hlenT]

end AgpTpf.C02
