/-
  T1c / C10 — helper lemmas for the tie between the model's `chromosomeNameCsv` and the translated source
  `Gen.Imp.AssemblyStats_chromosome_name_csv` (the text that `AssemblyStats.chromosome_name_csv` builds in a `StringIO`).

  1. `renderCsv`: the text of the rows (`name,chr,yes|no\n` each), `renderCsv_append`, `renderCsv_eq_nil`.
  2. run-time facts: `strReplace1 s p [] = replaceFirst p [] s` for EVERY `p` (also the empty one), `strTruthy = truthy`,
     `rank in (1, 2)`.
  3. `forIn_toSrc`: a loop whose body always falls through, seen through a state conversion, is a `foldl`.
  4. `csvSrc_eq`: the generated function in normal form — the only proof that unfolds the generated definition; the loop body enters
     through the side goal of `forIn_toSrc` and is closed by case analysis + `simp`, no generated sub-term is quoted.
  5. `renderCsv_injective`: the text determines the rows when no name / chromosome name contains a comma.
-/
import AgpTpf.Gen.Imp3
import AgpTpf.Proofs.C10Csv
namespace AgpTpf.ImpCsv
open AgpTpf AgpTpf.C10

/-! ### 1. the text of the CSV -/

/-- the third column -/
def yesNo (b : Bool) : Str := if b then "yes".toList else "no".toList

/-- one line: `",".join((name, chr_name, localised))` followed by `"\n"` -/
def csvLineText (r : Str × Str × Bool) : Str := joinWith ',' [r.1, r.2.1, yesNo r.2.2] ++ ['\n']

/-- the text `chromosome_name_csv` writes for these rows -/
def renderCsv (rows : List (Str × Str × Bool)) : Str := rows.flatMap csvLineText

theorem renderCsv_nil : renderCsv [] = [] := rfl

theorem renderCsv_cons (r : Str × Str × Bool) (rows : List (Str × Str × Bool)) :
    renderCsv (r :: rows) = csvLineText r ++ renderCsv rows := by
  simp [renderCsv]

theorem renderCsv_append (a b : List (Str × Str × Bool)) : renderCsv (a ++ b) = renderCsv a ++ renderCsv b := by
  simp [renderCsv]

theorem renderCsv_snoc (a : List (Str × Str × Bool)) (r : Str × Str × Bool) :
    renderCsv (a ++ [r]) = renderCsv a ++ csvLineText r := by
  simp [renderCsv]

theorem csvLineText_eq (r : Str × Str × Bool) :
    csvLineText r = r.1 ++ ',' :: (r.2.1 ++ ',' :: (yesNo r.2.2 ++ ['\n'])) := by
  simp [csvLineText, joinWith]

theorem csvLineText_ne_nil (r : Str × Str × Bool) : csvLineText r ≠ [] := by
  simp [csvLineText]

/-- `csv_str.tell()` is zero iff no line was written -/
theorem renderCsv_eq_nil (rows : List (Str × Str × Bool)) : renderCsv rows = [] ↔ rows = [] := by
  cases rows with
  | nil => simp [renderCsv]
  | cons r rows => simp [renderCsv_cons, csvLineText_ne_nil]

/-! ### 2. run-time operations -/

/-- with the empty prefix the model's `replaceFirst` copies the text -/
theorem replaceFirst_nil_old (new s : Str) : replaceFirst [] new s = s := by
  induction s with
  | nil => rfl
  | cons c cs ih => simp [replaceFirst, ih]

/-- `name.replace(prefix, "", 1)`: the source's operation and the model's agree for EVERY prefix.  (For an empty `old` and a non-empty
    `new` they differ — Python inserts `new` in front, `replaceFirst` copies — but the replacement text here is `""`.) -/
theorem strReplace1_nil_new (s p : Str) : PyRt.strReplace1 s p [] = replaceFirst p [] s := by
  unfold PyRt.strReplace1
  cases p with
  | nil => simp [replaceFirst_nil_old]
  | cons c cs => simp

theorem strTruthy_eq_truthy (o : Option Str) : PyRt.strTruthy o = truthy o := by
  cases o with
  | none => rfl
  | some s => cases s <;> rfl

/-- `rank in (1, 2)` -/
theorem rank_in_1_2 (r : Int) : (([(1 : Int), (2 : Int)]).contains r = true) ↔ (r = 1 ∨ r = 2) := by
  simp

/-! ### 3. the loop -/

/-- a body that only updates the loop state, seen through a state conversion `toSrc`: the loop is a `foldl` -/
theorem forIn_toSrc {α σ τ ρ : Type} (toSrc : τ → σ) (f : τ → α → τ) (body : α → σ → R (PyRt.Ctl σ ρ))
    (hbody : ∀ x t, body x (toSrc t) = .ok (.next (toSrc (f t x)))) (xs : List α) (t : τ) :
    PyRt.forIn xs (toSrc t) body = .ok (.fell (toSrc (xs.foldl f t))) := by
  induction xs generalizing t with
  | nil => rfl
  | cons x xs ih => rw [PyRt.forIn, hbody]; exact ih _

/-- THE place that knows the order of the generated loop-state tuple (the translator sorts the carried variables by the Lean text
    of their type, then by name): `csv_str`, `orig_chr_name` ↦ the generated tuple -/
abbrev csvSt (csv_str : Str) (orig_chr_name : List (Option Str × Str)) : List (Option Str × Str) × Str :=
  (orig_chr_name, csv_str)

/-- the loop state of the source (`csv_str`, `orig_chr_name`) for the model's state (`out`, `seen`) -/
def toSrc (t : List (Str × Str × Bool) × List (Option Str × Str)) : List (Option Str × Str) × Str :=
  csvSt (renderCsv t.1) t.2

theorem toSrc_init : csvSt ([] : Str) ([] : List (Option Str × Str)) = toSrc ([], []) := rfl

/-- the model's step, by cases, in the shape the source's body has -/
theorem csvStep_cases (p : Str) (out : List (Str × Str × Bool)) (seen : List (Option Str × Str)) (s : Scaffold) :
    csvStep p (out, seen) s =
      if s.rank = 1 ∨ s.rank = 2 then
        if (truthy s.originalName && dHas seen s.originalName) = true then
          (out ++ [(s.name, (dGet? seen s.originalName).getD [], false)], seen)
        else
          (out ++ [(s.name, replaceFirst p [] s.name, true)], dSet seen s.originalName (replaceFirst p [] s.name))
      else (out, seen) := by
  by_cases hr : s.rank = 1 ∨ s.rank = 2
  · rw [if_pos hr]
    by_cases ht : truthy s.originalName = true
    · cases hg : dGet? seen s.originalName with
      | some cn =>
        rw [csvStep_some p out seen s cn hr ht hg]
        simp [ht, dHas, hg]
      | none =>
        rw [csvStep_none p out seen s hr (by rw [if_pos ht, hg])]
        simp [dHas, hg]
    · rw [csvStep_none p out seen s hr (by rw [if_neg ht])]
      simp [ht]
  · rw [if_neg hr]; unfold csvStep; simp only [if_neg hr]

/-! ### 4. the generated function in normal form -/

theorem csvSrc_eq (asm : Assembly) (p : Str) :
    Gen.Imp.AssemblyStats_chromosome_name_csv asm p =
      .ok (if (chromosomeNameCsv p asm.scaffolds).isEmpty then none
           else some (renderCsv (chromosomeNameCsv p asm.scaffolds))) := by
  unfold Gen.Imp.AssemblyStats_chromosome_name_csv
  simp only []
  have hinit := toSrc_init
  dsimp only [csvSt] at hinit
  rw [hinit, forIn_toSrc toSrc (csvStep p)]
  · rw [chromosomeNameCsv_eq]
    generalize (List.foldl (csvStep p) ([], []) asm.scaffolds) = t
    obtain ⟨out, seen⟩ := t
    cases out with
    | nil => simp [bind, Except.bind, toSrc, renderCsv_nil]
    | cons r out =>
      have h : renderCsv (r :: out) ≠ [] := by simp [renderCsv_eq_nil]
      simp [bind, Except.bind, toSrc, h]
  · rintro s ⟨out, seen⟩
    rw [csvStep_cases]
    simp only [toSrc, strTruthy_eq_truthy, rank_in_1_2]
    by_cases hr : s.rank = 1 ∨ s.rank = 2
    · simp only [if_pos hr]
      by_cases hc : (truthy s.originalName && dHas seen s.originalName) = true
      · simp only [if_pos hc]
        have hh : dHas seen s.originalName = true := by
          simp only [Bool.and_eq_true] at hc; exact hc.2
        unfold dHas at hh
        cases hg : dGet? seen s.originalName with
        | none => rw [hg] at hh; cases hh
        | some cn =>
          simp [PyRt.dictGet, hg, bind, Except.bind, renderCsv_snoc, csvLineText, yesNo]
      · simp only [if_neg hc]
        simp [bind, Except.bind, renderCsv_snoc, csvLineText, yesNo, strReplace1_nil_new]
    · simp only [if_neg hr]
      simp [bind, Except.bind]

/-! ### 5. the text determines the rows -/

/-- splitting at the first separator is unique -/
theorem append_sep_inj {sep : Char} : ∀ (a a' b b' : Str), sep ∉ a → sep ∉ a' →
    a ++ sep :: b = a' ++ sep :: b' → a = a' ∧ b = b' := by
  intro a
  induction a with
  | nil =>
    intro a' b b' _ ha' h
    cases a' with
    | nil => simpa using h
    | cons c cs =>
      simp only [List.nil_append, List.cons_append, List.cons.injEq] at h
      exact absurd (by simp [h.1]) ha'
  | cons x xs ih =>
    intro a' b b' ha ha' h
    cases a' with
    | nil =>
      simp only [List.nil_append, List.cons_append, List.cons.injEq] at h
      exact absurd (by simp [h.1]) ha
    | cons c cs =>
      simp only [List.cons_append, List.cons.injEq] at h
      simp only [List.mem_cons, not_or] at ha ha'
      obtain ⟨e1, e2⟩ := ih cs b b' ha.2 ha'.2 h.2
      exact ⟨by rw [h.1, e1], e2⟩

theorem yesNo_no_newline (b : Bool) : '\n' ∉ yesNo b := by
  cases b <;> decide

theorem yesNo_injective {b b' : Bool} (h : yesNo b = yesNo b') : b = b' := by
  cases b <;> cases b' <;> first | rfl | (exact absurd h (by decide))

/-- rows without a comma in the name and in the chromosome name -/
def CommaFree (rows : List (Str × Str × Bool)) : Prop := ∀ r ∈ rows, ',' ∉ r.1 ∧ ',' ∉ r.2.1

theorem renderCsv_injective : ∀ (rows rows' : List (Str × Str × Bool)), CommaFree rows → CommaFree rows' →
    renderCsv rows = renderCsv rows' → rows = rows' := by
  intro rows
  induction rows with
  | nil =>
    intro rows' _ _ h
    rw [renderCsv_nil] at h
    exact ((renderCsv_eq_nil rows').1 h.symm).symm
  | cons r rows ih =>
    intro rows' hc hc' h
    cases rows' with
    | nil =>
      rw [renderCsv_nil] at h
      exact (renderCsv_eq_nil _).1 h
    | cons r' rows' =>
      obtain ⟨n, c, b⟩ := r
      obtain ⟨n', c', b'⟩ := r'
      have h1 := hc (n, c, b) (by simp)
      have h1' := hc' (n', c', b') (by simp)
      simp only [renderCsv_cons, csvLineText_eq, List.append_assoc, List.cons_append, List.nil_append] at h
      obtain ⟨en, h⟩ := append_sep_inj _ _ _ _ h1.1 h1'.1 h
      obtain ⟨ec, h⟩ := append_sep_inj _ _ _ _ h1.2 h1'.2 h
      obtain ⟨eb, h⟩ := append_sep_inj _ _ _ _ (yesNo_no_newline b) (yesNo_no_newline b') h
      have hr : rows = rows' :=
        ih rows' (fun r hr => hc r (List.mem_cons_of_mem _ hr)) (fun r hr => hc' r (List.mem_cons_of_mem _ hr)) h
      have en : n = n' := en
      have ec : c = c' := ec
      rw [en, ec, yesNo_injective eb, hr]

end AgpTpf.ImpCsv
