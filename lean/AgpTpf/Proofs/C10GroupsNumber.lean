/-
  C10, single-haplotype chromosome numbering, part 3: `name_chromosomes` = sort the runs by length (descending, stable)
  and rename run k to <prefix>(k+1).
-/
import AgpTpf.Model.Remap
import AgpTpf.Proofs.C09Split
import AgpTpf.Proofs.C10Rename
import AgpTpf.Proofs.C10Groups
import AgpTpf.Proofs.C10GroupsBuild
import AgpTpf.Proofs.C20
namespace AgpTpf.C10
open AgpTpf

/-- `ChrNamer.name_chromosomes` for a non-empty `haplotypes_seen` (verbatim middle block of `assembliesFused`) -/
def nameChromosomes (prefix_ : Str) (fs : List Scaffold) (haps : List Str) (entries : List (Str × Nat)) :
    R (List Scaffold) := do
  let groups ← buildGroups fs haps entries
  if groupsHaveErrors groups then throw .chrNamer
  let keyed ← groups.mapM (fun g => do let l ← groupFirstLength fs g; pure (l, g))
  let sorted := (stableSort (fun (a c : Int × GroupData) => a.1 ≥ c.1) keyed).map (·.2)
  pure (((List.range sorted.length).zip sorted).foldl (fun fs (p : Nat × GroupData) => nameGroup fs p.2 prefix_ (p.1 + 1)) fs)

/-- `finishAssemblies` (= the part of `assembliesFused` after the split loop) is `name_chromosomes` followed by the
    sort / stats tail -/
theorem finishAssemblies_eq_name (input : List Scaffold) (b : Build) (asms : C09.Asms) (entries : List (Str × Nat))
    (haps : List Str) (fs : List Scaffold) :
    C09.finishAssemblies input b (asms, entries, haps, fs) =
      (if haps.isEmpty then pure fs else nameChromosomes b.namer.autosomePrefix fs haps entries)
        >>= C09.outsTail input b asms := by
  unfold C09.finishAssemblies nameChromosomes C09.outsTail
  simp only []
  split
  · simp only [pure_bind]
  · simp only [bind_assoc, pure_bind]
    congr 1
    funext groups
    split <;> simp only [bind_assoc, pure_bind]

theorem ok_bind {α β} (a : α) (f : α → R β) : ((Except.ok a : R α) >>= f) = f a := rfl

/-- total fragments length of a chromosome with its unlocs -/
def runLength (fs : List Scaffold) (r : Run) : Int := sumInts (r.2.map (fun i => (fs.getD i default).fragmentsLength))

theorem groupFirstLength_mk (fs : List Scaffold) (h : Str) (r : Run) :
    groupFirstLength fs (mkGroup h r) = .ok (runLength fs r) := rfl

/-- the runs, longest first, ties in Pretext order -/
def sortedRuns (fs : List Scaffold) (rs : List Run) : List Run :=
  stableSort (fun a c => decide (runLength fs a ≥ runLength fs c)) rs

theorem insertBy_map {α β} (f : α → β) (le : β → β → Bool) (x : α) (m : List α) :
    insertBy le (f x) (m.map f) = (insertBy (fun a b => le (f a) (f b)) x m).map f := by
  induction m with
  | nil => rfl
  | cons y ys ih =>
    simp only [List.map_cons, insertBy]
    split
    · simp
    · simp [ih]

theorem stableSort_map {α β} (f : α → β) (le : β → β → Bool) (l : List α) :
    stableSort le (l.map f) = (stableSort (fun a b => le (f a) (f b)) l).map f := by
  induction l with
  | nil => rfl
  | cons x xs ih => simp only [List.map_cons, stableSort, ih, insertBy_map]

/-- renaming of the runs `ps = [(k, (orig, ids)), …]` in sequence -/
def nameRuns (prefix_ : Str) (ps : List (Nat × Run)) (fs : List Scaffold) : List Scaffold :=
  ps.foldl (fun fs p => p.2.2.foldl (renameAt p.2.1 (prefix_ ++ natToStr (p.1 + 1))) fs) fs

theorem nameGroups_eq (prefix_ : Str) (h : Str) : ∀ (ps : List (Nat × Run)) (fs : List Scaffold),
    (ps.map (fun p => (p.1, mkGroup h p.2))).foldl
        (fun fs (p : Nat × GroupData) => nameGroup fs p.2 prefix_ (p.1 + 1)) fs = nameRuns prefix_ ps fs := by
  intro ps
  induction ps with
  | nil => intro fs; rfl
  | cons p r ih =>
    intro fs
    obtain ⟨k, o, ids⟩ := p
    simp only [List.map_cons, List.foldl_cons, nameRuns]
    rw [ih]
    rfl

theorem zip_range_map {α β} (f : α → β) (l : List α) :
    (List.range (l.map f).length).zip (l.map f) = ((List.range l.length).zip l).map (fun p => (p.1, f p.2)) := by
  rw [List.length_map]
  generalize List.range l.length = ks
  induction l generalizing ks with
  | nil => simp
  | cons x xs ih =>
    cases ks with
    | nil => rfl
    | cons k ks => simp [ih]

/-- **name_chromosomes, one haplotype** as a pure function of the runs -/
theorem nameChromosomes_single (prefix_ : Str) (fs : List Scaffold) (h : Str) (entries : List (Str × Nat))
    (hne : entries ≠ []) (hh : ∀ e ∈ entries, e.1 = h)
    (hg : ∀ e ∈ entries, truthy (fs.getD e.2 default).originalName = true) :
    nameChromosomes prefix_ fs [h] entries =
      .ok (nameRuns prefix_
            ((List.range (sortedRuns fs (groupRuns (origPairs fs entries))).length).zip
              (sortedRuns fs (groupRuns (origPairs fs entries)))) fs) := by
  unfold nameChromosomes
  rw [buildGroups_single_ok fs h entries hne hh hg]
  rw [ok_bind]
  simp only [groupsHaveErrors_single, Bool.false_eq_true, if_false]
  have hm := C20.mapM_ok (fun g => (do let l ← groupFirstLength fs g; pure (l, g) : R (Int × GroupData)))
    (fun g => ((match groupFirstLength fs g with | .ok v => v | .error _ => 0), g))
    ((groupRuns (origPairs fs entries)).map (mkGroup h))
    (by
      intro g hgm
      obtain ⟨r, _, rfl⟩ := List.mem_map.1 hgm
      rw [groupFirstLength_mk]; rfl)
  rw [hm, ok_bind]
  simp only [List.map_map]
  have hk : ((fun g => ((match groupFirstLength fs g with | .ok v => v | .error _ => 0), g)) ∘ mkGroup h)
      = (fun r : Run => (runLength fs r, mkGroup h r)) := by
    funext r; rfl
  rw [hk, stableSort_map, List.map_map]
  have hs : ((fun x : Int × GroupData => x.2) ∘ fun r : Run => (runLength fs r, mkGroup h r)) = mkGroup h := by
    funext r; rfl
  rw [hs]
  show Except.ok _ = _
  rw [zip_range_map, nameGroups_eq]
  rfl

/-- effect of `nameRuns` when no scaffold id occurs twice -/
theorem nameRuns_spec (prefix_ : Str) : ∀ (ps : List (Nat × Run)) (fs : List Scaffold),
    (ps.flatMap (fun p => p.2.2)).Nodup →
    (nameRuns prefix_ ps fs).length = fs.length ∧
    (∀ j, j ∉ ps.flatMap (fun p => p.2.2) → (nameRuns prefix_ ps fs).getD j default = fs.getD j default) ∧
    (∀ p ∈ ps, ∀ j ∈ p.2.2, (nameRuns prefix_ ps fs).getD j default =
        renameScaffold p.2.1 (prefix_ ++ natToStr (p.1 + 1)) (fs.getD j default)) := by
  intro ps
  induction ps with
  | nil => intro fs _; exact ⟨rfl, fun _ _ => rfl, fun p hp => (by cases hp)⟩
  | cons q r ih =>
    intro fs hnd
    rw [List.flatMap_cons, List.nodup_append] at hnd
    obtain ⟨hq, hr, hdis⟩ := hnd
    obtain ⟨a, b, c⟩ := foldl_renameAt q.2.1 (prefix_ ++ natToStr (q.1 + 1)) q.2.2 fs hq
    obtain ⟨a', b', c'⟩ := ih (q.2.2.foldl (renameAt q.2.1 (prefix_ ++ natToStr (q.1 + 1))) fs) hr
    have hunf : nameRuns prefix_ (q :: r) fs =
        nameRuns prefix_ r (q.2.2.foldl (renameAt q.2.1 (prefix_ ++ natToStr (q.1 + 1))) fs) := rfl
    rw [hunf]
    refine ⟨a'.trans a, ?_, ?_⟩
    · intro j hj
      rw [List.flatMap_cons, List.mem_append, not_or] at hj
      rw [b' j hj.2, b j hj.1]
    · intro p hp j hj
      rcases List.mem_cons.1 hp with e | hp
      · subst e
        have hnr : j ∉ r.flatMap (fun p => p.2.2) := fun hjr => hdis j hj j hjr rfl
        rw [b' j hnr, c j hj]
      · have hjr : j ∈ r.flatMap (fun p => p.2.2) := List.mem_flatMap.2 ⟨p, hp, hj⟩
        have hnq : j ∉ q.2.2 := fun hjq => hdis j hjq j hjr rfl
        rw [c' p hp j hj, b j hnq]

theorem mem_zip_range {α} (l : List α) (k : Nat) (hk : k < l.length) : (k, l[k]) ∈ (List.range l.length).zip l := by
  rw [List.mem_iff_getElem]
  refine ⟨k, by simpa using hk, ?_⟩
  simp

theorem zip_flatMap_snd {α β} (f : α → List β) : ∀ (l : List α) (ks : List Nat), l.length ≤ ks.length →
    (ks.zip l).flatMap (fun p => f p.2) = l.flatMap f := by
  intro l
  induction l with
  | nil => intro ks _; simp
  | cons x xs ih =>
    intro ks hl
    cases ks with
    | nil => simp at hl
    | cons k ks =>
      simp only [List.zip_cons_cons, List.flatMap_cons]
      rw [ih ks (by simpa using hl)]

theorem zip_range_flatMap {α β} (f : α → List β) (l : List α) :
    ((List.range l.length).zip l).flatMap (fun p => f p.2) = l.flatMap f :=
  zip_flatMap_snd f l (List.range l.length) (by simp)

theorem flatMap_ids_runs (l : List (Str × Nat)) : (groupRuns l).flatMap (fun r => r.2) = l.map (·.2) := by
  have h := (groupRuns_spec l).1
  have := congrArg (List.map (fun p : Str × Nat => p.2)) h
  rw [← this]
  unfold flattenRuns
  rw [List.map_flatMap]
  congr 1
  funext r
  simp [Function.comp_def]

/-- every id of a run is an entry id whose Pretext name is the run's name -/
theorem runs_orig (fs : List Scaffold) (entries : List (Str × Nat)) :
    ∀ r ∈ groupRuns (origPairs fs entries), ∀ i ∈ r.2, r.1 = origOf fs i ∧ i ∈ entries.map (·.2) := by
  intro r hr i hi
  have hmem : (r.1, i) ∈ flattenRuns (groupRuns (origPairs fs entries)) :=
    List.mem_flatMap.2 ⟨r, hr, List.mem_map.2 ⟨i, hi, rfl⟩⟩
  rw [(groupRuns_spec _).1] at hmem
  obtain ⟨e, he, heq⟩ := List.mem_map.1 hmem
  simp only [Prod.mk.injEq] at heq
  exact ⟨by rw [← heq.1, heq.2], List.mem_map.2 ⟨e, he, heq.2⟩⟩

/-- every entry lies in a run carrying its Pretext name -/
theorem runs_cover (fs : List Scaffold) (entries : List (Str × Nat)) :
    ∀ e ∈ entries, ∃ r ∈ groupRuns (origPairs fs entries), r.1 = origOf fs e.2 ∧ e.2 ∈ r.2 := by
  intro e he
  have hmem : (origOf fs e.2, e.2) ∈ flattenRuns (groupRuns (origPairs fs entries)) := by
    rw [(groupRuns_spec _).1]; exact List.mem_map.2 ⟨e, he, rfl⟩
  obtain ⟨r, hr, hm⟩ := List.mem_flatMap.1 hmem
  obtain ⟨i, hi, heq⟩ := List.mem_map.1 hm
  simp only [Prod.mk.injEq] at heq
  exact ⟨r, hr, heq.1, heq.2 ▸ hi⟩

theorem sortedRuns_perm (fs : List Scaffold) (rs : List Run) : (sortedRuns fs rs).Perm rs := stableSort_perm _ rs

theorem sortedRuns_sorted (fs : List Scaffold) (rs : List Run) :
    (sortedRuns fs rs).Pairwise (fun a b => runLength fs a ≥ runLength fs b) := by
  have := stableSort_sorted (fun a b : Run => decide (runLength fs a ≥ runLength fs b))
    (by intro a b; simp only [decide_eq_true_eq]; omega)
    (by intro a b c; simp only [decide_eq_true_eq]; omega) rs
  exact this.imp (fun h => by simpa using h)

theorem sortedRuns_stable (fs : List Scaffold) (rs : List Run) (L : Int) :
    (sortedRuns fs rs).filter (fun r => runLength fs r = L) = rs.filter (fun r => runLength fs r = L) :=
  stableSort_filter _ _ (by intro x y hx hy; simp only [decide_eq_true_eq] at hx hy ⊢; omega) rs

/-- the ids of the sorted runs are the entry ids, each once -/
theorem sortedRuns_ids_nodup (fs : List Scaffold) (entries : List (Str × Nat)) (hnd : (entries.map (·.2)).Nodup) :
    ((sortedRuns fs (groupRuns (origPairs fs entries))).flatMap (fun r => r.2)).Nodup := by
  have hp := (sortedRuns_perm fs (groupRuns (origPairs fs entries))).flatMap_right (fun r => r.2)
  rw [hp.nodup_iff, flatMap_ids_runs]
  simpa [origPairs, List.map_map, Function.comp_def] using hnd

/-- **numbering**: effect of `nameRuns` on the sorted runs, by position -/
theorem numbering_core (prefix_ : Str) (fs : List Scaffold) (entries : List (Str × Nat))
    (hnd : (entries.map (·.2)).Nodup) :
    let sorted := sortedRuns fs (groupRuns (origPairs fs entries))
    let fs' := nameRuns prefix_ ((List.range sorted.length).zip sorted) fs
    fs'.length = fs.length ∧
    (∀ j, j ∉ entries.map (·.2) → fs'.getD j default = fs.getD j default) ∧
    (∀ k (hk : k < sorted.length), ∀ j ∈ sorted[k].2,
        fs'.getD j default = renameScaffold sorted[k].1 (prefix_ ++ natToStr (k + 1)) (fs.getD j default)) := by
  intro sorted fs'
  have hfl : ((List.range sorted.length).zip sorted).flatMap (fun p => p.2.2) = sorted.flatMap (fun r => r.2) :=
    zip_range_flatMap (fun r : Run => r.2) sorted
  have hnd' := sortedRuns_ids_nodup fs entries hnd
  obtain ⟨a, b, c⟩ := nameRuns_spec prefix_ ((List.range sorted.length).zip sorted) fs (by rw [hfl]; exact hnd')
  refine ⟨a, ?_, ?_⟩
  · intro j hj
    apply b j
    rw [hfl]
    intro hmem
    obtain ⟨r, hr, hjr⟩ := List.mem_flatMap.1 hmem
    have hr' : r ∈ groupRuns (origPairs fs entries) := (sortedRuns_perm fs _).mem_iff.1 hr
    exact hj (runs_orig fs entries r hr' j hjr).2
  · intro k hk j hj
    exact c (k, sorted[k]) (mem_zip_range sorted k hk) j hj

end AgpTpf.C10
